(* Proofs about Model/Outgoing.v: the invariant of the shared tables, the per-event frame lemma,
   "first response wins" (the model's futures are the reference Spec.OutgoingSpec.spec), and the
   named clauses of C05; C16_outgoing at the end. *)
From Coq Require Import ZArith NArith List Bool Lia Arith Permutation.
From Pygls Require Import Base.AssocOut Model.Outgoing Spec.OutgoingSpec.
Import ListNotations.

(* ------------------------------------------------------------------ key equalities *)
Lemma str_eqb_eq a b : str_eqb a b = true <-> a = b.
Proof.
  revert b. induction a as [|x a IH]; destruct b as [|y b]; cbn [str_eqb]; try (split; congruence).
  rewrite andb_true_iff, N.eqb_eq, IH. split; [intros [-> ->]; reflexivity|intros H; injection H; auto].
Qed.

Lemma id_eqb_eq a b : id_eqb a b = true <-> a = b.
Proof.
  destruct a, b; cbn [id_eqb]; try (split; congruence).
  - rewrite Z.eqb_eq. split; congruence.
  - rewrite str_eqb_eq. split; congruence.
  - rewrite N.eqb_eq. split; congruence.
  - rewrite N.eqb_eq. split; congruence.
Qed.

Lemma id_eqb_refl i : id_eqb i i = true.
Proof. apply id_eqb_eq. reflexivity. Qed.

Lemma id_eqb_neq a b : a <> b -> id_eqb a b = false.
Proof. apply (eqb_neq id_eqb id_eqb_eq). Qed.

Lemma id_eqb_sym a b : id_eqb a b = id_eqb b a.
Proof.
  destruct (id_eqb a b) eqn:E.
  - apply id_eqb_eq in E. subst. symmetry. apply id_eqb_refl.
  - symmetry. apply id_eqb_neq. intros ->. rewrite id_eqb_refl in E. discriminate.
Qed.

Lemma id_eq_dec (a b : id) : {a = b} + {a <> b}.
Proof.
  destruct (id_eqb a b) eqn:E; [left; apply id_eqb_eq, E|right].
  intros ->. rewrite id_eqb_refl in E. discriminate.
Qed.

Notation nget := (aget Nat.eqb).
Notation iget := (aget id_eqb).

(* ------------------------------------------------------------------ association list extras *)
Lemma aget_of_in {V} (l : list (nat * V)) k v :
  NoDup (map fst l) -> In (k, v) l -> nget k l = Some v.
Proof.
  induction l as [|[k' v'] r IH]; cbn [map fst aget In]; [intros _ []|].
  intros ND [H|H].
  - injection H as -> ->. rewrite Nat.eqb_refl. reflexivity.
  - inversion ND as [|? ? Hn ND']; subst. destruct (Nat.eqb k' k) eqn:E.
    + apply Nat.eqb_eq in E. subst. exfalso. apply Hn. apply (in_map fst) in H. exact H.
    + apply IH; assumption.
Qed.

Lemma nget_in {V} (l : list (nat * V)) k v : nget k l = Some v -> In (k, v) l.
Proof. apply (aget_in Nat.eqb Nat.eqb_eq). Qed.

Lemma nget_map {V} (g : nat -> V -> V) (l : list (nat * V)) k :
  nget k (map (fun kv => (fst kv, g (fst kv) (snd kv))) l) = option_map (g k) (nget k l).
Proof.
  induction l as [|[k' v] r IH]; cbn [map aget fst snd option_map]; [reflexivity|].
  destruct (Nat.eqb k' k) eqn:E; [|exact IH]. apply Nat.eqb_eq in E. subst. reflexivity.
Qed.

Lemma nget_app_new {V} (l : list (nat * V)) k v :
  map fst l = seq 0 (length l) ->
  nget k (l ++ [(length l, v)]) = if Nat.eqb k (length l) then Some v else nget k l.
Proof.
  intros H. rewrite (aget_app Nat.eqb). destruct (nget k l) eqn:E.
  - apply nget_in in E. apply (in_map fst) in E. rewrite H in E. apply in_seq in E. cbn [fst] in E.
    replace (Nat.eqb k (length l)) with false; [reflexivity|]. symmetry. apply Nat.eqb_neq. lia.
  - cbn [aget]. rewrite Nat.eqb_sym. reflexivity.
Qed.

Lemma aupd_aupd {V} k (f g : V -> V) (l : list (nat * V)) :
  aupd Nat.eqb k g (aupd Nat.eqb k f l) = aupd Nat.eqb k (fun v => g (f v)) l.
Proof.
  induction l as [|[k' v] r IH]; cbn [aupd]; [reflexivity|]. rewrite IH.
  destruct (Nat.eqb k' k) eqn:E; cbn [aupd]; rewrite ?E; reflexivity.
Qed.

Lemma map_fst_aupd {V} k (f : V -> V) (l : list (nat * V)) : map fst (aupd Nat.eqb k f l) = map fst l.
Proof. apply (akeys_aupd Nat.eqb). Qed.

(* ------------------------------------------------------------------ class table *)
Lemma class_of_code_spec c : class_of_code c = spec_class c.
Proof.
  unfold class_of_code, spec_class, exact_codes. cbn [find fst snd].
  rewrite !(Z.eqb_sym c).
  repeat match goal with |- context [Z.eqb ?a c] => destruct (Z.eqb a c); [reflexivity|] end.
  reflexivity.
Qed.

(* ------------------------------------------------------------------ what one event does to one future *)
Definition apply_c (c : completion) (o : ofut) : ofut :=
  match c with
  | CRes p => let o' := set_ost o (Resolved (ort o) p) in if cbflag (ocb o) then called o' else o'
  | CErr code m d => set_ost o (Failed (class_of_code code) code m d)
  | CCancel => set_ost o Cancelled
  end.

Definition one (e : ev) (k : nat) (o : ofut) : ofut :=
  if is_pending (ost o) then match rel (oid o) k e with Some c => apply_c c o | None => o end else o.

Definition one_step (e : ev) (ko : nat * ofut) : nat * ofut := (fst ko, one e (fst ko) (snd ko)).

Lemma apply_c_not_pending c o : is_pending (ost (apply_c c o)) = false.
Proof. destruct c; cbn [apply_c]; try destruct (cbflag (ocb o)); reflexivity. Qed.

Lemma apply_c_oid c o : oid (apply_c c o) = oid o /\ ort (apply_c c o) = ort o /\ ocb (apply_c c o) = ocb o.
Proof. destruct c; cbn [apply_c]; try destruct (cbflag (ocb o)); repeat split. Qed.

Lemma one_oid e k o : oid (one e k o) = oid o /\ ort (one e k o) = ort o /\ ocb (one e k o) = ocb o.
Proof.
  unfold one. destruct (is_pending (ost o)); [|repeat split].
  destruct (rel (oid o) k e); [apply apply_c_oid|repeat split].
Qed.

Lemma one_not_pending e k o : is_pending (ost o) = false -> one e k o = o.
Proof. unfold one. intros ->. reflexivity. Qed.

Lemma one_pending_inv e k o :
  is_pending (ost (one e k o)) = true -> is_pending (ost o) = true /\ rel (oid o) k e = None /\ one e k o = o.
Proof.
  unfold one. destruct (is_pending (ost o)) eqn:P.
  - destruct (rel (oid o) k e) eqn:R; [rewrite apply_c_not_pending; discriminate|]. auto.
  - rewrite P. discriminate.
Qed.

Lemma map_one_step_fst e l : map fst (map (one_step e) l) = map fst l.
Proof. rewrite map_map. reflexivity. Qed.

Lemma nget_one_step e l k : nget k (map (one_step e) l) = option_map (one e k) (nget k l).
Proof. apply (nget_map (one e)). Qed.

(* ------------------------------------------------------------------ the invariant *)
Record Inv (s : st) : Prop := {
  inv_handles : map fst (ofuts s) = seq 0 (length (ofuts s));
  (* a pending future is registered in both tables under its id, with its own result type *)
  inv_pending : forall k o, nget k (ofuts s) = Some o -> is_pending (ost o) = true ->
      iget (oid o) (futs s) = Some (FOut k) /\ iget (oid o) (rtypes s) = Some (ort o);
  (* an outgoing entry of _request_futures points to the future that was sent with that id *)
  inv_futs : forall i k, iget i (futs s) = Some (FOut k) ->
      exists o, nget k (ofuts s) = Some o /\ oid o = i
}.

Lemma inv_nodup s : Inv s -> NoDup (map fst (ofuts s)).
Proof. intros I. rewrite (inv_handles s I). apply seq_NoDup. Qed.

Lemma inv_init : Inv init.
Proof. split; cbn; [reflexivity|discriminate|discriminate]. Qed.

(* no future of s was sent with id i *)
Definition fresh (s : st) (i : id) : Prop := forall k o, nget k (ofuts s) = Some o -> oid o <> i.
(* no OUTSTANDING request of s has id i *)
Definition free_id (s : st) (i : id) : Prop :=
  forall k o, nget k (ofuts s) = Some o -> is_pending (ost o) = true -> oid o <> i.

(* what the hypotheses of the theorem say about one event in the state it meets *)
Definition ok_ev (s : st) (e : ev) : Prop :=
  match e with
  | UserSend _ _ _ mid => free_id s (fst (send_id mid (next s)))
  | RecvResult i _ oks => forall k o, nget k (ofuts s) = Some o -> is_pending (ost o) = true ->
                          oid o = i -> mem_n (ort o) oks = true
  | RecvError _ c _ _ => int32 c = true
  | InReply i | InAsyncReg i | InAsyncDone i _ | InCancel i => fresh s i
  | _ => True
  end.

(* ---- projections of the small-step functions ---- *)
Definition oc_of (c : completion) (rt : N) : option outcome :=
  match c with CRes p => Some (ORes rt p) | CErr a b d => Some (OErr a b d) | CCancel => None end.

Lemma complete_tables s k oc : futs (complete s k oc) = futs s /\ rtypes (complete s k oc) = rtypes s
                               /\ next (complete s k oc) = next s /\ out (complete s k oc) = out s.
Proof.
  unfold complete_with, xnone. destruct (nget k (ofuts s)) as [o|]; [|auto].
  destruct (is_pending (ost o)); [|auto].
  unfold run_callbacks. destruct oc; cbn [ost set_ost ocb]; [|auto].
  destruct (ocb o) as [|kn|kn|tok ucb]; [auto|auto|auto|]. destruct ucb; auto.
Qed.

Lemma complete_ofuts_pending s k oc o :
  nget k (ofuts s) = Some o -> is_pending (ost o) = true ->
  ofuts (complete s k oc) =
  aupd Nat.eqb k (fun _ => match oc with
                           | ORes rt p => let o' := set_ost o (Resolved rt p) in
                                          if cbflag (ocb o) then called o' else o'
                           | OErr c m d => set_ost o (Failed (class_of_code c) c m d)
                           end) (ofuts s).
Proof.
  intros G P. unfold complete_with, xnone. rewrite G, P. unfold run_callbacks.
  destruct oc; cbn [ost set_ost ocb]; [|reflexivity].
  destruct (ocb o) as [|kn|kn|tok ucb]; cbn [cbflag ofuts set_ofuts register_token set_tokens].
  - reflexivity.
  - rewrite aupd_aupd. reflexivity.
  - reflexivity.
  - destruct ucb; cbn [ofuts set_ofuts register_token set_tokens]; [rewrite aupd_aupd|]; reflexivity.
Qed.

Lemma complete_ofuts_done s k oc o :
  nget k (ofuts s) = Some o -> is_pending (ost o) = false -> ofuts (complete s k oc) = ofuts s.
Proof. intros G P. unfold complete_with, xnone. rewrite G, P. reflexivity. Qed.

Lemma handle_response_tables s i oc :
  rtypes (handle_response s i oc) = rtypes s /\ next (handle_response s i oc) = next s /\
  out (handle_response s i oc) = out s /\
  futs (handle_response s i oc) = adel id_eqb i (futs s).
Proof.
  unfold handle_response_with. destruct (iget i (futs s)) as [r|] eqn:G.
  - destruct r as [k|]; cbn [hook futs rtypes next out set_futs].
    + destruct (complete_tables (set_futs s (adel id_eqb i (futs s))) k oc) as (A & B & C & D).
      rewrite A, B, C, D. auto.
    + auto.
  - cbn [hook futs rtypes next out]. rewrite (adel_none id_eqb i (futs s) G). auto.
Qed.

(* ---- helper: a list equals the map of one_step ---- *)
Lemma map_one_id e (l : list (nat * ofut)) :
  (forall k o, In (k, o) l -> one e k o = o) -> map (one_step e) l = l.
Proof.
  intros H. rewrite <- (map_id l) at 2. apply map_ext_in. intros [k o] I. unfold one_step.
  cbn [fst snd]. rewrite (H k o I). reflexivity.
Qed.

Lemma map_one_upd e (l : list (nat * ofut)) k0 o1 :
  (forall k o, In (k, o) l -> k <> k0 -> one e k o = o) ->
  (forall o, In (k0, o) l -> one e k0 o = o1) ->
  aupd Nat.eqb k0 (fun _ => o1) l = map (one_step e) l.
Proof.
  intros H1 H2. rewrite (aupd_as_map Nat.eqb). apply map_ext_in. intros [k o] I. unfold one_step.
  cbn [fst snd]. destruct (Nat.eqb k k0) eqn:E.
  - apply Nat.eqb_eq in E. subst. rewrite (H2 o I). reflexivity.
  - apply Nat.eqb_neq in E. rewrite (H1 k o I E). reflexivity.
Qed.

(* a pending future with id i is the one _request_futures[i] points to *)
Lemma pending_is_target s i k0 k o :
  Inv s -> iget i (futs s) = Some (FOut k0) -> In (k, o) (ofuts s) ->
  is_pending (ost o) = true -> oid o = i -> k = k0.
Proof.
  intros I G Hin P E. apply (aget_of_in _ _ _ (inv_nodup s I)) in Hin.
  destruct (inv_pending s I k o Hin P) as [F _]. rewrite E, G in F. injection F. auto.
Qed.

Lemma one_resp_other e i k o :
  (forall c, rel (oid o) k e = Some c -> oid o = i) ->
  (is_pending (ost o) = true -> oid o = i -> False) -> one e k o = o.
Proof.
  intros R H. unfold one. destruct (is_pending (ost o)) eqn:P; [|reflexivity].
  destruct (rel (oid o) k e) eqn:Q; [|reflexivity]. exfalso. apply H; [reflexivity|]. eapply R. reflexivity.
Qed.

Lemma rel_result i j k p oks c : rel i k (RecvResult j p oks) = Some c -> i = j /\ c = CRes p.
Proof.
  cbn [rel]. destruct (id_eqb j i) eqn:E; [|discriminate]. apply id_eqb_eq in E. intros H.
  injection H as <-. auto.
Qed.

Lemma rel_error i j k a b d c : rel i k (RecvError j a b d) = Some c -> i = j /\ c = CErr a b d.
Proof.
  cbn [rel]. destruct (id_eqb j i) eqn:E; [|discriminate]. apply id_eqb_eq in E. intros H.
  injection H as <-. auto.
Qed.

(* the response branch shared by results and errors: handle_response after the rtypes pop *)
Lemma handle_response_frame s s1 i oc e c :
  Inv s -> futs s1 = futs s -> ofuts s1 = ofuts s ->
  (forall k o, rel (oid o) k e = Some c \/ rel (oid o) k e = None) ->
  (forall k o c', rel (oid o) k e = Some c' -> oid o = i) ->
  (forall k o, oid o = i -> rel (oid o) k e = Some c) ->
  (forall k o, nget k (ofuts s) = Some o -> oid o = i -> is_pending (ost o) = true ->
     apply_c c o = match oc with
                   | ORes rt p => let o' := set_ost o (Resolved rt p) in
                                  if cbflag (ocb o) then called o' else o'
                   | OErr a b d => set_ost o (Failed (class_of_code a) a b d)
                   end) ->
  ofuts (handle_response s1 i oc) = map (one_step e) (ofuts s).
Proof.
  intros I F1 O1 Rc Rid Ri Happ. unfold handle_response_with. rewrite F1.
  destruct (iget i (futs s)) as [r|] eqn:G.
  - destruct r as [k0|].
    + destruct (inv_futs s I i k0 G) as (o0 & G0 & E0).
      set (s2 := set_futs s1 (adel id_eqb i (futs s))).
      assert (O2 : ofuts s2 = ofuts s) by (unfold s2; cbn [ofuts set_futs]; exact O1).
      destruct (is_pending (ost o0)) eqn:P0.
      * rewrite (complete_ofuts_pending s2 k0 oc o0); [|rewrite O2; exact G0|exact P0].
        rewrite O2. apply map_one_upd.
        -- intros k o Hin Hne. apply (one_resp_other e i).
           ++ intros c'. apply Rid.
           ++ intros P E. apply Hne. eapply pending_is_target; eassumption.
        -- intros o Hin. apply (aget_of_in _ _ _ (inv_nodup s I)) in Hin. rewrite G0 in Hin.
           injection Hin as <-. unfold one. rewrite P0, (Ri k0 o0 E0). symmetry.
           rewrite (Happ k0 o0 G0 E0 P0). reflexivity.
      * rewrite (complete_ofuts_done s2 k0 oc o0); [|rewrite O2; exact G0|exact P0].
        rewrite O2. symmetry. apply map_one_id. intros k o Hin. apply (one_resp_other e i).
        -- intros c'. apply Rid.
        -- intros P E. assert (k = k0) by (eapply pending_is_target; eassumption). subst k.
           apply (aget_of_in _ _ _ (inv_nodup s I)) in Hin. rewrite G0 in Hin. injection Hin as <-.
           rewrite P0 in P. discriminate.
    + cbn [hook ofuts set_futs]. rewrite O1. symmetry. apply map_one_id. intros k o Hin.
      apply (one_resp_other e i).
      * intros c'. apply Rid.
      * intros P E. apply (aget_of_in _ _ _ (inv_nodup s I)) in Hin.
        destruct (inv_pending s I k o Hin P) as [F _]. rewrite E, G in F. discriminate.
  - cbn [hook ofuts]. rewrite O1. symmetry. apply map_one_id. intros k o Hin.
    apply (one_resp_other e i).
    + intros c'. apply Rid.
    + intros P E. apply (aget_of_in _ _ _ (inv_nodup s I)) in Hin.
      destruct (inv_pending s I k o Hin P) as [F _]. rewrite E, G in F. discriminate.
Qed.

(* ------------------------------------------------------------------ the frame lemma *)
Definition new_ofut (s : st) (m rt : N) (cb : cbkind) (mid : option id) : nat * ofut :=
  (length (ofuts s),
   mkO (fst (send_id mid (next s))) m rt cb Pending 0 WNone).

Lemma send_request_fields s m rt cb mid w :
  ofuts (send_request s m rt cb mid w)
    = ofuts s ++ [(length (ofuts s), mkO (fst (send_id mid (next s))) m rt cb Pending 0 w)] /\
  futs (send_request s m rt cb mid w)
    = aset id_eqb (fst (send_id mid (next s))) (FOut (length (ofuts s))) (futs s) /\
  rtypes (send_request s m rt cb mid w) = aset id_eqb (fst (send_id mid (next s))) rt (rtypes s) /\
  next (send_request s m rt cb mid w) = snd (send_id mid (next s)).
Proof. destruct mid; cbn; repeat split. Qed.

Lemma one_no_rel e k o : (forall i, rel i k e = None) -> one e k o = o.
Proof. intros H. unfold one. rewrite H. destruct (is_pending (ost o)); reflexivity. Qed.

(* resp_frame: what one event does to the futures handed to callers.  A response (or anything
   else) touches a future only through `one`: only the future whose id it carries, only if it
   is pending. *)
Theorem resp_frame s e :
  Inv s -> ok_ev s e ->
  ofuts (step s e) = match e with
                     | UserSend m rt cb mid => ofuts s ++ [new_ofut s m rt cb mid]
                     | _ => map (one_step e) (ofuts s)
                     end.
Proof.
  intros I OK. destruct e as [m rt cb mid|i p oks|i c m d|k0|i|i|i res|i]; cbn [step_with cancel_with xnone].
  - apply send_request_fields.
  - destruct (iget i (rtypes s)) as [rt|] eqn:R.
    + destruct (mem_n rt oks) eqn:M.
      * apply (handle_response_frame s _ i _ _ (CRes p) I); try reflexivity.
        -- intros k o. cbn [rel]. destruct (id_eqb i (oid o)); auto.
        -- intros k o c' H. apply rel_result in H. apply H.
        -- intros k o E. cbn [rel]. rewrite E, id_eqb_refl. reflexivity.
        -- intros k o G E P. destruct (inv_pending s I k o G P) as [_ T]. rewrite E, R in T.
           injection T as ->. reflexivity.
      * cbn [hook ofuts set_rtypes]. symmetry. apply map_one_id. intros k o Hin.
        apply (one_resp_other _ i).
        -- intros c' H. apply rel_result in H. apply H.
        -- intros P E. apply (aget_of_in _ _ _ (inv_nodup s I)) in Hin.
           destruct (inv_pending s I k o Hin P) as [_ T]. rewrite E, R in T. injection T as ->.
           cbn [ok_ev] in OK. rewrite (OK k o Hin P E) in M. discriminate.
    + cbn [hook ofuts]. symmetry. apply map_one_id. intros k o Hin. apply (one_resp_other _ i).
      * intros c' H. apply rel_result in H. apply H.
      * intros P E. apply (aget_of_in _ _ _ (inv_nodup s I)) in Hin.
        destruct (inv_pending s I k o Hin P) as [_ T]. rewrite E, R in T. discriminate.
  - cbn [ok_ev] in OK. rewrite OK.
    apply (handle_response_frame s _ i _ _ (CErr c m d) I); try reflexivity.
    + intros k o. cbn [rel]. destruct (id_eqb i (oid o)); auto.
    + intros k o c' H. apply rel_error in H. apply H.
    + intros k o E. cbn [rel]. rewrite E, id_eqb_refl. reflexivity.
  - unfold cancel_with, xnone, cancel_out. cbn [ofuts set_ofuts]. rewrite (aupd_as_map Nat.eqb). apply map_ext_in.
    intros [k o] _. unfold one_step, one. cbn [fst snd rel]. rewrite (Nat.eqb_sym k0 k).
    destruct (Nat.eqb k k0); destruct (is_pending (ost o)); reflexivity.
  - cbn [ofuts set_rtypes]. symmetry. apply map_one_id. intros. apply one_no_rel. reflexivity.
  - cbn [ofuts set_futs]. symmetry. apply map_one_id. intros. apply one_no_rel. reflexivity.
  - destruct res; cbn [ofuts set_futs set_rtypes]; symmetry; apply map_one_id; intros;
      apply one_no_rel; reflexivity.
  - destruct (iget i (futs s)) as [[k|]|] eqn:G.
    + exfalso. destruct (inv_futs s I i k G) as (o & G0 & E). apply (OK k o G0 E).
    + cbn [ofuts set_futs]. symmetry. apply map_one_id. intros. apply one_no_rel. reflexivity.
    + symmetry. apply map_one_id. intros. apply one_no_rel. reflexivity.
Qed.

(* ------------------------------------------------------------------ the tables after one event *)
Definition ev_key (e : ev) : option id :=
  match e with
  | RecvResult i _ _ | RecvError i _ _ _ | InReply i | InAsyncReg i | InAsyncDone i _ | InCancel i => Some i
  | _ => None
  end.


Lemma cancel_out_tables s k : futs (cancel_out s k) = futs s /\ rtypes (cancel_out s k) = rtypes s.
Proof. split; reflexivity. Qed.

Lemma tables_shape s e i :
  ev_key e = Some i ->
  (futs (step s e) = futs s \/ futs (step s e) = adel id_eqb i (futs s) \/
   futs (step s e) = aset id_eqb i FIn (futs s)) /\
  (rtypes (step s e) = rtypes s \/ rtypes (step s e) = adel id_eqb i (rtypes s)).
Proof.
  destruct e as [m rt cb mid|j p oks|j c m d|k0|j|j|j res|j]; cbn [ev_key]; try discriminate;
    intros H; injection H as ->; cbn [step_with cancel_with xnone].
  - destruct (iget i (rtypes s)) as [rt|]; [|cbn [hook futs rtypes]; auto].
    destruct (mem_n rt oks); [|cbn [hook futs rtypes set_rtypes]; auto].
    destruct (handle_response_tables (set_rtypes s (adel id_eqb i (rtypes s))) i (ORes rt p))
      as (A & _ & _ & B). rewrite A, B. cbn [futs rtypes set_rtypes]. auto.
  - destruct (int32 c); [|cbn [hook futs rtypes set_rtypes]; auto].
    destruct (handle_response_tables (set_rtypes s (adel id_eqb i (rtypes s))) i (OErr c m d))
      as (A & _ & _ & B). rewrite A, B. cbn [futs rtypes set_rtypes]. auto.
  - cbn [futs rtypes set_rtypes]. auto.
  - cbn [futs rtypes set_futs]. auto.
  - destruct res; cbn [futs rtypes set_futs set_rtypes]; auto.
  - destruct (iget i (futs s)) as [[k|]|]; cbn [futs rtypes set_futs cancel_out set_ofuts]; auto.
Qed.

Lemma step_next s e :
  next (step s e) = match e with UserSend _ _ _ mid => snd (send_id mid (next s)) | _ => next s end.
Proof.
  destruct e as [m rt cb mid|j p oks|j c m d|k0|j|j|j res|j]; cbn [step_with cancel_with xnone].
  - apply send_request_fields.
  - destruct (iget j (rtypes s)) as [rt|]; [|reflexivity]. destruct (mem_n rt oks); [|reflexivity].
    destruct (handle_response_tables (set_rtypes s (adel id_eqb j (rtypes s))) j (ORes rt p))
      as (_ & A & _). exact A.
  - destruct (int32 c); [|reflexivity].
    destruct (handle_response_tables (set_rtypes s (adel id_eqb j (rtypes s))) j (OErr c m d))
      as (_ & A & _). exact A.
  - reflexivity.
  - reflexivity.
  - reflexivity.
  - destruct res; reflexivity.
  - destruct (iget j (futs s)) as [[k|]|]; reflexivity.
Qed.

Lemma shape_get_neq (t t' : list (id * fref)) i j :
  (t' = t \/ t' = adel id_eqb i t \/ t' = aset id_eqb i FIn t) -> i <> j -> iget j t' = iget j t.
Proof.
  intros [->|[->| ->]] N; [reflexivity|apply (aget_adel_neq id_eqb id_eqb_eq), N|
                          apply (aget_aset_neq id_eqb id_eqb_eq), N].
Qed.

Lemma shape_get_sub (t t' : list (id * fref)) i j k :
  (t' = t \/ t' = adel id_eqb i t \/ t' = aset id_eqb i FIn t) ->
  iget j t' = Some (FOut k) -> iget j t = Some (FOut k).
Proof.
  intros H G. destruct (id_eq_dec i j) as [->|N].
  - destruct H as [->|[->| ->]]; [exact G| |].
    + rewrite (aget_adel_eq id_eqb) in G. discriminate.
    + rewrite (aget_aset_eq id_eqb id_eqb_eq) in G. discriminate.
  - rewrite (shape_get_neq t t' i j H N) in G. exact G.
Qed.

Lemma shape_get_neq_r (t t' : list (id * N)) i j :
  (t' = t \/ t' = adel id_eqb i t) -> i <> j -> iget j t' = iget j t.
Proof. intros [->| ->] N; [reflexivity|apply (aget_adel_neq id_eqb id_eqb_eq), N]. Qed.

(* ------------------------------------------------------------------ the invariant is preserved *)
Lemma Inv_map s s' e :
  Inv s -> ofuts s' = map (one_step e) (ofuts s) ->
  (forall k o, nget k (ofuts s) = Some o -> is_pending (ost o) = true -> rel (oid o) k e = None ->
     iget (oid o) (futs s') = iget (oid o) (futs s) /\ iget (oid o) (rtypes s') = iget (oid o) (rtypes s)) ->
  (forall i k, iget i (futs s') = Some (FOut k) -> iget i (futs s) = Some (FOut k)) ->
  Inv s'.
Proof.
  intros I O T F. split.
  - rewrite O, map_one_step_fst, map_length. apply (inv_handles s I).
  - intros k o' G P. rewrite O, nget_one_step in G. destruct (nget k (ofuts s)) as [o|] eqn:G0;
      [|discriminate]. cbn [option_map] in G. injection G as <-.
    destruct (one_pending_inv e k o P) as (P0 & R & E). rewrite E.
    destruct (T k o G0 P0 R) as [A B]. rewrite A, B. apply (inv_pending s I k o G0 P0).
  - intros i k G. destruct (inv_futs s I i k (F i k G)) as (o & G0 & E).
    exists (one e k o). split; [rewrite O, nget_one_step, G0; reflexivity|].
    rewrite (proj1 (one_oid e k o)). exact E.
Qed.

Theorem inv_step s e : Inv s -> ok_ev s e -> Inv (step s e).
Proof.
  intros I OK. destruct (is_send e) eqn:S.
  - destruct e as [m rt cb mid| | | | | | |]; try discriminate. cbn [step_with cancel_with xnone ok_ev] in *.
    destruct (send_request_fields s m rt cb mid WNone) as (A & B & C & _).
    set (i := fst (send_id mid (next s))) in *. set (n := length (ofuts s)) in *.
    pose proof (inv_handles s I) as H. split.
    + rewrite A, map_app, app_length, H. cbn [map fst length]. fold n. rewrite Nat.add_1_r, seq_S.
      reflexivity.
    + intros k o G P. rewrite A in G. unfold n in G. rewrite (nget_app_new _ _ _ H) in G. fold n in G.
      rewrite B, C. destruct (Nat.eqb k n) eqn:E.
      * apply Nat.eqb_eq in E. subst k. injection G as <-. cbn [oid ort].
        rewrite !(aget_aset_eq id_eqb id_eqb_eq). auto.
      * assert (N : i <> oid o) by (intros N; apply (OK k o G P); symmetry; exact N).
        rewrite !(aget_aset_neq id_eqb id_eqb_eq) by exact N. apply (inv_pending s I k o G P).
    + intros j k G. rewrite B in G. rewrite A. unfold n. rewrite (nget_app_new _ _ _ H). fold n.
      destruct (id_eq_dec i j) as [<-|N].
      * rewrite (aget_aset_eq id_eqb id_eqb_eq) in G. injection G as <-. rewrite Nat.eqb_refl.
        eexists. split; reflexivity.
      * rewrite (aget_aset_neq id_eqb id_eqb_eq) in G by exact N.
        destruct (inv_futs s I j k G) as (o & G0 & E). exists o. split; [|exact E].
        replace (Nat.eqb k n) with false; [exact G0|]. symmetry. apply Nat.eqb_neq.
        apply nget_in in G0. apply (in_map fst) in G0. rewrite H in G0. apply in_seq in G0.
        cbn [fst] in G0. unfold n. lia.
  - pose proof (resp_frame s e I OK) as O.
    assert (O' : ofuts (step s e) = map (one_step e) (ofuts s)) by (destruct e; try discriminate; exact O).
    destruct (ev_key e) as [i|] eqn:K.
    + destruct (tables_shape s e i K) as [TF TR].
      apply (Inv_map s _ e I O').
      * intros k o G P R.
        assert (N : i <> oid o).
        { intros ->. destruct e as [m rt cb mid|j p oks|j c m d|k0|j|j|j res|j]; cbn [ev_key] in K;
            try discriminate; injection K as ->; cbn [rel] in R; try rewrite id_eqb_refl in R;
            try discriminate; cbn [ok_ev] in OK; apply (OK k o G); reflexivity. }
        split; [apply (shape_get_neq _ _ i); assumption|apply (shape_get_neq_r _ _ i); assumption].
      * intros j k. apply (shape_get_sub _ _ i). exact TF.
    + destruct e as [m rt cb mid|j p oks|j c m d|k0|j|j|j res|j]; cbn [ev_key] in K; try discriminate.
      apply (Inv_map s _ (UserCancelOut k0) I O'); cbn [step_with cancel_with xnone]; intros; auto.
Qed.

(* ------------------------------------------------------------------ hypotheses along a run *)
Definition oid_rts (s : st) : list (id * N) := map (fun ko => (oid (snd ko), ort (snd ko))) (ofuts s).

(* lv: the requests that are outstanding as far as the history says (Spec: wf_scan) *)
Record compat_lv (s : st) (lv : list (id * nat * N)) (evs : list ev) : Prop := {
  c_live : forall k o, nget k (ofuts s) = Some o -> is_pending (ost o) = true -> In (oid o, k, ort o) lv;
  c_scan : wf_scan true true lv (next s) (length (ofuts s)) evs = true;
  c_disj : forall i, In i (in_ids evs) -> ~ In i (map fst (oid_rts s) ++ sent_ids evs (next s));
  c_codes : lsp_codes evs
}.
Definition compat (s : st) (evs : list ev) : Prop := exists lv, compat_lv s lv evs.

Definition next_live (lv : list (id * nat * N)) (s : st) (e : ev) : list (id * nat * N) :=
  match e with
  | UserSend m rt cb mid => (fst (send_id mid (next s)), length (ofuts s), rt) :: lv
  | RecvResult i _ _ | RecvError i _ _ _ => drop_id i lv
  | UserCancelOut h => drop_handle h lv
  | _ => lv
  end.

Lemma mem_id_in i l : mem_id i l = true <-> In i l.
Proof.
  unfold mem_id. rewrite existsb_exists. split.
  - intros (x & H & E). apply id_eqb_eq in E. subst. exact H.
  - intros H. exists i. split; [exact H|apply id_eqb_refl].
Qed.

Lemma in_oid_rts s k o : nget k (ofuts s) = Some o -> In (oid o, ort o) (oid_rts s).
Proof.
  intros G. apply nget_in in G. unfold oid_rts.
  apply (in_map (fun ko => (oid (snd ko), ort (snd ko)))) in G. exact G.
Qed.

Lemma in_oids s k o : nget k (ofuts s) = Some o -> In (oid o) (map fst (oid_rts s)).
Proof. intros G. apply in_oid_rts in G. apply (in_map fst) in G. exact G. Qed.

Lemma sent_ids_send m rt cb mid r n :
  sent_ids (UserSend m rt cb mid :: r) n = fst (send_id mid n) :: sent_ids r (snd (send_id mid n)).
Proof. unfold sent_ids. cbn [sent]. destruct (send_id mid n). reflexivity. Qed.

Lemma sent_send m rt cb mid r n :
  sent (UserSend m rt cb mid :: r) n = (fst (send_id mid n), rt) :: sent r (snd (send_id mid n)).
Proof. cbn [sent]. destruct (send_id mid n). reflexivity. Qed.

Lemma sent_other e r n : is_send e = false -> sent (e :: r) n = sent r n.
Proof. destruct e; try discriminate; reflexivity. Qed.

Lemma compat_head s e r : compat s (e :: r) -> ok_ev s e.
Proof.
  intros [lv [LV SC DJ CO]]. destruct e as [m rt cb mid|j p oks|j c m d|k0|j|j|j res|j]; cbn [ok_ev]; auto.
  - intros k o G P E. cbn [wf_scan] in SC. destruct (send_id mid (next s)) as [i n'] eqn:S.
    cbn [fst negb orb] in *. apply andb_true_iff in SC. destruct SC as [SC _].
    apply negb_true_iff in SC. assert (X : mem_id i (live_ids lv) = true).
    { apply mem_id_in. unfold live_ids. apply in_map_iff. exists (oid o, k, ort o). split; [exact E|].
      apply LV; assumption. }
    congruence.
  - intros k o G P E. cbn [wf_scan negb orb] in SC. apply andb_true_iff in SC. destruct SC as [SC _].
    rewrite forallb_forall in SC. specialize (SC _ (LV k o G P)). cbn [fst snd] in SC.
    rewrite E, id_eqb_refl in SC. exact SC.
  - apply (CO j c m d). left. reflexivity.
  - intros k o G E. apply (DJ j); [left; reflexivity|]. apply in_or_app. left. rewrite <- E.
    eapply in_oids. exact G.
  - intros k o G E. apply (DJ j); [left; reflexivity|]. apply in_or_app. left. rewrite <- E.
    eapply in_oids. exact G.
  - intros k o G E. apply (DJ j); [left; reflexivity|]. apply in_or_app. left. rewrite <- E.
    eapply in_oids. exact G.
  - intros k o G E. apply (DJ j); [left; reflexivity|]. apply in_or_app. left. rewrite <- E.
    eapply in_oids. exact G.
Qed.

Lemma oid_rts_step s e :
  Inv s -> ok_ev s e ->
  oid_rts (step s e) = match e with
                       | UserSend m rt cb mid => oid_rts s ++ [(fst (send_id mid (next s)), rt)]
                       | _ => oid_rts s
                       end.
Proof.
  intros I OK. pose proof (resp_frame s e I OK) as O.
  assert (M : forall e', map (fun ko => (oid (snd ko), ort (snd ko))) (map (one_step e') (ofuts s))
                         = oid_rts s).
  { intros e'. unfold oid_rts. rewrite map_map. apply map_ext. intros [k o]. unfold one_step.
    cbn [fst snd]. destruct (one_oid e' k o) as (A & B & _). rewrite A, B. reflexivity. }
  unfold oid_rts at 1. rewrite O. destruct e as [m rt cb mid| | | | | | |]; try apply M.
  rewrite map_app. reflexivity.
Qed.

Lemma in_ids_cons e r i : In i (in_ids r) -> In i (in_ids (e :: r)).
Proof. destruct e; cbn [in_ids In]; auto. Qed.

Lemma in_drop_id i lv x : In x lv -> fst (fst x) <> i -> In x (drop_id i lv).
Proof.
  intros H N. unfold drop_id. apply filter_In. split; [exact H|]. apply negb_true_iff, id_eqb_neq, N.
Qed.

Lemma in_drop_handle h lv (x : id * nat * N) : In x lv -> snd (fst x) <> h -> In x (drop_handle h lv).
Proof.
  intros H N. unfold drop_handle. apply filter_In. split; [exact H|]. apply negb_true_iff, Nat.eqb_neq, N.
Qed.

Lemma compat_lv_tail s lv e r :
  Inv s -> compat_lv s lv (e :: r) -> compat_lv (step s e) (next_live lv s e) r.
Proof.
  intros I C. pose proof (compat_head s e r (ex_intro _ lv C)) as OK. destruct C as [LV SC DJ CO].
  assert (CO' : lsp_codes r) by (intros i c m d H; apply (CO i c m d); right; exact H).
  pose proof (oid_rts_step s e I OK) as OR. pose proof (step_next s e) as NX.
  pose proof (resp_frame s e I OK) as O.
  destruct (is_send e) eqn:S.
  - destruct e as [m rt cb mid| | | | | | |]; try discriminate. rewrite sent_ids_send in DJ.
    split; try rewrite OR; try rewrite NX; try rewrite O.
    + intros k o G P. unfold new_ofut in G. rewrite (nget_app_new _ _ _ (inv_handles s I)) in G.
      cbn [next_live]. destruct (Nat.eqb k (length (ofuts s))) eqn:E.
      * apply Nat.eqb_eq in E. subst k. injection G as <-. left. reflexivity.
      * right. apply LV; assumption.
    + cbn [wf_scan] in SC. cbn [next_live]. destruct (send_id mid (next s)) as [i n']. cbn [fst snd] in *.
      apply andb_true_iff in SC. rewrite app_length. cbn [length]. rewrite Nat.add_1_r. apply SC.
    + intros i Hi. rewrite map_app, <- app_assoc. apply DJ. apply in_ids_cons. exact Hi.
    + exact CO'.
  - assert (O' : ofuts (step s e) = map (one_step e) (ofuts s)) by (destruct e; try discriminate; exact O).
    assert (OR' : oid_rts (step s e) = oid_rts s) by (destruct e; try discriminate; exact OR).
    assert (NX' : next (step s e) = next s) by (destruct e; try discriminate; exact NX).
    assert (SI : sent_ids (e :: r) (next s) = sent_ids r (next s))
      by (unfold sent_ids; rewrite (sent_other e r _ S); reflexivity).
    split; try rewrite OR'; try rewrite NX'.
    + intros k o' G P. rewrite O', nget_one_step in G.
      destruct (nget k (ofuts s)) as [o|] eqn:G0; [|discriminate]. cbn [option_map] in G.
      injection G as <-. destruct (one_pending_inv e k o P) as (P0 & R & E). rewrite E.
      pose proof (LV k o G0 P0) as L.
      destruct e as [m rt cb mid|j p oks|j c m d|k0|j|j|j res|j]; try (cbn in S; discriminate S);
        cbn [next_live]; try exact L.
      * apply in_drop_id; [exact L|]. cbn [fst]. cbn [rel] in R. intros EQ. rewrite EQ in R.
        rewrite id_eqb_refl in R. discriminate.
      * apply in_drop_id; [exact L|]. cbn [fst]. cbn [rel] in R. intros EQ. rewrite EQ in R.
        rewrite id_eqb_refl in R. discriminate.
      * apply in_drop_handle; [exact L|]. cbn [fst snd]. cbn [rel] in R. intros EQ. rewrite EQ in R.
        rewrite Nat.eqb_refl in R. discriminate.
    + rewrite O', map_length.
      destruct e as [m rt cb mid|j p oks|j c m d|k0|j|j|j res|j]; try discriminate;
        cbn [wf_scan next_live negb orb] in *; try exact SC; apply andb_true_iff in SC; apply SC.
    + intros i Hi. rewrite <- SI. apply DJ. apply in_ids_cons. exact Hi.
    + exact CO'.
Qed.

Lemma compat_tail s e r : Inv s -> compat s (e :: r) -> compat (step s e) r.
Proof. intros I [lv C]. exists (next_live lv s e). apply compat_lv_tail; assumption. Qed.

Theorem inv_run evs : forall s, Inv s -> compat s evs -> Inv (run_from s evs).
Proof.
  induction evs as [|e r IH]; intros s I C; [exact I|]. unfold run_from. cbn [fold_left].
  apply IH; [apply inv_step; [exact I|eapply compat_head; exact C]|apply compat_tail; assumption].
Qed.

(* ------------------------------------------------------------------ first response wins *)
Definition adv (evs : list ev) (ko : nat * ofut) : nat * ofut :=
  fold_left (fun a e => one_step e a) evs ko.

Fixpoint new_futs (evs : list ev) (next : N) (k : nat) : list (nat * ofut) :=
  match evs with
  | [] => []
  | UserSend m rt cb mid :: r =>
    adv r (k, mkO (fst (send_id mid next)) m rt cb Pending 0 WNone)
      :: new_futs r (snd (send_id mid next)) (S k)
  | _ :: r => new_futs r next k
  end.

Lemma adv_cons e r ko : adv (e :: r) ko = adv r (one_step e ko).
Proof. reflexivity. Qed.

Lemma one_step_send m rt cb mid ko : one_step (UserSend m rt cb mid) ko = ko.
Proof. destruct ko as [k o]. unfold one_step. cbn [fst snd]. rewrite one_no_rel; reflexivity. Qed.

(* the futures after a run: the old ones advanced by the events, then the new ones *)
Theorem run_char evs : forall s, Inv s -> compat s evs ->
  ofuts (run_from s evs) = map (adv evs) (ofuts s) ++ new_futs evs (next s) (length (ofuts s)).
Proof.
  induction evs as [|e r IH]; intros s I C.
  - cbn [run_from fold_left new_futs adv]. rewrite app_nil_r. symmetry. apply map_id.
  - pose proof (compat_head s e r C) as OK.
    change (run_from s (e :: r)) with (run_from (step s e) r).
    rewrite (IH (step s e) (inv_step s e I OK) (compat_tail s e r I C)).
    rewrite (step_next s e), (resp_frame s e I OK).
    destruct (is_send e) eqn:S.
    + destruct e as [m rt cb mid| | | | | | |]; try discriminate.
      rewrite map_app, app_length, <- app_assoc. cbn [map length new_futs app]. f_equal.
      * apply map_ext. intros ko. rewrite adv_cons, one_step_send. reflexivity.
      * unfold new_ofut. rewrite Nat.add_1_r. reflexivity.
    + assert (E : map (adv r) (map (one_step e) (ofuts s)) = map (adv (e :: r)) (ofuts s))
        by (rewrite map_map; reflexivity).
      destruct e; try discriminate; rewrite map_length, E; reflexivity.
Qed.

(* the view of an advanced future is decided by the first relevant event *)
Definition advanced_view (evs : list ev) (k : nat) (o : ofut) : fstate * N :=
  if is_pending (ost o)
  then (fst (outcome_view (ort o) (cbflag (ocb o)) (first_rel (oid o) k evs)),
        (ocalls o + snd (outcome_view (ort o) (cbflag (ocb o)) (first_rel (oid o) k evs)))%N)
  else (ost o, ocalls o).

Lemma view_adv evs : forall k o, view (adv evs (k, o)) = advanced_view evs k o.
Proof.
  induction evs as [|e r IH]; intros k o.
  - unfold advanced_view, view. cbn [adv fold_left snd first_rel outcome_view fst].
    destruct (is_pending (ost o)) eqn:P; [|reflexivity].
    rewrite N.add_0_r. destruct (ost o); try discriminate. reflexivity.
  - rewrite adv_cons. unfold one_step. cbn [fst snd]. rewrite IH. unfold advanced_view, one.
    cbn [first_rel]. destruct (is_pending (ost o)) eqn:P; [|rewrite P; reflexivity].
    destruct (rel (oid o) k e) as [c|] eqn:R; [|rewrite P; reflexivity].
    rewrite apply_c_not_pending. destruct c; cbn [apply_c outcome_view fst snd].
    + destruct (cbflag (ocb o)); cbn [ost ocalls called set_ost]; [reflexivity|].
      rewrite N.add_0_r. reflexivity.
    + cbn [ost ocalls set_ost]. rewrite N.add_0_r, class_of_code_spec. reflexivity.
    + cbn [ost ocalls set_ost]. rewrite N.add_0_r. reflexivity.
Qed.

Lemma views_new_futs evs : forall n k, map view (new_futs evs n k) = spec_futs evs n k.
Proof.
  induction evs as [|e r IH]; intros n k; [reflexivity|].
  destruct e as [m rt cb mid| | | | | | |]; cbn [new_futs spec_futs map]; try apply IH.
  destruct (send_id mid n) as [i n'] eqn:S. cbn [fst snd]. rewrite IH, view_adv. f_equal.
  unfold advanced_view. cbn [ost is_pending ort ocb oid ocalls].
  destruct (outcome_view rt (cbflag cb) (first_rel i k r)). reflexivity.
Qed.

Lemma wf_scan_and evs : forall lv n k,
  wf_scan true false lv n k evs = true -> wf_scan false true lv n k evs = true ->
  wf_scan true true lv n k evs = true.
Proof.
  induction evs as [|e r IH]; intros lv n k A B; [reflexivity|].
  destruct e as [m rt cb mid|j p oks|j c m d|k0|j|j|j res|j]; cbn [wf_scan negb orb] in *;
    try (apply IH; assumption).
  - destruct (send_id mid n) as [i n']. apply andb_true_iff in A. apply andb_true_iff in B.
    apply andb_true_iff. split; [apply A|apply IH; [apply A|apply B]].
  - apply andb_true_iff in B. apply andb_true_iff. split; [apply B|apply IH; [exact A|apply B]].
Qed.

Lemma compat_init evs :
  injective_supply evs -> disjoint_directions evs -> valid_results evs -> lsp_codes evs ->
  compat init evs.
Proof.
  intros A B C D. exists []. split; cbn [oid_rts init ofuts map app next length].
  - intros k o G. discriminate.
  - apply wf_scan_and; assumption.
  - exact B.
  - exact D.
Qed.

(* first_response_wins: under the hypotheses the futures of the model are the reference *)
Theorem first_response_wins evs :
  injective_supply evs -> disjoint_directions evs -> valid_results evs -> lsp_codes evs ->
  views (run evs) = spec evs.
Proof.
  intros A B C D. unfold views, run. rewrite (run_char evs init inv_init (compat_init evs A B C D)).
  cbn [init ofuts map app next length]. apply views_new_futs.
Qed.

(* ------------------------------------------------------------------ the guard is the hypotheses *)
Theorem guard_sound evs :
  guard evs = true ->
  injective_supply evs /\ disjoint_directions evs /\ valid_results evs /\ lsp_codes evs.
Proof.
  unfold guard. rewrite !andb_true_iff. intros [[[A B] C] D]. repeat split.
  - exact A.
  - intros i Hi Hs. unfold disjoint_directions_b in B. rewrite forallb_forall in B.
    specialize (B i Hi). apply negb_true_iff in B. apply mem_id_in in Hs. congruence.
  - exact C.
  - intros i c m d Hin. unfold lsp_codes_b in D. rewrite forallb_forall in D. apply (D _ Hin).
Qed.

(* the reference the harness evaluates is the function the theorem speaks of *)
Theorem reference_agrees evs : guard evs = true -> views (run evs) = spec evs.
Proof. intros G. destruct (guard_sound evs G) as (A & B & C & D). apply first_response_wins; assumption. Qed.

(* ------------------------------------------------------------------ the named clauses of C05 *)

(* ids_distinct: two pending futures never share an id *)
Theorem ids_distinct s k1 o1 k2 o2 :
  Inv s -> nget k1 (ofuts s) = Some o1 -> nget k2 (ofuts s) = Some o2 ->
  is_pending (ost o1) = true -> is_pending (ost o2) = true -> oid o1 = oid o2 -> k1 = k2.
Proof.
  intros I G1 G2 P1 P2 E. destruct (inv_pending s I k1 o1 G1 P1) as [F1 _].
  destruct (inv_pending s I k2 o2 G2 P2) as [F2 _]. rewrite E, F2 in F1. injection F1. auto.
Qed.

(* future_monotone (one event): a future that is no longer pending never changes again *)
Theorem future_monotone s e k o :
  Inv s -> ok_ev s e -> nget k (ofuts s) = Some o -> is_pending (ost o) = false ->
  nget k (ofuts (step s e)) = Some o.
Proof.
  intros I OK G P. rewrite (resp_frame s e I OK). destruct (is_send e) eqn:S.
  - destruct e; try discriminate. rewrite (aget_app Nat.eqb), G. reflexivity.
  - assert (H : nget k (map (one_step e) (ofuts s)) = Some o)
      by (rewrite nget_one_step, G; cbn [option_map]; rewrite (one_not_pending e k o P); reflexivity).
    destruct e; try discriminate; exact H.
Qed.

Lemma compat_run a : forall s b, Inv s -> compat s (a ++ b) -> compat (run_from s a) b /\ Inv (run_from s a).
Proof.
  induction a as [|e r IH]; intros s b I C; [split; assumption|].
  change (run_from s (e :: r)) with (run_from (step s e) r). apply IH.
  - apply inv_step; [exact I|eapply compat_head; exact C].
  - apply (compat_tail s e (r ++ b) I C).
Qed.

Lemma adv_not_pending evs k o : is_pending (ost o) = false -> adv evs (k, o) = (k, o).
Proof.
  induction evs as [|e r IH]; intros P; [reflexivity|]. rewrite adv_cons. unfold one_step.
  cbn [fst snd]. rewrite (one_not_pending e k o P). apply IH, P.
Qed.

Lemma adv_fst evs : forall ko, fst (adv evs ko) = fst ko.
Proof. induction evs as [|e r IH]; intros ko; [reflexivity|]. rewrite adv_cons, IH. reflexivity. Qed.

Lemma nget_map_adv evs l k o :
  nget k l = Some o -> nget k (map (adv evs) l) = Some (snd (adv evs (k, o))).
Proof.
  induction l as [|[k' o'] r IH]; cbn [aget map]; [discriminate|].
  pose proof (adv_fst evs (k', o')) as F. destruct (adv evs (k', o')) as [k'' o''] eqn:A.
  cbn [fst] in F. subst k''. cbn [aget]. destruct (Nat.eqb k' k) eqn:E.
  - apply Nat.eqb_eq in E. subst k'. intros H. injection H as ->. rewrite A. reflexivity.
  - exact IH.
Qed.

(* future_monotone (whole histories): what is decided after a prefix stays decided *)
Theorem future_monotone_run a b k o :
  compat init (a ++ b) -> nget k (ofuts (run a)) = Some o -> is_pending (ost o) = false ->
  nget k (ofuts (run (a ++ b))) = Some o.
Proof.
  intros C G P. destruct (compat_run a init b inv_init C) as [C' I'].
  unfold run, run_from. rewrite fold_left_app. fold (run_from init a). fold (run_from (run_from init a) b).
  rewrite (run_char b _ I' C'), (aget_app Nat.eqb).
  unfold run in G. rewrite (nget_map_adv b _ k o G), (adv_not_pending b k o P). reflexivity.
Qed.

(* stray_dup_noop: a response whose id belongs to no pending request (unknown id, id of the wrong
   JSON type, duplicate of an earlier response) changes no future *)
Theorem stray_dup_noop s i :
  Inv s -> (forall k o, nget k (ofuts s) = Some o -> is_pending (ost o) = true -> oid o <> i) ->
  (forall p oks, ofuts (step s (RecvResult i p oks)) = ofuts s) /\
  (forall c m d, ofuts (step s (RecvError i c m d)) = ofuts s).
Proof.
  intros I H. split.
  - intros p oks. rewrite (resp_frame s _ I).
    + apply map_one_id. intros k o Hin. apply (one_resp_other _ i).
      * intros c' R. apply rel_result in R. apply R.
      * intros P E. apply (aget_of_in _ _ _ (inv_nodup s I)) in Hin. apply (H k o Hin P E).
    + cbn [ok_ev]. intros k o G P E. exfalso. apply (H k o G P E).
  - intros c m d. destruct (int32 c) eqn:C32; [|cbn [step_with cancel_with xnone]; rewrite C32; reflexivity].
    rewrite (resp_frame s (RecvError i c m d) I C32).
    apply map_one_id. intros k o Hin. apply (one_resp_other _ i).
    + intros c' R. apply rel_error in R. apply R.
    + intros P E. apply (aget_of_in _ _ _ (inv_nodup s I)) in Hin. apply (H k o Hin P E).
Qed.

(* error_always_fails: an error response carrying the id of a pending request fails it with
   the class for the code and exactly (code, message, data) - for EVERY code, message, data *)
Theorem error_always_fails s k o :
  Inv s -> nget k (ofuts s) = Some o -> is_pending (ost o) = true ->
  forall c m d, int32 c = true ->
                nget k (ofuts (step s (RecvError (oid o) c m d)))
                = Some (set_ost o (Failed (spec_class c) c m d)).
Proof.
  intros I G P c m d C32. rewrite (resp_frame s (RecvError (oid o) c m d) I C32), nget_one_step, G.
  cbn [option_map].
  unfold one. rewrite P. cbn [rel]. rewrite id_eqb_refl. cbn [apply_c].
  rewrite class_of_code_spec. reflexivity.
Qed.

(* a valid result carrying the id of a pending request resolves it, decoded as ITS result type *)
Theorem result_resolves s k o p oks :
  Inv s -> nget k (ofuts s) = Some o -> is_pending (ost o) = true -> mem_n (ort o) oks = true ->
  nget k (ofuts (step s (RecvResult (oid o) p oks))) = Some (apply_c (CRes p) o).
Proof.
  intros I G P M. rewrite (resp_frame s _ I).
  - rewrite nget_one_step, G. cbn [option_map]. unfold one. rewrite P. cbn [rel].
    rewrite id_eqb_refl. reflexivity.
  - cbn [ok_ev]. intros k' o' G' P' E. assert (k' = k) by (eapply ids_distinct; eassumption).
    subst k'. rewrite G in G'. injection G' as <-. exact M.
Qed.

(* callback_iff_resolved *)

Definition calls_ok (s : st) : Prop :=
  forall k o, nget k (ofuts s) = Some o ->
  ocalls o = if is_resolved (ost o) && cbflag (ocb o) then 1%N else 0%N.

Lemma calls_ok_step s e : Inv s -> ok_ev s e -> calls_ok s -> calls_ok (step s e).
Proof.
  intros I OK H k o'. rewrite (resp_frame s e I OK). destruct (is_send e) eqn:S.
  - destruct e as [m rt cb mid| | | | | | |]; try discriminate. unfold new_ofut.
    rewrite (nget_app_new _ _ _ (inv_handles s I)). destruct (Nat.eqb k (length (ofuts s))).
    + intros G. injection G as <-. reflexivity.
    + apply H.
  - intros G. assert (G' : nget k (map (one_step e) (ofuts s)) = Some o')
      by (destruct e; try discriminate; exact G). clear G.
    rewrite nget_one_step in G'. destruct (nget k (ofuts s)) as [o|] eqn:G0; [|discriminate].
    cbn [option_map] in G'. injection G' as <-. specialize (H k o G0). unfold one.
    destruct (is_pending (ost o)) eqn:P; [|exact H]. destruct (rel (oid o) k e) as [c|]; [|exact H].
    destruct (ost o); try discriminate. cbn [is_resolved andb] in H.
    destruct c; cbn [apply_c].
    + destruct (cbflag (ocb o)) eqn:F; cbn [ocalls ost ocb called set_ost is_resolved andb];
        rewrite ?F, H; reflexivity.
    + cbn [ocalls ost set_ost is_resolved andb]. exact H.
    + cbn [ocalls ost set_ost is_resolved andb]. exact H.
Qed.

Theorem callback_iff_resolved evs : forall s, Inv s -> compat s evs -> calls_ok s -> calls_ok (run_from s evs).
Proof.
  induction evs as [|e r IH]; intros s I C H; [exact H|].
  change (run_from s (e :: r)) with (run_from (step s e) r).
  pose proof (compat_head s e r C) as OK.
  apply IH; [apply inv_step; assumption|apply compat_tail; assumption|apply calls_ok_step; assumption].
Qed.

Lemma calls_ok_init : calls_ok init.
Proof. intros k o. cbn. discriminate. Qed.

(* ------------------------------------------------------------------ the order of replies is irrelevant *)
Lemma rel_resp_id i k e c : is_resp e = true -> rel i k e = Some c -> resp_id e = Some i.
Proof.
  destruct e; cbn [is_resp rel resp_id]; try discriminate; intros _;
    destruct (id_eqb i0 i) eqn:E; try discriminate; apply id_eqb_eq in E; subst; reflexivity.
Qed.

Lemma first_rel_perm i k rs rs' :
  Permutation rs rs' -> forallb is_resp rs = true -> NoDup (map resp_id rs) ->
  first_rel i k rs = first_rel i k rs'.
Proof.
  induction 1 as [|x l l' P IH|x y l|l l' l'' P1 IH1 P2 IH2]; intros R ND.
  - reflexivity.
  - cbn [first_rel]. cbn [forallb] in R. apply andb_true_iff in R. cbn [map] in ND.
    inversion ND; subst. rewrite IH; [reflexivity|apply R|assumption].
  - cbn [first_rel]. cbn [forallb] in R. apply andb_true_iff in R. destruct R as [Ry R].
    apply andb_true_iff in R. destruct R as [Rx R].
    destruct (rel i k x) as [cx|] eqn:X; destruct (rel i k y) as [cy|] eqn:Y; try reflexivity.
    exfalso. apply (rel_resp_id i k x cx Rx) in X. apply (rel_resp_id i k y cy Ry) in Y.
    cbn [map] in ND. inversion ND as [|? ? N _]; subst. apply N. rewrite Y, <- X. left. reflexivity.
  - rewrite IH1 by assumption. apply IH2.
    + apply forallb_forall. intros e He. rewrite forallb_forall in R. apply R.
      apply (Permutation_in e (Permutation_sym P1) He).
    + apply (Permutation_NoDup (Permutation_map resp_id P1) ND).
Qed.

Lemma sent_resp rs n : forallb is_resp rs = true -> sent rs n = [].
Proof.
  induction rs as [|e r IH]; [reflexivity|]. cbn [forallb]. rewrite andb_true_iff. intros [A B].
  destruct e; try discriminate; cbn [sent]; apply IH, B.
Qed.

Lemma sent_app_resp a rs : forallb is_resp rs = true -> forall n, sent (a ++ rs) n = sent a n.
Proof.
  intros R. induction a as [|e r IH]; intros n; [cbn [app sent]; apply sent_resp, R|].
  destruct e as [m rt cb mid| | | | | | |]; cbn [app sent]; try apply IH.
  destruct (send_id mid n). rewrite IH. reflexivity.
Qed.

Lemma in_ids_resp rs : forallb is_resp rs = true -> in_ids rs = [].
Proof.
  induction rs as [|e r IH]; [reflexivity|]. cbn [forallb]. rewrite andb_true_iff. intros [A B].
  destruct e; try discriminate; cbn [in_ids]; apply IH, B.
Qed.

Lemma in_ids_app a b : in_ids (a ++ b) = in_ids a ++ in_ids b.
Proof.
  induction a as [|e r IH]; [reflexivity|]. destruct e; cbn [app in_ids]; rewrite IH; reflexivity.
Qed.

Lemma spec_futs_resp rs n k : forallb is_resp rs = true -> spec_futs rs n k = [].
Proof.
  revert n k. induction rs as [|e r IH]; intros n k; [reflexivity|]. cbn [forallb].
  rewrite andb_true_iff. intros [A B]. destruct e; try discriminate; cbn [spec_futs]; apply IH, B.
Qed.

Lemma first_rel_app_sends i k a l : forallb is_send a = true -> first_rel i k (a ++ l) = first_rel i k l.
Proof.
  induction a as [|e r IH]; [reflexivity|]. cbn [forallb]. rewrite andb_true_iff. intros [A B].
  destruct e; try discriminate. cbn [app first_rel rel]. apply IH, B.
Qed.

Lemma spec_futs_perm a rs rs' :
  forallb is_send a = true -> forallb is_resp rs = true -> NoDup (map resp_id rs) ->
  Permutation rs rs' -> forall n k, spec_futs (a ++ rs) n k = spec_futs (a ++ rs') n k.
Proof.
  intros SA R ND P. assert (R' : forallb is_resp rs' = true).
  { apply forallb_forall. intros e He. rewrite forallb_forall in R. apply R.
    apply (Permutation_in e (Permutation_sym P) He). }
  induction a as [|e r IH]; intros n k.
  - cbn [app]. rewrite !spec_futs_resp by assumption. reflexivity.
  - cbn [forallb] in SA. apply andb_true_iff in SA. destruct SA as [S1 S2].
    destruct e as [m rt cb mid| | | | | | |]; try discriminate. cbn [app spec_futs].
    destruct (send_id mid n) as [i n']. rewrite (IH S2).
    rewrite !(first_rel_app_sends i k r _ S2), (first_rel_perm i k rs rs' P R ND). reflexivity.
Qed.

Lemma scan_ids_resp rs : forallb is_resp rs = true -> forall lv n k, wf_scan true false lv n k rs = true.
Proof.
  induction rs as [|e r IH]; intros R lv n k; [reflexivity|]. cbn [forallb] in R.
  apply andb_true_iff in R. destruct R as [R1 R2].
  destruct e; try discriminate; cbn [wf_scan negb orb andb]; apply IH, R2.
Qed.

Lemma scan_ids_sends a rs rs' :
  forallb is_send a = true -> forallb is_resp rs = true -> forallb is_resp rs' = true ->
  forall lv n k, wf_scan true false lv n k (a ++ rs) = wf_scan true false lv n k (a ++ rs').
Proof.
  intros SA R R'. induction a as [|e r IH]; intros lv n k.
  - cbn [app]. rewrite !scan_ids_resp by assumption. reflexivity.
  - cbn [forallb] in SA. apply andb_true_iff in SA. destruct SA as [S1 S2].
    destruct e as [m rt cb mid| | | | | | |]; try discriminate. cbn [app wf_scan].
    destruct (send_id mid n) as [i n']. rewrite (IH S2). reflexivity.
Qed.

(* the order of the replies is irrelevant: k outstanding requests, each answered at most once;
   every permutation of the replies leaves every future in the same final state *)
Theorem reply_order_irrelevant sends rs rs' :
  forallb is_send sends = true -> forallb is_resp rs = true -> NoDup (map resp_id rs) ->
  Permutation rs rs' ->
  injective_supply (sends ++ rs) -> lsp_codes (sends ++ rs) ->
  valid_results (sends ++ rs) -> valid_results (sends ++ rs') ->
  views (run (sends ++ rs)) = views (run (sends ++ rs')).
Proof.
  intros SA R ND P A D C C'.
  assert (R' : forallb is_resp rs' = true).
  { apply forallb_forall. intros e He. rewrite forallb_forall in R. apply R.
    apply (Permutation_in e (Permutation_sym P) He). }
  assert (IS : in_ids sends = []).
  { clear -SA. induction sends as [|e r IH]; [reflexivity|]. cbn [forallb] in SA.
    apply andb_true_iff in SA. destruct SA as [S1 S2]. destruct e; try discriminate. apply IH, S2. }
  assert (PI : forall e, In e (sends ++ rs') -> In e (sends ++ rs)).
  { intros e. apply Permutation_in. apply Permutation_app_head, Permutation_sym, P. }
  rewrite first_response_wins; try assumption.
  - rewrite first_response_wins.
    + apply spec_futs_perm; assumption.
    + unfold injective_supply in *. rewrite <- (scan_ids_sends sends rs rs' SA R R'). exact A.
    + intros i Hi. rewrite in_ids_app, IS, (in_ids_resp rs' R') in Hi. destruct Hi.
    + exact C'.
    + intros i c m d Hin. apply (D i c m d (PI _ Hin)).
  - intros i Hi. rewrite in_ids_app, IS, (in_ids_resp rs R) in Hi. destruct Hi.
Qed.

(* ------------------------------------------------------------------ C16, outgoing half *)
Lemma rtypes_step_send s m rt cb mid i :
  iget i (rtypes (step s (UserSend m rt cb mid)))
  = if id_eqb (fst (send_id mid (next s))) i then Some rt else iget i (rtypes s).
Proof.
  cbn [step_with cancel_with xnone]. destruct (send_request_fields s m rt cb mid WNone) as (_ & _ & C & _).
  rewrite C. destruct (id_eqb (fst (send_id mid (next s))) i) eqn:E.
  - apply id_eqb_eq in E. rewrite <- E. apply (aget_aset_eq id_eqb id_eqb_eq).
  - apply (aget_aset_neq id_eqb id_eqb_eq). intros H. rewrite H, id_eqb_refl in E. discriminate.
Qed.

Lemma rtypes_step_resp s e i : resp_is i e = true -> iget i (rtypes (step s e)) = None.
Proof.
  destruct e as [m rt cb mid|j p oks|j c m d|k0|j|j|j res|j]; cbn [resp_is]; try discriminate;
    intros E; apply id_eqb_eq in E; subst j; cbn [step_with cancel_with xnone].
  - destruct (iget i (rtypes s)) as [rt|] eqn:G; [|exact G].
    destruct (mem_n rt oks).
    + destruct (handle_response_tables (set_rtypes s (adel id_eqb i (rtypes s))) i (ORes rt p)) as (A & _).
      rewrite A. cbn [rtypes set_rtypes]. apply (aget_adel_eq id_eqb).
    + cbn [hook rtypes set_rtypes]. apply (aget_adel_eq id_eqb).
  - destruct (int32 c).
    + destruct (handle_response_tables (set_rtypes s (adel id_eqb i (rtypes s))) i (OErr c m d)) as (A & _).
      rewrite A. cbn [rtypes set_rtypes]. apply (aget_adel_eq id_eqb).
    + cbn [hook rtypes set_rtypes]. apply (aget_adel_eq id_eqb).
Qed.

Lemma rtypes_step_other s e i :
  is_send e = false -> iget i (rtypes (step s e)) <> None -> iget i (rtypes s) <> None.
Proof.
  intros S H. destruct (ev_key e) as [j|] eqn:K.
  - destruct (tables_shape s e j K) as [_ [R|R]]; rewrite R in H; [exact H|].
    destruct (id_eq_dec j i) as [->|N].
    + rewrite (aget_adel_eq id_eqb) in H. congruence.
    + rewrite (aget_adel_neq id_eqb id_eqb_eq) in H by exact N. exact H.
  - destruct e; try discriminate. exact H.
Qed.

Lemma rtypes_sub evs : forall s i, iget i (rtypes (run_from s evs)) <> None ->
  (iget i (rtypes s) <> None /\ responded i evs = false) \/ In i (unanswered evs (next s)).
Proof.
  induction evs as [|e r IH]; intros s i H; [left; split; [exact H|reflexivity]|].
  change (run_from s (e :: r)) with (run_from (step s e) r) in H.
  destruct (IH (step s e) i H) as [[A B]|B].
  - destruct (is_send e) eqn:S.
    + destruct e as [m rt cb mid| | | | | | |]; try discriminate. rewrite rtypes_step_send in A.
      cbn [unanswered]. destruct (id_eqb (fst (send_id mid (next s))) i) eqn:E.
      * apply id_eqb_eq in E. rewrite E, B. right. left. reflexivity.
      * left. split; [exact A|]. unfold responded. cbn [existsb resp_is orb]. exact B.
    + left. split; [apply (rtypes_step_other s e i S A)|]. unfold responded. cbn [existsb].
      destruct (resp_is i e) eqn:R; [|exact B]. exfalso. apply A. apply rtypes_step_resp, R.
  - right. rewrite step_next in B. destruct e as [m rt cb mid| | | | | | |]; cbn [unanswered]; try exact B.
    apply in_or_app. right. exact B.
Qed.

Definition K (s : st) : Prop :=
  forall i k, iget i (futs s) = Some (FOut k) ->
  exists o, nget k (ofuts s) = Some o /\ oid o = i /\ iget i (rtypes s) = Some (ort o).

Lemma K_map s s' e :
  K s -> ofuts s' = map (one_step e) (ofuts s) ->
  (forall i k, iget i (futs s') = Some (FOut k) ->
     iget i (futs s) = Some (FOut k) /\ iget i (rtypes s') = iget i (rtypes s)) ->
  K s'.
Proof.
  intros H O T i k G. destruct (T i k G) as [G0 R]. destruct (H i k G0) as (o & A & B & C).
  exists (one e k o). destruct (one_oid e k o) as (E1 & E2 & _).
  rewrite O, nget_one_step, A, E1, E2, R. auto.
Qed.

Lemma adel_get_some {V} (t : list (id * V)) j i v :
  iget i (adel id_eqb j t) = Some v -> i <> j /\ iget i t = Some v.
Proof.
  intros H. destruct (id_eq_dec j i) as [->|N].
  - rewrite (aget_adel_eq id_eqb) in H. discriminate.
  - rewrite (aget_adel_neq id_eqb id_eqb_eq) in H by exact N. split; [congruence|exact H].
Qed.

Lemma adel_get_neq {V} (t : list (id * V)) j i : i <> j -> iget i (adel id_eqb j t) = iget i t.
Proof. intros N. apply (aget_adel_neq id_eqb id_eqb_eq). congruence. Qed.

(* the static form of valid_results, along a run *)
Definition svalid (s : st) (evs : list ev) : Prop :=
  forall i p oks, In (RecvResult i p oks) evs ->
  forall rt, In (i, rt) (oid_rts s ++ sent evs (next s)) -> mem_n rt oks = true.

Lemma svalid_tail s e r : Inv s -> ok_ev s e -> svalid s (e :: r) -> svalid (step s e) r.
Proof.
  intros I OK VA i p oks Hin rt' Hrt. apply (VA i p oks); [right; exact Hin|].
  rewrite (oid_rts_step s e I OK), (step_next s e) in Hrt.
  destruct (is_send e) eqn:S.
  - destruct e as [m rt cb mid| | | | | | |]; try discriminate. rewrite sent_send.
    rewrite <- app_assoc in Hrt. exact Hrt.
  - rewrite (sent_other e r _ S). destruct e; try discriminate; exact Hrt.
Qed.

Theorem K_step s e r : Inv s -> compat s (e :: r) -> svalid s (e :: r) -> K s -> K (step s e).
Proof.
  intros I C SV H. pose proof (compat_head s e r C) as OK. pose proof (resp_frame s e I OK) as O.
  destruct e as [m rt cb mid|j p oks|j c m d|k0|j|j|j res|j].
  - (* send *)
    cbn [step_with cancel_with xnone] in *. destruct (send_request_fields s m rt cb mid WNone)
      as (A & B & D & _). set (i0 := fst (send_id mid (next s))) in *.
    intros i k G. rewrite B in G. rewrite A, D. rewrite (nget_app_new _ _ _ (inv_handles s I)).
    destruct (id_eq_dec i0 i) as [<-|N].
    + rewrite (aget_aset_eq id_eqb id_eqb_eq) in G. injection G as <-. rewrite Nat.eqb_refl.
      eexists. split; [reflexivity|]. cbn [oid ort]. split; [reflexivity|].
      apply (aget_aset_eq id_eqb id_eqb_eq).
    + rewrite (aget_aset_neq id_eqb id_eqb_eq) in G by exact N.
      destruct (H i k G) as (o & G0 & E & R). exists o.
      rewrite (aget_aset_neq id_eqb id_eqb_eq) by exact N. repeat split; try assumption.
      replace (Nat.eqb k (length (ofuts s))) with false; [exact G0|]. symmetry. apply Nat.eqb_neq.
      apply nget_in in G0. apply (in_map fst) in G0. rewrite (inv_handles s I) in G0.
      apply in_seq in G0. cbn [fst] in G0. lia.
  - (* result *)
    apply (K_map s _ _ H O). cbn [step_with cancel_with xnone]. intros i k G.
    destruct (iget j (rtypes s)) as [rt|] eqn:R.
    + destruct (mem_n rt oks) eqn:M.
      * destruct (handle_response_tables (set_rtypes s (adel id_eqb j (rtypes s))) j (ORes rt p))
          as (A & _ & _ & B). rewrite A. rewrite B in G. cbn [futs rtypes set_rtypes] in *.
        apply adel_get_some in G. destruct G as [N G]. split; [exact G|apply adel_get_neq, N].
      * cbn [hook futs rtypes set_rtypes] in *. split; [exact G|].
        destruct (id_eq_dec i j) as [->|N]; [|apply adel_get_neq, N]. exfalso.
        destruct (H j k G) as (o & G0 & E & R'). rewrite R in R'. injection R' as ->.
        assert (X : mem_n (ort o) oks = true).
        { apply (SV j p oks); [left; reflexivity|]. apply in_or_app. left. rewrite <- E.
          eapply in_oid_rts. exact G0. }
        congruence.
    + cbn [hook futs rtypes] in *. auto.
  - (* error *)
    apply (K_map s _ _ H O). cbn [step_with cancel_with xnone ok_ev] in *. rewrite OK. intros i k G.
    destruct (handle_response_tables (set_rtypes s (adel id_eqb j (rtypes s))) j (OErr c m d))
      as (A & _ & _ & B). rewrite A. rewrite B in G. cbn [futs rtypes set_rtypes] in *.
    apply adel_get_some in G. destruct G as [N G]. split; [exact G|apply adel_get_neq, N].
  - apply (K_map s _ _ H O). cbn [step_with cancel_with xnone]. intros i k G. auto.
  - apply (K_map s _ _ H O). cbn [step_with cancel_with xnone futs rtypes set_rtypes]. intros i k G. split; [exact G|].
    apply adel_get_neq. intros ->. destruct (H j k G) as (o & G0 & E & _). apply (OK k o G0 E).
  - apply (K_map s _ _ H O). cbn [step_with cancel_with xnone futs rtypes set_futs]. intros i k G.
    destruct (id_eq_dec j i) as [->|N].
    + rewrite (aget_aset_eq id_eqb id_eqb_eq) in G. discriminate.
    + rewrite (aget_aset_neq id_eqb id_eqb_eq) in G by exact N. auto.
  - apply (K_map s _ _ H O). cbn [step_with cancel_with xnone]. intros i k G.
    destruct res; cbn [futs rtypes set_futs set_rtypes] in *; apply adel_get_some in G;
      destruct G as [N G]; split; try exact G; try reflexivity. apply adel_get_neq, N.
  - apply (K_map s _ _ H O). cbn [step_with cancel_with xnone]. intros i k G.
    destruct (iget j (futs s)) as [[k1|]|] eqn:F; cbn [futs rtypes set_futs cancel_out set_ofuts] in *.
    + apply adel_get_some in G. destruct G as [N G]. auto.
    + apply adel_get_some in G. destruct G as [N G]. auto.
    + auto.
Qed.

Theorem K_run evs : forall s, Inv s -> compat s evs -> svalid s evs -> K s -> K (run_from s evs).
Proof.
  induction evs as [|e r IH]; intros s I C SV H; [exact H|].
  change (run_from s (e :: r)) with (run_from (step s e) r).
  pose proof (compat_head s e r C) as OK.
  apply IH; [apply inv_step; assumption|apply compat_tail; assumption|apply svalid_tail; assumption|
             eapply K_step; eassumption].
Qed.

Lemma K_init : K init.
Proof. intros i k. cbn. discriminate. Qed.

Definition noFIn (s : st) : Prop := forall i, iget i (futs s) <> Some FIn.

Lemma noFIn_step s e :
  (match e with InAsyncReg _ => false | _ => true end) = true -> noFIn s -> noFIn (step s e).
Proof.
  intros NR H i. destruct e as [m rt cb mid|j p oks|j c m d|k0|j|j|j res|j]; try discriminate; cbn [step_with cancel_with xnone].
  - destruct (send_request_fields s m rt cb mid WNone) as (_ & B & _).
    rewrite B. destruct (id_eq_dec (fst (send_id mid (next s))) i) as [<-|N].
    + rewrite (aget_aset_eq id_eqb id_eqb_eq). discriminate.
    + rewrite (aget_aset_neq id_eqb id_eqb_eq) by exact N. apply H.
  - destruct (iget j (rtypes s)) as [rt|]; [|apply H]. destruct (mem_n rt oks); [|apply H].
    destruct (handle_response_tables (set_rtypes s (adel id_eqb j (rtypes s))) j (ORes rt p))
      as (_ & _ & _ & B). rewrite B. cbn [futs set_rtypes]. intros G. apply adel_get_some in G.
    apply (H i), G.
  - destruct (int32 c); [|apply H].
    destruct (handle_response_tables (set_rtypes s (adel id_eqb j (rtypes s))) j (OErr c m d))
      as (_ & _ & _ & B). rewrite B. cbn [futs set_rtypes]. intros G. apply adel_get_some in G.
    apply (H i), G.
  - apply H.
  - apply H.
  - destruct res; cbn [futs set_futs set_rtypes]; intros G; apply adel_get_some in G; apply (H i), G.
  - destruct (iget j (futs s)) as [[k1|]|]; cbn [futs set_futs cancel_out set_ofuts]; try apply H;
      intros G; apply adel_get_some in G; apply (H i), G.
Qed.

Lemma noFIn_run evs : forall s, no_in_async evs = true -> noFIn s -> noFIn (run_from s evs).
Proof.
  induction evs as [|e r IH]; intros s N H; [exact H|]. cbn [no_in_async forallb] in N.
  apply andb_true_iff in N. destruct N as [N1 N2].
  change (run_from s (e :: r)) with (run_from (step s e) r). apply IH; [exact N2|].
  apply noFIn_step; assumption.
Qed.

(* C16, outgoing half: once every outgoing request has been answered (a response carrying its id
   arrived after it was sent), pygls keeps no bookkeeping for outgoing requests: _result_types is
   empty and _request_futures holds no outgoing future; it is empty altogether when the incoming
   direction has registered nothing (its half is C16 over Model/Endpoint.v). *)
Theorem C16_outgoing evs :
  injective_supply evs -> disjoint_directions evs -> valid_results evs -> lsp_codes evs ->
  strict_valid_results evs -> all_answered evs ->
  rtypes (run evs) = [] /\
  (forall i k, iget i (futs (run evs)) <> Some (FOut k)) /\
  (no_in_async evs = true -> futs (run evs) = []).
Proof.
  intros A B C D SV E. pose proof (compat_init evs A B C D) as CI.
  assert (R : rtypes (run evs) = []).
  { apply (all_none_nil id_eqb id_eqb_eq). intros i.
    destruct (iget i (rtypes (run evs))) eqn:G; [|reflexivity]. exfalso.
    destruct (rtypes_sub evs init i) as [[X _]|X].
    - fold (run evs). rewrite G. discriminate.
    - apply X. reflexivity.
    - unfold all_answered in E. cbn [init next] in X. rewrite E in X. exact X. }
  assert (F : forall i k, iget i (futs (run evs)) <> Some (FOut k)).
  { intros i k G. destruct (K_run evs init inv_init CI SV K_init i k G) as (o & _ & _ & X).
    fold (run evs) in X. rewrite R in X. discriminate. }
  repeat split; [exact R|exact F|]. intros NA. apply (all_none_nil id_eqb id_eqb_eq). intros i.
  destruct (iget i (futs (run evs))) as [[k|]|] eqn:G; [exfalso; apply (F i k G)| |reflexivity].
  exfalso. apply (noFIn_run evs init NA (fun i H => ltac:(discriminate)) i G).
Qed.

(* non-vacuity of C16_outgoing: three requests, answered by a result, an error with code 0 and
   empty message, and a result preceded by a duplicate-to-be; the caller cancelled one of them *)
Example C16_outgoing_nonvacuous :
  let evs := [UserSend 0 1 (CbUser KNone) None; UserSend 1 2 CbNone (Some (IInt 7)); UserSend 6 0 (CbUser KNone) (Some (IStr [55%N]));
              UserCancelOut 1; RecvResult (IInt 7) 0 [2%N]; RecvError (IStr [55%N]) 0 [] 3;
              RecvResult (IUuid 0) 5 [1%N]; RecvResult (IUuid 0) 0 [1%N]] in
  guard evs = true /\ all_answered evs /\ no_in_async evs = true /\
  futs (run evs) = [] /\ rtypes (run evs) = [] /\ length (ofuts (run evs)) = 3.
Proof. vm_compute. repeat split. Qed.

(* ------------------------------------------------------------------ a reply during the write *)
(* Responses neither read nor write `out`: handling one commutes with the write. *)
Lemma complete_set_out s k oc v : complete (set_out s v) k oc = set_out (complete s k oc) v.
Proof.
  unfold complete_with, xnone. cbn [ofuts set_out]. destruct (nget k (ofuts s)) as [o|]; [|reflexivity].
  destruct (is_pending (ost o)); [|reflexivity]. unfold run_callbacks.
  destruct oc; cbn [ost set_ost ocb]; [|reflexivity].
  destruct (ocb o) as [|kn|kn|t u]; [reflexivity|reflexivity|reflexivity|]. destruct u; reflexivity.
Qed.

Lemma handle_response_set_out s i oc v :
  handle_response (set_out s v) i oc = set_out (handle_response s i oc) v.
Proof.
  unfold handle_response_with. cbn [futs set_out]. destruct (iget i (futs s)) as [[k|]|]; try reflexivity.
  rewrite <- complete_set_out. reflexivity.
Qed.

Lemma step_response_set_out s e v :
  is_resp e = true -> step (set_out s v) e = set_out (step s e) v.
Proof.
  destruct e as [m rt cb mid|j p oks|j c m d|k0|j|j|j res|j]; try discriminate; intros _; cbn [step_with cancel_with xnone].
  - cbn [rtypes set_out]. destruct (iget j (rtypes s)) as [rt|]; [|reflexivity].
    destruct (mem_n rt oks); [|reflexivity]. rewrite <- handle_response_set_out. reflexivity.
  - destruct (int32 c); [|reflexivity]. rewrite <- handle_response_set_out. reflexivity.
Qed.

Lemma step_response_out s e : is_resp e = true -> out (step s e) = out s.
Proof.
  destruct e as [m rt cb mid|j p oks|j c m d|k0|j|j|j res|j]; try discriminate; intros _; cbn [step_with cancel_with xnone].
  - destruct (iget j (rtypes s)) as [rt|]; [|reflexivity]. destruct (mem_n rt oks); [|reflexivity].
    destruct (handle_response_tables (set_rtypes s (adel id_eqb j (rtypes s))) j (ORes rt p))
      as (_ & _ & A & _). exact A.
  - destruct (int32 c); [|reflexivity].
    destruct (handle_response_tables (set_rtypes s (adel id_eqb j (rtypes s))) j (OErr c m d))
      as (_ & _ & A & _). exact A.
Qed.

(* reply_during_write: send_request registers the future and the result type BEFORE it hands the
   request to the writer.  So a reply dispatched while the write is still in progress (state:
   registered, frame not yet accounted as written) leads to the same state as the same reply
   dispatched right after send_request returned - which is the case C05 speaks of. *)
Theorem reply_during_write s m rt cb mid w e :
  is_resp e = true ->
  send_write (step (send_register s m rt cb mid w) e) (WReq (send_id_of s mid) m (send_arg cb w))
  = step (send_request s m rt cb mid w) e.
Proof.
  intros R. unfold send_request, send_write. rewrite step_response_set_out by exact R.
  rewrite (step_response_out _ e R). reflexivity.
Qed.

(* ... and in that intermediate state both tables already hold the entry of the new request *)
Theorem registered_before_write s m rt cb mid w :
  let s1 := send_register s m rt cb mid w in
  iget (send_id_of s mid) (futs s1) = Some (FOut (length (ofuts s))) /\
  iget (send_id_of s mid) (rtypes s1) = Some rt /\ out s1 = out s.
Proof.
  destruct mid; cbn; rewrite !(aget_aset_eq id_eqb id_eqb_eq); repeat split.
Qed.

(* ------------------------------------------------------------------ re-entrant callbacks *)
(* User code runs INSIDE set_result / set_exception / cancel (Model: the parameter X of step_with).
   At HEAD that point is after `_request_futures.pop(msg_id)` and nothing follows it in the
   handling of the frame.  Hence: what the user code does - cancel other futures, send follow-up
   requests, possibly with the id that has just been answered - is exactly as if it had been done
   right AFTER the event: the re-entrant machine is the primitive machine on the flattened trace. *)

(* the user code an event sets off, read off the state it meets (the code path of step_with) *)
Definition trig_cancel (s : st) (k : nat) : option (bool * kont) :=
  match nget k (ofuts s) with
  | Some o => if is_pending (ost o) then kont_of (set_ost o Cancelled) else None
  | None => None
  end.

Definition trig_complete (s : st) (k : nat) (oc : outcome) : option (bool * kont) :=
  match nget k (ofuts s) with
  | Some o =>
    if is_pending (ost o)
    then kont_of (set_ost o (match oc with
                             | ORes rt p => Resolved rt p
                             | OErr c m d => Failed (class_of_code c) c m d
                             end))
    else None
  | None => None
  end.

Definition trig_hr (s : st) (i : id) (oc : outcome) : option (bool * kont) :=
  match iget i (futs s) with Some (FOut k) => trig_complete s k oc | _ => None end.

Definition trig (s : st) (e : ev) : option (bool * kont) :=
  match e with
  | RecvResult i p oks =>
    match iget i (rtypes s) with
    | Some rt => if mem_n rt oks then trig_hr s i (ORes rt p) else None
    | None => None
    end
  | RecvError i c m d => if int32 c then trig_hr s i (OErr c m d) else None
  | UserCancelOut k => trig_cancel s k
  | InCancel i => match iget i (futs s) with Some (FOut k) => trig_cancel s k | _ => None end
  | _ => None
  end.

Section Trig.
  Variable X : st -> option (bool * kont) -> st.
  Hypothesis X_none : forall s, X s None = s.

  Lemma complete_with_trig s k oc : complete_with X s k oc = X (complete s k oc) (trig_complete s k oc).
  Proof.
    unfold complete_with, trig_complete, xnone. destruct (nget k (ofuts s)) as [o|]; [|rewrite X_none; reflexivity].
    destruct (is_pending (ost o)); [reflexivity|rewrite X_none; reflexivity].
  Qed.

  Lemma handle_response_with_trig s i oc :
    handle_response_with X s i oc = X (handle_response s i oc) (trig_hr s i oc).
  Proof.
    unfold handle_response_with, trig_hr. destruct (iget i (futs s)) as [[k|]|]; try (rewrite X_none; reflexivity).
    rewrite complete_with_trig. reflexivity.
  Qed.

  Lemma cancel_with_trig s k : cancel_with X s k = X (cancel_with xnone s k) (trig_cancel s k).
  Proof. reflexivity. Qed.

  Lemma step_with_trig s e : step_with X s e = X (step s e) (trig s e).
  Proof.
    destruct e as [m rt cb mid|j p oks|j c m d|k0|j|j|j res|j]; cbn [step_with trig];
      try (rewrite X_none; reflexivity).
    - destruct (iget j (rtypes s)) as [rt|]; [|rewrite X_none; reflexivity].
      destruct (mem_n rt oks); [|rewrite X_none; reflexivity]. rewrite handle_response_with_trig. reflexivity.
    - destruct (int32 c); [|rewrite X_none; reflexivity]. rewrite handle_response_with_trig. reflexivity.
    - apply cancel_with_trig.
    - destruct (iget j (futs s)) as [[k|]|]; try (rewrite X_none; reflexivity).
      change (trig_cancel s k) with (trig_cancel (set_futs s (adel id_eqb j (futs s))) k).
      apply cancel_with_trig.
  Qed.
End Trig.

Lemma xrun_none f s : xrun f s None = s.
Proof. reflexivity. Qed.

(* the primitive events user code performs *)
Fixpoint flat_exec (f : nat) (s : st) (dk : bool) (kn : kont) : list ev :=
  match f with
  | O => []
  | S f' =>
    match kn with
    | KNone => []
    | KSend m rt mid k' => [UserSend m rt (if dk then CbDone k' else CbUser k') mid]
    | KCancel h k' =>
      UserCancelOut h
      :: match trig s (UserCancelOut h) with
         | Some (d, kh) => flat_exec f' (step s (UserCancelOut h)) d kh
         | None => []
         end
      ++ flat_exec f' (cancel_with (xrun f') s h) dk k'
    end
  end.

Lemma exec_flat f : forall s dk kn, execf f s dk kn = fold_left step (flat_exec f s dk kn) s.
Proof.
  induction f as [|f IH]; intros s dk kn; [reflexivity|]. destruct kn as [|h k'|m rt mid k']; cbn [execf flat_exec].
  - reflexivity.
  - change (fun (s0 : st) (x : option (bool * kont)) =>
              match x with Some (d, kh) => execf f s0 d kh | None => s0 end) with (xrun f).
    cbn [fold_left]. rewrite fold_left_app. rewrite IH. f_equal.
    change (cancel_with (xrun f) s h) with (step_with (xrun f) s (UserCancelOut h)).
    rewrite (step_with_trig (xrun f) (xrun_none f)).
    destruct (trig s (UserCancelOut h)) as [[d kh]|]; cbn [xrun fold_left]; [apply IH|reflexivity].
  - reflexivity.
Qed.

Definition flat (s : st) (e : ev) : list ev :=
  e :: match trig s e with
       | Some (d, kn) => flat_exec (fuel_for s e) (step s e) d kn
       | None => []
       end.

(* one event of the re-entrant machine = the event, then what the user code did, one by one *)
Theorem rstep_flat s e : rstep s e = fold_left step (flat s e) s.
Proof.
  unfold rstep, flat. rewrite (step_with_trig (xrun (fuel_for s e)) (xrun_none _)). cbn [fold_left].
  destruct (trig s e) as [[d kn]|]; cbn [xrun fold_left]; [apply exec_flat|reflexivity].
Qed.

(* the primitive trace of a history with re-entrant callbacks *)
Fixpoint flat_run (s : st) (evs : list ev) : list ev :=
  match evs with
  | [] => []
  | e :: r => flat s e ++ flat_run (rstep s e) r
  end.

Theorem rrun_flat evs : forall s, rrun_from s evs = run_from s (flat_run s evs).
Proof.
  induction evs as [|e r IH]; intros s; [reflexivity|]. cbn [rrun_from fold_left flat_run].
  unfold run_from. rewrite fold_left_app, <- rstep_flat. apply IH.
Qed.

Definition rtrace (evs : list ev) : list ev := flat_run init evs.

(* first response wins, with re-entrant user code: a request re-sent from a callback - also with
   the id that has just been answered - is a NEW request whose outstanding interval starts inside
   the callback; every generation of a polled id completes with ITS reply *)
Theorem reentrant_first_response_wins evs :
  guard (rtrace evs) = true -> views (rrun evs) = spec (rtrace evs).
Proof.
  intros G. unfold rrun. rewrite rrun_flat. apply reference_agrees, G.
Qed.

Example reentrant_poll :
  let poll := KSend 0 1 (Some (IInt 7)) (KSend 0 1 (Some (IInt 7)) KNone) in
  let evs := [UserSend 0 1 (CbUser poll) (Some (IInt 7)); UserSend 1 2 (CbDone (KCancel 0 (KSend 6 0 None KNone))) None;
              RecvResult (IInt 7) 5 [1%N]; RecvError (IUuid 0) 0 [] 0; RecvResult (IInt 7) 0 [1%N];
              RecvError (IInt 7) 1 [] 0; RecvResult (IUuid 1) 3 [0%N]] in
  guard (rtrace evs) = true /\
  views (rrun evs) = [(Resolved 1 5, 1%N); (Failed EBase 0 [] 0, 0%N); (Resolved 1 0, 1%N);
                      (Resolved 0 3, 0%N); (Failed EBase 1 [] 0, 0%N)] /\
  futs (rrun evs) = [] /\ rtypes (rrun evs) = [] /\ length (rtrace evs) = 11.
Proof. vm_compute. repeat split. Qed.

(* ------------------------------------------------------------------ ids that were never issued *)
(* the ids of the futures of a run are exactly the ids its sends were issued with *)
Lemma oid_rts_run evs : forall s, Inv s -> compat s evs ->
  oid_rts (run_from s evs) = oid_rts s ++ sent evs (next s).
Proof.
  induction evs as [|e r IH]; intros s I C; [cbn [run_from fold_left sent]; symmetry; apply app_nil_r|].
  change (run_from s (e :: r)) with (run_from (step s e) r).
  pose proof (compat_head s e r C) as OK.
  rewrite (IH (step s e) (inv_step s e I OK) (compat_tail s e r I C)).
  rewrite (oid_rts_step s e I OK), (step_next s e). destruct (is_send e) eqn:S.
  - destruct e as [m rt cb mid| | | | | | |]; try discriminate. rewrite sent_send, <- app_assoc. reflexivity.
  - rewrite (sent_other e r _ S). destruct e; try discriminate; reflexivity.
Qed.

(* unissued_id_affects_nothing: a response - result or error, any code / message / data / payload -
   whose id is none of the ids pygls has issued leaves every future as it is.  In particular
   `"id": null` (INull) and ids that are no int / string at all (IOdd: a fractional number, a list,
   an object), which send_request never issues: whatever is outstanding - nothing, one request,
   many - no request is "the one the peer must have meant". *)
Theorem unissued_id_affects_nothing evs i :
  injective_supply evs -> disjoint_directions evs -> valid_results evs -> lsp_codes evs ->
  ~ In i (sent_ids evs 0%N) ->
  (forall p oks, ofuts (step (run evs) (RecvResult i p oks)) = ofuts (run evs)) /\
  (forall c m d, ofuts (step (run evs) (RecvError i c m d)) = ofuts (run evs)).
Proof.
  intros A B C D NI. pose proof (compat_init evs A B C D) as CI.
  apply stray_dup_noop; [apply inv_run; [exact inv_init|exact CI]|].
  intros k o G _ E. apply NI. unfold sent_ids.
  pose proof (oid_rts_run evs init inv_init CI) as R. cbn [oid_rts init ofuts map app next] in R.
  fold (run evs) in R. rewrite <- R, <- E. eapply in_oids. exact G.
Qed.

(* send_request never issues null (msg_id=None means "draw a uuid") nor a non-int / non-string id *)
Definition issuable (i : id) : bool := match i with INull | IOdd _ => false | _ => true end.

Corollary null_id_affects_nothing evs :
  injective_supply evs -> disjoint_directions evs -> valid_results evs -> lsp_codes evs ->
  forallb issuable (sent_ids evs 0%N) = true ->
  forall i, issuable i = false ->
  (forall p oks, ofuts (step (run evs) (RecvResult i p oks)) = ofuts (run evs)) /\
  (forall c m d, ofuts (step (run evs) (RecvError i c m d)) = ofuts (run evs)).
Proof.
  intros A B C D IS i NI. apply unissued_id_affects_nothing; try assumption.
  intros H. rewrite forallb_forall in IS. rewrite (IS i H) in NI. discriminate.
Qed.

Example null_id_one_outstanding :
  let evs := [UserSend 0 1 (CbUser KNone) (Some (IInt 7))] in
  views (run (evs ++ [RecvError INull 5 [109%N] 0; RecvResult INull 0 [1%N]; RecvError (IOdd 0) 0 [] 0]))
    = [(Pending, 0%N)] /\
  errs (run (evs ++ [RecvError INull 5 [109%N] 0; RecvResult INull 0 [1%N]; RecvError (IOdd 0) 0 [] 0])) = 3%N /\
  views (run (evs ++ [RecvError INull 5 [109%N] 0; RecvResult (IInt 7) 0 [1%N]])) = [(Resolved 1 0, 1%N)].
Proof. vm_compute. repeat split. Qed.
