(* Proofs/C14Proofs.v - delivery of a message to the built-in and the user's handlers (C14). *)
From Coq Require Import ZArith NArith List Bool Lia Arith.
From Pygls Require Import Base.Assoc Model.Features Spec.FeaturesSpec Proofs.FeaturesProofs.
From Pygls Require Import Model.Dispatch Spec.DispatchSpec.
Import ListNotations.

(* ------------------------------------------------------------------ method names *)
Lemma known_name : forall k, mem_name (meth_of k) builtins = is_builtin_call k.
Proof. intro k. destruct k; reflexivity. Qed.

(* the ten built-ins the model knows are built-ins of every protocol class *)
Lemma isb_known : forall c k, is_builtin_call k = true -> isb c k = true.
Proof.
  intros c k H. unfold isb, bset, mem_name. rewrite existsb_app. fold (mem_name (meth_of k) builtins).
  rewrite known_name, H. reflexivity.
Qed.

Lemma get_handler_builtin : forall c r k, isb c k = true -> get_handler (bset c) r (meth_of k) = HBuiltin.
Proof. intros c r k H. apply builtin_always_wins. exact H. Qed.

Lemma get_handler_other : forall c r k, isb c k = false ->
    get_handler (bset c) r (meth_of k) =
    match aget (meth_of k) (features r) with Some e => HUser e | None => HNotFound end.
Proof. intros c r k H. unfold get_handler. unfold isb in H. rewrite H. reflexivity. Qed.

Lemma isb_other_only : forall c k, isb c k = false -> exists q nm v, k = COther q nm v.
Proof.
  intros c k H. destruct k; try (match type of H with isb c ?k0 = false => rewrite (isb_known c k0 eq_refl) in H; discriminate end). eauto.
Qed.

(* ------------------------------------------------------------------ what one delivery places *)
(* an invocation the code is going to make, with the done-callback of its future *)
Record pinv := mkP { p_inv : inv; p_cb : cbkind }.

Definition user_plan (c : cfg) (n : nat) (k : call) (args : list arg) : list pinv :=
  match aget (meth_of k) (features (c_reg c)) with
  | Some e => [mkP (mkInv n (meth_of k) PUser e args) CNot]
  | None => []
  end.

(* the user's functions message number n reaches (after its built-in, if it has one), in order *)
Definition plan (c : cfg) (w : wsp) (n : nat) (k : call) : list pinv :=
  match k with
  | COther q nm v =>
      if isb c k then user_plan c n k [ACall k]       (* a built-in the protocol class adds *)
      else match aget (other_name nm) (features (c_reg c)) with
           | Some e => [mkP (mkInv n (other_name nm) PUser e [ACall k])
                            (match q with Some i => CReq i | None => CNot end)]
           | None => []
           end
  | CExecCmd i cmd a =>
      match exec_command (c_reg c) (Some cmd) with
      | [] => []
      | e :: _ => mkP (mkInv n (Some cmd) PCommand e [AVal a]) (CReq i)
                  :: (if inline e && raises c e then [] else user_plan c n k [ACall k; AId i])
      end
  | _ => match ws_effect (c_tokens c) k w with
         | Some _ => user_plan c n k [ACall k]
         | None => []
         end
  end.

Definition p_entry (p : pinv) : entry := i_entry (p_inv p).
Definition p_inline (p : pinv) : bool := inline (p_entry p).
Definition p_task (p : pinv) : bool := match exec_site (p_entry p) with LoopTask => true | _ => false end.
Definition p_pool (p : pinv) : bool := match exec_site (p_entry p) with Pool => true | _ => false end.

Definition hent (sv : tsite) (x : inv) (w : wsp) : hentry :=
  mkH (i_msg x) (i_meth x) (i_part x) (e_fid (i_entry x)) sv (e_inject (i_entry x)) (i_args x) w.

Definition now_entries (w : wsp) (ps : list pinv) : list hentry :=
  map (fun p => hent OnLoop (p_inv p) w) (filter p_inline ps).
Definition new_tasks (ps : list pinv) : list task :=
  map (fun p => mkT (p_inv p) (p_cb p) (TNew false)) (filter p_task ps).
Definition new_jobs (ps : list pinv) : list job :=
  map (fun p => mkJ (p_inv p) (p_cb p) JQueued) (filter p_pool ps).

(* s' extends s: only appends to the log, the task list and the pool queue *)
Definition ext (s s' : st) (hs : list hentry) (ts : list task) (js : list job) : Prop :=
  hlog s' = hlog s ++ hs /\ tasks s' = tasks s ++ ts /\ jobs s' = jobs s ++ js /\
  ws s' = ws s /\ nmsg s' = nmsg s.

Lemma ext_refl : forall s, ext s s [] [] [].
Proof. intro s. unfold ext. rewrite !app_nil_r. auto. Qed.

Lemma ext_trans : forall s1 s2 s3 h1 t1 j1 h2 t2 j2,
    ext s1 s2 h1 t1 j1 -> ext s2 s3 h2 t2 j2 -> ext s1 s3 (h1 ++ h2) (t1 ++ t2) (j1 ++ j2).
Proof.
  unfold ext. intros s1 s2 s3 h1 t1 j1 h2 t2 j2 (A1 & A2 & A3 & A4 & A5) (B1 & B2 & B3 & B4 & B5).
  rewrite B1, B2, B3, B4, B5, A1, A2, A3, A4, A5, !app_assoc. auto.
Qed.

Lemma ext_add_out : forall s f, ext s (add_out f s) [] [] [].
Proof. intros. unfold ext, add_out. cbn. rewrite !app_nil_r. auto. Qed.

Lemma ext_fut_set : forall s i r, ext s (fut_set i r s) [] [] [].
Proof. intros. unfold ext, fut_set. cbn. rewrite !app_nil_r. auto. Qed.

Lemma ext_invoke : forall s sv x, ext s (invoke sv x s) [hent sv x (ws s)] [] [].
Proof. intros. unfold ext, invoke, hent. cbn. rewrite !app_nil_r. auto. Qed.

Lemma ext_new_task : forall s x cb, ext s (new_task x cb s) [] [mkT x cb (TNew false)] [].
Proof. intros. unfold ext, new_task. cbn. rewrite !app_nil_r. auto. Qed.

Lemma ext_new_job : forall s x cb, ext s (new_job x cb s) [] [] [mkJ x cb JQueued].
Proof. intros. unfold ext, new_job. cbn. rewrite !app_nil_r. auto. Qed.

Lemma place_one : forall w p,
    (now_entries w [p], new_tasks [p], new_jobs [p]) =
    match exec_site (p_entry p) with
    | LoopInline => ([hent OnLoop (p_inv p) w], [], [])
    | LoopTask => ([], [mkT (p_inv p) (p_cb p) (TNew false)], [])
    | Pool => ([], [], [mkJ (p_inv p) (p_cb p) JQueued])
    end.
Proof.
  intros w p. unfold now_entries, new_tasks, new_jobs, p_inline, p_task, p_pool, inline. cbn [filter].
  destruct (exec_site (p_entry p)); reflexivity.
Qed.

Lemma execute_request_ext : forall c i x s,
    let p := mkP x (CReq i) in
    ext s (fst (execute_request c i x s)) (now_entries (ws s) [p]) (new_tasks [p]) (new_jobs [p]) /\
    snd (execute_request c i x s) = inline (i_entry x) && raises c (i_entry x).
Proof.
  intros c i x s p. pose proof (place_one (ws s) p) as P. unfold execute_request, inline.
  change (p_entry p) with (i_entry x) in P. change (p_inv p) with x in P. change (p_cb p) with (CReq i) in P.
  destruct (exec_site (i_entry x)); injection P as P1 P2 P3; rewrite P1, P2, P3; cbn [fst snd andb].
  - destruct (raises c (i_entry x)); cbn [fst snd]; split; try reflexivity.
    + apply ext_invoke.
    + change [hent OnLoop x (ws s)] with ([hent OnLoop x (ws s)] ++ []).
      change (@nil task) with (@nil task ++ []). change (@nil job) with (@nil job ++ []).
      eapply ext_trans; [apply ext_invoke|apply ext_add_out].
  - split; [|reflexivity].
    change [mkT x (CReq i) (TNew false)] with ([mkT x (CReq i) (TNew false)] ++ []).
    change (@nil hentry) with (@nil hentry ++ []). change (@nil job) with (@nil job ++ []).
    eapply ext_trans; [apply ext_new_task|apply ext_fut_set].
  - split; [|reflexivity].
    change [mkJ x (CReq i) JQueued] with ([mkJ x (CReq i) JQueued] ++ []).
    change (@nil hentry) with (@nil hentry ++ []). change (@nil task) with (@nil task ++ []).
    eapply ext_trans; [apply ext_new_job|apply ext_fut_set].
Qed.

Lemma exec_notification_ext : forall c x s,
    let p := mkP x CNot in
    ext s (fst (exec_notification c x s)) (now_entries (ws s) [p]) (new_tasks [p]) (new_jobs [p]) /\
    snd (exec_notification c x s) = inline (i_entry x) && raises c (i_entry x).
Proof.
  intros c x s p. pose proof (place_one (ws s) p) as P. unfold exec_notification, inline.
  change (p_entry p) with (i_entry x) in P. change (p_inv p) with x in P. change (p_cb p) with CNot in P.
  destruct (exec_site (i_entry x)); injection P as P1 P2 P3; rewrite P1, P2, P3; cbn [fst snd andb]; split; try reflexivity.
  - apply ext_invoke.
  - apply ext_new_task.
  - apply ext_new_job.
Qed.

Lemma chain_ext : forall c n k args s,
    let ps := user_plan c n k args in
    ext s (Dispatch.chain c n k args s) (now_entries (ws s) ps) (new_tasks ps) (new_jobs ps).
Proof.
  intros c n k args s. unfold Dispatch.chain, user_plan. destruct (aget (meth_of k) (features (c_reg c))) as [e|].
  - apply exec_notification_ext.
  - apply ext_refl.
Qed.

(* ------------------------------------------------------------------ cancel_all keeps the log *)
Lemma run_cb_fields : forall cb r s,
    hlog (run_cb cb r s) = hlog s /\ tasks (run_cb cb r s) = tasks s /\ jobs (run_cb cb r s) = jobs s /\
    ws (run_cb cb r s) = ws s /\ nmsg (run_cb cb r s) = nmsg s.
Proof. intros [i|] r s; cbn [run_cb]; [|auto]. unfold request_callback. destruct r; cbn; auto. Qed.

Lemma cancel_ref_fields : forall r s,
    hlog (cancel_ref r s) = hlog s /\ ws (cancel_ref r s) = ws s /\ nmsg (cancel_ref r s) = nmsg s.
Proof.
  intros [t|j] s; unfold cancel_ref.
  - destruct (nth_error (tasks s) t) as [tk|]; [|auto]. destruct (t_st tk); cbn; auto.
  - destruct (nth_error (jobs s) j) as [jb|]; [|auto]. destruct (j_st jb); cbn; auto.
    destruct (run_cb_fields (j_cb jb) RCancelled (set_job_st j JCancelled s)) as (A & _ & _ & B & C).
    rewrite A, B, C. cbn. auto.
Qed.

Lemma cancel_fold_fields : forall rs s,
    let s' := fold_left (fun s' r => cancel_ref r s') rs s in
    hlog s' = hlog s /\ ws s' = ws s /\ nmsg s' = nmsg s.
Proof.
  induction rs as [|r rs IH]; intro s; cbn [fold_left]; [auto|].
  destruct (IH (cancel_ref r s)) as (A & B & C). destruct (cancel_ref_fields r s) as (A' & B' & C').
  cbn zeta in *. rewrite A, B, C, A', B', C'. auto.
Qed.

Lemma cancel_all_fields : forall s,
    hlog (cancel_all s) = hlog s /\ ws (cancel_all s) = ws s /\ nmsg (cancel_all s) = nmsg s.
Proof. intro s. apply cancel_fold_fields. Qed.

(* ------------------------------------------------------------------ one delivery, exactly *)
Definition bent (n : nat) (k : call) (w : wsp) : hentry :=
  mkH n (meth_of k) PBuiltin 0 OnLoop false (bargs k) w.

(* the state in which the user's functions are placed: `shutdown` first cancels the in-flight
   request futures *)
Definition mid (k : call) (s : st) : st :=
  match k with
  | CShutdown _ => cancel_all (log_builtin (nmsg s) k [ACall k] (set_nmsg (S (nmsg s)) s))
  | _ => s
  end.

Definition delivery (c : cfg) (k : call) (s s' : st) : Prop :=
  let ps := plan c (ws s) (nmsg s) k in
  hlog s' = hlog s ++ (if isb c k then [bent (nmsg s) k (ws s)] else []) ++ now_entries (ws s') ps /\
  tasks s' = tasks (mid k s) ++ new_tasks ps /\
  jobs s' = jobs (mid k s) ++ new_jobs ps /\
  ws s' = spec_step c (ws s) k /\
  nmsg s' = S (nmsg s).

Ltac fields := unfold log_builtin, add_out, set_nmsg, set_hlog, set_out, set_ws;
               cbn [ws nmsg hlog tasks jobs out futs].


Lemma now_entries_cons : forall w p ps, now_entries w (p :: ps) = now_entries w [p] ++ now_entries w ps.
Proof. intros. unfold now_entries. cbn [filter]. destruct (p_inline p); reflexivity. Qed.
Lemma new_tasks_cons : forall p ps, new_tasks (p :: ps) = new_tasks [p] ++ new_tasks ps.
Proof. intros. unfold new_tasks. cbn [filter]. destruct (p_task p); reflexivity. Qed.
Lemma new_jobs_cons : forall p ps, new_jobs (p :: ps) = new_jobs [p] ++ new_jobs ps.
Proof. intros. unfold new_jobs. cbn [filter]. destruct (p_pool p); reflexivity. Qed.

Lemma plain_tail : forall c n k args s1 w (wrap : st -> st),
    (forall x, ext x (wrap x) [] [] []) ->
    let ps := user_plan c n k args in
    let s' := wrap (Dispatch.chain c n k args (set_ws w s1)) in
    hlog s' = hlog s1 ++ now_entries w ps /\ tasks s' = tasks s1 ++ new_tasks ps /\
    jobs s' = jobs s1 ++ new_jobs ps /\ ws s' = w /\ nmsg s' = nmsg s1.
Proof.
  intros c n k args s1 w wrap Hw ps s'.
  destruct (chain_ext c n k args (set_ws w s1)) as (A1 & A2 & A3 & A4 & A5).
  destruct (Hw (Dispatch.chain c n k args (set_ws w s1))) as (B1 & B2 & B3 & B4 & B5).
  subst s'. rewrite B1, B2, B3, B4, B5, A1, A2, A3, A4, A5, !app_nil_r. cbn [set_ws ws hlog tasks jobs nmsg]. auto.
Qed.

Lemma ext_id : forall x : st, ext x ((fun y => y) x) [] [] [].
Proof. intro x. apply ext_refl. Qed.

Lemma recv_other : forall c q nm v s, w_shut (ws s) = false ->
    delivery c (COther q nm v) s (recv c (COther q nm v) s).
Proof.
  intros c q nm v s Hs. unfold delivery, recv. rewrite Hs. cbn [req_id mid].
  unfold spec_step, delivered. rewrite Hs. cbn [negb ws_effect plan].
  destruct (isb c (COther q nm v)) eqn:Hb.
  - (* a built-in the protocol class adds: no effect on the workspace, then the user's feature *)
    unfold bent. cbn [bargs].
    destruct q as [i|].
    + unfold handle_request. rewrite (get_handler_builtin c _ _ Hb). unfold builtin_body. cbv beta iota zeta. cbn [ws_effect].
      set (k := COther (Some i) nm v) in *. set (n := nmsg s). set (s0 := set_nmsg (S n) s).
      destruct (plain_tail c n k [ACall k] (log_builtin n k [ACall k] s0) (ws (log_builtin n k [ACall k] s0))
                           (add_out (OResult i (result_of k))) (fun x => ext_add_out x _)) as (A1 & A2 & A3 & A4 & A5).
      cbn zeta in *. rewrite A1, A2, A3, A4, A5. fields. rewrite <- app_assoc. auto.
    + unfold handle_notification. rewrite (get_handler_builtin c _ _ Hb). unfold builtin_body. cbv beta iota zeta. cbn [ws_effect].
      set (k := COther None nm v) in *. set (n := nmsg s). set (s0 := set_nmsg (S n) s).
      destruct (plain_tail c n k [ACall k] (log_builtin n k [ACall k] s0) (ws (log_builtin n k [ACall k] s0))
                           (fun y => y) ext_id) as (A1 & A2 & A3 & A4 & A5).
      cbn zeta in *. rewrite A1, A2, A3, A4, A5. fields. rewrite <- app_assoc. auto.
  - cbn [app]. destruct q as [i|].
    + unfold handle_request. rewrite (get_handler_other c _ _ Hb). cbn [meth_of].
      destruct (aget (other_name nm) (features (c_reg c))) as [e|].
      * destruct (execute_request_ext c i (mkInv (nmsg s) (other_name nm) PUser e [ACall (COther (Some i) nm v)])
                                      (set_nmsg (S (nmsg s)) s)) as [(A1 & A2 & A3 & A4 & A5) _].
        destruct (execute_request c i _ (set_nmsg (S (nmsg s)) s)) as [s1 x]. cbn [fst] in *.
        assert (E : forall s2, s2 = (if x then add_out (OError i code_internal) s1 else s1) ->
                               hlog s2 = hlog s1 /\ tasks s2 = tasks s1 /\ jobs s2 = jobs s1 /\ ws s2 = ws s1 /\ nmsg s2 = nmsg s1).
        { intros s2 ->. destruct x; cbn; auto. }
        destruct (E _ eq_refl) as (B1 & B2 & B3 & B4 & B5).
        rewrite B1, B2, B3, B4, B5, A1, A2, A3, A4, A5. cbn [ws nmsg set_nmsg hlog tasks jobs]. auto.
      * fields. cbn [now_entries new_tasks new_jobs filter map]. rewrite !app_nil_r. auto.
    + unfold handle_notification. rewrite (get_handler_other c _ _ Hb). cbn [meth_of].
      destruct (aget (other_name nm) (features (c_reg c))) as [e|].
      * destruct (exec_notification_ext c (mkInv (nmsg s) (other_name nm) PUser e [ACall (COther None nm v)])
                                        (set_nmsg (S (nmsg s)) s)) as [(A1 & A2 & A3 & A4 & A5) _].
        rewrite A1, A2, A3, A4, A5. cbn [ws nmsg set_nmsg hlog tasks jobs]. auto.
      * fields. cbn [now_entries new_tasks new_jobs filter map]. rewrite !app_nil_r. auto.
Qed.

Lemma recv_initialize : forall c i fs s, w_shut (ws s) = false ->
    delivery c (CInitialize i fs) s (recv c (CInitialize i fs) s).
Proof.
  intros c i fs s Hs. unfold delivery, recv. rewrite Hs.
  unfold spec_step, delivered. rewrite Hs. cbn [negb].
  cbn [req_id mid]. rewrite (isb_known c (CInitialize i fs) eq_refl). unfold handle_request. rewrite (get_handler_builtin c _ (CInitialize i fs) (isb_known c (CInitialize i fs) eq_refl)).
  unfold builtin_body, plan, bent. cbv beta iota zeta. cbn [bargs].
  set (k := CInitialize i fs). set (n := nmsg s). set (s0 := set_nmsg (S n) s).
  change (ws (log_builtin n k [ACall k] s0)) with (ws s).
  destruct (ws_effect (c_tokens c) k (ws s)) as [w|] eqn:E.
  - destruct (plain_tail c n k [ACall k] (log_builtin n k [ACall k] s0) w
                         (add_out (OResult i (result_of k))) (fun x => ext_add_out x _)) as (A1 & A2 & A3 & A4 & A5).
    cbn zeta in *. rewrite A1, A2, A3, A4, A5. fields. rewrite <- app_assoc. auto.
  - fields. cbn [now_entries new_tasks new_jobs filter map]. rewrite !app_nil_r. auto.
Qed.

Lemma recv_shutdown : forall c i s, w_shut (ws s) = false ->
    delivery c (CShutdown i) s (recv c (CShutdown i) s).
Proof.
  intros c i s Hs. unfold delivery, recv. rewrite Hs.
  unfold spec_step, delivered. rewrite Hs. cbn [negb].
  cbn [req_id mid]. rewrite (isb_known c (CShutdown i) eq_refl). unfold handle_request. rewrite (get_handler_builtin c _ (CShutdown i) (isb_known c (CShutdown i) eq_refl)).
  unfold builtin_body, plan, bent. cbv beta iota zeta. cbn [bargs].
  set (k := CShutdown i). set (n := nmsg s). set (s0 := set_nmsg (S n) s).
  destruct (cancel_all_fields (log_builtin n k [ACall k] s0)) as (C1 & C2 & C3).
  rewrite C2. change (ws (log_builtin n k [ACall k] s0)) with (ws s).
  destruct (ws_effect (c_tokens c) k (ws s)) as [w|] eqn:E; [|discriminate].
  destruct (plain_tail c n k [ACall k] (cancel_all (log_builtin n k [ACall k] s0)) w
                       (add_out (OResult i (result_of k))) (fun x => ext_add_out x _)) as (A1 & A2 & A3 & A4 & A5).
  cbn zeta in *. rewrite A1, A2, A3, A4, A5, C1, C3. fields. rewrite <- app_assoc. auto.
Qed.

Ltac solve_notif c s Hs k0 :=
  unfold delivery, recv; rewrite Hs; unfold spec_step, delivered; rewrite Hs; cbn [negb];
  cbn [req_id mid]; rewrite (isb_known c k0 eq_refl); unfold handle_notification; rewrite (get_handler_builtin c _ k0 (isb_known c k0 eq_refl));
  unfold builtin_body, plan, bent; cbv beta iota zeta; cbn [bargs];
  set (k := k0); set (n := nmsg s); set (s0 := set_nmsg (S n) s);
  change (ws (log_builtin n k [ACall k] s0)) with (ws s);
  destruct (ws_effect (c_tokens c) k (ws s)) as [w|] eqn:E;
  [ destruct (plain_tail c n k [ACall k] (log_builtin n k [ACall k] s0) w (fun y => y) ext_id) as (A1 & A2 & A3 & A4 & A5);
    cbn zeta in *; rewrite A1, A2, A3, A4, A5; fields; rewrite <- app_assoc; auto
  | fields; cbn [now_entries new_tasks new_jobs filter map]; rewrite !app_nil_r; auto ].

Lemma recv_notif : forall c k s, w_shut (ws s) = false -> is_builtin_call k = true -> req_id k = None ->
    delivery c k s (recv c k s).
Proof.
  intros c k s Hs Hb Hq. destruct k as [| | | | | | | | | | |nb ver cell txt|nb ver|nb cell]; try discriminate.
  - solve_notif c s Hs CInitialized.
  - solve_notif c s Hs (CDidOpen u ver txt).
  - solve_notif c s Hs (CDidChange u ver txts).
  - solve_notif c s Hs (CDidClose u).
  - solve_notif c s Hs (CFolders added removed).
  - solve_notif c s Hs (CSetTrace v).
  - solve_notif c s Hs (CProgressCancel tok).
  - solve_notif c s Hs (CNbOpen nb ver cell txt).
  - solve_notif c s Hs (CNbChange nb ver).
  - solve_notif c s Hs (CNbClose nb cell).
Qed.

Lemma recv_exec : forall c i cmd a s, w_shut (ws s) = false ->
    delivery c (CExecCmd i cmd a) s (recv c (CExecCmd i cmd a) s).
Proof.
  intros c i cmd a s Hs. unfold delivery, recv. rewrite Hs.
  unfold spec_step, delivered. rewrite Hs. cbn [negb ws_effect].
  cbn [req_id mid]. rewrite (isb_known c (CExecCmd i cmd a) eq_refl). unfold handle_request. rewrite (get_handler_builtin c _ (CExecCmd i cmd a) (isb_known c (CExecCmd i cmd a) eq_refl)).
  unfold exec_cmd_body, plan, bent. cbv beta iota zeta. cbn [bargs].
  set (k := CExecCmd i cmd a). set (n := nmsg s). set (s0 := set_nmsg (S n) s).
  set (s1 := log_builtin n k [ACall k; AId i] s0).
  destruct (exec_command (c_reg c) (Some cmd)) as [|e es].
  - subst s1. fields. cbn [now_entries new_tasks new_jobs filter map]. rewrite !app_nil_r. auto.
  - set (x := mkInv n (Some cmd) PCommand e [AVal a]).
    destruct (execute_request_ext c i x s1) as [(A1 & A2 & A3 & A4 & A5) Hx].
    destruct (execute_request c i x s1) as [s2 r]. cbn [fst snd] in *. subst r.
    rewrite now_entries_cons, new_tasks_cons, new_jobs_cons. change (i_entry x) with e.
    destruct (inline e && raises c e).
    + fields. rewrite A1, A2, A3, A4, A5. subst s1. fields.
      cbn [now_entries new_tasks new_jobs filter map]. rewrite !app_nil_r, <- app_assoc. auto.
    + destruct (chain_ext c n k [ACall k; AId i] s2) as (B1 & B2 & B3 & B4 & B5).
      rewrite B1, B2, B3, B4, B5, A1, A2, A3, A4, A5. subst s1. fields. rewrite <- !app_assoc. auto.
Qed.

Theorem recv_delivery : forall c k s, w_shut (ws s) = false -> delivery c k s (recv c k s).
Proof.
  intros c k s Hs. destruct k.
  - apply recv_initialize, Hs.
  - apply recv_notif; auto.
  - apply recv_notif; auto.
  - apply recv_notif; auto.
  - apply recv_notif; auto.
  - apply recv_notif; auto.
  - apply recv_notif; auto.
  - apply recv_shutdown, Hs.
  - apply recv_exec, Hs.
  - apply recv_notif; auto.
  - apply recv_other, Hs.
  - apply recv_notif; auto.
  - apply recv_notif; auto.
  - apply recv_notif; auto.
Qed.

(* handle_message's gate: once `shutdown` has been handled nothing is delivered any more *)
Theorem recv_gated : forall c k s, w_shut (ws s) = true -> recv c k s = set_nmsg (S (nmsg s)) s.
Proof. intros c k s H. unfold recv. rewrite H. reflexivity. Qed.

(* ------------------------------------------------------------------ plan = the reference's `actual` *)
Definition p_fut (p : pinv) : bool := match p_cb p with CReq _ => true | CNot => false end.
Definition x_of_p (p : pinv) : xinv :=
  x_of e_inject (i_part (p_inv p)) (i_meth (p_inv p)) (i_args (p_inv p)) (p_fut p) (p_entry p).

Lemma exec_command_shape : forall r n, exec_command r n = [] \/ exists e, exec_command r n = [e].
Proof. intros r n. unfold exec_command. destruct (aget n (commands r)); eauto. Qed.

Lemma user_plan_spec : forall c n k args fut,
    map (x_of e_inject PUser (meth_of k) args fut) (snd (dispatch (bset c) (c_reg c) (meth_of k))) =
    map (fun p => x_of e_inject PUser (meth_of k) args fut (p_entry p)) (user_plan c n k args).
Proof.
  intros c n k args fut. unfold dispatch, user_plan, get_handler.
  destruct (mem_name (meth_of k) (bset c)); destruct (aget (meth_of k) (features (c_reg c))); reflexivity.
Qed.

Ltac known_isb c := match goal with |- context [isb c ?k0] => rewrite !(isb_known c k0 eq_refl) end.

Theorem plan_actual : forall c w n k,
    (if isb c k then [x_builtin k] else []) ++ map x_of_p (plan c w n k) = actual c w k.
Proof.
  intros c w n k. unfold actual, parts, user_part, cmd_part, builtin_ok.
  destruct k; try known_isb c; cbn [andb negb app plan];
    try (rewrite (user_plan_spec c n _ _ false); unfold user_plan;
         destruct (ws_effect _ _ w); cbn [negb app map];
         [destruct (aget _ (features (c_reg c))); reflexivity | reflexivity]).
  - (* executeCommand *)
    destruct (exec_command_shape (c_reg c) (Some cmd)) as [E|[e E]]; rewrite E; cbn [negb app map]; [reflexivity|].
    rewrite (user_plan_spec c n _ _ false). unfold user_plan. cbn [bargs].
    destruct (inline e && raises c e); cbn [negb app map]; [reflexivity|].
    destruct (aget _ (features (c_reg c))); reflexivity.
  - (* any other method *)
    destruct (isb c (COther req nm v)) eqn:Hb; cbn [ws_effect andb negb app].
    + (* a built-in the protocol class adds *)
      rewrite (user_plan_spec c n _ _ false). unfold user_plan. cbn [bargs].
      destruct (aget _ (features (c_reg c))); reflexivity.
    + unfold dispatch. rewrite (get_handler_other c _ _ Hb). cbn [meth_of].
      destruct (aget (other_name nm) (features (c_reg c))); cbn [snd map]; [|reflexivity].
      unfold x_of_p, p_fut, is_req. cbn. destruct req; reflexivity.
Qed.

Lemma msg_ok_actual : forall c w k, msg_ok c w k = true -> actual c w k = parts e_inject c k.
Proof.
  intros c w k H. unfold msg_ok in H. unfold actual. destruct (isb c k) eqn:Hb; cbn [negb orb andb] in *; [|reflexivity].
  destruct (builtin_ok c w k); cbn [negb orb] in *; [reflexivity|]. unfold parts. rewrite Hb.
  destruct (user_part e_inject c k); [|discriminate]. rewrite app_nil_r. reflexivity.
Qed.

Lemma aget_in : forall {V} n (l : list (name * V)) e, aget n l = Some e -> In (n, e) l.
Proof.
  intros V n l. induction l as [|[k v] l IH]; intros e H; cbn [aget] in H; [discriminate|].
  destruct (name_eqb n k) eqn:E.
  - inversion H; subst. apply name_eqb_eq in E. subst. left. reflexivity.
  - right. apply IH. exact H.
Qed.

(* under inj_ok the registered callables bind the server exactly for the functions that ask *)
Lemma inj_ok_parts : forall c k, inj_ok c = true -> parts e_inject c k = expect c k.
Proof.
  intros c k H. unfold inj_ok in H. apply andb_true_iff in H. destruct H as [HF HC].
  rewrite forallb_forall in HF, HC. unfold expect, parts. f_equal. f_equal.
  - unfold cmd_part. destruct k; try reflexivity. apply map_ext_in. intros e He. unfold x_of. f_equal.
    unfold exec_command in He. destruct (aget (Some cmd) (commands (c_reg c))) as [e'|] eqn:E; [|contradiction].
    destruct He as [<-|[]]. apply eqb_prop. exact (HC _ (aget_in _ _ _ E)).
  - unfold user_part. assert (X : forall e, In e (snd (dispatch (bset c) (c_reg c) (meth_of k))) -> e_inject e = asked c e).
    { intros e He. unfold dispatch, get_handler in He. destruct (mem_name (meth_of k) (bset c)); cbn [snd] in He.
      - destruct (aget (meth_of k) (features (c_reg c))) as [e'|] eqn:E; [|contradiction]. destruct He as [<-|[]].
        apply eqb_prop. exact (HF _ (aget_in _ _ _ E)).
      - destruct (aget (meth_of k) (features (c_reg c))) as [e'|] eqn:E; cbn [snd] in He; [|contradiction]. destruct He as [<-|[]].
        apply eqb_prop. exact (HF _ (aget_in _ _ _ E)). }
    destruct (isb c k); apply map_ext_in; intros e He; unfold x_of; rewrite (X e He); reflexivity.
Qed.

Lemma all_ok_actual : forall c w k, inj_ok c = true -> msg_ok c w k = true -> actual c w k = expect c k.
Proof. intros c w k H1 H2. rewrite (msg_ok_actual c w k H2). apply inj_ok_parts. exact H1. Qed.

(* ------------------------------------------------------------------ the other events *)
Lemma set_task_st_fields : forall t x s,
    hlog (set_task_st t x s) = hlog s /\ jobs (set_task_st t x s) = jobs s /\
    ws (set_task_st t x s) = ws s /\ nmsg (set_task_st t x s) = nmsg s.
Proof. intros. unfold set_task_st. cbn. auto. Qed.

Lemma set_job_st_fields : forall j x s,
    hlog (set_job_st j x s) = hlog s /\ tasks (set_job_st j x s) = tasks s /\
    ws (set_job_st j x s) = ws s /\ nmsg (set_job_st j x s) = nmsg s.
Proof. intros. unfold set_job_st. cbn. auto. Qed.

(* what an event appends to the handler log *)
Definition new_log (c : cfg) (s : st) (e : ev) : list hentry :=
  match e with
  | Recv k =>
      if w_shut (ws s) then []
      else (if isb c k then [bent (nmsg s) k (ws s)] else []) ++
           now_entries (spec_step c (ws s) k) (plan c (ws s) (nmsg s) k)
  | TaskStep t =>
      match nth_error (tasks s) t with
      | Some tk => match t_st tk with TNew false => [hent OnLoop (t_inv tk) (ws s)] | _ => [] end
      | None => []
      end
  | JobStart j =>
      match nth_error (jobs s) j with
      | Some jb => match j_st jb with JQueued => [hent OnPool (j_inv jb) (ws s)] | _ => [] end
      | None => []
      end
  | _ => []
  end.

Definition next_ws (c : cfg) (w : wsp) (e : ev) : wsp := match e with Recv k => spec_step c w k | _ => w end.
Definition next_n (n : nat) (e : ev) : nat := match e with Recv _ => S n | _ => n end.

Theorem step_log : forall c s e,
    hlog (step c s e) = hlog s ++ new_log c s e /\
    ws (step c s e) = next_ws c (ws s) e /\ nmsg (step c s e) = next_n (nmsg s) e.
Proof.
  intros c s e. destruct e as [k|t|t|j|j]; cbn [step new_log next_ws next_n].
  - destruct (w_shut (ws s)) eqn:Hs.
    + rewrite recv_gated by exact Hs. unfold spec_step, delivered. rewrite Hs. cbn. rewrite app_nil_r. auto.
    + destruct (recv_delivery c k s Hs) as (A & _ & _ & B & C). rewrite A, B, C. rewrite B in A. auto.
  - unfold task_step. destruct (nth_error (tasks s) t) as [tk|]; [|rewrite app_nil_r; auto].
    destruct (t_st tk) as [[|]|r|r]; cbv beta iota; try (rewrite app_nil_r; auto; fail).
    destruct (set_task_st_fields t (TDoneCb (res_of c (i_entry (t_inv tk)))) (invoke OnLoop (t_inv tk) s)) as (A & _ & B & C).
    rewrite A, B, C. cbn. auto.
  - unfold loop_cb. destruct (nth_error (tasks s) t) as [tk|]; [|rewrite app_nil_r; auto].
    destruct (t_st tk) as [b|r|r]; cbv beta iota; try (rewrite app_nil_r; auto; fail).
    destruct (run_cb_fields (t_cb tk) r (set_task_st t (TFin r) s)) as (A & _ & _ & B & C).
    rewrite A, B, C. cbn. rewrite app_nil_r. auto.
  - unfold job_start. destruct (nth_error (jobs s) j) as [jb|]; [|rewrite app_nil_r; auto].
    destruct (j_st jb); cbv beta iota; try (rewrite app_nil_r; auto; fail). cbn. auto.
  - unfold job_finish. destruct (nth_error (jobs s) j) as [jb|]; [|rewrite app_nil_r; auto].
    destruct (j_st jb); cbv beta iota zeta; try (rewrite app_nil_r; auto; fail).
    destruct (run_cb_fields (j_cb jb) (res_of c (i_entry (j_inv jb))) (set_job_st j (JDone (res_of c (i_entry (j_inv jb)))) s)) as (A & _ & _ & B & C).
    rewrite A, B, C. cbn. rewrite app_nil_r. auto.
Qed.

(* runs from an arbitrary state *)
Definition run_from (c : cfg) (s : st) (evs : list ev) : st := fold_left (step c) evs s.

Lemma run_from_app : forall c s a b, run_from c s (a ++ b) = run_from c (run_from c s a) b.
Proof. intros. unfold run_from. apply fold_left_app. Qed.

Lemma calls_of_app : forall a b, calls_of (a ++ b) = calls_of a ++ calls_of b.
Proof. intros. unfold calls_of. apply flat_map_app. Qed.

(* the workspace is the fold of the built-ins' transformers over the messages, whatever the
   schedule and whatever the user's handlers do *)
Theorem ws_run_from : forall c evs s,
    ws (run_from c s evs) = fold_left (spec_step c) (calls_of evs) (ws s) /\
    nmsg (run_from c s evs) = (nmsg s + length (calls_of evs))%nat.
Proof.
  intros c evs. induction evs as [|e evs IH]; intro s.
  - cbn. split; [reflexivity|lia].
  - change (run_from c s (e :: evs)) with (run_from c (step c s e) evs).
    replace (calls_of (e :: evs)) with (calls_of [e] ++ calls_of evs) by (rewrite <- calls_of_app; reflexivity).
    destruct (IH (step c s e)) as [A B]. rewrite A, B.
    destruct (step_log c s e) as (_ & W & N). rewrite W, N, fold_left_app, app_length.
    destruct e; cbn [next_ws next_n calls_of flat_map app fold_left length]; split; try reflexivity; lia.
Qed.

Theorem ws_run : forall c evs,
    ws (run c evs) = spec_ws c (calls_of evs) /\ nmsg (run c evs) = length (calls_of evs).
Proof. intros c evs. exact (ws_run_from c evs init). Qed.

(* ------------------------------------------------------------------ counting *)
Definition key := (nat * part)%type.
Definition part_eqb (a b : part) : bool :=
  match a, b with PBuiltin, PBuiltin | PUser, PUser | PCommand, PCommand => true | _, _ => false end.
Definition key_eqb (a b : key) : bool := Nat.eqb (fst a) (fst b) && part_eqb (snd a) (snd b).
Definition cnt {A : Type} (f : A -> bool) (l : list A) : nat := length (filter f l).

Lemma cnt_app : forall (A : Type) (f : A -> bool) l1 l2, cnt f (l1 ++ l2) = (cnt f l1 + cnt f l2)%nat.
Proof. intros. unfold cnt. rewrite filter_app, app_length. reflexivity. Qed.

Lemma cnt_map : forall (A B : Type) (g : A -> B) (f : B -> bool) l, cnt f (map g l) = cnt (fun x => f (g x)) l.
Proof.
  intros. unfold cnt. induction l as [|x l IH]; cbn [map filter]; [reflexivity|].
  destruct (f (g x)); cbn [length]; rewrite IH; reflexivity.
Qed.

Lemma cnt_ext : forall (A : Type) (f g : A -> bool) l, (forall x, In x l -> f x = g x) -> cnt f l = cnt g l.
Proof.
  intros A f g l H. unfold cnt. induction l as [|x l IH]; [reflexivity|]. cbn [filter].
  rewrite (H x (or_introl eq_refl)). destruct (g x); cbn [length]; rewrite IH; auto; intros; apply H; right; assumption.
Qed.

Definition ind (b : bool) : nat := if b then 1%nat else 0%nat.

Lemma cnt_upd_nth : forall (A : Type) (f : A -> bool) (g : A -> A) l t x,
    nth_error l t = Some x -> (cnt f (upd_nth t g l) + ind (f x) = cnt f l + ind (f (g x)))%nat.
Proof.
  intros A f g l. induction l as [|y r IH]; intros t x H; [destruct t; discriminate|].
  destruct t as [|t]; cbn [nth_error] in H; cbn [upd_nth]; unfold cnt in *; cbn [filter].
  - inversion H; subst. destruct (f x), (f (g x)); cbn [length ind]; lia.
  - specialize (IH t x H). destruct (f y); cbn [length]; lia.
Qed.

Lemma cnt_Forall2 : forall (A : Type) (R : A -> A -> Prop) (f : A -> bool) l l',
    (forall a b, R a b -> f a = f b) -> Forall2 R l l' -> cnt f l = cnt f l'.
Proof.
  intros A R f l l' H F. induction F as [|a b l l' Hab F IH]; [reflexivity|].
  unfold cnt in *. cbn [filter]. rewrite (H a b Hab). destruct (f b); cbn [length]; rewrite IH; reflexivity.
Qed.

Lemma Forall2_refl : forall (A : Type) (R : A -> A -> Prop), (forall a, R a a) -> forall l, Forall2 R l l.
Proof. intros A R H l. induction l; constructor; auto. Qed.

Lemma Forall2_trans : forall (A : Type) (R : A -> A -> Prop), (forall a b c, R a b -> R b c -> R a c) ->
    forall l1 l2 l3, Forall2 R l1 l2 -> Forall2 R l2 l3 -> Forall2 R l1 l3.
Proof.
  intros A R H l1 l2 l3 F. revert l3. induction F as [|a b l l' Hab F IH]; intros l3 G; inversion G; subst; constructor; eauto.
Qed.

Lemma Forall2_upd_nth : forall (A : Type) (R : A -> A -> Prop) (g : A -> A), (forall a, R a a) ->
    forall l t, (forall x, nth_error l t = Some x -> R x (g x)) -> Forall2 R l (upd_nth t g l).
Proof.
  intros A R g Hr l. induction l as [|y r IH]; intros t H; [destruct t; constructor|].
  destruct t as [|t]; cbn [upd_nth]; constructor; auto.
  apply Forall2_refl. exact Hr.
Qed.

(* ------------------------------------------------------------------ cancellation only touches states *)
Definition tsame (a b : task) : Prop :=
  t_inv b = t_inv a /\ t_cb b = t_cb a /\ (t_st b = t_st a \/ exists m, t_st a = TNew m /\ t_st b = TNew true).
Definition jsame (a b : job) : Prop :=
  j_inv b = j_inv a /\ j_cb b = j_cb a /\ (j_st b = j_st a \/ (j_st a = JQueued /\ j_st b = JCancelled)).

Lemma tsame_refl : forall a, tsame a a.
Proof. intro a. unfold tsame. auto. Qed.
Lemma jsame_refl : forall a, jsame a a.
Proof. intro a. unfold jsame. auto. Qed.

Lemma tsame_trans : forall a b c, tsame a b -> tsame b c -> tsame a c.
Proof.
  unfold tsame. intros a b c (A1 & A2 & A3) (B1 & B2 & B3). rewrite B1, B2, A1, A2. repeat split.
  destruct A3 as [A3|(m & A3 & A4)], B3 as [B3|(m' & B3 & B4)].
  - left. congruence.
  - right. exists m'. split; congruence.
  - right. exists m. split; congruence.
  - right. exists m. split; congruence.
Qed.

Lemma jsame_trans : forall a b c, jsame a b -> jsame b c -> jsame a c.
Proof.
  unfold jsame. intros a b c (A1 & A2 & A3) (B1 & B2 & B3). rewrite B1, B2, A1, A2. repeat split.
  destruct A3 as [A3|[A3 A4]], B3 as [B3|[B3 B4]].
  - left. congruence.
  - right. split; congruence.
  - right. split; congruence.
  - congruence.
Qed.

Definition soft (s s' : st) : Prop := Forall2 tsame (tasks s) (tasks s') /\ Forall2 jsame (jobs s) (jobs s').

Lemma soft_refl : forall s, soft s s.
Proof. intro s. split; apply Forall2_refl; [apply tsame_refl|apply jsame_refl]. Qed.

Lemma soft_trans : forall a b c, soft a b -> soft b c -> soft a c.
Proof.
  intros a b c [A1 A2] [B1 B2]. split.
  - eapply Forall2_trans; [exact tsame_trans|exact A1|exact B1].
  - eapply Forall2_trans; [exact jsame_trans|exact A2|exact B2].
Qed.

Lemma cancel_ref_soft : forall r s, soft s (cancel_ref r s).
Proof.
  intros [t|j] s; unfold cancel_ref.
  - destruct (nth_error (tasks s) t) as [tk|] eqn:E; [|apply soft_refl].
    destruct (t_st tk) as [m|r|r] eqn:St; try apply soft_refl.
    split; cbn [set_task_st set_tasks tasks jobs]; [|apply Forall2_refl, jsame_refl].
    apply Forall2_upd_nth; [exact tsame_refl|]. intros x Hx. rewrite E in Hx. inversion Hx; subst x.
    unfold tsame. cbn. repeat split. right. exists m. auto.
  - destruct (nth_error (jobs s) j) as [jb|] eqn:E; [|apply soft_refl].
    destruct (j_st jb) eqn:St; try apply soft_refl.
    destruct (run_cb_fields (j_cb jb) RCancelled (set_job_st j JCancelled s)) as (_ & A & B & _).
    split; rewrite ?A, ?B; cbn [set_job_st set_jobs tasks jobs]; [apply Forall2_refl, tsame_refl|].
    apply Forall2_upd_nth; [exact jsame_refl|]. intros x Hx. rewrite E in Hx. inversion Hx; subst x.
    unfold jsame. cbn. auto.
Qed.

Lemma cancel_fold_soft : forall rs s, soft s (fold_left (fun s' r => cancel_ref r s') rs s).
Proof.
  induction rs as [|r rs IH]; intro s; cbn [fold_left]; [apply soft_refl|].
  eapply soft_trans; [apply cancel_ref_soft|apply IH].
Qed.

Lemma mid_soft : forall k s, soft s (mid k s).
Proof.
  intros k s. destruct k; try apply soft_refl. unfold mid, cancel_all.
  set (s1 := log_builtin (nmsg s) (CShutdown i) [ACall (CShutdown i)] (set_nmsg (S (nmsg s)) s)).
  pose proof (cancel_fold_soft (Assoc.values (futs s1)) s1) as H. exact H.
Qed.

(* ------------------------------------------------------------------ once each: the balance *)
Definition hkey (h : hentry) : key := (h_msg h, h_part h).
Definition ikey (x : inv) : key := (i_msg x, i_part x).
Definition xkey (n : nat) (x : xinv) : key := (n, x_part x).

(* not (yet) started: waiting, or cancelled before it started *)
Definition t_wait (tk : task) : bool := match t_st tk with TNew _ => true | _ => false end.
Definition t_drop (tk : task) : bool :=
  match t_st tk with TDoneCb RCancelled | TFin RCancelled => true | _ => false end.
Definition j_wait (jb : job) : bool := match j_st jb with JQueued => true | _ => false end.
Definition j_drop (jb : job) : bool := match j_st jb with JCancelled => true | _ => false end.

Definition started (q : key) (s : st) : nat := cnt (fun h => key_eqb q (hkey h)) (hlog s).
Definition t_un (q : key) (tk : task) : bool := key_eqb q (ikey (t_inv tk)) && (t_wait tk || t_drop tk).
Definition j_un (q : key) (jb : job) : bool := key_eqb q (ikey (j_inv jb)) && (j_wait jb || j_drop jb).
Definition unstarted (q : key) (s : st) : nat := (cnt (t_un q) (tasks s) + cnt (j_un q) (jobs s))%nat.
Definition tot (q : key) (s : st) : nat := (started q s + unstarted q s)%nat.

Lemma soft_unstarted : forall q s s', soft s s' -> unstarted q s' = unstarted q s.
Proof.
  intros q s s' [A B]. unfold unstarted. f_equal; symmetry.
  - apply (cnt_Forall2 _ tsame); [|exact A]. intros a b (E1 & _ & [E|(m & E2 & E3)]); unfold t_un, t_wait, t_drop; rewrite E1.
    + rewrite E. reflexivity.
    + rewrite E2, E3. reflexivity.
  - apply (cnt_Forall2 _ jsame); [|exact B]. intros a b (E1 & _ & [E|[E2 E3]]); unfold j_un, j_wait, j_drop; rewrite E1.
    + rewrite E. reflexivity.
    + rewrite E2, E3. reflexivity.
Qed.

Lemma plan_partition : forall (f : pinv -> bool) ps,
    (cnt f (filter p_inline ps) + cnt f (filter p_task ps) + cnt f (filter p_pool ps) = cnt f ps)%nat.
Proof.
  intros f ps. induction ps as [|p ps IH]; [reflexivity|]. unfold cnt in *. cbn [filter].
  destruct (p_inline p) eqn:A, (p_task p) eqn:B, (p_pool p) eqn:C;
    unfold p_inline, p_task, p_pool, inline in A, B, C; destruct (exec_site (p_entry p)); try discriminate;
    cbn [filter]; destruct (f p); cbn [length]; lia.
Qed.

(* what message number n owes for key q *)
Definition owes (c : cfg) (w : wsp) (n : nat) (k : call) (q : key) : nat :=
  if delivered w then cnt (fun x => key_eqb q (xkey n x)) (actual c w k) else 0%nat.

Definition owes_ev (c : cfg) (s : st) (e : ev) (q : key) : nat :=
  match e with Recv k => owes c (ws s) (nmsg s) k q | _ => 0%nat end.

Lemma nth_error_un_task : forall q s t tk x, nth_error (tasks s) t = Some tk ->
    (cnt (t_un q) (tasks (set_task_st t x s)) + ind (t_un q tk) =
     cnt (t_un q) (tasks s) + ind (t_un q (mkT (t_inv tk) (t_cb tk) x)))%nat.
Proof.
  intros q s t tk x H. unfold set_task_st. cbn [tasks set_tasks].
  exact (cnt_upd_nth _ (t_un q) (fun tk0 => mkT (t_inv tk0) (t_cb tk0) x) _ _ _ H).
Qed.

Lemma nth_error_un_job : forall q s j jb x, nth_error (jobs s) j = Some jb ->
    (cnt (j_un q) (jobs (set_job_st j x s)) + ind (j_un q jb) =
     cnt (j_un q) (jobs s) + ind (j_un q (mkJ (j_inv jb) (j_cb jb) x)))%nat.
Proof.
  intros q s j jb x H. unfold set_job_st. cbn [jobs set_jobs].
  exact (cnt_upd_nth _ (j_un q) (fun jb0 => mkJ (j_inv jb0) (j_cb jb0) x) _ _ _ H).
Qed.

Lemma plan_msg : forall c w n k p, In p (plan c w n k) -> i_msg (p_inv p) = n.
Proof.
  intros c w n k p H. unfold plan, user_plan in H.
  destruct k; try (destruct (ws_effect _ _ w); [destruct (aget _ (features (c_reg c)))|]; cbn [In] in H;
                   try contradiction; destruct H as [<-|[]]; reflexivity).
  - destruct (exec_command (c_reg c) (Some cmd)) as [|e es]; [contradiction|].
    destruct H as [<-|H]; [reflexivity|]. destruct (inline e && raises c e); [contradiction|].
    destruct (aget _ (features (c_reg c))); cbn [In] in H; try contradiction. destruct H as [<-|[]]. reflexivity.
  - destruct (isb c (COther req nm v)); destruct (aget _ (features (c_reg c))); cbn [In] in H; try contradiction;
      destruct H as [<-|[]]; reflexivity.
Qed.

Lemma recv_tot : forall c k s q, w_shut (ws s) = false ->
    tot q (recv c k s) = (tot q s + owes c (ws s) (nmsg s) k q)%nat.
Proof.
  intros c k s q Hs. destruct (recv_delivery c k s Hs) as (A & B & C & _ & _).
  set (ps := plan c (ws s) (nmsg s) k) in *.
  unfold tot, started, unstarted. rewrite A, B, C, !cnt_app.
  pose proof (soft_unstarted q s (mid k s) (mid_soft k s)) as SU. unfold unstarted in SU.
  unfold now_entries, new_tasks, new_jobs. rewrite !cnt_map.
  set (pk := fun p : pinv => key_eqb q (ikey (p_inv p))).
  assert (E1 : cnt (fun x : pinv => key_eqb q (hkey (hent OnLoop (p_inv x) (ws (recv c k s))))) (filter p_inline ps)
               = cnt pk (filter p_inline ps)) by reflexivity.
  assert (E2 : cnt (fun x : pinv => t_un q (mkT (p_inv x) (p_cb x) (TNew false))) (filter p_task ps) = cnt pk (filter p_task ps)).
  { apply cnt_ext. intros x _. unfold t_un, pk. cbn. rewrite andb_true_r. reflexivity. }
  assert (E3 : cnt (fun x : pinv => j_un q (mkJ (p_inv x) (p_cb x) JQueued)) (filter p_pool ps) = cnt pk (filter p_pool ps)).
  { apply cnt_ext. intros x _. unfold j_un, pk. cbn. rewrite andb_true_r. reflexivity. }
  rewrite E1, E2, E3. pose proof (plan_partition pk ps) as PP.
  unfold owes, delivered. rewrite Hs. cbn [negb]. rewrite <- (plan_actual c (ws s) (nmsg s) k). fold ps.
  rewrite cnt_app, cnt_map.
  assert (E4 : cnt (fun x : pinv => key_eqb q (xkey (nmsg s) (x_of_p x))) ps = cnt pk ps).
  { apply cnt_ext. intros x Hx. unfold pk, xkey, ikey, x_of_p, x_of. cbn [x_part]. rewrite (plan_msg _ _ _ _ _ Hx). reflexivity. }
  rewrite E4.
  assert (E5 : cnt (fun h : hentry => key_eqb q (hkey h)) (if isb c k then [bent (nmsg s) k (ws s)] else []) =
               cnt (fun x : xinv => key_eqb q (xkey (nmsg s) x)) (if isb c k then [x_builtin k] else [])).
  { destruct (isb c k); [|reflexivity]. unfold cnt. cbn [filter].
    change (hkey (bent (nmsg s) k (ws s))) with (nmsg s, PBuiltin). change (xkey (nmsg s) (x_builtin k)) with (nmsg s, PBuiltin).
    destruct (key_eqb q (nmsg s, PBuiltin)); reflexivity. }
  rewrite E5. lia.
Qed.

Lemma res_of_not_cancelled : forall c e, res_of c e <> RCancelled.
Proof. intros c e. unfold res_of. destruct (raises c e); discriminate. Qed.

Lemma invoke_cnt : forall q sv x s,
    cnt (fun h => key_eqb q (hkey h)) (hlog (invoke sv x s)) =
    (cnt (fun h => key_eqb q (hkey h)) (hlog s) + ind (key_eqb q (ikey x)))%nat.
Proof.
  intros. unfold invoke. cbn [hlog set_hlog]. rewrite cnt_app. unfold cnt at 2. cbn [filter].
  unfold hkey, ikey. cbn [h_msg h_part]. destruct (key_eqb q (i_msg x, i_part x)); reflexivity.
Qed.

Theorem step_tot : forall c s e q, tot q (step c s e) = (tot q s + owes_ev c s e q)%nat.
Proof.
  intros c s e q. destruct e as [k|t|t|j|j]; cbn [step owes_ev].
  - destruct (w_shut (ws s)) eqn:Hs.
    + rewrite recv_gated by exact Hs. unfold owes, delivered. rewrite Hs. cbn [negb]. unfold tot, started, unstarted, set_nmsg. cbn [hlog tasks jobs]. lia.
    + apply recv_tot, Hs.
  - unfold task_step. destruct (nth_error (tasks s) t) as [tk|] eqn:E; [|lia].
    destruct (t_st tk) as [[|]|r|r] eqn:St; try lia.
    + pose proof (nth_error_un_task q s t tk (TDoneCb RCancelled) E) as H.
      unfold tot, started, unstarted.
      assert (t_un q tk = t_un q (mkT (t_inv tk) (t_cb tk) (TDoneCb RCancelled))) as X
          by (unfold t_un, t_wait, t_drop; rewrite St; reflexivity).
      rewrite X in H. unfold set_task_st in *. cbn [hlog jobs tasks set_tasks] in *. lia.
    + pose proof (nth_error_un_task q (invoke OnLoop (t_inv tk) s) t tk (TDoneCb (res_of c (i_entry (t_inv tk)))) E) as H.
      pose proof (invoke_cnt q OnLoop (t_inv tk) s) as IC.
      unfold tot, started, unstarted. unfold set_task_st in *. cbn [hlog jobs tasks set_tasks] in *.
      change (jobs (invoke OnLoop (t_inv tk) s)) with (jobs s). change (tasks (invoke OnLoop (t_inv tk) s)) with (tasks s) in *.
      rewrite IC.
      assert (X1 : t_un q tk = key_eqb q (ikey (t_inv tk))) by (unfold t_un, t_wait; rewrite St; cbn; apply andb_true_r).
      assert (X2 : t_un q (mkT (t_inv tk) (t_cb tk) (TDoneCb (res_of c (i_entry (t_inv tk))))) = false).
      { unfold t_un, t_wait, t_drop. cbn [t_st]. pose proof (res_of_not_cancelled c (i_entry (t_inv tk))).
        destruct (res_of c (i_entry (t_inv tk))); try congruence; apply andb_false_r. }
      rewrite X1, X2 in H. cbn [ind] in *. lia.
  - unfold loop_cb. destruct (nth_error (tasks s) t) as [tk|] eqn:E; [|lia].
    destruct (t_st tk) as [b|r|r] eqn:St; try lia.
    destruct (run_cb_fields (t_cb tk) r (set_task_st t (TFin r) s)) as (A & B & C & _).
    unfold tot, started, unstarted. rewrite A, B, C.
    pose proof (nth_error_un_task q s t tk (TFin r) E) as H.
    assert (t_un q tk = t_un q (mkT (t_inv tk) (t_cb tk) (TFin r))) as X
        by (unfold t_un, t_wait, t_drop; rewrite St; reflexivity).
    rewrite X in H. unfold set_task_st in *. cbn [hlog jobs tasks set_tasks] in *. lia.
  - unfold job_start. destruct (nth_error (jobs s) j) as [jb|] eqn:E; [|lia].
    destruct (j_st jb) eqn:St; try lia.
    pose proof (nth_error_un_job q (invoke OnPool (j_inv jb) s) j jb JRunning E) as H.
    pose proof (invoke_cnt q OnPool (j_inv jb) s) as IC.
    unfold tot, started, unstarted. unfold set_job_st in *. cbn [hlog jobs tasks set_jobs] in *.
    change (jobs (invoke OnPool (j_inv jb) s)) with (jobs s) in *. change (tasks (invoke OnPool (j_inv jb) s)) with (tasks s).
    rewrite IC.
    assert (X1 : j_un q jb = key_eqb q (ikey (j_inv jb))) by (unfold j_un, j_wait; rewrite St; cbn; apply andb_true_r).
    assert (X2 : j_un q (mkJ (j_inv jb) (j_cb jb) JRunning) = false) by (unfold j_un; cbn; apply andb_false_r).
    rewrite X1, X2 in H. cbn [ind] in *. lia.
  - unfold job_finish. destruct (nth_error (jobs s) j) as [jb|] eqn:E; [|lia].
    destruct (j_st jb) eqn:St; try lia. cbv zeta.
    set (r := res_of c (i_entry (j_inv jb))).
    destruct (run_cb_fields (j_cb jb) r (set_job_st j (JDone r) s)) as (A & B & C & _).
    unfold tot, started, unstarted. rewrite A, B, C.
    pose proof (nth_error_un_job q s j jb (JDone r) E) as H.
    assert (X1 : j_un q jb = false) by (unfold j_un, j_wait, j_drop; rewrite St; apply andb_false_r).
    assert (X2 : j_un q (mkJ (j_inv jb) (j_cb jb) (JDone r)) = false) by (unfold j_un; cbn; apply andb_false_r).
    rewrite X1, X2 in H. unfold set_job_st in *. cbn [hlog jobs tasks set_jobs] in *. lia.
Qed.

(* what the messages owe in total *)
Fixpoint owed (c : cfg) (w : wsp) (n : nat) (ks : list call) (q : key) : nat :=
  match ks with
  | [] => 0%nat
  | k :: r => (owes c w n k q + owed c (spec_step c w k) (S n) r q)%nat
  end.

Theorem balance_from : forall c evs s q,
    tot q (run_from c s evs) = (tot q s + owed c (ws s) (nmsg s) (calls_of evs) q)%nat.
Proof.
  intros c evs. induction evs as [|e evs IH]; intros s q.
  - cbn. lia.
  - change (run_from c s (e :: evs)) with (run_from c (step c s e) evs). rewrite IH, step_tot.
    destruct (step_log c s e) as (_ & W & N). rewrite W, N.
    destruct e; cbn [calls_of flat_map app owed owes_ev next_ws next_n]; fold (calls_of evs); lia.
Qed.

(* for every schedule: started + not yet started + cancelled before starting = owed *)
Theorem balance : forall c evs q, tot q (run c evs) = owed c w0 0 (calls_of evs) q.
Proof. intros c evs q. exact (balance_from c evs init q). Qed.

(* ------------------------------------------------------------------ everything comes from a plan *)
Definition from_plan (c : cfg) (ks : list call) (p : pinv) : Prop :=
  exists n k w, nth_error ks n = Some k /\ In p (plan c w n k).

Definition task_ok (c : cfg) (ks : list call) (tk : task) : Prop :=
  from_plan c ks (mkP (t_inv tk) (t_cb tk)) /\ exec_site (i_entry (t_inv tk)) = LoopTask.
Definition job_ok (c : cfg) (ks : list call) (jb : job) : Prop :=
  from_plan c ks (mkP (j_inv jb) (j_cb jb)) /\ exec_site (i_entry (j_inv jb)) = Pool.
Definition hentry_ok (c : cfg) (ks : list call) (h : hentry) : Prop :=
  (exists n k w, nth_error ks n = Some k /\ isb c k = true /\ h = bent n k w) \/
  (exists p w, from_plan c ks p /\ h = hent (tsite_of (exec_site (p_entry p))) (p_inv p) w).

Definition M (c : cfg) (ks : list call) (s : st) : Prop :=
  Forall (task_ok c ks) (tasks s) /\ Forall (job_ok c ks) (jobs s) /\ Forall (hentry_ok c ks) (hlog s).

Lemma from_plan_mono : forall c ks k p, from_plan c ks p -> from_plan c (ks ++ [k]) p.
Proof.
  intros c ks k p (n & k' & w & H & I). exists n, k', w. split; [|exact I].
  rewrite nth_error_app1; [exact H|]. apply nth_error_Some. congruence.
Qed.

Lemma M_mono : forall c ks k s, M c ks s -> M c (ks ++ [k]) s.
Proof.
  intros c ks k s (A & B & C). repeat split; eapply Forall_impl; try eassumption.
  - intros tk [H1 H2]. split; [apply from_plan_mono|]; assumption.
  - intros jb [H1 H2]. split; [apply from_plan_mono|]; assumption.
  - intros h [(n & k' & w & H & I & J)|(p & w & H & I)].
    + left. exists n, k', w. split; [|auto]. rewrite nth_error_app1; [exact H|]. apply nth_error_Some. congruence.
    + right. exists p, w. split; [apply from_plan_mono|]; assumption.
Qed.

Lemma Forall_upd_nth : forall (A : Type) (P : A -> Prop) (g : A -> A) l t,
    Forall P l -> (forall x, P x -> P (g x)) -> Forall P (upd_nth t g l).
Proof.
  intros A P g l. induction l as [|y r IH]; intros t F H; [destruct t; constructor|].
  inversion F; subst. destruct t; cbn [upd_nth]; constructor; auto.
Qed.

Lemma Forall_Forall2 : forall (A : Type) (P Q : A -> Prop) (R : A -> A -> Prop) l l',
    Forall P l -> Forall2 R l l' -> (forall a b, P a -> R a b -> Q b) -> Forall Q l'.
Proof.
  intros A P Q R l l' F G H. induction G; [constructor|]. inversion F; subst. constructor; eauto.
Qed.

Lemma Forall_nth : forall (A : Type) (P : A -> Prop) l t x, Forall P l -> nth_error l t = Some x -> P x.
Proof. intros A P l t x F H. rewrite Forall_forall in F. apply F. eapply nth_error_In. exact H. Qed.

Lemma M_recv : forall c ks k s, M c ks s -> nmsg s = length ks -> M c (ks ++ [k]) (recv c k s).
Proof.
  intros c ks k s HM Hn. apply (M_mono c ks k) in HM. destruct (w_shut (ws s)) eqn:Hs.
  - rewrite recv_gated by exact Hs. exact HM.
  - destruct HM as (A & B & C). destruct (recv_delivery c k s Hs) as (D1 & D2 & D3 & _ & _).
    destruct (mid_soft k s) as [S1 S2].
    assert (Hk : nth_error (ks ++ [k]) (nmsg s) = Some k).
    { rewrite Hn, nth_error_app2 by lia. rewrite Nat.sub_diag. reflexivity. }
    assert (FP : forall p, In p (plan c (ws s) (nmsg s) k) -> from_plan c (ks ++ [k]) p).
    { intros p Hp. exists (nmsg s), k, (ws s). auto. }
    unfold M. rewrite D1, D2, D3. repeat split.
    + apply Forall_app. split.
      * apply (Forall_Forall2 _ _ _ tsame _ _ A S1). intros a b [H1 H2] (E1 & E2 & _). unfold task_ok. rewrite E1, E2. auto.
      * unfold new_tasks. apply Forall_forall. intros tk Ht. apply in_map_iff in Ht. destruct Ht as (p & <- & Hp).
        apply filter_In in Hp. destruct Hp as [Hp1 Hp2]. unfold task_ok. cbn [t_inv t_cb]. split.
        -- destruct p. apply FP. exact Hp1.
        -- unfold p_task, p_entry in Hp2. destruct (exec_site (i_entry (p_inv p))); congruence.
    + apply Forall_app. split.
      * apply (Forall_Forall2 _ _ _ jsame _ _ B S2). intros a b [H1 H2] (E1 & E2 & _). unfold job_ok. rewrite E1, E2. auto.
      * unfold new_jobs. apply Forall_forall. intros jb Hj. apply in_map_iff in Hj. destruct Hj as (p & <- & Hp).
        apply filter_In in Hp. destruct Hp as [Hp1 Hp2]. unfold job_ok. cbn [j_inv j_cb]. split.
        -- destruct p. apply FP. exact Hp1.
        -- unfold p_pool, p_entry in Hp2. destruct (exec_site (i_entry (p_inv p))); congruence.
    + apply Forall_app. split; [exact C|]. apply Forall_app. split.
      * destruct (isb c k) eqn:Hb; constructor; [|constructor]. left. exists (nmsg s), k, (ws s). auto.
      * unfold now_entries. apply Forall_forall. intros h Hh. apply in_map_iff in Hh. destruct Hh as (p & <- & Hp).
        apply filter_In in Hp. destruct Hp as [Hp1 Hp2]. right. exists p, (ws (recv c k s)). split; [apply FP, Hp1|].
        unfold p_inline, inline in Hp2. destruct (exec_site (p_entry p)); try discriminate. reflexivity.
Qed.

Lemma M_step : forall c ks s e, M c ks s -> nmsg s = length ks -> M c (ks ++ calls_of [e]) (step c s e).
Proof.
  intros c ks s e HM Hn. destruct e as [k|t|t|j|j]; cbn [calls_of flat_map app step]; rewrite ?app_nil_r.
  - apply M_recv; assumption.
  - unfold task_step. destruct (nth_error (tasks s) t) as [tk|] eqn:E; [|exact HM].
    destruct HM as (A & B & C). pose proof (Forall_nth _ _ _ _ _ A E) as [T1 T2].
    destruct (t_st tk) as [[|]|r|r]; try (repeat split; assumption).
    + repeat split; try assumption. unfold set_task_st. cbn [tasks set_tasks]. apply Forall_upd_nth; [exact A|]. intros x Hx. exact Hx.
    + repeat split; unfold set_task_st, invoke; cbn [tasks jobs hlog set_tasks set_hlog]; try assumption.
      * apply Forall_upd_nth; [exact A|]. intros x Hx. exact Hx.
      * apply Forall_app. split; [exact C|]. constructor; [|constructor]. right.
        exists (mkP (t_inv tk) (t_cb tk)), (ws s). split; [exact T1|]. unfold p_entry. cbn [p_inv]. rewrite T2. reflexivity.
  - unfold loop_cb. destruct (nth_error (tasks s) t) as [tk|] eqn:E; [|exact HM].
    destruct (t_st tk) as [b|r|r]; try exact HM.
    destruct HM as (A & B & C). destruct (run_cb_fields (t_cb tk) r (set_task_st t (TFin r) s)) as (F1 & F2 & F3 & _).
    unfold M. rewrite F1, F2, F3. repeat split; try assumption.
    unfold set_task_st. cbn [tasks set_tasks]. apply Forall_upd_nth; [exact A|]. intros x Hx. exact Hx.
  - unfold job_start. destruct (nth_error (jobs s) j) as [jb|] eqn:E; [|exact HM].
    destruct HM as (A & B & C). pose proof (Forall_nth _ _ _ _ _ B E) as [T1 T2].
    destruct (j_st jb); try (repeat split; assumption).
    repeat split; unfold set_job_st, invoke; cbn [tasks jobs hlog set_jobs set_hlog]; try assumption.
    + apply Forall_upd_nth; [exact B|]. intros x Hx. exact Hx.
    + apply Forall_app. split; [exact C|]. constructor; [|constructor]. right.
      exists (mkP (j_inv jb) (j_cb jb)), (ws s). split; [exact T1|]. unfold p_entry. cbn [p_inv]. rewrite T2. reflexivity.
  - unfold job_finish. destruct (nth_error (jobs s) j) as [jb|] eqn:E; [|exact HM].
    destruct (j_st jb); try exact HM. cbv zeta. set (r := res_of c (i_entry (j_inv jb))).
    destruct HM as (A & B & C). destruct (run_cb_fields (j_cb jb) r (set_job_st j (JDone r) s)) as (F1 & F2 & F3 & _).
    unfold M. rewrite F1, F2, F3. repeat split; try assumption.
    unfold set_job_st. cbn [jobs set_jobs]. apply Forall_upd_nth; [exact B|]. intros x Hx. exact Hx.
Qed.

Theorem M_run_from : forall c evs ks s, M c ks s -> nmsg s = length ks -> M c (ks ++ calls_of evs) (run_from c s evs).
Proof.
  intros c evs. induction evs as [|e evs IH]; intros ks s HM Hn.
  - cbn. rewrite app_nil_r. exact HM.
  - change (run_from c s (e :: evs)) with (run_from c (step c s e) evs).
    replace (calls_of (e :: evs)) with (calls_of [e] ++ calls_of evs) by (rewrite <- calls_of_app; reflexivity).
    rewrite app_assoc. apply IH; [apply M_step; assumption|].
    destruct (step_log c s e) as (_ & _ & N). rewrite N, app_length, Hn.
    destruct e; cbn [next_n calls_of flat_map app length]; lia.
Qed.

Theorem M_run : forall c evs, M c (calls_of evs) (run c evs).
Proof.
  intros c evs. apply (M_run_from c evs [] init); [|reflexivity]. repeat split; constructor.
Qed.

(* ------------------------------------------------------------------ what a plan element is *)
Definition registered (c : cfg) (p : part) (m : name) : option entry :=
  match p with
  | PUser => aget m (features (c_reg c))
  | PCommand => aget m (commands (c_reg c))
  | PBuiltin => None
  end.

Lemma exec_command_aget : forall r n e es, exec_command r n = e :: es -> aget n (commands r) = Some e.
Proof. intros r n e es H. unfold exec_command in H. destruct (aget n (commands r)); inversion H; reflexivity. Qed.

Lemma user_plan_facts : forall c n k args p, In p (user_plan c n k args) ->
    exists e, p = mkP (mkInv n (meth_of k) PUser e args) CNot /\
              aget (meth_of k) (features (c_reg c)) = Some e.
Proof.
  intros c n k args p H. unfold user_plan in H. destruct (aget (meth_of k) (features (c_reg c))) as [e|] eqn:E; [|contradiction].
  destruct H as [<-|[]]. exists e. auto.
Qed.

(* every element of a plan is a registered callable under the right name, with the arguments and
   the kind of future the reference states *)
Theorem plan_facts : forall c w n k p, In p (plan c w n k) ->
    let x := p_inv p in
    i_msg x = n /\ registered c (i_part x) (i_meth x) = Some (i_entry x) /\
    match i_part x with
    | PUser => i_meth x = meth_of k /\ i_args x = (if isb c k then bargs k else [ACall k]) /\
               p_fut p = negb (isb c k) && is_req k
    | PCommand => (exists i cmd a, k = CExecCmd i cmd a /\ i_meth x = Some cmd /\ i_args x = [AVal a]) /\ p_fut p = true
    | PBuiltin => False
    end.
Proof.
  intros c w n k p H. cbv zeta. split; [eapply plan_msg; exact H|]. unfold plan in H.
  destruct k as [i fs| |u ver txt|u ver txts|u|ad rm|v|i|i cmd a|tok|req nm v|nb ver cell txt|nb ver|nb cell];
    try (destruct (ws_effect _ _ w); [|contradiction]; apply user_plan_facts in H; destruct H as (e & -> & H);
         known_isb c; unfold registered, p_fut; cbn [p_inv p_cb i_part i_meth i_entry i_args bargs negb andb];
         rewrite H; auto; fail).
  - destruct (exec_command (c_reg c) (Some cmd)) as [|e es] eqn:E; [contradiction|]. destruct H as [<-|H].
    + unfold registered, p_fut. cbn [p_inv p_cb i_part i_meth i_entry i_args].
      rewrite (exec_command_aget _ _ _ _ E). split; [reflexivity|]. split; [|reflexivity]. exists i, cmd, a. auto.
    + destruct (inline e && raises c e); [contradiction|]. apply user_plan_facts in H. destruct H as (e' & -> & H).
      known_isb c. unfold registered, p_fut. cbn [p_inv p_cb i_part i_meth i_entry i_args bargs negb andb]. rewrite H. auto.
  - destruct (isb c (COther req nm v)) eqn:Hb.
    + apply user_plan_facts in H. destruct H as (e & -> & H).
      unfold registered, p_fut. cbn [p_inv p_cb i_part i_meth i_entry i_args bargs negb andb]. rewrite H. auto.
    + destruct (aget (other_name nm) (features (c_reg c))) as [e|] eqn:E; [|contradiction]. destruct H as [<-|[]].
      unfold registered, p_fut, is_req. cbn [p_inv p_cb i_part i_meth i_entry i_args negb andb req_id].
      rewrite E. destruct req; auto.
Qed.

(* ------------------------------------------------------------------ built-in first *)
Section Order.
(* the names that have a built-in: FeatureManager._builtin_features of the protocol class *)
Variable bs : list name.
Definition needs_b (p : part) (m : name) : bool :=
  match p with PBuiltin => false | PCommand => true | PUser => mem_name m bs end.
Definition is_b (h : hentry) : bool := match h_part h with PBuiltin => true | _ => false end.
Definition has_b (n : nat) (l : list hentry) : bool := existsb (fun h => Nat.eqb (h_msg h) n && is_b h) l.

(* reading the log from the left: an entry that needs a built-in finds it among the entries before *)
Fixpoint ordb (seen l : list hentry) : bool :=
  match l with
  | [] => true
  | h :: r => (negb (needs_b (h_part h) (h_meth h)) || has_b (h_msg h) seen) && ordb (seen ++ [h]) r
  end.

Lemma has_b_app : forall n l1 l2, has_b n (l1 ++ l2) = has_b n l1 || has_b n l2.
Proof. intros. unfold has_b. apply existsb_app. Qed.

Lemma ordb_app : forall l1 seen l2, ordb seen (l1 ++ l2) = ordb seen l1 && ordb (seen ++ l1) l2.
Proof.
  induction l1 as [|h l1 IH]; intros seen l2; cbn [app ordb].
  - rewrite app_nil_r. reflexivity.
  - rewrite IH, <- app_assoc, andb_assoc. reflexivity.
Qed.

Lemma ordb_enough : forall hs seen,
    (forall h, In h hs -> needs_b (h_part h) (h_meth h) = true -> has_b (h_msg h) seen = true) -> ordb seen hs = true.
Proof.
  induction hs as [|h hs IH]; intros seen H; [reflexivity|]. cbn [ordb]. apply andb_true_iff. split.
  - destruct (needs_b (h_part h) (h_meth h)) eqn:E; [|reflexivity]. cbn [negb orb]. apply H; [left; reflexivity|exact E].
  - apply IH. intros h' Hin Hn. rewrite has_b_app, (H h' (or_intror Hin) Hn). reflexivity.
Qed.

Theorem ordb_meaning : forall l, ordb [] l = true ->
    forall l1 h l2, l = l1 ++ h :: l2 -> needs_b (h_part h) (h_meth h) = true -> has_b (h_msg h) l1 = true.
Proof.
  intros l H l1 h l2 -> Hn. rewrite ordb_app in H. apply andb_true_iff in H. destruct H as [_ H].
  cbn [app ordb] in H. rewrite Hn in H. cbn [negb orb] in H. apply andb_true_iff in H. tauto.
Qed.

Definition pend_ok (l : list hentry) (x : inv) : Prop :=
  needs_b (i_part x) (i_meth x) = true -> has_b (i_msg x) l = true.

Lemma pend_ok_app : forall l hs x, pend_ok l x -> pend_ok (l ++ hs) x.
Proof. intros l hs x H Hn. rewrite has_b_app, (H Hn). reflexivity. Qed.
End Order.

Definition O (c : cfg) (s : st) : Prop :=
  ordb (bset c) [] (hlog s) = true /\ Forall (fun tk => pend_ok (bset c) (hlog s) (t_inv tk)) (tasks s) /\
  Forall (fun jb => pend_ok (bset c) (hlog s) (j_inv jb)) (jobs s).


Lemma plan_pend : forall c w n k p l, In p (plan c w n k) ->
    pend_ok (bset c) (l ++ (if isb c k then [bent n k w] else [])) (p_inv p).
Proof.
  intros c w n k p l H Hn. destruct (plan_facts c w n k p H) as (Hm & _ & F). rewrite Hm.
  destruct (isb c k) eqn:Hb.
  - rewrite has_b_app. unfold has_b at 2. cbn [existsb bent h_msg is_b h_part]. rewrite Nat.eqb_refl. cbn. apply orb_true_r.
  - destruct (i_part (p_inv p)) eqn:Hp; cbn [needs_b] in Hn; try discriminate.
    + destruct F as (F1 & _). rewrite F1 in Hn. unfold isb in Hb. congruence.
    + destruct F as ((i & cmd & a & -> & _) & _). rewrite (isb_known c (CExecCmd i cmd a) eq_refl) in Hb. discriminate.
Qed.

Lemma O_recv : forall c k s, O c s -> O c (recv c k s).
Proof.
  intros c k s (A & B & C). destruct (w_shut (ws s)) eqn:Hs.
  - rewrite recv_gated by exact Hs. repeat split; assumption.
  - destruct (recv_delivery c k s Hs) as (D1 & D2 & D3 & _ & _). destruct (mid_soft k s) as [S1 S2].
    set (ps := plan c (ws s) (nmsg s) k) in *.
    set (bl := if isb c k then [bent (nmsg s) k (ws s)] else []) in *.
    assert (PP : forall p, In p ps -> pend_ok (bset c) (hlog s ++ bl) (p_inv p)) by (intros p Hp; subst bl; apply (plan_pend c (ws s) (nmsg s) k p (hlog s)); exact Hp).
    unfold O. rewrite D1, D2, D3. repeat split.
    + rewrite ordb_app, A. cbn [andb app]. rewrite ordb_app. apply andb_true_iff. split.
      * apply ordb_enough. intros h Hh Hn. subst bl. destruct (isb c k); [|contradiction].
        destruct Hh as [<-|[]]. discriminate.
      * apply ordb_enough. intros h Hh Hn. unfold now_entries in Hh. apply in_map_iff in Hh. destruct Hh as (p & <- & Hp).
        apply filter_In in Hp. apply (PP p (proj1 Hp)). exact Hn.
    + apply Forall_app. split.
      * apply (Forall_Forall2 _ _ _ tsame _ _ B S1). intros a b H (E1 & _). rewrite E1. apply pend_ok_app. exact H.
      * unfold new_tasks. apply Forall_forall. intros tk Ht. apply in_map_iff in Ht. destruct Ht as (p & <- & Hp).
        apply filter_In in Hp. cbn [t_inv]. rewrite app_assoc. apply pend_ok_app. apply PP. exact (proj1 Hp).
    + apply Forall_app. split.
      * apply (Forall_Forall2 _ _ _ jsame _ _ C S2). intros a b H (E1 & _). rewrite E1. apply pend_ok_app. exact H.
      * unfold new_jobs. apply Forall_forall. intros jb Hj. apply in_map_iff in Hj. destruct Hj as (p & <- & Hp).
        apply filter_In in Hp. cbn [j_inv]. rewrite app_assoc. apply pend_ok_app. apply PP. exact (proj1 Hp).
Qed.

Lemma O_step : forall c s e, O c s -> O c (step c s e).
Proof.
  intros c s e HO. destruct e as [k|t|t|j|j]; cbn [step].
  - apply O_recv. exact HO.
  - unfold task_step. destruct (nth_error (tasks s) t) as [tk|] eqn:E; [|exact HO].
    destruct HO as (A & B & C). pose proof (Forall_nth _ _ _ _ _ B E) as T.
    destruct (t_st tk) as [[|]|r|r]; try (repeat split; assumption).
    + repeat split; try assumption. unfold set_task_st. cbn [tasks set_tasks hlog]. apply Forall_upd_nth; [exact B|]. auto.
    + unfold O, set_task_st, invoke. cbn [tasks jobs hlog set_tasks set_hlog]. repeat split.
      * rewrite ordb_app, A. cbn [andb app ordb]. rewrite andb_true_r. cbn [h_part h_meth h_msg].
        destruct (needs_b (bset c) (i_part (t_inv tk)) (i_meth (t_inv tk))) eqn:Hn; [|reflexivity]. cbn [negb orb]. apply T. exact Hn.
      * apply Forall_upd_nth; [|auto]. eapply Forall_impl; [|exact B]. intros a Ha. apply pend_ok_app. exact Ha.
      * eapply Forall_impl; [|exact C]. intros a Ha. apply pend_ok_app. exact Ha.
  - unfold loop_cb. destruct (nth_error (tasks s) t) as [tk|] eqn:E; [|exact HO].
    destruct (t_st tk) as [b|r|r]; try exact HO.
    destruct HO as (A & B & C). destruct (run_cb_fields (t_cb tk) r (set_task_st t (TFin r) s)) as (F1 & F2 & F3 & _).
    unfold O. rewrite F1, F2, F3. repeat split; try assumption.
    unfold set_task_st. cbn [tasks set_tasks hlog]. apply Forall_upd_nth; [exact B|]. auto.
  - unfold job_start. destruct (nth_error (jobs s) j) as [jb|] eqn:E; [|exact HO].
    destruct HO as (A & B & C). pose proof (Forall_nth _ _ _ _ _ C E) as T.
    destruct (j_st jb); try (repeat split; assumption).
    unfold O, set_job_st, invoke. cbn [tasks jobs hlog set_jobs set_hlog]. repeat split.
    + rewrite ordb_app, A. cbn [andb app ordb]. rewrite andb_true_r. cbn [h_part h_meth h_msg].
      destruct (needs_b (bset c) (i_part (j_inv jb)) (i_meth (j_inv jb))) eqn:Hn; [|reflexivity]. cbn [negb orb]. apply T. exact Hn.
    + eapply Forall_impl; [|exact B]. intros a Ha. apply pend_ok_app. exact Ha.
    + apply Forall_upd_nth; [|auto]. eapply Forall_impl; [|exact C]. intros a Ha. apply pend_ok_app. exact Ha.
  - unfold job_finish. destruct (nth_error (jobs s) j) as [jb|] eqn:E; [|exact HO].
    destruct (j_st jb); try exact HO. cbv zeta. set (r := res_of c (i_entry (j_inv jb))).
    destruct HO as (A & B & C). destruct (run_cb_fields (j_cb jb) r (set_job_st j (JDone r) s)) as (F1 & F2 & F3 & _).
    unfold O. rewrite F1, F2, F3. repeat split; try assumption.
    unfold set_job_st. cbn [jobs set_jobs hlog]. apply Forall_upd_nth; [exact C|]. auto.
Qed.

Theorem O_run : forall c evs, O c (run c evs).
Proof.
  intros c evs. unfold run. assert (H : O c init) by (repeat split; constructor).
  revert H. generalize init. induction evs as [|e evs IH]; intros s H; [exact H|]. cbn [fold_left]. apply IH, O_step, H.
Qed.

(* ------------------------------------------------------------------ only request futures are ever cancelled *)
Definition req_cb (cb : cbkind) : bool := match cb with CReq _ => true | CNot => false end.

Definition ref_ok (s : st) (r : fref) : Prop :=
  match r with
  | FTask t => exists tk, nth_error (tasks s) t = Some tk /\ req_cb (t_cb tk) = true
  | FJob j => exists jb, nth_error (jobs s) j = Some jb /\ req_cb (j_cb jb) = true
  end.

(* a handler started through _execute_notification (a user feature chained after a built-in, a
   notification handler) is never cancelled *)
Definition t_clean (tk : task) : Prop :=
  req_cb (t_cb tk) = false ->
  t_st tk = TNew false \/ exists r, r <> RCancelled /\ (t_st tk = TDoneCb r \/ t_st tk = TFin r).
Definition j_clean (jb : job) : Prop := req_cb (j_cb jb) = false -> j_st jb <> JCancelled.

Definition K (s : st) : Prop :=
  Forall (ref_ok s) (Assoc.values (futs s)) /\ Forall t_clean (tasks s) /\ Forall j_clean (jobs s).

Definition grow (s s' : st) : Prop :=
  (forall t tk, nth_error (tasks s) t = Some tk -> exists tk', nth_error (tasks s') t = Some tk' /\ t_cb tk' = t_cb tk) /\
  (forall j jb, nth_error (jobs s) j = Some jb -> exists jb', nth_error (jobs s') j = Some jb' /\ j_cb jb' = j_cb jb).

Lemma grow_refl : forall s, grow s s.
Proof. intro s. split; intros; eauto. Qed.

Lemma grow_trans : forall a b c, grow a b -> grow b c -> grow a c.
Proof.
  intros a b c [A1 A2] [B1 B2]. split.
  - intros t tk H. destruct (A1 _ _ H) as (tk' & H1 & E1). destruct (B1 _ _ H1) as (tk'' & H2 & E2). exists tk''. split; congruence.
  - intros j jb H. destruct (A2 _ _ H) as (jb' & H1 & E1). destruct (B2 _ _ H1) as (jb'' & H2 & E2). exists jb''. split; congruence.
Qed.

Lemma ref_ok_grow : forall s s' r, grow s s' -> ref_ok s r -> ref_ok s' r.
Proof.
  intros s s' [t|j] [G1 G2]; cbn [ref_ok]; intros (x & H & E).
  - destruct (G1 _ _ H) as (x' & H' & E'). exists x'. split; [exact H'|congruence].
  - destruct (G2 _ _ H) as (x' & H' & E'). exists x'. split; [exact H'|congruence].
Qed.

Lemma nth_error_upd_nth : forall (A : Type) (g : A -> A) l t t' x,
    nth_error l t' = Some x -> exists x', nth_error (upd_nth t g l) t' = Some x' /\ (x' = x \/ x' = g x).
Proof.
  intros A g l. induction l as [|y r IH]; intros t t' x H; [destruct t'; discriminate|].
  destruct t as [|t], t' as [|t']; cbn [upd_nth nth_error] in *; eauto.
  inversion H; subst. eauto.
Qed.

Lemma grow_set_task_st : forall s t x, grow s (set_task_st t x s).
Proof.
  intros s t x. split; unfold set_task_st; cbn [tasks jobs set_tasks]; [|eauto].
  intros t' tk H. destruct (nth_error_upd_nth _ (fun tk0 => mkT (t_inv tk0) (t_cb tk0) x) _ t _ _ H) as (x' & H' & [->| ->]); eauto.
Qed.

Lemma grow_set_job_st : forall s j x, grow s (set_job_st j x s).
Proof.
  intros s j x. split; unfold set_job_st; cbn [tasks jobs set_jobs]; [eauto|].
  intros j' jb H. destruct (nth_error_upd_nth _ (fun jb0 => mkJ (j_inv jb0) (j_cb jb0) x) _ j _ _ H) as (x' & H' & [->| ->]); eauto.
Qed.

Lemma grow_same : forall s s', tasks s' = tasks s -> jobs s' = jobs s -> grow s s'.
Proof. intros s s' A B. split; intros; rewrite ?A, ?B; eauto. Qed.

Lemma values_set : forall (l : list (N * fref)) k v r,
    In r (Assoc.values (Assoc.set N.eqb k v l)) -> r = v \/ In r (Assoc.values l).
Proof.
  induction l as [|[k' v'] l IH]; intros k v r H; cbn [Assoc.set] in H.
  - destruct H as [<-|[]]. auto.
  - destruct (N.eqb k k'); cbn in H |- *; destruct H as [<-|H]; auto. destruct (IH _ _ _ H); auto.
Qed.

Lemma values_remove : forall (l : list (N * fref)) k r,
    In r (Assoc.values (Assoc.remove N.eqb k l)) -> In r (Assoc.values l).
Proof.
  induction l as [|[k' v'] l IH]; intros k r H; cbn [Assoc.remove] in H; [contradiction|].
  destruct (N.eqb k k'); cbn in H |- *; auto. destruct H as [<-|H]; eauto.
Qed.

Lemma K_frame : forall s s', tasks s' = tasks s -> jobs s' = jobs s -> futs s' = futs s -> K s -> K s'.
Proof.
  intros s s' A B C (K1 & K2 & K3). unfold K. rewrite A, B, C. repeat split; try assumption.
  eapply Forall_impl; [|exact K1]. intros r. apply ref_ok_grow, grow_same; assumption.
Qed.

Lemma K_fut_pop : forall s i, K s -> K (fut_pop i s).
Proof.
  intros s i (K1 & K2 & K3). unfold K, fut_pop. cbn [futs tasks jobs set_futs]. repeat split; try assumption.
  apply Forall_forall. intros r Hr. apply values_remove in Hr. rewrite Forall_forall in K1.
  apply (ref_ok_grow s); [apply grow_same; reflexivity|apply K1, Hr].
Qed.

Lemma K_run_cb : forall cb r s, K s -> K (run_cb cb r s).
Proof.
  intros [i|] r s H; cbn [run_cb]; [|exact H]. unfold request_callback.
  apply K_fut_pop. destruct r; (eapply K_frame; [| | |exact H]; reflexivity).
Qed.

Lemma grow_run_cb : forall cb r s, grow s (run_cb cb r s).
Proof. intros cb r s. destruct (run_cb_fields cb r s) as (_ & A & B & _). apply grow_same; assumption. Qed.

Lemma K_new_task : forall s x cb,
    K s -> K (new_task x cb s) /\ grow s (new_task x cb s) /\
           nth_error (tasks (new_task x cb s)) (length (tasks s)) = Some (mkT x cb (TNew false)).
Proof.
  intros s x cb (K1 & K2 & K3).
  assert (G : grow s (new_task x cb s)).
  { split; unfold new_task; cbn [tasks jobs set_tasks]; [|eauto]. intros t tk H. exists tk. split; [|reflexivity].
    rewrite nth_error_app1; [exact H|]. apply nth_error_Some. congruence. }
  split; [|split; [exact G|]].
  - unfold K. repeat split.
    + change (futs (new_task x cb s)) with (futs s). eapply Forall_impl; [|exact K1]. intro r. apply ref_ok_grow, G.
    + unfold new_task. cbn [tasks set_tasks]. apply Forall_app. split; [exact K2|]. constructor; [|constructor].
      intro. left. reflexivity.
    + exact K3.
  - unfold new_task. cbn [tasks set_tasks]. rewrite nth_error_app2 by lia. rewrite Nat.sub_diag. reflexivity.
Qed.

Lemma K_new_job : forall s x cb,
    K s -> K (new_job x cb s) /\ grow s (new_job x cb s) /\
           nth_error (jobs (new_job x cb s)) (length (jobs s)) = Some (mkJ x cb JQueued).
Proof.
  intros s x cb (K1 & K2 & K3).
  assert (G : grow s (new_job x cb s)).
  { split; unfold new_job; cbn [tasks jobs set_jobs]; [eauto|]. intros j jb H. exists jb. split; [|reflexivity].
    rewrite nth_error_app1; [exact H|]. apply nth_error_Some. congruence. }
  split; [|split; [exact G|]].
  - unfold K. repeat split.
    + change (futs (new_job x cb s)) with (futs s). eapply Forall_impl; [|exact K1]. intro r. apply ref_ok_grow, G.
    + exact K2.
    + unfold new_job. cbn [jobs set_jobs]. apply Forall_app. split; [exact K3|]. constructor; [|constructor].
      intro. discriminate.
  - unfold new_job. cbn [jobs set_jobs]. rewrite nth_error_app2 by lia. rewrite Nat.sub_diag. reflexivity.
Qed.

Lemma K_fut_set : forall s i r, K s -> ref_ok s r -> K (fut_set i r s).
Proof.
  intros s i r (K1 & K2 & K3) Hr. unfold K, fut_set. cbn [futs tasks jobs set_futs]. repeat split; try assumption.
  apply Forall_forall. intros r' H. apply values_set in H. rewrite Forall_forall in K1.
  apply (ref_ok_grow s); [apply grow_same; reflexivity|]. destruct H as [->|H]; auto.
Qed.

Lemma K_execute_request : forall c i x s, K s -> K (fst (execute_request c i x s)).
Proof.
  intros c i x s H. unfold execute_request. destruct (exec_site (i_entry x)); cbn [fst].
  - destruct (raises c (i_entry x)); cbn [fst]; (eapply K_frame; [| | |exact H]; reflexivity).
  - destruct (K_new_task s x (CReq i) H) as (A & _ & B). apply K_fut_set; [exact A|].
    cbn [ref_ok]. eexists. split; [exact B|reflexivity].
  - destruct (K_new_job s x (CReq i) H) as (A & _ & B). apply K_fut_set; [exact A|].
    cbn [ref_ok]. eexists. split; [exact B|reflexivity].
Qed.

Lemma K_exec_notification : forall c x s, K s -> K (fst (exec_notification c x s)).
Proof.
  intros c x s H. unfold exec_notification. destruct (exec_site (i_entry x)); cbn [fst].
  - eapply K_frame; [| | |exact H]; reflexivity.
  - apply K_new_task, H.
  - apply K_new_job, H.
Qed.

Lemma K_chain : forall c n k args s, K s -> K (Dispatch.chain c n k args s).
Proof.
  intros c n k args s H. unfold Dispatch.chain. destruct (aget (meth_of k) (features (c_reg c))); [|exact H].
  apply K_exec_notification, H.
Qed.

Lemma K_set_task_st : forall s t x,
    K s -> (forall tk, nth_error (tasks s) t = Some tk -> t_clean (mkT (t_inv tk) (t_cb tk) x)) -> K (set_task_st t x s).
Proof.
  intros s t x (K1 & K2 & K3) H. unfold K. repeat split.
  - change (futs (set_task_st t x s)) with (futs s). eapply Forall_impl; [|exact K1]. intro r. apply ref_ok_grow, grow_set_task_st.
  - unfold set_task_st. cbn [tasks set_tasks]. clear K1 K3. revert t H K2. generalize (tasks s).
    induction l as [|y l IH]; intros t H F; [destruct t; constructor|]. inversion F; subst.
    destruct t as [|t]; cbn [upd_nth]; constructor.
    + apply (H y). reflexivity.
    + assumption.
    + assumption.
    + apply IH; [|assumption]. intros tk Htk. apply H. exact Htk.
  - exact K3.
Qed.

Lemma K_set_job_st : forall s j x,
    K s -> (forall jb, nth_error (jobs s) j = Some jb -> j_clean (mkJ (j_inv jb) (j_cb jb) x)) -> K (set_job_st j x s).
Proof.
  intros s j x (K1 & K2 & K3) H. unfold K. repeat split.
  - change (futs (set_job_st j x s)) with (futs s). eapply Forall_impl; [|exact K1]. intro r. apply ref_ok_grow, grow_set_job_st.
  - exact K2.
  - unfold set_job_st. cbn [jobs set_jobs]. clear K1 K2. revert j H K3. generalize (jobs s).
    induction l as [|y l IH]; intros j H F; [destruct j; constructor|]. inversion F; subst.
    destruct j as [|j]; cbn [upd_nth]; constructor.
    + apply (H y). reflexivity.
    + assumption.
    + assumption.
    + apply IH; [|assumption]. intros jb Hjb. apply H. exact Hjb.
Qed.

Lemma K_cancel_ref : forall r s, K s -> ref_ok s r -> K (cancel_ref r s) /\ grow s (cancel_ref r s).
Proof.
  intros [t|j] s H Hr; unfold cancel_ref; cbn [ref_ok] in Hr; destruct Hr as (x & E & Hcb); rewrite E.
  - destruct (t_st x); try (split; [exact H|apply grow_refl]). split; [|apply grow_set_task_st].
    apply K_set_task_st; [exact H|]. intros tk Htk. rewrite E in Htk. inversion Htk; subst tk.
    unfold t_clean. cbn [t_cb]. congruence.
  - destruct (j_st x); try (split; [exact H|apply grow_refl]). split.
    + apply K_run_cb. apply K_set_job_st; [exact H|]. intros jb Hjb. rewrite E in Hjb. inversion Hjb; subst jb.
      unfold j_clean. cbn [j_cb]. congruence.
    + eapply grow_trans; [apply grow_set_job_st|apply grow_run_cb].
Qed.

Lemma K_cancel_fold : forall rs s, K s -> Forall (ref_ok s) rs -> K (fold_left (fun s' r => cancel_ref r s') rs s).
Proof.
  induction rs as [|r rs IH]; intros s H F; cbn [fold_left]; [exact H|]. inversion F; subst.
  destruct (K_cancel_ref r s H H2) as [A G]. apply IH; [exact A|].
  eapply Forall_impl; [|exact H3]. intro r'. apply ref_ok_grow, G.
Qed.

Lemma K_cancel_all : forall s, K s -> K (cancel_all s).
Proof. intros s H. apply K_cancel_fold; [exact H|exact (proj1 H)]. Qed.

Ltac kframe H := eapply K_frame; [| | |exact H]; reflexivity.

Lemma K_recv : forall c k s, K s -> K (recv c k s).
Proof.
  intros c k s H. unfold recv. destruct (w_shut (ws s)); [kframe H|].
  assert (H0 : K (set_nmsg (S (nmsg s)) s)) by kframe H. clear H.
  set (s0 := set_nmsg (S (nmsg s)) s) in *. set (n := nmsg s).
  assert (KB : forall k' args, K (log_builtin n k' args s0)) by (intros; kframe H0).
  assert (KO : forall f s', K s' -> K (add_out f s')) by (intros f s' H'; kframe H').
  assert (KW : forall w s', K s' -> K (set_ws w s')) by (intros w s' H'; kframe H').
  destruct (req_id k) as [i|].
  - unfold handle_request. destruct (get_handler (bset c) (c_reg c) (meth_of k)) as [|e|].
    + destruct k; try exact H0;
        try (cbv zeta; unfold builtin_body; match goal with |- context [ws_effect ?a ?b ?c] => destruct (ws_effect a b c) end;
             [apply KO, K_chain, KW; try apply K_cancel_all; apply KB | apply KO, KB]).
      cbv zeta. unfold exec_cmd_body. destruct (exec_command (c_reg c) (Some cmd)) as [|e es].
      * apply KO, KB.
      * pose proof (K_execute_request c i (mkInv n (Some cmd) PCommand e [AVal a]) _ (KB (CExecCmd i0 cmd a) [ACall (CExecCmd i0 cmd a); AId i])) as X.
        destruct (execute_request c i _ _) as [s2 x]. cbn [fst] in X. cbv beta iota. destruct x; [apply KO, X|apply K_chain, X].
    + pose proof (K_execute_request c i (mkInv n (meth_of k) PUser e [ACall k]) s0 H0) as X.
      destruct (execute_request c i _ s0) as [s1 x]. cbn [fst] in X. cbv beta iota. destruct x; [apply KO, X|exact X].
    + apply KO, H0.
  - unfold handle_notification. destruct (get_handler (bset c) (c_reg c) (meth_of k)) as [|e|].
    + destruct k; try exact H0;
        try (cbv zeta; unfold builtin_body; match goal with |- context [ws_effect ?a ?b ?c] => destruct (ws_effect a b c) end;
             [apply K_chain, KW; try apply K_cancel_all; apply KB | apply KB]).
    + apply K_exec_notification, H0.
    + exact H0.
Qed.

Lemma K_step : forall c s e, K s -> K (step c s e).
Proof.
  intros c s e H. destruct e as [k|t|t|j|j]; cbn [step].
  - apply K_recv, H.
  - unfold task_step. destruct (nth_error (tasks s) t) as [tk|] eqn:E; [|exact H].
    pose proof (Forall_nth _ _ _ _ _ (proj1 (proj2 H)) E) as C.
    destruct (t_st tk) as [[|]|r|r] eqn:St; try exact H.
    + apply K_set_task_st; [exact H|]. intros tk' E'. rewrite E in E'. inversion E'; subst tk'.
      intro Hc. cbn [t_cb] in Hc. destruct (C Hc) as [X|(r & _ & [X|X])]; rewrite St in X; discriminate.
    + apply K_set_task_st; [kframe H|]. intros tk' E'. change (tasks (invoke OnLoop (t_inv tk) s)) with (tasks s) in E'.
      rewrite E in E'. inversion E'; subst tk'. intros _. right. exists (res_of c (i_entry (t_inv tk))).
      split; [apply res_of_not_cancelled|left; reflexivity].
  - unfold loop_cb. destruct (nth_error (tasks s) t) as [tk|] eqn:E; [|exact H].
    pose proof (Forall_nth _ _ _ _ _ (proj1 (proj2 H)) E) as C.
    destruct (t_st tk) as [b|r|r] eqn:St; try exact H.
    apply K_run_cb, K_set_task_st; [exact H|]. intros tk' E'. rewrite E in E'. inversion E'; subst tk'.
    intro Hc. cbn [t_cb] in Hc. right. exists r. split; [|right; reflexivity].
    destruct (C Hc) as [X|(r' & Hr & [X|X])]; rewrite St in X; try discriminate. inversion X; subst. exact Hr.
  - unfold job_start. destruct (nth_error (jobs s) j) as [jb|] eqn:E; [|exact H].
    destruct (j_st jb); try exact H. apply K_set_job_st; [kframe H|]. intros jb' _ _. discriminate.
  - unfold job_finish. destruct (nth_error (jobs s) j) as [jb|] eqn:E; [|exact H].
    destruct (j_st jb); try exact H. cbv zeta. apply K_run_cb, K_set_job_st; [exact H|]. intros jb' _ _. discriminate.
Qed.

Theorem K_run : forall c evs, K (run c evs).
Proof.
  intros c evs. unfold run. assert (H : K init) by (repeat split; constructor).
  revert H. generalize init. induction evs as [|e evs IH]; intros s H; [exact H|]. cbn [fold_left]. apply IH, K_step, H.
Qed.

(* ------------------------------------------------------------------ consequences *)
(* at most once: a message owes each of its (at most three) parts once *)
Lemma dispatch_users_shape : forall bs r m, snd (dispatch bs r m) = [] \/ exists e, snd (dispatch bs r m) = [e].
Proof.
  intros bs r m. unfold dispatch. destruct (get_handler bs r m); cbn [snd]; eauto.
  destruct (aget m (features r)); eauto.
Qed.

Lemma actual_once : forall c w k n q, (cnt (fun x => key_eqb q (xkey n x)) (actual c w k) <= 1)%nat.
Proof.
  intros c w k n [m p].
  assert (E : forall l, (forall x, In x l -> x_part x = PBuiltin) -> (length l <= 1)%nat ->
                        forall l2, (forall x, In x l2 -> x_part x = PCommand) -> (length l2 <= 1)%nat ->
                        forall l3, (forall x, In x l3 -> x_part x = PUser) -> (length l3 <= 1)%nat ->
                        (cnt (fun x => key_eqb (m, p) (xkey n x)) (l ++ l2 ++ l3) <= 1)%nat).
  { intros l A1 A2 l2 B1 B2 l3 C1 C2. rewrite !cnt_app. unfold cnt, key_eqb, xkey. cbn [fst snd].
    destruct l as [|x1 [|? ?]]; cbn [length] in A2; try lia;
    destruct l2 as [|x2 [|? ?]]; cbn [length] in B2; try lia;
    destruct l3 as [|x3 [|? ?]]; cbn [length] in C2; try lia; cbn [filter];
    rewrite ?(A1 x1 (or_introl eq_refl)), ?(B1 x2 (or_introl eq_refl)), ?(C1 x3 (or_introl eq_refl));
    destruct (Nat.eqb m n); destruct p; cbn; lia. }
  unfold actual, parts.
  assert (U : forall l, l = user_part e_inject c k -> (forall x, In x l -> x_part x = PUser) /\ (length l <= 1)%nat).
  { intros l ->. unfold user_part. destruct (dispatch_users_shape (bset c) (c_reg c) (meth_of k)) as [->|[e ->]];
      destruct (isb c k); cbn; split; try lia; intros x [<-|[]]; reflexivity. }
  assert (Cm : forall l, l = cmd_part e_inject c k -> (forall x, In x l -> x_part x = PCommand) /\ (length l <= 1)%nat).
  { intros l ->. unfold cmd_part. destruct k; cbn; try (split; [intros x []|lia]).
    destruct (exec_command_shape (c_reg c) (Some cmd)) as [->|[e ->]]; cbn; split; try lia; intros x [<-|[]]; reflexivity. }
  destruct (U _ eq_refl) as [U1 U2]. destruct (Cm _ eq_refl) as [C1 C2].
  destruct (isb c k && negb (builtin_ok c w k)).
  - replace (x_builtin k :: cmd_part e_inject c k) with ([x_builtin k] ++ cmd_part e_inject c k ++ []) by (rewrite app_nil_r; reflexivity).
    apply E; auto; cbn; try lia; try (intros ? []; fail); intros ? [<-|[]]; reflexivity.
  - apply E; auto; destruct (isb c k); cbn; try lia; try (intros ? []; fail); intros ? [<-|[]]; reflexivity.
Qed.

Lemma owes_other_msg : forall c w n k m p, m <> n -> owes c w n k (m, p) = 0%nat.
Proof.
  intros c w n k m p H. unfold owes. destruct (delivered w); [|reflexivity].
  unfold cnt. induction (actual c w k) as [|x l IH]; [reflexivity|]. cbn [filter]. unfold key_eqb at 1, xkey. cbn [fst snd].
  rewrite (proj2 (Nat.eqb_neq m n) H). cbn [andb]. exact IH.
Qed.

Lemma owed_le_1 : forall c ks w n q, (owed c w n ks q <= 1)%nat.
Proof.
  intros c ks. induction ks as [|k ks IH]; intros w n [m p]; cbn [owed]; [lia|].
  destruct (Nat.eq_dec m n) as [->|Hne].
  - assert (Z : forall ks' w' n', (n < n')%nat -> owed c w' n' ks' (n, p) = 0%nat).
    { induction ks' as [|k' ks' IH']; intros w' n' Hlt; cbn [owed]; [reflexivity|].
      rewrite owes_other_msg by lia. rewrite IH' by lia. reflexivity. }
    rewrite Z by lia. unfold owes. destruct (delivered w); [|lia]. pose proof (actual_once c w k n (n, p)). lia.
  - rewrite owes_other_msg by exact Hne. apply IH.
Qed.

(* no handler body starts twice for one message *)
Theorem at_most_once : forall c evs q, (started q (run c evs) <= 1)%nat.
Proof.
  intros c evs q. pose proof (balance c evs q) as B. pose proof (owed_le_1 c (calls_of evs) w0 0%nat q). unfold tot in B. lia.
Qed.

(* at quiescence nothing is waiting: what is not started was cancelled before it started, and
   that only happens to request futures *)
Definition t_key_req (q : key) (tk : task) : bool := key_eqb q (ikey (t_inv tk)) && req_cb (t_cb tk).
Definition j_key_req (q : key) (jb : job) : bool := key_eqb q (ikey (j_inv jb)) && req_cb (j_cb jb).

Lemma quiescent_unstarted : forall s q, K s -> quiescent s = true ->
    (unstarted q s <= cnt (t_key_req q) (tasks s) + cnt (j_key_req q) (jobs s))%nat.
Proof.
  intros s q (_ & K2 & K3) Hq. unfold quiescent in Hq. apply andb_true_iff in Hq. destruct Hq as [Q1 Q2].
  unfold unstarted. apply Nat.add_le_mono.
  - clear K3 Q2. induction (tasks s) as [|tk l IH]; [cbn; lia|]. inversion K2; subst.
    cbn [forallb] in Q1. apply andb_true_iff in Q1. destruct Q1 as [Q Q1]. specialize (IH H2 Q1).
    unfold cnt in *. cbn [filter]. unfold t_un at 1, t_key_req at 1.
    destruct (key_eqb q (ikey (t_inv tk))); cbn [andb]; [|exact IH].
    destruct (req_cb (t_cb tk)) eqn:R.
    + destruct (t_wait tk || t_drop tk); cbn [length]; lia.
    + unfold task_idle in Q. destruct (H1 R) as [X|(r & Hr & [X|X])]; unfold t_wait, t_drop; rewrite X in *; try discriminate.
      destruct r; try congruence; cbn; exact IH.
  - clear K2 Q1. induction (jobs s) as [|jb l IH]; [cbn; lia|]. inversion K3; subst.
    cbn [forallb] in Q2. apply andb_true_iff in Q2. destruct Q2 as [Q Q2]. specialize (IH H2 Q2).
    unfold cnt in *. cbn [filter]. unfold j_un at 1, j_key_req at 1.
    destruct (key_eqb q (ikey (j_inv jb))); cbn [andb]; [|exact IH].
    destruct (req_cb (j_cb jb)) eqn:R.
    + destruct (j_wait jb || j_drop jb); cbn [length]; lia.
    + unfold job_idle in Q. unfold j_wait, j_drop. specialize (H1 R). destruct (j_st jb); try discriminate; try congruence; cbn; exact IH.
Qed.

(* which parts of a message answer a request (and can therefore be cancelled) *)
Definition fut_part (c : cfg) (k : call) (p : part) : bool :=
  match p with
  | PCommand => true
  | PUser => negb (isb c k) && is_req k
  | PBuiltin => false
  end.

Lemma no_req_future : forall c ks n k p x cb, nth_error ks n = Some k -> fut_part c k p = false ->
    from_plan c ks (mkP x cb) -> ikey x = (n, p) -> req_cb cb = false.
Proof.
  intros c ks n k p x cb Hk Hf (n' & k' & w & Hk' & Hin) Hkey.
  destruct (plan_facts c w n' k' _ Hin) as (Hm & _ & F). cbn [p_inv] in *. unfold ikey in Hkey. inversion Hkey; subst.
  rewrite Hk in Hk'. inversion Hk'; subst k'. unfold p_fut in F. cbn [p_cb] in F. unfold fut_part in Hf.
  destruct (i_part x); [contradiction| |discriminate].
  destruct F as (_ & _ & F). destruct cb; [|reflexivity]. cbn in *. congruence.
Qed.

Lemma key_eqb_eq : forall q x, key_eqb q x = true -> x = q.
Proof.
  intros [n p] [m p'] E. unfold key_eqb in E. cbn [fst snd] in E. apply andb_true_iff in E. destruct E as [E1 E2].
  apply Nat.eqb_eq in E1. subst m. f_equal. destruct p, p'; try discriminate; reflexivity.
Qed.

Lemma no_req_tasks : forall c ks n k p l, nth_error ks n = Some k -> fut_part c k p = false ->
    Forall (task_ok c ks) l -> cnt (t_key_req (n, p)) l = 0%nat.
Proof.
  intros c ks n k p l Hk Hf F. unfold cnt. induction F as [|tk l H1 F IH]; [reflexivity|]. cbn [filter].
  unfold t_key_req at 1. destruct (key_eqb (n, p) (ikey (t_inv tk))) eqn:E; cbn [andb]; [|exact IH].
  rewrite (no_req_future c _ n k p _ _ Hk Hf (proj1 H1) (key_eqb_eq _ _ E)). exact IH.
Qed.

Lemma no_req_jobs : forall c ks n k p l, nth_error ks n = Some k -> fut_part c k p = false ->
    Forall (job_ok c ks) l -> cnt (j_key_req (n, p)) l = 0%nat.
Proof.
  intros c ks n k p l Hk Hf F. unfold cnt. induction F as [|jb l H1 F IH]; [reflexivity|]. cbn [filter].
  unfold j_key_req at 1. destruct (key_eqb (n, p) (ikey (j_inv jb))) eqn:E; cbn [andb]; [|exact IH].
  rewrite (no_req_future c _ n k p _ _ Hk Hf (proj1 H1) (key_eqb_eq _ _ E)). exact IH.
Qed.

(* every handler that is not a request future - the user's feature chained after a built-in, a
   notification handler - has run exactly as often as the reference says once the loop and the
   pool are idle, whatever the schedule was *)
Theorem exactly_once_at_quiescence : forall c evs n k p,
    nth_error (calls_of evs) n = Some k -> fut_part c k p = false -> quiescent (run c evs) = true ->
    started (n, p) (run c evs) = owed c w0 0 (calls_of evs) (n, p).
Proof.
  intros c evs n k p Hk Hf Hq. pose proof (balance c evs (n, p)) as B. unfold tot in B.
  pose proof (quiescent_unstarted _ (n, p) (K_run c evs) Hq) as U.
  destruct (M_run c evs) as (M1 & M2 & _).
  rewrite (no_req_tasks c _ n k p _ Hk Hf M1), (no_req_jobs c _ n k p _ Hk Hf M2) in U. lia.
Qed.

(* what message number n owes, read off the messages alone *)
Lemma owed_nth : forall c ks w m n k p, nth_error ks n = Some k ->
    owed c w m ks ((m + n)%nat, p) = owes c (fold_left (spec_step c) (firstn n ks) w) (m + n)%nat k ((m + n)%nat, p).
Proof.
  intros c ks. induction ks as [|k0 ks IH]; intros w m n k p H; [destruct n; discriminate|].
  destruct n as [|n]; cbn [nth_error] in H; cbn [owed firstn fold_left].
  - inversion H; subst. rewrite Nat.add_0_r.
    assert (Z : forall ks' w' n', (m < n')%nat -> owed c w' n' ks' (m, p) = 0%nat).
    { induction ks' as [|k' ks' IH']; intros w' n' Hlt; cbn [owed]; [reflexivity|].
      rewrite owes_other_msg by lia. rewrite IH' by lia. reflexivity. }
    rewrite Z by lia. lia.
  - rewrite owes_other_msg by lia. replace (m + S n)%nat with (S m + n)%nat by lia. rewrite (IH _ _ _ _ _ H). reflexivity.
Qed.

Theorem owed_message : forall c ks n k p, nth_error ks n = Some k ->
    owed c w0 0 ks (n, p) = owes c (spec_ws c (firstn n ks)) n k (n, p).
Proof. intros c ks n k p H. exact (owed_nth c ks w0 0 n k p H). Qed.

(* ------------------------------------------------------------------ nothing else runs *)
Definition proj_h (h : hentry) := (h_part h, h_meth h, h_fid h, h_site h, h_inj h, h_args h).
Definition proj_x (x : xinv) := (x_part x, x_meth x, x_fid x, x_site x, x_inj x, x_args x).

Lemma in_actual_builtin : forall c w k, isb c k = true -> In (x_builtin k) (actual c w k).
Proof.
  intros c w k H. unfold actual, parts. rewrite H. destruct (negb (builtin_ok c w k)); cbn; auto.
Qed.

Lemma in_actual_plan : forall c w n k p, In p (plan c w n k) -> In (x_of_p p) (actual c w k).
Proof.
  intros c w n k p H. rewrite <- (plan_actual c w n k). apply in_or_app. right. apply in_map. exact H.
Qed.

(* every entry of the log is an invocation the reference lists for the message it names: the right
   function, thread, server injection and arguments *)
Theorem entries_are_owed : forall c evs h, In h (hlog (run c evs)) ->
    exists k w x, nth_error (calls_of evs) (h_msg h) = Some k /\ In x (actual c w k) /\ proj_h h = proj_x x.
Proof.
  intros c evs h H. destruct (M_run c evs) as (_ & _ & M3). rewrite Forall_forall in M3.
  destruct (M3 h H) as [(n & k & w & Hk & Hb & ->)|(p & w & (n & k & w' & Hk & Hin) & ->)].
  - exists k, w, (x_builtin k). split; [exact Hk|]. split; [apply in_actual_builtin, Hb|reflexivity].
  - exists k, w', (x_of_p p). destruct (plan_facts c w' n k p Hin) as (Hm & _). cbn [hent h_msg]. rewrite Hm.
    split; [exact Hk|]. split; [eapply in_actual_plan; exact Hin|reflexivity].
Qed.

(* ... and it is the callable registered under that name, run where its markers say *)
Theorem entries_from_registry : forall c evs h, In h (hlog (run c evs)) ->
    (h_part h = PBuiltin /\ h_site h = OnLoop /\ h_inj h = false) \/
    (exists e, registered c (h_part h) (h_meth h) = Some e /\ h_fid h = e_fid e /\ h_inj h = e_inject e /\
               h_site h = tsite_of (exec_site e)).
Proof.
  intros c evs h H. destruct (M_run c evs) as (_ & _ & M3). rewrite Forall_forall in M3.
  destruct (M3 h H) as [(n & k & w & Hk & Hb & ->)|(p & w & (n & k & w' & Hk & Hin) & ->)].
  - left. auto.
  - right. destruct (plan_facts c w' n k p Hin) as (_ & R & _). exists (p_entry p). cbn [hent h_part h_meth h_fid h_inj h_site]. auto.
Qed.

(* ------------------------------------------------------------------ snapshots *)
(* the entries an event appends carry the workspace of that moment: a built-in sees what the
   previous messages left, a user's function (inline, task or pool) sees the workspace as it is
   after the event - for the delivery of its own message: with its own built-in applied *)
Theorem snapshots : forall c evs e,
    let s := run c evs in
    exists new, hlog (run c (evs ++ [e])) = hlog s ++ new /\
      Forall (fun h => h_snap h = if is_b h then spec_ws c (calls_of evs) else spec_ws c (calls_of (evs ++ [e]))) new /\
      match e with
      | Recv _ => Forall (fun h => h_msg h = length (calls_of evs)) new
      | _ => Forall (fun h => is_b h = false /\ (h_msg h < length (calls_of evs))%nat) new
      end.
Proof.
  intros c evs e s. exists (new_log c s e).
  assert (R : run c (evs ++ [e]) = step c s e) by (unfold run, s; rewrite fold_left_app; reflexivity).
  destruct (step_log c s e) as (A & B & _). destruct (ws_run c evs) as [W N]. destruct (ws_run c (evs ++ [e])) as [W' _].
  fold s in W, N. rewrite R in *. split; [exact A|]. rewrite <- W, <- W', B.
  destruct (M_run c evs) as (M1 & M2 & _). fold s in M1, M2.
  destruct e as [k|t|t|j|j]; cbn [new_log next_ws].
  - destruct (w_shut (ws s)); [split; constructor|]. split; apply Forall_app; split.
    + destruct (isb c k); constructor; [reflexivity|constructor].
    + unfold now_entries. apply Forall_forall. intros h Hh. apply in_map_iff in Hh. destruct Hh as (p & <- & Hp).
      apply filter_In in Hp. destruct (plan_facts c _ _ _ _ (proj1 Hp)) as (_ & _ & F).
      unfold is_b. cbn [hent h_part h_snap]. destruct (i_part (p_inv p)); [contradiction|reflexivity|reflexivity].
    + destruct (isb c k); constructor; [cbn; congruence|constructor].
    + unfold now_entries. apply Forall_forall. intros h Hh. apply in_map_iff in Hh. destruct Hh as (p & <- & Hp).
      apply filter_In in Hp. rewrite <- N. exact (plan_msg _ _ _ _ _ (proj1 Hp)).
  - destruct (nth_error (tasks s) t) as [tk|] eqn:E; [|split; constructor].
    destruct (t_st tk) as [[|]|r|r]; try (split; constructor; fail).
    pose proof (Forall_nth _ _ _ _ _ M1 E) as ((n & k & w & Hk & Hin) & _).
    destruct (plan_facts c w n k _ Hin) as (Hm & _ & F). cbn [p_inv] in *.
    assert (Hb : is_b (hent OnLoop (t_inv tk) (ws s)) = false).
    { unfold is_b. cbn [hent h_part]. destruct (i_part (t_inv tk)); [contradiction|reflexivity|reflexivity]. }
    split.
    + apply Forall_cons; [|apply Forall_nil]. rewrite Hb. reflexivity.
    + apply Forall_cons; [|apply Forall_nil]. split; [exact Hb|].
      cbn [hent h_msg]. rewrite Hm. apply nth_error_Some. congruence.
  - split; constructor.
  - destruct (nth_error (jobs s) j) as [jb|] eqn:E; [|split; constructor].
    destruct (j_st jb); try (split; constructor; fail).
    pose proof (Forall_nth _ _ _ _ _ M2 E) as ((n & k & w & Hk & Hin) & _).
    destruct (plan_facts c w n k _ Hin) as (Hm & _ & F). cbn [p_inv] in *.
    assert (Hb : is_b (hent OnPool (j_inv jb) (ws s)) = false).
    { unfold is_b. cbn [hent h_part]. destruct (i_part (j_inv jb)); [contradiction|reflexivity|reflexivity]. }
    split.
    + apply Forall_cons; [|apply Forall_nil]. rewrite Hb. reflexivity.
    + apply Forall_cons; [|apply Forall_nil]. split; [exact Hb|].
      cbn [hent h_msg]. rewrite Hm. apply nth_error_Some. congruence.
  - split; constructor.
Qed.

(* ------------------------------------------------------------------ the user's failure changes nothing *)
(* the workspace after any schedule depends on the messages (and the progress tokens) only: not
   on what is registered, not on which user function raises *)
Lemma spec_step_tokens : forall c1 c2 w k, c_tokens c1 = c_tokens c2 -> spec_step c1 w k = spec_step c2 w k.
Proof. intros c1 c2 w k H. unfold spec_step. rewrite H. reflexivity. Qed.

Theorem user_failure_keeps_builtin : forall c1 c2 evs,
    c_tokens c1 = c_tokens c2 -> ws (run c1 evs) = ws (run c2 evs).
Proof.
  intros c1 c2 evs H. rewrite (proj1 (ws_run c1 evs)), (proj1 (ws_run c2 evs)). unfold spec_ws.
  generalize w0. induction (calls_of evs) as [|k ks IH]; intro w; [reflexivity|]. cbn [fold_left].
  rewrite (spec_step_tokens c1 c2 w k H). apply IH.
Qed.

Lemma out_exec_notification : forall c x s, out (fst (exec_notification c x s)) = out s.
Proof. intros c x s. unfold exec_notification. destruct (exec_site (i_entry x)); reflexivity. Qed.

Lemma out_chain : forall c n k args s, out (Dispatch.chain c n k args s) = out s.
Proof.
  intros c n k args s. unfold Dispatch.chain. destruct (aget (meth_of k) (features (c_reg c))); [|reflexivity].
  apply out_exec_notification.
Qed.

(* a built-in request (initialize, shutdown) is answered with the built-in's own result, inside the
   delivery, whatever user feature is chained after it and whatever that feature does *)
Theorem builtin_reply_kept : forall c k i s, w_shut (ws s) = false ->
    isb c k = true -> is_exec k = false -> req_id k = Some i -> builtin_ok c (ws s) k = true ->
    out (recv c k s) = out (mid k s) ++ [OResult i (result_of k)].
Proof.
  intros c k i s Hs Hb He Hi Hok. unfold recv. rewrite Hs, Hi. unfold handle_request. rewrite (get_handler_builtin c _ _ Hb).
  destruct k as [i' fs| | | | | | |i'| | |q nm v| | |]; try discriminate; cbn [req_id] in Hi; inversion Hi; subst; cbv zeta; unfold builtin_body; cbv beta iota.
  - change (ws (log_builtin (nmsg s) (CInitialize i fs) [ACall (CInitialize i fs)] (set_nmsg (S (nmsg s)) s))) with (ws s).
    unfold builtin_ok in Hok. destruct (ws_effect (c_tokens c) (CInitialize i fs) (ws s)); [|discriminate].
    unfold add_out at 1. cbn [out set_out]. rewrite out_chain. reflexivity.
  - destruct (cancel_all_fields (log_builtin (nmsg s) (CShutdown i) [ACall (CShutdown i)] (set_nmsg (S (nmsg s)) s))) as (_ & C2 & _).
    rewrite C2. change (ws (log_builtin (nmsg s) (CShutdown i) [ACall (CShutdown i)] (set_nmsg (S (nmsg s)) s))) with (ws s).
    cbn [ws_effect]. unfold add_out at 1. cbn [out set_out]. rewrite out_chain. reflexivity.
  - cbn [ws_effect mid]. unfold add_out at 1. cbn [out set_out]. rewrite out_chain. reflexivity.
Qed.

(* no handler: nothing is invoked; a request is answered -32601, a notification is dropped *)
Theorem no_handler_nothing : forall c k s, w_shut (ws s) = false -> has_handler c k = false ->
    recv c k s = match req_id k with
                 | Some i => add_out (OError i code_method_not_found) (set_nmsg (S (nmsg s)) s)
                 | None => set_nmsg (S (nmsg s)) s
                 end.
Proof.
  intros c k s Hs Hh. unfold recv. rewrite Hs. unfold has_handler, dispatch in Hh.
  unfold handle_request, handle_notification.
  destruct (get_handler (bset c) (c_reg c) (meth_of k)); cbn [fst] in Hh; try discriminate. reflexivity.
Qed.

Corollary no_handler_log : forall c k s, w_shut (ws s) = false -> has_handler c k = false ->
    hlog (recv c k s) = hlog s /\ tasks (recv c k s) = tasks s /\ jobs (recv c k s) = jobs s /\ ws (recv c k s) = ws s.
Proof. intros c k s Hs Hh. rewrite (no_handler_nothing c k s Hs Hh). destruct (req_id k); cbn; auto. Qed.

(* ------------------------------------------------------------------ the reference run by the harness *)
Lemma firstn_snoc_nth : forall (A : Type) (l : list A) n x, nth_error l n = Some x -> firstn (S n) l = firstn n l ++ [x].
Proof.
  intros A l. induction l as [|y l IH]; intros n x H; [destruct n; discriminate|].
  destruct n as [|n]; cbn [nth_error] in H.
  - inversion H. reflexivity.
  - cbn [firstn app]. rewrite <- (IH n x H). reflexivity.
Qed.

(* spec_run, element by element: message n is judged against the workspace the first n messages
   leave, by `expect`, and leaves the workspace of the first n+1 messages *)
Theorem spec_run_nth : forall c ks w n k, nth_error ks n = Some k ->
    let wn := fold_left (spec_step c) (firstn n ks) w in
    nth_error (spec_run c w ks) n =
    Some (mkXM (delivered wn) (msg_ok c wn k)
               (if delivered wn then expect c k else []) (spec_step c wn k) (spec_reply c wn k)).
Proof.
  intros c ks. induction ks as [|k0 ks IH]; intros w n k H; [destruct n; discriminate|].
  destruct n as [|n]; cbn [nth_error] in H; cbn [spec_run nth_error firstn fold_left].
  - inversion H; subst. reflexivity.
  - apply IH. exact H.
Qed.

(* inside the guard the code runs exactly what the reference promises *)
Lemma msgs_ok_nth : forall c ks w n k, msgs_ok c w ks = true -> nth_error ks n = Some k ->
    let wn := fold_left (spec_step c) (firstn n ks) w in
    delivered wn = true -> msg_ok c wn k = true.
Proof.
  intros c ks. induction ks as [|k0 ks IH]; intros w n k H Hk; [destruct n; discriminate|].
  cbn [msgs_ok] in H. apply andb_true_iff in H. destruct H as [H1 H2].
  destruct n as [|n]; cbn [nth_error] in Hk; cbn [firstn fold_left].
  - inversion Hk; subst. intros Hd. rewrite Hd in H1. exact H1.
  - apply IH; assumption.
Qed.

Theorem all_ok_actual_nth : forall c ks w n k, all_ok c w ks = true -> nth_error ks n = Some k ->
    let wn := fold_left (spec_step c) (firstn n ks) w in
    delivered wn = true -> actual c wn k = expect c k.
Proof.
  intros c ks w n k H Hk wn Hd. unfold all_ok in H. apply andb_true_iff in H. destruct H as [H1 H2].
  apply all_ok_actual; [exact H1|]. exact (msgs_ok_nth c ks w n k H2 Hk Hd).
Qed.

(* ------------------------------------------------------------------ the literal promise *)
(* how many invocations of part p the reference promises for message k *)
Definition promised (c : cfg) (k : call) (p : part) : nat := cnt (fun x => part_eqb p (x_part x)) (expect c k).

Lemma owes_promised : forall c w n k p, delivered w = true -> actual c w k = expect c k ->
    owes c w n k (n, p) = promised c k p.
Proof.
  intros c w n k p Hd Ha. unfold owes, promised. rewrite Hd, Ha. apply cnt_ext. intros x _.
  unfold key_eqb, xkey. cbn [fst snd]. rewrite Nat.eqb_refl. reflexivity.
Qed.

(* order, at most once, the balance, and exactly once at quiescence - for every schedule *)
Theorem builtin_then_user_once : forall c evs,
    ordb (bset c) [] (hlog (run c evs)) = true /\
    (forall q, (started q (run c evs) <= 1)%nat) /\
    (forall q, tot q (run c evs) = owed c w0 0 (calls_of evs) q) /\
    (forall n k p, nth_error (calls_of evs) n = Some k -> fut_part c k p = false -> quiescent (run c evs) = true ->
                   started (n, p) (run c evs) = owes c (spec_ws c (firstn n (calls_of evs))) n k (n, p)).
Proof.
  intros c evs. split; [exact (proj1 (O_run c evs))|]. split; [intro q; apply at_most_once|].
  split; [intro q; apply balance|]. intros n k p Hk Hf Hq.
  rewrite (exactly_once_at_quiescence c evs n k p Hk Hf Hq). apply owed_message. exact Hk.
Qed.

Theorem literal_inside_guard : forall c evs n k p,
    all_ok c w0 (calls_of evs) = true -> nth_error (calls_of evs) n = Some k ->
    delivered (spec_ws c (firstn n (calls_of evs))) = true -> fut_part c k p = false ->
    quiescent (run c evs) = true -> started (n, p) (run c evs) = promised c k p.
Proof.
  intros c evs n k p G Hk Hd Hf Hq. destruct (builtin_then_user_once c evs) as (_ & _ & _ & E).
  rewrite (E n k p Hk Hf Hq). apply owes_promised; [exact Hd|]. exact (all_ok_actual_nth c _ w0 n k G Hk Hd).
Qed.

(* ------------------------------------------------------------------ the delivery itself, exactly *)
Lemma filter_now_plan : forall ps, filter x_now (map x_of_p ps) = map x_of_p (filter p_inline ps).
Proof.
  induction ps as [|p ps IH]; [reflexivity|]. cbn [map filter].
  change (x_now (x_of_p p)) with (p_inline p). destruct (p_inline p); cbn [map]; rewrite IH; reflexivity.
Qed.

(* what a delivered message appends to the log inside its own delivery is exactly the inline part of
   the code's plan, in the reference's order: the built-in, then (inline) the command, then (inline)
   the user's feature; task and pool handlers are appended by their own later events (step_log) *)
Theorem delivery_exact : forall c k s, w_shut (ws s) = false ->
    map proj_h (new_log c s (Recv k)) = map proj_x (filter x_now (actual c (ws s) k)).
Proof.
  intros c k s Hs. cbn [new_log]. rewrite Hs. rewrite <- (plan_actual c (ws s) (nmsg s) k).
  rewrite filter_app, !map_app, filter_now_plan. f_equal.
  - destruct (isb c k); reflexivity.
  - unfold now_entries. rewrite !map_map. apply map_ext_in. intros p Hp. apply filter_In in Hp. destruct Hp as [_ Hp].
    unfold proj_h, proj_x, x_of_p, x_of, hent. cbn. unfold p_inline, inline in Hp.
    destruct (exec_site (p_entry p)); try discriminate. reflexivity.
Qed.

(* ------------------------------------------------------------------ shapes inside a whole registry *)
(* FeaturesProofs.shape_general speaks of one decorated definition on any registry; here: the entry
   it registers is still the same after any further decorated definitions of fresh functions, so
   the registry of a case (Dispatch.registry_of) holds, for every accepted definition, a callable
   with exactly the promised site and injection - the one `entries_from_registry` finds *)
Lemma register_keeps : forall r b f r' f' res k n e,
    Features.step r (register_op b f) = (r', f', res) -> aget n (reg_table k r) = Some e ->
    aget n (reg_table k r') = Some e /\
    (res = Ok -> f_reg f' = Some (a_kind b, a_name b) /\ f_id f' = f_id f /\
                 aget (a_name b) (reg_table (a_kind b) r') = Some (wrap_with_server f')).
Proof.
  intros r b f r' f' res k n e H He. destruct res as [|er].
  - pose proof (register_ok_entry _ _ _ _ _ H) as [Hf Hent]. cbv zeta in Hf, Hent. unfold register_op in H.
    destruct (a_kind b) eqn:Kb.
    + destruct (accept_feature_frame _ _ _ _ _ _ H) as (Hn & _ & Hm & _ & HC & _). split.
      * destruct k; cbn [reg_table] in *; [|rewrite HC; exact He].
        rewrite Hm; [exact He|]. intro; subst n. congruence.
      * intros _. subst f'. repeat split. exact Hent.
    + destruct (accept_command_frame _ _ _ _ _ H) as (Hn & _ & Hm & HF & _). split.
      * destruct k; cbn [reg_table] in *; [rewrite HF; exact He|].
        rewrite Hm; [exact He|]. intro; subst n. congruence.
      * intros _. subst f'. repeat split. exact Hent.
  - apply reject_is_identity in H. subst r'. split; [exact He|discriminate].
Qed.

(* thread() of a function object leaves the callables of every OTHER function object alone, in both
   tables, whatever their names: the marker lands on exactly the registration it decorates *)
Lemma thread_keeps : forall r f r' f' res k n e,
    Features.step r (OpThread f) = (r', f', res) ->
    (forall t m e0, f_reg f = Some (t, m) -> aget m (reg_table t r) = Some e0 -> e_fid e0 = f_id f) ->
    e_fid e <> f_id f -> aget n (reg_table k r) = Some e -> aget n (reg_table k r') = Some e.
Proof.
  intros r f r' f' res k n e H Hr Hne He. destruct res as [|er].
  - exact (accept_thread_frame_other _ _ _ _ H Hr k n e He Hne).
  - apply reject_is_identity in H. subst r'. exact He.
Qed.

Lemma attempt_keeps : forall r b k n e, fresh (a_fn b) = true -> e_fid e <> f_id (a_fn b) ->
    aget n (reg_table k r) = Some e -> aget n (reg_table k (last_reg r (attempt_trace r b))) = Some e.
Proof.
  intros r b k n e Hf Hne He. destruct (fresh_func_ok _ Hf) as (_ & _ & Hrg).
  unfold attempt_trace. destruct (a_thr b).
  - destruct (register r b (a_fn b)) as [[r1 f1] res1] eqn:E. rewrite register_step in E.
    unfold last_reg. cbn [last fst]. exact (proj1 (register_keeps _ _ _ _ _ _ _ _ _ E He)).
  - destruct (register r b (a_fn b)) as [[r1 f1] res1] eqn:E. rewrite register_step in E.
    destruct (register_keeps _ _ _ _ _ _ _ _ _ E He) as [H1 H2].
    destruct res1 as [|er]; [|unfold last_reg; cbn [last fst]; exact H1].
    destruct (thread r1 f1) as [[r2 f2] res2] eqn:E2. unfold last_reg. cbn [last fst].
    destruct (H2 eq_refl) as (Hreg & Hid & Hent).
    apply (thread_keeps r1 f1 r2 f2 res2 k n e E2); [| rewrite Hid; exact Hne | exact H1].
    intros t m e0 Ht Hm. rewrite Hreg in Ht. inversion Ht; subst t m. rewrite Hent in Hm. inversion Hm. apply wrap_fid.
  - destruct (thread r (a_fn b)) as [[r1 f1] res1] eqn:E.
    assert (H1 : aget n (reg_table k r1) = Some e).
    { apply (thread_keeps r (a_fn b) r1 f1 res1 k n e E); [|exact Hne|exact He]. intros t m e0 Ht. rewrite Hrg in Ht. discriminate. }
    destruct res1 as [|er]; [|unfold last_reg; cbn [last fst]; exact H1].
    destruct (register r1 b f1) as [[r2 f2] res2] eqn:E2. rewrite register_step in E2.
    unfold last_reg. cbn [last fst]. exact (proj1 (register_keeps _ _ _ _ _ _ _ _ _ E2 H1)).
Qed.

Lemma last_reg_app : forall tr1 r tr2, last_reg r (tr1 ++ tr2) = last_reg (last_reg r tr1) tr2.
Proof.
  induction tr1 as [|[r' res] tr1 IH]; intros r tr2; [reflexivity|].
  cbn [app]. rewrite !last_reg_cons. apply IH.
Qed.

Lemma run_attempts_last_app : forall l1 l2 r,
    last_reg r (run_attempts r (l1 ++ l2)) = last_reg (last_reg r (run_attempts r l1)) (run_attempts (last_reg r (run_attempts r l1)) l2).
Proof.
  induction l1 as [|a l1 IH]; intros l2 r; [reflexivity|].
  cbn [app run_attempts]. rewrite !last_reg_app. apply IH.
Qed.

Lemma run_keeps : forall l r k n e,
    Forall (fun b => fresh (a_fn b) = true /\ f_id (a_fn b) <> e_fid e) l -> aget n (reg_table k r) = Some e ->
    aget n (reg_table k (last_reg r (run_attempts r l))) = Some e.
Proof.
  induction l as [|b l IH]; intros r k n e F He; [exact He|]. inversion F as [|? ? [Hf Hid] F']; subst.
  cbn [run_attempts]. rewrite last_reg_app. apply IH; [assumption|]. apply attempt_keeps; auto.
Qed.

Theorem shapes_in_context : forall l1 a l2,
    let r1 := registry_of l1 in
    fresh (a_fn a) = true -> Forall (fun b => fresh (a_fn b) = true /\ f_id (a_fn b) <> f_id (a_fn a)) l2 ->
    accepted (attempt_trace r1 a) = true ->
    exists e, aget (a_name a) (reg_table (a_kind a) (registry_of (l1 ++ a :: l2))) = Some e /\
              e_fid e = f_id (a_fn a) /\ e_inject e = asks_server (f_params (a_fn a)) /\
              (exec_site e = Pool <-> a_thr a <> TNone) /\ (exec_site e = LoopTask <-> f_async (a_fn a) = true).
Proof.
  intros l1 a l2 r1 Hf F Hacc. destruct (shape_general r1 a Hf Hacc) as (e & He & P).
  exists e. split; [|exact P]. unfold registry_of. rewrite run_attempts_last_app. fold (registry_of l1). fold r1.
  cbn [run_attempts]. rewrite last_reg_app. apply run_keeps; [|assumption].
  destruct P as (Pid & _). rewrite Pid. exact F.
Qed.

(* ------------------------------------------------------------------ injection, for every signature *)
(* the abstract signature Model/Features.v works with is what the code sees of the general one *)
Theorem see_faithful : forall g, has_ls_param_or_annotation (see g) = has_ls_g g.
Proof. intros [[|[|] [| |]] [|]]; reflexivity. Qed.

Definition first_is_ls (p : fparams) : bool := match p with First true _ => true | _ => false end.
Definition first_annot_server (p : fparams) : bool := match p with First _ AServer => true | _ => false end.

(* the decision of has_ls_param_or_annotation for EVERY callable: named `ls`, or the hints can be
   computed and the first parameter's hint is the server's class *)
Theorem inject_decision : forall g,
    has_ls_g g = first_is_ls (g_first g) || (g_hints g && first_annot_server (g_first g)).
Proof. intros [[|[|] [| |]] [|]]; reflexivity. Qed.

(* "exactly when the first parameter asks for it" holds unless the function asks by annotation
   only and typing.get_type_hints fails on it *)
Definition sig_ok (g : gsig) : bool :=
  g_hints g || first_is_ls (g_first g) || negb (first_annot_server (g_first g)).

Theorem inject_iff_asked_g : forall g, sig_ok g = true -> has_ls_g g = asks_server (g_first g).
Proof. intros [[|[|] [| |]] [|]] H; try reflexivity; discriminate. Qed.

Theorem inject_only_if_asked_g : forall g, has_ls_g g = true -> asks_server (g_first g) = true.
Proof. intros [[|[|] [| |]] [|]] H; try reflexivity; discriminate. Qed.

Theorem inject_refuted_unresolvable_hints :
  exists g, asks_server (g_first g) = true /\ has_ls_g g = false /\ sig_ok g = false.
Proof. exists (mkG (First false AServer) false). repeat split. Qed.

(* a decorated definition of a function with signature g, anywhere in a case's list of definitions:
   the registered callable binds the server iff has_ls_g g *)
Theorem shapes_in_context_g : forall l1 a l2 g,
    f_params (a_fn a) = see g ->
    fresh (a_fn a) = true -> Forall (fun b => fresh (a_fn b) = true /\ f_id (a_fn b) <> f_id (a_fn a)) l2 ->
    accepted (attempt_trace (registry_of l1) a) = true ->
    exists e, aget (a_name a) (reg_table (a_kind a) (registry_of (l1 ++ a :: l2))) = Some e /\
              e_fid e = f_id (a_fn a) /\ e_inject e = has_ls_g g /\
              (exec_site e = Pool <-> a_thr a <> TNone) /\ (exec_site e = LoopTask <-> f_async (a_fn a) = true).
Proof.
  intros l1 a l2 g Hg Hf F Hacc. destruct (shapes_in_context l1 a l2 Hf F Hacc) as (e & He & H1 & H2 & H3).
  exists e. split; [exact He|]. split; [exact H1|]. split; [|exact H3].
  rewrite H2, <- has_ls_asks, Hg. apply see_faithful.
Qed.

(* ------------------------------------------------------------------ the server stops *)
(* what JsonRPCServer.shutdown() makes the pool do, as ordinary events *)
Definition stop_events (s : st) : list ev :=
  flat_map (fun j => [JobStart j; JobFinish j]) (seq 0 (length (jobs s))).

(* the stop path is a schedule: every theorem about `run` speaks about histories with Stop too *)
Theorem stop_is_schedule : forall c s, stop c s = run_from c s (stop_events s).
Proof.
  intros c s. unfold stop, stop_events, run_from. generalize (seq 0 (length (jobs s))). intro l. revert s.
  induction l as [|j l IH]; intro s; [reflexivity|]. cbn [fold_left flat_map app]. apply IH.
Qed.

Lemma calls_of_stop_events : forall s, calls_of (stop_events s) = [].
Proof.
  intro s. unfold stop_events. induction (seq 0 (length (jobs s))) as [|j l IH]; [reflexivity|].
  cbn [flat_map]. rewrite calls_of_app, IH. reflexivity.
Qed.

Definition basesx (evs : list evx) : list ev := flat_map (fun e => match e with Base e => [e] | Stop => [] end) evs.

Lemma runx_from_is_run : forall c evs s, exists l,
    fold_left (stepx c) evs s = run_from c s l /\ calls_of l = calls_of (basesx evs).
Proof.
  intros c evs. induction evs as [|e evs IH]; intro s; [exists []; split; reflexivity|]. cbn [fold_left].
  destruct (IH (stepx c s e)) as (l & A & B). destruct e as [e|]; cbn [stepx basesx flat_map] in *.
  - exists (e :: l). split; [exact A|]. change (e :: l) with ([e] ++ l). rewrite !calls_of_app, B. reflexivity.
  - exists (stop_events s ++ l). split.
    + rewrite run_from_app, <- stop_is_schedule. exact A.
    + rewrite calls_of_app, calls_of_stop_events, B. reflexivity.
Qed.

Theorem runx_is_run : forall c evs, exists l, runx c evs = run c l /\ calls_of l = calls_of (basesx evs).
Proof. intros c evs. exact (runx_from_is_run c evs init). Qed.

(* what the stop path does to one pool item: it ends up done, unless it was cancelled before *)
Definition finish_job (c : cfg) (jb : job) : job :=
  match j_st jb with
  | JQueued | JRunning => mkJ (j_inv jb) (j_cb jb) (JDone (res_of c (i_entry (j_inv jb))))
  | _ => jb
  end.

Lemma upd_nth_ext : forall (A : Type) (f g : A -> A) l j,
    (forall x, nth_error l j = Some x -> f x = g x) -> upd_nth j f l = upd_nth j g l.
Proof.
  intros A f g l. induction l as [|y r IH]; intros j H; [destruct j; reflexivity|].
  destruct j as [|j]; cbn [upd_nth].
  - rewrite (H y eq_refl). reflexivity.
  - rewrite (IH j); [reflexivity|]. intros x Hx. apply H. exact Hx.
Qed.

Lemma upd_nth_twice : forall (A : Type) (f g : A -> A) l j, upd_nth j g (upd_nth j f l) = upd_nth j (fun x => g (f x)) l.
Proof.
  intros A f g l. induction l as [|y r IH]; intro j; [destruct j; reflexivity|].
  destruct j as [|j]; cbn [upd_nth]; [reflexivity|]. rewrite IH. reflexivity.
Qed.

Lemma upd_nth_id : forall (A : Type) (f : A -> A) l j, (forall x, nth_error l j = Some x -> f x = x) -> upd_nth j f l = l.
Proof.
  intros A f l. induction l as [|y r IH]; intros j H; [destruct j; reflexivity|].
  destruct j as [|j]; cbn [upd_nth].
  - rewrite (H y eq_refl). reflexivity.
  - rewrite (IH j); [reflexivity|]. intros x Hx. apply H. exact Hx.
Qed.

Lemma nth_error_upd_same : forall (A : Type) (f : A -> A) l j x, nth_error l j = Some x -> nth_error (upd_nth j f l) j = Some (f x).
Proof.
  intros A f l. induction l as [|y r IH]; intros j x H; [destruct j; discriminate|].
  destruct j as [|j]; cbn [upd_nth nth_error] in *; [inversion H; reflexivity|apply IH, H].
Qed.

Lemma jobs_start_finish : forall c j s, jobs (job_finish c j (job_start j s)) = upd_nth j (finish_job c) (jobs s).
Proof.
  intros c j s. unfold job_start. destruct (nth_error (jobs s) j) as [x|] eqn:E.
  - destruct (j_st x) eqn:St.
    + (* queued: started, then finished *)
      set (s1 := set_job_st j JRunning (invoke OnPool (j_inv x) s)).
      assert (E1 : nth_error (jobs s1) j = Some (mkJ (j_inv x) (j_cb x) JRunning)).
      { unfold s1, set_job_st. cbn [jobs set_jobs invoke set_hlog]. exact (nth_error_upd_same _ _ _ _ _ E). }
      unfold job_finish. rewrite E1. cbn [j_st j_inv j_cb]. cbv zeta.
      destruct (run_cb_fields (j_cb x) (res_of c (i_entry (j_inv x))) (set_job_st j (JDone (res_of c (i_entry (j_inv x)))) s1)) as (_ & _ & Jb & _).
      rewrite Jb. unfold s1, set_job_st. cbn [jobs set_jobs invoke set_hlog]. rewrite upd_nth_twice. apply upd_nth_ext.
      intros y Hy. rewrite E in Hy. inversion Hy; subst y. unfold finish_job. rewrite St. reflexivity.
    + unfold job_finish. rewrite E, St. cbv zeta.
      destruct (run_cb_fields (j_cb x) (res_of c (i_entry (j_inv x))) (set_job_st j (JDone (res_of c (i_entry (j_inv x)))) s)) as (_ & _ & Jb & _).
      rewrite Jb. unfold set_job_st. cbn [jobs set_jobs]. apply upd_nth_ext.
      intros y Hy. rewrite E in Hy. inversion Hy; subst y. unfold finish_job. rewrite St. reflexivity.
    + unfold job_finish. rewrite E, St. symmetry. apply upd_nth_id. intros y Hy. rewrite E in Hy. inversion Hy; subst y.
      unfold finish_job. rewrite St. reflexivity.
    + unfold job_finish. rewrite E, St. symmetry. apply upd_nth_id. intros y Hy. rewrite E in Hy. inversion Hy; subst y.
      unfold finish_job. rewrite St. reflexivity.
  - unfold job_finish. rewrite E. symmetry. apply upd_nth_id. intros y Hy. congruence.
Qed.

Lemma upd_all_map : forall (A : Type) (f : A -> A) l pre,
    fold_left (fun l' j => upd_nth j f l') (seq (length pre) (length l)) (pre ++ l) = pre ++ map f l.
Proof.
  intros A f l. induction l as [|x l IH]; intro pre; [reflexivity|]. cbn [length seq fold_left map].
  assert (U : upd_nth (length pre) f (pre ++ x :: l) = (pre ++ [f x]) ++ l).
  { clear. induction pre as [|p pre IH]; [reflexivity|]. cbn [length app upd_nth]. rewrite IH. reflexivity. }
  rewrite U. replace (S (length pre)) with (length (pre ++ [f x])) by (rewrite app_length; cbn; lia).
  rewrite IH, <- app_assoc. reflexivity.
Qed.

Theorem stop_jobs : forall c s, jobs (stop c s) = map (finish_job c) (jobs s).
Proof.
  intros c s. unfold stop.
  assert (G : forall l s0, jobs (fold_left (fun s' j => job_finish c j (job_start j s')) l s0) =
                           fold_left (fun l' j => upd_nth j (finish_job c) l') l (jobs s0)).
  { induction l as [|j l IH]; intro s0; [reflexivity|]. cbn [fold_left]. rewrite IH, jobs_start_finish. reflexivity. }
  rewrite G. exact (upd_all_map _ (finish_job c) (jobs s) []).
Qed.

(* after the stop path no pool item is waiting or running *)
Theorem stop_jobs_idle : forall c s, forallb job_idle (jobs (stop c s)) = true.
Proof.
  intros c s. rewrite stop_jobs. apply forallb_forall. intros jb H. apply in_map_iff in H. destruct H as (x & <- & _).
  unfold finish_job, job_idle. destruct (j_st x) eqn:St; cbn [j_st]; try reflexivity; rewrite St; reflexivity.
Qed.

Lemma no_wait_upd : forall c l j, forallb (fun jb => negb (j_wait jb)) l = true ->
    forallb (fun jb => negb (j_wait jb)) (upd_nth j (finish_job c) l) = true.
Proof.
  intros c l. induction l as [|y r IH]; intros j H; [destruct j; reflexivity|].
  cbn [forallb] in H. apply andb_true_iff in H. destruct H as [A B].
  destruct j as [|j]; cbn [upd_nth forallb]; apply andb_true_iff; split; auto.
  unfold finish_job, j_wait in *. destruct (j_st y) eqn:St; cbn [j_st]; try reflexivity; rewrite St; reflexivity.
Qed.

(* the stop path never rewrites the log: what it adds are the starts of pool items that were still
   queued (on the pool); with nothing queued the log is left as it is *)
Theorem stop_preserves_log : forall c s,
    (exists new, hlog (stop c s) = hlog s ++ new /\ Forall (fun h => h_site h = OnPool) new) /\
    (forallb (fun jb => negb (j_wait jb)) (jobs s) = true -> hlog (stop c s) = hlog s) /\
    ws (stop c s) = ws s /\ nmsg (stop c s) = nmsg s.
Proof.
  intros c s. unfold stop. generalize (seq 0 (length (jobs s))). intro l. revert s.
  induction l as [|j l IH]; intro s; cbn [fold_left].
  - repeat split; auto. exists []. rewrite app_nil_r. split; [reflexivity|constructor].
  - set (s1 := job_finish c j (job_start j s)). destruct (IH s1) as ((new & A & B) & C & D & E).
    destruct (step_log c s (JobStart j)) as (L1 & W1 & N1). destruct (step_log c (job_start j s) (JobFinish j)) as (L2 & W2 & N2).
    cbn [step new_log next_ws next_n] in L1, W1, N1, L2, W2, N2. rewrite app_nil_r in L2. fold s1 in L2, W2, N2.
    set (nl := match nth_error (jobs s) j with
               | Some jb => match j_st jb with JQueued => [hent OnPool (j_inv jb) (ws s)] | _ => [] end
               | None => [] end) in *.
    assert (Hn1 : Forall (fun h => h_site h = OnPool) nl).
    { unfold nl. destruct (nth_error (jobs s) j) as [jb|]; [|constructor]. destruct (j_st jb); constructor; [reflexivity|constructor]. }
    assert (Hn2 : forallb (fun jb => negb (j_wait jb)) (jobs s) = true -> nl = []).
    { intro Q. unfold nl. destruct (nth_error (jobs s) j) as [jb|] eqn:Ej; [|reflexivity].
      rewrite forallb_forall in Q. specialize (Q jb (nth_error_In _ _ Ej)). unfold j_wait in Q. destruct (j_st jb); try reflexivity. discriminate. }
    repeat split.
    + exists (nl ++ new). rewrite A, L2, L1, app_assoc. split; [reflexivity|]. apply Forall_app. split; assumption.
    + intro Q. rewrite C; [rewrite L2, L1, (Hn2 Q), app_nil_r; reflexivity|].
      unfold s1. rewrite jobs_start_finish. apply no_wait_upd, Q.
    + rewrite D, W2, W1. reflexivity.
    + rewrite E, N2, N1. reflexivity.
Qed.

(* with the pool idle, what has not started for a key whose loop tasks are through was cancelled
   before it started - and that only happens to request futures *)
Lemma unstarted_bound : forall s q, K s -> forallb job_idle (jobs s) = true ->
    Forall (fun tk => key_eqb q (ikey (t_inv tk)) = true -> task_idle tk = true) (tasks s) ->
    (unstarted q s <= cnt (t_key_req q) (tasks s) + cnt (j_key_req q) (jobs s))%nat.
Proof.
  intros s q (_ & K2 & K3) Q2 Q1. unfold unstarted. apply Nat.add_le_mono.
  - clear K3 Q2. induction (tasks s) as [|tk l IH]; [cbn; lia|]. inversion K2; subst. inversion Q1; subst.
    specialize (IH H2 H4). unfold cnt in *. cbn [filter]. unfold t_un at 1, t_key_req at 1.
    destruct (key_eqb q (ikey (t_inv tk))); cbn [andb]; [|exact IH]. specialize (H3 eq_refl).
    destruct (req_cb (t_cb tk)) eqn:R.
    + destruct (t_wait tk || t_drop tk); cbn [length]; lia.
    + unfold task_idle in H3. destruct (H1 R) as [X|(r & Hr & [X|X])]; unfold t_wait, t_drop; rewrite X in *; try discriminate.
      destruct r; try congruence; cbn; exact IH.
  - clear K2 Q1. induction (jobs s) as [|jb l IH]; [cbn; lia|]. inversion K3; subst.
    cbn [forallb] in Q2. apply andb_true_iff in Q2. destruct Q2 as [Q Q2]. specialize (IH H2 Q2).
    unfold cnt in *. cbn [filter]. unfold j_un at 1, j_key_req at 1.
    destruct (key_eqb q (ikey (j_inv jb))); cbn [andb]; [|exact IH].
    destruct (req_cb (j_cb jb)) eqn:R.
    + destruct (j_wait jb || j_drop jb); cbn [length]; lia.
    + unfold job_idle in Q. unfold j_wait, j_drop. specialize (H1 R). destruct (j_st jb); try discriminate; try congruence; cbn; exact IH.
Qed.

Lemma basesx_snoc_stop : forall evs, basesx (evs ++ [Stop]) = basesx evs.
Proof. intro evs. unfold basesx. rewrite flat_map_app. cbn. apply app_nil_r. Qed.

(* once each, over histories that end in the server's stop path: every handler that is not a request
   future and is not a loop task still on its way - every @thread handler of a notification or chained
   after a built-in in particular - has started exactly as often as the reference says when
   JsonRPCServer.shutdown() returns, whatever was still queued in the pool when it was called *)
Theorem once_after_stop : forall c evs n k p,
    let s := runx c (evs ++ [Stop]) in let ks := calls_of (basesx evs) in
    nth_error ks n = Some k -> fut_part c k p = false ->
    Forall (fun tk => key_eqb (n, p) (ikey (t_inv tk)) = true -> task_idle tk = true) (tasks s) ->
    started (n, p) s = owes c (spec_ws c (firstn n ks)) n k (n, p).
Proof.
  intros c evs n k p s ks Hk Hf Ht.
  destruct (runx_is_run c (evs ++ [Stop])) as (l & Hl & Hc). rewrite basesx_snoc_stop in Hc. fold ks in Hc. fold s in Hl.
  assert (Hj : forallb job_idle (jobs s) = true).
  { unfold s, runx. rewrite fold_left_app. cbn [fold_left stepx]. apply stop_jobs_idle. }
  pose proof (balance c l (n, p)) as B. rewrite <- Hl, Hc in B. unfold tot in B.
  pose proof (K_run c l) as HK. rewrite <- Hl in HK. destruct (M_run c l) as (M1 & M2 & _). rewrite <- Hl, Hc in M1, M2.
  pose proof (unstarted_bound s (n, p) HK Hj Ht) as U.
  rewrite (no_req_tasks c ks n k p _ Hk Hf M1), (no_req_jobs c ks n k p _ Hk Hf M2) in U.
  rewrite <- (owed_message c ks n k p Hk). lia.
Qed.

(* balance, at most once and built-in first hold of every history with stops *)
Theorem stop_history_invariants : forall c evs,
    let s := runx c evs in let ks := calls_of (basesx evs) in
    ordb (bset c) [] (hlog s) = true /\ (forall q, (started q s <= 1)%nat) /\ (forall q, tot q s = owed c w0 0 ks q).
Proof.
  intros c evs s ks. destruct (runx_is_run c evs) as (l & Hl & Hc). unfold s. rewrite Hl. unfold ks. rewrite <- Hc.
  split; [exact (proj1 (O_run c l))|]. split; [intro q; apply at_most_once|intro q; apply balance].
Qed.
