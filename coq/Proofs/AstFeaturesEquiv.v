(* The translated source of pygls/feature_manager.py (Gen/AstFeatures.v, regenerated from the source text by
   harness/gen_ast.py on every run):
   - get_help_attrs, is_thread_function and has_ls_param_or_annotation (inspect.signature, islice, next,
     typing.get_type_hints as oracles) compute what Model/Features.v / Model/Dispatch.v (has_ls_g) say;
   - the inner decorators of FeatureManager.feature and FeatureManager.command (lambda-lifted) make the
     model's checks IN THE MODEL'S ORDER - name validation, duplicate, options (get_method_options_type /
     is_instance as oracles) - raise the exception the model names while the registry is STILL UNCHANGED,
     and otherwise record assign_help_attrs(f) / wrap_with_server(f, server) / assign_help_attrs(wrapped) and
     write the registry dictionaries as Features.feature / Features.command do.
   NOT translated: the thread() decorator, wrap_with_server, assign_help_attrs, assign_thread_attr (they change
   attributes of function objects, which have identity; PyMini has values): the calls of the last three
   from the decorators are recorded in the ghost attribute "$log". *)
From Coq Require Import ZArith NArith List Bool String Ascii Lia ZifyBool ZifyN ZifyNat.
From Pygls Require Import Base.PyMini Base.PyMiniFacts Gen.AstFeatures.
From Pygls Require Model.Features Model.Dispatch.      (* qualified: their constructors Ok, VObj, call .. clash *)
Import ListNotations.
Open Scope string_scope.
Open Scope Z_scope.

(* ---------- how Python values stand for the model's data ---------- *)

Notation name := Features.name (only parsing).
Notation regtype := Features.regtype (only parsing).
Notation RFeature := Features.RFeature (only parsing).
Notation RCommand := Features.RCommand (only parsing).
Notation func := Features.func (only parsing).
Notation f_thread := Features.f_thread (only parsing).
Notation f_reg := Features.f_reg (only parsing).
Notation name_eqb := Features.name_eqb (only parsing).
Notation gsig := Dispatch.gsig (only parsing).
Notation g_first := Dispatch.g_first (only parsing).
Notation g_hints := Dispatch.g_hints (only parsing).
Notation has_ls_g := Dispatch.has_ls_g (only parsing).
Notation NoFirst := Features.NoFirst (only parsing).
Notation First := Features.First (only parsing).
Notation ANone := Features.ANone (only parsing).
Notation AServer := Features.AServer (only parsing).
Notation AOther := Features.AOther (only parsing).

Definition name_val (n : name) : val := match n with Some s => VStr s | None => VNone end.
Definition regtype_val (t : regtype) : val := VStr (match t with RFeature => c_feature | RCommand => c_command end).

(* a function object, as far as getattr can see the attributes pygls hangs on it *)
Definition func_val (f : func) : val :=
  VObj "function"
       ((if f_thread f then [("execute_in_thread", VBool true)] else []) ++
        (match f_reg f with
         | Some (t, n) => [("reg_name", name_val n); ("reg_type", regtype_val t)]
         | None => []
         end))%list.

Lemma str_eqb_same a b : PyMini.str_eqb a b = Features.str_eqb a b.
Proof. reflexivity. Qed.

Lemma name_val_eq a b : py_eq (name_val a) (name_val b) = name_eqb a b.
Proof. destruct a, b; reflexivity. Qed.

Lemma str_eqb_sym a : forall b, Features.str_eqb a b = Features.str_eqb b a.
Proof.
  induction a as [|x r IH]; destruct b; try reflexivity. cbn [Features.str_eqb]. rewrite IH, N.eqb_sym. reflexivity.
Qed.

Lemma name_eqb_sym a b : name_eqb a b = name_eqb b a.
Proof. destruct a, b; try reflexivity. apply str_eqb_sym. Qed.

Lemma py_strip_same s : PyMini.py_strip s = Features.py_strip s.
Proof. reflexivity. Qed.

(* ---------- is_thread_function, get_help_attrs ---------- *)

Theorem ast_is_thread_function_equiv f d fn : (1 <= d)%nat ->
  PyMini.run prog f d ["is_thread_function"] None [func_val fn] = Ok (VBool (f_thread fn)).
Proof.
  intros Hd. destruct d as [|d]; [lia|]. unfold PyMini.run. enter f_is_thread_function.
  unfold run_fun, f_is_thread_function, func_val.
  destruct (f_thread fn); destruct (f_reg fn) as [[t n]|]; pysimp; reflexivity.
Qed.

Theorem ast_get_help_attrs_equiv f d fn : (1 <= d)%nat ->
  PyMini.run prog f d ["get_help_attrs"] None [func_val fn] =
  Ok (VTuple (match f_reg fn with
              | Some (t, n) => [name_val n; regtype_val t]
              | None => [VNone; VNone]
              end)).
Proof.
  intros Hd. destruct d as [|d]; [lia|]. unfold PyMini.run. enter f_get_help_attrs.
  unfold run_fun, f_get_help_attrs, func_val.
  destruct (f_thread fn); destruct (f_reg fn) as [[t n]|]; pysimp; reflexivity.
Qed.

(* ---------- has_ls_param_or_annotation ---------- *)

(* what the library calls answer for a callable whose visible signature is g (Model/Dispatch.v: gsig):
   inspect.signature(f) (raising counts as "no first parameter"), .parameters.values(), islice, next
   (StopIteration when there is no parameter), typing.get_type_hints(f) (raising when g_hints is false),
   and the hint of the first parameter compared with `annotation` *)
Definition sig_oracle (call : callT) (g : gsig) (fv ann : val) : Prop :=
  match g_first g with
  | NoFirst =>
    (exists k, call ["inspect"; "signature"] (Some (VGlobal ["inspect"])) [fv] [] = Raise k) \/
    (exists pf vals it k,
        call ["inspect"; "signature"] (Some (VGlobal ["inspect"])) [fv] [] =
          Ok (VObj "Signature" [("parameters", VObj "mappingproxy" pf)]) /\
        call ["mappingproxy"; "values"] (Some (VObj "mappingproxy" pf)) [] [] = Ok vals /\
        call ["itertools"; "islice"] (Some (VGlobal ["itertools"])) [vals; VInt 0; VInt 1] [] = Ok it /\
        call ["next"] None [it] [] = Raise k)
  | First is_ls a =>
    exists pf vals it nm,
      call ["inspect"; "signature"] (Some (VGlobal ["inspect"])) [fv] [] =
        Ok (VObj "Signature" [("parameters", VObj "mappingproxy" pf)]) /\
      call ["mappingproxy"; "values"] (Some (VObj "mappingproxy" pf)) [] [] = Ok vals /\
      call ["itertools"; "islice"] (Some (VGlobal ["itertools"])) [vals; VInt 0; VInt 1] [] = Ok it /\
      call ["next"] None [it] [] = Ok (VObj "Parameter" [("name", VStr nm)]) /\
      PyMini.str_eqb nm c_ls = is_ls /\
      (is_ls = false ->
         if g_hints g then
           exists hints, call ["get_type_hints"] None [fv] [] = Ok (mk_dict hints) /\
             match a with
             | ANone => dict_get (VStr nm) hints = None
             | AServer => exists h, dict_get (VStr nm) hints = Some h /\ py_eq h ann = true
             | AOther => exists h, dict_get (VStr nm) hints = Some h /\ py_eq h ann = false
             end
         else exists k, call ["get_type_hints"] None [fv] [] = Raise k)
  end.

Lemma exn_in_any k : exn_in k [ExcAny] = true.
Proof. destruct k; reflexivity. Qed.

Theorem ast_has_ls_equiv call f g fv ann : sig_oracle call g fv ann ->
  run_fun call f f_has_ls_param_or_annotation None [fv; ann] [] = Ok (VBool (has_ls_g g)).
Proof.
  intros Ho. unfold sig_oracle in Ho. unfold run_fun, f_has_ls_param_or_annotation, has_ls_g. pybind.
  destruct (g_first g) as [|is_ls a].
  - destruct Ho as [[k Hs]|(pf & vals & it & k & Hs & Hv & Hi & Hn)].
    + pystep. rewrite Hs. destruct k; pysimp; reflexivity.
    + pystep. rewrite Hs. pyexpr. rewrite Hv. pyexpr. rewrite Hi. pyexpr. rewrite Hn.
      destruct k; pysimp; reflexivity.
  - destruct Ho as (pf & vals & it & nm & Hs & Hv & Hi & Hn & Hls & Hh).
    pystep. rewrite Hs. pyexpr. rewrite Hv. pyexpr. rewrite Hi. pyexpr. rewrite Hn. pyexpr.
    change (PyMini.str_eqb nm [108; 115]%N) with (PyMini.str_eqb nm c_ls). rewrite Hls.
    destruct is_ls; pyexpr; [reflexivity|]. specialize (Hh eq_refl).
    destruct (g_hints g).
    + destruct Hh as (hints & Hg & Ha). rewrite Hg. pyexpr. unfold py_subscript, mk_dict. pyexpr.
      destruct a.
      * rewrite Ha. pysimp. reflexivity.
      * destruct Ha as (h & Ha & He). rewrite Ha. pyexpr. rewrite He. pysimp. reflexivity.
      * destruct Ha as (h & Ha & He). rewrite Ha. pyexpr. rewrite He. pysimp. reflexivity.
    + destruct Hh as (k & Hg). rewrite Hg. destruct k; pysimp; reflexivity.
Qed.

(* ---------- the registry dictionaries ---------- *)

(* a dictionary of the FeatureManager and a table of the model: the same names in the same order
   (what is stored under a name - a callable, an options object - has identity and is not compared) *)
Definition tbl_rel {V} (items : list val) (tbl : list (name * V)) : Prop :=
  Forall2 (fun it kv => exists v, it = VTuple [name_val (fst kv); v]) items tbl.

Lemma rel_get {V} n items (tbl : list (name * V)) : tbl_rel items tbl ->
  match dict_get (name_val n) items, Features.aget n tbl with
  | Some _, Some _ | None, None => True
  | _, _ => False
  end.
Proof.
  induction 1 as [|it [k w] items' tbl' [v ->] _ IH]; [exact I|].
  cbn [dict_get Features.aget fst]. rewrite name_val_eq, name_eqb_sym.
  destruct (name_eqb n k); [exact I | exact IH].
Qed.

Lemma rel_mem {V} n items (tbl : list (name * V)) : tbl_rel items tbl ->
  dict_mem (name_val n) items = Features.amem n tbl.
Proof.
  intros H. pose proof (rel_get n items tbl H) as G. unfold dict_mem, Features.amem.
  destruct (dict_get (name_val n) items), (Features.aget n tbl); tauto.
Qed.

Lemma rel_upd {V} n v (w : V) items (tbl : list (name * V)) : tbl_rel items tbl ->
  tbl_rel (dict_upd (name_val n) v items) (Features.aset n w tbl) \/ Features.amem n tbl = false.
Proof.
  induction 1 as [|it [k x] items' tbl' [y ->] Hr IH].
  - right. reflexivity.
  - cbn [dict_upd Features.aset fst]. rewrite name_val_eq, (name_eqb_sym k n).
    unfold Features.amem. cbn [Features.aget]. destruct (name_eqb n k) eqn:E.
    + left. constructor; [eexists; reflexivity|].
      (* the rest: same names, whatever is updated again *)
      clear IH. induction Hr as [|it2 [k2 x2] i2 t2 [y2 ->] _ IH2]; [constructor|].
      cbn [dict_upd fst]. destruct (py_eq (name_val k2) (name_val n)); constructor; try (eexists; reflexivity); exact IH2.
    + destruct IH as [IH|IH].
      * left. constructor; [eexists; reflexivity | exact IH].
      * right. exact IH.
Qed.

Lemma aset_notmem {V} n (w : V) tbl : Features.amem n tbl = false -> Features.aset n w tbl = (tbl ++ [(n, w)])%list.
Proof.
  unfold Features.amem. induction tbl as [|[k x] r IH]; intros H; [reflexivity|].
  cbn [Features.aget Features.aset app] in *. destruct (name_eqb n k); [discriminate|]. f_equal. apply IH, H.
Qed.

Lemma rel_app {V} n v (w : V) items (tbl : list (name * V)) : tbl_rel items tbl ->
  tbl_rel (items ++ [VTuple [name_val n; v]])%list (tbl ++ [(n, w)])%list.
Proof.
  intros H. apply Forall2_app; [exact H|]. constructor; [eexists; reflexivity | constructor].
Qed.

(* d[n] = v *)
Lemma rel_set {V} n v (w : V) items (tbl : list (name * V)) : tbl_rel items tbl ->
  tbl_rel (dict_set (name_val n) v items) (Features.aset n w tbl).
Proof.
  intros H. unfold dict_set. rewrite (rel_mem n items tbl H).
  destruct (Features.amem n tbl) eqn:E.
  - destruct (rel_upd n v w items tbl H) as [G|G]; [exact G | congruence].
  - rewrite (aset_notmem n w tbl E). apply rel_app, H.
Qed.

(* a FeatureManager: the three registry dictionaries, server, converter, and the log of recorded calls *)
Definition fm_val (fi ci oi : list val) (srv conv : val) (log : list val) : val :=
  VObj "FeatureManager" [("_features", mk_dict fi); ("_commands", mk_dict ci); ("_feature_options", mk_dict oi);
                         ("server", srv); ("converter", conv); ("$log", VList log)].

Definition exn_of (e : Features.err) : exn :=
  match e with
  | Features.EValidation => ExcUser "ValidationError"
  | Features.EDuplicate => ExcUser "FeatureAlreadyRegisteredError"
  | Features.EOptions => TypeError
  | Features.EMethodType => ExcUser "MethodTypeNotRegisteredError"
  | _ => ExcOther
  end.

Lemma str_eqb_nil x : PyMini.str_eqb x [] = match x with [] => true | _ => false end.
Proof. destruct x; reflexivity. Qed.

(* `name is None or name.strip() == ""` *)
Lemma name_invalid_val n :
  (match n with Some s => PyMini.str_eqb (PyMini.py_strip s) [] | None => true end) = Features.name_invalid n.
Proof. destruct n as [s|]; [|reflexivity]. cbn [Features.name_invalid]. rewrite str_eqb_nil. reflexivity. Qed.

(* ---------- FeatureManager.feature(feature_name, options)(f) ---------- *)

(* what pygls.lsp answers for the options argument o of the model (lsprotocol / cattrs are an oracle):
   get_method_options_type(name) raises / returns None / returns a type; is_instance(converter, options,
   type) is True / False / raises something else; type() and format() for the error message *)
Definition opt_oracle (call : callT) (conv : val) (n : name) (ov : val) (o : Features.optarg) : Prop :=
  match o with
  | Features.ONone => ov = VNone
  | Features.OObj _ t _ chk =>
    truthy ov = t /\
    (t = true ->
     match chk with
     | Features.CkUnknownMethod =>
       call ["get_method_options_type"] None [name_val n] [] = Raise (ExcUser "MethodTypeNotRegisteredError")
     | Features.CkNoType => call ["get_method_options_type"] None [name_val n] [] = Ok VNone
     | Features.CkValid =>
       exists otv, call ["get_method_options_type"] None [name_val n] [] = Ok otv /\ truthy otv = true /\
                   call ["is_instance"] None [conv; ov; otv] [] = Ok (VBool true)
     | Features.CkWrong =>
       (* the options type and type(options) are classes, not strs: the message formats them *)
       exists oc ofs tc tf s1 s2,
         let otv := VObj oc ofs in let tyv := VObj tc tf in
         call ["get_method_options_type"] None [name_val n] [] = Ok otv /\
         call ["is_instance"] None [conv; ov; otv] [] = Ok (VBool false) /\
         call ["type"] None [ov] [] = Ok tyv /\
         call ["format"] None [tyv] [] = Ok (VStr s1) /\ call ["format"] None [otv] [] = Ok (VStr s2)
     | Features.CkRaises =>
       exists otv, call ["get_method_options_type"] None [name_val n] [] = Ok otv /\ truthy otv = true /\
                   call ["is_instance"] None [conv; ov; otv] [] = Raise ExcOther
     end)
  end.

(* the environment in which the body of the (lambda-lifted) inner decorator runs *)
Definition feature_env (selfv nv ov fv : val) : list (string * val) :=
  [("f", fv); ("options", ov); ("feature_name", nv); ("self", selfv)].

Lemma feature_env_bind selfv nv ov fv :
  bind_params (fparams f_feature_decorator) [selfv; nv; ov; fv] [] [] = Ok (feature_env selfv nv ov fv).
Proof. reflexivity. Qed.

Definition assign_entry (target : val) (n : name) (t : regtype) : val :=
  VTuple [VGlobal ["assign_help_attrs"]; VList [target; name_val n; regtype_val t]].
Definition wrap_entry (fv srv : val) : val := VTuple [VGlobal ["wrap_with_server"]; VList [fv; srv]].
(* what wrap_with_server(f, server) returned: the token of the second recorded call *)
Definition wrapped_val (log : list val) : val := VObj "Result" [("n", VInt (Z.of_N (len log + 1)))].

(* the body, statement by statement: two guards, the options block, then the writes *)
Definition fd_body : list stmt := fbody f_feature_decorator.
Definition fd_st (k : nat) : stmt := nth k fd_body SPass.
Lemma fd_split : fd_body = (fd_st 0 :: fd_st 1 :: fd_st 2 :: skipn 3 fd_body).
Proof. reflexivity. Qed.

(* what the statements need of the environment *)
Definition fenv (env : list (string * val)) (selfv nv ov fv : val) : Prop :=
  get "self" env = Some selfv /\ get "feature_name" env = Some nv /\ get "options" env = Some ov /\
  get "f" env = Some fv.

Section FeatureDecorator.
Variables (call : callT) (f : nat) (fi ci oi : list val) (srv conv : val) (log : list val).
Variables (n : name) (ov fv : val).
Let FM := fm_val fi ci oi srv conv log.

(* 1: if feature_name is None or feature_name.strip() == "" *)
Lemma fd_guard_name env : fenv env FM (name_val n) ov fv ->
  exec call f env (fd_st 0) =
  if Features.name_invalid n then ORaise (ExcUser "ValidationError") env else ONormal env.
Proof.
  intros (G1 & G2 & G3 & G4). unfold fd_st, fd_body, f_feature_decorator. cbn [fbody nth].
  rewrite <- name_invalid_val.
  match goal with |- exec ?c ?f0 ?e ?s0 = _ =>
    let t := eval cbn [exec_block exec exec_atomic eval apply_global global_method get set path_eqb snoc truthy py_compare py_eq
                       PyMini.is_none String.eqb Ascii.eqb Bool.eqb orb andb negb] in (exec c f0 e s0) in
    change (exec c f0 e s0) with t end.
  rewrite G2. destruct n as [s|]; cbn [name_val]; pyexpr; [|reflexivity].
  destruct (PyMini.str_eqb (PyMini.py_strip s) []); reflexivity.
Qed.

(* 2: if feature_name in self._features *)
Lemma fd_guard_dup env : fenv env FM (name_val n) ov fv ->
  exec call f env (fd_st 1) =
  if dict_mem (name_val n) fi then ORaise (ExcUser "FeatureAlreadyRegisteredError") env else ONormal env.
Proof.
  intros (G1 & G2 & G3 & G4). unfold fd_st, fd_body, f_feature_decorator. cbn [fbody nth].
  match goal with |- exec ?c ?f0 ?e ?s0 = _ =>
    let t := eval cbn [exec_block exec exec_atomic eval apply_global global_method get set path_eqb snoc truthy py_compare
                       String.eqb Ascii.eqb Bool.eqb orb andb negb] in (exec c f0 e s0) in
    change (exec c f0 e s0) with t end.
  rewrite G1, G2. unfold FM, fm_val. pyexpr. destruct (dict_mem (name_val n) fi); pyexpr; rewrite ?G2; reflexivity.
Qed.
End FeatureDecorator.

(* evaluate the statement under `exec` in the goal *)
Ltac pyexec :=
  match goal with |- context[exec ?c ?f0 ?e ?s0] =>
    let t := eval cbn [exec_block exec exec_atomic eval apply_global global_method obj_method obj_mutator log_effect dict_items mk_dict
                       construct ctor_check ctor_default is_init fqual
                       get set mem_str path_eqb snoc as_int truthy b2z py_binop py_compare py_eq PyMini.is_none
                       py_getattr global_const ctor_table builtin str_method bind_names set_field exn_in bound_of py_slice
                       slice_list String.eqb Ascii.eqb Bool.eqb map fst snd forallb rev app andb orb negb]
             in (exec c f0 e s0) in
    change (exec c f0 e s0) with t end.

Ltac envs := pyexpr; repeat (progress use_env; unfold fm_val; pyexpr).

Lemma exec_if call f env c a b :
  exec call f env (SIf c a b) =
  match eval call env c with
  | Ok v => if truthy v then exec_block call f env a else exec_block call f env b
  | Raise k => ORaise k env | Stuck w => OStuck w
  end.
Proof. reflexivity. Qed.

Section FeatureDecorator2.
Variables (call : callT) (f : nat) (fi ci oi : list val) (srv conv : val) (log : list val).
Variables (s : list N) (ov fv : val).
Let n : name := Some s.
Let FM := fm_val fi ci oi srv conv log.

(* 3: the options block.  It raises what the model's options_check says, or goes on; it writes nothing *)
Lemma fd_options env o : fenv env FM (name_val n) ov fv -> opt_oracle call conv n ov o ->
  match Features.options_check o with
  | Some e => exists env', exec call f env (fd_st 2) = ORaise (exn_of e) env' /\ get "self" env' = Some FM
  | None => exists env', exec call f env (fd_st 2) = ONormal env' /\ fenv env' FM (name_val n) ov fv
  end /\ truthy ov = Features.opt_truthy o.
Proof.
  intros (G1 & G2 & G3 & G4) Hor. unfold fd_st, fd_body, f_feature_decorator. cbn [fbody nth].
  unfold Features.options_check, opt_oracle in *. unfold n, FM in *. cbn [name_val] in *.
  rewrite exec_if. cbn [eval]. rewrite G3.
  destruct o as [|oid t nominal chk].
  - subst ov. split; [|reflexivity]. cbn [Features.opt_truthy truthy]. eexists. split; [reflexivity|].
    repeat split; assumption.
  - destruct Hor as [Ht Hc]. split; [|exact Ht]. cbn [Features.opt_truthy]. rewrite Ht.
    destruct t.
    2: { eexists. split; [reflexivity|]. repeat split; assumption. }
    specialize (Hc eq_refl).
    destruct chk.
    + (* no options type *)
      pystep_env. rewrite Hc. cbv beta iota. pystep_env. pyfinish.
      eexists. split; [reflexivity|]. repeat split; pyexpr; assumption.
    + (* valid *) destruct Hc as (otv & H1 & H2 & H3).
      pystep_env. rewrite H1. cbv beta iota. pystep_env. rewrite H2. unfold fm_val. pyexpr. rewrite H3. pyexpr. pyfinish.
      eexists. split; [reflexivity|]. repeat split; pyexpr; assumption.
    + (* wrong type: TypeError *)
      destruct Hc as (oc & ofs & tc & tf & s1 & s2 & H1 & H3 & H4 & H5 & H6). cbv zeta in *.
      pystep_env. rewrite H1. cbv beta iota. pystep_env. unfold fm_val. pyexpr. rewrite H3. pyexpr.
      repeat (progress use_env; pyexpr). rewrite H4. pyexpr. rewrite H5. pyexpr. rewrite H6. pyexpr.
      eexists. split; [reflexivity|]. pyexpr. exact G1.
    + (* unknown method: get_method_options_type raises *)
      pystep_env. rewrite Hc. cbv beta iota. eexists. split; [reflexivity | exact G1].
    + (* is_instance raises *)
      destruct Hc as (otv & H1 & H2 & H3).
      pystep_env. rewrite H1. cbv beta iota. pystep_env. rewrite H2. unfold fm_val. pyexpr. rewrite H3. pyexpr.
      eexists. split; [reflexivity|]. pyexpr. exact G1.
Qed.
End FeatureDecorator2.

Section FeatureDecorator3.
Variables (call : callT) (f : nat) (fi ci oi : list val) (srv conv : val) (log : list val).
Variables (n : name) (ov fv : val).
Let FM := fm_val fi ci oi srv conv log.

(* 4..: the recorded calls, the registry writes, `return f` *)
Lemma fd_tail env : fenv env FM (name_val n) ov fv -> dict_mem (name_val n) fi = false ->
  exec_block call f env (skipn 3 fd_body) =
  OReturn (VTuple [fv; fm_val (fi ++ [VTuple [name_val n; wrapped_val log]]) ci
                              (if truthy ov then dict_set (name_val n) ov oi else oi) srv conv
                              (log ++ [assign_entry fv n RFeature; wrap_entry fv srv;
                                       assign_entry (wrapped_val log) n RFeature])]).
Proof.
  intros (G1 & G2 & G3 & G4) Hm. unfold fd_body, f_feature_decorator, FM, fm_val in *. cbn [fbody skipn].
  pystep_env. pystep_env. pystep_env. pystep_env.
  unfold dict_set. rewrite Hm.
  pystep_env.
  assert (len (log ++ [VTuple [VGlobal ["assign_help_attrs"]; VList [fv; name_val n; VStr c_feature]]]) = (len log + 1)%N) as Hl
    by (rewrite len_app; reflexivity).
  destruct (truthy ov); cbv beta iota; pystep_env; pystep_env; rewrite ?Hl;
    unfold assign_entry, wrap_entry, wrapped_val, regtype_val; rewrite <- ?app_assoc; reflexivity.
Qed.
End FeatureDecorator3.

(* ---------- the theorem for feature() ---------- *)

Theorem ast_feature_decorator_equiv call f r fi ci oi srv conv log (s : list N) o fn fv ov :
  let n : name := Some s in
  tbl_rel fi (Features.features r) -> tbl_rel oi (Features.feature_options r) -> opt_oracle call conv n ov o ->
  let out := exec_block call f (feature_env (fm_val fi ci oi srv conv log) (name_val n) ov fv) fd_body in
  match Features.feature r n o fn with
  | (r', _, Features.Ok) =>
    exists fi' oi',
      out = OReturn (VTuple [fv; fm_val fi' ci oi' srv conv
                                   (log ++ [assign_entry fv n RFeature; wrap_entry fv srv;
                                            assign_entry (wrapped_val log) n RFeature])]) /\
      fi' = (fi ++ [VTuple [name_val n; wrapped_val log]])%list /\
      tbl_rel fi' (Features.features r') /\ tbl_rel oi' (Features.feature_options r')
  | (r', _, Features.Error e) =>
    (* the exception the model names, and NOTHING has been written or recorded yet *)
    r' = r /\ exists env', out = ORaise (exn_of e) env' /\
                           get "self" env' = Some (fm_val fi ci oi srv conv log)
  end.
Proof.
  intros n Hf Ho Hor out.
  assert (fenv (feature_env (fm_val fi ci oi srv conv log) (name_val n) ov fv)
               (fm_val fi ci oi srv conv log) (name_val n) ov fv) as He by (repeat split; reflexivity).
  unfold out. rewrite fd_split, exec_block_cons.
  rewrite (fd_guard_name call f fi ci oi srv conv log n ov fv _ He).
  unfold Features.feature. destruct (Features.name_invalid n).
  { split; [reflexivity|]. eexists. split; [reflexivity | apply He]. }
  rewrite exec_block_cons, (fd_guard_dup call f fi ci oi srv conv log n ov fv _ He).
  rewrite (rel_mem n fi _ Hf). destruct (Features.amem n (Features.features r)) eqn:Em.
  { split; [reflexivity|]. eexists. split; [reflexivity | apply He]. }
  rewrite exec_block_cons.
  destruct (fd_options call f fi ci oi srv conv log s ov fv _ o He Hor) as [Hopt Htr].
  destruct (Features.options_check o) as [e|].
  { destruct Hopt as (env' & -> & Hs). split; [reflexivity|]. eexists. split; [reflexivity | exact Hs]. }
  destruct Hopt as (env' & -> & He').
  rewrite (fd_tail call f fi ci oi srv conv log n ov fv env' He') by (rewrite (rel_mem n fi _ Hf); exact Em).
  eexists. eexists. split; [reflexivity|]. split; [reflexivity|]. rewrite Htr.
  destruct (Features.opt_truthy o); cbn [Features.features Features.feature_options]; split.
  - rewrite (aset_notmem _ _ _ Em). apply rel_app, Hf.
  - apply rel_set, Ho.
  - rewrite (aset_notmem _ _ _ Em). apply rel_app, Hf.
  - exact Ho.
Qed.

(* ---------- FeatureManager.command(command_name)(f) ---------- *)

Definition command_env (selfv nv fv : val) : list (string * val) :=
  [("f", fv); ("command_name", nv); ("self", selfv)].

Lemma command_env_bind selfv nv fv :
  bind_params (fparams f_command_decorator) [selfv; nv; fv] [] [] = Ok (command_env selfv nv fv).
Proof. reflexivity. Qed.

Definition cd_body : list stmt := fbody f_command_decorator.

Definition exn_of_command (e : Features.err) : exn :=
  match e with
  | Features.EDuplicate => ExcUser "CommandAlreadyRegisteredError"
  | e => exn_of e
  end.

Theorem ast_command_decorator_equiv call f r fi ci oi srv conv log (n : name) fn fv :
  tbl_rel ci (Features.commands r) ->
  let out := exec_block call f (command_env (fm_val fi ci oi srv conv log) (name_val n) fv) cd_body in
  match Features.command r n fn with
  | (r', _, Features.Ok) =>
    exists ci',
      out = OReturn (VTuple [fv; fm_val fi ci' oi srv conv
                                   (log ++ [assign_entry fv n RCommand; wrap_entry fv srv;
                                            assign_entry (wrapped_val log) n RCommand])]) /\
      ci' = (ci ++ [VTuple [name_val n; wrapped_val log]])%list /\ tbl_rel ci' (Features.commands r')
  | (r', _, Features.Error e) =>
    r' = r /\ exists env', out = ORaise (exn_of_command e) env' /\
                           get "self" env' = Some (fm_val fi ci oi srv conv log)
  end.
Proof.
  intros Hc out. unfold out, cd_body, f_command_decorator, command_env, fm_val, Features.command. cbn [fbody].
  (* if command_name is None or command_name.strip() == "" *)
  pystep. rewrite <- name_invalid_val.
  destruct n as [s|]; cbn [name_val]; pyexpr.
  2: { split; [reflexivity|]. eexists. split; [reflexivity|]. reflexivity. }
  destruct (PyMini.str_eqb (PyMini.py_strip s) []).
  { split; [reflexivity|]. eexists. split; [reflexivity|]. reflexivity. }
  (* if command_name in self._commands *)
  cbv beta iota. pystep. change (VStr s) with (name_val (Some s)). rewrite (rel_mem (Some s) ci _ Hc).
  destruct (Features.amem (Some s) (Features.commands r)) eqn:Em.
  { split; [reflexivity|]. eexists. split; [reflexivity|]. reflexivity. }
  cbv beta iota. pystep. pystep. pystep. pystep.
  unfold dict_set. cbn [name_val]. change (VStr s) with (name_val (Some s)).
  rewrite (rel_mem (Some s) ci _ Hc), Em. pystep. pystep.
  assert (len (log ++ [VTuple [VGlobal ["assign_help_attrs"]; VList [fv; name_val (Some s); VStr c_command]]]) = (len log + 1)%N) as Hl
    by (rewrite len_app; reflexivity).
  eexists. split; [|split; [reflexivity|]].
  - cbn [name_val] in *. rewrite ?Hl. unfold assign_entry, wrap_entry, wrapped_val, regtype_val. cbn [name_val].
    rewrite <- ?app_assoc. reflexivity.
  - cbn [Features.commands]. rewrite (aset_notmem _ _ _ Em). apply rel_app, Hc.
Qed.

(* ---------- feature() / command() themselves: they only build the closure ---------- *)

Theorem ast_feature_outer_equiv f d selfv nv ov : (1 <= d)%nat ->
  (exists c fl, selfv = VObj c fl) ->
  PyMini.run prog f d ["FeatureManager"; "feature"] (Some selfv) [nv; ov] =
  Ok (VTuple [VObj "closure" [("$fn", VGlobal ["FeatureManager"; "feature"; "decorator"]); ("self", selfv);
                              ("feature_name", nv); ("options", ov)]; selfv]).
Proof.
  intros Hd (c & fl & ->). destruct d as [|d]; [lia|]. unfold PyMini.run. enter f_feature.
  unfold run_fun, f_feature. pysimp. reflexivity.
Qed.

(* in one statement (one `Print Assumptions` per run) *)
Definition ast_features_equiv_statement : Prop :=
  (forall f d fn, (1 <= d)%nat ->
     PyMini.run prog f d ["is_thread_function"] None [func_val fn] = Ok (VBool (f_thread fn))) /\
  (forall f d fn, (1 <= d)%nat ->
     PyMini.run prog f d ["get_help_attrs"] None [func_val fn] =
     Ok (VTuple (match f_reg fn with Some (t, n) => [name_val n; regtype_val t] | None => [VNone; VNone] end))) /\
  (forall call f g fv ann, sig_oracle call g fv ann ->
     run_fun call f f_has_ls_param_or_annotation None [fv; ann] [] = Ok (VBool (has_ls_g g))) /\
  (forall call f r fi ci oi srv conv log (s : list N) o fn fv ov,
     tbl_rel fi (Features.features r) -> tbl_rel oi (Features.feature_options r) ->
     opt_oracle call conv (Some s) ov o ->
     let out := exec_block call f (feature_env (fm_val fi ci oi srv conv log) (VStr s) ov fv) fd_body in
     match Features.feature r (Some s) o fn with
     | (r', _, Features.Ok) =>
       exists fi' oi',
         out = OReturn (VTuple [fv; fm_val fi' ci oi' srv conv
                                      (log ++ [assign_entry fv (Some s) RFeature; wrap_entry fv srv;
                                               assign_entry (wrapped_val log) (Some s) RFeature])]) /\
         fi' = (fi ++ [VTuple [VStr s; wrapped_val log]])%list /\
         tbl_rel fi' (Features.features r') /\ tbl_rel oi' (Features.feature_options r')
     | (r', _, Features.Error e) =>
       r' = r /\ exists env', out = ORaise (exn_of e) env' /\ get "self" env' = Some (fm_val fi ci oi srv conv log)
     end) /\
  (forall call f r fi ci oi srv conv log (n : name) fn fv,
     tbl_rel ci (Features.commands r) ->
     let out := exec_block call f (command_env (fm_val fi ci oi srv conv log) (name_val n) fv) cd_body in
     match Features.command r n fn with
     | (r', _, Features.Ok) =>
       exists ci',
         out = OReturn (VTuple [fv; fm_val fi ci' oi srv conv
                                      (log ++ [assign_entry fv n RCommand; wrap_entry fv srv;
                                               assign_entry (wrapped_val log) n RCommand])]) /\
         ci' = (ci ++ [VTuple [name_val n; wrapped_val log]])%list /\ tbl_rel ci' (Features.commands r')
     | (r', _, Features.Error e) =>
       r' = r /\ exists env', out = ORaise (exn_of_command e) env' /\
                              get "self" env' = Some (fm_val fi ci oi srv conv log)
     end).

Theorem ast_features_equiv : ast_features_equiv_statement.
Proof.
  unfold ast_features_equiv_statement. repeat match goal with |- _ /\ _ => split end; intros.
  - apply ast_is_thread_function_equiv; assumption.
  - apply ast_get_help_attrs_equiv; assumption.
  - apply ast_has_ls_equiv; assumption.
  - apply (ast_feature_decorator_equiv call f r fi ci oi srv conv log s o fn fv ov); assumption.
  - apply (ast_command_decorator_equiv call f r fi ci oi srv conv log n fn fv); assumption.
Qed.

(* non-vacuity: an oracle for options of the wrong type; the registration raises TypeError and the registry
   is still empty (the defect of row 1 - the entry written before the check - would leave it there);
   without options the same registration goes through *)
Definition demo_call : callT := fun q _ _ _ =>
  if path_eqb q ["get_method_options_type"] then Ok (VObj "type" [("name", VStr [79%N])])
  else if path_eqb q ["is_instance"] then Ok (VBool false)
  else if path_eqb q ["type"] then Ok (VObj "type" [])
  else if path_eqb q ["format"] then Ok (VStr [63%N])
  else Stuck "not callable".

Example ast_features_example :
  let fm := fm_val [] [] [] VNone VNone [] in
  let fv := VObj "function" [] in
  opt_oracle demo_call VNone (Some [120%N]) (VObj "Opts" []) (Features.OObj 1 true false Features.CkWrong) /\
  match exec_block demo_call 0 (feature_env fm (VStr [120%N]) (VObj "Opts" []) fv) fd_body with
  | ORaise TypeError env' => get "self" env' = Some fm
  | _ => False
  end /\
  exec_block demo_call 0 (feature_env fm (VStr [120%N]) VNone fv) fd_body =
    OReturn (VTuple [fv; fm_val [VTuple [VStr [120%N]; wrapped_val []]] [] [] VNone VNone
                              [assign_entry fv (Some [120%N]) RFeature; wrap_entry fv VNone;
                               assign_entry (wrapped_val []) (Some [120%N]) RFeature]]).
Proof.
  cbv zeta. split; [|split].
  - cbn [opt_oracle]. split; [reflexivity|]. intros _.
    exists "type", [("name", VStr [79%N])], "type", [], [63%N], [63%N]. cbv zeta. repeat split; reflexivity.
  - vm_compute. reflexivity.
  - vm_compute. reflexivity.
Qed.
