(* Proofs/C09Proofs.v - shutdown closes the door; exit reports whether it was closed.

   All results are about Model/Endpoint.v (`step`, `run`) for EVERY configuration unless a
   hypothesis says otherwise, and for every event list.

   Part 1  frame relations: what each function of the model can change (`K`: transport side,
           `IO`: nothing of the handler tables, `H w`: only handlers of the message `w` are added)
   Part 2  the shutdown flag as a function of the frames (`shutdown_step`, guard-free)
   Part 3  exit status: invariant tying `exit`, the queued closes and the flag to the reference
           `x_run` of Spec/ShutdownSpec.v; `exit_status`
   Part 4  the shutdown event: `shutdown_reply_null`, `shutdown_requests_cancel`,
           `queued_job_answered_cancelled`
   Part 5  the gate: `gate_recv`, `gate_step`, `gate_after_shutdown`
   Part 6  `pending_still_answered_once` (from C01's balance invariant), `exit_keeps_replies`
   Part 7  `cancelled_unstarted_never_starts`: a request coroutine that cancel() found unstarted is never
           entered, over every continuation (`DR_step`) *)
From Coq Require Import ZArith NArith List Bool Lia Arith.
From Pygls Require Import Base.Assoc Model.Endpoint Model.ExitWrappers Spec.EndpointSpec Spec.ShutdownSpec
  Proofs.EndpointInv Proofs.C01Proofs.
Import ListNotations.

Ltac projin HH := cbn [shutdown futs rtypes tasks jobs wq outg out hlog errs nwrites closed exitq exit storm undef
                  set_shutdown set_futs set_rtypes set_tasks set_jobs set_wq set_outg set_out set_hlog set_errs
                  set_nwrites set_closed set_exitq set_exit set_storm set_undef] in HH.
Ltac spl := match goal with |- _ /\ _ => split end.

(* ================================================================== Part 1: frame relations *)
Definition wgrow (c : cfg) (s s' : st) : Prop :=
  exists l, wq s' = wq s ++ l /\ forallb is_frame l = true /\ (c_writer c = WBlocking -> l = []).
Definition ogrow (s s' : st) : Prop := exists o, out s' = out s ++ o.

Lemma wgrow_refl : forall c s, wgrow c s s.
Proof. intros. exists []. rewrite app_nil_r. repeat spl; auto. Qed.

Lemma wgrow_eq : forall c s s', wq s' = wq s -> wgrow c s s'.
Proof. intros c s s' E. exists []. rewrite app_nil_r. repeat spl; auto. Qed.

Lemma ogrow_eq : forall s s', out s' = out s -> ogrow s s'.
Proof. intros s s' E. exists []. rewrite app_nil_r. exact E. Qed.

Lemma wgrow_trans : forall c s1 s2 s3, wgrow c s1 s2 -> wgrow c s2 s3 -> wgrow c s1 s3.
Proof.
  intros c s1 s2 s3 (l1 & E1 & F1 & B1) (l2 & E2 & F2 & B2). exists (l1 ++ l2). repeat spl.
  - rewrite E2, E1, app_assoc. reflexivity.
  - rewrite forallb_app, F1, F2. reflexivity.
  - intro W. rewrite (B1 W), (B2 W). reflexivity.
Qed.

Lemma ogrow_refl : forall s, ogrow s s.
Proof. intros. exists []. rewrite app_nil_r. reflexivity. Qed.

Lemma ogrow_trans : forall s1 s2 s3, ogrow s1 s2 -> ogrow s2 s3 -> ogrow s1 s3.
Proof. intros s1 s2 s3 (o1 & E1) (o2 & E2). exists (o1 ++ o2). rewrite E2, E1, app_assoc. reflexivity. Qed.

(* transport side: the transport is neither closed nor is an exit decided; frames are appended *)
Definition K (c : cfg) (s s' : st) : Prop :=
  closed s' = closed s /\ exit s' = exit s /\ exitq s' = exitq s /\ wgrow c s s' /\ ogrow s s'.

Lemma K_refl : forall c s, K c s s.
Proof. intros. unfold K. repeat spl; try reflexivity; [apply wgrow_refl|apply ogrow_refl]. Qed.

Lemma K_trans : forall c s1 s2 s3, K c s1 s2 -> K c s2 s3 -> K c s1 s3.
Proof.
  intros c s1 s2 s3 (A1 & A2 & A3 & A4 & A5) (B1 & B2 & B3 & B4 & B5). unfold K. repeat spl; try congruence.
  - eapply wgrow_trans; eassumption.
  - eapply ogrow_trans; eassumption.
Qed.

(* the handler tables are not touched at all *)
Definition IO (c : cfg) (s s' : st) : Prop :=
  K c s s' /\ shutdown s' = shutdown s /\ hlog s' = hlog s /\ tasks s' = tasks s /\ jobs s' = jobs s /\
  outg s' = outg s.

Lemma IO_refl : forall c s, IO c s s.
Proof. intros. unfold IO. repeat spl; try reflexivity. apply K_refl. Qed.

Lemma IO_trans : forall c s1 s2 s3, IO c s1 s2 -> IO c s2 s3 -> IO c s1 s3.
Proof.
  intros c s1 s2 s3 (A0 & A1 & A2 & A3 & A4 & A5) (B0 & B1 & B2 & B3 & B4 & B5). unfold IO.
  repeat spl; try congruence. eapply K_trans; eassumption.
Qed.

(* states that agree on every field the relations read *)
Definition agree (s s' : st) : Prop :=
  shutdown s' = shutdown s /\ closed s' = closed s /\ exit s' = exit s /\ exitq s' = exitq s /\
  wq s' = wq s /\ out s' = out s /\ hlog s' = hlog s /\ tasks s' = tasks s /\ jobs s' = jobs s /\ outg s' = outg s.

Lemma IO_agree : forall c s s', agree s s' -> IO c s s'.
Proof.
  intros c s s' (A1 & A2 & A3 & A4 & A5 & A6 & A7 & A8 & A9 & A10). unfold IO, K. repeat spl; try assumption.
  - exists []. rewrite app_nil_r. repeat spl; auto.
  - exists []. rewrite app_nil_r. exact A6.
Qed.

Ltac agr := apply IO_agree; unfold agree; cbn; repeat spl; reflexivity.

Lemma IO_add_err : forall c e s, IO c s (add_err e s). Proof. intros. agr. Qed.
Lemma IO_set_storm : forall c b s, IO c s (set_storm b s). Proof. intros. agr. Qed.
Lemma IO_set_undef : forall c b s, IO c s (set_undef b s). Proof. intros. agr. Qed.
Lemma IO_fut_set : forall c i r s, IO c s (fut_set i r s). Proof. intros. agr. Qed.
Lemma IO_fut_pop : forall c i s, IO c s (fut_pop i s). Proof. intros. agr. Qed.
Lemma IO_rtype_pop : forall c i s, IO c s (rtype_pop i s). Proof. intros. agr. Qed.
Lemma IO_set_rtypes : forall c v s, IO c s (set_rtypes v s). Proof. intros. agr. Qed.
Lemma IO_set_nwrites : forall c v s, IO c s (set_nwrites v s). Proof. intros. agr. Qed.

Lemma IO_add_out : forall c f s, IO c s (add_out f s).
Proof.
  intros. unfold IO, K, add_out. proj. repeat spl; try reflexivity.
  - apply wgrow_eq. reflexivity.
  - exists [f]. reflexivity.
Qed.

Lemma IO_add_wq_frame : forall c f s, c_writer c = WAwaitable -> IO c s (add_wq (WFrame f) s).
Proof.
  intros c f s W. unfold IO, K, add_wq. proj. repeat spl; try reflexivity.
  - exists [WFrame f]. repeat spl; try reflexivity. intro B. rewrite W in B. discriminate B.
  - apply ogrow_eq. reflexivity.
Qed.

Lemma IO_write_call : forall c sv f s, IO c s (fst (write_call c sv f s)).
Proof.
  intros c sv f s. unfold write_call, do_write. destruct (c_writer c) eqn:W.
  - destruct (closed s); cbn [fst]; [apply IO_refl|].
    destruct (failing c (nwrites s)); cbn [fst].
    + apply IO_set_nwrites.
    + eapply IO_trans; [apply IO_set_nwrites|apply IO_add_out].
  - destruct sv; cbn [fst]; [apply IO_add_wq_frame; exact W|apply IO_refl].
Qed.

Lemma IO_hook : forall c sv src s, IO c s (hook c sv src s).
Proof.
  intros c sv src s. unfold hook.
  assert (P1 : IO c s (add_err src s)) by apply IO_add_err.
  assert (SM : IO c s (let (s2, ok) := write_call c sv (ONotif NShowMessage) (add_err src s) in
                        if ok then s2 else set_storm true s2)).
  { pose proof (IO_write_call c sv (ONotif NShowMessage) (add_err src s)) as P2.
    destruct (write_call c sv (ONotif NShowMessage) (add_err src s)) as [s2 ok]. cbn [fst] in P2.
    destruct ok.
    - eapply IO_trans; [exact P1|exact P2].
    - eapply IO_trans; [eapply IO_trans; [exact P1|exact P2]|apply IO_set_storm]. }
  destruct (c_hook c); try exact P1. destruct src; try exact P1; exact SM.
Qed.

Lemma IO_send_data : forall c sv f ok s, IO c s (fst (send_data c sv f ok s)).
Proof.
  intros c sv f ok s. unfold send_data. destruct ok; cbn [negb fst].
  - pose proof (IO_write_call c sv f s) as P.
    destruct (write_call c sv f s) as [s1 ok1]. cbn [fst] in *. destruct ok1; [exact P|].
    eapply IO_trans; [exact P|apply IO_hook].
  - apply IO_hook.
Qed.

Lemma IO_send_response : forall c sv i r s, IO c s (send_response c sv i r s).
Proof.
  intros c sv i r s. unfold send_response. destruct r as [code|v ser].
  - apply IO_send_data.
  - pose proof (IO_send_data c sv (OResp i (PResult v)) ser (rtype_pop i s)) as P.
    destruct (send_data c sv (OResp i (PResult v)) ser (rtype_pop i s)) as [s2 ok]. cbn [fst] in P.
    assert (P2 : IO c s s2) by (eapply IO_trans; [apply IO_rtype_pop|exact P]).
    destruct ok; [exact P2|]. eapply IO_trans; [exact P2|apply IO_send_data].
Qed.

Lemma IO_request_callback : forall c sv i r s, IO c s (request_callback c sv i r s).
Proof.
  intros c sv i r s. unfold request_callback. eapply IO_trans; [|apply IO_fut_pop].
  destruct r; try apply IO_send_response; (eapply IO_trans; [apply IO_send_response|apply IO_hook]).
Qed.

Lemma IO_notification_callback : forall c sv r s, IO c s (notification_callback c sv r s).
Proof. intros c sv r s. unfold notification_callback. destruct r; try apply IO_refl; apply IO_hook. Qed.

Lemma IO_run_cb : forall c sv cb r s, IO c s (run_cb c sv cb r s).
Proof. intros c sv cb r s. unfold run_cb. destruct cb; [apply IO_request_callback|apply IO_notification_callback]. Qed.

Lemma IO_on_exc : forall c i x s, IO c s (on_exc c i x s).
Proof.
  intros c i x s. unfold on_exc. destruct x as [[|code]|]; try apply IO_refl;
    (eapply IO_trans; [apply IO_send_response|apply IO_hook]).
Qed.

(* ------------------------------------------------------------------ handlers of one message *)
Definition H (c : cfg) (w : who) (s s' : st) : Prop :=
  K c s s' /\ shutdown s' = shutdown s /\ outg s' = outg s /\
  (exists hl, hlog s' = hlog s ++ hl /\ Forall (fun h => h_who h = w) hl) /\
  (exists tl, tasks s' = tasks s ++ tl /\ Forall (fun tk => t_who tk = w) tl) /\
  (exists jl, jobs s' = jobs s ++ jl /\ Forall (fun jb => j_who jb = w) jl).

Lemma H_of_IO : forall c w s s', IO c s s' -> H c w s s'.
Proof.
  intros c w s s' (A0 & A1 & A2 & A3 & A4 & A5). unfold H. repeat spl; try assumption.
  - exists []. rewrite app_nil_r. split; [exact A2|constructor].
  - exists []. rewrite app_nil_r. split; [exact A3|constructor].
  - exists []. rewrite app_nil_r. split; [exact A4|constructor].
Qed.

Lemma H_refl : forall c w s, H c w s s.
Proof. intros. apply H_of_IO. apply IO_refl. Qed.

Lemma H_trans : forall c w s1 s2 s3, H c w s1 s2 -> H c w s2 s3 -> H c w s1 s3.
Proof.
  intros c w s1 s2 s3 (A0 & A1 & A2 & (h1 & A3 & A3') & (t1 & A4 & A4') & (j1 & A5 & A5'))
                      (B0 & B1 & B2 & (h2 & B3 & B3') & (t2 & B4 & B4') & (j2 & B5 & B5')).
  unfold H. repeat spl; try congruence.
  - eapply K_trans; eassumption.
  - exists (h1 ++ h2). split; [rewrite B3, A3, app_assoc; reflexivity|apply Forall_app; split; assumption].
  - exists (t1 ++ t2). split; [rewrite B4, A4, app_assoc; reflexivity|apply Forall_app; split; assumption].
  - exists (j1 ++ j2). split; [rewrite B5, A5, app_assoc; reflexivity|apply Forall_app; split; assumption].
Qed.

Lemma K_set_hlog : forall c v s, K c s (set_hlog v s).
Proof. intros. unfold K. proj. repeat spl; try reflexivity; [apply wgrow_eq|apply ogrow_eq]; reflexivity. Qed.

Lemma H_log : forall c w p ph sv s, H c w s (log w p ph sv s).
Proof.
  intros. unfold H, log, snoc. proj. repeat spl; try reflexivity.
  - apply K_set_hlog.
  - exists [mkH w p ph sv]. split; [reflexivity|]. constructor; [reflexivity|constructor].
  - exists []. rewrite app_nil_r. split; [reflexivity|constructor].
  - exists []. rewrite app_nil_r. split; [reflexivity|constructor].
Qed.

Lemma H_new_task : forall c w p cb b n s, H c w s (new_task w p cb b n s).
Proof.
  intros. unfold H, K, new_task, snoc. proj. repeat spl; try reflexivity.
  - apply wgrow_eq. reflexivity.
  - apply ogrow_eq. reflexivity.
  - exists []. rewrite app_nil_r. split; [reflexivity|constructor].
  - eexists. split; [reflexivity|]. constructor; [reflexivity|constructor].
  - exists []. rewrite app_nil_r. split; [reflexivity|constructor].
Qed.

Lemma H_new_job : forall c w p cb b x s, H c w s (new_job w p cb b x s).
Proof.
  intros. unfold H, K, new_job, snoc. proj. repeat spl; try reflexivity.
  - apply wgrow_eq. reflexivity.
  - apply ogrow_eq. reflexivity.
  - exists []. rewrite app_nil_r. split; [reflexivity|constructor].
  - exists []. rewrite app_nil_r. split; [reflexivity|constructor].
  - eexists. split; [reflexivity|]. constructor; [reflexivity|constructor].
Qed.

Lemma H_submit : forall c w p cb b early reg s,
  (forall j s', IO c s' (reg j s')) -> H c w s (submit c w p cb b early reg s).
Proof.
  intros c w p cb b early reg s R. unfold submit. destruct early.
  - eapply H_trans; [|apply H_of_IO; apply IO_run_cb].
    eapply H_trans; [|apply H_of_IO; apply R].
    eapply H_trans; [|apply H_log]. eapply H_trans; [|apply H_log]. apply H_new_job.
  - eapply H_trans; [apply H_new_job|apply H_of_IO; apply R].
Qed.

Lemma H_execute_request : forall c i p b s, H c (WReq i) s (fst (execute_request c i p b s)).
Proof.
  intros c i p b s. unfold execute_request. destruct (bkind b) as [|n|early]; cbn [fst].
  - assert (P : H c (WReq i) s (log (WReq i) p HEnd Loop (log (WReq i) p HStart Loop s)))
      by (eapply H_trans; apply H_log).
    destruct (bout b); cbn [fst]; try exact P;
      (eapply H_trans; [exact P|apply H_of_IO; apply IO_send_response]).
  - eapply H_trans; [apply H_new_task|apply H_of_IO; apply IO_fut_set].
  - apply H_submit. intros j s'. apply IO_fut_set.
Qed.

Lemma H_exec_notification : forall c w p b s, H c w s (fst (exec_notification c w p b s)).
Proof.
  intros c w p b s. unfold exec_notification. destruct (bkind b) as [|n|early]; cbn [fst].
  - eapply H_trans; apply H_log.
  - apply H_new_task.
  - apply H_submit. intros j s'. apply IO_refl.
Qed.

Lemma H_chain : forall c w u s, H c w s (chain c w u s).
Proof. intros c w u s. unfold chain. destruct u; [apply H_exec_notification|apply H_refl]. Qed.

Lemma H_K : forall c w s s', H c w s s' -> K c s s'.
Proof. intros c w s s' HH. apply HH. Qed.

Lemma IO_K : forall c s s', IO c s s' -> K c s s'.
Proof. intros c s s' HH. apply HH. Qed.

(* ------------------------------------------------------------------ transport side + flag *)
Definition KS (c : cfg) (s s' : st) : Prop := K c s s' /\ shutdown s' = shutdown s.

Lemma KS_refl : forall c s, KS c s s.
Proof. intros. split; [apply K_refl|reflexivity]. Qed.

Lemma KS_trans : forall c s1 s2 s3, KS c s1 s2 -> KS c s2 s3 -> KS c s1 s3.
Proof. intros c s1 s2 s3 [A1 A2] [B1 B2]. split; [eapply K_trans; eassumption|congruence]. Qed.

Lemma KS_IO : forall c s s', IO c s s' -> KS c s s'.
Proof. intros c s s' (A0 & A1 & _). split; assumption. Qed.

Lemma KS_H : forall c w s s', H c w s s' -> KS c s s'.
Proof. intros c w s s' (A0 & A1 & _). split; assumption. Qed.

(* fields the transport relations read are untouched *)
Definition same_tr (s s' : st) : Prop :=
  closed s' = closed s /\ exit s' = exit s /\ exitq s' = exitq s /\ wq s' = wq s /\ out s' = out s /\
  shutdown s' = shutdown s.

Lemma KS_same_tr : forall c s s', same_tr s s' -> KS c s s'.
Proof.
  intros c s s' (A1 & A2 & A3 & A4 & A5 & A6). split; [|exact A6]. unfold K. repeat spl; try assumption.
  - apply wgrow_eq. exact A4.
  - apply ogrow_eq. exact A5.
Qed.

Ltac str := apply KS_same_tr; unfold same_tr; cbn; repeat spl; reflexivity.

Lemma KS_set_task_st : forall c t x s, KS c s (set_task_st t x s). Proof. intros. str. Qed.
Lemma KS_set_job_st : forall c j x s, KS c s (set_job_st j x s). Proof. intros. str. Qed.
Lemma KS_set_outg_st : forall c o x s, KS c s (set_outg_st o x s). Proof. intros. str. Qed.
Lemma KS_set_outg : forall c v s, KS c s (set_outg v s). Proof. intros. str. Qed.
Lemma KS_log : forall c w p ph sv s, KS c s (log w p ph sv s). Proof. intros. str. Qed.

(* ------------------------------------------------------------------ future.cancel() *)
Lemma nth_upd_nth : forall (A : Type) (g : A -> A) l t t',
  nth_error (upd_nth t g l) t' = if Nat.eqb t t' then option_map g (nth_error l t') else nth_error l t'.
Proof.
  intros A g l. induction l as [|x r IH]; intros t t'.
  - destruct t, t'; cbn; try reflexivity. destruct (Nat.eqb t t'); reflexivity.
  - destruct t as [|t], t' as [|t']; cbn [upd_nth nth_error Nat.eqb option_map]; try reflexivity. apply IH.
Qed.

Definition is_ftask (t : nat) (r : fref) : bool := match r with FTask t' => Nat.eqb t' t | _ => false end.
Definition is_fjob (j : nat) (r : fref) : bool := match r with FJob j' => Nat.eqb j' j | _ => false end.
Definition is_fout (o : nat) (r : fref) : bool := match r with FOut o' => Nat.eqb o' o | _ => false end.

Lemma tflag_idem : forall tk, tflag (tflag tk) = tflag tk.
Proof. intros [w p cb b x]. unfold tflag. cbn. destruct x; reflexivity. Qed.
Lemma jflag_idem : forall jb, jflag (jflag jb) = jflag jb.
Proof. intros [w p cb b x]. unfold jflag. cbn. destruct x; reflexivity. Qed.
Lemma oflag_idem : forall o, oflag (oflag o) = oflag o.
Proof. intros []; reflexivity. Qed.

Lemma cancel_ref_tasks : forall c r s t,
  nth_error (tasks (cancel_ref c r s)) t =
  if is_ftask t r then option_map tflag (nth_error (tasks s) t) else nth_error (tasks s) t.
Proof.
  intros c r s t. unfold cancel_ref. destruct r as [t0|j0|o0]; cbn [is_ftask].
  - destruct (Nat.eqb t0 t) eqn:E.
    + apply Nat.eqb_eq in E. subst t0.
      destruct (nth_error (tasks s) t) as [tk|] eqn:N; [|rewrite N; reflexivity].
      destruct (t_st tk) as [st l mc| |] eqn:T.
      * unfold set_task_st. proj. rewrite nth_upd_nth, Nat.eqb_refl, N. cbn [option_map].
        unfold tflag. rewrite T. reflexivity.
      * rewrite N. cbn [option_map]. unfold tflag. rewrite T. reflexivity.
      * rewrite N. cbn [option_map]. unfold tflag. rewrite T. reflexivity.
    + destruct (nth_error (tasks s) t0) as [tk|]; [|reflexivity].
      destruct (t_st tk); try reflexivity.
      unfold set_task_st. proj. rewrite nth_upd_nth, E. reflexivity.
  - destruct (nth_error (jobs s) j0) as [jb|]; [|reflexivity].
    destruct (j_st jb); try reflexivity.
    destruct (IO_run_cb c Loop (j_cb jb) RCancelled (set_job_st j0 JCancelled s)) as (_ & _ & _ & E & _).
    rewrite E. reflexivity.
  - destruct (nth_error (outg s) o0) as [[| |]|]; reflexivity.
Qed.

Lemma cancel_ref_jobs : forall c r s j,
  nth_error (jobs (cancel_ref c r s)) j =
  if is_fjob j r then option_map jflag (nth_error (jobs s) j) else nth_error (jobs s) j.
Proof.
  intros c r s j. unfold cancel_ref. destruct r as [t0|j0|o0]; cbn [is_fjob].
  - destruct (nth_error (tasks s) t0) as [tk|]; [|reflexivity]. destruct (t_st tk); reflexivity.
  - destruct (Nat.eqb j0 j) eqn:E.
    + apply Nat.eqb_eq in E. subst j0.
      destruct (nth_error (jobs s) j) as [jb|] eqn:N; [|rewrite N; reflexivity].
      destruct (j_st jb) eqn:J.
      * destruct (IO_run_cb c Loop (j_cb jb) RCancelled (set_job_st j JCancelled s)) as (_ & _ & _ & _ & E & _).
        rewrite E. unfold set_job_st. proj. rewrite nth_upd_nth, Nat.eqb_refl, N. cbn [option_map].
        unfold jflag. rewrite J. reflexivity.
      * rewrite N. cbn [option_map]. unfold jflag. rewrite J. reflexivity.
      * rewrite N. cbn [option_map]. unfold jflag. rewrite J. reflexivity.
      * rewrite N. cbn [option_map]. unfold jflag. rewrite J. reflexivity.
    + destruct (nth_error (jobs s) j0) as [jb|]; [|reflexivity].
      destruct (j_st jb); try reflexivity.
      destruct (IO_run_cb c Loop (j_cb jb) RCancelled (set_job_st j0 JCancelled s)) as (_ & _ & _ & _ & E' & _).
      rewrite E'. unfold set_job_st. proj. rewrite nth_upd_nth, E. reflexivity.
  - destruct (nth_error (outg s) o0) as [[| |]|]; reflexivity.
Qed.

Lemma cancel_ref_outg : forall c r s o,
  nth_error (outg (cancel_ref c r s)) o =
  if is_fout o r then option_map oflag (nth_error (outg s) o) else nth_error (outg s) o.
Proof.
  intros c r s o. unfold cancel_ref. destruct r as [t0|j0|o0]; cbn [is_fout].
  - destruct (nth_error (tasks s) t0) as [tk|]; [|reflexivity]. destruct (t_st tk); reflexivity.
  - destruct (nth_error (jobs s) j0) as [jb|]; [|reflexivity].
    destruct (j_st jb); try reflexivity.
    destruct (IO_run_cb c Loop (j_cb jb) RCancelled (set_job_st j0 JCancelled s)) as (_ & _ & _ & _ & _ & E).
    rewrite E. reflexivity.
  - destruct (Nat.eqb o0 o) eqn:E.
    + apply Nat.eqb_eq in E. subst o0.
      destruct (nth_error (outg s) o) as [x|] eqn:N; [|rewrite N; reflexivity].
      destruct x.
      * unfold set_outg_st. proj. rewrite nth_upd_nth, Nat.eqb_refl, N. reflexivity.
      * rewrite N. reflexivity.
      * rewrite N. reflexivity.
    + destruct (nth_error (outg s) o0) as [[| |]|]; try reflexivity.
      unfold set_outg_st. proj. rewrite nth_upd_nth, E. reflexivity.
Qed.

(* cancel() neither logs nor touches the flag *)
Definition CL (c : cfg) (s s' : st) : Prop := KS c s s' /\ hlog s' = hlog s.

Lemma CL_cancel_ref : forall c r s, CL c s (cancel_ref c r s).
Proof.
  intros c r s. unfold cancel_ref. destruct r as [t|j|o].
  - destruct (nth_error (tasks s) t) as [tk|]; [|split; [apply KS_refl|reflexivity]].
    destruct (t_st tk); try (split; [apply KS_refl|reflexivity]).
    split; [apply KS_set_task_st|reflexivity].
  - destruct (nth_error (jobs s) j) as [jb|]; [|split; [apply KS_refl|reflexivity]].
    destruct (j_st jb); try (split; [apply KS_refl|reflexivity]).
    pose proof (IO_run_cb c Loop (j_cb jb) RCancelled (set_job_st j JCancelled s)) as P.
    split.
    + eapply KS_trans; [apply KS_set_job_st|apply KS_IO; exact P].
    + destruct P as (_ & _ & E & _). rewrite E. reflexivity.
  - destruct (nth_error (outg s) o) as [[| |]|]; try (split; [apply KS_refl|reflexivity]).
    split; [apply KS_set_outg_st|reflexivity].
Qed.

Definition cancel_all (c : cfg) (rs : list fref) (s : st) : st := fold_left (fun s' r => cancel_ref c r s') rs s.

Lemma CL_cancel_all : forall c rs s, CL c s (cancel_all c rs s).
Proof.
  intros c rs. unfold cancel_all. induction rs as [|r rs IH]; intro s; cbn [fold_left].
  - split; [apply KS_refl|reflexivity].
  - destruct (CL_cancel_ref c r s) as [A1 A2]. destruct (IH (cancel_ref c r s)) as [B1 B2].
    split; [eapply KS_trans; eassumption|congruence].
Qed.

Lemma cancel_all_tasks : forall c rs s t,
  nth_error (tasks (cancel_all c rs s)) t =
  if existsb (is_ftask t) rs then option_map tflag (nth_error (tasks s) t) else nth_error (tasks s) t.
Proof.
  intros c rs. unfold cancel_all. induction rs as [|r rs IH]; intros s t; cbn [fold_left existsb]; [reflexivity|].
  rewrite IH, cancel_ref_tasks.
  destruct (is_ftask t r), (existsb (is_ftask t) rs); cbn [orb]; try reflexivity.
  destruct (nth_error (tasks s) t); cbn [option_map]; [rewrite tflag_idem|]; reflexivity.
Qed.

Lemma cancel_all_jobs : forall c rs s j,
  nth_error (jobs (cancel_all c rs s)) j =
  if existsb (is_fjob j) rs then option_map jflag (nth_error (jobs s) j) else nth_error (jobs s) j.
Proof.
  intros c rs. unfold cancel_all. induction rs as [|r rs IH]; intros s j; cbn [fold_left existsb]; [reflexivity|].
  rewrite IH, cancel_ref_jobs.
  destruct (is_fjob j r), (existsb (is_fjob j) rs); cbn [orb]; try reflexivity.
  destruct (nth_error (jobs s) j); cbn [option_map]; [rewrite jflag_idem|]; reflexivity.
Qed.

Lemma cancel_all_outg : forall c rs s o,
  nth_error (outg (cancel_all c rs s)) o =
  if existsb (is_fout o) rs then option_map oflag (nth_error (outg s) o) else nth_error (outg s) o.
Proof.
  intros c rs. unfold cancel_all. induction rs as [|r rs IH]; intros s o; cbn [fold_left existsb]; [reflexivity|].
  rewrite IH, cancel_ref_outg.
  destruct (is_fout o r), (existsb (is_fout o) rs); cbn [orb]; try reflexivity.
  destruct (nth_error (outg s) o); cbn [option_map]; [rewrite oflag_idem|]; reflexivity.
Qed.

(* ================================================================== Part 2: the flag *)
Lemma K_set_shutdown : forall c v s, K c s (set_shutdown v s).
Proof. intros. unfold K. proj. repeat spl; try reflexivity; [apply wgrow_eq|apply ogrow_eq]; reflexivity. Qed.

Lemma handle_request_K : forall c i m s,
  K c s (handle_request c i m s) /\ shutdown (handle_request c i m s) = (shutdown s || is_shutdown m).
Proof.
  intros c i m s.
  assert (Z : forall s', KS c s s' -> K c s s' /\ shutdown s' = (shutdown s || false)).
  { intros s' [A B]. rewrite orb_false_r. split; assumption. }
  unfold handle_request. destruct m as [|b|u|fails u|cmd u]; cbn [is_shutdown].
  - apply Z. apply KS_IO. eapply IO_trans; [apply IO_send_response|apply IO_hook].
  - pose proof (H_execute_request c i PUser b s) as P.
    destruct (execute_request c i PUser b s) as [s1 x]. cbn [fst] in P.
    apply Z. eapply KS_trans; [eapply KS_H; exact P|apply KS_IO; apply IO_on_exc].
  - rewrite orb_true_r. unfold lsp_shutdown.
    set (s1 := log (WReq i) PBuiltin HStart Loop s).
    fold (cancel_all c (values (futs s1)) s1).
    set (s2 := cancel_all c (values (futs s1)) s1).
    set (s3 := log (WReq i) PBuiltin HEnd Loop (set_shutdown true s2)).
    assert (P3 : K c s s3 /\ shutdown s3 = true).
    { split; [|reflexivity].
      eapply K_trans; [apply (KS_log c (WReq i) PBuiltin HStart Loop s)|].
      eapply K_trans; [apply (CL_cancel_all c (values (futs s1)) s1)|].
      eapply K_trans; [apply K_set_shutdown|]. apply (KS_log c (WReq i) PBuiltin HEnd Loop). }
    destruct P3 as [P3 S3].
    pose proof (KS_H _ _ _ _ (H_chain c (WReq i) u s3)) as [P4 S4].
    pose proof (KS_IO _ _ _ (IO_send_response c Loop i (RpResult VNull true) (chain c (WReq i) u s3))) as [P5 S5].
    split; [eapply K_trans; [exact P3|eapply K_trans; [exact P4|exact P5]]|congruence].
  - apply Z.
    assert (P1 : KS c s (log (WReq i) PBuiltin HEnd Loop (log (WReq i) PBuiltin HStart Loop s)))
      by (eapply KS_trans; apply KS_log).
    destruct fails.
    + eapply KS_trans; [exact P1|apply KS_IO; apply IO_on_exc].
    + eapply KS_trans; [exact P1|]. eapply KS_trans; [eapply KS_H; apply H_chain|apply KS_IO; apply IO_send_response].
  - apply Z.
    assert (P1 : KS c s (log (WReq i) PBuiltin HStart Loop s)) by apply KS_log.
    destruct cmd as [b|].
    + pose proof (H_execute_request c i PCommand b (log (WReq i) PBuiltin HStart Loop s)) as P.
      destruct (execute_request c i PCommand b (log (WReq i) PBuiltin HStart Loop s)) as [s2 x]. cbn [fst] in P.
      assert (P3 : KS c s (log (WReq i) PBuiltin HEnd Loop s2)).
      { eapply KS_trans; [exact P1|]. eapply KS_trans; [eapply KS_H; exact P|apply KS_log]. }
      destruct x as [e|].
      * eapply KS_trans; [exact P3|apply KS_IO; apply IO_on_exc].
      * eapply KS_trans; [exact P3|eapply KS_H; apply H_chain].
    + eapply KS_trans; [exact P1|]. eapply KS_trans; [apply KS_log|apply KS_IO; apply IO_on_exc].
Qed.

Lemma KS_cancel_notification : forall c i s, KS c s (cancel_notification c i s).
Proof.
  intros c i s. unfold cancel_notification. destruct (Assoc.get id_eqb i (futs s)) as [r|]; [|apply KS_refl].
  eapply KS_trans; [apply KS_IO; apply IO_fut_pop|apply CL_cancel_ref].
Qed.

Lemma KS_handle_notification : forall c tag m s, is_exit m = false -> KS c s (handle_notification c tag m s).
Proof.
  intros c tag m s E. unfold handle_notification. destruct m as [|b|i|u|fails u]; cbn [is_exit] in E.
  - apply KS_refl.
  - pose proof (H_exec_notification c (WNot tag) PUser b s) as P.
    destruct (exec_notification c (WNot tag) PUser b s) as [s1 x]. cbn [fst] in P.
    destruct x; [|eapply KS_H; exact P]. eapply KS_trans; [eapply KS_H; exact P|apply KS_IO; apply IO_hook].
  - apply KS_cancel_notification.
  - discriminate.
  - assert (P1 : KS c s (log (WNot tag) PBuiltin HEnd Loop (log (WNot tag) PBuiltin HStart Loop s)))
      by (eapply KS_trans; apply KS_log).
    destruct fails.
    + eapply KS_trans; [exact P1|apply KS_IO; apply IO_hook].
    + eapply KS_trans; [exact P1|eapply KS_H; apply H_chain].
Qed.

Lemma KS_handle_response : forall c i s, KS c s (handle_response c i s).
Proof.
  intros c i s. unfold handle_response.
  destruct (Assoc.get id_eqb i (futs s)) as [r|]; [|apply KS_IO; apply IO_hook].
  assert (PH : KS c s (hook c Loop EJsonRpc (fut_pop i s))).
  { apply KS_IO. eapply IO_trans; [apply IO_fut_pop|apply IO_hook]. }
  destruct r as [t|j|o].
  - exact PH.
  - eapply KS_trans; [exact PH|apply KS_IO; apply IO_set_undef].
  - destruct (nth_error (outg (fut_pop i s)) o) as [[| |]|]; try exact PH.
    eapply KS_trans; [apply KS_IO; apply IO_fut_pop|apply KS_set_outg_st].
Qed.

(* a frame other than an effective `exit`: transport side grows, the flag moves only for an
   accepted shutdown request *)
Lemma recv_K : forall c f s, exit_frame f = false ->
  K c s (recv c f s) /\ shutdown (recv c f s) = (shutdown s || shutdown_frame f).
Proof.
  intros c f s E.
  assert (Z : forall s', KS c s s' -> K c s s' /\ shutdown s' = (shutdown s || false)).
  { intros s' [A B]. rewrite orb_false_r. split; assumption. }
  unfold recv. destruct f as [|v i ps m|v tag ps m|v i iserr ps]; cbn [shutdown_frame].
  - apply Z. apply KS_IO. apply IO_hook.
  - destruct ps.
    + destruct v; cbn [negb].
      * destruct (shutdown s) eqn:SH; cbn [orb].
        -- split; [apply K_refl|exact SH].
        -- destruct (handle_request_K c i m s) as [A B]. rewrite SH in B. split; assumption.
      * apply Z. apply KS_IO. apply IO_hook.
    + replace (if v then false else false) with false by (destruct v; reflexivity).
      apply Z. apply KS_IO. eapply IO_trans; [apply IO_send_response|apply IO_hook].
    + replace (if v then false else false) with false by (destruct v; reflexivity).
      apply Z. apply KS_IO. eapply IO_trans; [apply IO_send_response|apply IO_hook].
  - apply Z. destruct ps; try (apply KS_IO; apply IO_hook).
    destruct v; cbn [negb]; [|apply KS_IO; apply IO_hook].
    destruct (shutdown s && negb (is_exit m)) eqn:G; [apply KS_refl|].
    apply KS_handle_notification. cbn [exit_frame] in E. destruct m; try reflexivity. discriminate.
  - apply Z.
    assert (P : KS c s (rtype_pop i s)) by (apply KS_IO; apply IO_rtype_pop).
    assert (PH : KS c s (hook c Loop EJsonRpc (rtype_pop i s))).
    { apply KS_IO. eapply IO_trans; [apply IO_rtype_pop|apply IO_hook]. }
    destruct (negb iserr && negb (Assoc.mem id_eqb i (rtypes s))); [exact PH|].
    destruct ps; try exact PH. destruct (negb v); [exact PH|].
    destruct (shutdown (rtype_pop i s)); [exact P|].
    eapply KS_trans; [exact P|apply KS_handle_response].
Qed.

(* ------------------------------------------------------------------ the internal events *)
Lemma KS_task_step : forall c t s, KS c s (task_step t s).
Proof.
  intros c t s. unfold task_step, task_advance, task_finish.
  destruct (nth_error (tasks s) t) as [tk|]; [|apply KS_refl].
  destruct (t_st tk) as [st l mc| |]; try apply KS_refl.
  destruct mc, st, (breact (t_b tk)), l; cbn [negb]; str.
Qed.

Lemma KS_loop_cb : forall c t s, KS c s (loop_cb c t s).
Proof.
  intros c t s. unfold loop_cb.
  destruct (nth_error (tasks s) t) as [tk|]; [|apply KS_refl].
  destruct (t_st tk) as [| r |]; try apply KS_refl.
  eapply KS_trans; [apply KS_set_task_st|apply KS_IO; apply IO_run_cb].
Qed.

Lemma KS_job_start : forall c j s, KS c s (job_start j s).
Proof.
  intros c j s. unfold job_start.
  destruct (nth_error (jobs s) j) as [jb|]; [|apply KS_refl].
  destruct (j_st jb); try apply KS_refl. str.
Qed.

Lemma KS_job_finish : forall c j s, KS c s (job_finish c j s).
Proof.
  intros c j s. unfold job_finish.
  destruct (nth_error (jobs s) j) as [jb|]; [|apply KS_refl].
  destruct (j_st jb); try apply KS_refl.
  eapply KS_trans; [|apply KS_IO; apply IO_run_cb].
  eapply KS_trans; [apply KS_log|apply KS_set_job_st].
Qed.

Lemma KS_user_send : forall c i s, KS c s (user_send c i s).
Proof.
  intros c i s. unfold user_send.
  eapply KS_trans; [|apply KS_IO; apply IO_send_data].
  eapply KS_trans; [apply KS_set_outg|].
  eapply KS_trans; [apply KS_IO; apply IO_fut_set|apply KS_IO; apply IO_set_rtypes].
Qed.

(* ================================================================== Part 3: exit status *)
Lemma first_close_app_frames : forall l l', forallb is_frame l' = true -> first_close (l ++ l') = first_close l.
Proof.
  induction l as [|w r IH]; intros l' F; cbn [app first_close].
  - induction l' as [|w' r' IH']; [reflexivity|]. cbn [forallb] in F. apply andb_true_iff in F. destruct F as [F1 F2].
    destruct w'; [|discriminate]. cbn [first_close]. apply IH'. exact F2.
  - destruct w; [apply IH; exact F|reflexivity].
Qed.

Lemma K_pending : forall c s s', K c s s' -> pending_rc s' = pending_rc s.
Proof.
  intros c s s' (_ & _ & E3 & (l & E4 & F & _) & _). unfold pending_rc. rewrite E3, E4.
  rewrite first_close_app_frames by exact F. reflexivity.
Qed.

Definition quiet_if_blocking (c : cfg) (s : st) : Prop := c_writer c = WBlocking -> wq s = [] /\ exitq s = [].

Lemma K_quiet : forall c s s', K c s s' -> quiet_if_blocking c s -> quiet_if_blocking c s'.
Proof.
  intros c s s' (_ & _ & E3 & (l & E4 & _ & B) & _) Q W. destruct (Q W) as [Q1 Q2].
  rewrite E3, E4, (B W), Q1, Q2. split; reflexivity.
Qed.

(* the model's exit machinery and the reference *)
Definition J (c : cfg) (s : st) (x : xsp) : Prop :=
  quiet_if_blocking c s /\
  match exit s with
  | Some rc => x_exit x = Some rc
  | None => pending_rc s = x_exit x /\ (x_exit x = None -> shutdown s = x_shut x)
  end.

Lemma x_step_internal : forall x e, match e with Recv _ => False | _ => True end -> x_step x e = x.
Proof. intros x e NR. unfold x_step. destruct (x_exit x); [reflexivity|]. destruct e; try reflexivity. contradiction. Qed.

Lemma x_step_decided : forall x e rc, x_exit x = Some rc -> x_step x e = x.
Proof. intros x e rc E. unfold x_step. rewrite E. reflexivity. Qed.

Lemma x_step_nonexit : forall x f, x_exit x = None -> exit_frame f = false ->
  x_exit (x_step x (Recv f)) = None /\ x_shut (x_step x (Recv f)) = (x_shut x || shutdown_frame f).
Proof.
  intros x f E NE. unfold x_step. rewrite E.
  destruct f as [|v i ps m|v tag ps m|v i iserr ps]; cbn [shutdown_frame x_exit x_shut]; rewrite ?orb_false_r; auto.
  - destruct v; [|rewrite orb_false_r; auto]. destruct ps; cbn [x_exit x_shut]; rewrite ?orb_false_r; auto.
  - destruct v; auto. destruct ps; auto. destruct m; auto. discriminate.
Qed.

Lemma x_step_exit : forall x tag u, x_exit x = None ->
  x_step x (Recv (FNotif true tag POk (NExit u))) = mkX (x_shut x) (Some (if x_shut x then 0%Z else 1%Z)).
Proof. intros x tag u E. unfold x_step. rewrite E. reflexivity. Qed.

Lemma J_K : forall c s s' x, J c s x -> exit s = None -> KS c s s' -> J c s' x.
Proof.
  intros c s s' x [Q JJ] EX [KK SS]. rewrite EX in JJ. destruct JJ as [PR SH].
  split; [eapply K_quiet; eassumption|].
  pose proof KK as (K1 & K2 & K'). rewrite K2, EX.
  split; [rewrite (K_pending c s s' KK); exact PR|].
  intro N. rewrite SS. apply SH. exact N.
Qed.

Lemma exit_frame_inv : forall f, exit_frame f = true -> exists tag u, f = FNotif true tag POk (NExit u).
Proof.
  intros f E. destruct f as [|v i ps m|v tag ps m|v i iserr ps]; try discriminate.
  destruct v; [|discriminate]. destruct ps; try discriminate. destruct m; try discriminate.
  eexists. eexists. reflexivity.
Qed.

Lemma pending_rc_none : forall s, pending_rc s = None -> exitq s = [] /\ first_close (wq s) = None.
Proof. intros s. unfold pending_rc. destruct (exitq s); [auto|discriminate]. Qed.

Lemma first_close_snoc : forall l rc,
  first_close (l ++ [WClose rc]) = match first_close l with Some r => Some r | None => Some rc end.
Proof. induction l as [|w r IH]; intro rc; cbn [app first_close]; [reflexivity|]. destruct w; [apply IH|reflexivity]. Qed.

Theorem J_step : forall c s x e, J c s x -> J c (step c s e) (x_step x e).
Proof.
  intros c s x e JJ. pose proof JJ as [Q JE]. unfold step. destruct (exit s) as [rc|] eqn:EX.
  - rewrite (x_step_decided x e rc JE). exact JJ.
  - destruct JE as [PR SH].
    assert (INT : forall s', match e with Recv _ => False | _ => True end -> KS c s s' -> J c s' (x_step x e)).
    { intros s' NR KK. rewrite (x_step_internal x e NR). eapply J_K; eassumption. }
    destruct e as [f|t|t|j|j| | |i].
    + destruct (exit_frame f) eqn:EF.
      * (* the exit notification reaches lsp_exit *)
        destruct (exit_frame_inv f EF) as (tag & u & Ef). rewrite Ef in *. clear Ef.
        unfold recv. cbn [negb is_exit]. rewrite andb_false_r. unfold handle_notification, lsp_exit.
        destruct (c_writer c) eqn:W.
        -- (* synchronous close: SystemExit at once *)
           destruct (Q W) as [Q1 Q2]. split; [intros _; proj; split; assumption|]. proj.
           destruct (x_exit x) as [r|] eqn:XE.
           ++ exfalso. unfold pending_rc in PR. rewrite Q1, Q2 in PR. discriminate.
           ++ rewrite (x_step_exit x tag u XE). cbn [x_exit]. rewrite (SH eq_refl). reflexivity.
        -- (* awaitable close: the status waits in the write queue *)
           set (rc := if shutdown s then 0%Z else 1%Z).
           set (s1 := add_wq (WClose rc) (log (WNot tag) PBuiltin HStart Loop s)).
           assert (KC : KS c s1 (chain c (WNot tag) u (log (WNot tag) PBuiltin HEnd Loop s1))).
           { eapply KS_trans; [apply KS_log|eapply KS_H; apply H_chain]. }
           destruct KC as [KC _].
           split; [intro B; rewrite W in B; discriminate|].
           pose proof KC as (_ & K2 & _). assert (E1 : exit s1 = exit s) by reflexivity. rewrite K2, E1, EX.
           rewrite (K_pending c s1 _ KC).
           assert (P1 : pending_rc s1 = match pending_rc s with Some r => Some r | None => Some rc end).
           { unfold pending_rc, s1, add_wq, log, snoc. proj. destruct (exitq s); [|reflexivity]. apply first_close_snoc. }
           rewrite P1. destruct (x_exit x) as [r|] eqn:XE.
           ++ rewrite (x_step_decided x _ r XE), PR, XE. split; [reflexivity|discriminate].
           ++ rewrite (x_step_exit x tag u XE), PR. cbn [x_exit]. unfold rc. rewrite (SH eq_refl).
              split; [reflexivity|discriminate].
      * destruct (recv_K c f s EF) as [KK SS].
        split; [eapply K_quiet; eassumption|].
        pose proof KK as (K1 & K2 & K'). rewrite K2, EX.
        rewrite (K_pending c s _ KK).
        destruct (x_exit x) as [r|] eqn:XE.
        -- rewrite (x_step_decided x _ r XE), XE. split; [exact PR|discriminate].
        -- destruct (x_step_nonexit x f XE EF) as [X1 X2]. rewrite X1, X2. split; [exact PR|].
           intros _. rewrite SS, (SH eq_refl). reflexivity.
    + apply INT; [exact I|apply KS_task_step].
    + apply INT; [exact I|apply KS_loop_cb].
    + apply INT; [exact I|apply KS_job_start].
    + apply INT; [exact I|apply KS_job_finish].
    + (* WriteStep *)
      rewrite (x_step_internal x WriteStep I). unfold write_step.
      destruct (wq s) as [|w r] eqn:WQ.
      * split; [exact Q|]. rewrite EX. split; assumption.
      * assert (AW : c_writer c = WAwaitable).
        { destruct (c_writer c) eqn:W; [|reflexivity]. destruct (Q W) as [Q1 _]. rewrite WQ in Q1. discriminate. }
        split; [intro B; rewrite AW in B; discriminate|].
        destruct w as [f|rc].
        -- assert (E : exit (fst (do_write c f (set_wq r s))) = None /\
                        pending_rc (fst (do_write c f (set_wq r s))) = pending_rc s /\
                        shutdown (fst (do_write c f (set_wq r s))) = shutdown s).
           { unfold do_write, pending_rc. proj. rewrite WQ. cbn [first_close].
             destruct (closed s); cbn [fst]; proj; [auto|].
             destruct (failing c (nwrites s)); cbn [fst]; unfold add_out; proj; auto. }
           destruct E as (E1 & E2 & E3). rewrite E1, E2, E3. split; assumption.
        -- proj. rewrite EX. split; [|exact SH].
           rewrite <- PR. unfold pending_rc, snoc. proj. rewrite WQ. cbn [first_close].
           destruct (exitq s); reflexivity.
    + (* ExitCb *)
      rewrite (x_step_internal x ExitCb I). unfold exit_cb.
      destruct (exitq s) as [|rc r] eqn:EQ.
      * split; [exact Q|]. rewrite EX. split; assumption.
      * split.
        -- intro W. destruct (Q W) as [_ Q2]. rewrite EQ in Q2. discriminate.
        -- proj. rewrite <- PR. unfold pending_rc. rewrite EQ. reflexivity.
    + apply INT; [exact I|apply KS_user_send].
Qed.

Lemma J_init : forall c, J c init x_init.
Proof. intro c. split; [intros _; split; reflexivity|]. cbn. split; [reflexivity|]. intros _. reflexivity. Qed.

Lemma J_from : forall c evs s x, J c s x -> J c (fold_left (step c) evs s) (fold_left x_step evs x).
Proof.
  intros c evs. induction evs as [|e r IH]; intros s x JJ; cbn [fold_left]; [exact JJ|].
  apply IH. apply J_step. exact JJ.
Qed.

Theorem J_run : forall c evs, J c (run c evs) (x_run evs).
Proof. intros c evs. unfold run, x_run. apply J_from. apply J_init. Qed.

(* whenever the model process exits, it exits with the status the reference decided *)
Theorem exit_sound : forall c evs rc, exit (run c evs) = Some rc -> exit_ref evs = Some rc.
Proof. intros c evs rc E. destruct (J_run c evs) as [_ JJ]. rewrite E in JJ. exact JJ. Qed.

(* with a transport whose close() is synchronous the exit happens in the event that decides it *)
Theorem exit_blocking : forall c evs, c_writer c = WBlocking -> exit (run c evs) = exit_ref evs.
Proof.
  intros c evs W. destruct (J_run c evs) as [Q JJ]. destruct (exit (run c evs)) as [rc|] eqn:E.
  - symmetry. exact JJ.
  - destruct JJ as [PR _]. destruct (Q W) as [Q1 Q2]. unfold pending_rc in PR. rewrite Q1, Q2 in PR. exact PR.
Qed.

(* the flag is the reference's as long as no exit has been decided - for every configuration *)
Theorem flag_is_reference : forall c evs, exit_ref evs = None -> shutdown (run c evs) = shut_ref evs.
Proof.
  intros c evs N. destruct (J_run c evs) as [_ JJ]. destruct (exit (run c evs)) as [rc|] eqn:E.
  - unfold exit_ref in N. rewrite N in JJ. discriminate.
  - destruct JJ as [_ SH]. apply SH. exact N.
Qed.

(* awaitable close: the decided status is delivered by draining the write queue *)
Lemma exit_delivered_from : forall c n s rc, exit s = None -> pending_rc s = Some rc -> length (wq s) <= n ->
  exists k, k <= n /\ exit (fold_left (step c) (repeat WriteStep k ++ [ExitCb]) s) = Some rc.
Proof.
  intros c n. induction n as [|n IH]; intros s rc EX PR L.
  - exists 0. split; [lia|]. cbn [repeat app fold_left]. unfold step. rewrite EX.
    unfold pending_rc in PR. destruct (wq s); [|cbn in L; lia]. cbn [first_close] in PR.
    unfold exit_cb. destruct (exitq s) as [|r q]; [discriminate|]. proj. exact PR.
  - destruct (exitq s) as [|r q] eqn:EQ.
    + destruct (wq s) as [|w rest] eqn:WQ.
      * unfold pending_rc in PR. rewrite EQ, WQ in PR. discriminate.
      * set (s1 := step c s WriteStep).
        assert (S1 : exit s1 = None /\ pending_rc s1 = Some rc /\ length (wq s1) <= n).
        { unfold s1, step. rewrite EX. unfold write_step. rewrite WQ. unfold pending_rc in PR. rewrite EQ, WQ in PR.
          cbn [length] in L. destruct w as [f|rc'].
          - cbn [first_close] in PR. unfold do_write, pending_rc. proj.
            destruct (closed s); cbn [fst]; proj; [rewrite EX, EQ; repeat spl; [reflexivity|exact PR|lia]|].
            destruct (failing c (nwrites s)); cbn [fst]; unfold add_out; proj; rewrite EX, EQ; repeat spl; try reflexivity; try exact PR; lia.
          - cbn [first_close] in PR. unfold pending_rc, snoc. proj. rewrite EX, EQ. cbn [app].
            repeat spl; [reflexivity|exact PR|lia]. }
        destruct S1 as (E1 & E2 & E3). destruct (IH s1 rc E1 E2 E3) as (k & Lk & Hk).
        exists (S k). split; [lia|]. cbn [repeat app fold_left]. exact Hk.
    + exists 0. split; [lia|]. cbn [repeat app fold_left]. unfold step. rewrite EX. unfold exit_cb. rewrite EQ. proj.
      unfold pending_rc in PR. rewrite EQ in PR. exact PR.
Qed.

Lemma step_frozen : forall c s e rc, exit s = Some rc -> step c s e = s.
Proof. intros c s e rc E. unfold step. rewrite E. reflexivity. Qed.

Lemma run_frozen : forall c evs s rc, exit s = Some rc -> fold_left (step c) evs s = s.
Proof.
  intros c evs. induction evs as [|e r IH]; intros s rc E; cbn [fold_left]; [reflexivity|].
  rewrite (step_frozen c s e rc E). eapply IH. exact E.
Qed.

Theorem exit_delivered : forall c evs rc, exit_ref evs = Some rc ->
  exists k, exit (run c (evs ++ repeat WriteStep k ++ [ExitCb])) = Some rc.
Proof.
  intros c evs rc R. destruct (J_run c evs) as [_ JJ]. destruct (exit (run c evs)) as [r|] eqn:E.
  - exists 0. unfold run in *. rewrite fold_left_app. rewrite (run_frozen c _ _ r E), E.
    unfold exit_ref in R. congruence.
  - destruct JJ as [PR _]. unfold exit_ref in R. rewrite R in PR.
    destruct (exit_delivered_from c (length (wq (run c evs))) (run c evs) rc E PR (le_n _)) as (k & _ & Hk).
    exists k. unfold run in *. rewrite fold_left_app. exact Hk.
Qed.

(* what the reference decides, in plain terms *)
Lemma x_status : forall evs rc, exit_ref evs = Some rc -> rc = (if shut_ref evs then 0%Z else 1%Z).
Proof.
  intros evs rc. unfold exit_ref, shut_ref, x_run.
  assert (G : forall l x, (forall r, x_exit x = Some r -> r = if x_shut x then 0%Z else 1%Z) ->
            forall r, x_exit (fold_left x_step l x) = Some r -> r = if x_shut (fold_left x_step l x) then 0%Z else 1%Z).
  { induction l as [|e l IH]; intros x Hx; cbn [fold_left]; [exact Hx|]. apply IH.
    intros r. unfold x_step. destruct (x_exit x) eqn:XE; [rewrite XE; apply Hx|].
    destruct e as [f| | | | | | |]; try (rewrite XE; discriminate).
    destruct f as [|v i ps m|v tag ps m|v i iserr ps]; try (rewrite XE; discriminate).
    - destruct v; [|rewrite XE; discriminate]. destruct ps; try (rewrite XE; discriminate). cbn [x_exit]. discriminate.
    - destruct v; [|rewrite XE; discriminate]. destruct ps; try (rewrite XE; discriminate).
      destruct m; try (rewrite XE; discriminate). cbn [x_exit x_shut]. intro E. inversion E. reflexivity. }
  apply G. cbn. discriminate.
Qed.

(* the two wrappers after fix_C09_2, and start_tcp: the process status is the decided status *)
Definition repaired (w : wrapper) : bool :=
  match w with StartIoAsync | StartIoSync | StartTcp => true | _ => false end.

Theorem exit_status : forall w c evs rc, repaired w = true -> exit (run c evs) = Some rc ->
  status w c evs = Some rc /\ w_released (wrapper_run w (loop_end (run c evs))) = true /\
  rc = (if shut_ref evs then 0%Z else 1%Z).
Proof.
  intros w c evs rc R E. repeat spl.
  - unfold status, loop_end. rewrite E. destruct w; try discriminate; reflexivity.
  - destruct w; reflexivity.
  - apply x_status. eapply exit_sound. exact E.
Qed.

(* ================================================================== Part 4: the shutdown event *)
Lemma send_result_last : forall c i v s, c_wfail c = None -> closed s = false ->
  match c_writer c with
  | WBlocking => out (send_response c Loop i (RpResult v true) s) = out s ++ [OResp i (PResult v)]
  | WAwaitable => wq (send_response c Loop i (RpResult v true) s) = wq s ++ [WFrame (OResp i (PResult v))]
  end.
Proof.
  intros c i v s F C. unfold send_response, send_data, write_call, do_write, failing. cbn [negb]. rewrite F.
  destruct (c_writer c).
  - replace (closed (rtype_pop i s)) with (closed s) by reflexivity. rewrite C. reflexivity.
  - reflexivity.
Qed.

(* the state after the shutdown request, relative to the state right after the cancel loop *)
Lemma shutdown_shape : forall c i u s,
  let s2 := cancel_all c (values (futs s)) (log (WReq i) PBuiltin HStart Loop s) in
  let s3 := log (WReq i) PBuiltin HEnd Loop (set_shutdown true s2) in
  let s4 := chain c (WReq i) u s3 in
  handle_request c i (RShutdown u) s = send_response c Loop i (RpResult VNull true) s4 /\
  H c (WReq i) s3 s4 /\ IO c s4 (send_response c Loop i (RpResult VNull true) s4) /\
  CL c (log (WReq i) PBuiltin HStart Loop s) s2.
Proof.
  intros c i u s s2 s3 s4. repeat spl.
  - reflexivity.
  - apply H_chain.
  - apply IO_send_response.
  - apply CL_cancel_all.
Qed.

Theorem shutdown_reply_null : forall c s i u,
  exit s = None -> shutdown s = false -> c_wfail c = None -> closed s = false ->
  let s' := step c s (Recv (FReq true i POk (RShutdown u))) in
  shutdown s' = true /\
  match c_writer c with
  | WBlocking => exists pre, out s' = out s ++ pre ++ [OResp i (PResult VNull)]
  | WAwaitable => exists pre, wq s' = wq s ++ pre ++ [WFrame (OResp i (PResult VNull))]
  end.
Proof.
  intros c s i u EX SH F C s'.
  assert (E : s' = handle_request c i (RShutdown u) s).
  { unfold s', step. rewrite EX. unfold recv. cbn [negb]. rewrite SH. reflexivity. }
  rewrite E. split.
  - destruct (handle_request_K c i (RShutdown u) s) as [_ B]. rewrite B. apply orb_true_r.
  - destruct (shutdown_shape c i u s) as (E1 & H34 & _ & C12).
    set (s1 := log (WReq i) PBuiltin HStart Loop s) in *.
    set (s2 := cancel_all c (values (futs s)) s1) in *.
    set (s3 := log (WReq i) PBuiltin HEnd Loop (set_shutdown true s2)) in *.
    set (s4 := chain c (WReq i) u s3) in *.
    assert (K4 : K c s s4).
    { eapply K_trans; [apply (KS_log c (WReq i) PBuiltin HStart Loop s)|].
      eapply K_trans; [apply C12|].
      eapply K_trans; [apply K_set_shutdown|].
      eapply K_trans; [apply (KS_log c (WReq i) PBuiltin HEnd Loop)|]. apply H34. }
    destruct K4 as (C4 & _ & _ & (l & W4 & _) & (o & O4)).
    rewrite E1. pose proof (send_result_last c i VNull s4 F (eq_trans C4 C)) as L.
    destruct (c_writer c).
    + exists o. rewrite L, O4, app_assoc. reflexivity.
    + exists l. rewrite L, W4, app_assoc. reflexivity.
Qed.

Lemma existsb_in : forall (A : Type) (p : A -> bool) l x, In x l -> p x = true -> existsb p l = true.
Proof. intros A p l x HI HP. apply existsb_exists. exists x. split; assumption. Qed.

Lemma nth_error_app_some : forall (A : Type) (l l' : list A) n x, nth_error l n = Some x -> nth_error (l ++ l') n = Some x.
Proof.
  intros A l l' n x E. rewrite nth_error_app1; [exact E|]. apply nth_error_Some. rewrite E. discriminate.
Qed.

(* every future in flight when the shutdown request is handled has cancel() called on it *)
Theorem shutdown_requests_cancel : forall c s i u r,
  exit s = None -> shutdown s = false -> In r (values (futs s)) ->
  cancel_requested s (step c s (Recv (FReq true i POk (RShutdown u)))) r.
Proof.
  intros c s i u r EX SH HI.
  assert (E : step c s (Recv (FReq true i POk (RShutdown u))) = handle_request c i (RShutdown u) s).
  { unfold step. rewrite EX. unfold recv. cbn [negb]. rewrite SH. reflexivity. }
  rewrite E. destruct (shutdown_shape c i u s) as (E1 & H34 & IO45 & _).
  set (s1 := log (WReq i) PBuiltin HStart Loop s) in *.
  set (s2 := cancel_all c (values (futs s)) s1) in *.
  set (s3 := log (WReq i) PBuiltin HEnd Loop (set_shutdown true s2)) in *.
  set (s4 := chain c (WReq i) u s3) in *.
  rewrite E1. destruct IO45 as (_ & _ & _ & T5 & J5 & O5).
  destruct H34 as (_ & _ & O4 & _ & (tl & T4 & _) & (jl & J4 & _)).
  destruct r as [t|j|o]; cbn [cancel_requested].
  - intros tk N. rewrite T5, T4. apply nth_error_app_some.
    change (tasks s3) with (tasks s2). unfold s2. rewrite cancel_all_tasks.
    rewrite (existsb_in _ (is_ftask t) _ (FTask t) HI) by (cbn; apply Nat.eqb_refl).
    change (tasks s1) with (tasks s). rewrite N. reflexivity.
  - intros jb N. rewrite J5, J4. apply nth_error_app_some.
    change (jobs s3) with (jobs s2). unfold s2. rewrite cancel_all_jobs.
    rewrite (existsb_in _ (is_fjob j) _ (FJob j) HI) by (cbn; apply Nat.eqb_refl).
    change (jobs s1) with (jobs s). rewrite N. reflexivity.
  - intros x N. rewrite O5, O4.
    change (outg s3) with (outg s2). unfold s2. rewrite cancel_all_outg.
    rewrite (existsb_in _ (is_fout o) _ (FOut o) HI) by (cbn; apply Nat.eqb_refl).
    change (outg s1) with (outg s). rewrite N. reflexivity.
Qed.

(* what the flags mean, per kind *)
Lemma tflag_live : forall tk st l mc, t_st tk = TLive st l mc -> t_st (tflag tk) = TLive st l true.
Proof. intros tk st l mc E. unfold tflag. rewrite E. reflexivity. Qed.
Lemma tflag_done : forall tk, (forall st l mc, t_st tk <> TLive st l mc) -> tflag tk = tk.
Proof. intros tk N. unfold tflag. destruct (t_st tk) eqn:E; try reflexivity. exfalso. eapply N. reflexivity. Qed.
Lemma jflag_queued : forall jb, j_st jb = JQueued -> j_st (jflag jb) = JCancelled.
Proof. intros jb E. unfold jflag. rewrite E. reflexivity. Qed.
Lemma jflag_other : forall jb, j_st jb <> JQueued -> jflag jb = jb.
Proof. intros jb N. unfold jflag. destruct (j_st jb); try reflexivity. contradiction. Qed.

(* a flagged task never runs its handler again normally: unstarted -> finishes cancelled without a
   Start entry; started -> CancelledError is thrown in at its next step *)
Lemma flagged_task_step : forall t s tk st l, nth_error (tasks s) t = Some tk -> t_st tk = TLive st l true ->
  (st = false -> hlog (task_step t s) = hlog s /\
                 exists tk', nth_error (tasks (task_step t s)) t = Some tk' /\ t_st tk' = TDoneCb RCancelled) /\
  (st = true -> exists r, hlog (task_step t s) = hlog s ++ mkH (t_who tk) (t_part tk) HCancel Loop :: r).
Proof.
  intros t s tk st l N T. unfold task_step. rewrite N, T. split; intro E; subst st; cbn [negb].
  - split; [reflexivity|]. unfold set_task_st. proj. rewrite nth_upd_nth, Nat.eqb_refl, N. cbn [option_map].
    eexists. split; reflexivity.
  - destruct (breact (t_b tk)).
    + exists []. reflexivity.
    + unfold task_advance, task_finish. destruct l; unfold set_task_st, log, snoc; proj.
      * eexists. rewrite <- app_assoc. reflexivity.
      * exists []. reflexivity.
Qed.

(* a cancelled work item never starts *)
Lemma cancelled_job_never_starts : forall j s jb, nth_error (jobs s) j = Some jb -> j_st jb = JCancelled ->
  job_start j s = s.
Proof. intros j s jb N E. unfold job_start. rewrite N, E. reflexivity. Qed.

(* frames handed to the transport only accumulate *)
Lemma handed_K : forall c s s' x, K c s s' -> In x (handed s) -> In x (handed s').
Proof.
  intros c s s' x (_ & _ & _ & (l & W & _) & (o & O)) HI. unfold handed in *. rewrite W, O, flat_map_app.
  apply in_app_or in HI. apply in_or_app. destruct HI as [HI|HI].
  - left. apply in_or_app. left. exact HI.
  - right. apply in_or_app. left. exact HI.
Qed.

Lemma cancel_all_answers : forall c rs s j jb k, c_wfail c = None -> closed s = false ->
  In (FJob j) rs -> nth_error (jobs s) j = Some jb -> j_st jb = JQueued -> j_cb jb = CReq k ->
  In (OResp k (PError code_cancelled)) (handed (cancel_all c rs s)).
Proof.
  intros c rs. induction rs as [|r rs IH]; intros s j jb k F C HI N Q CB; [destruct HI|].
  unfold cancel_all. cbn [fold_left]. fold (cancel_all c rs (cancel_ref c r s)).
  destruct (is_fjob j r) eqn:IS.
  - destruct r as [t0|j0|o0]; try discriminate. cbn [is_fjob] in IS. apply Nat.eqb_eq in IS. subst j0.
    apply (handed_K c (cancel_ref c (FJob j) s)); [apply (CL_cancel_all c rs)|].
    unfold cancel_ref. rewrite N, Q, CB. unfold run_cb, request_callback.
    apply (handed_K c (send_response c Loop k (RpError code_cancelled) (set_job_st j JCancelled s)));
      [apply IO_K; apply IO_fut_pop|].
    unfold send_response, send_data, write_call, do_write, failing, handed. cbn [negb fst]. rewrite F.
    destruct (c_writer c).
    + replace (closed (set_job_st j JCancelled s)) with (closed s) by reflexivity. rewrite C. cbn [fst].
      unfold add_out, snoc. proj. apply in_or_app. left. apply in_or_app. right. left. reflexivity.
    + cbn [fst]. unfold add_wq, snoc. proj. apply in_or_app. right. rewrite flat_map_app.
      apply in_or_app. right. left. reflexivity.
  - destruct HI as [HI|HI]; [subst r; cbn [is_fjob] in IS; rewrite Nat.eqb_refl in IS; discriminate|].
    apply (IH (cancel_ref c r s) j jb k F); try assumption.
    + destruct (CL_cancel_ref c r s) as [[(C1 & _) _] _]. congruence.
    + rewrite cancel_ref_jobs, IS. exact N.
Qed.

(* a request whose work item is still queued at shutdown is answered -32800 by its own callback,
   inside the shutdown event *)
Theorem queued_job_answered_cancelled : forall c s i u j jb k,
  exit s = None -> shutdown s = false -> c_wfail c = None -> closed s = false ->
  In (FJob j) (values (futs s)) -> nth_error (jobs s) j = Some jb -> j_st jb = JQueued -> j_cb jb = CReq k ->
  In (OResp k (PError code_cancelled)) (handed (step c s (Recv (FReq true i POk (RShutdown u))))).
Proof.
  intros c s i u j jb k EX SH F C HI N Q CB.
  assert (E : step c s (Recv (FReq true i POk (RShutdown u))) = handle_request c i (RShutdown u) s).
  { unfold step. rewrite EX. unfold recv. cbn [negb]. rewrite SH. reflexivity. }
  rewrite E. destruct (shutdown_shape c i u s) as (E1 & H34 & IO45 & _).
  set (s1 := log (WReq i) PBuiltin HStart Loop s) in *.
  set (s2 := cancel_all c (values (futs s)) s1) in *.
  set (s3 := log (WReq i) PBuiltin HEnd Loop (set_shutdown true s2)) in *.
  rewrite E1.
  apply (handed_K c s2).
  - eapply K_trans; [apply K_set_shutdown|].
    eapply K_trans; [apply (KS_log c (WReq i) PBuiltin HEnd Loop)|].
    eapply K_trans; [apply H34|apply IO45].
  - unfold s2. apply (cancel_all_answers c _ s1 j jb k F); try assumption.
Qed.

(* ================================================================== Part 5: the gate *)
(* once the flag is set, a frame other than an effective `exit` reaches no handler: it can only be
   reported / answered with an error by the read loop *)
Theorem gate_recv : forall c s f, shutdown s = true -> exit_frame f = false -> IO c s (recv c f s).
Proof.
  intros c s f SH E. unfold recv. destruct f as [|v i ps m|v tag ps m|v i iserr ps].
  - apply IO_hook.
  - destruct ps.
    + destruct v; cbn [negb]; [rewrite SH; apply IO_refl|apply IO_hook].
    + eapply IO_trans; [apply IO_send_response|apply IO_hook].
    + eapply IO_trans; [apply IO_send_response|apply IO_hook].
  - destruct ps; try apply IO_hook. destruct v; cbn [negb]; [|apply IO_hook].
    rewrite SH. cbn [exit_frame] in E. destruct m; cbn [is_exit andb negb]; try apply IO_refl. discriminate.
  - assert (P : IO c s (rtype_pop i s)) by apply IO_rtype_pop.
    assert (PH : IO c s (hook c Loop EJsonRpc (rtype_pop i s))) by (eapply IO_trans; [exact P|apply IO_hook]).
    destruct (negb iserr && negb (Assoc.mem id_eqb i (rtypes s))); [exact PH|].
    destruct ps; try exact PH. destruct (negb v); [exact PH|].
    replace (shutdown (rtype_pop i s)) with (shutdown s) by reflexivity. rewrite SH. exact P.
Qed.

(* the in-flight table is not touched either *)
Lemma futs_send_response : forall c sv i r s, futs (send_response c sv i r s) = futs s.
Proof.
  intros [w h f] sv i r s. destruct s.
  destruct w, h, sv, r as [code|v [|]], f as [k|]; unfold send_response, send_data, hook, write_call, do_write, failing,
    rtype_pop, add_out, add_wq, add_err, snoc; cbn;
  repeat match goal with |- context [if ?b then _ else _] => destruct b; cbn end; reflexivity.
Qed.

Lemma futs_hook : forall c sv src s, futs (hook c sv src s) = futs s.
Proof.
  intros [w h f] sv src s. destruct s.
  destruct w, h, sv, src, f as [k|]; unfold hook, write_call, do_write, failing, add_out, add_wq, add_err, snoc; cbn;
  repeat match goal with |- context [if ?b then _ else _] => destruct b; cbn end; reflexivity.
Qed.

Theorem gate_recv_futs : forall c s f, shutdown s = true -> exit_frame f = false -> futs (recv c f s) = futs s.
Proof.
  intros c s f SH E. unfold recv. destruct f as [|v i ps m|v tag ps m|v i iserr ps].
  - apply futs_hook.
  - destruct ps.
    + destruct v; cbn [negb]; [rewrite SH; reflexivity|apply futs_hook].
    + rewrite futs_hook. apply futs_send_response.
    + rewrite futs_hook. apply futs_send_response.
  - destruct ps; try apply futs_hook. destruct v; cbn [negb]; [|apply futs_hook].
    rewrite SH. cbn [exit_frame] in E. destruct m; cbn [is_exit andb negb]; try reflexivity. discriminate.
  - destruct (negb iserr && negb (Assoc.mem id_eqb i (rtypes s))); [rewrite futs_hook; reflexivity|].
    destruct ps; try (rewrite futs_hook; reflexivity). destruct (negb v); [rewrite futs_hook; reflexivity|].
    replace (shutdown (rtype_pop i s)) with (shutdown s) by reflexivity. rewrite SH. reflexivity.
Qed.

(* ------------------------------------------------------------------ who can still start *)
Definition wpart := (who * part)%type.
Definition is_start (h : hentry) : bool := match h_phase h with HStart => true | _ => false end.
Definition twp (tk : task) : wpart := (t_who tk, t_part tk).
Definition jwp (jb : job) : wpart := (j_who jb, j_part jb).
Definition hwp (h : hentry) : wpart := (h_who h, h_part h).

(* handlers admitted but not entered: coroutines not started, work items still queued *)
Definition unstarted (s : st) : list wpart :=
  map twp (filter task_unstarted (tasks s)) ++ map jwp (filter job_queued (jobs s)).
Definition starts (l : list hentry) : list wpart := map hwp (filter is_start l).

Definition HT (w : who) (s s' : st) : Prop :=
  shutdown s' = shutdown s /\
  (exists hl, hlog s' = hlog s ++ hl /\ Forall (fun h => h_who h = w) hl) /\
  (exists tl, tasks s' = tasks s ++ tl /\ Forall (fun tk => t_who tk = w) tl) /\
  (exists jl, jobs s' = jobs s ++ jl /\ Forall (fun jb => j_who jb = w) jl).

Lemma HT_H : forall c w s s', H c w s s' -> HT w s s'.
Proof. intros c w s s' (_ & A1 & _ & A3 & A4 & A5). unfold HT. auto. Qed.

Lemma HT_trans : forall w s1 s2 s3, HT w s1 s2 -> HT w s2 s3 -> HT w s1 s3.
Proof.
  intros w s1 s2 s3 (A1 & (h1 & A3 & A3') & (t1 & A4 & A4') & (j1 & A5 & A5'))
                    (B1 & (h2 & B3 & B3') & (t2 & B4 & B4') & (j2 & B5 & B5')).
  unfold HT. repeat spl; try congruence.
  - exists (h1 ++ h2). split; [rewrite B3, A3, app_assoc; reflexivity|apply Forall_app; split; assumption].
  - exists (t1 ++ t2). split; [rewrite B4, A4, app_assoc; reflexivity|apply Forall_app; split; assumption].
  - exists (j1 ++ j2). split; [rewrite B5, A5, app_assoc; reflexivity|apply Forall_app; split; assumption].
Qed.

Lemma HT_same : forall w s s', shutdown s' = shutdown s -> hlog s' = hlog s -> tasks s' = tasks s -> jobs s' = jobs s ->
  HT w s s'.
Proof.
  intros w s s' A B C D. unfold HT. repeat spl; [exact A| | |]; exists []; rewrite app_nil_r; (split; [assumption|constructor]).
Qed.

Lemma in_unstarted_app : forall s tl jl wp (w : who),
  Forall (fun tk => t_who tk = w) tl -> Forall (fun jb => j_who jb = w) jl ->
  In wp (map twp (filter task_unstarted (tasks s ++ tl)) ++ map jwp (filter job_queued (jobs s ++ jl))) ->
  In wp (unstarted s) \/ fst wp = w.
Proof.
  intros s tl jl wp w FT FJ HI. unfold unstarted. rewrite !filter_app, !map_app in HI.
  apply in_app_or in HI. destruct HI as [HI|HI]; apply in_app_or in HI; destruct HI as [HI|HI].
  - left. apply in_or_app. left. exact HI.
  - right. apply in_map_iff in HI. destruct HI as (tk & E & HI). apply filter_In in HI. destruct HI as [HI _].
    rewrite Forall_forall in FT. subst wp. cbn. apply FT. exact HI.
  - left. apply in_or_app. right. exact HI.
  - right. apply in_map_iff in HI. destruct HI as (jb & E & HI). apply filter_In in HI. destruct HI as [HI _].
    rewrite Forall_forall in FJ. subst wp. cbn. apply FJ. exact HI.
Qed.

Lemma HT_unstarted : forall w s s' wp, HT w s s' -> In wp (unstarted s') -> In wp (unstarted s) \/ fst wp = w.
Proof.
  intros w s s' wp (_ & _ & (tl & T & FT) & (jl & JJ & FJ)) HI. unfold unstarted in HI. rewrite T, JJ in HI.
  eapply in_unstarted_app; eassumption.
Qed.

Lemma HT_starts : forall w s s', HT w s s' ->
  exists new, hlog s' = hlog s ++ new /\ forall wp, In wp (starts new) -> fst wp = w.
Proof.
  intros w s s' (_ & (hl & E & F) & _). exists hl. split; [exact E|]. intros wp HI. unfold starts in HI.
  apply in_map_iff in HI. destruct HI as (h & E' & HI). apply filter_In in HI. destruct HI as [HI _].
  rewrite Forall_forall in F. subst wp. cbn. apply F. exact HI.
Qed.

Lemma in_filter_upd_nth : forall (A : Type) (p : A -> bool) (g : A -> A) l t y,
  (forall x, p (g x) = false) -> In y (filter p (upd_nth t g l)) -> In y (filter p l).
Proof.
  intros A p g l. induction l as [|x r IH]; intros t y G HI; [destruct t; exact HI|].
  destruct t as [|t]; cbn [upd_nth filter] in *.
  - rewrite G in HI. destruct (p x); [right; exact HI|exact HI].
  - destruct (p x).
    + destruct HI as [HI|HI]; [left; exact HI|right; eapply IH; eassumption].
    + eapply IH; eassumption.
Qed.

Definition st_unstarted (x : tstate) : bool := match x with TLive false _ _ => true | _ => false end.

Lemma unstarted_set_task : forall t x s1 s wp, tasks s1 = tasks s -> jobs s1 = jobs s -> st_unstarted x = false ->
  In wp (unstarted (set_task_st t x s1)) -> In wp (unstarted s).
Proof.
  intros t x s1 s wp ET EJ NX HI. unfold unstarted, set_task_st in *. proj. projin HI. rewrite ET, EJ in HI.
  apply in_app_or in HI. apply in_or_app. destruct HI as [HI|HI]; [left|right; exact HI].
  apply in_map_iff in HI. destruct HI as (tk & E & HI). apply in_map_iff. exists tk. split; [exact E|].
  eapply in_filter_upd_nth; [|exact HI]. intro tk0. unfold task_unstarted. cbn [t_st]. destruct x as [[|] ? ?| |]; try reflexivity. discriminate.
Qed.

Lemma unstarted_set_job : forall j x s1 s wp, tasks s1 = tasks s -> jobs s1 = jobs s -> x <> JQueued ->
  In wp (unstarted (set_job_st j x s1)) -> In wp (unstarted s).
Proof.
  intros j x s1 s wp ET EJ NX HI. unfold unstarted, set_job_st in *. proj. projin HI. rewrite ET, EJ in HI.
  apply in_app_or in HI. apply in_or_app. destruct HI as [HI|HI]; [left; exact HI|right].
  apply in_map_iff in HI. destruct HI as (jb & E & HI). apply in_map_iff. exists jb. split; [exact E|].
  eapply in_filter_upd_nth; [|exact HI]. intro jb0. unfold job_queued. cbn [j_st]. destruct x; try reflexivity. contradiction.
Qed.

Lemma IO_unstarted : forall c s s', IO c s s' -> unstarted s' = unstarted s.
Proof. intros c s s' (_ & _ & _ & T & JJ & _). unfold unstarted. rewrite T, JJ. reflexivity. Qed.

(* what an event may start / leave startable once the flag is set *)
Definition allowed (s : st) (e : ev) (wp : wpart) : Prop :=
  In wp (unstarted s) \/ exists tag, In tag (exit_tag e) /\ fst wp = WNot tag.

Definition gate_post (s : st) (e : ev) (s' : st) : Prop :=
  shutdown s' = true /\
  exists new, hlog s' = hlog s ++ new /\
    (forall wp, In wp (starts new) -> allowed s e wp) /\
    (forall wp, In wp (unstarted s') -> allowed s e wp).

Lemma gate_post_quiet : forall s e s', shutdown s = true -> shutdown s' = shutdown s -> hlog s' = hlog s ->
  (forall wp, In wp (unstarted s') -> In wp (unstarted s)) -> gate_post s e s'.
Proof.
  intros s e s' SH E1 E2 U. split; [congruence|]. exists []. rewrite app_nil_r. repeat spl; [exact E2| |].
  - intros wp [].
  - intros wp HI. left. apply U. exact HI.
Qed.

Lemma gate_post_IO : forall c s e s', shutdown s = true -> IO c s s' -> gate_post s e s'.
Proof.
  intros c s e s' SH P. pose proof (IO_unstarted c s s' P) as U. destruct P as (_ & A1 & A2 & _).
  apply gate_post_quiet; try assumption. intros wp HI. rewrite <- U. exact HI.
Qed.

Theorem gate_step : forall c s e, shutdown s = true -> gate_post s e (step c s e).
Proof.
  intros c s e SH. unfold step. destruct (exit s) eqn:EX.
  { apply gate_post_quiet; auto. }
  destruct e as [f|t|t|j|j| | |i].
  - (* Recv *)
    destruct (exit_frame f) eqn:EF; [|eapply gate_post_IO; [exact SH|apply gate_recv; assumption]].
    destruct (exit_frame_inv f EF) as (tag & u & Ef). subst f.
    assert (P : HT (WNot tag) s (recv c (FNotif true tag POk (NExit u)) s)).
    { unfold recv. cbn [negb is_exit]. rewrite andb_false_r. unfold handle_notification, lsp_exit.
      destruct (c_writer c).
      - unfold HT, log, snoc. proj. repeat spl; [reflexivity| | |].
        + eexists. split; [reflexivity|]. constructor; [reflexivity|constructor].
        + exists []. rewrite app_nil_r. split; [reflexivity|constructor].
        + exists []. rewrite app_nil_r. split; [reflexivity|constructor].
      - eapply HT_trans; [|eapply (HT_H c); apply H_chain].
        eapply HT_trans; [|eapply (HT_H c); apply H_log].
        eapply HT_trans; [eapply (HT_H c); apply (H_log c (WNot tag) PBuiltin HStart Loop s)|].
        apply HT_same; reflexivity. }
    split; [destruct P as (A & _); congruence|].
    destruct (HT_starts _ _ _ P) as (new & E & F). exists new. repeat spl; [exact E| |].
    + intros wp HI. right. exists tag. split; [left; reflexivity|apply F; exact HI].
    + intros wp HI. destruct (HT_unstarted _ _ _ wp P HI) as [U|U]; [left; exact U|].
      right. exists tag. split; [left; reflexivity|exact U].
  - (* TaskStep *)
    unfold task_step. destruct (nth_error (tasks s) t) as [tk|] eqn:N; [|apply gate_post_quiet; auto].
    destruct (t_st tk) as [st l mc| |] eqn:T; try (solve [apply gate_post_quiet; auto]).
    assert (QUIET : forall x s1, tasks s1 = tasks s -> jobs s1 = jobs s -> shutdown s1 = shutdown s ->
              (exists new, hlog s1 = hlog s ++ new /\ forall wp, In wp (starts new) -> In wp (unstarted s)) ->
              st_unstarted x = false -> gate_post s (TaskStep t) (set_task_st t x s1)).
    { intros x s1 ET EJ ES (new & EH & ST) NX. split; [unfold set_task_st; proj; congruence|].
      exists new. repeat spl.
      - unfold set_task_st. proj. exact EH.
      - intros wp HI. left. apply ST. exact HI.
      - intros wp HI. left. eapply unstarted_set_task; eassumption. }
    assert (NONE : exists new : list hentry, hlog s = hlog s ++ new /\ forall wp, In wp (starts new) -> In wp (unstarted s)).
    { exists []. rewrite app_nil_r. split; [reflexivity|]. intros wp []. }
    assert (MINE : st = false -> In (twp tk) (unstarted s)).
    { intro E. subst st. unfold unstarted. apply in_or_app. left. apply in_map. apply filter_In.
      split; [eapply nth_error_In; exact N|]. unfold task_unstarted. rewrite T. reflexivity. }
    assert (ADV : forall st0 s1, tasks s1 = tasks s -> jobs s1 = jobs s -> shutdown s1 = shutdown s ->
              (exists new, hlog s1 = hlog s ++ new /\ forall wp, In wp (starts new) -> In wp (unstarted s)) ->
              (st0 = false -> st = false) ->
              gate_post s (TaskStep t) (task_advance t tk st0 l s1)).
    { intros st0 s1 ET EJ ES (new & EH & ST) IMP. unfold task_advance, task_finish.
      set (s1' := if st0 then s1 else log (t_who tk) (t_part tk) HStart Loop s1).
      assert (F1 : tasks s1' = tasks s /\ jobs s1' = jobs s /\ shutdown s1' = shutdown s)
        by (unfold s1'; destruct st0; repeat spl; assumption).
      assert (LOGGED : exists new' : list hentry, hlog s1' = hlog s ++ new' /\
                forall wp, In wp (starts new') -> In wp (unstarted s)).
      { unfold s1'. destruct st0.
        - exists new. split; assumption.
        - exists (new ++ [mkH (t_who tk) (t_part tk) HStart Loop]). split.
          + unfold log, snoc. proj. rewrite EH, app_assoc. reflexivity.
          + intros wp HI. unfold starts in HI. rewrite filter_app, map_app in HI. apply in_app_or in HI.
            destruct HI as [HI|HI]; [apply ST; exact HI|]. cbn in HI. destruct HI as [HI|[]]. subst wp.
            apply MINE. apply IMP. reflexivity. }
      clearbody s1'. destruct F1 as (F1 & F2 & F3). destruct LOGGED as (new' & EH' & ST').
      destruct l.
      - apply QUIET; [exact F1|exact F2|exact F3| |reflexivity].
        exists (new' ++ [mkH (t_who tk) (t_part tk) HEnd Loop]). split.
        + unfold log, snoc. proj. rewrite EH', app_assoc. reflexivity.
        + intros wp HI. unfold starts in HI. rewrite filter_app, map_app in HI. apply in_app_or in HI.
          destruct HI as [HI|HI]; [apply ST'; exact HI|destruct HI].
      - apply QUIET; [exact F1|exact F2|exact F3| |reflexivity]. exists new'. split; assumption. }
    destruct mc.
    + destruct st; cbn [negb].
      * assert (CAN : exists new : list hentry, hlog (log (t_who tk) (t_part tk) HCancel Loop s) = hlog s ++ new /\
                        forall wp, In wp (starts new) -> In wp (unstarted s)).
        { exists [mkH (t_who tk) (t_part tk) HCancel Loop]. split; [reflexivity|]. intros wp []. }
        destruct (breact (t_b tk)).
        -- apply QUIET; try reflexivity. exact CAN.
        -- apply ADV; try reflexivity; [exact CAN|discriminate].
      * apply QUIET; try reflexivity. exact NONE.
    + apply ADV; try reflexivity; [exact NONE|auto].
  - (* LoopCb *)
    unfold loop_cb. destruct (nth_error (tasks s) t) as [tk|] eqn:N; [|apply gate_post_quiet; auto].
    destruct (t_st tk) as [| r |] eqn:T; try (solve [apply gate_post_quiet; auto]).
    pose proof (IO_run_cb c Loop (t_cb tk) r (set_task_st t (TFin r) s)) as P.
    pose proof (IO_unstarted _ _ _ P) as U. destruct P as (_ & A1 & A2 & _).
    apply gate_post_quiet; [exact SH|rewrite A1; reflexivity|rewrite A2; reflexivity|].
    intros wp HI. rewrite U in HI. eapply (unstarted_set_task t (TFin r) s s); try reflexivity. exact HI.
  - (* JobStart *)
    unfold job_start. destruct (nth_error (jobs s) j) as [jb|] eqn:N; [|apply gate_post_quiet; auto].
    destruct (j_st jb) eqn:JS; try (solve [apply gate_post_quiet; auto]).
    split; [exact SH|]. exists [mkH (j_who jb) (j_part jb) HStart Pool]. repeat spl; [reflexivity| |].
    + intros wp HI. cbn in HI. destruct HI as [HI|[]]. subst wp. left.
      unfold unstarted. apply in_or_app. right. apply (in_map jwp). apply filter_In.
      split; [eapply nth_error_In; exact N|]. unfold job_queued. rewrite JS. reflexivity.
    + intros wp HI. left. eapply (unstarted_set_job j JRunning s s); try reflexivity; [discriminate|].
      unfold unstarted in *. exact HI.
  - (* JobFinish *)
    unfold job_finish. destruct (nth_error (jobs s) j) as [jb|] eqn:N; [|apply gate_post_quiet; auto].
    destruct (j_st jb) eqn:JS; try (solve [apply gate_post_quiet; auto]).
    set (r := res_of (bout (j_b jb))). set (s0 := log (j_who jb) (j_part jb) HEnd Pool s).
    pose proof (IO_run_cb c Pool (j_cb jb) r (set_job_st j (JDone r) s0)) as P.
    pose proof (IO_unstarted _ _ _ P) as U. destruct P as (_ & A1 & A2 & _).
    split; [rewrite A1; exact SH|]. exists [mkH (j_who jb) (j_part jb) HEnd Pool]. repeat spl.
    + rewrite A2. reflexivity.
    + intros wp [].
    + intros wp HI. left. rewrite U in HI. eapply (unstarted_set_job j (JDone r) s0 s); try reflexivity; [discriminate|exact HI].
  - (* WriteStep *)
    unfold write_step. destruct (wq s) as [|w r]; [apply gate_post_quiet; auto|].
    destruct w as [f|rc].
    + unfold do_write. proj. destruct (closed s); cbn [fst]; [apply gate_post_quiet; auto|].
      destruct (failing c (nwrites s)); cbn [fst]; apply gate_post_quiet; auto.
    + apply gate_post_quiet; auto.
  - (* ExitCb *)
    unfold exit_cb. destruct (exitq s); apply gate_post_quiet; auto.
  - (* UserSend *)
    unfold user_send.
    set (s2 := set_rtypes _ _).
    pose proof (IO_send_data c Loop (OReq i) true s2) as P.
    pose proof (IO_unstarted _ _ _ P) as U. destruct P as (_ & A1 & A2 & _).
    apply gate_post_quiet; [exact SH|rewrite A1; reflexivity|rewrite A2; reflexivity|].
    intros wp HI. rewrite U in HI. exact HI.
Qed.

(* whole histories: every handler entered after the flag was set either was admitted before
   (a coroutine not yet started or a work item still queued in the state s0) or belongs to an
   `exit` notification received since *)
Lemma exit_tags_cons : forall e evs tag, In tag (exit_tag e) -> In tag (exit_tags (e :: evs)).
Proof. intros e evs tag HI. unfold exit_tags. cbn [flat_map]. apply in_or_app. left. exact HI. Qed.

Lemma exit_tags_tail : forall e evs tag, In tag (exit_tags evs) -> In tag (exit_tags (e :: evs)).
Proof. intros e evs tag HI. unfold exit_tags. cbn [flat_map]. apply in_or_app. right. exact HI. Qed.

Definition admitted (s0 : st) (evs : list ev) (wp : wpart) : Prop :=
  In wp (unstarted s0) \/ exists tag, In tag (exit_tags evs) /\ fst wp = WNot tag.

Lemma gate_from : forall c evs s0, shutdown s0 = true ->
  let s := fold_left (step c) evs s0 in
  shutdown s = true /\
  exists new, hlog s = hlog s0 ++ new /\
    (forall wp, In wp (starts new) -> admitted s0 evs wp) /\
    (forall wp, In wp (unstarted s) -> admitted s0 evs wp).
Proof.
  intros c evs. induction evs as [|e r IH]; intros s0 SH; cbn [fold_left].
  - split; [exact SH|]. exists []. rewrite app_nil_r. repeat spl; [reflexivity| |].
    + intros wp [].
    + intros wp HI. left. exact HI.
  - destruct (gate_step c s0 e SH) as (SH1 & new1 & E1 & ST1 & U1).
    destruct (IH (step c s0 e) SH1) as (SH2 & new2 & E2 & ST2 & U2).
    assert (LIFT : forall wp, admitted (step c s0 e) r wp -> admitted s0 (e :: r) wp).
    { intros wp [HI|(tag & Htg & HW)].
      - destruct (U1 wp HI) as [A|(tag & A & B)]; [left; exact A|].
        right. exists tag. split; [apply exit_tags_cons; exact A|exact B].
      - right. exists tag. split; [apply exit_tags_tail; exact Htg|exact HW]. }
    split; [exact SH2|]. exists (new1 ++ new2). repeat spl.
    + rewrite E2, E1, app_assoc. reflexivity.
    + intros wp HI. unfold starts in HI. rewrite filter_app, map_app in HI. apply in_app_or in HI.
      destruct HI as [HI|HI].
      * destruct (ST1 wp HI) as [A|(tag & A & B)]; [left; exact A|].
        right. exists tag. split; [apply exit_tags_cons; exact A|exact B].
      * apply LIFT. apply ST2. exact HI.
    + intros wp HI. apply LIFT. apply U2. exact HI.
Qed.

Theorem gate_after_shutdown : forall c evs1 evs2, shutdown (run c evs1) = true ->
  shutdown (run c (evs1 ++ evs2)) = true /\
  exists new, hlog (run c (evs1 ++ evs2)) = hlog (run c evs1) ++ new /\
    forall wp, In wp (starts new) -> admitted (run c evs1) evs2 wp.
Proof.
  intros c evs1 evs2 SH. unfold run in *. rewrite fold_left_app.
  destruct (gate_from c evs2 _ SH) as (A & new & B & C & _). split; [exact A|]. exists new. split; assumption.
Qed.

(* ================================================================== Part 6: pending requests *)
Lemma existsb_sum_pos : forall (A : Type) (p : A -> bool) (f : A -> nat) l,
  (forall x, p x = true -> 1 <= f x) -> existsb p l = true -> 1 <= sum f l.
Proof.
  intros A p f l Hp. induction l as [|x r IH]; cbn [existsb]; [discriminate|].
  intro E. cbn [sum fold_right]. fold (sum f r). apply orb_true_iff in E. destruct E as [E|E].
  - specialize (Hp x E). lia.
  - specialize (IH E). lia.
Qed.

Lemma pending_bal : forall k s, pending_request k s = true -> 1 <= bal k s.
Proof.
  intros k s P. unfold pending_request in P. apply orb_true_iff in P. unfold bal. destruct P as [P|P].
  - assert (1 <= sum (ptask k) (tasks s)); [|lia]. apply (existsb_sum_pos _ (task_pending k)); [|exact P].
    intros tk E. unfold task_pending in E. apply andb_true_iff in E. destruct E as [E1 E2].
    unfold ptask. destruct (t_st tk); try discriminate; unfold cb_req in E1; unfold cb_is; rewrite E1; cbn; lia.
  - assert (1 <= sum (pjob k) (jobs s)); [|lia]. apply (existsb_sum_pos _ (job_pending k)); [|exact P].
    intros jb E. unfold job_pending in E. apply andb_true_iff in E. destruct E as [E1 E2].
    unfold pjob. destruct (j_st jb); try discriminate; unfold cb_req in E1; unfold cb_is; rewrite E1; cbn; lia.
Qed.

Lemma guard_app_l : forall c l1 l2, guard c (l1 ++ l2) = true -> guard c l1 = true.
Proof.
  intros c l1 l2 G. unfold guard, f18_class in *. rewrite !existsb_app in G.
  apply andb_true_iff in G. destruct G as [G G3]. apply andb_true_iff in G. destruct G as [G1 G2].
  rewrite G1. apply negb_true_iff in G3. apply orb_false_iff in G3. destruct G3 as [G3 _]. rewrite G3.
  apply negb_true_iff in G2. destruct (awaitable c); cbn [andb negb] in *; [|reflexivity].
  apply orb_false_iff in G2. destruct G2 as [G2 _]. rewrite G2. reflexivity.
Qed.

Lemma sp_exp_prefix : forall l x, exists t, sp_exp (fold_left sp_step l x) = sp_exp x ++ t.
Proof.
  induction l as [|e r IH]; intro x; cbn [fold_left]; [exists []; rewrite app_nil_r; reflexivity|].
  destruct (IH (sp_step x e)) as (t & E). rewrite E.
  assert (P : exists t0, sp_exp (sp_step x e) = sp_exp x ++ t0).
  { unfold sp_step. destruct e as [f| | | | | | |]; try (exists []; rewrite app_nil_r; reflexivity).
    destruct f as [|v i ps m|v tag ps m|v i iserr ps]; try (exists []; rewrite app_nil_r; reflexivity).
    - destruct ps; [|eexists; reflexivity|eexists; reflexivity].
      destruct (v && negb (sp_shut x)); [eexists; reflexivity|exists []; rewrite app_nil_r; reflexivity].
    - destruct v, ps, m; exists []; rewrite app_nil_r; reflexivity. }
  destruct P as (t0 & E0). rewrite E0. exists (t0 ++ t). rewrite app_assoc. reflexivity.
Qed.

Lemma expected_app_in : forall l1 l2 k, In k (expected l1) -> In k (expected (l1 ++ l2)).
Proof.
  intros l1 l2 k HI. unfold expected, sp_run in *. rewrite fold_left_app.
  destruct (sp_exp_prefix l2 (fold_left sp_step l1 sp_init)) as (t & E). rewrite E. apply in_or_app. left. exact HI.
Qed.

(* requests with a live handler when the shutdown request arrives are still answered exactly once
   (`handler_codes_int32`: the domain on which the model's "answered" is claimed faithful, as in C01 / C08) *)
Theorem pending_still_answered_once : forall c pre f post,
  let evs := pre ++ Recv f :: post in
  shutdown_frame f = true -> handler_codes_int32 evs = true ->
  guard c evs = true -> quiescent (run c evs) = true ->
  (forall k, replies k (out (run c evs)) = count_id k (expected evs)) /\
  (forall k, pending_request k (run c pre) = true -> In k (expected evs)) /\
  (NoDup (req_ids evs) -> forall k, pending_request k (run c pre) = true -> replies k (out (run c evs)) = 1).
Proof.
  intros c pre f post evs SF _ G Q.
  assert (OW : forall k, pending_request k (run c pre) = true -> In k (expected evs)).
  { intros k P. unfold evs. apply expected_app_in.
    pose proof (guard_app_l c pre (Recv f :: post) G) as G1.
    destruct (balance_run c pre G1) as [_ B]. pose proof (pending_bal k _ P) as L. rewrite B in L.
    apply count_id_pos_in. lia. }
  repeat spl.
  - intro k. apply exactly_one_at_quiescence; assumption.
  - exact OW.
  - intros ND k P. apply exactly_one_distinct; try assumption. apply OW. exact P.
Qed.

(* the shutdown event itself owes one reply more (its own) and loses or doubles none *)
Theorem shutdown_step_balance : forall c s i u, good c s -> c_wfail c = None -> shutdown s = false ->
  let s' := step c s (Recv (FReq true i POk (RShutdown u))) in
  good c s' /\ forall k, bal k s' = bal k s + ind (id_eqb k i).
Proof.
  intros c s i u G F SH s'.
  assert (E : s' = handle_request c i (RShutdown u) s).
  { unfold s', step. destruct G as (_ & _ & _ & EX & _). rewrite EX. unfold recv. cbn [negb]. rewrite SH. reflexivity. }
  rewrite E. destruct (handle_request_bal c i (RShutdown u) s G F I) as (G' & B & _). split; [exact G'|exact B].
Qed.

(* with a synchronous close, `exit` leaves what was written as it is: replies produced before
   `exit` is processed stay exactly those *)
Theorem exit_keeps_replies : forall c evs f rest, c_writer c = WBlocking -> exit_frame f = true ->
  out (run c (evs ++ Recv f :: rest)) = out (run c evs).
Proof.
  intros c evs f rest W EF. unfold run. rewrite fold_left_app. cbn [fold_left].
  set (s := fold_left (step c) evs init).
  assert (E : exists rc, exit (step c s (Recv f)) = Some rc /\ out (step c s (Recv f)) = out s).
  { unfold step. destruct (exit s) as [rc|] eqn:EX; [exists rc; split; [exact EX|reflexivity]|].
    destruct (exit_frame_inv f EF) as (tag & u & ->). unfold recv. cbn [negb is_exit]. rewrite andb_false_r.
    unfold handle_notification, lsp_exit. rewrite W. eexists. split; reflexivity. }
  destruct E as (rc & E1 & E2). rewrite (run_frozen c rest _ rc E1). exact E2.
Qed.

(* ================================================================== Part 7: a cancelled, unstarted request never starts *)
(* the states a coroutine goes through once cancel() found it unstarted: it is finished cancelled by
   its next step without being entered, then its done-callback runs *)
Definition dead (x : tstate) : Prop :=
  match x with TLive false _ true | TDoneCb RCancelled | TFin RCancelled => True | _ => False end.
Definition dead_at (t : nat) (s : st) : Prop := exists tk, nth_error (tasks s) t = Some tk /\ dead (t_st tk).

Definition DR (s s' : st) : Prop := forall t, dead_at t s -> dead_at t s'.

Lemma DR_refl : forall s, DR s s. Proof. intros s t D. exact D. Qed.
Lemma DR_trans : forall s1 s2 s3, DR s1 s2 -> DR s2 s3 -> DR s1 s3.
Proof. intros s1 s2 s3 A B t D. apply B. apply A. exact D. Qed.

Lemma DR_app : forall s s' tl, tasks s' = tasks s ++ tl -> DR s s'.
Proof. intros s s' tl E t (tk & N & D). exists tk. split; [rewrite E; apply nth_error_app_some; exact N|exact D]. Qed.

Lemma DR_same : forall s s', tasks s' = tasks s -> DR s s'.
Proof. intros s s' E. apply (DR_app s s' []). rewrite app_nil_r. exact E. Qed.

Lemma DR_IO : forall c s s', IO c s s' -> DR s s'.
Proof. intros c s s' (_ & _ & _ & T & _). apply DR_same. exact T. Qed.

Lemma DR_H : forall c w s s', H c w s s' -> DR s s'.
Proof. intros c w s s' (_ & _ & _ & _ & (tl & T & _) & _). eapply DR_app. exact T. Qed.

Lemma dead_tflag : forall tk, dead (t_st tk) -> dead (t_st (tflag tk)).
Proof.
  intros tk D. unfold tflag. destruct (t_st tk) as [st l mc| |] eqn:E; try exact D; try (rewrite E; exact D).
  cbn [t_st]. destruct st; [cbn in D; contradiction|exact I].
Qed.

Lemma DR_cancel_ref : forall c r s, DR s (cancel_ref c r s).
Proof.
  intros c r s t (tk & N & D). unfold dead_at. rewrite cancel_ref_tasks, N. destruct (is_ftask t r); cbn [option_map].
  - exists (tflag tk). split; [reflexivity|apply dead_tflag; exact D].
  - exists tk. split; [reflexivity|exact D].
Qed.

Lemma DR_cancel_all : forall c rs s, DR s (cancel_all c rs s).
Proof.
  intros c rs. unfold cancel_all. induction rs as [|r rs IH]; intro s; cbn [fold_left]; [apply DR_refl|].
  eapply DR_trans; [apply DR_cancel_ref|apply IH].
Qed.

Lemma DR_handle_request : forall c i m s, DR s (handle_request c i m s).
Proof.
  intros c i m s. destruct m as [|b|u|fails u|cmd u];
    [unfold handle_request|unfold handle_request| |unfold handle_request|unfold handle_request].
  - eapply (DR_IO c). eapply IO_trans; [apply IO_send_response|apply IO_hook].
  - pose proof (H_execute_request c i PUser b s) as P.
    destruct (execute_request c i PUser b s) as [s1 x]. cbn [fst] in P.
    eapply DR_trans; [eapply (DR_H c); exact P|eapply (DR_IO c); apply IO_on_exc].
  - destruct (shutdown_shape c i u s) as (E1 & H34 & IO45 & _). rewrite E1.
    eapply DR_trans; [|eapply (DR_IO c); exact IO45]. eapply DR_trans; [|eapply (DR_H c); exact H34].
    eapply DR_trans; [apply (DR_same s (log (WReq i) PBuiltin HStart Loop s)); reflexivity|].
    eapply DR_trans; [apply DR_cancel_all|]. apply DR_same. reflexivity.
  - eapply DR_trans; [apply (DR_same s (log (WReq i) PBuiltin HEnd Loop (log (WReq i) PBuiltin HStart Loop s))); reflexivity|].
    destruct fails.
    + eapply (DR_IO c). apply IO_on_exc.
    + eapply DR_trans; [eapply (DR_H c); apply H_chain|eapply (DR_IO c); apply IO_send_response].
  - eapply DR_trans; [apply (DR_same s (log (WReq i) PBuiltin HStart Loop s)); reflexivity|].
    destruct cmd as [b|].
    + pose proof (H_execute_request c i PCommand b (log (WReq i) PBuiltin HStart Loop s)) as P.
      destruct (execute_request c i PCommand b (log (WReq i) PBuiltin HStart Loop s)) as [s2 x]. cbn [fst] in P.
      eapply DR_trans; [eapply (DR_H c); exact P|].
      eapply DR_trans; [apply (DR_same s2 (log (WReq i) PBuiltin HEnd Loop s2)); reflexivity|].
      destruct x as [e|]; [eapply (DR_IO c); apply IO_on_exc|eapply (DR_H c); apply H_chain].
    + eapply DR_trans; [apply (DR_same _ (log (WReq i) PBuiltin HEnd Loop (log (WReq i) PBuiltin HStart Loop s))); reflexivity|].
      eapply (DR_IO c). apply IO_on_exc.
Qed.

Lemma DR_handle_notification : forall c tag m s, DR s (handle_notification c tag m s).
Proof.
  intros c tag m s. unfold handle_notification. destruct m as [|b|i|u|fails u].
  - apply DR_refl.
  - pose proof (H_exec_notification c (WNot tag) PUser b s) as P.
    destruct (exec_notification c (WNot tag) PUser b s) as [s1 x]. cbn [fst] in P.
    destruct x; [|eapply (DR_H c); exact P]. eapply DR_trans; [eapply (DR_H c); exact P|eapply (DR_IO c); apply IO_hook].
  - unfold cancel_notification. destruct (Assoc.get id_eqb i (futs s)); [|apply DR_refl].
    eapply DR_trans; [eapply (DR_IO c); apply IO_fut_pop|apply DR_cancel_ref].
  - unfold lsp_exit. destruct (c_writer c).
    + apply DR_same. reflexivity.
    + eapply DR_trans; [|eapply (DR_H c); apply H_chain]. apply DR_same. reflexivity.
  - eapply DR_trans; [apply (DR_same s (log (WNot tag) PBuiltin HEnd Loop (log (WNot tag) PBuiltin HStart Loop s))); reflexivity|].
    destruct fails; [eapply (DR_IO c); apply IO_hook|eapply (DR_H c); apply H_chain].
Qed.

Lemma DR_handle_response : forall c i s, DR s (handle_response c i s).
Proof.
  intros c i s. unfold handle_response.
  destruct (Assoc.get id_eqb i (futs s)) as [r|]; [|eapply (DR_IO c); apply IO_hook].
  assert (PH : DR s (hook c Loop EJsonRpc (fut_pop i s))).
  { eapply (DR_IO c). eapply IO_trans; [apply IO_fut_pop|apply IO_hook]. }
  destruct r as [t|j|o].
  - exact PH.
  - eapply DR_trans; [exact PH|eapply (DR_IO c); apply IO_set_undef].
  - destruct (nth_error (outg (fut_pop i s)) o) as [[| |]|]; try exact PH. apply DR_same. reflexivity.
Qed.

Lemma DR_recv : forall c f s, DR s (recv c f s).
Proof.
  intros c f s. unfold recv. destruct f as [|v i ps m|v tag ps m|v i iserr ps].
  - eapply (DR_IO c). apply IO_hook.
  - destruct ps.
    + destruct (negb v); [eapply (DR_IO c); apply IO_hook|]. destruct (shutdown s); [apply DR_refl|apply DR_handle_request].
    + eapply (DR_IO c). eapply IO_trans; [apply IO_send_response|apply IO_hook].
    + eapply (DR_IO c). eapply IO_trans; [apply IO_send_response|apply IO_hook].
  - destruct ps; try (eapply (DR_IO c); apply IO_hook).
    destruct (negb v); [eapply (DR_IO c); apply IO_hook|].
    destruct (shutdown s && negb (is_exit m)); [apply DR_refl|apply DR_handle_notification].
  - assert (P : DR s (rtype_pop i s)) by (apply DR_same; reflexivity).
    assert (PH : DR s (hook c Loop EJsonRpc (rtype_pop i s))).
    { eapply (DR_IO c). eapply IO_trans; [apply IO_rtype_pop|apply IO_hook]. }
    destruct (negb iserr && negb (Assoc.mem id_eqb i (rtypes s))); [exact PH|].
    destruct ps; try exact PH. destruct (negb v); [exact PH|].
    destruct (shutdown (rtype_pop i s)); [exact P|]. eapply DR_trans; [exact P|apply DR_handle_response].
Qed.

Lemma DR_set_task : forall t0 x s1 s, tasks s1 = tasks s ->
  (forall tk, nth_error (tasks s) t0 = Some tk -> dead (t_st tk) -> dead x) -> DR s (set_task_st t0 x s1).
Proof.
  intros t0 x s1 s E HX t (tk & N & D). unfold dead_at, set_task_st. proj. rewrite E, nth_upd_nth, N.
  destruct (Nat.eqb t0 t) eqn:EQ; cbn [option_map].
  - apply Nat.eqb_eq in EQ. subst t0. eexists. split; [reflexivity|]. cbn [t_st]. eapply HX; eassumption.
  - exists tk. split; [reflexivity|exact D].
Qed.

Lemma DR_task_step : forall t0 s, DR s (task_step t0 s).
Proof.
  intros t0 s. unfold task_step. destruct (nth_error (tasks s) t0) as [tk|] eqn:N; [|apply DR_refl].
  destruct (t_st tk) as [st l mc| |] eqn:T; try apply DR_refl.
  assert (LIVE : forall x s1, tasks s1 = tasks s -> (st = false -> mc = true -> dead x) -> DR s (set_task_st t0 x s1)).
  { intros x s1 E HX. apply DR_set_task; [exact E|]. intros tk' N' D. rewrite N in N'. inversion N'; subst tk'.
    rewrite T in D. destruct st; [destruct D|]. destruct mc; [|destruct D]. apply HX; reflexivity. }
  destruct mc.
  - destruct st; cbn [negb].
    + destruct (breact (t_b tk)).
      * apply LIVE; [reflexivity|discriminate].
      * unfold task_advance, task_finish. destruct l; apply LIVE; try reflexivity; discriminate.
    + apply LIVE; [reflexivity|]. intros _ _. exact I.
  - unfold task_advance, task_finish. destruct st, l; apply LIVE; try reflexivity; discriminate.
Qed.

Lemma DR_loop_cb : forall c t0 s, DR s (loop_cb c t0 s).
Proof.
  intros c t0 s. unfold loop_cb. destruct (nth_error (tasks s) t0) as [tk|] eqn:N; [|apply DR_refl].
  destruct (t_st tk) as [| r |] eqn:T; try apply DR_refl.
  eapply DR_trans; [|eapply (DR_IO c); apply IO_run_cb].
  apply DR_set_task; [reflexivity|]. intros tk' N' D. rewrite N in N'. inversion N'; subst tk'.
  rewrite T in D. destruct r; try destruct D. exact I.
Qed.

Lemma DR_step : forall c s e, DR s (step c s e).
Proof.
  intros c s e. unfold step. destruct (exit s); [apply DR_refl|].
  destruct e as [f|t|t|j|j| | |i].
  - apply DR_recv.
  - apply DR_task_step.
  - apply DR_loop_cb.
  - unfold job_start. destruct (nth_error (jobs s) j) as [jb|]; [|apply DR_refl].
    destruct (j_st jb); try apply DR_refl. apply DR_same. reflexivity.
  - unfold job_finish. destruct (nth_error (jobs s) j) as [jb|]; [|apply DR_refl].
    destruct (j_st jb); try apply DR_refl.
    eapply DR_trans; [|eapply (DR_IO c); apply IO_run_cb]. apply DR_same. reflexivity.
  - unfold write_step. destruct (wq s) as [|w r]; [apply DR_refl|]. destruct w.
    + unfold do_write. proj. destruct (closed s); cbn [fst]; [apply DR_same; reflexivity|].
      destruct (failing c (nwrites s)); cbn [fst]; apply DR_same; reflexivity.
    + apply DR_same. reflexivity.
  - unfold exit_cb. destruct (exitq s); apply DR_same; reflexivity.
  - unfold user_send. eapply DR_trans; [|eapply (DR_IO c); apply IO_send_data]. apply DR_same. reflexivity.
Qed.

(* whatever happens next - every schedule, every further frame, cancel notifications, exit - a request
   whose coroutine was unstarted when cancel() was called on it is never entered: its task goes
   TLive false _ true -> TDoneCb RCancelled -> TFin RCancelled, and stepping it never logs anything *)
Theorem cancelled_unstarted_never_starts : forall c evs s t, dead_at t s ->
  dead_at t (fold_left (step c) evs s) /\
  hlog (step c (fold_left (step c) evs s) (TaskStep t)) = hlog (fold_left (step c) evs s).
Proof.
  intros c evs s t D.
  assert (D' : dead_at t (fold_left (step c) evs s)).
  { revert s D. induction evs as [|e r IH]; intros s D; cbn [fold_left]; [exact D|]. apply IH. apply DR_step. exact D. }
  split; [exact D'|]. set (s' := fold_left (step c) evs s) in *. destruct D' as (tk & N & DD).
  unfold step. destruct (exit s'); [reflexivity|]. unfold task_step. rewrite N.
  destruct (t_st tk) as [st l mc| |]; try reflexivity.
  destruct st; [destruct DD|]. destruct mc; [|destruct DD]. reflexivity.
Qed.

(* and the shutdown event puts every unstarted request coroutine of the in-flight table in that state *)
Theorem shutdown_kills_unstarted : forall c s i u t tk l mc,
  exit s = None -> shutdown s = false -> In (FTask t) (values (futs s)) ->
  nth_error (tasks s) t = Some tk -> t_st tk = TLive false l mc ->
  dead_at t (step c s (Recv (FReq true i POk (RShutdown u)))).
Proof.
  intros c s i u t tk l mc EX SH HI N T.
  pose proof (shutdown_requests_cancel c s i u (FTask t) EX SH HI) as CR. cbn [cancel_requested] in CR.
  exists (tflag tk). split; [apply CR; exact N|]. rewrite (tflag_live tk false l mc T). exact I.
Qed.
