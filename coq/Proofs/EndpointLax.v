(* Proofs/EndpointLax.v - the balance never exceeds what was requested, for EVERY configuration and
   EVERY event list: failing or closed writers, `exit`, thread handlers on awaitable writers (F18)
   and duplicate ids included.  A lost write only lowers the balance, so

     lax_step : bal j (step c s e) <= bal j s + count_id j (answerable s e)
     lax_run  : bal j (run c evs)  <= count_id j (seen_run c evs) <= count_id j (req_ids evs)

   which gives clauses (1) and (2) of C01 with no guard at all:
     at_most_one_reply_all       NoDup (req_ids evs) -> replies i (out (run c evs)) <= 1
     reply_names_a_request_all   In (OResp i p) (out (run c evs)) -> In i (req_ids evs) *)
From Coq Require Import ZArith NArith List Bool Lia Arith.
From Pygls Require Import Base.Assoc Model.Endpoint Spec.EndpointSpec Proofs.EndpointInv.
Import ListNotations.

Lemma fr_app' : forall (A : Type) (f : A -> nat) l1 l2,
  fold_right (fun x a => f x + a) 0 (l1 ++ l2) = fold_right (fun x a => f x + a) 0 l1 + fold_right (fun x a => f x + a) 0 l2.
Proof. intros. apply (sum_app A f l1 l2). Qed.

Ltac brute :=
  unfold bal, replies, sum; cbn;
  repeat first [ progress (rewrite ?filter_app, ?app_length, ?fr_app'; cbn)
               | match goal with |- context [if ?b then _ else _] => destruct b; cbn end ];
  try lia.

Lemma bal_core : forall j s s', out s' = out s -> tasks s' = tasks s -> jobs s' = jobs s -> wq s' = wq s ->
  bal j s' = bal j s.
Proof. intros j s s' E1 E2 E3 E4. unfold bal. rewrite E1, E2, E3, E4. reflexivity. Qed.

Ltac same := apply bal_core; reflexivity.

(* ---------------------------------------------------------------- leaves, by case analysis *)
Lemma lax_hook : forall c sv src s j, bal j (hook c sv src s) <= bal j s.
Proof.
  intros [w h f] sv src s j. destruct s.
  destruct w, h, sv, src; unfold hook, write_call, do_write, failing, add_out, add_wq, add_err, snoc; brute.
Qed.

Lemma lax_send_response : forall c sv i r s j, bal j (send_response c sv i r s) <= bal j s + ind (id_eqb j i).
Proof.
  intros [w h f] sv i r s j. destruct s.
  destruct w, h, sv, r as [code|v [|]]; unfold send_response, send_data, hook, write_call, do_write, failing,
    rtype_pop, add_out, add_wq, add_err, snoc; brute.
Qed.

Lemma lax_run_cb : forall c sv cb r s j, bal j (run_cb c sv cb r s) <= bal j s + ind (cb_is j cb).
Proof.
  intros [w h f] sv cb r s j. destruct s.
  destruct w, h, sv, cb, r; unfold run_cb, request_callback, notification_callback, send_response, send_data, hook,
    write_call, do_write, failing, fut_pop, rtype_pop, add_out, add_wq, add_err, snoc; brute.
Qed.

Lemma lax_send_req : forall c i s j, bal j (fst (send_data c Loop (OReq i) true s)) <= bal j s.
Proof.
  intros [w h f] i s j. destruct s.
  destruct w, h; unfold send_data, hook, write_call, do_write, failing, add_out, add_wq, add_err, snoc; brute.
Qed.

(* ---------------------------------------------------------------- futures *)
Lemma bal_set_task_st : forall j t x tk s, nth_error (tasks s) t = Some tk ->
  bal j (set_task_st t x s) + ptst j (t_cb tk) (t_st tk) = bal j s + ptst j (t_cb tk) x.
Proof.
  intros j t x tk s N. unfold bal, set_task_st. proj. pose proof (sum_ptask_set j _ _ _ x N). lia.
Qed.

Lemma bal_set_job_st : forall i j x jb s, nth_error (jobs s) j = Some jb ->
  bal i (set_job_st j x s) + pjst i (j_cb jb) (j_st jb) = bal i s + pjst i (j_cb jb) x.
Proof.
  intros i j x jb s N. unfold bal, set_job_st. proj. pose proof (sum_pjob_set i _ _ _ x N). lia.
Qed.

Lemma lax_cancel_ref : forall c r s j, bal j (cancel_ref c r s) <= bal j s.
Proof.
  intros c r s j. unfold cancel_ref. destruct r as [t|k|o].
  - destruct (nth_error (tasks s) t) as [tk|] eqn:N; [|lia].
    destruct (t_st tk) eqn:T; try lia.
    pose proof (bal_set_task_st j t (TLive started left true) tk s N) as H. rewrite T in H. cbn [ptst] in H. lia.
  - destruct (nth_error (jobs s) k) as [jb|] eqn:N; [|lia].
    destruct (j_st jb) eqn:J; try lia.
    pose proof (bal_set_job_st j k JCancelled jb s N) as H. rewrite J in H. cbn [pjst] in H.
    pose proof (lax_run_cb c Loop (j_cb jb) RCancelled (set_job_st k JCancelled s) j). lia.
  - destruct (nth_error (outg s) o) as [[| |]|]; try lia.
    apply Nat.eq_le_incl. same.
Qed.

Lemma bal_new_task : forall j w p cb b n s, bal j (new_task w p cb b n s) = bal j s + ind (cb_is j cb).
Proof. intros. unfold bal, new_task. proj. rewrite sum_snoc. unfold ptask. cbn. lia. Qed.

Lemma bal_new_job : forall j w p cb b x s, bal j (new_job w p cb b x s) = bal j s + pjst j cb x.
Proof. intros. unfold bal, new_job. proj. rewrite sum_snoc. unfold pjob, pjst. cbn. lia. Qed.

Lemma bal_log : forall j w p ph sv s, bal j (log w p ph sv s) = bal j s.
Proof. intros. same. Qed.

Lemma lax_submit : forall c w p cb b early reg s j, (forall k s', bal j (reg k s') = bal j s') ->
  bal j (submit c w p cb b early reg s) <= bal j s + ind (cb_is j cb).
Proof.
  intros c w p cb b early reg s j R. unfold submit. destruct early.
  - eapply Nat.le_trans; [apply lax_run_cb|]. rewrite R, !bal_log, bal_new_job. cbn [pjst]. lia.
  - rewrite R, bal_new_job. cbn [pjst]. lia.
Qed.

Lemma lax_execute_request : forall c i p b s j,
  bal j (fst (execute_request c i p b s)) <=
  bal j s + match snd (execute_request c i p b s) with None => ind (id_eqb j i) | Some _ => 0 end.
Proof.
  intros c i p b s j. unfold execute_request. destruct (bkind b) as [|n|early]; cbn [fst snd].
  - destruct (bout b); cbn [fst snd]; try (rewrite !bal_log; lia);
      (eapply Nat.le_trans; [apply lax_send_response|]; rewrite !bal_log; lia).
  - replace (bal j (fut_set i (FTask (length (tasks s))) (new_task (WReq i) p (CReq i) b n s)))
      with (bal j (new_task (WReq i) p (CReq i) b n s)) by (symmetry; same).
    rewrite bal_new_task. cbn [cb_is]. lia.
  - eapply Nat.le_trans; [apply lax_submit|cbn [cb_is]; lia]. intros k s'. same.
Qed.

Lemma lax_exec_notification : forall c w p b s j, bal j (fst (exec_notification c w p b s)) <= bal j s.
Proof.
  intros c w p b s j. unfold exec_notification. destruct (bkind b) as [|n|early]; cbn [fst].
  - rewrite !bal_log. lia.
  - rewrite bal_new_task. cbn [cb_is ind]. lia.
  - eapply Nat.le_trans; [apply lax_submit|cbn [cb_is ind]; lia]. intros k s'. reflexivity.
Qed.

Lemma lax_chain : forall c w u s j, bal j (chain c w u s) <= bal j s.
Proof. intros c w u s j. unfold chain. destruct u; [apply lax_exec_notification|lia]. Qed.

Lemma lax_on_exc : forall c i x s j,
  bal j (on_exc c i x s) <= bal j s + match x with None => 0 | Some _ => ind (id_eqb j i) end.
Proof.
  intros c i x s j. unfold on_exc. destruct x as [[|code]|]; try lia;
    (eapply Nat.le_trans; [apply lax_hook|apply lax_send_response]).
Qed.

Lemma lax_fold_cancel : forall c rs s j, bal j (fold_left (fun s' r => cancel_ref c r s') rs s) <= bal j s.
Proof.
  intros c rs. induction rs as [|r rs IH]; intros s j; cbn [fold_left]; [lia|].
  eapply Nat.le_trans; [apply IH|apply lax_cancel_ref].
Qed.

Lemma lax_handle_request : forall c i m s j, bal j (handle_request c i m s) <= bal j s + ind (id_eqb j i).
Proof.
  intros c i m s j. unfold handle_request. destruct m as [|b|u|fails u|cmd u].
  - eapply Nat.le_trans; [apply lax_hook|apply lax_send_response].
  - pose proof (lax_execute_request c i PUser b s j) as H.
    destruct (execute_request c i PUser b s) as [s1 x]. cbn [fst snd] in H.
    pose proof (lax_on_exc c i x s1 j). destruct x; lia.
  - eapply Nat.le_trans; [apply lax_send_response|]. apply Nat.add_le_mono_r.
    eapply Nat.le_trans; [apply lax_chain|]. rewrite bal_log. unfold lsp_shutdown.
    replace (bal j (set_shutdown true _)) with
      (bal j (fold_left (fun s' r => cancel_ref c r s') (values (futs (log (WReq i) PBuiltin HStart Loop s))) (log (WReq i) PBuiltin HStart Loop s)))
      by (symmetry; same).
    eapply Nat.le_trans; [apply lax_fold_cancel|]. rewrite bal_log. lia.
  - destruct fails.
    + eapply Nat.le_trans; [apply (lax_on_exc c i (Some XExc))|]. rewrite !bal_log. lia.
    + eapply Nat.le_trans; [apply lax_send_response|]. apply Nat.add_le_mono_r.
      eapply Nat.le_trans; [apply lax_chain|]. rewrite !bal_log. lia.
  - destruct cmd as [b|].
    + pose proof (lax_execute_request c i PCommand b (log (WReq i) PBuiltin HStart Loop s) j) as H.
      destruct (execute_request c i PCommand b (log (WReq i) PBuiltin HStart Loop s)) as [s2 x]. cbn [fst snd] in H.
      rewrite bal_log in H. destruct x as [e|].
      * pose proof (lax_on_exc c i (Some e) (log (WReq i) PBuiltin HEnd Loop s2) j) as H2. rewrite bal_log in H2. lia.
      * pose proof (lax_chain c (WReq i) u (log (WReq i) PBuiltin HEnd Loop s2) j) as H2. rewrite bal_log in H2. lia.
    + eapply Nat.le_trans; [apply (lax_on_exc c i (Some XExc))|]. rewrite !bal_log. lia.
Qed.

Lemma lax_handle_notification : forall c tag m s j, bal j (handle_notification c tag m s) <= bal j s.
Proof.
  intros c tag m s j. unfold handle_notification. destruct m as [|b|i|u|fails u].
  - lia.
  - pose proof (lax_exec_notification c (WNot tag) PUser b s j) as H.
    destruct (exec_notification c (WNot tag) PUser b s) as [s1 x]. cbn [fst] in H.
    destruct x; [|exact H]. eapply Nat.le_trans; [apply lax_hook|exact H].
  - unfold cancel_notification. destruct (Assoc.get id_eqb i (futs s)); [|lia].
    eapply Nat.le_trans; [apply lax_cancel_ref|]. apply Nat.eq_le_incl. same.
  - unfold lsp_exit. destruct (c_writer c).
    + apply Nat.eq_le_incl. same.
    + eapply Nat.le_trans; [apply lax_chain|]. rewrite bal_log.
      unfold bal, add_wq, log. proj. rewrite sum_snoc. cbn [pw]. lia.
  - destruct fails.
    + eapply Nat.le_trans; [apply lax_hook|]. rewrite !bal_log. lia.
    + eapply Nat.le_trans; [apply lax_chain|]. rewrite !bal_log. lia.
Qed.

Lemma lax_handle_response : forall c i s j, bal j (handle_response c i s) <= bal j s.
Proof.
  intros c i s j. unfold handle_response.
  destruct (Assoc.get id_eqb i (futs s)) as [r|]; [|apply lax_hook].
  assert (H : bal j (hook c Loop EJsonRpc (fut_pop i s)) <= bal j s).
  { eapply Nat.le_trans; [apply lax_hook|]. apply Nat.eq_le_incl. same. }
  destruct r as [t|k|o].
  - exact H.
  - replace (bal j (set_undef true (hook c Loop EJsonRpc (fut_pop i s)))) with (bal j (hook c Loop EJsonRpc (fut_pop i s)))
      by (symmetry; same). exact H.
  - destruct (nth_error (outg (fut_pop i s)) o) as [[| |]|]; try exact H.
    apply Nat.eq_le_incl. same.
Qed.

(* ---------------------------------------------------------------- one event *)
Lemma lax_recv : forall c f s j, exit s = None ->
  bal j (recv c f s) <= bal j s + count_id j (answerable s (Recv f)).
Proof.
  intros c f s j E. unfold answerable. rewrite E. unfold recv.
  assert (C1 : forall i, count_id j [i] = ind (id_eqb j i)).
  { intro i. unfold count_id. cbn [filter]. destruct (id_eqb j i); reflexivity. }
  destruct f as [|v i ps m|v tag ps m|v i iserr ps].
  - eapply Nat.le_trans; [apply lax_hook|]. lia.
  - destruct ps.
    + destruct v; cbn [negb andb].
      * destruct (shutdown s); cbn [negb]; [lia|]. rewrite C1. apply lax_handle_request.
      * eapply Nat.le_trans; [apply lax_hook|]. lia.
    + rewrite C1. eapply Nat.le_trans; [apply lax_hook|apply lax_send_response].
    + rewrite C1. eapply Nat.le_trans; [apply lax_hook|apply lax_send_response].
  - assert (H : bal j (hook c Loop EJsonRpc s) <= bal j s + count_id j []) by (eapply Nat.le_trans; [apply lax_hook|lia]).
    destruct ps; try exact H. destruct (negb v); [exact H|].
    destruct (shutdown s && negb (is_exit m)); [lia|].
    eapply Nat.le_trans; [apply lax_handle_notification|lia].
  - assert (H : bal j (hook c Loop EJsonRpc (rtype_pop i s)) <= bal j s + count_id j []).
    { eapply Nat.le_trans; [apply lax_hook|]. replace (bal j (rtype_pop i s)) with (bal j s) by (symmetry; same). lia. }
    destruct (negb iserr && negb (Assoc.mem id_eqb i (rtypes s))); [exact H|].
    destruct ps; try exact H. destruct (negb v); [exact H|].
    destruct (shutdown (rtype_pop i s)).
    + replace (bal j (rtype_pop i s)) with (bal j s) by (symmetry; same). lia.
    + eapply Nat.le_trans; [apply lax_handle_response|].
      replace (bal j (rtype_pop i s)) with (bal j s) by (symmetry; same). lia.
Qed.

Lemma lax_task_step : forall t s j, bal j (task_step t s) <= bal j s.
Proof.
  intros t s j. unfold task_step.
  destruct (nth_error (tasks s) t) as [tk|] eqn:N; [|lia].
  destruct (t_st tk) as [a b m| |] eqn:T; try lia.
  assert (SET : forall x s1, tasks s1 = tasks s -> bal j s1 = bal j s ->
            match x with TFin _ => False | _ => True end -> bal j (set_task_st t x s1) <= bal j s).
  { intros x s1 E1 B1 NF. assert (N1 : nth_error (tasks s1) t = Some tk) by (rewrite E1; exact N).
    pose proof (bal_set_task_st j t x tk s1 N1) as H. rewrite T in H. cbn [ptst] in H.
    destruct x; cbn [ptst] in H; try contradiction; lia. }
  assert (ADV : forall a' s1, tasks s1 = tasks s -> bal j s1 = bal j s -> bal j (task_advance t tk a' b s1) <= bal j s).
  { intros a' s1 E1 B1. unfold task_advance, task_finish. destruct a'; destruct b; apply SET; cbn; auto. }
  destruct m.
  - destruct a; cbn [negb].
    + destruct (breact (t_b tk)); [apply SET|apply ADV]; cbn; auto.
    + apply SET; cbn; auto.
  - apply ADV; auto.
Qed.

Lemma lax_loop_cb : forall c t s j, bal j (loop_cb c t s) <= bal j s.
Proof.
  intros c t s j. unfold loop_cb.
  destruct (nth_error (tasks s) t) as [tk|] eqn:N; [|lia].
  destruct (t_st tk) as [| r |] eqn:T; try lia.
  pose proof (bal_set_task_st j t (TFin r) tk s N) as H. rewrite T in H. cbn [ptst] in H.
  pose proof (lax_run_cb c Loop (t_cb tk) r (set_task_st t (TFin r) s) j). lia.
Qed.

Lemma lax_job_start : forall k s j, bal j (job_start k s) <= bal j s.
Proof.
  intros k s j. unfold job_start.
  destruct (nth_error (jobs s) k) as [jb|] eqn:N; [|lia].
  destruct (j_st jb) eqn:J; try lia.
  rewrite bal_log. pose proof (bal_set_job_st j k JRunning jb s N) as H. rewrite J in H. cbn [pjst] in H. lia.
Qed.

Lemma lax_job_finish : forall c k s j, bal j (job_finish c k s) <= bal j s.
Proof.
  intros c k s j. unfold job_finish.
  destruct (nth_error (jobs s) k) as [jb|] eqn:N; [|lia].
  destruct (j_st jb) eqn:J; try lia.
  set (r := res_of (bout (j_b jb))). set (s0 := log (j_who jb) (j_part jb) HEnd Pool s).
  assert (N0 : nth_error (jobs s0) k = Some jb) by exact N.
  pose proof (bal_set_job_st j k (JDone r) jb s0 N0) as H. rewrite J in H. cbn [pjst] in H.
  assert (B0 : bal j s0 = bal j s) by (unfold s0; apply bal_log).
  pose proof (lax_run_cb c Pool (j_cb jb) r (set_job_st k (JDone r) s0) j). lia.
Qed.

Lemma lax_write_step : forall c s j, bal j (write_step c s) <= bal j s.
Proof.
  intros [w h f] s j. unfold write_step. destruct (wq s) as [|x r] eqn:W; [lia|].
  destruct x as [fr|rc].
  - destruct s. cbn in W. subst. unfold do_write, failing, add_out, snoc. brute.
  - unfold bal. proj. rewrite W. cbn [sum fold_right pw]. fold (sum (pw j) r). lia.
Qed.

Lemma lax_user_send : forall c i s j, bal j (user_send c i s) <= bal j s.
Proof.
  intros c i s j. unfold user_send. eapply Nat.le_trans; [apply lax_send_req|]. apply Nat.eq_le_incl. same.
Qed.

Theorem lax_step : forall c s e j, bal j (step c s e) <= bal j s + count_id j (answerable s e).
Proof.
  intros c s e j. unfold step. destruct (exit s) eqn:E; [lia|].
  destruct e as [f|t|t|k|k| | |i].
  - apply lax_recv. exact E.
  - eapply Nat.le_trans; [apply lax_task_step|lia].
  - eapply Nat.le_trans; [apply lax_loop_cb|lia].
  - eapply Nat.le_trans; [apply lax_job_start|lia].
  - eapply Nat.le_trans; [apply lax_job_finish|lia].
  - eapply Nat.le_trans; [apply lax_write_step|lia].
  - unfold exit_cb. destruct (exitq s); [lia|]. apply Nat.le_trans with (bal j s); [apply Nat.eq_le_incl; same|lia].
  - eapply Nat.le_trans; [apply lax_user_send|lia].
Qed.

Lemma lax_from : forall c evs s j,
  bal j (fold_left (step c) evs s) <= bal j s + count_id j (seen_from c s evs).
Proof.
  intros c evs. induction evs as [|e r IH]; intros s j; cbn [fold_left seen_from]; [cbn; lia|].
  specialize (IH (step c s e) j). pose proof (lax_step c s e j). rewrite count_id_app. lia.
Qed.

Theorem lax_run : forall c evs j, bal j (run c evs) <= count_id j (seen_run c evs).
Proof. intros c evs j. pose proof (lax_from c evs init j) as H. exact H. Qed.

Lemma answerable_sub : forall s e j, count_id j (answerable s e) <= count_id j (req_id e).
Proof.
  intros s e j. unfold answerable. destruct (exit s); [cbn; lia|].
  destruct e as [f| | | | | | |]; try (cbn; lia).
  destruct f as [|v i ps m| |]; try (cbn; lia).
  cbn [req_id]. destruct ps; try lia. destruct (v && negb (shutdown s)); [lia|cbn; lia].
Qed.

Lemma seen_sub : forall c evs s j, count_id j (seen_from c s evs) <= count_id j (req_ids evs).
Proof.
  intros c evs. induction evs as [|e r IH]; intros s j; cbn [seen_from]; [cbn; lia|].
  unfold req_ids in *. cbn [flat_map]. rewrite !count_id_app.
  specialize (IH (step c s e) j). pose proof (answerable_sub s e j). lia.
Qed.

Lemma nodup_count : forall i l, NoDup l -> count_id i l <= 1.
Proof.
  intros i l ND. induction ND as [|x r Hni ND IH]; [cbn; lia|].
  unfold count_id in *. cbn [filter]. destruct (id_eqb i x) eqn:E; [|exact IH].
  apply id_eqb_spec in E. subst x. cbn [length].
  assert (Z : filter (id_eqb i) r = []).
  { clear IH ND. induction r as [|y r IH]; [reflexivity|]. cbn [filter].
    destruct (id_eqb i y) eqn:E.
    - apply id_eqb_spec in E. subst. exfalso. apply Hni. left. reflexivity.
    - apply IH. intro H. apply Hni. right. exact H. }
  rewrite Z. cbn. lia.
Qed.

(* clause (1) with no guard at all *)
Theorem at_most_one_reply_all : forall c evs i, NoDup (req_ids evs) -> replies i (out (run c evs)) <= 1.
Proof.
  intros c evs i ND.
  assert (replies i (out (run c evs)) <= bal i (run c evs)) by (unfold bal; lia).
  pose proof (lax_run c evs i). pose proof (seen_sub c evs init i). pose proof (nodup_count i _ ND).
  unfold seen_run in *. lia.
Qed.

(* clause (2), weak form, with no guard: nothing but a request is ever answered *)
Theorem reply_names_a_request_all : forall c evs i p, In (OResp i p) (out (run c evs)) -> In i (req_ids evs).
Proof.
  intros c evs i p HI.
  assert (P : 0 < replies i (out (run c evs))).
  { unfold replies. clear -HI. induction (out (run c evs)) as [|f r IH]; [destruct HI|].
    cbn [filter]. destruct HI as [H|H].
    - subst f. cbn [is_reply]. rewrite id_eqb_refl. cbn. lia.
    - destruct (is_reply i f); cbn [length]; [lia|apply IH; exact H]. }
  assert (replies i (out (run c evs)) <= bal i (run c evs)) by (unfold bal; lia).
  pose proof (lax_run c evs i). pose proof (seen_sub c evs init i). unfold seen_run in *.
  assert (C : 0 < count_id i (req_ids evs)) by lia. clear -C.
  induction (req_ids evs) as [|x r IH]; unfold count_id in C; cbn [filter length] in C; [lia|].
  destruct (id_eqb i x) eqn:E.
  - apply id_eqb_spec in E. subst. left. reflexivity.
  - right. apply IH. exact C.
Qed.
