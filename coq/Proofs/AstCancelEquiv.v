(* Second tie for C08 ("cancellation hits only its target"): the PyMini translation of the SOURCE TEXT of
   JsonRPCProtocol._handle_cancel_notification (pygls/protocol/json_rpc.py, coq/Gen/AstCancel.v, written by
   harness/gen_ast_cancel.py on every run) does, for ALL in-flight tables and ALL message ids, what the functional
   specification below says:

     the resulting `_request_futures` is the table with exactly the entry under that id deleted (the table itself
     when the id is absent), every other attribute is unchanged, and the calls appended to the effect log are
     exactly one `cancel` on the future that was stored under that id (none when the id is absent).

   Recorded, not executed: future.cancel() (harness/gen_ast_cancel.py checks that the branch guarded by its result
   only logs).  logger.warning / logger.info are PyMini builtins that observe nothing.
   Representation: the table is a PyMini dict (insertion-ordered list of key/value pairs, keys compared with
   Python's ==, so the int 2 and the str "2" are different keys); the futures are arbitrary TRUTHY values
   (hypothesis `futures_truthy`; asyncio / concurrent futures define neither __bool__ nor __len__).
   The specification is self-contained (tbl_get / tbl_del below); the last lemmas relate it, for tables without
   duplicate keys, to Assoc.get / Assoc.remove, the operations Model/Endpoint.v's cancel_notification applies to
   its table. *)
From Coq Require Import ZArith NArith List String Bool Lia.
From Pygls Require Import Base.PyMini Base.PyMiniFacts.
From Pygls Require Gen.AstCancel Base.Assoc.
Import ListNotations.
Open Scope string_scope.
Open Scope Z_scope.
Open Scope list_scope.

Notation f_cancel := AstCancel.f_handle_cancel_notification.
Definition qname : list string := ["JsonRPCProtocol"; "_handle_cancel_notification"].

Fixpoint wcall (oracle : callT) (f : nat) (d : nat) : callT :=
  match d with
  | O => fun _ _ _ _ => Stuck "call depth"
  | S d' => fun q recv args kw =>
    match find_def q AstCancel.prog with
    | Some fd => run_fun (wcall oracle f d') f fd recv args kw
    | None => oracle q recv args kw
    end
  end.

Lemma wcall_S oracle f d q recv args kw fd : find_def q AstCancel.prog = Some fd ->
  wcall oracle f (S d) q recv args kw = run_fun (wcall oracle f d) f fd recv args kw.
Proof. intros H. cbn [wcall]. rewrite H. reflexivity. Qed.

Ltac ssimp :=
  cbn [truthy run_fun bind_params exec_block exec exec_atomic eval apply_global global_method obj_method obj_mutator
       is_procedure is_stateful log_effect fqual fkind_of fparams fbody class_of is_init
       get set mem_str path_eqb snoc as_int b2z is_none dict_items mk_dict
       py_getattr global_const ctor_table builtin bind_names set_field
       String.eqb Ascii.eqb Bool.eqb map fst snd forallb rev app andb orb negb].

(* ------------------------------------------------------------------------------------------ *)
(* the in-flight table, the protocol object, the entries of the effect log                     *)
Definition table := list (val * val).                     (* message id -> future token, insertion order *)
Definition entry (kv : val * val) : val := VTuple [fst kv; snd kv].
Definition items_of (t : table) : list val := map entry t.
Definition futures_truthy (t : table) : Prop := forall k v, In (k, v) t -> truthy v = true.

Definition proto_val (t : table) (rest : list (string * val)) (log : list val) : val :=
  VObj "JsonRPCProtocol" (("_request_futures", mk_dict (items_of t)) :: ("$log", VList log) :: rest).

Definition e_cancel (fut : val) : val := VTuple [VGlobal ["$method.cancel"]; VList [fut]].

(* ------------------------------------------------------------------------------------------ *)
(* functional specification                                                                    *)
Fixpoint tbl_get (k : val) (t : table) : option val :=
  match t with
  | [] => None
  | (k', v) :: r => if py_eq k' k then Some v else tbl_get k r
  end.
Fixpoint tbl_del (k : val) (t : table) : table :=
  match t with
  | [] => []
  | (k', v) :: r => if py_eq k' k then tbl_del k r else (k', v) :: tbl_del k r
  end.
Definition cancel_calls (k : val) (t : table) : list val :=
  match tbl_get k t with Some fut => [e_cancel fut] | None => [] end.

Lemma dict_get_items k t : dict_get k (items_of t) = tbl_get k t.
Proof. induction t as [|[k' v] r IH]; cbn; [reflexivity|]. destruct (py_eq k' k); auto. Qed.

Lemma dict_del_items k t : dict_del k (items_of t) = items_of (tbl_del k t).
Proof.
  unfold items_of. induction t as [|[k' v] r IH]; [reflexivity|].
  cbn [map entry fst snd dict_del tbl_del].
  destruct (py_eq k' k); cbn [map entry fst snd]; rewrite IH; reflexivity.
Qed.

Lemma tbl_get_in k t v : tbl_get k t = Some v -> exists k', In (k', v) t /\ py_eq k' k = true.
Proof.
  induction t as [|[k' w] r IH]; cbn; [discriminate|].
  destruct (py_eq k' k) eqn:E.
  - intros H; inversion H; subst. exists k'. auto.
  - intros H. destruct (IH H) as (k'' & Hin & He). exists k''. auto.
Qed.

Lemma tbl_del_absent k t : tbl_get k t = None -> tbl_del k t = t.
Proof.
  induction t as [|[k' w] r IH]; cbn; [reflexivity|].
  destruct (py_eq k' k); [discriminate|]. intros H. rewrite IH; auto.
Qed.

Lemma tbl_get_del_other k j t : py_eq j k = false -> (forall a, py_eq a k = true -> py_eq a j = true -> False) ->
  tbl_get j (tbl_del k t) = tbl_get j t.
Proof.
  intros _ Hx. induction t as [|[k' w] r IH]; cbn; [reflexivity|].
  destruct (py_eq k' k) eqn:E; cbn.
  - destruct (py_eq k' j) eqn:E2; [exfalso; eapply Hx; eauto|exact IH].
  - destruct (py_eq k' j); [reflexivity|exact IH].
Qed.

Lemma tbl_get_del_same k t : tbl_get k (tbl_del k t) = None.
Proof.
  induction t as [|[k' w] r IH]; cbn; [reflexivity|].
  destruct (py_eq k' k) eqn:E; cbn; [exact IH|]. rewrite E. exact IH.
Qed.

(* ------------------------------------------------------------------------------------------ *)
(* the run                                                                                     *)
Theorem cancel_ok oracle f d t rest log k : futures_truthy t ->
  wcall oracle f (S d) qname (Some (proto_val t rest log)) [k] [] =
  Ok (proto_val (tbl_del k t) rest (log ++ cancel_calls k t)).
Proof.
  intros Ht.
  rewrite (wcall_S oracle f d qname _ _ _ f_cancel eq_refl).
  unfold f_cancel, AstCancel.f_handle_cancel_notification, proto_val at 1, cancel_calls.
  ssimp. rewrite dict_get_items, dict_del_items.
  destruct (tbl_get k t) as [fut|] eqn:E.
  - destruct (tbl_get_in _ _ _ E) as (k' & Hin & _). pose proof (Ht _ _ Hin) as Hv.
    ssimp. rewrite Hv. ssimp. reflexivity.
  - ssimp. rewrite app_nil_r. reflexivity.
Qed.

(* ------------------------------------------------------------------------------------------ *)
(* the theorems of the tie                                                                     *)

(* for every in-flight table t (its futures truthy), every other attribute (`rest`), every log so far, every
   message id value k: the table afterwards is t without the entry under k (t itself when k is absent), `rest` is
   unchanged, and exactly one cancel - on the future stored under k - is appended (nothing when k is absent) *)
Theorem ast_handle_cancel_equiv oracle f d t rest log k : futures_truthy t ->
  wcall oracle f (S d) qname (Some (proto_val t rest log)) [k] [] =
    Ok (proto_val (tbl_del k t) rest (log ++ cancel_calls k t)) /\
  (forall fut, tbl_get k t = Some fut -> cancel_calls k t = [e_cancel fut]) /\
  (tbl_get k t = None -> cancel_calls k t = [] /\ tbl_del k t = t) /\
  tbl_get k (tbl_del k t) = None.
Proof.
  intros Ht. split; [apply cancel_ok; exact Ht|]. unfold cancel_calls. repeat split.
  - intros fut E. rewrite E. reflexivity.
  - rewrite H. reflexivity.
  - apply tbl_del_absent; assumption.
  - apply tbl_get_del_same.
Qed.

(* every other key still maps to the same future: j is "other" when no key equals both k and j (== on PyMini values
   is not transitive across int/bool only in the sense that 1 == True; for two ints or two strs this is j <> k) *)
Corollary ast_cancel_other_entries_untouched oracle f d t rest log k : futures_truthy t ->
  exists t', wcall oracle f (S d) qname (Some (proto_val t rest log)) [k] [] =
               Ok (proto_val t' rest (log ++ cancel_calls k t)) /\
    forall j, py_eq j k = false -> (forall a, py_eq a k = true -> py_eq a j = true -> False) ->
              tbl_get j t' = tbl_get j t.
Proof.
  intros Ht. exists (tbl_del k t). split; [apply cancel_ok; exact Ht|].
  intros j Hj Hx. apply tbl_get_del_other; assumption.
Qed.

(* for integer ids (and likewise string ids) "other" is plain disequality *)
Corollary ast_cancel_other_int_entries_untouched (t : table) (i j : Z) :
  (forall k v, In (k, v) t -> exists z, k = VInt z) -> i <> j ->
  tbl_get (VInt j) (tbl_del (VInt i) t) = tbl_get (VInt j) t.
Proof.
  intros Hk Hij. induction t as [|[k' w] r IH]; cbn; [reflexivity|].
  destruct (Hk k' w (or_introl eq_refl)) as (z & ->).
  assert (IH' := IH (fun k v H => Hk k v (or_intror H))).
  cbn [py_eq]. destruct (z =? i) eqn:E1; cbn [tbl_get py_eq].
  - apply Z.eqb_eq in E1. subst. destruct (i =? j) eqn:E2; [apply Z.eqb_eq in E2; contradiction|exact IH'].
  - destruct (z =? j); [reflexivity|exact IH'].
Qed.

(* ------------------------------------------------------------------------------------------ *)
(* link to the table operations of Model/Endpoint.v (cancel_notification: Assoc.get, then Assoc.remove and one
   cancel_ref on the reference found): for a table without duplicate keys (a dict), tbl_get / tbl_del are
   Assoc.get / Assoc.remove with == as the key comparison *)
Definition keq (a b : val) : bool := py_eq b a.

Lemma tbl_get_assoc k t : tbl_get k t = Assoc.get keq k t.
Proof. induction t as [|[k' v] r IH]; cbn; [reflexivity|]. unfold keq at 1. destruct (py_eq k' k); auto. Qed.

(* when the first binding of k is the only one (the invariant of a dict) *)
Lemma tbl_del_assoc k t :
  tbl_get k (Assoc.remove keq k t) = None -> tbl_del k t = Assoc.remove keq k t.
Proof.
  induction t as [|[k' v] r IH]; cbn; [reflexivity|].
  unfold keq at 1 3. destruct (py_eq k' k) eqn:E.
  - intros H. apply tbl_del_absent. exact H.
  - cbn [tbl_get]. rewrite E. intros H. rewrite (IH H). reflexivity.
Qed.

(* ------------------------------------------------------------------------------------------ *)
(* non-vacuity: a concrete run on a 3-entry table (ids 1, "2", 3): a present id, an absent id, and an id of the
   wrong type (the int 2 is not the str "2")                                                    *)
Definition ex_oracle : callT := fun _ _ _ _ => Stuck "oracle".
Definition fut (n : Z) : val := VObj "Future" [("id", VInt n)].
Definition ex_tbl : table := [(VInt 1, fut 10); (VStr [50%N], fut 20); (VInt 3, fut 30)].

Example ast_cancel_example :
  wcall ex_oracle 5 3 qname (Some (proto_val ex_tbl [("_shutdown", VBool false)] [])) [VStr [50%N]] [] =
    Ok (proto_val [(VInt 1, fut 10); (VInt 3, fut 30)] [("_shutdown", VBool false)] [e_cancel (fut 20)]) /\
  wcall ex_oracle 5 3 qname (Some (proto_val ex_tbl [("_shutdown", VBool false)] [])) [VInt 7] [] =
    Ok (proto_val ex_tbl [("_shutdown", VBool false)] []) /\
  wcall ex_oracle 5 3 qname (Some (proto_val ex_tbl [("_shutdown", VBool false)] [])) [VInt 2] [] =
    Ok (proto_val ex_tbl [("_shutdown", VBool false)] []) /\
  wcall ex_oracle 5 3 qname (Some (proto_val ex_tbl [("_shutdown", VBool false)] [])) [VInt 3] [] =
    Ok (proto_val [(VInt 1, fut 10); (VStr [50%N], fut 20)] [("_shutdown", VBool false)] [e_cancel (fut 30)]).
Proof. vm_compute. repeat split. Qed.
