(* Workspace.update_notebook_document (Gen/AstWorkspace.v, regenerated from the source text by harness/gen_ast.py
   on every run) does to the four dictionaries exactly what Model/Workspace.v's update_notebook_document says -
   version, metadata (`is not None`), cell data (the LAST cell with the document), the structure splice with
   its didOpen / didClose, the text-content changes in order - including the KeyError paths with what had
   already been done.  The function works through an alias of the stored notebook and an index of aliases of
   its cells: in PyMini these are paths into self (Base/PyMini.v) and the translator checks statically that
   they stay valid.  Continues Proofs/AstWorkspaceEquiv.v. *)
From Coq Require Import ZArith NArith List Bool String Ascii Lia ZifyBool ZifyN ZifyNat.
From Pygls Require Import Base.PyMini Base.PyMiniFacts Gen.AstWorkspace Model.Workspace Proofs.AstWorkspaceEquiv.
Import ListNotations.
Open Scope string_scope.
Open Scope Z_scope.

(* ---------- the notification, as a Python value ---------- *)

Section Values.
Variable chv : change -> val.      (* how a TextDocumentContentChangeEvent is represented (apply_change is an oracle) *)

Definition tdid_val (c : N) : val := VObj "TextDocumentIdentifier" [("uri", uri_val c)].

Definition structure_val (st : structure) : val :=
  VObj "NotebookDocumentCellChangeStructure"
       [("array", VObj "NotebookCellArrayChange"
                       [("start", VInt (Z.of_N (st_start st))); ("delete_count", VInt (Z.of_N (st_delete st)));
                        ("cells", VList (map cell_val (st_cells st)))]);
        ("did_open", VList (map item_val (st_open st)));
        ("did_close", VList (map tdid_val (st_close st)))].

Definition tc_val (e : N * Z * list change) : val :=
  VObj "NotebookDocumentCellContentChanges"
       [("document", versioned_id (fst (fst e)) (snd (fst e))); ("changes", VList (map chv (snd e)))].

Definition cc_val (cc : cellchange) : val :=
  VObj "NotebookDocumentCellChanges"
       [("structure", match cc_structure cc with Some st => structure_val st | None => VNone end);
        ("data", VList (map cell_val (cc_data cc)));
        ("text_content", VList (map tc_val (cc_text cc)))].

Definition change_params (n : N) (v : Z) (meta : option N) (cc : option cellchange) : val :=
  VObj "DidChangeNotebookDocumentParams"
       [("notebook_document", VObj "VersionedNotebookDocumentIdentifier" [("uri", uri_val n); ("version", VInt v)]);
        ("change", VObj "NotebookDocumentChangeEvent"
                        [("metadata", opt_n meta);
                         ("cells", match cc with Some c => cc_val c | None => VNone end)])].
End Values.

(* ---------- reading and writing the stored notebook through its path ---------- *)

Section Paths.
Variable cf : encoding * sync_kind.
Variables r1 r2 : val.
Notation W := (ws_val cf r1 r2).

Definition nb_path (n : N) : list val := [VGlobal ["_notebook_documents"]; VTuple [uri_val n]].

Lemma dict_upd_items {V} (g : N -> V -> val) k v l : NoDup (map fst l) -> aget k l <> None ->
  dict_upd (uri_val k) (g k v) (items g l) = items g (aset k v l).
Proof.
  intros Hnd Hin. rewrite <- (dict_set_items g k v l Hnd). unfold dict_set. rewrite dict_mem_items.
  destruct (aget k l); [reflexivity | congruence].
Qed.

Lemma nb_get s n nb : aget n (w_nbs s) = Some nb -> path_get (W s) (nb_path n) = Ok (nb_val n nb).
Proof.
  intros H. unfold ws_val, nb_path. cbn [path_get get String.eqb Ascii.eqb Bool.eqb dict_items mk_dict andb].
  rewrite dict_get_items, H. reflexivity.
Qed.

(* x.a = v on the stored notebook *)
Lemma nb_set_attr s n nb nb' a v : wf s -> aget n (w_nbs s) = Some nb ->
  (match nb_val n nb with VObj c fl => VObj c (set_field a v fl) | x => x end) = nb_val n nb' ->
  path_set (W s) (nb_path n ++ [VGlobal [a]]) v = Ok (W (with_nbs s (aset n nb' (w_nbs s)))).
Proof.
  intros (W1 & W2 & W3 & W4) H Hf. unfold ws_val, nb_path.
  cbn [app path_set get String.eqb Ascii.eqb Bool.eqb dict_items mk_dict andb].
  rewrite dict_get_items, H. unfold nb_val at 1. cbn [path_set].
  unfold nb_val at 1 in Hf. rewrite Hf.
  cbn [set_field String.eqb Ascii.eqb Bool.eqb with_nbs w_docs w_nbs w_cells w_folders].
  rewrite (dict_upd_items nb_val n nb' _ W2) by congruence. reflexivity.
Qed.
End Paths.

(* ---------- loops that may stop with an exception ---------- *)

Definition raise_with (P : list (string * val) -> Prop) (o : outcome) : Prop :=
  match o with ORaise KeyError env => P env | _ => False end.

(* left fold that stops at the first step that raised (true) *)
Fixpoint fold_res {A} (step : ws -> A -> ws * bool) (l : list A) (s : ws) : ws * bool :=
  match l with
  | [] => (s, false)
  | a :: r => let '(s', b) := step s a in if b then (s', true) else fold_res step r s'
  end.

Section Loops.
Variable cf : encoding * sync_kind.
Variables r1 r2 : val.
Notation wf := (wf).

Lemma for_each_res {A} (body : list (string * val) -> outcome) x (step : ws -> A -> ws * bool) (gv : A -> val)
      (Inv : list (string * val) -> ws -> Prop) :
  (forall env s a, Inv env s -> AstWorkspaceEquiv.wf s ->
     if snd (step s a) then raise_with (fun env' => Inv env' (fst (step s a))) (body (set x (gv a) env))
     else normal_with (fun env' => Inv env' (fst (step s a))) (body (set x (gv a) env))) ->
  (forall s a, AstWorkspaceEquiv.wf s -> AstWorkspaceEquiv.wf (fst (step s a))) ->
  forall l env s, Inv env s -> AstWorkspaceEquiv.wf s ->
    if snd (fold_res step l s)
    then raise_with (fun env' => Inv env' (fst (fold_res step l s))) (for_each body x (map gv l) env)
    else normal_with (fun env' => Inv env' (fst (fold_res step l s))) (for_each body x (map gv l) env).
Proof.
  intros Hb Hw. induction l as [|a r IH]; intros env s Hi Hwf; cbn [map for_each fold_res].
  - exact Hi.
  - pose proof (Hb env s a Hi Hwf) as Hs. pose proof (Hw s a Hwf) as Hw'.
    destruct (step s a) as [s' b]. cbn [fst snd] in *. destruct b.
    + cbn [fst snd]. destruct (body _) as [| | | |k e| |]; try contradiction.
      destruct k; try contradiction. exact Hs.
    + destruct (body _); try contradiction. apply IH; assumption.
Qed.

(* the model's loops are such folds *)
Definition upd_step (u : N) (v : Z) (s : ws) (c : change) : ws * bool :=
  match ws_update_text_document s u v c with Some s' => (s', false) | None => (s, true) end.

Lemma update_all_fold u v cs : forall s, update_all s u v cs = fold_res (upd_step u v) cs s.
Proof.
  induction cs as [|c r IH]; intros s; [reflexivity|]. cbn [update_all fold_res]. unfold upd_step at 1.
  destruct (ws_update_text_document s u v c); [apply IH | reflexivity].
Qed.

Definition tc_step (s : ws) (e : N * Z * list change) : ws * bool :=
  update_all s (fst (fst e)) (snd (fst e)) (snd e).

Lemma text_content_fold es : forall s, text_content s es = fold_res tc_step es s.
Proof.
  induction es as [|[[u v] cs] r IH]; intros s; [reflexivity|]. cbn [text_content fold_res]. unfold tc_step at 1.
  cbn [fst snd]. destruct (update_all s u v cs) as [s' e]. destruct e; [reflexivity | apply IH].
Qed.

Lemma wf_update s u v c s' : AstWorkspaceEquiv.wf s -> ws_update_text_document s u v c = Some s' -> AstWorkspaceEquiv.wf s'.
Proof.
  intros (W1 & W2 & W3 & W4). unfold ws_update_text_document. destruct (aget u (w_docs s)) as [[d l]|]; [|discriminate].
  intros [= <-]. unfold AstWorkspaceEquiv.wf. cbn [with_docs w_docs w_nbs w_cells w_folders].
  repeat split; try assumption. apply aset_nodup, W1.
Qed.

Lemma wf_fold_res {A} (step : ws -> A -> ws * bool) :
  (forall s a, AstWorkspaceEquiv.wf s -> AstWorkspaceEquiv.wf (fst (step s a))) ->
  forall l s, AstWorkspaceEquiv.wf s -> AstWorkspaceEquiv.wf (fst (fold_res step l s)).
Proof.
  intros H. induction l as [|a r IH]; intros s Hs; [exact Hs|]. cbn [fold_res].
  pose proof (H s a Hs) as H1. destruct (step s a) as [s' b]. destruct b; [exact H1 | apply IH, H1].
Qed.
End Loops.

(* ---------- the cells of the stored notebook ---------- *)

Lemma nth_error_map_cell cells i : nth_error (map cell_val cells) i = option_map cell_val (nth_error cells i).
Proof. apply nth_error_map. Qed.

Lemma list_set_map {A B} (g : A -> B) l : forall i v, list_set (map g l) i (g v) = map g (list_set l i v).
Proof. induction l as [|x r IH]; intros [|i] v; cbn [map list_set]; try reflexivity. f_equal. apply IH. Qed.

Lemma list_set_twice {A} (l : list A) : forall i a b, list_set (list_set l i a) i b = list_set l i b.
Proof. induction l as [|x r IH]; intros [|i] a b; cbn [list_set]; try reflexivity. f_equal. apply IH. Qed.

Lemma nth_error_list_set {A} (l : list A) : forall i v, (i < length l)%nat -> nth_error (list_set l i v) i = Some v.
Proof.
  induction l as [|x r IH]; intros [|i] v H; cbn [length] in H; try lia; cbn [list_set nth_error]; [reflexivity|].
  apply IH. lia.
Qed.

Lemma length_list_set {A} (l : list A) : forall i v, length (list_set l i v) = length l.
Proof. induction l as [|x r IH]; intros [|i] v; cbn [list_set length]; try reflexivity. f_equal. apply IH. Qed.

Lemma map_doc_list_set cells : forall i c c', nth_error cells i = Some c -> c_doc c' = c_doc c ->
  map c_doc (list_set cells i c') = map c_doc cells.
Proof.
  induction cells as [|x r IH]; intros [|i] c c' H E; cbn [nth_error] in H; try discriminate; cbn [list_set map].
  - injection H as ->. rewrite E. reflexivity.
  - f_equal. eapply IH; eassumption.
Qed.

Lemma last_index_docs d a b : map c_doc a = map c_doc b -> last_index d a = last_index d b.
Proof.
  revert b. induction a as [|x r IH]; intros [|y t] H; cbn [map] in H; try discriminate; [reflexivity|].
  injection H as Hd Hr. cbn [last_index]. rewrite (IH t Hr), Hd. reflexivity.
Qed.

Lemma last_index_lt d cells i : last_index d cells = Some i -> (i < length cells)%nat.
Proof.
  revert i. induction cells as [|x r IH]; intros i H; cbn [last_index] in H; [discriminate|]. cbn [length].
  destruct (last_index d r) as [j|]; [injection H as <-; specialize (IH j eq_refl); lia|].
  destruct (c_doc x =? d)%N; [injection H as <-; lia | discriminate].
Qed.

Definition with_cells_nb (nb : notebook) (cells : list nbcell) : notebook :=
  mkNb (n_version nb) (n_meta nb) (n_type nb) cells.

Section CellPaths.
Variable cf : encoding * sync_kind.
Variables r1 r2 : val.
Notation W := (ws_val cf r1 r2).

Lemma nb_cells_get s n nb : aget n (w_nbs s) = Some nb ->
  path_get (W s) (nb_path n ++ [VGlobal ["cells"]]) = Ok (VList (map cell_val (n_cells nb))).
Proof.
  intros H. unfold ws_val, nb_path. cbn [app path_get get String.eqb Ascii.eqb Bool.eqb dict_items mk_dict andb].
  rewrite dict_get_items, H. reflexivity.
Qed.

(* y.a = v on the i-th cell of the stored notebook *)
Lemma cell_set_attr s n nb i c c' a v : AstWorkspaceEquiv.wf s -> aget n (w_nbs s) = Some nb ->
  nth_error (n_cells nb) i = Some c ->
  (match cell_val c with VObj k fl => VObj k (set_field a v fl) | x => x end) = cell_val c' ->
  path_set (W s) (nb_path n ++ [VGlobal ["cells"]; VInt (Z.of_nat i); VGlobal [a]]) v =
  Ok (W (with_nbs s (aset n (with_cells_nb nb (list_set (n_cells nb) i c')) (w_nbs s)))).
Proof.
  intros (W1 & W2 & W3 & W4) H Hn Hf. unfold ws_val, nb_path.
  cbn [app path_set get String.eqb Ascii.eqb Bool.eqb dict_items mk_dict andb].
  rewrite dict_get_items, H. unfold nb_val at 1. cbn [path_set get String.eqb Ascii.eqb Bool.eqb].
  rewrite Nat2Z.id, nth_error_map_cell, Hn. cbn [option_map]. unfold cell_val at 1. cbn [path_set].
  unfold cell_val at 1 in Hf. rewrite Hf. rewrite list_set_map.
  cbn [set_field String.eqb Ascii.eqb Bool.eqb with_nbs w_docs w_nbs w_cells w_folders].
  change (VObj "NotebookDocument"
            [("uri", uri_val n); ("notebook_type", VInt (Z.of_N (n_type nb))); ("version", VInt (n_version nb));
             ("metadata", opt_n (n_meta nb)); ("cells", VList (map cell_val (list_set (n_cells nb) i c')))])
    with (nb_val n (with_cells_nb nb (list_set (n_cells nb) i c'))).
  rewrite (dict_upd_items nb_val n _ _ W2) by congruence. reflexivity.
Qed.
End CellPaths.

(* sequencing after a statement whose outcome is known to raise / to be normal *)
Definition then_block (o : outcome) (K : list (string * val) -> outcome) : outcome :=
  match o with
  | ONormal env' => K env'
  | OReturn v => OReturn v | OBreak e => OBreak e | OContinue e => OContinue e
  | ORaise k e => ORaise k e | OStuck w => OStuck w | OFuel => OFuel
  end.

Lemma then_raise P o K : raise_with P o -> raise_with P (then_block o K).
Proof. destruct o as [| | | |k e| |]; cbn; try contradiction. destruct k; try contradiction. auto. Qed.

Lemma raise_with_weaken (P Q : list (string * val) -> Prop) o : (forall e, P e -> Q e) -> raise_with P o -> raise_with Q o.
Proof. intros H. destruct o as [| | | |k e| |]; cbn; try contradiction. destruct k; auto. Qed.

Lemma then_normal (P : list (string * val) -> Prop) (R : outcome -> Prop) o K :
  normal_with P o -> (forall e, P e -> R (K e)) -> R (then_block o K).
Proof. destruct o; cbn; try contradiction. auto. Qed.

(* the goal is about `match o with ONormal env' => K env' | o' => o' end` and H : normal_with P o *)
Ltac seq_normal H :=
  match goal with
  | |- ?R (match ?o with ONormal env' => @?K env' | OReturn v => OReturn v | OBreak e1 => OBreak e1
                       | OContinue e2 => OContinue e2 | ORaise k e3 => ORaise k e3 | OStuck w => OStuck w
                       | OFuel => OFuel end) =>
    apply (then_normal _ R o K H)
  | |- ?R (match ?o with ONormal env' => @?K env' | OReturn v => OReturn v | OBreak e1 => OBreak e1
                       | OContinue e2 => OContinue e2 | ORaise k e3 => ORaise k e3 | OStuck w => OStuck w
                       | OFuel => OFuel end) = ?rhs =>
    apply (then_normal _ (fun x => R x = rhs) o K H)
  end.

(* evaluate the statement under `exec` in the goal *)
Ltac pyexec :=
  match goal with |- context[exec ?c ?f0 ?e ?s0] =>
    let t := eval cbn [exec_block exec exec_atomic eval apply_global global_method obj_method obj_mutator log_effect
                       dict_items mk_dict path_steps mk_path construct ctor_check ctor_default is_init fqual
                       get set mem_str path_eqb snoc as_int truthy b2z py_binop py_compare py_eq PyMini.is_none
                       py_getattr global_const ctor_table builtin str_method bind_names set_field exn_in bound_of py_slice
                       slice_list String.eqb Ascii.eqb Bool.eqb map fst snd forallb rev app andb orb negb]
             in (exec c f0 e s0) in
    change (exec c f0 e s0) with t end.

Lemma exec_if call f env c a b :
  exec call f env (SIf c a b) =
  match eval call env c with
  | Ok v => if truthy v then exec_block call f env a else exec_block call f env b
  | Raise k => ORaise k env | Stuck w => OStuck w
  end.
Proof. reflexivity. Qed.

(* ---------- update_notebook_document ---------- *)

(* where a run of the body ends: the workspace it leaves, and whether KeyError escaped *)
Definition final_state (o : outcome) : option (val * bool) :=
  match o with
  | ONormal env => match get "self" env with Some v => Some (v, false) | None => None end
  | OReturn v => Some (v, false)
  | ORaise KeyError env => match get "self" env with Some v => Some (v, true) | None => None end
  | _ => None
  end.

Lemma final_then_raise v o K :
  raise_with (fun e => get "self" e = Some v) o -> final_state (then_block o K) = Some (v, true).
Proof. destruct o as [| | | |k e| |]; cbn; try contradiction. destruct k; try contradiction. intros ->. reflexivity. Qed.

Lemma final_then_normal (P : list (string * val) -> Prop) v b o K :
  normal_with P o -> (forall e, P e -> final_state (K e) = Some (v, b)) -> final_state (then_block o K) = Some (v, b).
Proof. destruct o; cbn; try contradiction. auto. Qed.

Section Main.
Variable cf : encoding * sync_kind.
Variables r1 r2 : val.
Variable chv : change -> val.
Notation W := (ws_val cf r1 r2).
Variables (call : callT) (f : nat).

Definition spec_update : Prop := forall s u v c, AstWorkspaceEquiv.wf s ->
  call ["Workspace"; "update_text_document"] (Some (W s)) [versioned_id u v; chv c] [] =
  match ws_update_text_document s u v c with Some s' => Ok (W s') | None => Raise KeyError end.

Hypothesis Hput : spec_put cf r1 r2 call.
Hypothesis Hrem : spec_remove cf r1 r2 call.
Hypothesis Hupd : spec_update.

Definition unb_body : list stmt := fbody f_update_notebook_document.

Lemma or_empty_list (l : list val) :
  (if match l with [] => false | _ :: _ => true end then @Ok val (VList l) else Ok (VList [])) = Ok (VList l).
Proof. destruct l; reflexivity. Qed.

(* the last statement: for text in cell_changes.text_content or []: for change in text.changes: update_text_document *)
Lemma phase_text env s c : AstWorkspaceEquiv.wf s -> get "self" env = Some (W s) -> get "$3" env = Some (cc_val chv c) ->
  final_state (exec_block call f env (skipn 10 unb_body)) =
  Some (W (fst (text_content s (cc_text c))), snd (text_content s (cc_text c))).
Proof.
  intros Hwf G1 G3. unfold unb_body, f_update_notebook_document. cbn [fbody skipn].
  rewrite exec_block_cons, exec_for. pyexpr. rewrite G3. unfold cc_val at 1. pyexpr. rewrite or_empty_list.
  rewrite text_content_fold.
  match goal with |- context[for_each ?body ?x _ ?env0] =>
    pose proof (for_each_res body x tc_step (tc_val chv) (fun e s' => get "self" e = Some (W s'))) as Hloop;
    specialize (fun H1 H2 => Hloop H1 H2 (cc_text c) env0 s G1 Hwf)
  end.
  match type of Hloop with ?A -> ?B -> _ => assert A as HA; [|assert B as HB; [|specialize (Hloop HA HB)]] end.
  - (* one entry: the inner loop *)
    intros env1 s0 [[u v] cs] G Hw. cbv beta. unfold tc_step. cbn [fst snd]. rewrite update_all_fold.
    rewrite exec_block_cons, exec_for. pyexpr. unfold tc_val at 1. pyexpr.
    match goal with |- context[for_each ?body ?x _ ?env0] =>
      pose proof (for_each_res body x (upd_step u v) chv
                    (fun e s' => get "self" e = Some (W s') /\ get "$15" e = Some (tc_val chv (u, v, cs)))) as Hin;
      specialize (fun H1 H2 => Hin H1 H2 cs env0 s0)
    end.
    match type of Hin with ?A -> ?B -> _ => assert A as HA; [|assert B as HB; [|specialize (Hin HA HB)]] end.
    + intros e s1 ch [E1 E2] Hw1. cbv beta. unfold upd_step.
      rewrite exec_block_cons. pyexec. rewrite E2. unfold ws_val in E1. rewrite E1. unfold tc_val, versioned_id in *.
      cbn [fst snd]. pyexpr.
      pose proof (Hupd s1 u v ch Hw1) as Hu. unfold ws_val at 1 in Hu. unfold versioned_id in Hu. rewrite Hu.
      destruct (ws_update_text_document s1 u v ch) as [s'|]; cbn [fst snd raise_with normal_with].
      * rewrite exec_block_nil. cbn [normal_with]. pyexpr. split; [reflexivity | exact E2].
      * split; [exact E1 | exact E2].
    + intros s1 ch Hw1. unfold upd_step. destruct (ws_update_text_document s1 u v ch) eqn:E; cbn [fst]; [|exact Hw1].
      eapply wf_update; eassumption.
    + assert (get "self" (set "$15" (tc_val chv (u, v, cs)) env1) = Some (W s0) /\
              get "$15" (set "$15" (tc_val chv (u, v, cs)) env1) = Some (tc_val chv (u, v, cs))) as Hi0
        by (split; pyexpr; [exact G | reflexivity]).
      specialize (Hin Hi0 Hw). revert Hin.
      destruct (snd (fold_res (upd_step u v) cs s0)); intros Hin.
      * apply (then_raise _ _ (fun env' => exec_block call f env' [])).
        revert Hin. apply raise_with_weaken. tauto.
      * apply (then_normal _ _ _ (fun env' => exec_block call f env' []) Hin). intros e [E1 E2].
        rewrite exec_block_nil. exact E1.
  - intros s1 [[u v] cs] Hw1. unfold tc_step. cbn [fst snd]. rewrite update_all_fold.
    apply wf_fold_res; [|exact Hw1]. intros s2 ch Hw2. unfold upd_step.
    destruct (ws_update_text_document s2 u v ch) eqn:E; cbn [fst]; [|exact Hw2]. eapply wf_update; eassumption.
  - revert Hloop. destruct (snd (fold_res tc_step (cc_text c) s)); intros Hloop.
    + apply (final_then_raise _ _ (fun env' => exec_block call f env' []) Hloop).
    + apply (final_then_normal _ _ _ _ (fun env' => exec_block call f env' []) Hloop).
      intros e E. rewrite exec_block_nil. cbn [final_state]. rewrite E. reflexivity.
Qed.

Lemma take_map' {A B} (g : A -> B) (l : list A) : forall k, take k (map g l) = map g (take k l).
Proof.
  induction l as [|x r IH]; intros k; [reflexivity|]. cbn [map take]. destruct (k =? 0)%N; [reflexivity|].
  cbn [map]. f_equal. apply IH.
Qed.

Lemma drop_map' {A B} (g : A -> B) (l : list A) : forall k, drop k (map g l) = map g (drop k l).
Proof.
  induction l as [|x r IH]; intros k; [reflexivity|]. cbn [map drop]. destruct (k =? 0)%N; [reflexivity|]. apply IH.
Qed.

Lemma or_empty_val (l : list val) :
  (if match l with [] => false | _ :: _ => true end then VList l else VList []) = VList l.
Proof. destruct l; reflexivity. Qed.

(* the state after the structure block *)
Definition after_structure (s : ws) (n : N) (nb : notebook) (st : structure) : ws :=
  let s1 := with_nbs s (aset n (with_cells_nb nb (splice_cells (n_cells nb) st)) (w_nbs s)) in
  let s2 := fold_left (fun s it => put_text_document cf s it (Some n)) (st_open st) s1 in
  fold_left remove_text_document (st_close st) s2.

Lemma wf_with_nbs s n nb : AstWorkspaceEquiv.wf s -> AstWorkspaceEquiv.wf (with_nbs s (aset n nb (w_nbs s))).
Proof.
  intros (W1 & W2 & W3 & W4). unfold AstWorkspaceEquiv.wf. cbn [with_nbs w_docs w_nbs w_cells w_folders].
  repeat split; try assumption. apply aset_nodup, W2.
Qed.

Lemma wf_fold_put n its : forall s, AstWorkspaceEquiv.wf s ->
  AstWorkspaceEquiv.wf (fold_left (fun s it => put_text_document cf s it (Some n)) its s).
Proof. induction its as [|a r IH]; intros s H; [exact H|]. cbn [fold_left]. apply IH, wf_put, H. Qed.

Lemma wf_fold_remove cs : forall s, AstWorkspaceEquiv.wf s -> AstWorkspaceEquiv.wf (fold_left remove_text_document cs s).
Proof. induction cs as [|a r IH]; intros s H; [exact H|]. cbn [fold_left]. apply IH, wf_remove, H. Qed.

(* the body of `if structure:` *)
Lemma phase_structure_body env s n nb c st : AstWorkspaceEquiv.wf s -> aget n (w_nbs s) = Some nb ->
  get "self" env = Some (W s) -> get "$1" env = Some (uri_val n) -> get "$2" env = Some (mk_path (nb_path n)) ->
  get "$3" env = Some (cc_val chv c) -> get "$8" env = Some (structure_val st) ->
  normal_with (fun e => get "self" e = Some (W (after_structure s n nb st)) /\ get "$3" e = Some (cc_val chv c))
    (exec_block call f env
       (match nth 9 unb_body SPass with SIf _ a _ => a | _ => [] end)).
Proof.
  intros Hwf Enb G0 G1 G2 G3 G8. unfold unb_body, f_update_notebook_document. cbn [fbody nth].
  pystep_env. rewrite (nb_cells_get cf r1 r2 s n nb Enb). cbv beta iota.
  pystep_env. unfold structure_val. pyexpr. rewrite or_empty_list. cbv beta iota.
  pystep_env. unfold structure_val. pyexpr. rewrite clamp_idx_ofN, take_map'.
  pystep_env. unfold structure_val. pyexpr. rewrite <- N2Z.inj_add, clamp_idx_ofN, drop_map'.
  (* notebook.cells = [*before, *new_cells, *after] *)
  pystep_env. rewrite app_nil_r, <- !map_app.
  change (take (st_start st) (n_cells nb) ++ st_cells st ++ drop (st_start st + st_delete st) (n_cells nb))%list
    with (splice_cells (n_cells nb) st).
  rewrite (nb_set_attr cf r1 r2 s n nb (with_cells_nb nb (splice_cells (n_cells nb) st)) "cells"
             (VList (map cell_val (splice_cells (n_cells nb) st))) Hwf Enb eq_refl).
  cbv beta iota. unfold after_structure. cbv zeta.
  set (s1 := with_nbs s (aset n (with_cells_nb nb (splice_cells (n_cells nb) st)) (w_nbs s))).
  assert (AstWorkspaceEquiv.wf s1) as Hw1 by (apply wf_with_nbs, Hwf).
  set (s2 := fold_left (fun s it => put_text_document cf s it (Some n)) (st_open st) s1).
  (* for new_cell in structure.did_open or []: self.put_text_document(new_cell, notebook_uri=uri) *)
  pyunhide. rewrite exec_block_cons, exec_for. pyexpr. repeat (progress use_env; pyexpr).
  unfold structure_val. pyexpr. rewrite or_empty_list.
  match goal with |- context[for_each ?body ?x _ ?env0] =>
    pose proof (for_each_fold body x (fun s it => put_text_document cf s it (Some n)) item_val
                  (fun e s' => get "self" e = Some (W s') /\ get "$1" e = Some (uri_val n) /\
                               get "$3" e = Some (cc_val chv c) /\ get "$8" e = Some (structure_val st))) as Hl1;
    specialize (fun H1 H2 => Hl1 H1 H2 (st_open st) env0 s1)
  end.
  match type of Hl1 with ?A -> ?B -> ?C -> _ => assert A as HA; [|assert B as HB; [|assert C as HC; [|specialize (Hl1 HA HB HC Hw1)]]] end.
  - intros e s0 a (E0 & E1 & E3 & E8) Hw0. cbv beta. rewrite exec_block_cons. pyexec. pyexpr.
    rewrite E1. unfold ws_val in E0. rewrite E0.
    pose proof (Hput s0 a (Some n) Hw0) as Hp. unfold ws_val at 1 in Hp. cbn [put_kw] in Hp. rewrite Hp.
    rewrite exec_block_nil. cbn [normal_with]. pyexpr. repeat split; assumption.
  - intros s0 a. apply wf_put.
  - repeat split; pyexpr; repeat (progress use_env; pyexpr); reflexivity.
  - seq_normal Hl1. intros e1 (E0 & E1 & E3 & E8). fold s2 in E0.
    assert (AstWorkspaceEquiv.wf s2) as Hw2 by (apply wf_fold_put, Hw1).
    (* for removed_cell in structure.did_close or []: self.remove_text_document(removed_cell.uri) *)
    rewrite exec_block_cons, exec_for. pyexpr. rewrite E8. unfold structure_val. pyexpr. rewrite or_empty_list.
    match goal with |- context[for_each ?body ?x _ ?env0] =>
      pose proof (for_each_fold body x remove_text_document tdid_val
                    (fun e s' => get "self" e = Some (W s') /\ get "$3" e = Some (cc_val chv c))) as Hl2;
      specialize (fun H1 H2 => Hl2 H1 H2 (st_close st) env0 s2)
    end.
    match type of Hl2 with ?A -> ?B -> ?C -> _ => assert A as HA2; [|assert B as HB2; [|assert C as HC2; [|specialize (Hl2 HA2 HB2 HC2 Hw2)]]] end.
    + intros e s0 a (F0 & F3) Hw0. cbv beta. rewrite exec_block_cons. pyexec. pyexpr. unfold tdid_val. pyexpr.
      unfold ws_val in F0. rewrite F0.
      pose proof (Hrem s0 a) as Hr. unfold ws_val at 1 in Hr. rewrite Hr.
      rewrite exec_block_nil. cbn [normal_with]. pyexpr. split; [reflexivity | assumption].
    + intros s0 a. apply wf_remove.
    + split; assumption.
    + seq_normal Hl2. intros e2 E. rewrite exec_block_nil. exact E.
Qed.

(* ---------- the cell-data loop ---------- *)

Definition flows_with (P : list (string * val) -> Prop) (o : outcome) : Prop :=
  match o with ONormal e | OContinue e => P e | _ => False end.

Lemma for_each_gen {S A} (body : list (string * val) -> outcome) x (step : S -> A -> S) (gv : A -> val)
      (Inv : list (string * val) -> S -> Prop) :
  (forall env st a, Inv env st -> flows_with (fun e => Inv e (step st a)) (body (set x (gv a) env))) ->
  forall l env st, Inv env st -> normal_with (fun e => Inv e (fold_left step l st)) (for_each body x (map gv l) env).
Proof.
  intros Hb. induction l as [|a r IH]; intros env st Hi; cbn [map for_each fold_left normal_with]; [exact Hi|].
  pose proof (Hb env st a Hi) as Hs. destruct (body _); try contradiction; apply IH; exact Hs.
Qed.

Definition cur (s : ws) (n : N) (nb : notebook) : ws := with_nbs s (aset n nb (w_nbs s)).

Lemma cur_cur s n nb nb' : cur (cur s n nb) n nb' = cur s n nb'.
Proof. unfold cur. cbn [with_nbs w_docs w_nbs w_cells w_folders w_errs]. rewrite aset_aset. reflexivity. Qed.

Lemma cur_get s n nb : aget n (w_nbs (cur s n nb)) = Some nb.
Proof. unfold cur. cbn [with_nbs w_nbs]. apply aget_aset_eq. Qed.

Lemma wf_cur s n nb : AstWorkspaceEquiv.wf s -> AstWorkspaceEquiv.wf (cur s n nb).
Proof. apply wf_with_nbs. Qed.

Definition data_step (nb : notebook) (d : nbcell) : notebook := with_cells_nb nb (apply_cell_data (n_cells nb) d).

Lemma data_fold data : forall nb,
  fold_left data_step data nb = with_cells_nb nb (fold_left apply_cell_data data (n_cells nb)).
Proof.
  induction data as [|d r IH]; intros nb; cbn [fold_left]; [destruct nb; reflexivity|].
  rewrite IH. unfold data_step, with_cells_nb. cbn [n_version n_meta n_type n_cells]. reflexivity.
Qed.

Lemma nth_error_nth {A} (l : list A) i d : (i < length l)%nat -> nth_error l i = Some (nth i l d).
Proof. revert i. induction l as [|x r IH]; intros [|i] H; cbn [length] in H; try lia; cbn; [reflexivity | apply IH; lia]. Qed.

Lemma cc_data_attr c : py_getattr (cc_val chv c) "data" = Ok (VList (map cell_val (cc_data c))).
Proof. reflexivity. Qed.
Lemma cc_structure_attr c :
  py_getattr (cc_val chv c) "structure" = Ok (match cc_structure c with Some st => structure_val st | None => VNone end).
Proof. reflexivity. Qed.

Lemma cell_kind_attr d : py_getattr (cell_val d) "kind" = Ok (VInt (Z.of_N (c_kind d))).
Proof. reflexivity. Qed.
Lemma cell_meta_attr d : py_getattr (cell_val d) "metadata" = Ok (opt_n (c_meta d)).
Proof. reflexivity. Qed.
Lemma cell_exec_attr d : py_getattr (cell_val d) "execution_summary" = Ok (opt_n (c_exec d)).
Proof. reflexivity. Qed.
Lemma cell_doc_attr d : py_getattr (cell_val d) "document" = Ok (uri_val (c_doc d)).
Proof. reflexivity. Qed.

Lemma index_dict_cells0 base cells :
  index_dict base "document" (map cell_val cells) 0 [] =
  Ok (items (fun (_ : N) (j : Z) => mk_path (base ++ [VInt j])) (build_index cells 0 [])).
Proof. exact (index_dict_cells base cells 0 [] (NoDup_nil _)). Qed.

Lemma cell_set_cur s n nb j c c' a v : AstWorkspaceEquiv.wf s -> nth_error (n_cells nb) j = Some c ->
  (match cell_val c with VObj k fl => VObj k (set_field a v fl) | x => x end) = cell_val c' ->
  path_set (W (cur s n nb)) (nb_path n ++ [VGlobal ["cells"]; VInt (Z.of_nat j); VGlobal [a]]) v =
  Ok (W (cur s n (with_cells_nb nb (list_set (n_cells nb) j c')))).
Proof.
  intros Hwf Hn Hf.
  rewrite (cell_set_attr cf r1 r2 (cur s n nb) n nb j c c' a v (wf_cur s n nb Hwf) (cur_get s n nb) Hn Hf).
  change (with_nbs (cur s n nb) (aset n (with_cells_nb nb (list_set (n_cells nb) j c')) (w_nbs (cur s n nb))))
    with (cur (cur s n nb) n (with_cells_nb nb (list_set (n_cells nb) j c'))).
  rewrite cur_cur. reflexivity.
Qed.

Lemma phase_data env s n nb c : AstWorkspaceEquiv.wf s ->
  get "self" env = Some (W (cur s n nb)) -> get "$1" env = Some (uri_val n) ->
  get "$2" env = Some (mk_path (nb_path n)) -> get "$3" env = Some (cc_val chv c) ->
  normal_with (fun e => get "self" e = Some (W (cur s n (with_cells_nb nb (fold_left apply_cell_data (cc_data c) (n_cells nb))))) /\
                        get "$1" e = Some (uri_val n) /\ get "$2" e = Some (mk_path (nb_path n)) /\
                        get "$3" e = Some (cc_val chv c))
    (exec_block call f env [nth 6 unb_body SPass; nth 7 unb_body SPass]).
Proof.
  intros Hwf G0 G1 G2 G3. unfold unb_body, f_update_notebook_document. cbn [fbody nth].
  pystep_env. rewrite (nb_cells_get cf r1 r2 _ n nb (cur_get s n nb)). pyexpr.
  rewrite index_dict_cells0. cbv beta iota.
  set (idx := build_index (n_cells nb) 0 []).
  set (gp := fun (_ : N) (j : Z) => mk_path ((nb_path n ++ [VGlobal ["cells"]]) ++ [VInt j])).
  pyunhide. rewrite exec_block_cons, exec_for. pyexpr. repeat (progress use_env; pyexpr).
  rewrite cc_data_attr. pyexpr. rewrite or_empty_list.
  rewrite <- data_fold.
  match goal with |- context[for_each ?body ?x _ ?env0] =>
    pose proof (for_each_gen body x data_step cell_val
                  (fun e nb' => get "self" e = Some (W (cur s n nb')) /\ get "$1" e = Some (uri_val n) /\
                                get "$2" e = Some (mk_path (nb_path n)) /\ get "$3" e = Some (cc_val chv c) /\
                                get "$4" e = Some (mk_dict (items gp idx)) /\
                                map c_doc (n_cells nb') = map c_doc (n_cells nb))) as Hl;
    specialize (fun H1 => Hl H1 (cc_data c) env0 nb)
  end.
  match type of Hl with ?A -> ?B -> _ => assert A as HA; [|assert B as HB; [|specialize (Hl HA HB)]] end.
  - intros e nb' d (E0 & E1 & E2 & E3 & E4 & Edocs). cbv beta.
    rewrite exec_block_cons. pyexec. rewrite E4. unfold cell_val at 1. pyexpr.
    rewrite dict_get_items. change (aget (c_doc d) idx) with (aget (c_doc d) (build_index (n_cells nb) 0 [])).
    rewrite build_index_get. cbn [aget].
    rewrite <- (last_index_docs (c_doc d) _ _ Edocs).
    unfold data_step, apply_cell_data. rewrite upd_last_cell_spec.
    destruct (last_index (c_doc d) (n_cells nb')) as [j|] eqn:Ej.
    + pose proof (last_index_lt _ _ _ Ej) as Hj.
      pose proof (nth_error_nth (n_cells nb') j d Hj) as Hnth. set (c0 := nth j (n_cells nb') d) in *.
      unfold gp. cbv beta. rewrite Z.add_0_l.
      pystep_env.
      set (c1 := mkCell (c_kind d) (c_doc c0) (c_meta c0) (c_exec c0)).
      set (c2 := mkCell (c_kind d) (c_doc c0) (c_meta d) (c_exec c0)).
      (* nb_cell.kind = new_data.kind *)
      pystep_env. rewrite cell_kind_attr. cbv beta iota. rewrite <- !app_assoc. cbn [app].
      rewrite (cell_set_cur s n nb' j c0 c1 "kind" (VInt (Z.of_N (c_kind d))) Hwf Hnth eq_refl). cbv beta iota.
      (* nb_cell.metadata = new_data.metadata *)
      pystep_env. rewrite cell_meta_attr. cbv beta iota. rewrite <- !app_assoc. cbn [app].
      set (nbA := with_cells_nb nb' (list_set (n_cells nb') j c1)).
      assert (nth_error (n_cells nbA) j = Some c1) as HnA by (apply nth_error_list_set, Hj).
      rewrite (cell_set_cur s n nbA j c1 c2 "metadata" (opt_n (c_meta d)) Hwf HnA eq_refl). cbv beta iota.
      (* nb_cell.execution_summary = new_data.execution_summary *)
      pystep_env. rewrite cell_exec_attr. cbv beta iota. rewrite <- !app_assoc. cbn [app].
      set (nbB := with_cells_nb nbA (list_set (n_cells nbA) j c2)).
      assert (nth_error (n_cells nbB) j = Some c2) as HnB.
      { apply nth_error_list_set. unfold nbA. cbn [n_cells with_cells_nb]. rewrite length_list_set. exact Hj. }
      rewrite (cell_set_cur s n nbB j c2 (set_cell_data c0 d) "execution_summary" (opt_n (c_exec d)) Hwf HnB eq_refl).
      cbv beta iota. pyfinish. cbn [flows_with]. pyexpr.
      repeat split; try assumption.
      * unfold nbB, nbA, with_cells_nb. cbn [n_cells n_version n_meta n_type]. rewrite !list_set_twice. reflexivity.
      * cbn [n_cells with_cells_nb]. rewrite (map_doc_list_set (n_cells nb') j c0 (set_cell_data c0 d) Hnth eq_refl). exact Edocs.
    + (* no cell with that document: logger.warning, continue *)
      pystep_env. rewrite cell_doc_attr. pyexpr. cbn [flows_with].
      repeat split; pyexpr; try assumption; destruct nb'; assumption.
  - repeat split; pyexpr; try assumption; try reflexivity.
  - seq_normal Hl. intros e (E0 & E1 & E2 & E3 & E4 & Edocs). rewrite exec_block_nil. cbn [normal_with].
    repeat split; assumption.
Qed.


Lemma exec_block_app a : forall b env,
  exec_block call f env (a ++ b) = then_block (exec_block call f env a) (fun e => exec_block call f e b).
Proof.
  induction a as [|x r IH]; intros b env; [reflexivity|]. cbn [app]. rewrite !exec_block_cons.
  destruct (exec call f env x); cbn [then_block]; try reflexivity. apply IH.
Qed.

Definition unb_env (s : ws) (n : N) (v : Z) (meta : option N) (cc : option cellchange) : list (string * val) :=
  [("params", change_params chv n v meta cc); ("self", W s)].

Lemma unb_split : skipn 6 unb_body = ([nth 6 unb_body SPass; nth 7 unb_body SPass] ++ skipn 8 unb_body)%list.
Proof. reflexivity. Qed.

Lemma nb_set_cur s n nb nb' a v : AstWorkspaceEquiv.wf s ->
  (match nb_val n nb with VObj c fl => VObj c (set_field a v fl) | x => x end) = nb_val n nb' ->
  path_set (W (cur s n nb)) (nb_path n ++ [VGlobal [a]]) v = Ok (W (cur s n nb')).
Proof.
  intros Hwf Hf. rewrite (nb_set_attr cf r1 r2 (cur s n nb) n nb nb' a v (wf_cur s n nb Hwf) (cur_get s n nb) Hf).
  change (with_nbs (cur s n nb) (aset n nb' (w_nbs (cur s n nb)))) with (cur (cur s n nb) n nb').
  rewrite cur_cur. reflexivity.
Qed.

(* the model's function from `cell_changes = params.change.cells` on, for the notebook nb1 *)
Definition model_tail (s : ws) (n : N) (nb1 : notebook) (cc : option cellchange) : ws * bool :=
  match cc with
  | None => (with_nbs s (aset n nb1 (w_nbs s)), false)
  | Some cc =>
    let cells1 := fold_left apply_cell_data (cc_data cc) (n_cells nb1) in
    match cc_structure cc with
    | None =>
      let s1 := with_nbs s (aset n (mkNb (n_version nb1) (n_meta nb1) (n_type nb1) cells1) (w_nbs s)) in
      text_content s1 (cc_text cc)
    | Some st =>
      let cells2 := splice_cells cells1 st in
      let s1 := with_nbs s (aset n (mkNb (n_version nb1) (n_meta nb1) (n_type nb1) cells2) (w_nbs s)) in
      let s2 := fold_left (fun s it => put_text_document cf s it (Some n)) (st_open st) s1 in
      let s3 := fold_left remove_text_document (st_close st) s2 in
      text_content s3 (cc_text cc)
    end
  end.

Lemma unb_tail env s n nb1 v' meta' cc : AstWorkspaceEquiv.wf s ->
  get "self" env = Some (W (cur s n nb1)) -> get "$1" env = Some (uri_val n) ->
  get "$2" env = Some (mk_path (nb_path n)) -> get "params" env = Some (change_params chv n v' meta' cc) ->
  final_state (exec_block call f env (skipn 4 unb_body)) =
  Some (W (fst (model_tail s n nb1 cc)), snd (model_tail s n nb1 cc)).
Proof.
  intros Hwf G0 G1 G2 Gp. unfold unb_body, f_update_notebook_document, model_tail. cbn [fbody skipn].
  (* cell_changes = params.change.cells; if cell_changes is None: return *)
  pystep_env. unfold change_params. pyexpr. pystep_env.
  destruct cc as [c|]; pyexpr.
  2: { cbn [final_state]. reflexivity. }
  cbv zeta. change (PyMini.is_none (cc_val chv c)) with false. pyexpr.
  (* the index of the cells and the data loop *)
  pyunhide.
  match goal with |- final_state (exec_block call f ?e ?l) = _ =>
    change l with ([nth 6 unb_body SPass; nth 7 unb_body SPass] ++ skipn 8 unb_body)%list
  end.
  rewrite exec_block_app.
  match goal with |- final_state (then_block (exec_block call f ?e _) _) = _ =>
    assert (get "self" e = Some (W (cur s n nb1)) /\ get "$1" e = Some (uri_val n) /\
            get "$2" e = Some (mk_path (nb_path n)) /\ get "$3" e = Some (cc_val chv c)) as (F0 & F1 & F2 & F3)
      by (repeat split; pyexpr; assumption);
    pose proof (phase_data e s n nb1 c Hwf F0 F1 F2 F3) as Hd
  end.
  apply (final_then_normal _ _ _ _ _ Hd). clear Hd. intros e (E0 & E1 & E2 & E3).
  set (nb2 := with_cells_nb nb1 (fold_left apply_cell_data (cc_data c) (n_cells nb1))) in *.
  (* structure = cell_changes.structure; if structure: ... *)
  unfold unb_body, f_update_notebook_document. cbn [fbody skipn].
  pystep_env. rewrite cc_structure_attr. cbv beta iota.
  destruct (cc_structure c) as [st|].
  - (* if structure: the splice, didOpen, didClose *)
    pyunhide. rewrite exec_block_cons, exec_if. pyexpr. change (truthy (structure_val st)) with true. cbv beta iota.
    match goal with |- final_state (match exec_block call f ?e1 ?inner with ONormal env' => @?K env' | _ => _ end) = _ =>
      pose proof (phase_structure_body e1 (cur s n nb2) n nb2 c st (wf_cur s n nb2 Hwf) (cur_get s n nb2)) as Hs;
      change (final_state (then_block (exec_block call f e1 inner) K) =
              Some (W (fst (text_content
                              (fold_left remove_text_document (st_close st)
                                 (fold_left (fun s0 it => put_text_document cf s0 it (Some n)) (st_open st)
                                    (with_nbs s (aset n (mkNb (n_version nb1) (n_meta nb1) (n_type nb1)
                                        (splice_cells (fold_left apply_cell_data (cc_data c) (n_cells nb1)) st)) (w_nbs s)))))
                              (cc_text c))),
                    snd (text_content
                              (fold_left remove_text_document (st_close st)
                                 (fold_left (fun s0 it => put_text_document cf s0 it (Some n)) (st_open st)
                                    (with_nbs s (aset n (mkNb (n_version nb1) (n_meta nb1) (n_type nb1)
                                        (splice_cells (fold_left apply_cell_data (cc_data c) (n_cells nb1)) st)) (w_nbs s)))))
                              (cc_text c))))
    end.
    assert (after_structure (cur s n nb2) n nb2 st =
            fold_left remove_text_document (st_close st)
              (fold_left (fun s0 it => put_text_document cf s0 it (Some n)) (st_open st)
                 (with_nbs s (aset n (mkNb (n_version nb1) (n_meta nb1) (n_type nb1)
                     (splice_cells (fold_left apply_cell_data (cc_data c) (n_cells nb1)) st)) (w_nbs s))))) as Hafter.
    { unfold after_structure. cbv zeta.
      change (with_nbs (cur s n nb2) (aset n (with_cells_nb nb2 (splice_cells (n_cells nb2) st)) (w_nbs (cur s n nb2))))
        with (cur (cur s n nb2) n (with_cells_nb nb2 (splice_cells (n_cells nb2) st))).
      rewrite cur_cur. reflexivity. }
    rewrite <- Hafter.
    eapply final_then_normal.
    + apply Hs; pyexpr; try assumption. reflexivity.
    + intros e2 (H0 & H3). cbv beta.
      apply (phase_text e2 (after_structure (cur s n nb2) n nb2 st) c); try assumption.
      unfold after_structure. cbv zeta. apply wf_fold_remove, wf_fold_put, wf_with_nbs, wf_cur, Hwf.
  - (* no structure change *)
    pyunhide. rewrite exec_block_cons. pyexec. pyexpr.
    apply (phase_text _ (cur s n nb2) c); [apply wf_cur, Hwf | pyexpr; exact E0 | pyexpr; exact E3].
Qed.

Theorem update_notebook_document_ok s n v meta cc : AstWorkspaceEquiv.wf s ->
  final_state (exec_block call f (unb_env s n v meta cc) unb_body) =
  Some (W (fst (update_notebook_document cf s n v meta cc)), snd (update_notebook_document cf s n v meta cc)).
Proof.
  intros Hwf.
  assert (update_notebook_document cf s n v meta cc =
          match aget n (w_nbs s) with
          | None => (s, true)
          | Some nb => model_tail s n (mkNb v (match meta with Some m => Some m | None => n_meta nb end)
                                            (n_type nb) (n_cells nb)) cc
          end) as -> by reflexivity.
  unfold unb_env, unb_body, f_update_notebook_document, change_params. cbn [fbody].
  pystep. pystep. fold (nb_path n).
  destruct (aget n (w_nbs s)) as [nb|] eqn:Enb.
  2: { assert (path_get (W s) (nb_path n) = Raise KeyError) as ->.
       { unfold ws_val, nb_path. cbn [path_get get String.eqb Ascii.eqb Bool.eqb dict_items mk_dict andb].
         rewrite dict_get_items, Enb. reflexivity. }
       reflexivity. }
  rewrite (nb_get cf r1 r2 s n nb Enb). cbv beta iota.
  (* notebook.version = ... *)
  pystep.
  rewrite (nb_set_attr cf r1 r2 s n nb (mkNb v (n_meta nb) (n_type nb) (n_cells nb)) "version" (VInt v) Hwf Enb eq_refl).
  cbv beta iota. fold (cur s n (mkNb v (n_meta nb) (n_type nb) (n_cells nb))).
  (* if params.change.metadata is not None: notebook.metadata = ... *)
  pystep.
  fold (change_params chv n v meta cc).
  destruct meta as [m|]; cbn [opt_n]; pyexpr.
  - rewrite (nb_set_cur s n (mkNb v (n_meta nb) (n_type nb) (n_cells nb)) (mkNb v (Some m) (n_type nb) (n_cells nb)) "metadata" (VInt (Z.of_N m)) Hwf eq_refl).
    cbv beta iota. pyunhide.
    apply (unb_tail _ s n _ v (Some m) cc Hwf); pyexpr; reflexivity.
  - pyunhide. apply (unb_tail _ s n _ v None cc Hwf); pyexpr; reflexivity.
Qed.
End Main.


(* ------------------------------------------------------------------------------------ *)
(* Linking: the translated methods call each other; TextDocument.apply_change stays an   *)
(* oracle (the text of a document is text_document.py's, Proofs/AstDocEquiv.v).           *)

(* mk_call, with the functions outside the program answered by an oracle *)
Fixpoint wcall (oracle : callT) (f : nat) (d : nat) : callT :=
  match d with
  | O => fun _ _ _ _ => Stuck "call depth"
  | S d' => fun q recv args kw =>
    match find_def q prog with
    | Some fd => run_fun (wcall oracle f d') f fd recv args kw
    | None => oracle q recv args kw
    end
  end.

Section Link.
Variable cf : encoding * sync_kind.
Variables r1 r2 : val.
Variable chv : change -> val.
Variable oracle : callT.
Hypothesis Horacle : forall c, spec_apply_change oracle (chv c) c.

Lemma W_create f d : spec_create cf r1 r2 (wcall oracle f (S d)).
Proof.
  intros s u sv vv lv. cbn [wcall]. split.
  - apply (proj1 (create_ok_gen cf r1 r2 _ f s u sv vv lv)).
  - apply (proj2 (create_ok_gen cf r1 r2 _ f s u sv vv lv)).
Qed.

Lemma W_put f d : spec_put cf r1 r2 (wcall oracle f (S (S d))).
Proof. intros s it nb Hwf. apply put_ok_gen; [apply W_create | exact Hwf | reflexivity]. Qed.

Lemma W_remove f d : spec_remove cf r1 r2 (wcall oracle f (S d)).
Proof. intros s u. apply remove_ok_gen. Qed.

Lemma W_update f d : spec_update cf r1 r2 chv (wcall oracle f (S (S d))).
Proof.
  intros s u v c Hwf. apply (update_text_document_ok_gen cf r1 r2 _ f (chv c) c); [|exact Hwf].
  intros u0 d0 l0. apply Horacle.
Qed.

(* update_notebook_document: the workspace the body leaves and whether KeyError escaped are the model's *)
Theorem ast_update_notebook_document_equiv f d s n v meta cc : AstWorkspaceEquiv.wf s ->
  final_state (exec_block (wcall oracle f (S (S d))) f (unb_env cf r1 r2 chv s n v meta cc) unb_body) =
  Some (ws_val cf r1 r2 (fst (update_notebook_document cf s n v meta cc)),
        snd (update_notebook_document cf s n v meta cc)).
Proof.
  intros Hwf. apply update_notebook_document_ok; [apply W_put | apply (W_remove f (S d)) | apply W_update | exact Hwf].
Qed.
End Link.

(* the environment of the theorem is the one a call binds *)
Lemma unb_env_bind cf r1 r2 chv s n v meta cc :
  bind_params (fparams f_update_notebook_document) [ws_val cf r1 r2 s; change_params chv n v meta cc] [] [] =
  Ok (unb_env cf r1 r2 chv s n v meta cc).
Proof. reflexivity. Qed.

(* non-vacuity: a notebook with two cells; a change that sets the version, updates the data of the cell with
   document 8, replaces the first cell by a new one (opening its document 9) and then edits a document that
   is NOT open: KeyError escapes and everything before it is kept *)
Definition demo_oracle : callT := fun q recv args kw =>
  match recv, args with
  | Some (VObj cls fields), [VStr t] =>
    match get "sync_kind" fields with
    | Some k => if py_eq k (kind_val SyncNone) then Ok (VObj cls fields)
                else Ok (VObj cls (set_field "source" (VStr t) fields))
    | None => Stuck "no"
    end
  | _, _ => Stuck "no"
  end.

Definition demo_chv (c : change) : val := match c with Whole t => VStr t | Partial _ t => VStr t end.

Example ast_update_notebook_example :
  let cf := (Utf16, SyncFull) in
  let nb := mkNb 1 None 0 [mkCell 1 7 None None; mkCell 1 8 None None]%N in
  let s := put_notebook_document cf (init_ws []) 5%N nb [(7%N, 0%N, 1, [97%N]); (8%N, 0%N, 1, [98%N])] in
  let cc := mkCC (Some (mkStruct 0%N 1%N [mkCell 2%N 9%N None None] [(9%N, 0%N, 1, [99%N])] [7%N]))
                 [mkCell 2%N 8%N (Some 4%N) None] [(3%N, 2, [Whole [100%N]])] in
  AstWorkspaceEquiv.wf s /\
  snd (update_notebook_document cf s 5%N 2 (Some 3%N) (Some cc)) = true /\
  final_state (exec_block (wcall demo_oracle 0 2) 0 (unb_env cf VNone VNone demo_chv s 5%N 2 (Some 3%N) (Some cc)) unb_body) =
  Some (ws_val cf VNone VNone (fst (update_notebook_document cf s 5%N 2 (Some 3%N) (Some cc))), true).
Proof.
  cbv zeta. split; [|split].
  - repeat split; vm_compute; repeat constructor; cbn; intuition discriminate.
  - vm_compute. reflexivity.
  - vm_compute. reflexivity.
Qed.
