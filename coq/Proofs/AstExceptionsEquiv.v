(* The translated source of pygls/exceptions.py (Gen/AstExceptions.v, regenerated from the source text
   by harness/gen_ast.py on every run): JsonRpcException.__init__ / supports_code / to_response_error,
   JsonRpcServerError.__init__ / supports_code and _is_server_error_code compute, under the PyMini
   semantics, exactly what Model/Exceptions.v computes - for every class row, message, code and data -
   and, for the rows of the reflected class table Gen/ExcTable.v, the function each class uses is the
   one its row says. *)
From Coq Require Import ZArith NArith List Bool String Ascii Lia ZifyBool ZifyN ZifyNat.
From Pygls Require Import Base.PyMini Base.PyMiniFacts Gen.AstExceptions Model.Exceptions Gen.ExcTable.
Import ListNotations.
Open Scope string_scope.
Open Scope Z_scope.

(* ---------- how Python values stand for the model's data ---------- *)

(* a class, as far as these functions can see it: the record of its class attributes CODE / MESSAGE
   (present only when some class of its MRO defines them) *)
Definition cls_val (e : entry) : val :=
  VObj "type" ((match e_code e with Some k => [("CODE", VInt k)] | None => [] end) ++
               (match e_msg e with Some m => [("MESSAGE", VStr m)] | None => [] end))%list.

(* `data`: any value; None is Python's None *)
Definition data_val (d : option val) : val := match d with Some v => v | None => VNone end.
Definition opt_str (m : option (list N)) : val := match m with Some s => VStr s | None => VNone end.
Definition opt_int (c : option Z) : val := match c with Some z => VInt z | None => VNone end.

(* a fresh instance of a class named n (as `cls.__new__` leaves it), and an initialised one *)
Definition new_inst (n : string) (e : entry) : val := VObj n [("__class__", cls_val e)].
Definition exc_val (n : string) (x : exc val) : val :=
  VObj n [("__class__", cls_val (x_class x)); ("message", VStr (x_msg x)); ("code", VInt (x_code x));
          ("data", data_val (x_data x))].

Definition cres_val (n : string) (c : cres val) : res val :=
  match c with
  | COk x => Ok (exc_val n x)
  | CValueError => Raise ValueError
  | CTypeError => Raise TypeError
  | CAttributeError => Raise AttributeError
  end.

Definition rerr_val (r : rerror val) : val :=
  VObj "ResponseError" [("code", VInt (r_code r)); ("message", VStr (r_msg r)); ("data", data_val (r_data r))].

Notation q_base_init := ["JsonRpcException"; "__init__"] (only parsing).
Notation q_base_supports := ["JsonRpcException"; "supports_code"] (only parsing).
Notation q_to_response_error := ["JsonRpcException"; "to_response_error"] (only parsing).
Notation q_srv_init := ["JsonRpcServerError"; "__init__"] (only parsing).
Notation q_srv_supports := ["JsonRpcServerError"; "supports_code"] (only parsing).
Notation q_is_srv := ["_is_server_error_code"] (only parsing).

Notation LO := (-32099) (only parsing).
Notation HI := (-32000) (only parsing).

(* ---------- _is_server_error_code ---------- *)

Definition spec_is_srv (call : callT) : Prop := forall c : option Z,
  call q_is_srv None [opt_int c] [] =
  match c with Some z => Ok (VBool (in_range LO HI z)) | None => Raise TypeError end.

Lemma is_srv_ok f d : spec_is_srv (mk_call prog f (S d)).
Proof.
  intros c. enter f_is_server_error_code. generalize (mk_call prog f d); intros call.
  unfold run_fun, f_is_server_error_code, in_range. destruct c as [z|]; cbn [opt_int]; pysimp; [|reflexivity].
  change (- (32099)) with (-32099). change (- (32000)) with (-32000).
  destruct (-32099 <=? z); reflexivity.
Qed.

(* ---------- supports_code, both variants ---------- *)

Definition inherited_supports (e : entry) (code : Z) : bool :=
  Z.eqb (match e_code e with Some k => k | None => -32001 end) code.

Lemma base_supports_ok f d e code :
  mk_call prog f (S d) q_base_supports (Some (cls_val e)) [VInt code] [] =
  Ok (VBool (inherited_supports e code)).
Proof.
  enter f_JsonRpcException_supports_code. generalize (mk_call prog f d); intros call.
  unfold run_fun, f_JsonRpcException_supports_code, cls_val, inherited_supports.
  destruct (e_code e) as [k|]; destruct (e_msg e) as [m|]; pysimp; reflexivity.
Qed.

Lemma srv_supports_ok f d r cl code : class_of r = Some cl ->
  mk_call prog f (S (S d)) q_srv_supports (Some r) [VInt code] [] = Ok (VBool (in_range LO HI code)).
Proof.
  intros Hr. enter f_JsonRpcServerError_supports_code.
  pose proof (is_srv_ok f d (Some code)) as Hs. revert Hs. generalize (mk_call prog f (S d)); intros call Hs.
  unfold run_fun, f_JsonRpcServerError_supports_code. pysimp. rewrite Hr. pysimp.
  cbn [opt_int] in Hs. rewrite Hs. reflexivity.
Qed.

(* ---------- JsonRpcException.__init__ ---------- *)

Lemma getattr_message e :
  py_getattr (cls_val e) "MESSAGE" = match e_msg e with Some m => Ok (VStr m) | None => Raise AttributeError end.
Proof. unfold cls_val. destruct (e_code e); destruct (e_msg e); reflexivity. Qed.

Lemma getattr_code e :
  py_getattr (cls_val e) "CODE" = match e_code e with Some k => Ok (VInt k) | None => Raise AttributeError end.
Proof. unfold cls_val. destruct (e_code e); destruct (e_msg e); reflexivity. Qed.

Definition spec_base_init (call : callT) : Prop := forall n e message code data,
  call q_base_init (Some (new_inst n e)) [] [("message", opt_str message); ("code", opt_int code); ("data", data_val data)] =
  cres_val n (base_init e message code data).

Lemma base_init_run call f n e message code data args kw :
  (args = [opt_str message; opt_int code; data_val data] /\ kw = []) \/
  (args = [] /\ kw = [("message", opt_str message); ("code", opt_int code); ("data", data_val data)]) ->
  run_fun call f f_JsonRpcException_init (Some (new_inst n e)) args kw =
  cres_val n (base_init e message code data).
Proof.
  intros Hargs.
  assert (run_fun call f f_JsonRpcException_init (Some (new_inst n e)) args kw =
          run_fun call f f_JsonRpcException_init (Some (new_inst n e))
                  [opt_str message; opt_int code; data_val data] []) as ->.
  { destruct Hargs as [[-> ->]|[-> ->]]; [reflexivity|].
    unfold run_fun, f_JsonRpcException_init, new_inst. pybind. reflexivity. }
  unfold run_fun, f_JsonRpcException_init, new_inst, base_init.
  destruct message as [m|]; destruct code as [c|]; cbn [opt_str opt_int]; pysimp;
    rewrite ?getattr_message, ?getattr_code.
  - reflexivity.
  - destruct (e_code e); pysimp; reflexivity.
  - destruct (e_msg e); pysimp; reflexivity.
  - destruct (e_msg e); pysimp; rewrite ?getattr_code; [destruct (e_code e); pysimp|]; reflexivity.
Qed.

Lemma base_init_ok f d : spec_base_init (mk_call prog f (S d)).
Proof.
  intros n e message code data. enter f_JsonRpcException_init. apply base_init_run. right. split; reflexivity.
Qed.

(* ---------- JsonRpcServerError.__init__ ---------- *)

Lemma srv_init_ok f d n e message code data :
  mk_call prog f (S (S d)) q_srv_init (Some (new_inst n e)) [opt_str message; opt_int code; data_val data] [] =
  cres_val n (match code with
              | None => CTypeError
              | Some c => if in_range LO HI c then base_init e message code data else CValueError
              end).
Proof.
  enter f_JsonRpcServerError_init.
  pose proof (is_srv_ok f d) as Hs. pose proof (base_init_ok f d) as Hb. revert Hs Hb.
  generalize (mk_call prog f (S d)); intros call Hs Hb.
  unfold spec_is_srv in Hs. unfold spec_base_init, new_inst in Hb.
  unfold run_fun, f_JsonRpcServerError_init, new_inst. pybind.
  pystep. rewrite (Hs code). destruct code as [c|]; [|reflexivity].
  cbv beta iota. pyexpr. destruct (in_range (-32099) (-32000) c); pyexpr; [|reflexivity].
  pose proof (Hb n e message (Some c) data) as Hb'. cbn [opt_int] in Hb' |- *.
  pystep. rewrite Hb'.
  destruct (base_init e message (Some c) data); reflexivity.
Qed.

(* ---------- to_response_error ---------- *)

Lemma to_response_error_ok f d n x :
  mk_call prog f (S d) q_to_response_error (Some (exc_val n x)) [] [] =
  match to_response_error x with Some r => Ok (rerr_val r) | None => Raise ValueError end.
Proof.
  enter f_JsonRpcException_to_response_error. generalize (mk_call prog f d); intros call.
  unfold run_fun, f_JsonRpcException_to_response_error, exc_val, to_response_error, int32, in_range. pysimp.
  destruct ((-2147483648 <=? x_code x) && (x_code x <=? 2147483647)); reflexivity.
Qed.

(* ------------------------------------------------------------------------------------ *)
(* The theorems.  `run prog fuel depth q (Some receiver) args`; no loops, any fuel.       *)

Lemma depth_ge n d : (n <= d)%nat -> exists d', d = (n + d')%nat.
Proof. intros H. exists (d - n)%nat. lia. Qed.

Theorem ast_is_server_error_code_equiv f d (c : option Z) : (1 <= d)%nat ->
  run prog f d q_is_srv None [opt_int c] =
  match c with Some z => Ok (VBool (in_range LO HI z)) | None => Raise TypeError end.
Proof. intros Hd. destruct (depth_ge 1 d Hd) as [d' ->]. exact (is_srv_ok f d' c). Qed.

Theorem ast_supports_code_inherited_equiv f d e code : (1 <= d)%nat ->
  run prog f d q_base_supports (Some (cls_val e)) [VInt code] = Ok (VBool (inherited_supports e code)).
Proof. intros Hd. destruct (depth_ge 1 d Hd) as [d' ->]. exact (base_supports_ok f d' e code). Qed.

Theorem ast_supports_code_range_equiv f d e code : (2 <= d)%nat ->
  run prog f d q_srv_supports (Some (cls_val e)) [VInt code] = Ok (VBool (in_range LO HI code)).
Proof.
  intros Hd. destruct (depth_ge 2 d Hd) as [d' ->]. exact (srv_supports_ok f d' (cls_val e) (cls_val e) code eq_refl).
Qed.

(* JsonRpcException.__init__(self, message=None, code=None, data=None), arguments by position *)
Theorem ast_base_init_equiv f d n e message code data : (1 <= d)%nat ->
  run prog f d q_base_init (Some (new_inst n e)) [opt_str message; opt_int code; data_val data] =
  cres_val n (base_init e message code data).
Proof.
  intros Hd. destruct (depth_ge 1 d Hd) as [d' ->]. unfold run. cbn [Nat.add].
  enter f_JsonRpcException_init. apply base_init_run. left. split; reflexivity.
Qed.

(* ... and by keyword, as `super().__init__(message=..., code=..., data=...)` calls it *)
Theorem ast_base_init_keywords_equiv f d n e message code data : (1 <= d)%nat ->
  mk_call prog f d q_base_init (Some (new_inst n e)) []
          [("message", opt_str message); ("code", opt_int code); ("data", data_val data)] =
  cres_val n (base_init e message code data).
Proof. intros Hd. destruct (depth_ge 1 d Hd) as [d' ->]. exact (base_init_ok f d' n e message code data). Qed.

Theorem ast_server_error_init_equiv f d n e message code data : (2 <= d)%nat ->
  run prog f d q_srv_init (Some (new_inst n e)) [opt_str message; opt_int code; data_val data] =
  cres_val n (match code with
              | None => CTypeError
              | Some c => if in_range LO HI c then base_init e message code data else CValueError
              end).
Proof. intros Hd. destruct (depth_ge 2 d Hd) as [d' ->]. exact (srv_init_ok f d' n e message code data). Qed.

Theorem ast_to_response_error_equiv f d n x : (1 <= d)%nat ->
  run prog f d q_to_response_error (Some (exc_val n x)) [] =
  match to_response_error x with Some r => Ok (rerr_val r) | None => Raise ValueError end.
Proof. intros Hd. destruct (depth_ge 1 d Hd) as [d' ->]. exact (to_response_error_ok f d' n x). Qed.

(* ---------- together with the reflected class table (Gen/ExcTable.v) ---------- *)
(* Reflection says WHICH supports_code / __init__ a class uses and with what bounds (its row);    *)
(* the source translation says WHAT those functions compute.  For every row of the current table *)
(* the two agree with the model's `supports_code` and `construct`.                               *)

Definition supports_qual (e : entry) : list string :=
  match e_sup e with SInherited => q_base_supports | SRange _ _ => q_srv_supports end.
Definition init_qual (e : entry) : list string :=
  match e_ctor e with CDefault => q_base_init | CRangeChecked _ _ => q_srv_init end.

Definition row_ok (e : entry) : bool :=
  match e_sup e with SInherited => true | SRange lo hi => (lo =? LO) && (hi =? HI) end &&
  match e_ctor e with CDefault => true | CRangeChecked lo hi => (lo =? LO) && (hi =? HI) end.

Lemma table_rows_ok : forallb row_ok (base_entry :: current_table) = true.
Proof. vm_compute. reflexivity. Qed.

Lemma row_ok_in e : In e (base_entry :: current_table) -> row_ok e = true.
Proof. intros H. exact (proj1 (forallb_forall row_ok _) table_rows_ok e H). Qed.

Theorem ast_table_supports_code f d e code : In e (base_entry :: current_table) -> (2 <= d)%nat ->
  run prog f d (supports_qual e) (Some (cls_val e)) [VInt code] = Ok (VBool (Exceptions.supports_code e code)).
Proof.
  intros Hin Hd. pose proof (row_ok_in e Hin) as Hr. unfold row_ok in Hr.
  unfold supports_qual, Exceptions.supports_code. destruct (e_sup e) as [|lo hi].
  - apply ast_supports_code_inherited_equiv. lia.
  - assert (lo = LO /\ hi = HI) as [-> ->] by lia. apply ast_supports_code_range_equiv. exact Hd.
Qed.

Theorem ast_table_construct f d n e message code data : In e (base_entry :: current_table) -> (2 <= d)%nat ->
  run prog f d (init_qual e) (Some (new_inst n e)) [opt_str message; opt_int code; data_val data] =
  cres_val n (Exceptions.construct e message code data).
Proof.
  intros Hin Hd. pose proof (row_ok_in e Hin) as Hr. unfold row_ok in Hr.
  unfold init_qual, Exceptions.construct. destruct (e_ctor e) as [|lo hi].
  - apply ast_base_init_equiv. lia.
  - assert (lo = LO /\ hi = HI) as [-> ->] by (destruct (e_sup e); lia).
    apply ast_server_error_init_equiv. exact Hd.
Qed.

(* non-vacuity: a concrete class row, a concrete call *)
Example ast_exceptions_example :
  exists e, In e current_table /\ e_ctor e = CRangeChecked LO HI /\
    run prog 0 2 (init_qual e) (Some (new_inst "JsonRpcServerError" e)) [VStr [109%N]; VInt (-32050); VNone] =
      Ok (VObj "JsonRpcServerError" [("__class__", VObj "type" []); ("message", VStr [109%N]);
                                     ("code", VInt (-32050)); ("data", VNone)]) /\
    run prog 0 2 (init_qual e) (Some (new_inst "JsonRpcServerError" e)) [VStr [109%N]; VInt (-31999); VNone] =
      Raise ValueError.
Proof.
  exists (nth 9 current_table base_entry). vm_compute. repeat split; try reflexivity. tauto.
Qed.

(* ---------- JsonRpcException.from_error: the walk over `_EXCEPTIONS` ---------- *)
(* PyMini cannot run the text of from_error itself: `for exc_class in _EXCEPTIONS` iterates a module
   global (EGlobal evaluates to an opaque VGlobal, SFor over it is Stuck), `exc_class.supports_code(..)`
   needs method resolution through the MRO of a class held in a local, and `exc_class(..)` /
   `JsonRpcException(..)` need a callee that is a local / object creation (__new__ + __init__); none of
   these exist in Base/PyMini.v.  What IS tied to the source is every class-level step of the walk:
   the three-line control skeleton (for / if / return, then the base class) is written here in Gallina,
   and each `supports_code` test and each constructor call in it RUNS THE TRANSLATED SOURCE of the
   function the class's reflected row names.  `nm` names the instances (any naming). *)
(* `C(code=.., message=.., data=..)` for the class of row e: a fresh instance, then the __init__ the
   row names, called with the keywords in the order from_error writes them *)
Definition ast_instantiate (f d : nat) (n : string) (e : entry) (code : Z) (message : list N) (data : option val)
  : res val :=
  mk_call prog f d (init_qual e) (Some (new_inst n e)) []
          [("code", VInt code); ("message", VStr message); ("data", data_val data)].

Lemma instantiate_positional f d n e code message data :
  ast_instantiate f d n e code message data =
  run prog f d (init_qual e) (Some (new_inst n e)) [VStr message; VInt code; data_val data].
Proof.
  unfold ast_instantiate, run, init_qual. destruct d as [|d]; [reflexivity|].
  destruct (e_ctor e).
  - enter f_JsonRpcException_init. unfold run_fun, f_JsonRpcException_init, new_inst. pybind. reflexivity.
  - enter f_JsonRpcServerError_init. unfold run_fun, f_JsonRpcServerError_init, new_inst. pybind. reflexivity.
Qed.

Fixpoint ast_from_error_walk (f d : nat) (nm : entry -> string) (base : entry) (l : list entry)
         (code : Z) (message : list N) (data : option val) : res val :=
  match l with
  | [] => ast_instantiate f d (nm base) base code message data
  | e :: r =>
    match run prog f d (supports_qual e) (Some (cls_val e)) [VInt code] with
    | Ok v =>
      if truthy v
      then ast_instantiate f d (nm e) e code message data
      else ast_from_error_walk f d nm base r code message data
    | Raise k => Raise k
    | Stuck w => Stuck w
    end
  end.

(* the Python value of a constructor result, the instance named after its own class *)
Definition cres_val_nm (nm : entry -> string) (c : cres val) : res val :=
  match c with COk x => cres_val (nm (x_class x)) c | _ => cres_val "" c end.

Lemma construct_class nm e message code data :
  cres_val (nm e) (Exceptions.construct e message code data) =
  cres_val_nm nm (Exceptions.construct e message code data).
Proof.
  unfold Exceptions.construct, base_init.
  destruct (e_ctor e) as [|lo hi]; destruct message; destruct code as [c|];
    try destruct (in_range lo hi c); destruct (e_msg e); destruct (e_code e); reflexivity.
Qed.

Lemma from_error_walk_ok f d nm base l code message data :
  In base (base_entry :: current_table) -> (forall e, In e l -> In e (base_entry :: current_table)) -> (2 <= d)%nat ->
  ast_from_error_walk f d nm base l code message data =
  cres_val_nm nm (from_error_loop base l code message data).
Proof.
  intros Hb Hl Hd. induction l as [|e r IH]; cbn [ast_from_error_walk from_error_loop].
  - rewrite instantiate_positional.
    change (VStr message) with (opt_str (Some message)). change (VInt code) with (opt_int (Some code)).
    rewrite (ast_table_construct f d (nm base) base (Some message) (Some code) data Hb Hd).
    apply construct_class.
  - rewrite (ast_table_supports_code f d e code (Hl e (or_introl eq_refl)) Hd).
    cbn [truthy]. destruct (Exceptions.supports_code e code).
    + rewrite instantiate_positional.
      change (VStr message) with (opt_str (Some message)). change (VInt code) with (opt_int (Some code)).
      rewrite (ast_table_construct f d (nm e) e (Some message) (Some code) data (Hl e (or_introl eq_refl)) Hd).
      apply construct_class.
    + apply IH. intros e' He'. apply Hl. right. exact He'.
Qed.

(* from_error(error) for every code / message / data: walking the reflected `_EXCEPTIONS` with the
   translated supports_code / __init__ gives the model's from_error - the first registered class that
   supports the code, built from the error's code / message / data, else the generic JsonRpcException *)
Theorem ast_from_error_equiv f d nm code message data : (2 <= d)%nat ->
  ast_from_error_walk f d nm base_entry (exceptions_set current_table) code message data =
  cres_val_nm nm (from_error current_table base_entry (mkErr code message data)).
Proof.
  intros Hd. unfold from_error. cbn [r_code r_msg r_data]. apply from_error_walk_ok.
  - left. reflexivity.
  - intros e He. right. unfold exceptions_set in He. apply filter_In in He. exact (proj1 He).
  - exact Hd.
Qed.

(* non-vacuity: -32601 comes back as the class whose CODE it is, an unlisted code as the base class *)
Example ast_from_error_example :
  (exists e, In e current_table /\ e_code e = Some (-32601) /\ e_reg e = true /\
     ast_from_error_walk 0 2 (fun _ => "exc") base_entry (exceptions_set current_table) (-32601) [109%N] None =
     Ok (exc_val "exc" (mkExc e (-32601) [109%N] None))) /\
  ast_from_error_walk 0 2 (fun _ => "exc") base_entry (exceptions_set current_table) 7 [109%N] None =
  Ok (exc_val "exc" (mkExc base_entry 7 [109%N] None)).
Proof.
  split.
  - exists (nth 4 current_table base_entry). vm_compute. repeat split; try reflexivity. tauto.
  - vm_compute. reflexivity.
Qed.

(* all of it in one statement (one `Print Assumptions` per run) *)
Definition ast_exceptions_equiv_statement : Prop :=
  (forall f d (c : option Z), (1 <= d)%nat ->
     run prog f d q_is_srv None [opt_int c] =
     match c with Some z => Ok (VBool (in_range LO HI z)) | None => Raise TypeError end) /\
  (forall f d e code, (1 <= d)%nat ->
     run prog f d q_base_supports (Some (cls_val e)) [VInt code] = Ok (VBool (inherited_supports e code))) /\
  (forall f d e code, (2 <= d)%nat ->
     run prog f d q_srv_supports (Some (cls_val e)) [VInt code] = Ok (VBool (in_range LO HI code))) /\
  (forall f d n e message code data, (1 <= d)%nat ->
     run prog f d q_base_init (Some (new_inst n e)) [opt_str message; opt_int code; data_val data] =
     cres_val n (base_init e message code data)) /\
  (forall f d n e message code data, (2 <= d)%nat ->
     run prog f d q_srv_init (Some (new_inst n e)) [opt_str message; opt_int code; data_val data] =
     cres_val n (match code with
                 | None => CTypeError
                 | Some c => if in_range LO HI c then base_init e message code data else CValueError
                 end)) /\
  (forall f d n x, (1 <= d)%nat ->
     run prog f d q_to_response_error (Some (exc_val n x)) [] =
     match to_response_error x with Some r => Ok (rerr_val r) | None => Raise ValueError end) /\
  (* with the reflected table *)
  (forall f d e code, In e (base_entry :: current_table) -> (2 <= d)%nat ->
     run prog f d (supports_qual e) (Some (cls_val e)) [VInt code] =
     Ok (VBool (Exceptions.supports_code e code))) /\
  (forall f d n e message code data, In e (base_entry :: current_table) -> (2 <= d)%nat ->
     run prog f d (init_qual e) (Some (new_inst n e)) [opt_str message; opt_int code; data_val data] =
     cres_val n (Exceptions.construct e message code data)).

Theorem ast_exceptions_equiv : ast_exceptions_equiv_statement.
Proof.
  repeat split; intros.
  - apply ast_is_server_error_code_equiv; assumption.
  - apply ast_supports_code_inherited_equiv; assumption.
  - apply ast_supports_code_range_equiv; assumption.
  - apply ast_base_init_equiv; assumption.
  - apply ast_server_error_init_equiv; assumption.
  - apply ast_to_response_error_equiv; assumption.
  - apply ast_table_supports_code; assumption.
  - apply ast_table_construct; assumption.
Qed.
