(* Second tie for ServerCapabilitiesBuilder (pygls/capabilities.py): the PyMini translation of the SOURCE TEXT of
   _provider_options, _build and of 24 of the 34 _with_* methods (coq/Gen/AstCaps.v, harness/gen_ast.py) does to
   self.server_cap exactly what Model/Caps.v's with_* functions do to the slots.

   Translated: _with_text_document_sync, _with_notebook_document_sync, _with_rename, _with_execute_command and the
   20 methods of the shape  value = self._provider_options(M, default=D); if value is not None:
   self.server_cap.F = value; return self  (hover, signature_help, declaration, definition, type_definition,
   implementation, references, document_highlight, document_symbol, color, document_formatting,
   document_range_formatting, document_on_type_formatting, folding_range, selection_range, call_hierarchy,
   type_hierarchy, linked_editing_range, moniker, inline_value_provider).

   NOT translated (the translator refuses them; the differential check of C12 is their only tie):
   - _with_completion, _with_inlay_hints, _with_code_action, _with_code_lens, _with_document_link,
     _with_workspace_symbol, _with_diagnostic_provider: they assign an attribute of `value`, which is either the
     option object the user registered (shared: Model/Caps.v's heap) or a fresh default - PyMini has no identity
     for a value that a method call returned;
   - _with_semantic_tokens (isinstance against an lsprotocol class), _with_position_encodings (membership in a
     module-level frozenset, a logged f-string), _with_workspace_capabilities (setattr with a computed name);
   - build (chains the above), __init__ (checked structurally by the translator: self.server_cap is assigned
     once, there, as types.ServerCapabilities());
   - get_capability (reduce(getattr, ..)): an ORACLE here, constrained to Model/Caps.v's cap_* functions
     (hypotheses Hws, Hwswu, Hps); the translator samples it by reflection.

   Representation: a method constant types.NAME is the opaque value VGlobal [types; NAME] (the translator asserts
   that the constants are pairwise different strs); self.features is a set of such values; self.feature_options a
   dict from them to the registered option objects `oval i`; a registered object is opaque (the translated
   methods neither read nor write inside one). *)
From Coq Require Import ZArith NArith List String Bool Lia.
From Pygls Require Import Base.PyMini Base.PyMiniFacts Gen.AstCaps.
From Pygls Require Model.Caps.
Import ListNotations.
Open Scope string_scope.
Open Scope Z_scope.

Notation method := Caps.method.
Notation field := Caps.field.
Notation config := Caps.config.
Notation st := Caps.st.

(* ------------------------------------------------------------------------------------------ *)
(* method constants                                                                            *)
Definition method_name (m : method) : string :=
  match m with
  | Caps.TEXT_DOCUMENT_DID_OPEN => "TEXT_DOCUMENT_DID_OPEN" | Caps.TEXT_DOCUMENT_DID_CLOSE => "TEXT_DOCUMENT_DID_CLOSE"
  | Caps.TEXT_DOCUMENT_WILL_SAVE => "TEXT_DOCUMENT_WILL_SAVE" | Caps.TEXT_DOCUMENT_WILL_SAVE_WAIT_UNTIL => "TEXT_DOCUMENT_WILL_SAVE_WAIT_UNTIL"
  | Caps.TEXT_DOCUMENT_DID_SAVE => "TEXT_DOCUMENT_DID_SAVE" | Caps.TEXT_DOCUMENT_COMPLETION => "TEXT_DOCUMENT_COMPLETION"
  | Caps.COMPLETION_ITEM_RESOLVE => "COMPLETION_ITEM_RESOLVE" | Caps.TEXT_DOCUMENT_HOVER => "TEXT_DOCUMENT_HOVER"
  | Caps.TEXT_DOCUMENT_SIGNATURE_HELP => "TEXT_DOCUMENT_SIGNATURE_HELP" | Caps.TEXT_DOCUMENT_DECLARATION => "TEXT_DOCUMENT_DECLARATION"
  | Caps.TEXT_DOCUMENT_DEFINITION => "TEXT_DOCUMENT_DEFINITION" | Caps.TEXT_DOCUMENT_TYPE_DEFINITION => "TEXT_DOCUMENT_TYPE_DEFINITION"
  | Caps.TEXT_DOCUMENT_INLAY_HINT => "TEXT_DOCUMENT_INLAY_HINT" | Caps.INLAY_HINT_RESOLVE => "INLAY_HINT_RESOLVE"
  | Caps.TEXT_DOCUMENT_IMPLEMENTATION => "TEXT_DOCUMENT_IMPLEMENTATION" | Caps.TEXT_DOCUMENT_REFERENCES => "TEXT_DOCUMENT_REFERENCES"
  | Caps.TEXT_DOCUMENT_DOCUMENT_HIGHLIGHT => "TEXT_DOCUMENT_DOCUMENT_HIGHLIGHT" | Caps.TEXT_DOCUMENT_DOCUMENT_SYMBOL => "TEXT_DOCUMENT_DOCUMENT_SYMBOL"
  | Caps.TEXT_DOCUMENT_CODE_ACTION => "TEXT_DOCUMENT_CODE_ACTION" | Caps.CODE_ACTION_RESOLVE => "CODE_ACTION_RESOLVE"
  | Caps.TEXT_DOCUMENT_CODE_LENS => "TEXT_DOCUMENT_CODE_LENS" | Caps.CODE_LENS_RESOLVE => "CODE_LENS_RESOLVE"
  | Caps.TEXT_DOCUMENT_DOCUMENT_LINK => "TEXT_DOCUMENT_DOCUMENT_LINK" | Caps.DOCUMENT_LINK_RESOLVE => "DOCUMENT_LINK_RESOLVE"
  | Caps.TEXT_DOCUMENT_DOCUMENT_COLOR => "TEXT_DOCUMENT_DOCUMENT_COLOR" | Caps.TEXT_DOCUMENT_FORMATTING => "TEXT_DOCUMENT_FORMATTING"
  | Caps.TEXT_DOCUMENT_RANGE_FORMATTING => "TEXT_DOCUMENT_RANGE_FORMATTING" | Caps.TEXT_DOCUMENT_ON_TYPE_FORMATTING => "TEXT_DOCUMENT_ON_TYPE_FORMATTING"
  | Caps.TEXT_DOCUMENT_RENAME => "TEXT_DOCUMENT_RENAME" | Caps.TEXT_DOCUMENT_PREPARE_RENAME => "TEXT_DOCUMENT_PREPARE_RENAME"
  | Caps.TEXT_DOCUMENT_FOLDING_RANGE => "TEXT_DOCUMENT_FOLDING_RANGE" | Caps.TEXT_DOCUMENT_SELECTION_RANGE => "TEXT_DOCUMENT_SELECTION_RANGE"
  | Caps.TEXT_DOCUMENT_PREPARE_CALL_HIERARCHY => "TEXT_DOCUMENT_PREPARE_CALL_HIERARCHY" | Caps.TEXT_DOCUMENT_PREPARE_TYPE_HIERARCHY => "TEXT_DOCUMENT_PREPARE_TYPE_HIERARCHY"
  | Caps.TEXT_DOCUMENT_SEMANTIC_TOKENS_FULL => "TEXT_DOCUMENT_SEMANTIC_TOKENS_FULL" | Caps.TEXT_DOCUMENT_SEMANTIC_TOKENS_FULL_DELTA => "TEXT_DOCUMENT_SEMANTIC_TOKENS_FULL_DELTA"
  | Caps.TEXT_DOCUMENT_SEMANTIC_TOKENS_RANGE => "TEXT_DOCUMENT_SEMANTIC_TOKENS_RANGE" | Caps.TEXT_DOCUMENT_LINKED_EDITING_RANGE => "TEXT_DOCUMENT_LINKED_EDITING_RANGE"
  | Caps.TEXT_DOCUMENT_MONIKER => "TEXT_DOCUMENT_MONIKER" | Caps.WORKSPACE_SYMBOL => "WORKSPACE_SYMBOL"
  | Caps.WORKSPACE_SYMBOL_RESOLVE => "WORKSPACE_SYMBOL_RESOLVE" | Caps.WORKSPACE_WILL_CREATE_FILES => "WORKSPACE_WILL_CREATE_FILES"
  | Caps.WORKSPACE_DID_CREATE_FILES => "WORKSPACE_DID_CREATE_FILES" | Caps.WORKSPACE_WILL_DELETE_FILES => "WORKSPACE_WILL_DELETE_FILES"
  | Caps.WORKSPACE_DID_DELETE_FILES => "WORKSPACE_DID_DELETE_FILES" | Caps.WORKSPACE_WILL_RENAME_FILES => "WORKSPACE_WILL_RENAME_FILES"
  | Caps.WORKSPACE_DID_RENAME_FILES => "WORKSPACE_DID_RENAME_FILES" | Caps.TEXT_DOCUMENT_DIAGNOSTIC => "TEXT_DOCUMENT_DIAGNOSTIC"
  | Caps.WORKSPACE_DIAGNOSTIC => "WORKSPACE_DIAGNOSTIC" | Caps.TEXT_DOCUMENT_INLINE_VALUE => "TEXT_DOCUMENT_INLINE_VALUE"
  | Caps.TEXT_DOCUMENT_DID_CHANGE => "TEXT_DOCUMENT_DID_CHANGE" | Caps.NOTEBOOK_DOCUMENT_DID_OPEN => "NOTEBOOK_DOCUMENT_DID_OPEN"
  | Caps.NOTEBOOK_DOCUMENT_DID_CHANGE => "NOTEBOOK_DOCUMENT_DID_CHANGE" | Caps.NOTEBOOK_DOCUMENT_DID_SAVE => "NOTEBOOK_DOCUMENT_DID_SAVE"
  | Caps.NOTEBOOK_DOCUMENT_DID_CLOSE => "NOTEBOOK_DOCUMENT_DID_CLOSE" | Caps.WORKSPACE_EXECUTE_COMMAND => "WORKSPACE_EXECUTE_COMMAND"
  | Caps.WORKSPACE_DID_CHANGE_WORKSPACE_FOLDERS => "WORKSPACE_DID_CHANGE_WORKSPACE_FOLDERS"
  | Caps.MOther _ => ""
  end.

Definition mval (m : method) : val :=
  match m with
  | Caps.MOther n => VTuple [VGlobal ["other"]; VInt (Z.of_N n)]
  | _ => VGlobal ["types"; method_name m]
  end.

Definition meqb (a b : method) : bool := (Caps.method_code a =? Caps.method_code b)%N.

Lemma mval_eq a b : py_eq (mval a) (mval b) = meqb a b.
Proof.
  destruct a; destruct b; try reflexivity; unfold meqb, mval;
    cbn [Caps.method_code py_eq path_eqb String.eqb Ascii.eqb Bool.eqb andb]; unfold Caps.other_base;
    try (symmetry; apply N.eqb_neq; lia).
  rewrite andb_true_r. destruct (N.eqb_spec n n0) as [->|Hn].
  - rewrite Z.eqb_refl. symmetry. apply N.eqb_eq. reflexivity.
  - transitivity false; [apply Z.eqb_neq; lia | symmetry; apply N.eqb_neq; lia].
Qed.

(* ------------------------------------------------------------------------------------------ *)
(* the builder as a PyMini value                                                               *)
Definition oval (i : N) : val := VObj "$registered" [("id", VInt (Z.of_N i))].   (* a registered option object *)
Definition cmd_val (n : N) : val := VTuple [VGlobal ["command"]; VInt (Z.of_N n)].  (* a command name *)

Definition features_val (fl : list method) : val := mk_set (map mval fl).
Definition fo_items (ol : list (method * N)) : list val :=
  map (fun p => VTuple [mval (fst p); oval (snd p)]) ol.
Definition fo_val (ol : list (method * N)) : val := mk_dict (fo_items ol).

Fixpoint lookup (m : method) (ol : list (method * N)) : option N :=
  match ol with
  | [] => None
  | (m', i) :: r => if meqb m' m then Some i else lookup m r
  end.

Lemma set_mem m fl : existsb (py_eq (mval m)) (map mval fl) = existsb (meqb m) fl.
Proof. induction fl as [|a r IH]; [reflexivity|]. cbn [map existsb]. rewrite mval_eq, IH. reflexivity. Qed.

Lemma fo_get m ol : dict_get (mval m) (fo_items ol) = option_map oval (lookup m ol).
Proof.
  induction ol as [|[m' i] r IH]; [reflexivity|].
  cbn [fo_items map fst snd dict_get lookup]. fold (fo_items r). rewrite mval_eq.
  destruct (meqb m' m); [reflexivity | exact IH].
Qed.

(* values of the slots (the constructors the translated methods produce; the others belong to the methods that
   are not translated and are never produced here) *)
Definition optb_val (o : option bool) : val := match o with Some b => VBool b | None => VNone end.
Definition vval (v : Caps.value) : val :=
  match v with
  | Caps.VNone => VNone
  | Caps.VBool b => VBool b
  | Caps.VRef i => oval i
  | Caps.VOpts _ => VObj "SignatureHelpOptions" []          (* the only default-constructed options object here *)
  | Caps.VRename p => VObj "RenameOptions" [("prepare_provider", VBool p)]
  | Caps.VNum k => VInt (Z.of_N k)
  | Caps.VCommands l => VObj "ExecuteCommandOptions" [("commands", VList (map cmd_val l))]
  | Caps.VNotebook p => VObj "NotebookDocumentSyncOptions" [("id", VInt (Z.of_N p))]
  | _ => VNone
  end.

(* the attributes of ServerCapabilities that hold one slot each *)
Definition fname (f : field) : string :=
  match f with
  | Caps.FNotebookSync => "notebook_document_sync"
  | Caps.FHover => "hover_provider" | Caps.FSignatureHelp => "signature_help_provider"
  | Caps.FDeclaration => "declaration_provider" | Caps.FDefinition => "definition_provider"
  | Caps.FTypeDefinition => "type_definition_provider" | Caps.FImplementation => "implementation_provider"
  | Caps.FReferences => "references_provider" | Caps.FDocumentHighlight => "document_highlight_provider"
  | Caps.FDocumentSymbol => "document_symbol_provider" | Caps.FColor => "color_provider"
  | Caps.FFormatting => "document_formatting_provider"
  | Caps.FRangeFormatting => "document_range_formatting_provider"
  | Caps.FOnTypeFormatting => "document_on_type_formatting_provider"
  | Caps.FRename => "rename_provider" | Caps.FFoldingRange => "folding_range_provider"
  | Caps.FExecuteCommand => "execute_command_provider" | Caps.FSelectionRange => "selection_range_provider"
  | Caps.FCallHierarchy => "call_hierarchy_provider" | Caps.FTypeHierarchy => "type_hierarchy_provider"
  | Caps.FLinkedEditingRange => "linked_editing_range_provider" | Caps.FMoniker => "moniker_provider"
  | Caps.FInlineValue => "inline_value_provider"
  | _ => ""
  end.
Definition flat_fields : list field :=
  [ Caps.FNotebookSync; Caps.FHover; Caps.FSignatureHelp; Caps.FDeclaration; Caps.FDefinition;
    Caps.FTypeDefinition; Caps.FImplementation; Caps.FReferences; Caps.FDocumentHighlight;
    Caps.FDocumentSymbol; Caps.FColor; Caps.FFormatting; Caps.FRangeFormatting; Caps.FOnTypeFormatting;
    Caps.FRename; Caps.FFoldingRange; Caps.FExecuteCommand; Caps.FSelectionRange; Caps.FCallHierarchy;
    Caps.FTypeHierarchy; Caps.FLinkedEditingRange; Caps.FMoniker; Caps.FInlineValue ].
Definition flatb (f : field) : bool := existsb (Caps.field_eqb f) flat_fields.

(* text_document_sync holds the five FSync* slots in one TextDocumentSyncOptions object *)
Definition sync_obj (s : st) : val :=
  VObj "TextDocumentSyncOptions"
    [("open_close", vval (Caps.prov s Caps.FSyncOpenClose)); ("change", vval (Caps.prov s Caps.FSyncChange));
     ("will_save", vval (Caps.prov s Caps.FSyncWillSave));
     ("will_save_wait_until", vval (Caps.prov s Caps.FSyncWillSaveWaitUntil));
     ("save", vval (Caps.prov s Caps.FSyncSave))].

(* self.server_cap: text_document_sync, the flat slots, and the attributes the translated methods leave alone *)
Definition sc_fields (s : st) (tds : val) (others : list (string * val)) : list (string * val) :=
  ("text_document_sync", tds) :: (map (fun f => (fname f, vval (Caps.prov s f))) flat_fields ++ others)%list.

Lemma sc_set F v s tds others : flatb F = true ->
  set_field (fname F) (vval v) (sc_fields s tds others) = sc_fields (Caps.set F v s) tds others.
Proof. destruct F; intros H; try discriminate H; reflexivity. Qed.

Lemma sc_assign_none F s tds others : sc_fields (Caps.assign F None s) tds others = sc_fields s tds others.
Proof. destruct F; reflexivity. Qed.

Lemma sc_set_sync s tds tds' others :
  set_field "text_document_sync" tds' (sc_fields s tds others) = sc_fields s tds' others.
Proof. reflexivity. Qed.

(* mk_call, with the functions outside the program (get_capability) answered by an oracle *)
Fixpoint wcall (oracle : callT) (f : nat) (d : nat) : callT :=
  match d with
  | O => fun _ _ _ _ => Stuck "call depth"
  | S d' => fun q recv args kw =>
    match find_def q prog with
    | Some fd => run_fun (wcall oracle f d') f fd recv args kw
    | None => oracle q recv args kw
    end
  end.

Lemma wcall_S oracle f d q recv args kw fd : find_def q prog = Some fd ->
  wcall oracle f (S d) q recv args kw = run_fun (wcall oracle f d) f fd recv args kw.
Proof. intros H. cbn [wcall]. rewrite H. reflexivity. Qed.

Ltac csimp :=
  cbn [run_fun bind_params exec_block exec exec_atomic eval apply_global global_method obj_method
       is_procedure is_stateful dict_items mk_dict set_elems mk_set construct ctor_check ctor_default
       fqual fkind_of fparams fbody class_of is_init
       get set mem_str path_eqb snoc as_int truthy b2z py_compare is_none
       py_getattr global_const ctor_table builtin bind_names
       String.eqb Ascii.eqb Bool.eqb map fst snd forallb rev app andb orb negb].

Section Builder.
Variable c : config.
Variable fl : list method.
Variable ol : list (method * N).
Hypothesis Hreg : forall m, Caps.reg c m = existsb (meqb m) fl.
Hypothesis Hopt : forall m, Caps.opt c m = lookup m ol.
Variable ccrest : list (string * val).
Variable oracle : callT.

Definition ccv : val :=
  VObj "ClientCapabilities"
    (("notebook_document", if Caps.notebook_document (Caps.cl c)
                           then VObj "NotebookDocumentClientCapabilities" [] else VNone) :: ccrest).

Definition s_will_save : list N :=
  [116; 101; 120; 116; 95; 100; 111; 99; 117; 109; 101; 110; 116; 46; 115; 121; 110; 99; 104; 114; 111; 110; 105; 122; 97; 116; 105; 111; 110; 46; 119; 105; 108; 108; 95; 115; 97; 118; 101]%N.
Definition s_will_save_wait_until : list N :=
  [116; 101; 120; 116; 95; 100; 111; 99; 117; 109; 101; 110; 116; 46; 115; 121; 110; 99; 104; 114; 111; 110; 105; 122; 97; 116; 105; 111; 110; 46; 119; 105; 108; 108; 95; 115; 97; 118; 101; 95; 119; 97; 105; 116; 95; 117; 110; 116; 105; 108]%N.
Definition s_prepare_support : list N :=
  [116; 101; 120; 116; 95; 100; 111; 99; 117; 109; 101; 110; 116; 46; 114; 101; 110; 97; 109; 101; 46; 112; 114; 101; 112; 97; 114; 101; 95; 115; 117; 112; 112; 111; 114; 116]%N.

(* get_capability(client_capabilities, "a.b.c"[, default]) is what Model/Caps.v's cap_* functions say *)
Hypothesis Hws : oracle ["get_capability"] None [ccv; VStr s_will_save] [] = Ok (optb_val (Caps.cap_will_save (Caps.cl c))).
Hypothesis Hwswu : oracle ["get_capability"] None [ccv; VStr s_will_save_wait_until] [] =
                   Ok (optb_val (Caps.cap_will_save_wait_until (Caps.cl c))).
Hypothesis Hps : oracle ["get_capability"] None [ccv; VStr s_prepare_support; VBool false] [] =
                 Ok (VBool (Caps.cap_prepare_support (Caps.cl c))).

Definition optn_val (o : option N) : val := match o with Some k => VInt (Z.of_N k) | None => VNone end.
Definition nb_val (o : option N) : val :=
  match o with Some p => VObj "NotebookDocumentSyncOptions" [("id", VInt (Z.of_N p))] | None => VNone end.

Definition self_val (s : st) (tds : val) (others : list (string * val)) : val :=
  VObj "ServerCapabilitiesBuilder"
    [("client_capabilities", ccv); ("features", features_val fl); ("feature_options", fo_val ol);
     ("commands", VList (map cmd_val (Caps.commands c))); ("text_document_sync_kind", optn_val (Caps.sync_kind c));
     ("notebook_document_sync", nb_val (Caps.nb_sync c));
     ("server_cap", VObj "ServerCapabilities" (sc_fields s tds others))].

Lemma sc_assign_self_none F s tds others :
  self_val (Caps.assign F None s) tds others = self_val s tds others.
Proof. unfold self_val. rewrite sc_assign_none. reflexivity. Qed.

Lemma sc_set_self F v s tds others : flatb F = true ->
  path_set (self_val s tds others) [VGlobal ["server_cap"]; VGlobal [fname F]] (vval v) =
  Ok (self_val (Caps.set F v s) tds others).
Proof.
  intros HF. unfold self_val. cbn [path_set get String.eqb Ascii.eqb Bool.eqb set_field].
  rewrite (sc_set F v s tds others HF). reflexivity.
Qed.

Lemma sc_set_self' fn F v s tds others : fn = fname F -> flatb F = true ->
  path_set (self_val s tds others) [VGlobal ["server_cap"]; VGlobal [fn]] (vval v) =
  Ok (self_val (Caps.set F v s) tds others).
Proof. intros ->. apply sc_set_self. Qed.

Lemma sc_set_self_as fn F v pv s tds others : fn = fname F -> flatb F = true -> pv = vval v ->
  path_set (self_val s tds others) [VGlobal ["server_cap"]; VGlobal [fn]] pv =
  Ok (self_val (Caps.set F v s) tds others).
Proof. intros -> HF ->. apply sc_set_self, HF. Qed.
Ltac setslot F v := erewrite (sc_set_self_as _ F v); [| reflexivity | reflexivity | reflexivity].

(* _provider_options(feature, default) *)
Definition po_val (m : method) (dv : val) : val :=
  if Caps.reg c m then match Caps.opt c m with Some i => oval i | None => dv end else VNone.

Lemma po_ok f d s tds others m dv :
  wcall oracle f (S d) ["ServerCapabilitiesBuilder"; "_provider_options"] (Some (self_val s tds others)) [mval m]
        [("default", dv)] = Ok (po_val m dv).
Proof.
  rewrite (wcall_S oracle f d ["ServerCapabilitiesBuilder"; "_provider_options"] _ _ _ f_provider_options eq_refl). unfold f_provider_options, self_val, features_val, fo_val. csimp.
  rewrite set_mem, fo_get. unfold po_val. rewrite Hreg, Hopt.
  destruct (existsb (meqb m) fl); [|reflexivity]. destruct (lookup m ol); reflexivity.
Qed.

(* the methods of the shape  value = self._provider_options(M, default=D); if value is not None:
   self.server_cap.F = value; return self *)
Definition plain_body (ke : expr) (fn : string) (de : expr) : list stmt :=
  [ SAssign "$1" (ECall (EAttr (EName "self") "_provider_options") [ke] [("default", de)]);
    SIf (ECompare IsNot (EName "$1") ENone) [SSelfSubSet "server_cap" fn (EName "$1")] [];
    SReturn (Some (EName "self")) ].

Definition dflt_rel (dm : option Caps.value) (dv : val) : Prop :=
  match dm with None => dv = VNone | Some x => vval x = dv /\ is_none dv = false end.

Lemma plain_ok f d qn ke de m dv F dm s tds others :
  is_init qn = false ->
  (forall call env, eval call env ke = Ok (mval m)) ->
  (forall call env, eval call env de = Ok dv) ->
  flatb F = true -> dflt_rel dm dv ->
  run_fun (wcall oracle f (S d)) f (mkFun qn KMethod [("self", None)] (plain_body ke (fname F) de))
          (Some (self_val s tds others)) [] [] =
  Ok (self_val (Caps.assign F (Caps.provider_options c m dm) s) tds others).
Proof.
  intros Hq Hk Hd HF Hdm. unfold plain_body, self_val at 1. csimp. rewrite Hk, Hd.
  fold (self_val s tds others). rewrite po_ok. csimp.
  unfold po_val, Caps.provider_options.
  destruct (Caps.reg c m).
  2:{ csimp. rewrite Hq. rewrite sc_assign_self_none. reflexivity. }
  destruct (Caps.opt c m) as [i|].
  - change (oval i) with (vval (Caps.VRef i)). rewrite (sc_set_self F (Caps.VRef i) s tds others HF).
    csimp. rewrite Hq. reflexivity.
  - destruct dm as [x|]; cbn [dflt_rel] in Hdm.
    + destruct Hdm as [Hx Hn]. rewrite Hn. csimp. rewrite <- Hx. rewrite (sc_set_self F x s tds others HF).
      csimp. rewrite Hq. reflexivity.
    + subst dv. csimp. rewrite Hq, sc_assign_self_none. reflexivity.
Qed.

Notation Q m := ["ServerCapabilitiesBuilder"; m] (only parsing).

Definition dtrue : option Caps.value := Some (Caps.VBool true).
Ltac plain fd M F DM :=
  intros; rewrite (wcall_S oracle _ _ (fqual fd) _ _ _ fd eq_refl); unfold fd;
  eapply (plain_ok _ _ _ _ _ M _ F DM);
  [ reflexivity | intros; reflexivity | intros; reflexivity | reflexivity
  | first [ exact (conj eq_refl eq_refl) | exact eq_refl ] ].

Lemma with_hover_ok f d s tds others :
  wcall oracle f (S (S d)) (Q "_with_hover") (Some (self_val s tds others)) [] [] =
  Ok (self_val (Caps.with_hover c s) tds others).
Proof. plain f_with_hover Caps.TEXT_DOCUMENT_HOVER Caps.FHover dtrue. Qed.
Lemma with_signature_help_ok f d s tds others :
  wcall oracle f (S (S d)) (Q "_with_signature_help") (Some (self_val s tds others)) [] [] =
  Ok (self_val (Caps.with_signature_help c s) tds others).
Proof. plain f_with_signature_help Caps.TEXT_DOCUMENT_SIGNATURE_HELP Caps.FSignatureHelp (Some (Caps.VOpts None)). Qed.
Lemma with_declaration_ok f d s tds others :
  wcall oracle f (S (S d)) (Q "_with_declaration") (Some (self_val s tds others)) [] [] =
  Ok (self_val (Caps.with_declaration c s) tds others).
Proof. plain f_with_declaration Caps.TEXT_DOCUMENT_DECLARATION Caps.FDeclaration dtrue. Qed.
Lemma with_definition_ok f d s tds others :
  wcall oracle f (S (S d)) (Q "_with_definition") (Some (self_val s tds others)) [] [] =
  Ok (self_val (Caps.with_definition c s) tds others).
Proof. plain f_with_definition Caps.TEXT_DOCUMENT_DEFINITION Caps.FDefinition dtrue. Qed.
Lemma with_type_definition_ok f d s tds others :
  wcall oracle f (S (S d)) (Q "_with_type_definition") (Some (self_val s tds others)) [] [] =
  Ok (self_val (Caps.with_type_definition c s) tds others).
Proof. plain f_with_type_definition Caps.TEXT_DOCUMENT_TYPE_DEFINITION Caps.FTypeDefinition dtrue. Qed.
Lemma with_implementation_ok f d s tds others :
  wcall oracle f (S (S d)) (Q "_with_implementation") (Some (self_val s tds others)) [] [] =
  Ok (self_val (Caps.with_implementation c s) tds others).
Proof. plain f_with_implementation Caps.TEXT_DOCUMENT_IMPLEMENTATION Caps.FImplementation dtrue. Qed.
Lemma with_references_ok f d s tds others :
  wcall oracle f (S (S d)) (Q "_with_references") (Some (self_val s tds others)) [] [] =
  Ok (self_val (Caps.with_references c s) tds others).
Proof. plain f_with_references Caps.TEXT_DOCUMENT_REFERENCES Caps.FReferences dtrue. Qed.
Lemma with_document_highlight_ok f d s tds others :
  wcall oracle f (S (S d)) (Q "_with_document_highlight") (Some (self_val s tds others)) [] [] =
  Ok (self_val (Caps.with_document_highlight c s) tds others).
Proof. plain f_with_document_highlight Caps.TEXT_DOCUMENT_DOCUMENT_HIGHLIGHT Caps.FDocumentHighlight dtrue. Qed.
Lemma with_document_symbol_ok f d s tds others :
  wcall oracle f (S (S d)) (Q "_with_document_symbol") (Some (self_val s tds others)) [] [] =
  Ok (self_val (Caps.with_document_symbol c s) tds others).
Proof. plain f_with_document_symbol Caps.TEXT_DOCUMENT_DOCUMENT_SYMBOL Caps.FDocumentSymbol dtrue. Qed.
Lemma with_color_ok f d s tds others :
  wcall oracle f (S (S d)) (Q "_with_color") (Some (self_val s tds others)) [] [] =
  Ok (self_val (Caps.with_color c s) tds others).
Proof. plain f_with_color Caps.TEXT_DOCUMENT_DOCUMENT_COLOR Caps.FColor dtrue. Qed.
Lemma with_document_formatting_ok f d s tds others :
  wcall oracle f (S (S d)) (Q "_with_document_formatting") (Some (self_val s tds others)) [] [] =
  Ok (self_val (Caps.with_document_formatting c s) tds others).
Proof. plain f_with_document_formatting Caps.TEXT_DOCUMENT_FORMATTING Caps.FFormatting dtrue. Qed.
Lemma with_document_range_formatting_ok f d s tds others :
  wcall oracle f (S (S d)) (Q "_with_document_range_formatting") (Some (self_val s tds others)) [] [] =
  Ok (self_val (Caps.with_document_range_formatting c s) tds others).
Proof. plain f_with_document_range_formatting Caps.TEXT_DOCUMENT_RANGE_FORMATTING Caps.FRangeFormatting dtrue. Qed.
Lemma with_document_on_type_formatting_ok f d s tds others :
  wcall oracle f (S (S d)) (Q "_with_document_on_type_formatting") (Some (self_val s tds others)) [] [] =
  Ok (self_val (Caps.with_document_on_type_formatting c s) tds others).
Proof. plain f_with_document_on_type_formatting Caps.TEXT_DOCUMENT_ON_TYPE_FORMATTING Caps.FOnTypeFormatting (@None Caps.value). Qed.
Lemma with_folding_range_ok f d s tds others :
  wcall oracle f (S (S d)) (Q "_with_folding_range") (Some (self_val s tds others)) [] [] =
  Ok (self_val (Caps.with_folding_range c s) tds others).
Proof. plain f_with_folding_range Caps.TEXT_DOCUMENT_FOLDING_RANGE Caps.FFoldingRange dtrue. Qed.
Lemma with_selection_range_ok f d s tds others :
  wcall oracle f (S (S d)) (Q "_with_selection_range") (Some (self_val s tds others)) [] [] =
  Ok (self_val (Caps.with_selection_range c s) tds others).
Proof. plain f_with_selection_range Caps.TEXT_DOCUMENT_SELECTION_RANGE Caps.FSelectionRange dtrue. Qed.
Lemma with_call_hierarchy_ok f d s tds others :
  wcall oracle f (S (S d)) (Q "_with_call_hierarchy") (Some (self_val s tds others)) [] [] =
  Ok (self_val (Caps.with_call_hierarchy c s) tds others).
Proof. plain f_with_call_hierarchy Caps.TEXT_DOCUMENT_PREPARE_CALL_HIERARCHY Caps.FCallHierarchy dtrue. Qed.
Lemma with_type_hierarchy_ok f d s tds others :
  wcall oracle f (S (S d)) (Q "_with_type_hierarchy") (Some (self_val s tds others)) [] [] =
  Ok (self_val (Caps.with_type_hierarchy c s) tds others).
Proof. plain f_with_type_hierarchy Caps.TEXT_DOCUMENT_PREPARE_TYPE_HIERARCHY Caps.FTypeHierarchy dtrue. Qed.
Lemma with_linked_editing_range_ok f d s tds others :
  wcall oracle f (S (S d)) (Q "_with_linked_editing_range") (Some (self_val s tds others)) [] [] =
  Ok (self_val (Caps.with_linked_editing_range c s) tds others).
Proof. plain f_with_linked_editing_range Caps.TEXT_DOCUMENT_LINKED_EDITING_RANGE Caps.FLinkedEditingRange dtrue. Qed.
Lemma with_moniker_ok f d s tds others :
  wcall oracle f (S (S d)) (Q "_with_moniker") (Some (self_val s tds others)) [] [] =
  Ok (self_val (Caps.with_moniker c s) tds others).
Proof. plain f_with_moniker Caps.TEXT_DOCUMENT_MONIKER Caps.FMoniker dtrue. Qed.
Lemma with_inline_value_provider_ok f d s tds others :
  wcall oracle f (S (S d)) (Q "_with_inline_value_provider") (Some (self_val s tds others)) [] [] =
  Ok (self_val (Caps.with_inline_value_provider c s) tds others).
Proof. plain f_with_inline_value_provider Caps.TEXT_DOCUMENT_INLINE_VALUE Caps.FInlineValue dtrue. Qed.

Ltac enterw fd := intros; rewrite (wcall_S oracle _ _ (fqual fd) _ _ _ fd eq_refl); unfold fd.

Lemma self_attr s tds others :
  py_getattr (self_val s tds others) "client_capabilities" = Ok ccv /\
  py_getattr (self_val s tds others) "features" = Ok (features_val fl) /\
  py_getattr (self_val s tds others) "feature_options" = Ok (fo_val ol) /\
  py_getattr (self_val s tds others) "commands" = Ok (VList (map cmd_val (Caps.commands c))) /\
  py_getattr (self_val s tds others) "text_document_sync_kind" = Ok (optn_val (Caps.sync_kind c)) /\
  py_getattr (self_val s tds others) "notebook_document_sync" = Ok (nb_val (Caps.nb_sync c)).
Proof. repeat split. Qed.

Ltac attrs s tds others :=
  destruct (self_attr s tds others) as (Acc & Afe & Afo & Acm & Ask & Anb);
  repeat (progress (rewrite ?Acc, ?Afe, ?Afo, ?Acm, ?Ask, ?Anb); csimp); clear Acc Afe Afo Acm Ask Anb.

Lemma with_notebook_document_sync_ok f d s tds others :
  wcall oracle f (S d) (Q "_with_notebook_document_sync") (Some (self_val s tds others)) [] [] =
  Ok (self_val (Caps.with_notebook_document_sync c s) tds others).
Proof.
  enterw f_with_notebook_document_sync. unfold self_val at 1. csimp. fold (self_val s tds others).
  attrs s tds others. unfold Caps.with_notebook_document_sync, ccv. csimp.
  destruct (Caps.notebook_document (Caps.cl c)); csimp; [|reflexivity].
  attrs s tds others.
  replace (nb_val (Caps.nb_sync c))
    with (vval (match Caps.nb_sync c with Some p => Caps.VNotebook p | None => Caps.VNone end))
    by (destruct (Caps.nb_sync c); reflexivity).
  rewrite (sc_set_self' "notebook_document_sync" Caps.FNotebookSync
             (match Caps.nb_sync c with Some p => Caps.VNotebook p | None => Caps.VNone end) s tds others eq_refl eq_refl). csimp. reflexivity.
Qed.

Lemma with_execute_command_ok f d s tds others :
  wcall oracle f (S d) (Q "_with_execute_command") (Some (self_val s tds others)) [] [] =
  Ok (self_val (Caps.with_execute_command c s) tds others).
Proof.
  enterw f_with_execute_command. unfold self_val at 1. csimp. fold (self_val s tds others).
  attrs s tds others. csimp.
  change (VObj "ExecuteCommandOptions" [("commands", VList (map cmd_val (Caps.commands c)))])
    with (vval (Caps.VCommands (Caps.commands c))).
  rewrite (sc_set_self' "execute_command_provider" Caps.FExecuteCommand (Caps.VCommands (Caps.commands c)) s tds others eq_refl eq_refl). csimp. reflexivity.
Qed.

Lemma reg_in m k : k = mval m -> existsb (py_eq k) (map mval fl) = Caps.reg c m.
Proof. intros ->. rewrite set_mem, Hreg. reflexivity. Qed.

Lemma wcall_oracle f d q recv args kw : find_def q prog = None ->
  wcall oracle f (S d) q recv args kw = oracle q recv args kw.
Proof. intros H. cbn [wcall]. rewrite H. reflexivity. Qed.

Lemma with_rename_ok f d s tds others :
  wcall oracle f (S (S d)) (Q "_with_rename") (Some (self_val s tds others)) [] [] =
  Ok (self_val (Caps.with_rename c s) tds others).
Proof.
  enterw f_with_rename. unfold self_val at 1. csimp. fold (self_val s tds others).
  attrs s tds others. unfold features_val. csimp.
  rewrite (reg_in Caps.TEXT_DOCUMENT_RENAME (VGlobal ["types"; "TEXT_DOCUMENT_RENAME"]) eq_refl). unfold Caps.with_rename.
  destruct (Caps.reg c Caps.TEXT_DOCUMENT_RENAME); csimp; [|reflexivity].
  attrs s tds others.
  rewrite (wcall_oracle f d ["get_capability"] _ _ _ eq_refl).
  fold s_prepare_support. rewrite Hps. csimp.
  destruct (Caps.cap_prepare_support (Caps.cl c)); csimp.
  - attrs s tds others. unfold features_val. csimp. rewrite (reg_in Caps.TEXT_DOCUMENT_PREPARE_RENAME (VGlobal ["types"; "TEXT_DOCUMENT_PREPARE_RENAME"]) eq_refl).
    setslot Caps.FRename (Caps.VRename (Caps.reg c Caps.TEXT_DOCUMENT_PREPARE_RENAME)). csimp. reflexivity.
  - setslot Caps.FRename (Caps.VBool true). csimp. reflexivity.
Qed.

Lemma or_ok (a b : bool) : (if a then Ok (VBool a) else Ok (VBool b)) = Ok (VBool (a || b)).
Proof. destruct a; reflexivity. Qed.
Lemma and_ok (x : option bool) (y : bool) :
  (if truthy (optb_val x) then Ok (VBool y) else Ok (optb_val x)) = Ok (vval (Caps.py_and x y)).
Proof. destruct x as [[|]|]; reflexivity. Qed.
Ltac rin M N := rewrite (reg_in M (VGlobal ["types"; N]) eq_refl).

Lemma opt_get m k : k = mval m -> dict_get k (fo_items ol) = option_map oval (Caps.opt c m).
Proof. intros ->. rewrite fo_get, Hopt. reflexivity. Qed.

Lemma sync_set s tds others v :
  path_set (self_val s tds others) [VGlobal ["server_cap"]; VGlobal ["text_document_sync"]] v =
  Ok (self_val s v others).
Proof. reflexivity. Qed.

Lemma sync_flat s tds others :
  self_val (Caps.with_text_document_sync c s) tds others = self_val s tds others.
Proof. reflexivity. Qed.

Lemma with_text_document_sync_ok f d s tds others :
  wcall oracle f (S (S d)) (Q "_with_text_document_sync") (Some (self_val s tds others)) [] [] =
  Ok (self_val (Caps.with_text_document_sync c s) (sync_obj (Caps.with_text_document_sync c s)) others).
Proof.
  enterw f_with_text_document_sync. unfold self_val at 1. csimp. fold (self_val s tds others).
  attrs s tds others. unfold features_val. csimp.
  rin Caps.TEXT_DOCUMENT_DID_OPEN "TEXT_DOCUMENT_DID_OPEN". rin Caps.TEXT_DOCUMENT_DID_CLOSE "TEXT_DOCUMENT_DID_CLOSE".
  rewrite or_ok. csimp. attrs s tds others.
  rewrite (wcall_oracle f d ["get_capability"] _ _ _ eq_refl). fold s_will_save. rewrite Hws.
  unfold features_val. csimp. rin Caps.TEXT_DOCUMENT_WILL_SAVE "TEXT_DOCUMENT_WILL_SAVE". rewrite and_ok. csimp.
  attrs s tds others.
  rewrite (wcall_oracle f d ["get_capability"] _ _ _ eq_refl). fold s_will_save_wait_until. rewrite Hwswu.
  unfold features_val. csimp. rin Caps.TEXT_DOCUMENT_WILL_SAVE_WAIT_UNTIL "TEXT_DOCUMENT_WILL_SAVE_WAIT_UNTIL".
  rewrite and_ok. csimp.
  attrs s tds others. unfold features_val. csimp. rin Caps.TEXT_DOCUMENT_DID_SAVE "TEXT_DOCUMENT_DID_SAVE".
  rewrite sync_flat. unfold sync_obj, Caps.with_text_document_sync.
  cbn [Caps.prov Caps.set Caps.field_eqb Caps.field_code N.eqb Pos.eqb].
  destruct (Caps.reg c Caps.TEXT_DOCUMENT_DID_SAVE).
  - unfold fo_val. csimp.
    rewrite (opt_get Caps.TEXT_DOCUMENT_DID_SAVE (VGlobal ["types"; "TEXT_DOCUMENT_DID_SAVE"]) eq_refl).
    destruct (Caps.opt c Caps.TEXT_DOCUMENT_DID_SAVE); cbn [option_map]; csimp; attrs s tds others;
      rewrite sync_set; csimp; destruct (Caps.sync_kind c); reflexivity.
  - csimp. attrs s tds others. rewrite sync_set. csimp. destruct (Caps.sync_kind c); reflexivity.
Qed.

Lemma build_ok f d s tds others :
  wcall oracle f (S d) (Q "_build") (Some (self_val s tds others)) [] [] =
  Ok (VObj "ServerCapabilities" (sc_fields s tds others)).
Proof. enterw f_build. reflexivity. Qed.

(* the translated _with_* methods *)
Definition translated : list Caps.wname :=
  [ Caps.W_text_document_sync; Caps.W_notebook_document_sync; Caps.W_rename; Caps.W_execute_command; Caps.W_hover; Caps.W_signature_help; Caps.W_declaration; Caps.W_definition; Caps.W_type_definition; Caps.W_implementation; Caps.W_references; Caps.W_document_highlight; Caps.W_document_symbol; Caps.W_color; Caps.W_document_formatting; Caps.W_document_range_formatting; Caps.W_document_on_type_formatting; Caps.W_folding_range; Caps.W_selection_range; Caps.W_call_hierarchy; Caps.W_type_hierarchy; Caps.W_linked_editing_range; Caps.W_moniker; Caps.W_inline_value_provider ].
Definition wq (w : Caps.wname) : list string :=
  match w with
  | Caps.W_text_document_sync => Q "_with_text_document_sync"
  | Caps.W_notebook_document_sync => Q "_with_notebook_document_sync"
  | Caps.W_rename => Q "_with_rename"
  | Caps.W_execute_command => Q "_with_execute_command"
  | Caps.W_hover => Q "_with_hover"
  | Caps.W_signature_help => Q "_with_signature_help"
  | Caps.W_declaration => Q "_with_declaration"
  | Caps.W_definition => Q "_with_definition"
  | Caps.W_type_definition => Q "_with_type_definition"
  | Caps.W_implementation => Q "_with_implementation"
  | Caps.W_references => Q "_with_references"
  | Caps.W_document_highlight => Q "_with_document_highlight"
  | Caps.W_document_symbol => Q "_with_document_symbol"
  | Caps.W_color => Q "_with_color"
  | Caps.W_document_formatting => Q "_with_document_formatting"
  | Caps.W_document_range_formatting => Q "_with_document_range_formatting"
  | Caps.W_document_on_type_formatting => Q "_with_document_on_type_formatting"
  | Caps.W_folding_range => Q "_with_folding_range"
  | Caps.W_selection_range => Q "_with_selection_range"
  | Caps.W_call_hierarchy => Q "_with_call_hierarchy"
  | Caps.W_type_hierarchy => Q "_with_type_hierarchy"
  | Caps.W_linked_editing_range => Q "_with_linked_editing_range"
  | Caps.W_moniker => Q "_with_moniker"
  | Caps.W_inline_value_provider => Q "_with_inline_value_provider"
  | _ => []
  end.
(* text_document_sync after the call *)
Definition tds_after (w : Caps.wname) (s' : st) (tds : val) : val :=
  match w with Caps.W_text_document_sync => sync_obj s' | _ => tds end.

Ltac heap_tac :=
  unfold Caps.with_notebook_document_sync, Caps.with_rename;
  repeat (match goal with |- context[if ?b then _ else _] => destruct b end); reflexivity.

(* each translated _with_* leaves the builder Model/Caps.v's run_with leaves (and returns it); no registered
   option object is touched *)
Theorem with_equiv f d w s tds others : In w translated ->
  wcall oracle f (S (S d)) (wq w) (Some (self_val s tds others)) [] [] =
    Ok (self_val (Caps.run_with w c s) (tds_after w (Caps.run_with w c s) tds) others) /\
  Caps.heap (Caps.run_with w c s) = Caps.heap s.
Proof.
  intros H. cbn [translated In] in H.
  repeat (destruct H as [<-|H]; [cbn [wq tds_after Caps.run_with]|]); [..|contradiction].
  - split; [apply with_text_document_sync_ok | heap_tac].
  - split; [apply with_notebook_document_sync_ok | heap_tac].
  - split; [apply with_rename_ok | heap_tac].
  - split; [apply with_execute_command_ok | heap_tac].
  - split; [apply with_hover_ok | heap_tac].
  - split; [apply with_signature_help_ok | heap_tac].
  - split; [apply with_declaration_ok | heap_tac].
  - split; [apply with_definition_ok | heap_tac].
  - split; [apply with_type_definition_ok | heap_tac].
  - split; [apply with_implementation_ok | heap_tac].
  - split; [apply with_references_ok | heap_tac].
  - split; [apply with_document_highlight_ok | heap_tac].
  - split; [apply with_document_symbol_ok | heap_tac].
  - split; [apply with_color_ok | heap_tac].
  - split; [apply with_document_formatting_ok | heap_tac].
  - split; [apply with_document_range_formatting_ok | heap_tac].
  - split; [apply with_document_on_type_formatting_ok | heap_tac].
  - split; [apply with_folding_range_ok | heap_tac].
  - split; [apply with_selection_range_ok | heap_tac].
  - split; [apply with_call_hierarchy_ok | heap_tac].
  - split; [apply with_type_hierarchy_ok | heap_tac].
  - split; [apply with_linked_editing_range_ok | heap_tac].
  - split; [apply with_moniker_ok | heap_tac].
  - split; [apply with_inline_value_provider_ok | heap_tac].
Qed.

(* a chain of translated methods, each called on what the previous one returned (the shape of build()) *)
Fixpoint chain (call : callT) (ws : list Caps.wname) (r : res val) : res val :=
  match ws with
  | [] => r
  | w :: ws' => match r with
                | Ok v => chain call ws' (call (wq w) (Some v) [] [])
                | _ => r
                end
  end.
Fixpoint tds_chain (ws : list Caps.wname) (s : st) (tds : val) : val :=
  match ws with
  | [] => tds
  | w :: ws' => tds_chain ws' (Caps.run_with w c s) (tds_after w (Caps.run_with w c s) tds)
  end.

Theorem chain_equiv f d ws : Forall (fun w => In w translated) ws -> forall s tds others,
  chain (wcall oracle f (S (S d))) ws (Ok (self_val s tds others)) =
  Ok (self_val (fold_left (fun s w => Caps.run_with w c s) ws s) (tds_chain ws s tds) others).
Proof.
  induction 1 as [|w ws Hw _ IH]; intros s tds others; [reflexivity|].
  cbn [chain fold_left tds_chain]. rewrite (proj1 (with_equiv f d w s tds others Hw)). apply IH.
Qed.
End Builder.

Theorem ast_caps_with_equiv c fl ol ccrest oracle f d w s tds others :
  (forall m, Caps.reg c m = existsb (meqb m) fl) -> (forall m, Caps.opt c m = lookup m ol) ->
  oracle ["get_capability"] None [ccv c ccrest; VStr s_will_save] [] =
    Ok (optb_val (Caps.cap_will_save (Caps.cl c))) ->
  oracle ["get_capability"] None [ccv c ccrest; VStr s_will_save_wait_until] [] =
    Ok (optb_val (Caps.cap_will_save_wait_until (Caps.cl c))) ->
  oracle ["get_capability"] None [ccv c ccrest; VStr s_prepare_support; VBool false] [] =
    Ok (VBool (Caps.cap_prepare_support (Caps.cl c))) ->
  In w translated ->
  wcall oracle f (S (S d)) (wq w) (Some (self_val c fl ol ccrest s tds others)) [] [] =
    Ok (self_val c fl ol ccrest (Caps.run_with w c s) (tds_after w (Caps.run_with w c s) tds) others) /\
  Caps.heap (Caps.run_with w c s) = Caps.heap s.
Proof. intros. apply with_equiv; assumption. Qed.

(* non-vacuity: a builder with seven features (two of them with a registered option object), two commands, a
   client that supports willSave, rename's prepareSupport and notebooks; six methods chained as build() chains
   them.  signature_help gets the registered object 3, save the registered object 4, rename RenameOptions. *)
Definition demo_fl : list method :=
  [ Caps.TEXT_DOCUMENT_HOVER; Caps.TEXT_DOCUMENT_RENAME; Caps.TEXT_DOCUMENT_PREPARE_RENAME;
    Caps.TEXT_DOCUMENT_DID_OPEN; Caps.TEXT_DOCUMENT_WILL_SAVE; Caps.TEXT_DOCUMENT_DID_SAVE;
    Caps.TEXT_DOCUMENT_SIGNATURE_HELP ].
Definition demo_ol : list (method * N) := [(Caps.TEXT_DOCUMENT_SIGNATURE_HELP, 3%N); (Caps.TEXT_DOCUMENT_DID_SAVE, 4%N)].
Definition demo_client : Caps.client :=
  {| Caps.text_document :=
       Some {| Caps.synchronization := Some {| Caps.will_save := Some true; Caps.will_save_wait_until := None |};
               Caps.rename := Some {| Caps.prepare_support := Some true |} |};
     Caps.workspace := None; Caps.notebook_document := true; Caps.general := None |}.
Definition demo_obj : Caps.obj := {| Caps.o_resolve := None; Caps.o_wsdiag := None; Caps.o_isreg := false |}.
Definition demo_c : config :=
  {| Caps.reg := fun m => existsb (meqb m) demo_fl; Caps.opt := fun m => lookup m demo_ol;
     Caps.heap0 := fun _ => demo_obj; Caps.commands := [1%N; 2%N]; Caps.sync_kind := Some 2%N;
     Caps.nb_sync := Some 7%N; Caps.cl := demo_client |}.
Definition demo_oracle : callT := fun q _ args _ =>
  match args with
  | [_; VStr p] => if str_eqb p s_will_save then Ok (VBool true) else Ok VNone
  | [_; VStr p; d] => if str_eqb p s_prepare_support then Ok (VBool true) else Ok d
  | _ => Stuck "no"
  end.
Definition demo_ws : list Caps.wname :=
  [ Caps.W_text_document_sync; Caps.W_notebook_document_sync; Caps.W_hover; Caps.W_signature_help;
    Caps.W_declaration; Caps.W_rename; Caps.W_execute_command ].
Definition demo_s0 : st := {| Caps.prov := fun _ => Caps.VNone; Caps.heap := fun _ => demo_obj |}.

Example ast_caps_example :
  let s' := fold_left (fun s w => Caps.run_with w demo_c s) demo_ws demo_s0 in
  Forall (fun w => In w translated) demo_ws /\
  chain (wcall demo_oracle 0 2) demo_ws (Ok (self_val demo_c demo_fl demo_ol [] demo_s0 VNone [])) =
    Ok (self_val demo_c demo_fl demo_ol [] s' (sync_obj s') []) /\
  Caps.prov s' Caps.FHover = Caps.VBool true /\ Caps.prov s' Caps.FSignatureHelp = Caps.VRef 3 /\
  Caps.prov s' Caps.FDeclaration = Caps.VNone /\ Caps.prov s' Caps.FRename = Caps.VRename true /\
  Caps.prov s' Caps.FSyncSave = Caps.VRef 4 /\ Caps.prov s' Caps.FSyncWillSave = Caps.VBool true /\
  Caps.prov s' Caps.FSyncWillSaveWaitUntil = Caps.VNone /\
  Caps.prov s' Caps.FExecuteCommand = Caps.VCommands [1%N; 2%N] /\
  Caps.prov s' Caps.FNotebookSync = Caps.VNotebook 7.
Proof.
  cbv zeta. split; [|split].
  - (repeat (constructor; [cbn [translated In]; repeat (first [left; reflexivity | right]) |])); constructor.
  - vm_compute. reflexivity.
  - vm_compute. repeat split.
Qed.

