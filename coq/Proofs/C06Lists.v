(* Proofs/C06Lists.v - list facts behind the renumbering of tasks / jobs in C06:
   `rank p l n` is the position, inside `filter p l`, of the n-th element of l. *)
From Coq Require Import List Bool Arith Lia.
From Pygls Require Import Base.Assoc Model.Endpoint Spec.ContainSpec.
Import ListNotations.

Section Rank.
Context {A : Type}.
Variable p : A -> bool.

Lemma rank_nil : forall n, rank p [] n = n.
Proof. destruct n; reflexivity. Qed.

Lemma rank_length : forall l, rank p l (length l) = length (filter p l).
Proof.
  induction l as [|x r IH]; [reflexivity|]. cbn [length rank filter].
  destruct (p x); cbn [length]; rewrite IH; reflexivity.
Qed.

Lemma rank_ge : forall l n, length l <= n -> rank p l n = length (filter p l) + (n - length l).
Proof.
  induction l as [|x r IH]; intros n H.
  - rewrite rank_nil. cbn. lia.
  - destruct n as [|n]; cbn [length] in H; [lia|]. cbn [rank filter length].
    rewrite IH by lia. destruct (p x); cbn [length]; lia.
Qed.

Lemma nth_error_filter_rank : forall l n x,
  nth_error l n = Some x -> p x = true -> nth_error (filter p l) (rank p l n) = Some x.
Proof.
  induction l as [|y r IH]; intros n x H Hp; [destruct n; discriminate|].
  destruct n as [|n]; cbn [nth_error] in H.
  - inversion H. subst. cbn [rank filter]. rewrite Hp. reflexivity.
  - cbn [rank filter]. destruct (p y); cbn [nth_error plus]; apply IH; assumption.
Qed.

Lemma nth_error_filter_rank_none : forall l n,
  nth_error l n = None -> nth_error (filter p l) (rank p l n) = None.
Proof.
  intros l n H. apply nth_error_None in H. apply nth_error_None. rewrite rank_ge by exact H. lia.
Qed.

Lemma rank_app_le : forall l l2 n, n <= length l -> rank p (l ++ l2) n = rank p l n.
Proof.
  induction l as [|x r IH]; intros l2 n H.
  - cbn [length] in H. assert (n = 0) by lia. subst. destruct l2; reflexivity.
  - destruct n as [|n]; [reflexivity|]. cbn [length] in H. cbn [app rank]. rewrite IH by lia. reflexivity.
Qed.

Lemma rank_upd_nth : forall (f : A -> A) l t n,
  (forall y, p (f y) = p y) -> rank p (upd_nth t f l) n = rank p l n.
Proof.
  intros f l. induction l as [|x r IH]; intros t n Hf; [destruct t; reflexivity|].
  destruct t as [|t]; cbn [upd_nth]; destruct n as [|n]; cbn [rank]; try reflexivity.
  - rewrite Hf. reflexivity.
  - rewrite IH by exact Hf. reflexivity.
Qed.

Lemma filter_upd_nth_good : forall (f : A -> A) l t x,
  nth_error l t = Some x -> p x = true -> (forall y, p (f y) = p y) ->
  filter p (upd_nth t f l) = upd_nth (rank p l t) f (filter p l).
Proof.
  intros f l. induction l as [|y r IH]; intros t x H Hp Hf; [destruct t; discriminate|].
  destruct t as [|t]; cbn [nth_error] in H.
  - inversion H. subst. cbn [upd_nth filter rank]. rewrite Hf, Hp. reflexivity.
  - cbn [upd_nth filter rank]. destruct (p y); cbn [plus upd_nth]; erewrite IH by eassumption; reflexivity.
Qed.

Lemma filter_upd_nth_bad : forall (f : A -> A) l t x,
  nth_error l t = Some x -> p x = false -> p (f x) = false ->
  filter p (upd_nth t f l) = filter p l.
Proof.
  intros f l. induction l as [|y r IH]; intros t x H Hp Hf; [destruct t; discriminate|].
  destruct t as [|t]; cbn [nth_error] in H.
  - inversion H. subst. cbn [upd_nth filter]. rewrite Hf, Hp. reflexivity.
  - cbn [upd_nth filter]. erewrite IH by eassumption. reflexivity.
Qed.

Lemma filter_snoc : forall l x, filter p (snoc l x) = if p x then snoc (filter p l) x else filter p l.
Proof.
  intros. unfold snoc. rewrite filter_app. cbn [filter]. destruct (p x); [reflexivity|apply app_nil_r].
Qed.
End Rank.

Lemma rank_true : forall (A : Type) (l : list A) n, rank (fun _ => true) l n = n.
Proof.
  induction l as [|x r IH]; intros n; [apply rank_nil|]. destruct n; [reflexivity|]. cbn [rank]. rewrite IH. reflexivity.
Qed.

Lemma nth_error_upd_nth_eq : forall (A : Type) (f : A -> A) l t x,
  nth_error l t = Some x -> nth_error (upd_nth t f l) t = Some (f x).
Proof.
  intros A f l. induction l as [|y r IH]; intros t x H; [destruct t; discriminate|].
  destruct t as [|t]; cbn [nth_error] in H; cbn [upd_nth nth_error]; [inversion H; reflexivity|apply IH; exact H].
Qed.

Lemma nth_error_upd_nth_neq : forall (A : Type) (f : A -> A) l t n,
  t <> n -> nth_error (upd_nth t f l) n = nth_error l n.
Proof.
  intros A f l. induction l as [|y r IH]; intros t n H; [destruct t; reflexivity|].
  destruct t as [|t]; destruct n as [|n]; cbn [upd_nth nth_error]; try reflexivity; [lia|apply IH; lia].
Qed.

Lemma length_upd_nth : forall (A : Type) (f : A -> A) l t, length (upd_nth t f l) = length l.
Proof.
  intros A f l. induction l as [|y r IH]; intros t; [destruct t; reflexivity|].
  destruct t; cbn [upd_nth length]; [reflexivity|rewrite IH; reflexivity].
Qed.

Lemma nth_error_snoc_lt : forall (A : Type) (l : list A) x n, n < length l -> nth_error (snoc l x) n = nth_error l n.
Proof. intros. unfold snoc. apply nth_error_app1. assumption. Qed.

Lemma nth_error_some_lt : forall (A : Type) (l : list A) n x, nth_error l n = Some x -> n < length l.
Proof. intros A l n x H. apply nth_error_Some. congruence. Qed.
