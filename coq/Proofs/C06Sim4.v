(* Proofs/C06Sim4.v - the simulation of C06 (ii): starting handlers, requests, notifications,
   responses, one received frame. *)
From Coq Require Import ZArith NArith List Bool Arith Lia.
From Pygls Require Import Base.Assoc Model.Endpoint Spec.EndpointSpec Spec.ContainSpec
  Proofs.EndpointInv Proofs.C06Lists Proofs.C06Sim Proofs.C06Sim2 Proofs.C06Sim3.
Import ListNotations.

Section Sim4.
Variable B : who -> bool.
Variable c : cfg.
Hypothesis CFG : cfg_ok c = true.

Notation R := (C06Sim.R B).
Notation gid := (good_id B).
Notation gt := (good_t B).
Notation gj := (good_j B).
Notation gf := (good_f B).

Lemma length_filtered_tasks : forall s s', R s s' -> length (tasks s') = rank gt (tasks s) (length (tasks s)).
Proof. intros s s' H. rewrite (r_tasks _ _ _ H), rank_length. reflexivity. Qed.
Lemma length_filtered_jobs : forall s s', R s s' -> length (jobs s') = rank gj (jobs s) (length (jobs s)).
Proof. intros s s' H. rewrite (r_jobs _ _ _ H), rank_length. reflexivity. Qed.

Lemma cb_side_req : forall i g, gid i = g -> cb_side B g (CReq i).
Proof. intros i g H. exact H. Qed.

(* ---------------------------------------------------------------- thread_pool.submit *)
Lemma submit_l : forall w p cb b early reg s s', B w = true -> cb_ok w cb ->
  (forall s1, (exists jb, nth_error (jobs s1) (length (jobs s)) = Some jb /\ gj jb = false) ->
              R s1 s' -> R (reg (length (jobs s)) s1) s') ->
  R s s' -> R (submit c w p cb b early reg s) s'.
Proof.
  intros w p cb b early reg s s' V K Hreg H. unfold submit.
  assert (S : cb_side B false cb) by (apply (cb_side_of B w); [exact K|rewrite V; reflexivity]).
  destruct early.
  - apply (run_cb_l B c CFG); [exact S|]. apply Hreg.
    + eexists. split; [cbn [jobs log set_hlog new_job set_jobs]; apply nth_error_snoc_eq|].
      unfold good_j. cbn [j_who]. rewrite V. reflexivity.
    + apply R_log_l; [exact V|]. apply R_log_l; [exact V|]. apply R_new_job_l; assumption.
  - apply Hreg.
    + eexists. split; [cbn [jobs new_job set_jobs]; apply nth_error_snoc_eq|].
      unfold good_j. cbn [j_who]. rewrite V. reflexivity.
    + apply R_new_job_l; assumption.
Qed.

Lemma submit_b : forall w p cb b early reg s s', B w = false -> cb_ok w cb ->
  (forall s1 s1', (exists jb, nth_error (jobs s1) (length (jobs s)) = Some jb /\ gj jb = true) ->
                  rank gj (jobs s1) (length (jobs s)) = length (jobs s') ->
                  R s1 s1' -> R (reg (length (jobs s)) s1) (reg (length (jobs s')) s1')) ->
  R s s' -> R (submit c w p cb b early reg s) (submit c w p cb b early reg s').
Proof.
  intros w p cb b early reg s s' V K Hreg H. unfold submit.
  assert (S : cb_side B true cb) by (apply (cb_side_of B w); [exact K|rewrite V; reflexivity]).
  assert (RK : forall x, rank gj (snoc (jobs s) x) (length (jobs s)) = length (jobs s')).
  { intro x. unfold snoc. rewrite rank_app_le by lia. symmetry. apply length_filtered_jobs. exact H. }
  destruct early.
  - apply (run_cb_b B c CFG); [exact S|]. apply Hreg.
    + eexists. split; [cbn [jobs log set_hlog new_job set_jobs]; apply nth_error_snoc_eq|].
      unfold good_j. cbn [j_who]. rewrite V. reflexivity.
    + cbn [jobs log set_hlog new_job set_jobs]. apply RK.
    + apply R_log_b; [exact V|]. apply R_log_b; [exact V|]. apply R_new_job_b; assumption.
  - apply Hreg.
    + eexists. split; [cbn [jobs new_job set_jobs]; apply nth_error_snoc_eq|].
      unfold good_j. cbn [j_who]. rewrite V. reflexivity.
    + cbn [jobs new_job set_jobs]. apply RK.
    + apply R_new_job_b; assumption.
Qed.

(* ---------------------------------------------------------------- _execute_request *)
Lemma snd_execute_request : forall i p b s,
  snd (execute_request c i p b s) = match bkind b with HSync => exc_of (bout b) | _ => None end.
Proof. intros. unfold execute_request. destruct (bkind b); try reflexivity. destruct (bout b); reflexivity. Qed.

Lemma execute_request_l : forall i p b s s', gid i = false -> R s s' -> R (fst (execute_request c i p b s)) s'.
Proof.
  intros i p b s s' G H. pose proof (proj1 (gid_false B i) G) as V. unfold execute_request. destruct (bkind b) as [|n|early].
  - assert (H1 : R (log (WReq i) p HEnd Loop (log (WReq i) p HStart Loop s)) s') by (apply R_log_l; [exact V|]; apply R_log_l; assumption).
    destruct (bout b); cbn [fst]; try exact H1; apply (send_response_l B c CFG); assumption.
  - cbn [fst]. apply R_fut_set_l; [exact G| |apply R_new_task_l; [exact V|reflexivity|exact H]].
    unfold fut_ok. cbn [fst snd tasks new_task set_tasks]. eexists. split; [apply nth_error_snoc_eq|].
    unfold good_t. cbn [t_who]. rewrite V. symmetry. exact G.
  - cbn [fst]. apply submit_l; [exact V|reflexivity| |exact H].
    intros s1 (jb & N & Gj) H1. apply R_fut_set_l; [exact G| |exact H1].
    unfold fut_ok. cbn [fst snd]. exists jb. split; [exact N|congruence].
Qed.

Lemma execute_request_b : forall i p b s s', gid i = true -> R s s' ->
  R (fst (execute_request c i p b s)) (fst (execute_request c i p b s')).
Proof.
  intros i p b s s' G H. pose proof (proj1 (gid_true B i) G) as V. unfold execute_request. destruct (bkind b) as [|n|early].
  - assert (H1 : R (log (WReq i) p HEnd Loop (log (WReq i) p HStart Loop s)) (log (WReq i) p HEnd Loop (log (WReq i) p HStart Loop s')))
      by (apply R_log_b; [exact V|]; apply R_log_b; assumption).
    destruct (bout b); cbn [fst]; try exact H1; apply (send_response_b B c CFG); assumption.
  - cbn [fst]. rewrite (length_filtered_tasks _ _ H).
    assert (E : rank gt (tasks s) (length (tasks s)) =
                rank gt (tasks (new_task (WReq i) p (CReq i) b n s)) (length (tasks s))).
    { cbn [tasks new_task set_tasks]. unfold snoc. rewrite rank_app_le by lia. reflexivity. }
    rewrite E.
    apply (R_fut_set_b B i (FTask (length (tasks s)))); [exact G| |apply R_new_task_b; [exact V|reflexivity|exact H]].
    unfold fut_ok. cbn [fst snd tasks new_task set_tasks]. eexists. split; [apply nth_error_snoc_eq|].
    unfold good_t. cbn [t_who]. rewrite V. symmetry. exact G.
  - cbn [fst]. apply submit_b; [exact V|reflexivity| |exact H].
    intros s1 s1' (jb & N & Gj) RK H1. rewrite <- RK.
    apply (R_fut_set_b B i (FJob (length (jobs s)))); [exact G| |exact H1].
    unfold fut_ok. cbn [fst snd]. exists jb. split; [exact N|congruence].
Qed.

(* ---------------------------------------------------------------- _execute_notification, chaining *)
Lemma snd_exec_notification : forall w p b s,
  snd (exec_notification c w p b s) = match bkind b with HSync => exc_of (bout b) | _ => None end.
Proof. intros. unfold exec_notification. destruct (bkind b); reflexivity. Qed.

Lemma exec_notification_l : forall w p b s s', B w = true -> R s s' -> R (fst (exec_notification c w p b s)) s'.
Proof.
  intros w p b s s' V H. unfold exec_notification. destruct (bkind b) as [|n|early]; cbn [fst].
  - apply R_log_l; [exact V|]. apply R_log_l; assumption.
  - apply R_new_task_l; [exact V|exact I|exact H].
  - apply submit_l; [exact V|exact I| |exact H]. intros s1 _ H1. exact H1.
Qed.
Lemma exec_notification_b : forall w p b s s', B w = false -> R s s' ->
  R (fst (exec_notification c w p b s)) (fst (exec_notification c w p b s')).
Proof.
  intros w p b s s' V H. unfold exec_notification. destruct (bkind b) as [|n|early]; cbn [fst].
  - apply R_log_b; [exact V|]. apply R_log_b; assumption.
  - apply R_new_task_b; [exact V|exact I|exact H].
  - apply submit_b; [exact V|exact I| |exact H]. intros s1 s1' _ _ H1. exact H1.
Qed.

Lemma chain_l : forall w u s s', B w = true -> R s s' -> R (chain c w u s) s'.
Proof. intros w u s s' V H. unfold chain. destruct u; [apply exec_notification_l; assumption|exact H]. Qed.
Lemma chain_b : forall w u s s', B w = false -> R s s' -> R (chain c w u s) (chain c w u s').
Proof. intros w u s s' V H. unfold chain. destruct u; [apply exec_notification_b; assumption|exact H]. Qed.

Lemma on_exc_l : forall i x s s', gid i = false -> R s s' -> R (on_exc c i x s) s'.
Proof.
  intros i x s s' G H. unfold on_exc. destruct x as [[|code]|]; try exact H;
    apply (hook_l B c CFG); apply (send_response_l B c CFG); assumption.
Qed.
Lemma on_exc_b : forall i x s s', gid i = true -> R s s' -> R (on_exc c i x s) (on_exc c i x s').
Proof.
  intros i x s s' G H. unfold on_exc. destruct x as [[|code]|]; try exact H;
    apply (hook_b B c CFG); apply (send_response_b B c CFG); assumption.
Qed.

(* ---------------------------------------------------------------- _handle_request *)
Lemma handle_request_l : forall i m s s', gid i = false -> plain_r m = true -> R s s' -> R (handle_request c i m s) s'.
Proof.
  intros i m s s' G P H. pose proof (proj1 (gid_false B i) G) as V. unfold handle_request.
  destruct m as [|b|u|fails u|cmd u]; cbn [plain_r] in P; try discriminate.
  - apply (hook_l B c CFG). apply (send_response_l B c CFG); assumption.
  - pose proof (execute_request_l i PUser b _ _ G H) as H1.
    destruct (execute_request c i PUser b s) as [s1 x]. cbn [fst] in H1. apply on_exc_l; assumption.
  - assert (H1 : R (log (WReq i) PBuiltin HEnd Loop (log (WReq i) PBuiltin HStart Loop s)) s')
      by (apply R_log_l; [exact V|]; apply R_log_l; assumption).
    destruct fails; [apply on_exc_l; assumption|].
    apply (send_response_l B c CFG); [exact G|]. apply chain_l; assumption.
  - assert (H1 : R (log (WReq i) PBuiltin HStart Loop s) s') by (apply R_log_l; assumption).
    destruct cmd as [b|].
    + pose proof (execute_request_l i PCommand b _ _ G H1) as H2.
      destruct (execute_request c i PCommand b (log (WReq i) PBuiltin HStart Loop s)) as [s2 x]. cbn [fst] in H2.
      assert (H3 : R (log (WReq i) PBuiltin HEnd Loop s2) s') by (apply R_log_l; assumption).
      destruct x; [apply on_exc_l; assumption|apply chain_l; assumption].
    + apply on_exc_l; [exact G|]. apply R_log_l; assumption.
Qed.

Lemma handle_request_b : forall i m s s', gid i = true -> R s s' -> R (handle_request c i m s) (handle_request c i m s').
Proof.
  intros i m s s' G H. pose proof (proj1 (gid_true B i) G) as V. unfold handle_request.
  destruct m as [|b|u|fails u|cmd u].
  - apply (hook_b B c CFG). apply (send_response_b B c CFG); assumption.
  - pose proof (execute_request_b i PUser b _ _ G H) as H1.
    pose proof (snd_execute_request i PUser b s) as E1. pose proof (snd_execute_request i PUser b s') as E2.
    destruct (execute_request c i PUser b s) as [s1 x]. destruct (execute_request c i PUser b s') as [s1' x'].
    cbn [fst snd] in *. subst x x'. apply on_exc_b; assumption.
  - apply (send_response_b B c CFG); [exact G|]. apply chain_b; [exact V|]. apply R_log_b; [exact V|].
    apply (lsp_shutdown_b B c CFG). apply R_log_b; assumption.
  - assert (H1 : R (log (WReq i) PBuiltin HEnd Loop (log (WReq i) PBuiltin HStart Loop s))
                   (log (WReq i) PBuiltin HEnd Loop (log (WReq i) PBuiltin HStart Loop s')))
      by (apply R_log_b; [exact V|]; apply R_log_b; assumption).
    destruct fails; [apply on_exc_b; assumption|].
    apply (send_response_b B c CFG); [exact G|]. apply chain_b; assumption.
  - assert (H1 : R (log (WReq i) PBuiltin HStart Loop s) (log (WReq i) PBuiltin HStart Loop s')) by (apply R_log_b; assumption).
    destruct cmd as [b|].
    + pose proof (execute_request_b i PCommand b _ _ G H1) as H2.
      pose proof (snd_execute_request i PCommand b (log (WReq i) PBuiltin HStart Loop s)) as E1.
      pose proof (snd_execute_request i PCommand b (log (WReq i) PBuiltin HStart Loop s')) as E2.
      destruct (execute_request c i PCommand b (log (WReq i) PBuiltin HStart Loop s)) as [s2 x].
      destruct (execute_request c i PCommand b (log (WReq i) PBuiltin HStart Loop s')) as [s2' x'].
      cbn [fst snd] in *. subst x x'.
      assert (H3 : R (log (WReq i) PBuiltin HEnd Loop s2) (log (WReq i) PBuiltin HEnd Loop s2')) by (apply R_log_b; assumption).
      destruct (match bkind b with HSync => exc_of (bout b) | _ => None end); [apply on_exc_b; assumption|apply chain_b; assumption].
    + apply on_exc_b; [exact G|]. apply R_log_b; assumption.
Qed.

(* ---------------------------------------------------------------- notifications *)
Lemma entry_side : forall s s' i r, R s s' -> Assoc.get id_eqb i (futs s) = Some r -> ref_side B (gid i) s r.
Proof.
  intros s s' i r H G. apply fut_ok_side. pose proof (r_fok _ _ _ H) as F. rewrite Forall_forall in F.
  apply F. apply get_in. exact G.
Qed.

Lemma cancel_notification_b : forall i s s', R s s' -> R (cancel_notification c i s) (cancel_notification c i s').
Proof.
  intros i s s' H. unfold cancel_notification. rewrite (r_futs _ _ _ H). destruct (gid i) eqn:G.
  - rewrite (get_fmap_filter B _ _ i _ G). destruct (Assoc.get id_eqb i (futs s)) as [r|] eqn:E; cbn [option_map]; [|exact H].
    apply (cancel_ref_b B c CFG r (fut_pop i s) (fut_pop i s')).
    + pose proof (entry_side _ _ _ _ H E) as S. rewrite G in S. exact S.
    + apply R_fut_pop_b; assumption.
  - rewrite (get_filter_bad B _ _ i _ G). destruct (Assoc.get id_eqb i (futs s)) as [r|] eqn:E; [|exact H].
    apply (cancel_ref_l B c CFG r (fut_pop i s)).
    + pose proof (entry_side _ _ _ _ H E) as S. rewrite G in S. exact S.
    + apply R_fut_pop_l; assumption.
Qed.

Lemma lsp_exit_b : forall w u s s', B w = false -> R s s' -> R (lsp_exit c w u s) (lsp_exit c w u s').
Proof.
  intros w u s s' V H. unfold lsp_exit. rewrite (r_shut _ _ _ H).
  assert (H1 : R (log w PBuiltin HStart Loop s) (log w PBuiltin HStart Loop s')) by (apply R_log_b; assumption).
  destruct (c_writer c).
  - apply R_set_exit_b, R_set_closed_b. exact H1.
  - apply chain_b; [exact V|]. apply R_log_b; [exact V|]. apply R_add_wq_b; [reflexivity|exact H1].
Qed.

Lemma handle_notification_l : forall tag m s s', B (WNot tag) = true -> plain_n m = true -> R s s' ->
  R (handle_notification c tag m s) s'.
Proof.
  intros tag m s s' V P H. unfold handle_notification. destruct m as [|b|i|u|fails u]; cbn [plain_n] in P; try discriminate.
  - exact H.
  - pose proof (exec_notification_l (WNot tag) PUser b _ _ V H) as H1.
    destruct (exec_notification c (WNot tag) PUser b s) as [s1 x]. cbn [fst] in H1.
    destruct x; [apply (hook_l B c CFG)|]; exact H1.
  - assert (H1 : R (log (WNot tag) PBuiltin HEnd Loop (log (WNot tag) PBuiltin HStart Loop s)) s')
      by (apply R_log_l; [exact V|]; apply R_log_l; assumption).
    destruct fails; [apply (hook_l B c CFG); exact H1|apply chain_l; assumption].
Qed.

Lemma handle_notification_b : forall tag m s s', B (WNot tag) = false -> R s s' ->
  R (handle_notification c tag m s) (handle_notification c tag m s').
Proof.
  intros tag m s s' V H. unfold handle_notification. destruct m as [|b|i|u|fails u].
  - exact H.
  - pose proof (exec_notification_b (WNot tag) PUser b _ _ V H) as H1.
    pose proof (snd_exec_notification (WNot tag) PUser b s) as E1. pose proof (snd_exec_notification (WNot tag) PUser b s') as E2.
    destruct (exec_notification c (WNot tag) PUser b s) as [s1 x]. destruct (exec_notification c (WNot tag) PUser b s') as [s1' x'].
    cbn [fst snd] in *. subst x x'.
    destruct (match bkind b with HSync => exc_of (bout b) | _ => None end); [apply (hook_b B c CFG)|]; exact H1.
  - apply cancel_notification_b. exact H.
  - apply lsp_exit_b; assumption.
  - assert (H1 : R (log (WNot tag) PBuiltin HEnd Loop (log (WNot tag) PBuiltin HStart Loop s))
                   (log (WNot tag) PBuiltin HEnd Loop (log (WNot tag) PBuiltin HStart Loop s')))
      by (apply R_log_b; [exact V|]; apply R_log_b; assumption).
    destruct fails; [apply (hook_b B c CFG); exact H1|apply chain_b; assumption].
Qed.

(* ---------------------------------------------------------------- responses *)
Lemma handle_response_b : forall i s s', gid i = true -> R s s' -> R (handle_response c i s) (handle_response c i s').
Proof.
  intros i s s' G H. unfold handle_response. rewrite (r_futs _ _ _ H), (get_fmap_filter B _ _ i _ G).
  destruct (Assoc.get id_eqb i (futs s)) as [r|] eqn:E; cbn [option_map]; [|apply (hook_b B c CFG); exact H].
  pose proof (R_fut_pop_b B i _ _ G H) as H1.
  destruct r as [t|j|o]; cbn [mref].
  - apply (hook_b B c CFG). exact H1.
  - apply R_set_undef_b. apply (hook_b B c CFG). exact H1.
  - rewrite (r_outg _ _ _ H1). destruct (nth_error (outg (fut_pop i s)) o) as [[| |]|];
      try (apply (hook_b B c CFG); exact H1). apply R_set_outg_st_b. exact H1.
Qed.

Lemma handle_response_unknown_l : forall i s s', Assoc.get id_eqb i (futs s) = None -> R s s' -> R (handle_response c i s) s'.
Proof. intros i s s' E H. unfold handle_response. rewrite E. apply (hook_l B c CFG). exact H. Qed.

(* ---------------------------------------------------------------- one frame *)
Lemma recv_l : forall f s s', contained B s f = true -> R s s' -> R (recv c f s) s'.
Proof.
  intros f s s' K H. unfold recv. destruct f as [|v i ps m|v tag ps m|v i iserr ps]; cbn [contained] in K.
  - apply (hook_l B c CFG). exact H.
  - destruct ps.
    + destruct v; cbn [negb]; [|apply (hook_l B c CFG); exact H].
      apply andb_true_iff in K. destruct K as [K1 K2]. destruct (shutdown s); [exact H|].
      apply handle_request_l; [apply gid_false; exact K1|exact K2|exact H].
    + apply (hook_l B c CFG). apply (send_response_l B c CFG); [apply gid_false; exact K|exact H].
    + apply (hook_l B c CFG). apply (send_response_l B c CFG); [apply gid_false; exact K|exact H].
  - destruct ps; try (apply (hook_l B c CFG); exact H).
    destruct v; cbn [negb]; [|apply (hook_l B c CFG); exact H].
    apply andb_true_iff in K. destruct K as [K1 K2].
    destruct (shutdown s && negb (is_exit m)); [exact H|]. apply handle_notification_l; assumption.
  - unfold unknown_id in K. apply andb_true_iff in K. destruct K as [K1 K2].
    apply negb_true_iff in K1. destruct (Assoc.get id_eqb i (futs s)) eqn:E; [discriminate|].
    pose proof (R_rtype_pop_absent B i _ _ K1 H) as H1. rewrite K1.
    destruct (negb iserr && negb false); [apply (hook_l B c CFG); exact H1|].
    destruct ps; try (apply (hook_l B c CFG); exact H1).
    destruct (negb v); [apply (hook_l B c CFG); exact H1|].
    destruct (shutdown (rtype_pop i s)); [exact H1|].
    apply handle_response_unknown_l; [exact E|exact H1].
Qed.

Lemma recv_b : forall f s s', foreign B f = true -> R s s' -> R (recv c f s) (recv c f s').
Proof.
  intros f s s' K H. unfold recv. destruct f as [|v i ps m|v tag ps m|v i iserr ps]; cbn [foreign] in K.
  - apply (hook_b B c CFG). exact H.
  - destruct ps.
    + destruct v; cbn [negb]; [|apply (hook_b B c CFG); exact H].
      rewrite (r_shut _ _ _ H). destruct (shutdown s); [exact H|]. apply handle_request_b; assumption.
    + apply (hook_b B c CFG). apply (send_response_b B c CFG); assumption.
    + apply (hook_b B c CFG). apply (send_response_b B c CFG); assumption.
  - destruct ps; try (apply (hook_b B c CFG); exact H).
    destruct v; cbn [negb]; [|apply (hook_b B c CFG); exact H].
    rewrite (r_shut _ _ _ H). destruct (shutdown s && negb (is_exit m)); [exact H|].
    apply handle_notification_b; [|exact H]. apply negb_true_iff. exact K.
  - rewrite (r_rt _ _ _ H). pose proof (R_rtype_pop_b B i _ _ H) as H1.
    destruct (negb iserr && negb (Assoc.mem id_eqb i (rtypes s))); [apply (hook_b B c CFG); exact H1|].
    destruct ps; try (apply (hook_b B c CFG); exact H1).
    destruct (negb v); [apply (hook_b B c CFG); exact H1|].
    rewrite (r_shut _ _ _ H1). destruct (shutdown (rtype_pop i s)); [exact H1|].
    apply handle_response_b; assumption.
Qed.
End Sim4.
