(* The translated source of pygls/workspace/position_codec.py (Gen/AstCodec.v, regenerated from the
   source text by harness/gen_ast.py on every run) computes, under the PyMini semantics
   (Base/PyMini.v), exactly what the hand-written model Model/Codec.v computes - for all inputs. *)
From Coq Require Import ZArith NArith List Bool String Ascii Lia ZifyBool ZifyN ZifyNat.
From Pygls Require Import Base.PyMini Base.PyMiniFacts Gen.AstCodec Model.Codec.
Import ListNotations.
Open Scope string_scope.
Open Scope Z_scope.

(* ---------- how Python values stand for the model's inputs ---------- *)

(* `self`: a PositionCodec whose `encoding` attribute is ANY value; the model's three-way
   encoding is what the `==` tests of the code make of it (anything that is neither "utf-32" nor
   "utf-8" - "utf-16", None, another string - counts in UTF-16 units). *)
Definition codec_self (encv : val) : val := VObj "PositionCodec" [("encoding", encv)].

Definition enc_of (encv : val) : encoding :=
  if py_eq encv (VStr s_utf32) then Utf32 else if py_eq encv (VStr s_utf8) then Utf8 else Utf16.

Definition enc_val (e : encoding) : val :=
  VStr (match e with Utf8 => s_utf8 | Utf16 => s_utf16 | Utf32 => s_utf32 end).

Lemma enc_of_val e : enc_of (enc_val e) = e.
Proof. destruct e; reflexivity. Qed.

Definition py_pos (p : N * N) : val :=
  VObj "Position" [("line", VInt (Z.of_N (fst p))); ("character", VInt (Z.of_N (snd p)))].

Definition py_lines (lines : list (list N)) : val := VList (map VStr lines).

Notation q_is_char := ["PositionCodec"; "is_char_beyond_multilingual_plane"] (only parsing).
Notation q_offset := ["PositionCodec"; "utf16_unit_offset"] (only parsing).
Notation q_cnu := ["PositionCodec"; "client_num_units"] (only parsing).
Notation q_from := ["PositionCodec"; "position_from_client_units"] (only parsing).
Notation q_to := ["PositionCodec"; "position_to_client_units"] (only parsing).

(* ---------- what a `call` environment must provide (specs of the callees) ---------- *)

Definition spec_is_char (call : callT) : Prop := forall r cl c, class_of r = Some cl ->
  call q_is_char (Some r) [VStr [c]] [] = Ok (VBool (astral c)).

Definition spec_offset (call : callT) : Prop := forall encv s,
  call q_offset (Some (codec_self encv)) [VStr s] [] = Ok (VInt (Z.of_N (count_astral s))).

Definition spec_cnu (call : callT) : Prop := forall encv s,
  call q_cnu (Some (codec_self encv)) [VStr s] [] = Ok (VInt (Z.of_N (client_num_units (enc_of encv) s))).

(* ---------- is_char_beyond_multilingual_plane ---------- *)

Lemma is_char_ok f d : spec_is_char (mk_call prog f (S d)).
Proof.
  intros r cl c Hr. enter f_is_char_beyond_multilingual_plane.
  generalize (mk_call prog f d); intros call.
  unfold run_fun, f_is_char_beyond_multilingual_plane. pysimp. rewrite Hr. pysimp.
  unfold astral. f_equal. f_equal. lia.
Qed.

(* ---------- utf16_unit_offset ---------- *)

Lemma offset_ok f d : spec_offset (mk_call prog f (S (S d))).
Proof.
  intros encv s. enter f_utf16_unit_offset.
  pose proof (is_char_ok f d) as Hc. revert Hc. generalize (mk_call prog f (S d)); intros call Hc.
  unfold run_fun, f_utf16_unit_offset, codec_self. pysimp.
  rewrite (sum_chars_count _ astral).
  - reflexivity.
  - intros c. apply (Hc _ (VGlobal ["PositionCodec"])). reflexivity.
Qed.

(* ---------- client_num_units ---------- *)

Lemma cnu_ok_gen call f : spec_offset call -> forall encv s,
  run_fun call f f_client_num_units (Some (codec_self encv)) [VStr s] [] =
  Ok (VInt (Z.of_N (client_num_units (enc_of encv) s))).
Proof.
  intros Ho encv s. unfold spec_offset, codec_self in Ho.
  unfold run_fun, f_client_num_units, codec_self. pysimp.
  unfold enc_of, client_num_units.
  destruct (py_eq encv (VStr s_utf32)); pysimp; [reflexivity|].
  destruct (py_eq encv (VStr s_utf8)); pysimp.
  - rewrite (Ho encv s). pysimp. f_equal. f_equal. lia.
  - rewrite (Ho encv s). pysimp. f_equal. f_equal. lia.
Qed.

Lemma cnu_ok f d : spec_cnu (mk_call prog f (S (S (S d)))).
Proof.
  intros encv s. enter f_client_num_units. apply cnu_ok_gen, offset_ok.
Qed.

(* ---------- position_to_client_units ---------- *)

Lemma to_ok_gen call f : spec_cnu call -> forall encv lines p,
  run_fun call f f_position_to_client_units (Some (codec_self encv)) [py_lines lines; py_pos p] [] =
  Ok (py_pos (fst (position_to_client_units (enc_of encv) lines p))).
Proof.
  intros Hc encv lines [l ch]. unfold spec_cnu, codec_self in Hc.
  unfold run_fun, f_position_to_client_units, codec_self, py_lines, py_pos, position_to_client_units.
  pysimp. destruct (len lines <=? l)%N eqn:E.
  - rewrite subscript_lines_out by lia. pysimp. rewrite len_map. reflexivity.
  - rewrite subscript_lines by lia. pysimp. rewrite clamp_idx_ofN.
    rewrite Hc. pysimp. reflexivity.
Qed.

(* ---------- position_from_client_units ---------- *)

(* the locals of position_from_client_units that the loop invariant speaks of, under the names the
   translator gives them (order of first assignment; see the `locals:` comment in Gen/AstCodec.v) *)
Notation v_line := "$1" (only parsing).            (* _line *)
Notation v_utf32_len := "$3" (only parsing).       (* _utf32_len *)
Notation v_character := "$5" (only parsing).       (* character *)
Notation v_client_index := "$6" (only parsing).    (* _client_index *)
Notation v_utf32_index := "$7" (only parsing).     (* utf32_index *)

(* the loop invariant: what the locals hold when `pre` has been walked and `chars` remain *)
Definition walk_inv (self pos : val) (line : list N) (target : N) (pre chars : list N) (ci ui : N)
           (env : list (string * val)) : Prop :=
  line = (pre ++ chars)%list /\ ui = len pre /\
  get v_client_index env = Some (VInt (Z.of_N ci)) /\
  get v_utf32_index env = Some (VInt (Z.of_N ui)) /\
  get v_character env = Some (VInt (Z.of_N target)) /\
  get v_line env = Some (VStr line) /\
  get v_utf32_len env = Some (VInt (Z.of_N (len line))) /\
  get "self" env = Some self /\
  get "position" env = Some pos.

(* what the statements after the loop need *)
Definition walk_done (pos : val) (ui : N) (env : list (string * val)) : Prop :=
  get v_utf32_index env = Some (VInt (Z.of_N ui)) /\ get "position" env = Some pos.

(* ANY loop whose condition is true and whose body advances the invariant like Codec.walk, or
   breaks, computes Codec.walk; fuel: one more than the characters that remain *)
Lemma walk_loop_gen (cond : list (string * val) -> res val) (body : list (string * val) -> outcome)
      self pos line target e :
  (forall env, cond env = Ok (VBool true)) ->
  (forall env pre chars ci ui, walk_inv self pos line target pre chars ci ui env ->
     match chars with
     | c :: r =>
       if (ci <? target)%N
       then normal_with (walk_inv self pos line target (pre ++ [c])%list r (ci + loop_width e c)%N (ui + 1)%N)
                        (body env)
       else break_with (walk_done pos ui) (body env)
     | [] => break_with (walk_done pos ui) (body env)
     end) ->
  forall chars pre env ci ui n, walk_inv self pos line target pre chars ci ui env ->
    (length chars < n)%nat ->
    normal_with (walk_done pos (walk e chars target ci ui)) (while_loop cond body n env).
Proof.
  intros Hcond Hbody. induction chars as [|c r IH]; intros pre env ci ui n Hinv Hn.
  - destruct n as [|n]; [cbn [length] in Hn; lia|]. cbn [while_loop walk]. rewrite Hcond. cbn [truthy].
    pose proof (Hbody _ _ _ _ _ Hinv) as Hs. cbv beta iota in Hs.
    destruct (body env); try contradiction. exact Hs.
  - destruct n as [|n]; [cbn [length] in Hn; lia|]. cbn [while_loop walk]. rewrite Hcond. cbn [truthy].
    pose proof (Hbody _ _ _ _ _ Hinv) as Hs. cbv beta iota in Hs.
    destruct (ci <? target)%N.
    + destruct (body env); try contradiction. apply (IH _ _ _ _ n Hs). cbn [length] in Hn. lia.
    + destruct (body env); try contradiction. exact Hs.
Qed.

Lemma from_nonempty e lines l ch : lines <> [] ->
  fst (position_from_client_units e lines (l, ch)) =
  if (len lines <=? l)%N then ((len lines - 1)%N, client_num_units e (last_line lines))
  else let line := replace_crlf (nth (N.to_nat l) lines []) in
       if (client_num_units e line =? 0)%N then (l, 0%N)
       else (l, walk e line (N.min ch (client_num_units e (rstrip_eol line))) 0 0).
Proof.
  intros H. destruct lines as [|x r]; [congruence|]. unfold position_from_client_units.
  destruct (len (x :: r) <=? l)%N; [reflexivity|]. cbv zeta.
  destruct (client_num_units e (replace_crlf (nth (N.to_nat l) (x :: r) [])) =? 0)%N; reflexivity.
Qed.

Lemma from_ok_gen call f : spec_cnu call -> spec_is_char call -> forall encv lines p,
  (length (nth (N.to_nat (fst p)) lines []) < f)%nat ->
  run_fun call f f_position_from_client_units (Some (codec_self encv)) [py_lines lines; py_pos p] [] =
  Ok (py_pos (fst (position_from_client_units (enc_of encv) lines p))).
Proof.
  intros Hc Hi encv lines [l ch] Hf. cbn [fst] in Hf.
  unfold spec_cnu, spec_is_char, codec_self in Hc, Hi.
  unfold run_fun, f_position_from_client_units, codec_self, py_lines, py_pos.
  pybind.
  (* if len(lines) == 0 *)
  pystep. rewrite !len_map.
  destruct (Z.of_N (len lines) =? 0) eqn:E0.
  { assert (lines = []) by (apply len_zero; lia). subst lines. reflexivity. }
  assert (lines <> []) as Hne by (intros ->; change (len (@nil (list N))) with 0%N in E0; lia).
  rewrite (from_nonempty _ _ _ _ Hne). cbv beta iota.
  (* if position.line >= len(lines) *)
  pystep. rewrite !len_map.
  destruct (len lines <=? l)%N eqn:E1.
  { replace (Z.of_N (len lines) <=? Z.of_N l) with true by lia.
    rewrite (subscript_lines_last _ Hne). pyexpr. rewrite Hc. pyexpr.
    unfold last_line. do 5 f_equal. lia. }
  replace (Z.of_N (len lines) <=? Z.of_N l) with false by lia. cbv beta iota.
  (* _line = lines[position.line]; .replace; _client_len; _utf32_len *)
  pystep. rewrite subscript_lines by lia. cbv beta iota.
  pystep. pystep. rewrite Hc. cbv beta iota. pystep.
  remember (replace_crlf (nth (N.to_nat l) lines [])) as line eqn:Eline.
  cbv zeta.
  (* if _client_len == 0 *)
  pystep.
  destruct (client_num_units (enc_of encv) line =? 0)%N eqn:E2.
  { replace (Z.of_N (client_num_units (enc_of encv) line) =? 0) with true by lia. reflexivity. }
  replace (Z.of_N (client_num_units (enc_of encv) line) =? 0) with false by lia. cbv beta iota.
  (* _client_end_of_line, character = min(..), the two indices *)
  pystep. rewrite Hc. cbv beta iota.
  pystep. pystep. pystep.
  rewrite <- N2Z.inj_min.
  set (target := N.min ch (client_num_units (enc_of encv) (rstrip_eol line))).
  (* the loop *)
  pyunhide. rewrite exec_block_cons, exec_while.
  match goal with |- context[while_loop ?cond ?body f ?env0] =>
    assert (normal_with
              (walk_done (VObj "Position" [("line", VInt (Z.of_N l)); ("character", VInt (Z.of_N ch))])
                         (walk (enc_of encv) line target 0 0))
              (while_loop cond body f env0)) as Hloop;
    [ apply (walk_loop_gen cond body (VObj "PositionCodec" [("encoding", encv)])
               (VObj "Position" [("line", VInt (Z.of_N l)); ("character", VInt (Z.of_N ch))])
               line target (enc_of encv)) with (pre := @nil N)
    | destruct (while_loop cond body f env0) as [env'| | | | | |]; try contradiction ]
  end.
  - (* the condition *) intros env. reflexivity.
  - (* one iteration *)
    intros env pre chars ci ui (Hl & Hui & G1 & G2 & G3 & G4 & G5 & G6 & G7).
    assert (len line = (len pre + len chars)%N) as Hlen by (rewrite Hl; apply len_app).
    cbv beta.
    pystep_env. pystep_env. pystep_env.
    destruct chars as [|c r].
    + change (len (@nil N)) with 0%N in Hlen.
      replace (Z.of_N ui <? Z.of_N (len line)) with false by lia.
      destruct (Z.of_N ci <? Z.of_N target); cbv beta iota; pystep_env; split; pyexpr; assumption.
    + rewrite len_cons' in Hlen.
      replace (Z.of_N ui <? Z.of_N (len line)) with true by lia.
      destruct (ci <? target)%N eqn:Q1.
      2: { replace (Z.of_N ci <? Z.of_N target) with false by lia. cbv beta iota.
           pystep_env. split; pyexpr; assumption. }
      replace (Z.of_N ci <? Z.of_N target) with true by lia. cbv beta iota.
      (* if not _is_searching_for_position: break *)
      pystep_env.
      (* _current_char = _line[utf32_index]; _is_double_width = ...(_current_char) *)
      pystep_env.
      replace (py_subscript (VStr line) (VInt (Z.of_N ui))) with (Ok (VStr [c]))
        by (rewrite Hl, Hui; symmetry; apply subscript_str_mid).
      cbv beta iota.
      pystep_env. erewrite Hi by reflexivity. cbv beta iota.
      (* if _is_double_width: ... *)
      pystep_env. unfold loop_width, enc_of.
      destruct (astral c);
        [ destruct (py_eq encv (VStr s_utf32)); [|destruct (py_eq encv (VStr s_utf8))] |].
      all: cbv beta iota; pystep_env; pyfinish.
      all: unfold normal_with, walk_inv; pyexpr; rewrite ?G3, ?G4, ?G5, ?G6, ?G7.
      all: repeat split; try reflexivity.
      all: try (rewrite <- app_assoc; exact Hl).
      all: try (rewrite len_app, (len_cons' c []); change (len (@nil N)) with 0%N; lia).
      all: do 2 f_equal; lia.
  - (* the invariant holds on entry *) unfold walk_inv. pyexpr. repeat split; reflexivity.
  - (* fuel *) pose proof (replace_crlf_length (nth (N.to_nat l) lines [])). subst line. lia.
  - (* after the loop *)
    destruct Hloop as [Hu Hp]. cbv beta iota.
    pystep_env. pystep_env. reflexivity.
Qed.

(* ------------------------------------------------------------------------------------ *)
(* The theorems: running the translated source = the hand model, for all inputs.         *)
(* `run prog fuel depth q (Some receiver) args`: fuel bounds the iterations of each      *)
(* `while`, depth the nesting of calls between the translated functions.                 *)

Lemma depth_ge n d : (n <= d)%nat -> exists d', d = (n + d')%nat.
Proof. intros H. exists (d - n)%nat. lia. Qed.

Theorem ast_is_char_equiv f d r cl c : (1 <= d)%nat -> class_of r = Some cl ->
  run prog f d q_is_char (Some r) [VStr [c]] = Ok (VBool (astral c)).
Proof. intros Hd Hr. destruct (depth_ge 1 d Hd) as [d' ->]. exact (is_char_ok f d' r cl c Hr). Qed.

Theorem ast_utf16_unit_offset_equiv f d encv s : (2 <= d)%nat ->
  run prog f d q_offset (Some (codec_self encv)) [VStr s] = Ok (VInt (Z.of_N (count_astral s))).
Proof. intros Hd. destruct (depth_ge 2 d Hd) as [d' ->]. exact (offset_ok f d' encv s). Qed.

Theorem ast_client_num_units_equiv f d encv s : (3 <= d)%nat ->
  run prog f d q_cnu (Some (codec_self encv)) [VStr s] =
  Ok (VInt (Z.of_N (client_num_units (enc_of encv) s))).
Proof. intros Hd. destruct (depth_ge 3 d Hd) as [d' ->]. exact (cnu_ok f d' encv s). Qed.

(* fuel: one more than the length of the addressed line (any fuel when the line does not exist) *)
Theorem ast_position_from_equiv f d encv lines p : (4 <= d)%nat ->
  (length (nth (N.to_nat (fst p)) lines []) < f)%nat ->
  run prog f d q_from (Some (codec_self encv)) [py_lines lines; py_pos p] =
  Ok (py_pos (fst (position_from_client_units (enc_of encv) lines p))).
Proof.
  intros Hd Hf. destruct (depth_ge 4 d Hd) as [d' ->]. unfold run. cbn [Nat.add].
  enter f_position_from_client_units.
  apply from_ok_gen; [apply cnu_ok | apply (is_char_ok f (S (S d'))) | exact Hf].
Qed.

Theorem ast_position_to_equiv f d encv lines p : (4 <= d)%nat ->
  run prog f d q_to (Some (codec_self encv)) [py_lines lines; py_pos p] =
  Ok (py_pos (fst (position_to_client_units (enc_of encv) lines p))).
Proof.
  intros Hd. destruct (depth_ge 4 d Hd) as [d' ->]. unfold run. cbn [Nat.add].
  enter f_position_to_client_units. apply to_ok_gen, cnu_ok.
Qed.

(* the same for the model's own three encodings *)
Corollary ast_codec_equiv_enum e lines p s f d : (4 <= d)%nat ->
  (length (nth (N.to_nat (fst p)) lines []) < f)%nat ->
  run prog f d q_cnu (Some (codec_self (enc_val e))) [VStr s] = Ok (VInt (Z.of_N (client_num_units e s))) /\
  run prog f d q_from (Some (codec_self (enc_val e))) [py_lines lines; py_pos p] =
    Ok (py_pos (fst (position_from_client_units e lines p))) /\
  run prog f d q_to (Some (codec_self (enc_val e))) [py_lines lines; py_pos p] =
    Ok (py_pos (fst (position_to_client_units e lines p))).
Proof.
  intros Hd Hf.
  pose proof (ast_client_num_units_equiv f d (enc_val e) s) as H1.
  pose proof (ast_position_from_equiv f d (enc_val e) lines p Hd Hf) as H2.
  pose proof (ast_position_to_equiv f d (enc_val e) lines p Hd) as H3.
  rewrite (enc_of_val e) in H1, H2, H3. split; [apply H1; lia|]. split; assumption.
Qed.

(* the fuel bound is not vacuous, and is needed: with less fuel the run does not finish *)
Example ast_from_example :
  run prog 4 4 q_from (Some (codec_self (enc_val Utf16)))
      [py_lines [[97; 0x1F60B; 98; 13; 10]; [99]]%N; py_pos (0, 3)%N] = Ok (py_pos (0, 2)%N) /\
  run prog 2 4 q_from (Some (codec_self (enc_val Utf16)))
      [py_lines [[97; 0x1F60B; 98; 13; 10]; [99]]%N; py_pos (0, 3)%N] = Stuck "out of fuel".
Proof. split; vm_compute; reflexivity. Qed.

(* all five in one statement (one `Print Assumptions` per run) *)
Definition ast_codec_equiv_statement : Prop :=
  (forall f d r cl c, (1 <= d)%nat -> class_of r = Some cl ->
     run prog f d q_is_char (Some r) [VStr [c]] = Ok (VBool (astral c))) /\
  (forall f d encv s, (2 <= d)%nat ->
     run prog f d q_offset (Some (codec_self encv)) [VStr s] = Ok (VInt (Z.of_N (count_astral s)))) /\
  (forall f d encv s, (3 <= d)%nat ->
     run prog f d q_cnu (Some (codec_self encv)) [VStr s] =
     Ok (VInt (Z.of_N (client_num_units (enc_of encv) s)))) /\
  (forall f d encv lines p, (4 <= d)%nat -> (length (nth (N.to_nat (fst p)) lines []) < f)%nat ->
     run prog f d q_from (Some (codec_self encv)) [py_lines lines; py_pos p] =
     Ok (py_pos (fst (position_from_client_units (enc_of encv) lines p)))) /\
  (forall f d encv lines p, (4 <= d)%nat ->
     run prog f d q_to (Some (codec_self encv)) [py_lines lines; py_pos p] =
     Ok (py_pos (fst (position_to_client_units (enc_of encv) lines p)))).

Theorem ast_codec_equiv : ast_codec_equiv_statement.
Proof.
  repeat split; intros.
  - eapply ast_is_char_equiv; eassumption.
  - apply ast_utf16_unit_offset_equiv; assumption.
  - apply ast_client_num_units_equiv; assumption.
  - apply ast_position_from_equiv; assumption.
  - apply ast_position_to_equiv; assumption.
Qed.

(* ------------------------------------------------------------------------------------ *)
(* The range wrappers, and the same facts for ANY program that contains the translated   *)
(* codec functions (so that another translated module - text_document.py - can be linked *)
(* with them: Proofs/AstDocEquiv.v).                                                     *)

Notation q_range_from := ["PositionCodec"; "range_from_client_units"] (only parsing).
Notation q_range_to := ["PositionCodec"; "range_to_client_units"] (only parsing).

Definition py_range (r : (N * N) * (N * N)) : val :=
  VObj "Range" [("start", py_pos (fst r)); ("end", py_pos (snd r))].

(* enough fuel for the walk on every line *)
Definition lines_fuel (f : nat) (lines : list (list N)) : Prop :=
  forall l : nat, (length (nth l lines []) < f)%nat.

Definition spec_from (call : callT) (f : nat) : Prop := forall encv lines p, lines_fuel f lines ->
  call q_from (Some (codec_self encv)) [py_lines lines; py_pos p] [] =
  Ok (py_pos (fst (position_from_client_units (enc_of encv) lines p))).

Definition spec_to (call : callT) : Prop := forall encv lines p,
  call q_to (Some (codec_self encv)) [py_lines lines; py_pos p] [] =
  Ok (py_pos (fst (position_to_client_units (enc_of encv) lines p))).

Definition spec_range_from (call : callT) (f : nat) : Prop := forall encv lines r, lines_fuel f lines ->
  call q_range_from (Some (codec_self encv)) [py_lines lines; py_range r] [] =
  Ok (py_range (fst (range_from_client_units (enc_of encv) lines r))).

Lemma range_from_ok_gen call f : spec_from call f -> forall encv lines r, lines_fuel f lines ->
  run_fun call f f_range_from_client_units (Some (codec_self encv)) [py_lines lines; py_range r] [] =
  Ok (py_range (fst (range_from_client_units (enc_of encv) lines r))).
Proof.
  intros Hs encv lines [s t] Hf. unfold spec_from, codec_self, py_lines, py_pos in Hs.
  unfold run_fun, f_range_from_client_units, codec_self, py_lines, py_range, py_pos, range_from_client_units.
  pysimp. rewrite (Hs encv lines s Hf). pysimp. rewrite (Hs encv lines t Hf). pysimp. reflexivity.
Qed.

Lemma range_to_ok_gen call f : spec_to call -> forall encv lines r,
  run_fun call f f_range_to_client_units (Some (codec_self encv)) [py_lines lines; py_range r] [] =
  Ok (py_range (fst (range_to_client_units (enc_of encv) lines r))).
Proof.
  intros Hs encv lines [s t]. unfold spec_to, codec_self, py_lines, py_pos in Hs.
  unfold run_fun, f_range_to_client_units, codec_self, py_lines, py_range, py_pos, range_to_client_units.
  pysimp. rewrite (Hs encv lines s). pysimp. rewrite (Hs encv lines t). pysimp. reflexivity.
Qed.

Section Linked.
Variable P : list fundef.
Hypothesis F1 : find_def q_is_char P = Some f_is_char_beyond_multilingual_plane.
Hypothesis F2 : find_def q_offset P = Some f_utf16_unit_offset.
Hypothesis F3 : find_def q_cnu P = Some f_client_num_units.
Hypothesis F4 : find_def q_from P = Some f_position_from_client_units.
Hypothesis F5 : find_def q_to P = Some f_position_to_client_units.
Hypothesis F6 : find_def q_range_from P = Some f_range_from_client_units.
Hypothesis F7 : find_def q_range_to P = Some f_range_to_client_units.

Lemma linked_is_char f d : spec_is_char (mk_call P f (S d)).
Proof.
  intros r cl c Hr. rewrite (mk_call_S P f d _ _ _ _ _ F1).
  generalize (mk_call P f d); intros call.
  unfold run_fun, f_is_char_beyond_multilingual_plane. pysimp. rewrite Hr. pysimp.
  unfold astral. f_equal. f_equal. lia.
Qed.

Lemma linked_offset f d : spec_offset (mk_call P f (S (S d))).
Proof.
  intros encv s. rewrite (mk_call_S P f (S d) _ _ _ _ _ F2).
  pose proof (linked_is_char f d) as Hc. revert Hc. generalize (mk_call P f (S d)); intros call Hc.
  unfold run_fun, f_utf16_unit_offset, codec_self. pysimp.
  rewrite (sum_chars_count _ astral).
  - reflexivity.
  - intros c. apply (Hc _ (VGlobal ["PositionCodec"])). reflexivity.
Qed.

Lemma linked_cnu f d : spec_cnu (mk_call P f (S (S (S d)))).
Proof.
  intros encv s. rewrite (mk_call_S P f (S (S d)) _ _ _ _ _ F3). apply cnu_ok_gen, linked_offset.
Qed.

Lemma linked_from f d : spec_from (mk_call P f (S (S (S (S d))))) f.
Proof.
  intros encv lines p Hf. rewrite (mk_call_S P f (S (S (S d))) _ _ _ _ _ F4).
  apply from_ok_gen; [apply linked_cnu | apply (linked_is_char f (S (S d))) | apply Hf].
Qed.

Lemma linked_to f d : spec_to (mk_call P f (S (S (S (S d))))).
Proof.
  intros encv lines p. rewrite (mk_call_S P f (S (S (S d))) _ _ _ _ _ F5). apply to_ok_gen, linked_cnu.
Qed.

Lemma linked_range_from f d : spec_range_from (mk_call P f (S (S (S (S (S d)))))) f.
Proof.
  intros encv lines r Hf. rewrite (mk_call_S P f (S (S (S (S d)))) _ _ _ _ _ F6).
  apply range_from_ok_gen; [apply linked_from | apply Hf].
Qed.

Lemma linked_range_to f d encv lines r :
  mk_call P f (S (S (S (S (S d))))) q_range_to (Some (codec_self encv)) [py_lines lines; py_range r] [] =
  Ok (py_range (fst (range_to_client_units (enc_of encv) lines r))).
Proof. rewrite (mk_call_S P f (S (S (S (S d)))) _ _ _ _ _ F7). apply range_to_ok_gen, linked_to. Qed.

End Linked.

Theorem ast_range_equiv f d encv lines r : (5 <= d)%nat -> lines_fuel f lines ->
  run prog f d q_range_from (Some (codec_self encv)) [py_lines lines; py_range r] =
    Ok (py_range (fst (range_from_client_units (enc_of encv) lines r))) /\
  run prog f d q_range_to (Some (codec_self encv)) [py_lines lines; py_range r] =
    Ok (py_range (fst (range_to_client_units (enc_of encv) lines r))).
Proof.
  intros Hd Hf. destruct (depth_ge 5 d Hd) as [d' ->]. unfold run. cbn [Nat.add]. split.
  - apply (linked_range_from prog eq_refl eq_refl eq_refl eq_refl eq_refl); assumption.
  - apply (linked_range_to prog eq_refl eq_refl eq_refl eq_refl eq_refl).
Qed.
