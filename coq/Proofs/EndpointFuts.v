(* Proofs/EndpointFuts.v - well-formedness of the in-flight table `_request_futures` (shared by C08
   and C16), for EVERY configuration and EVERY event list (no guard, no distinctness of ids):

     FW s :  the keys of futs are pairwise distinct, and an entry  k |-> FTask t  (resp. FJob j)
             points to a task (job) whose done-callback is the request callback OF THAT SAME ID k
             and which is still in flight: not TFin (resp. queued or running).

   Consequences: a cancel or shutdown reaches a handler only through the key of its own request;
   once the callback of a request has run its entry is gone; at quiescence no FTask / FJob entry
   is left (fw_quiescent). *)
From Coq Require Import ZArith NArith List Bool Lia Arith.
From Pygls Require Import Base.Assoc Base.AssocFacts Model.Endpoint Spec.EndpointSpec Proofs.EndpointInv.
Import ListNotations.

Definition ref_ok (s : st) (k : id) (r : fref) : Prop :=
  match r with
  | FTask t => exists tk, nth_error (tasks s) t = Some tk /\ t_cb tk = CReq k /\ forall x, t_st tk <> TFin x
  | FJob j => exists jb, nth_error (jobs s) j = Some jb /\ j_cb jb = CReq k /\
                         (j_st jb = JQueued \/ j_st jb = JRunning)
  | FOut _ => True
  end.

Definition FW (s : st) : Prop :=
  NoDup (keys (futs s)) /\ forall k r, In (k, r) (futs s) -> ref_ok s k r.

Lemma fw_init : FW init.
Proof. split; [constructor|intros k r []]. Qed.

(* ------------------------------------------------------------------ what the writers leave alone *)
Definition same3 (s s' : st) : Prop := futs s' = futs s /\ tasks s' = tasks s /\ jobs s' = jobs s.

Lemma fw_same3 : forall s s', same3 s s' -> FW s -> FW s'.
Proof.
  intros s s' (E1 & E2 & E3) (ND & H). unfold FW, ref_ok. rewrite E1, E2, E3. split; [exact ND|exact H].
Qed.

Lemma same3_hook : forall c sv src s, same3 s (hook c sv src s).
Proof.
  intros [w h f] sv src s. destruct s.
  destruct w, h, sv, src; unfold same3, hook, write_call, do_write, failing, add_out, add_wq, add_err, snoc; cbn;
  repeat match goal with |- context [if ?b then _ else _] => destruct b; cbn end; repeat split; reflexivity.
Qed.

Lemma same3_send_response : forall c sv i r s, same3 s (send_response c sv i r s).
Proof.
  intros [w h f] sv i r s. destruct s.
  destruct w, h, sv, r as [code|v [|]]; unfold same3, send_response, send_data, hook, write_call, do_write, failing,
    rtype_pop, add_out, add_wq, add_err, snoc; cbn;
  repeat match goal with |- context [if ?b then _ else _] => destruct b; cbn end; repeat split; reflexivity.
Qed.

Lemma frame_run_cb : forall c sv cb r s,
  tasks (run_cb c sv cb r s) = tasks s /\ jobs (run_cb c sv cb r s) = jobs s /\
  futs (run_cb c sv cb r s) = match cb with CReq i => Assoc.remove id_eqb i (futs s) | CNot => futs s end.
Proof.
  intros [w h f] sv cb r s. destruct s.
  destruct w, h, sv, cb, r; unfold run_cb, request_callback, notification_callback, send_response, send_data, hook,
    write_call, do_write, failing, fut_pop, rtype_pop, add_out, add_wq, add_err, snoc; cbn;
  repeat match goal with |- context [if ?b then _ else _] => destruct b; cbn end; repeat split; reflexivity.
Qed.

Lemma same3_send_req : forall c i s, same3 s (fst (send_data c Loop (OReq i) true s)).
Proof.
  intros [w h f] i s. destruct s.
  destruct w, h; unfold same3, send_data, hook, write_call, do_write, failing, add_out, add_wq, add_err, snoc; cbn;
  repeat match goal with |- context [if ?b then _ else _] => destruct b; cbn end; repeat split; reflexivity.
Qed.

Lemma same3_log : forall w p ph sv s, same3 s (log w p ph sv s).
Proof. intros. repeat split. Qed.

Lemma same3_trans : forall s1 s2 s3, same3 s1 s2 -> same3 s2 s3 -> same3 s1 s3.
Proof. intros s1 s2 s3 (A1 & A2 & A3) (B1 & B2 & B3). repeat split; congruence. Qed.

(* ------------------------------------------------------------------ list bookkeeping *)
Lemma nth_error_snoc_old : forall (A : Type) (l : list A) x n y,
  nth_error l n = Some y -> nth_error (snoc l x) n = Some y.
Proof.
  intros A l x n y H. unfold snoc. rewrite nth_error_app1; [exact H|].
  apply nth_error_Some. rewrite H. discriminate.
Qed.

Lemma nth_error_snoc_new : forall (A : Type) (l : list A) x, nth_error (snoc l x) (length l) = Some x.
Proof. intros. unfold snoc. rewrite nth_error_app2 by lia. rewrite Nat.sub_diag. reflexivity. Qed.

Lemma nth_error_upd_same : forall (A : Type) (g : A -> A) l t x,
  nth_error l t = Some x -> nth_error (upd_nth t g l) t = Some (g x).
Proof.
  intros A g l. induction l as [|y r IH]; intros t x H; [destruct t; discriminate|].
  destruct t as [|t]; cbn [nth_error upd_nth] in *; [inversion H; reflexivity|apply IH; exact H].
Qed.

Lemma nth_error_upd_other : forall (A : Type) (g : A -> A) l t t',
  t' <> t -> nth_error (upd_nth t g l) t' = nth_error l t'.
Proof.
  intros A g l. induction l as [|y r IH]; intros t t' H; [destruct t; reflexivity|].
  destruct t as [|t]; destruct t' as [|t']; cbn [nth_error upd_nth]; try reflexivity; try congruence.
  apply IH. congruence.
Qed.

(* changing the state of task t to something that is not TFin keeps every reference valid *)
Lemma ref_ok_set_task : forall s t x k r, (forall y, x <> TFin y) -> ref_ok s k r -> ref_ok (set_task_st t x s) k r.
Proof.
  intros s t x k r NF H. destruct r as [t'|j|o]; cbn [ref_ok] in *; [|exact H|exact I].
  destruct H as (tk & N & C & F). unfold set_task_st. proj.
  destruct (Nat.eq_dec t' t) as [E|E].
  - subst t'. eexists. split; [apply nth_error_upd_same; exact N|]. cbn. split; [exact C|exact NF].
  - exists tk. rewrite nth_error_upd_other by exact E. repeat split; assumption.
Qed.

Lemma fw_set_task_live : forall s t x, (forall y, x <> TFin y) -> FW s -> FW (set_task_st t x s).
Proof.
  intros s t x NF (ND & H). split; [exact ND|]. intros k r HI. apply ref_ok_set_task; [exact NF|apply H; exact HI].
Qed.

Lemma ref_ok_new_task : forall s w p cb b n k r, ref_ok s k r -> ref_ok (new_task w p cb b n s) k r.
Proof.
  intros s w p cb b n k r H. destruct r as [t|j|o]; cbn [ref_ok] in *; [|exact H|exact I].
  destruct H as (tk & N & C & F). exists tk. unfold new_task. proj. split; [apply nth_error_snoc_old; exact N|split; assumption].
Qed.

Lemma ref_ok_new_job : forall s w p cb b x k r, ref_ok s k r -> ref_ok (new_job w p cb b x s) k r.
Proof.
  intros s w p cb b x k r H. destruct r as [t|j|o]; cbn [ref_ok] in *; [exact H| |exact I].
  destruct H as (jb & N & C & F). exists jb. unfold new_job. proj. split; [apply nth_error_snoc_old; exact N|split; assumption].
Qed.

(* popping key i after the future with callback CReq i left the in-flight states *)
Lemma fw_pop_task : forall s s' t tk i x,
  FW s -> nth_error (tasks s) t = Some tk -> t_cb tk = CReq i ->
  tasks s' = tasks (set_task_st t x s) -> jobs s' = jobs s -> futs s' = Assoc.remove id_eqb i (futs s) ->
  FW s'.
Proof.
  intros s s' t tk i x (ND & H) N C E1 E2 E3. split.
  - rewrite E3. apply nodup_remove. exact ND.
  - intros k r HI. rewrite E3 in HI.
    pose proof (in_remove_neq id_eqb id_eqb_spec _ _ _ _ ND HI) as NE.
    apply in_remove in HI. specialize (H k r HI).
    destruct r as [t'|j|o]; cbn [ref_ok] in *; [| |exact I].
    + destruct H as (tk' & N' & C' & F'). rewrite E1. unfold set_task_st. proj.
      destruct (Nat.eq_dec t' t) as [E|E].
      * subst t'. rewrite N in N'. inversion N'. subst tk'. rewrite C in C'. inversion C'. congruence.
      * exists tk'. rewrite nth_error_upd_other by exact E. repeat split; assumption.
    + rewrite E2. exact H.
Qed.

Lemma fw_pop_job : forall s s' j jb x,
  FW s -> nth_error (jobs s) j = Some jb ->
  tasks s' = tasks s -> jobs s' = jobs (set_job_st j x s) ->
  futs s' = match j_cb jb with CReq i => Assoc.remove id_eqb i (futs s) | CNot => futs s end ->
  FW s'.
Proof.
  intros s s' j jb x (ND & H) N E1 E2 E3.
  assert (OTHER : forall k r, In (k, r) (futs s) -> (forall i, j_cb jb = CReq i -> k <> i) -> ref_ok s' k r).
  { intros k r HI NE. specialize (H k r HI).
    destruct r as [t|j'|o]; cbn [ref_ok] in *; [rewrite E1; exact H| |exact I].
    destruct H as (jb' & N' & C' & F'). rewrite E2. unfold set_job_st. proj.
    destruct (Nat.eq_dec j' j) as [E|E].
    - subst j'. rewrite N in N'. inversion N'. subst jb'. exfalso. apply (NE k C'). reflexivity.
    - exists jb'. rewrite nth_error_upd_other by exact E. repeat split; assumption. }
  destruct (j_cb jb) as [i|] eqn:C.
  - split.
    + rewrite E3. apply nodup_remove. exact ND.
    + intros k r HI. rewrite E3 in HI.
      pose proof (in_remove_neq id_eqb id_eqb_spec _ _ _ _ ND HI) as NE. apply in_remove in HI.
      apply OTHER; [exact HI|]. intros i' Hi'. inversion Hi'. subst. exact NE.
  - split; [rewrite E3; exact ND|]. intros k r HI. rewrite E3 in HI. apply OTHER; [exact HI|]. intros i' Hi'. discriminate.
Qed.

(* ------------------------------------------------------------------ the functions of the model *)
Lemma fw_run_cb_not : forall c sv r s, FW s -> FW (run_cb c sv CNot r s).
Proof.
  intros c sv r s F. destruct (frame_run_cb c sv CNot r s) as (E1 & E2 & E3).
  apply (fw_same3 s); [repeat split; assumption|exact F].
Qed.

Lemma fw_cancel_ref : forall c r s, FW s -> FW (cancel_ref c r s).
Proof.
  intros c r s F. unfold cancel_ref. destruct r as [t|j|o].
  - destruct (nth_error (tasks s) t) as [tk|]; [|exact F]. destruct (t_st tk); try exact F.
    apply fw_set_task_live; [discriminate|exact F].
  - destruct (nth_error (jobs s) j) as [jb|] eqn:N; [|exact F]. destruct (j_st jb) eqn:J; try exact F.
    destruct (frame_run_cb c Loop (j_cb jb) RCancelled (set_job_st j JCancelled s)) as (E1 & E2 & E3).
    eapply (fw_pop_job s _ j jb JCancelled F N); [exact E1|exact E2|exact E3].
  - destruct (nth_error (outg s) o) as [[| |]|]; exact F.
Qed.

Lemma fw_fut_set : forall s i r, FW s -> ref_ok s i r -> FW (fut_set i r s).
Proof.
  intros s i r (ND & H) R. split.
  - unfold fut_set. proj. apply nodup_set; [exact id_eqb_spec|exact ND].
  - intros k r' HI. unfold fut_set in HI. cbn [futs set_futs] in HI.
    assert (Q : forall k0 r0, ref_ok s k0 r0 -> ref_ok (fut_set i r s) k0 r0) by (intros k0 [?|?|?] Q; exact Q).
    apply Q. destruct (in_set id_eqb id_eqb_spec _ _ _ _ _ HI) as [[E1 E2]|HI']; [subst; exact R|apply H; exact HI'].
Qed.

Lemma fw_new_task : forall s w p cb b n, FW s -> FW (new_task w p cb b n s).
Proof. intros s w p cb b n (ND & H). split; [exact ND|]. intros k r HI. apply ref_ok_new_task. apply H. exact HI. Qed.

Lemma fw_new_job : forall s w p cb b x, FW s -> FW (new_job w p cb b x s).
Proof. intros s w p cb b x (ND & H). split; [exact ND|]. intros k r HI. apply ref_ok_new_job. apply H. exact HI. Qed.

Lemma fw_log : forall w p ph sv s, FW s -> FW (log w p ph sv s).
Proof. intros. apply (fw_same3 s); [apply same3_log|assumption]. Qed.

Lemma fw_execute_request : forall c i p b s, FW s -> FW (fst (execute_request c i p b s)).
Proof.
  intros c i p b s F. unfold execute_request. destruct (bkind b) as [|n|early]; cbn [fst].
  - assert (F1 : FW (log (WReq i) p HEnd Loop (log (WReq i) p HStart Loop s))) by (apply fw_log, fw_log; exact F).
    destruct (bout b); cbn [fst]; try exact F1; (eapply fw_same3; [apply same3_send_response|exact F1]).
  - apply fw_fut_set; [apply fw_new_task; exact F|].
    cbn [ref_ok]. eexists. unfold new_task. proj. split; [apply nth_error_snoc_new|]. cbn. split; [reflexivity|discriminate].
  - unfold submit. destruct early.
    + set (r := res_of (bout b)).
      set (s0 := new_job (WReq i) p (CReq i) b (JDone r) s).
      set (s1 := log (WReq i) p HEnd Pool (log (WReq i) p HStart Pool s0)).
      (* the entry is set and popped again within the same call *)
      destruct (frame_run_cb c Loop (CReq i) r (fut_set i (FJob (length (jobs s))) s1)) as (E1 & E2 & E3).
      assert (F0 : FW s0) by (apply fw_new_job; exact F).
      destruct F0 as (ND & H). split.
      * rewrite E3. apply nodup_remove. unfold fut_set. proj. apply nodup_set; [exact id_eqb_spec|exact ND].
      * intros k r' HI. rewrite E3 in HI.
        assert (ND1 : NoDup (keys (futs (fut_set i (FJob (length (jobs s))) s1)))).
        { unfold fut_set. proj. apply nodup_set; [exact id_eqb_spec|exact ND]. }
        pose proof (in_remove_neq id_eqb id_eqb_spec _ _ _ _ ND1 HI) as NE. apply in_remove in HI.
        unfold fut_set in HI. cbn [futs set_futs] in HI.
        destruct (in_set id_eqb id_eqb_spec _ _ _ _ _ HI) as [[Q1 Q2]|HI']; [congruence|].
        specialize (H k r' HI'). destruct r' as [t|j|o]; cbn [ref_ok] in *; [rewrite E1; exact H|rewrite E2; exact H|exact I].
    + apply fw_fut_set; [apply fw_new_job; exact F|].
      cbn [ref_ok]. eexists. unfold new_job. proj. split; [apply nth_error_snoc_new|]. cbn. split; [reflexivity|left; reflexivity].
Qed.

Lemma fw_exec_notification : forall c w p b s, FW s -> FW (fst (exec_notification c w p b s)).
Proof.
  intros c w p b s F. unfold exec_notification. destruct (bkind b) as [|n|early]; cbn [fst].
  - apply fw_log, fw_log. exact F.
  - apply fw_new_task. exact F.
  - unfold submit. destruct early.
    + apply fw_run_cb_not. apply fw_log, fw_log, fw_new_job. exact F.
    + apply fw_new_job. exact F.
Qed.

Lemma fw_chain : forall c w u s, FW s -> FW (chain c w u s).
Proof. intros c w u s F. unfold chain. destruct u; [apply fw_exec_notification|]; exact F. Qed.

Lemma fw_hook : forall c sv src s, FW s -> FW (hook c sv src s).
Proof. intros. eapply fw_same3; [apply same3_hook|assumption]. Qed.

Lemma fw_send_response : forall c sv i r s, FW s -> FW (send_response c sv i r s).
Proof. intros. eapply fw_same3; [apply same3_send_response|assumption]. Qed.

Lemma fw_on_exc : forall c i x s, FW s -> FW (on_exc c i x s).
Proof. intros c i x s F. unfold on_exc. destruct x as [[|code]|]; try exact F; apply fw_hook, fw_send_response; exact F. Qed.

Lemma fw_fold_cancel : forall c rs s, FW s -> FW (fold_left (fun s' r => cancel_ref c r s') rs s).
Proof. intros c rs. induction rs as [|r rs IH]; intros s F; cbn [fold_left]; [exact F|]. apply IH, fw_cancel_ref. exact F. Qed.

Lemma fw_handle_request : forall c i m s, FW s -> FW (handle_request c i m s).
Proof.
  intros c i m s F. unfold handle_request. destruct m as [|b|u|fails u|cmd u].
  - apply fw_hook, fw_send_response. exact F.
  - pose proof (fw_execute_request c i PUser b s F) as H. destruct (execute_request c i PUser b s) as [s1 x]. apply fw_on_exc. exact H.
  - apply fw_send_response, fw_chain, fw_log. unfold lsp_shutdown.
    eapply (fw_same3 (fold_left _ _ _)); [repeat split|]. apply fw_fold_cancel, fw_log. exact F.
  - destruct fails; [apply fw_on_exc|apply fw_send_response, fw_chain]; apply fw_log, fw_log; exact F.
  - destruct cmd as [b|].
    + pose proof (fw_execute_request c i PCommand b _ (fw_log (WReq i) PBuiltin HStart Loop s F)) as H.
      destruct (execute_request c i PCommand b (log (WReq i) PBuiltin HStart Loop s)) as [s2 x]. cbn [fst] in H.
      destruct x; [apply fw_on_exc|apply fw_chain]; apply fw_log; exact H.
    + apply fw_on_exc, fw_log, fw_log. exact F.
Qed.

Lemma fw_fut_pop : forall i s, FW s -> FW (fut_pop i s).
Proof.
  intros i s (ND & H). split.
  - unfold fut_pop. proj. apply nodup_remove. exact ND.
  - intros k r HI. unfold fut_pop in HI. cbn [futs set_futs] in HI. apply in_remove in HI.
    specialize (H k r HI). destruct r; exact H.
Qed.

Lemma fw_handle_notification : forall c tag m s, FW s -> FW (handle_notification c tag m s).
Proof.
  intros c tag m s F. unfold handle_notification. destruct m as [|b|i|u|fails u].
  - exact F.
  - pose proof (fw_exec_notification c (WNot tag) PUser b s F) as H.
    destruct (exec_notification c (WNot tag) PUser b s) as [s1 x]. destruct x; [apply fw_hook|]; exact H.
  - unfold cancel_notification. destruct (Assoc.get id_eqb i (futs s)); [|exact F]. apply fw_cancel_ref, fw_fut_pop. exact F.
  - unfold lsp_exit. destruct (c_writer c).
    + apply (fw_same3 s); [repeat split|exact F].
    + apply fw_chain, fw_log. apply (fw_same3 s); [repeat split|exact F].
  - destruct fails; [apply fw_hook|apply fw_chain]; apply fw_log, fw_log; exact F.
Qed.

Lemma fw_handle_response : forall c i s, FW s -> FW (handle_response c i s).
Proof.
  intros c i s F. unfold handle_response. destruct (Assoc.get id_eqb i (futs s)) as [r|]; [|apply fw_hook; exact F].
  pose proof (fw_fut_pop i s F) as F1. destruct r as [t|j|o].
  - apply fw_hook. exact F1.
  - apply (fw_same3 (hook c Loop EJsonRpc (fut_pop i s))); [repeat split|apply fw_hook; exact F1].
  - destruct (nth_error (outg (fut_pop i s)) o) as [[| |]|]; try (apply fw_hook; exact F1).
    apply (fw_same3 (fut_pop i s)); [repeat split|exact F1].
Qed.

Lemma fw_recv : forall c f s, FW s -> FW (recv c f s).
Proof.
  intros c f s F. unfold recv. destruct f as [|v i ps m|v tag ps m|v i iserr ps].
  - apply fw_hook. exact F.
  - destruct ps; try (apply fw_hook, fw_send_response; exact F).
    destruct (negb v); [apply fw_hook; exact F|]. destruct (shutdown s); [exact F|apply fw_handle_request; exact F].
  - destruct ps; try (apply fw_hook; exact F). destruct (negb v); [apply fw_hook; exact F|].
    destruct (shutdown s && negb (is_exit m)); [exact F|apply fw_handle_notification; exact F].
  - assert (F1 : FW (rtype_pop i s)) by (apply (fw_same3 s); [repeat split|exact F]).
    destruct (negb iserr && negb (Assoc.mem id_eqb i (rtypes s))); [apply fw_hook; exact F1|].
    destruct ps; try (apply fw_hook; exact F1). destruct (negb v); [apply fw_hook; exact F1|].
    destruct (shutdown (rtype_pop i s)); [exact F1|apply fw_handle_response; exact F1].
Qed.

Lemma fw_task_step : forall t s, FW s -> FW (task_step t s).
Proof.
  intros t s F. unfold task_step. destruct (nth_error (tasks s) t) as [tk|]; [|exact F].
  destruct (t_st tk) as [a b m| |]; try exact F.
  assert (ADV : forall a' s1, FW s1 -> FW (task_advance t tk a' b s1)).
  { intros a' s1 F1. unfold task_advance, task_finish. destruct a'; destruct b;
      apply fw_set_task_live; try discriminate; repeat apply fw_log; exact F1. }
  destruct m.
  - destruct a; cbn [negb].
    + destruct (breact (t_b tk)); [apply fw_set_task_live; [discriminate|apply fw_log; exact F]|apply ADV, fw_log; exact F].
    + apply fw_set_task_live; [discriminate|exact F].
  - apply ADV. exact F.
Qed.

Lemma fw_loop_cb : forall c t s, FW s -> FW (loop_cb c t s).
Proof.
  intros c t s F. unfold loop_cb. destruct (nth_error (tasks s) t) as [tk|] eqn:N; [|exact F].
  destruct (t_st tk) as [| r |] eqn:T; try exact F.
  destruct (frame_run_cb c Loop (t_cb tk) r (set_task_st t (TFin r) s)) as (E1 & E2 & E3).
  destruct (t_cb tk) as [i|] eqn:C.
  - eapply (fw_pop_task s _ t tk i (TFin r) F N C); [exact E1|exact E2|exact E3].
  - (* a notification task is referenced by no entry *)
    destruct F as (ND & H). split; [rewrite E3; exact ND|]. intros k r' HI. rewrite E3 in HI. cbn [futs set_task_st set_tasks] in HI.
    specialize (H k r' HI). destruct r' as [t'|j|o]; cbn [ref_ok] in *; [|rewrite E2; exact H|exact I].
    destruct H as (tk' & N' & C' & F'). rewrite E1. unfold set_task_st. proj.
    destruct (Nat.eq_dec t' t) as [E|E]; [subst t'; rewrite N in N'; inversion N'; subst tk'; congruence|].
    exists tk'. rewrite nth_error_upd_other by exact E. repeat split; assumption.
Qed.

Lemma fw_job_start : forall j s, FW s -> FW (job_start j s).
Proof.
  intros j s F. unfold job_start. destruct (nth_error (jobs s) j) as [jb|] eqn:N; [|exact F].
  destruct (j_st jb) eqn:J; try exact F. apply fw_log. destruct F as (ND & H). split; [exact ND|].
  intros k r HI. specialize (H k r HI). destruct r as [t|j'|o]; cbn [ref_ok] in *; [exact H| |exact I].
  destruct H as (jb' & N' & C' & F'). unfold set_job_st. proj.
  destruct (Nat.eq_dec j' j) as [E|E].
  - subst j'. rewrite N in N'. inversion N'. subst jb'. eexists. split; [apply nth_error_upd_same; exact N|]. cbn. split; [exact C'|right; reflexivity].
  - exists jb'. rewrite nth_error_upd_other by exact E. repeat split; assumption.
Qed.

Lemma fw_job_finish : forall c j s, FW s -> FW (job_finish c j s).
Proof.
  intros c j s F. unfold job_finish. destruct (nth_error (jobs s) j) as [jb|] eqn:N; [|exact F].
  destruct (j_st jb) eqn:J; try exact F.
  set (r := res_of (bout (j_b jb))). set (s0 := log (j_who jb) (j_part jb) HEnd Pool s).
  destruct (frame_run_cb c Pool (j_cb jb) r (set_job_st j (JDone r) s0)) as (E1 & E2 & E3).
  eapply (fw_pop_job s0 _ j jb (JDone r)); [apply fw_log; exact F|exact N|exact E1|exact E2|exact E3].
Qed.

Lemma fw_write_step : forall c s, FW s -> FW (write_step c s).
Proof.
  intros [w h f] s F. unfold write_step. destruct (wq s) as [|x r]; [exact F|]. destruct x as [fr|rc].
  - apply (fw_same3 s); [|exact F]. unfold do_write, failing. destruct s; cbn.
    repeat match goal with |- context [if ?b then _ else _] => destruct b; cbn end; repeat split; reflexivity.
  - apply (fw_same3 s); [repeat split|exact F].
Qed.

Lemma fw_user_send : forall c i s, FW s -> FW (user_send c i s).
Proof.
  intros c i s F. unfold user_send. eapply fw_same3; [apply same3_send_req|].
  apply (fw_same3 (fut_set i (FOut (length (outg s))) (set_outg (snoc (outg s) OPending) s))); [repeat split|].
  apply fw_fut_set; [apply (fw_same3 s); [repeat split|exact F]|exact I].
Qed.

Theorem fw_step : forall c s e, FW s -> FW (step c s e).
Proof.
  intros c s e F. unfold step. destruct (exit s); [exact F|].
  destruct e as [f|t|t|j|j| | |i].
  - apply fw_recv; exact F.
  - apply fw_task_step; exact F.
  - apply fw_loop_cb; exact F.
  - apply fw_job_start; exact F.
  - apply fw_job_finish; exact F.
  - apply fw_write_step; exact F.
  - unfold exit_cb. destruct (exitq s); [exact F|]. apply (fw_same3 s); [repeat split|exact F].
  - apply fw_user_send; exact F.
Qed.

Theorem fw_run : forall c evs, FW (run c evs).
Proof.
  intros c evs. unfold run. assert (H : forall s, FW s -> FW (fold_left (step c) evs s)).
  { induction evs as [|e r IH]; intros s F; cbn [fold_left]; [exact F|]. apply IH, fw_step. exact F. }
  apply H, fw_init.
Qed.

(* at quiescence nothing of the incoming side is left in the table *)
Theorem fw_quiescent : forall s, FW s -> quiescent s = true ->
  forall k r, In (k, r) (futs s) -> exists o, r = FOut o.
Proof.
  intros s (ND & H) Q k r HI. specialize (H k r HI).
  unfold quiescent in Q. apply andb_true_iff in Q. destruct Q as [Q _].
  apply andb_true_iff in Q. destruct Q as [Q _]. apply andb_true_iff in Q. destruct Q as [Q1 Q2].
  destruct r as [t|j|o]; cbn [ref_ok] in H.
  - destruct H as (tk & N & C & F). pose proof (forallb_nth _ _ _ _ _ Q1 N) as I. unfold task_idle in I.
    destruct (t_st tk) eqn:T; try discriminate. exfalso. apply (F r). reflexivity.
  - destruct H as (jb & N & C & F). pose proof (forallb_nth _ _ _ _ _ Q2 N) as I. unfold job_idle in I.
    destruct F as [F|F]; rewrite F in I; discriminate.
  - exists o. reflexivity.
Qed.
