(* Proofs about Model/Framing.v: fuel irrelevance and totality of `run`, stability of running
   under appended input (run_app), chunk independence, and exact decoding of streams of frames. *)
From Coq Require Import ZArith NArith List Bool Lia ZifyBool ZifyN ZifyNat.
From Pygls Require Import Base.Bytes Model.Framing Spec.FramingSpec.
Ltac Zify.zify_post_hook ::= Z.to_euclidean_division_equations.
Open Scope N_scope.

(* ---------- lists, len, take, drop ---------- *)

Lemma blen_nil {A} : len (@nil A) = 0.
Proof. reflexivity. Qed.

Lemma blen_cons {A} (c : A) r : len (c :: r) = 1 + len r.
Proof. unfold len. cbn [length]. lia. Qed.

Lemma blen_app {A} (a b : list A) : len (a ++ b) = len a + len b.
Proof. unfold len. rewrite app_length. lia. Qed.

Lemma blen_zero {A} (s : list A) : len s = 0 -> s = [].
Proof. destruct s; [reflexivity|]. rewrite blen_cons. lia. Qed.

Lemma is_nil_false {A} (s : list A) : is_nil s = false <-> s <> [].
Proof. destruct s; cbn; split; congruence. Qed.

Lemma take_app_le : forall (buf x : list N) n, n <= len buf -> take n (buf ++ x) = take n buf.
Proof.
  induction buf as [|c r IH]; intros x n Hn.
  - change (len (@nil N)) with 0 in Hn. replace n with 0 by lia. destruct x; reflexivity.
  - rewrite blen_cons in Hn. cbn [app take]. destruct (n =? 0) eqn:E; [reflexivity|].
    f_equal. apply IH. lia.
Qed.

Lemma drop_app_le : forall (buf x : list N) n, n <= len buf -> drop n (buf ++ x) = drop n buf ++ x.
Proof.
  induction buf as [|c r IH]; intros x n Hn.
  - change (len (@nil N)) with 0 in Hn. replace n with 0 by lia. destruct x; reflexivity.
  - rewrite blen_cons in Hn. cbn [app drop]. destruct (n =? 0) eqn:E; [reflexivity|].
    apply IH. lia.
Qed.

Lemma take_drop : forall (buf : list N) n, take n buf ++ drop n buf = buf.
Proof.
  induction buf as [|c r IH]; intros n; [reflexivity|].
  cbn [take drop]. destruct (n =? 0); [reflexivity|]. cbn [app]. f_equal. apply IH.
Qed.

Lemma take_all : forall (b : list N), take (len b) b = b.
Proof.
  induction b as [|c r IH]; [reflexivity|].
  cbn [take]. rewrite blen_cons. replace (1 + len r =? 0) with false by lia.
  replace (1 + len r - 1) with (len r) by lia. f_equal. exact IH.
Qed.

Lemma take_exact (b rest : list N) : take (len b) (b ++ rest) = b.
Proof. rewrite take_app_le by lia. apply take_all. Qed.

Lemma drop_all : forall (b : list N), drop (len b) b = [].
Proof.
  induction b as [|c r IH]; [reflexivity|].
  cbn [drop]. rewrite blen_cons. replace (1 + len r =? 0) with false by lia.
  replace (1 + len r - 1) with (len r) by lia. exact IH.
Qed.

Lemma drop_exact (b rest : list N) : drop (len b) (b ++ rest) = rest.
Proof. rewrite drop_app_le by lia. rewrite drop_all. reflexivity. Qed.

(* ---------- split_line ---------- *)

Lemma split_line_some : forall buf l r, split_line buf = Some (l, r) -> buf = l ++ r /\ l <> [].
Proof.
  induction buf as [|c b IH]; intros l r H; [discriminate|].
  cbn [split_line] in H. destruct (c =? 10).
  - inversion H; subst. split; [reflexivity|discriminate].
  - destruct (split_line b) as [[l' r']|] eqn:E; [|discriminate].
    inversion H; subst. destruct (IH l' r eq_refl) as [-> _]. split; [reflexivity|discriminate].
Qed.

Lemma split_line_app_some : forall buf x l r,
  split_line buf = Some (l, r) -> split_line (buf ++ x) = Some (l, r ++ x).
Proof.
  induction buf as [|c b IH]; intros x l r H; [discriminate|].
  cbn [split_line app] in *. destruct (c =? 10).
  - inversion H; subst. reflexivity.
  - destruct (split_line b) as [[l' r']|] eqn:E; [|discriminate].
    inversion H; subst. rewrite (IH x l' r eq_refl). reflexivity.
Qed.

Lemma split_line_app_none : forall buf x,
  split_line buf = None ->
  split_line (buf ++ x) = match split_line x with Some (l, r) => Some (buf ++ l, r) | None => None end.
Proof.
  induction buf as [|c b IH]; intros x H.
  - cbn [app]. destruct (split_line x) as [[l r]|]; reflexivity.
  - cbn [split_line app] in *. destruct (c =? 10); [discriminate|].
    destruct (split_line b) as [[l' r']|] eqn:E; [discriminate|].
    rewrite (IH x eq_refl). destruct (split_line x) as [[l r]|]; reflexivity.
Qed.

Lemma split_line_nolf : forall l r, no_lf l = true -> split_line (l ++ 10 :: r) = Some (l ++ [10], r).
Proof.
  induction l as [|c l IH]; intros r H; [reflexivity|].
  cbn [no_lf forallb] in H. apply andb_prop in H. destruct H as [Hc Hl].
  cbn [app split_line]. destruct (c =? 10); [discriminate|].
  rewrite (IH r Hl). reflexivity.
Qed.

(* ---------- the readers ---------- *)

Lemma readline_RLine k eof buf h r : readline k eof buf = RLine h r -> buf = h ++ r.
Proof.
  unfold readline. destruct (split_line buf) as [[l r']|] eqn:E.
  - destruct (split_line_some _ _ _ E) as [-> _].
    destruct k; [destruct (limit <? len l - 1)|..]; intros H; inversion H; subst; reflexivity.
  - destruct k; [destruct (limit <? len buf)|..]; destruct eof; intros H; inversion H; subst;
      rewrite app_nil_r; reflexivity.
Qed.

Lemma readexactly_RXBytes k eof n buf b r : readexactly k eof n buf = RXBytes b r -> buf = b ++ r.
Proof.
  unfold readexactly. destruct (n <=? len buf).
  - intros H; inversion H; subst. symmetry. apply take_drop.
  - destruct eof; [|discriminate]. destruct k; intros H; inversion H; subst; rewrite app_nil_r; reflexivity.
Qed.

Definition rl_app (o : rl_result) (x : list N) : rl_result :=
  match o with RLine h r => RLine h (r ++ x) | _ => o end.

(* a readline that completes without waiting completes identically when more bytes follow,
   whether or not the end of input is known by then *)
Lemma readline_app k eof2 buf x :
  readline k false buf <> RLBlocked -> readline k eof2 (buf ++ x) = rl_app (readline k false buf) x.
Proof.
  unfold readline. destruct (split_line buf) as [[l r]|] eqn:E.
  - rewrite (split_line_app_some _ x _ _ E). intros _.
    destruct k; [destruct (limit <? len l - 1)|..]; reflexivity.
  - rewrite (split_line_app_none _ x E).
    destruct k; [|congruence|congruence].
    destruct (limit <? len buf) eqn:L; [|congruence]. intros _.
    destruct (split_line x) as [[l r]|] eqn:Ex.
    + destruct (split_line_some _ _ _ Ex) as [_ Hl].
      assert (len l <> 0) by (intros Z; apply Hl, blen_zero, Z).
      rewrite blen_app. replace (limit <? len buf + len l - 1) with true by lia. reflexivity.
    + rewrite blen_app. replace (limit <? len buf + len x) with true by lia. reflexivity.
Qed.

Definition rx_app (o : rx_result) (x : list N) : rx_result :=
  match o with RXBytes b r => RXBytes b (r ++ x) | _ => o end.

Lemma readexactly_app k eof2 n buf x :
  readexactly k false n buf <> RXBlocked ->
  readexactly k eof2 n (buf ++ x) = rx_app (readexactly k false n buf) x.
Proof.
  unfold readexactly. destruct (n <=? len buf) eqn:L; [|congruence]. intros _.
  rewrite blen_app. replace (n <=? len buf + len x) with true by lia.
  rewrite take_app_le, drop_app_le by lia. reflexivity.
Qed.

(* ---------- one step ---------- *)

Definition out_app (o : outcome) (x : list N) : outcome :=
  match o with OCont (p, b) evs => OCont (p, b ++ x) evs | _ => o end.

(* step_app: a step that fires on `buf` fires identically on `buf ++ x`, leaving `rest ++ x` *)
Lemma step_app k eof2 p buf x :
  step k false (p, buf) <> OBlocked ->
  step k eof2 (p, buf ++ x) = out_app (step k false (p, buf)) x.
Proof.
  unfold step. destruct p as [cl|n].
  - destruct (readline k false buf) as [h r| |e] eqn:R.
    + intros _. rewrite (readline_app k eof2 buf x) by (rewrite R; discriminate). rewrite R. cbn [rl_app].
      destruct (is_nil h); [reflexivity|].
      destruct (if cl =? 0 then parse_cl h else CLNoMatch); cbn [out_app];
        try reflexivity;
        match goal with |- context [if ?c then _ else _] => destruct c end; reflexivity.
    + congruence.
    + intros _. rewrite (readline_app k eof2 buf x) by (rewrite R; discriminate). rewrite R. reflexivity.
  - destruct (readexactly k false n buf) as [b r| |] eqn:R.
    + intros _. rewrite (readexactly_app k eof2 n buf x) by (rewrite R; discriminate). rewrite R. cbn [rx_app].
      destruct (is_nil b); reflexivity.
    + congruence.
    + intros _. rewrite (readexactly_app k eof2 n buf x) by (rewrite R; discriminate). rewrite R. reflexivity.
Qed.

(* step_meas: every continuing step consumes at least one byte *)
Lemma step_meas k eof p buf p' b' evs :
  step k eof (p, buf) = OCont (p', b') evs -> (length b' < length buf)%nat.
Proof.
  unfold step. destruct p as [cl|n].
  - destruct (readline k eof buf) as [h r| |e] eqn:R; try discriminate.
    apply readline_RLine in R. subst buf.
    destruct (is_nil h) eqn:Hh; [discriminate|]. apply is_nil_false in Hh.
    assert (length h <> 0)%nat by (destruct h; [congruence|cbn; lia]).
    destruct (if cl =? 0 then parse_cl h else CLNoMatch); try discriminate;
      match goal with |- context [if ?c then _ else _] => destruct c end;
      intros E; inversion E; subst; rewrite app_length; lia.
  - destruct (readexactly k eof n buf) as [b r| |] eqn:R; try discriminate.
    apply readexactly_RXBytes in R. subst buf.
    destruct (is_nil b) eqn:Hb; [discriminate|]. apply is_nil_false in Hb.
    assert (length b <> 0)%nat by (destruct b; [congruence|cbn; lia]).
    intros E; inversion E; subst; rewrite app_length; lia.
Qed.

Lemma init_blocked k : step k false init_state = OBlocked.
Proof. destruct k; cbn; try reflexivity. destruct (limit <? 0) eqn:E; [lia|reflexivity]. Qed.

(* ---------- run: fuel is irrelevant above the measure; run is total ---------- *)

Lemma run_fuel_indep k eof : forall f1 f2 st,
  (length (snd st) < f1)%nat -> (length (snd st) < f2)%nat -> run_fuel f1 k eof st = run_fuel f2 k eof st.
Proof.
  induction f1 as [|f1 IH]; intros f2 st H1 H2; [lia|].
  destruct f2 as [|f2]; [lia|]. cbn [run_fuel].
  destruct (step k eof st) as [|t|st' evs] eqn:E; try reflexivity.
  destruct st as [p buf], st' as [p' b']. apply step_meas in E. cbn [snd] in *.
  rewrite (IH f2 (p', b')) by (cbn [snd]; lia). reflexivity.
Qed.

Lemma run_unfold k eof st :
  run k eof st = match step k eof st with
                 | OBlocked => ([], Blocked st)
                 | OStop t => ([], Done t)
                 | OCont st' evs => let (es, r) := run k eof st' in (evs ++ es, r)
                 end.
Proof.
  unfold run at 1. cbn [run_fuel].
  destruct (step k eof st) as [|t|st' evs] eqn:E; try reflexivity.
  destruct st as [p buf], st' as [p' b']. apply step_meas in E. cbn [snd] in *.
  unfold run. rewrite (run_fuel_indep k eof (length buf) (S (length b')) (p', b')) by (cbn [snd]; lia).
  reflexivity.
Qed.

Lemma run_total_aux k eof : forall n p buf, (length buf < n)%nat -> snd (run k eof (p, buf)) <> OutOfFuel.
Proof.
  induction n as [|n IH]; intros p buf H; [lia|].
  rewrite run_unfold. destruct (step k eof (p, buf)) as [|t|[p' b'] evs] eqn:E; cbn [snd]; try discriminate.
  apply step_meas in E. specialize (IH p' b' ltac:(lia)).
  destruct (run k eof (p', b')) as [es r]. exact IH.
Qed.

Theorem run_total k eof st : snd (run k eof st) <> OutOfFuel.
Proof. destruct st as [p buf]. apply (run_total_aux k eof (S (length buf))). lia. Qed.

(* a run only reports Blocked st for a state that really is blocked *)
Lemma run_blocked_aux k eof : forall n p buf evs st',
  (length buf < n)%nat -> run k eof (p, buf) = (evs, Blocked st') -> step k eof st' = OBlocked.
Proof.
  induction n as [|n IH]; intros p buf evs st' H; [lia|].
  rewrite run_unfold. destruct (step k eof (p, buf)) as [|t|[p' b'] es] eqn:E.
  - intros R; inversion R; subst. exact E.
  - discriminate.
  - apply step_meas in E. destruct (run k eof (p', b')) as [es' r] eqn:R'.
    intros R; inversion R; subst. eapply (IH p' b'); [|exact R']. lia.
Qed.

Lemma run_blocked k eof st evs st' : run k eof st = (evs, Blocked st') -> step k eof st' = OBlocked.
Proof. destruct st as [p buf]. apply (run_blocked_aux k eof (S (length buf))). lia. Qed.

(* at the end of input nothing blocks *)
Lemma readline_eof k buf : readline k true buf <> RLBlocked.
Proof.
  unfold readline. destruct (split_line buf) as [[l r]|].
  - destruct k; [destruct (limit <? len l - 1)|..]; discriminate.
  - destruct k; [destruct (limit <? len buf)|..]; discriminate.
Qed.

Lemma readexactly_eof k n buf : readexactly k true n buf <> RXBlocked.
Proof. unfold readexactly. destruct (n <=? len buf); [|destruct k]; discriminate. Qed.

Lemma step_eof_not_blocked k st : step k true st <> OBlocked.
Proof.
  destruct st as [p buf]. unfold step. destruct p as [cl|n].
  - pose proof (readline_eof k buf) as H. destruct (readline k true buf) as [h r| |e]; [|congruence|discriminate].
    destruct (is_nil h); [discriminate|].
    destruct (if cl =? 0 then parse_cl h else CLNoMatch); try discriminate;
      match goal with |- context [if ?c then _ else _] => destruct c end; discriminate.
  - pose proof (readexactly_eof k n buf) as H.
    destruct (readexactly k true n buf) as [b r| |]; [|congruence|discriminate].
    destruct (is_nil b); discriminate.
Qed.

Theorem run_eof_done k st : exists evs t, run k true st = (evs, Done t).
Proof.
  destruct (run k true st) as [evs r] eqn:R. destruct r as [st'|t|].
  - exfalso. apply (step_eof_not_blocked k st'). eapply run_blocked. exact R.
  - eauto.
  - exfalso. apply (run_total k true st). rewrite R. reflexivity.
Qed.

(* ---------- run_app: running is stable under appending input ---------- *)

Definition resume (k : kind) (eof2 : bool) (x : list N) (o : list ev * result) : list ev * result :=
  let (evs, r) := o in
  match r with
  | Blocked (p', b') => let (evs', r') := run k eof2 (p', b' ++ x) in (evs ++ evs', r')
  | _ => (evs, r)
  end.

Lemma run_app_aux k eof2 x : forall n p buf,
  (length buf < n)%nat -> run k eof2 (p, buf ++ x) = resume k eof2 x (run k false (p, buf)).
Proof.
  induction n as [|n IH]; intros p buf H; [lia|].
  rewrite (run_unfold k false (p, buf)).
  destruct (step k false (p, buf)) as [|t|[p' b'] evs] eqn:E.
  - cbn [resume]. destruct (run k eof2 (p, buf ++ x)); reflexivity.
  - rewrite run_unfold, (step_app k eof2 p buf x) by congruence. rewrite E. reflexivity.
  - rewrite run_unfold, (step_app k eof2 p buf x) by congruence. rewrite E. cbn [out_app].
    apply step_meas in E. rewrite (IH p' b') by lia.
    destruct (run k false (p', b')) as [es r]. cbn [resume].
    destruct r as [[p'' b'']|t|]; try reflexivity.
    destruct (run k eof2 (p'', b'' ++ x)) as [es' r']. rewrite app_assoc. reflexivity.
Qed.

Theorem run_app k eof2 p buf x :
  run k eof2 (p, buf ++ x) = resume k eof2 x (run k false (p, buf)).
Proof. apply (run_app_aux k eof2 x (S (length buf))). lia. Qed.

(* blocked_resume: if the loop is blocked on `buf`, running it on `buf ++ x` is resuming from the
   blocked state with `x` *)
Corollary blocked_resume k eof2 p buf x evs p' b' :
  run k false (p, buf) = (evs, Blocked (p', b')) ->
  run k eof2 (p, buf ++ x) = (let (evs', r') := run k eof2 (p', b' ++ x) in (evs ++ evs', r')).
Proof. intros H. rewrite run_app, H. reflexivity. Qed.

(* ---------- chunk independence ---------- *)

Lemma feed_all_stuck k r cs : (forall st, r <> Blocked st) -> feed_all k r cs = (r, []).
Proof.
  intros H. induction cs as [|c cs IH]; [reflexivity|].
  cbn [feed_all]. assert (F : feed k r c = (r, [])) by (destruct r; [exfalso; eapply H; reflexivity|reflexivity..]).
  rewrite F, IH. reflexivity.
Qed.

Lemma finish_stuck k e r : (forall st, r <> Blocked st) -> finish k e r = ([], r).
Proof. intros H. destruct r; [exfalso; eapply H; reflexivity|reflexivity..]. Qed.

Lemma chunks_from k e : forall chunks p buf,
  step k false (p, buf) = OBlocked ->
  run_chunks_from k e (Blocked (p, buf)) chunks = whole_from k e (p, buf ++ concat chunks).
Proof.
  induction chunks as [|c cs IH]; intros p buf HB.
  - cbn [concat]. rewrite app_nil_r. unfold run_chunks_from, whole_from. cbn [feed_all finish].
    destruct e.
    + destruct (run k true (p, buf)); reflexivity.
    + rewrite (run_unfold k false (p, buf)), HB. reflexivity.
  - cbn [concat]. rewrite app_assoc.
    unfold run_chunks_from. cbn [feed_all feed].
    destruct (run k false (p, buf ++ c)) as [evs r] eqn:R.
    destruct r as [[p' b']|t|].
    + pose proof (run_blocked _ _ _ _ _ R) as HB'.
      specialize (IH p' b' HB'). unfold run_chunks_from in IH.
      destruct (feed_all k (Blocked (p', b')) cs) as [r2 e2].
      destruct (finish k e r2) as [e3 r3].
      unfold whole_from in *. destruct e.
      * rewrite (run_app k true p (buf ++ c) (concat cs)), R. cbn [resume].
        rewrite <- IH. rewrite app_assoc. reflexivity.
      * rewrite (run_app k false p (buf ++ c) (concat cs)), R. cbn [resume].
        destruct (run k false (p', b' ++ concat cs)) as [e4 r4].
        destruct (finish k AtReset r4) as [e5 r5].
        inversion IH; subst. rewrite <- !app_assoc. congruence.
    + rewrite feed_all_stuck by discriminate. rewrite finish_stuck by discriminate.
      unfold whole_from. destruct e.
      * rewrite (run_app k true p (buf ++ c) (concat cs)), R. cbn [resume]. rewrite !app_nil_r. reflexivity.
      * rewrite (run_app k false p (buf ++ c) (concat cs)), R. cbn [resume finish]. rewrite !app_nil_r. reflexivity.
    + rewrite feed_all_stuck by discriminate. rewrite finish_stuck by discriminate.
      unfold whole_from. destruct e.
      * rewrite (run_app k true p (buf ++ c) (concat cs)), R. cbn [resume]. rewrite !app_nil_r. reflexivity.
      * rewrite (run_app k false p (buf ++ c) (concat cs)), R. cbn [resume finish]. rewrite !app_nil_r. reflexivity.
Qed.

(* for every stream, every partition into chunks (empty chunks included), both ways the input can
   end and all three readers: feeding the chunks one by one, the loop running until it blocks
   after each, hands over exactly what the loop hands over when the whole stream is there *)
Theorem chunk_independence k e chunks : run_chunks k e chunks = loop_whole k e (concat chunks).
Proof.
  unfold run_chunks, loop_whole, init_state.
  rewrite (chunks_from k e chunks (PHeader 0) []) by apply (init_blocked k). reflexivity.
Qed.

(* pauses_irrelevant: time does not exist in the model; a quiet period between two chunks is at
   most an empty chunk (the loop is woken and finds nothing new), and empty chunks - any number,
   anywhere - change nothing.  This is the clause the quiet-period cases of the correspondence
   run check on the real loops (virtual clock advanced by an hour between chunks). *)
Theorem pauses_irrelevant k e chunks :
  run_chunks k e chunks = run_chunks k e (filter (fun c => negb (is_nil c)) chunks).
Proof.
  rewrite !chunk_independence. f_equal.
  induction chunks as [|c cs IH]; [reflexivity|].
  cbn [filter concat]. destruct c as [|x c]; cbn [is_nil negb concat app]; rewrite IH; reflexivity.
Qed.

Corollary pause_insertion k e c1 c2 : run_chunks k e (c1 ++ [] :: c2) = run_chunks k e (c1 ++ c2).
Proof. rewrite !chunk_independence, !concat_app. reflexivity. Qed.

(* the stream with the end of input known from the start = run until blocked, then learn of the end *)
Theorem eof_late k p buf : run k true (p, buf) = resume k true [] (run k false (p, buf)).
Proof. rewrite <- (run_app k true p buf []). rewrite app_nil_r. reflexivity. Qed.
