(* The replacing UTF-8 decoder (bytes.decode("utf-8", "replace")) agrees with the strict one on
   well-formed input: it inverts utf8_enc_all on every string of scalar values. *)
From Coq Require Import ZArith NArith List Bool Lia ZifyBool ZifyN ZifyNat.
From Pygls Require Import Base.Unicode Proofs.UnicodeFacts Model.Uris.
Ltac Zify.zify_post_hook ::= Z.to_euclidean_division_equations.
Open Scope N_scope.

Lemma dec_replace_fuel_step f bs : bs <> [] ->
  utf8_dec_replace_fuel (S f) bs =
  match utf8_dec1 bs with
  | Some (c, r) => c :: utf8_dec_replace_fuel f r
  | None => 0xFFFD :: utf8_dec_replace_fuel f (skip_bad (hd 0 bs) (tl bs))
  end.
Proof. destruct bs; [congruence|reflexivity]. Qed.

Lemma dec_replace_fuel_enc_all s : forall fuel,
  forallb scalar s = true -> (length (utf8_enc_all s) <= fuel)%nat ->
  utf8_dec_replace_fuel fuel (utf8_enc_all s) = s.
Proof.
  induction s as [|c s IH]; intros fuel Hs Hf.
  - destruct fuel; reflexivity.
  - cbn [forallb] in Hs. apply andb_true_iff in Hs. destruct Hs as [Hc Hs].
    cbn [utf8_enc_all flat_map] in *. fold (utf8_enc_all s) in *.
    rewrite app_length in Hf.
    pose proof (utf8_enc_nonempty c) as Hne.
    destruct fuel as [|fuel].
    { destruct (utf8_enc c); [congruence|cbn [length] in Hf; lia]. }
    rewrite dec_replace_fuel_step.
    2:{ intros E. apply app_eq_nil in E. destruct E as [E _]. congruence. }
    rewrite utf8_dec1_enc by exact Hc.
    rewrite IH; [reflexivity|exact Hs|].
    destruct (utf8_enc c); [congruence|cbn [length] in Hf; lia].
Qed.

Theorem utf8_dec_replace_enc_all s :
  forallb scalar s = true -> utf8_dec_replace (utf8_enc_all s) = s.
Proof. intros Hs. unfold utf8_dec_replace. apply dec_replace_fuel_enc_all; [exact Hs|apply le_n]. Qed.
