(* Proofs/C06Sim5.v - the simulation of C06 (ii): task steps, callbacks, pool jobs, awaitable
   writes, outgoing requests; one event; whole schedules. *)
From Coq Require Import ZArith NArith List Bool Arith Lia.
From Pygls Require Import Base.Assoc Model.Endpoint Spec.EndpointSpec Spec.ContainSpec
  Proofs.EndpointInv Proofs.C06Lists Proofs.C06Sim Proofs.C06Sim2 Proofs.C06Sim3 Proofs.C06Sim4.
Import ListNotations.

Section Sim5.
Variable B : who -> bool.
Variable c : cfg.
Hypothesis CFG : cfg_ok c = true.

Notation R := (C06Sim.R B).
Notation gid := (good_id B).
Notation gt := (good_t B).
Notation gj := (good_j B).
Notation gw := (good_w B).

Lemma gt_false : forall tk, gt tk = false -> B (t_who tk) = true.
Proof. intros tk H. unfold good_t in H. destruct (B (t_who tk)); [reflexivity|discriminate]. Qed.
Lemma gt_true : forall tk, gt tk = true -> B (t_who tk) = false.
Proof. intros tk H. unfold good_t in H. destruct (B (t_who tk)); [discriminate|reflexivity]. Qed.
Lemma gj_false : forall jb, gj jb = false -> B (j_who jb) = true.
Proof. intros jb H. unfold good_j in H. destruct (B (j_who jb)); [reflexivity|discriminate]. Qed.
Lemma gj_true : forall jb, gj jb = true -> B (j_who jb) = false.
Proof. intros jb H. unfold good_j in H. destruct (B (j_who jb)); [discriminate|reflexivity]. Qed.

(* ---------------------------------------------------------------- Task.__step *)
Lemma task_advance_l : forall t tk tk1 st lft s1 s', nth_error (tasks s1) t = Some tk1 -> gt tk1 = false ->
  B (t_who tk) = true -> R s1 s' -> R (task_advance t tk st lft s1) s'.
Proof.
  intros t tk tk1 st lft s1 s' N G V H. unfold task_advance, task_finish.
  set (s2 := if st then s1 else log (t_who tk) (t_part tk) HStart Loop s1).
  assert (H2 : R s2 s') by (unfold s2; destruct st; [exact H|apply R_log_l; assumption]).
  assert (N2 : nth_error (tasks s2) t = Some tk1) by (unfold s2; destruct st; exact N).
  destruct lft.
  - eapply R_set_task_st_l; [exact N2|exact G|]. apply R_log_l; assumption.
  - eapply R_set_task_st_l; eassumption.
Qed.

Lemma task_advance_b : forall t tk st lft s1 s1', (forall tk0, nth_error (tasks s1) t = Some tk0 -> gt tk0 = true) ->
  B (t_who tk) = false -> R s1 s1' ->
  R (task_advance t tk st lft s1) (task_advance (rank gt (tasks s1) t) tk st lft s1').
Proof.
  intros t tk st lft s1 s1' G V H. unfold task_advance, task_finish.
  set (s2 := if st then s1 else log (t_who tk) (t_part tk) HStart Loop s1).
  set (s2' := if st then s1' else log (t_who tk) (t_part tk) HStart Loop s1').
  assert (H2 : R s2 s2') by (unfold s2, s2'; destruct st; [exact H|apply R_log_b; assumption]).
  assert (E2 : tasks s2 = tasks s1) by (unfold s2; destruct st; reflexivity).
  rewrite <- E2. destruct lft.
  - apply (R_set_task_st_b B t _ (log (t_who tk) (t_part tk) HEnd Loop s2)); [|apply R_log_b; assumption].
    cbn [tasks log set_hlog]. rewrite E2. exact G.
  - apply R_set_task_st_b; [rewrite E2; exact G|exact H2].
Qed.

Lemma task_step_l : forall t tk s s', nth_error (tasks s) t = Some tk -> gt tk = false -> R s s' -> R (task_step t s) s'.
Proof.
  intros t tk s s' N G H. pose proof (gt_false _ G) as V. unfold task_step. rewrite N.
  destruct (t_st tk) as [started lft mc| |]; try exact H.
  destruct mc.
  - destruct started; cbn [negb].
    + assert (H1 : R (log (t_who tk) (t_part tk) HCancel Loop s) s') by (apply R_log_l; assumption).
      destruct (breact (t_b tk)).
      * eapply R_set_task_st_l; [exact N|exact G|exact H1].
      * eapply task_advance_l; [exact N|exact G|exact V|exact H1].
    + eapply R_set_task_st_l; eassumption.
  - eapply task_advance_l; eassumption.
Qed.

Lemma task_step_b : forall t s s', (forall tk, nth_error (tasks s) t = Some tk -> gt tk = true) -> R s s' ->
  R (task_step t s) (task_step (rank gt (tasks s) t) s').
Proof.
  intros t s s' G H. unfold task_step. destruct (nth_error (tasks s) t) as [tk|] eqn:N.
  - pose proof (G _ eq_refl) as Gk. pose proof (gt_true _ Gk) as V. rewrite (R_nth_task B _ _ _ _ H N Gk).
    assert (G2 : forall tk0, nth_error (tasks s) t = Some tk0 -> gt tk0 = true) by (intros tk0 N0; rewrite N in N0; apply G; exact N0).
    destruct (t_st tk) as [started lft mc| |]; try exact H.
    destruct mc.
    + destruct started; cbn [negb].
      * assert (H1 : R (log (t_who tk) (t_part tk) HCancel Loop s) (log (t_who tk) (t_part tk) HCancel Loop s')) by (apply R_log_b; assumption).
        destruct (breact (t_b tk)).
        -- apply (R_set_task_st_b B t _ (log (t_who tk) (t_part tk) HCancel Loop s)); [exact G2|exact H1].
        -- apply (task_advance_b t tk true lft (log (t_who tk) (t_part tk) HCancel Loop s)); [exact G2|exact V|exact H1].
      * apply R_set_task_st_b; assumption.
    + apply task_advance_b; assumption.
  - rewrite (R_nth_task_none B _ _ _ H N). exact H.
Qed.

(* ---------------------------------------------------------------- done-callbacks of tasks *)
Lemma loop_cb_l : forall t tk s s', nth_error (tasks s) t = Some tk -> gt tk = false -> R s s' -> R (loop_cb c t s) s'.
Proof.
  intros t tk s s' N G H. unfold loop_cb. rewrite N. destruct (t_st tk) as [| r |]; try exact H.
  apply (run_cb_l B c CFG).
  - pose proof (task_cb_side B _ _ _ _ H N) as K. rewrite G in K. exact K.
  - eapply R_set_task_st_l; eassumption.
Qed.
Lemma loop_cb_b : forall t s s', (forall tk, nth_error (tasks s) t = Some tk -> gt tk = true) -> R s s' ->
  R (loop_cb c t s) (loop_cb c (rank gt (tasks s) t) s').
Proof.
  intros t s s' G H. unfold loop_cb. destruct (nth_error (tasks s) t) as [tk|] eqn:N.
  - pose proof (G _ eq_refl) as Gk. rewrite (R_nth_task B _ _ _ _ H N Gk).
    assert (G2 : forall tk0, nth_error (tasks s) t = Some tk0 -> gt tk0 = true) by (intros tk0 N0; rewrite N in N0; apply G; exact N0).
    destruct (t_st tk) as [| r |]; try exact H.
    apply (run_cb_b B c CFG).
    + pose proof (task_cb_side B _ _ _ _ H N) as K. rewrite Gk in K. exact K.
    + apply R_set_task_st_b; assumption.
  - rewrite (R_nth_task_none B _ _ _ H N). exact H.
Qed.

(* ---------------------------------------------------------------- pool jobs *)
Lemma job_start_l : forall j jb s s', nth_error (jobs s) j = Some jb -> gj jb = false -> R s s' -> R (job_start j s) s'.
Proof.
  intros j jb s s' N G H. unfold job_start. rewrite N. destruct (j_st jb); try exact H.
  apply R_log_l; [apply gj_false; exact G|]. eapply R_set_job_st_l; eassumption.
Qed.
Lemma job_start_b : forall j s s', (forall jb, nth_error (jobs s) j = Some jb -> gj jb = true) -> R s s' ->
  R (job_start j s) (job_start (rank gj (jobs s) j) s').
Proof.
  intros j s s' G H. unfold job_start. destruct (nth_error (jobs s) j) as [jb|] eqn:N.
  - pose proof (G _ eq_refl) as Gk. rewrite (R_nth_job B _ _ _ _ H N Gk).
    assert (G2 : forall jb0, nth_error (jobs s) j = Some jb0 -> gj jb0 = true) by (intros jb0 N0; rewrite N in N0; apply G; exact N0).
    destruct (j_st jb); try exact H.
    apply R_log_b; [apply gj_true; exact Gk|]. apply R_set_job_st_b; assumption.
  - rewrite (R_nth_job_none B _ _ _ H N). exact H.
Qed.

Lemma job_finish_l : forall j jb s s', nth_error (jobs s) j = Some jb -> gj jb = false -> R s s' -> R (job_finish c j s) s'.
Proof.
  intros j jb s s' N G H. unfold job_finish. rewrite N. destruct (j_st jb); try exact H.
  apply (run_cb_l B c CFG).
  - pose proof (job_cb_side B _ _ _ _ H N) as K. rewrite G in K. exact K.
  - eapply (R_set_job_st_l B j _ jb (log (j_who jb) (j_part jb) HEnd Pool s)); [exact N|exact G|].
    apply R_log_l; [apply gj_false; exact G|exact H].
Qed.
Lemma job_finish_b : forall j s s', (forall jb, nth_error (jobs s) j = Some jb -> gj jb = true) -> R s s' ->
  R (job_finish c j s) (job_finish c (rank gj (jobs s) j) s').
Proof.
  intros j s s' G H. unfold job_finish. destruct (nth_error (jobs s) j) as [jb|] eqn:N.
  - pose proof (G _ eq_refl) as Gk. rewrite (R_nth_job B _ _ _ _ H N Gk).
    assert (G2 : forall jb0, nth_error (jobs s) j = Some jb0 -> gj jb0 = true) by (intros jb0 N0; rewrite N in N0; apply G; exact N0).
    destruct (j_st jb); try exact H.
    apply (run_cb_b B c CFG).
    + pose proof (job_cb_side B _ _ _ _ H N) as K. rewrite Gk in K. exact K.
    + apply (R_set_job_st_b B j _ (log (j_who jb) (j_part jb) HEnd Pool s)); [exact G2|].
      apply R_log_b; [apply gj_true; exact Gk|exact H].
  - rewrite (R_nth_job_none B _ _ _ H N). exact H.
Qed.

(* ---------------------------------------------------------------- awaitable writes, exit, outgoing requests *)
Lemma write_step_l : forall w r s s', wq s = w :: r -> gw w = false -> R s s' -> R (write_step c s) s'.
Proof.
  intros w r s s' W G H. unfold write_step. rewrite W. destruct w as [f|rc]; [|discriminate].
  apply (do_write_l B c CFG).
  - cbn [good_w] in G. apply negb_false_iff in G. apply (own_vis B). exact G.
  - eapply R_set_wq_l; eassumption.
Qed.
Lemma write_step_b : forall s s', (forall w r, wq s = w :: r -> gw w = true) -> R s s' -> R (write_step c s) (write_step c s').
Proof.
  intros s s' G H. unfold write_step. destruct (wq s) as [|w r] eqn:W.
  - rewrite (r_wq _ _ _ H), W. exact H.
  - pose proof (G _ _ eq_refl) as Gw. destruct (R_set_wq_b B w r _ _ W Gw H) as [W' H1]. rewrite W'.
    destruct w as [f|rc].
    + destruct (no_show f) eqn:NS.
      * apply (do_write_b B c CFG); [|exact H1]. unfold vis. cbn [good_w] in Gw. rewrite Gw, NS. reflexivity.
      * apply (do_write_l B c CFG); [unfold vis; rewrite NS; apply andb_false_r|].
        apply (do_write_r B c CFG); [exact NS|exact H1].
    + rewrite (r_exitq _ _ _ H). apply R_set_exitq_b, R_set_closed_b. exact H1.
Qed.

Lemma exit_cb_b : forall s s', R s s' -> R (exit_cb s) (exit_cb s').
Proof.
  intros s s' H. unfold exit_cb. rewrite (r_exitq _ _ _ H). destruct (exitq s); [exact H|].
  apply R_set_exit_b, R_set_exitq_b. exact H.
Qed.

Lemma user_send_b : forall i s s', gid i = true -> R s s' -> R (user_send c i s) (user_send c i s').
Proof.
  intros i s s' G H. unfold user_send. rewrite (r_outg _ _ _ H).
  apply (send_data_b B c CFG); [reflexivity|].
  set (s1 := set_outg (snoc (outg s) OPending) s). set (s1' := set_outg (snoc (outg s) OPending) s').
  assert (H1 : R s1 s1') by (apply R_set_outg_b; exact H).
  assert (H2 : R (fut_set i (FOut (length (outg s))) s1) (fut_set i (FOut (length (outg s))) s1')).
  { apply (R_fut_set_b B i (FOut (length (outg s))) s1 s1' G); [|exact H1]. exact G. }
  exact (R_set_rtypes_b B i _ _ G H2).
Qed.

(* ---------------------------------------------------------------- one event *)
Lemma fold_step_exit : forall l s z, exit s = Some z -> fold_left (step c) l s = s.
Proof.
  induction l as [|e l IH]; intros s z E; [reflexivity|]. cbn [fold_left].
  assert (X : step c s e = s) by (unfold step; rewrite E; reflexivity). rewrite X. eapply IH. exact E.
Qed.

Lemma step_none : forall s e, exit s = None -> step c s e =
  match e with
  | Recv f => recv c f s | TaskStep t => task_step t s | LoopCb t => loop_cb c t s
  | JobStart j => job_start j s | JobFinish j => job_finish c j s | WriteStep => write_step c s
  | ExitCb => exit_cb s | UserSend i => user_send c i s
  end.
Proof. intros s e E. unfold step. rewrite E. reflexivity. Qed.

Theorem step_sim : forall me s s', R s s' -> wf1 B s me = true ->
  R (step c s (snd me)) (fold_left (step c) (erase1 B s me) s').
Proof.
  intros [m e] s s' H W. cbn [snd]. destruct (exit s) as [z|] eqn:X.
  - assert (X' : exit s' = Some z) by (rewrite (r_exit _ _ _ H); exact X).
    rewrite (fold_step_exit _ _ _ X'). unfold step. rewrite X. exact H.
  - assert (X' : exit s' = None) by (rewrite (r_exit _ _ _ H); exact X).
    rewrite (step_none _ _ X). unfold erase1. cbn [fst snd]. destruct m.
    + cbn [fold_left]. destruct e; cbn [wf1] in W; try discriminate. apply recv_l; assumption.
    + destruct e as [f|t|t|j|j| | |i]; cbn [wf1] in W.
      * cbn [fold_left]. rewrite (step_none _ _ X'). apply recv_b; assumption.
      * unfold erase_task. destruct (nth_error (tasks s) t) as [tk|] eqn:N.
        -- destruct (gt tk) eqn:G; cbn [fold_left].
           ++ rewrite (step_none _ _ X'). apply task_step_b; [|exact H]. intros tk0 N0. congruence.
           ++ eapply task_step_l; eassumption.
        -- cbn [fold_left]. rewrite (step_none _ _ X'). apply task_step_b; [|exact H]. intros tk0 N0. congruence.
      * unfold erase_task. destruct (nth_error (tasks s) t) as [tk|] eqn:N.
        -- destruct (gt tk) eqn:G; cbn [fold_left].
           ++ rewrite (step_none _ _ X'). apply loop_cb_b; [|exact H]. intros tk0 N0. congruence.
           ++ eapply loop_cb_l; eassumption.
        -- cbn [fold_left]. rewrite (step_none _ _ X'). apply loop_cb_b; [|exact H]. intros tk0 N0. congruence.
      * unfold erase_job. destruct (nth_error (jobs s) j) as [jb|] eqn:N.
        -- destruct (gj jb) eqn:G; cbn [fold_left].
           ++ rewrite (step_none _ _ X'). apply job_start_b; [|exact H]. intros jb0 N0. congruence.
           ++ eapply job_start_l; eassumption.
        -- cbn [fold_left]. rewrite (step_none _ _ X'). apply job_start_b; [|exact H]. intros jb0 N0. congruence.
      * unfold erase_job. destruct (nth_error (jobs s) j) as [jb|] eqn:N.
        -- destruct (gj jb) eqn:G; cbn [fold_left].
           ++ rewrite (step_none _ _ X'). apply job_finish_b; [|exact H]. intros jb0 N0. congruence.
           ++ eapply job_finish_l; eassumption.
        -- cbn [fold_left]. rewrite (step_none _ _ X'). apply job_finish_b; [|exact H]. intros jb0 N0. congruence.
      * destruct (wq s) as [|w r] eqn:Q.
        -- cbn [fold_left]. rewrite (step_none _ _ X'). apply write_step_b; [|exact H]. intros w r E. congruence.
        -- destruct (gw w) eqn:G; cbn [fold_left].
           ++ rewrite (step_none _ _ X'). apply write_step_b; [|exact H]. intros w0 r0 E. congruence.
           ++ eapply write_step_l; eassumption.
      * cbn [fold_left]. rewrite (step_none _ _ X'). apply exit_cb_b. exact H.
      * cbn [fold_left]. rewrite (step_none _ _ X'). apply user_send_b; assumption.
Qed.

(* ---------------------------------------------------------------- whole schedules *)
Theorem run_sim : forall mevs s s', R s s' -> wf_from B c s mevs = true ->
  R (fold_left (step c) (unmark mevs) s) (fold_left (step c) (erase_from B c s mevs) s').
Proof.
  induction mevs as [|me r IH]; intros s s' H W; [exact H|].
  cbn [wf_from] in W. apply andb_true_iff in W. destruct W as [W1 W2].
  cbn [unmark map fold_left erase_from]. rewrite fold_left_app.
  apply IH; [|exact W2]. apply step_sim; assumption.
Qed.
End Sim5.

(* the non-interference theorem of C06: what is observed of the run with the marked frames, when
   everything that belongs to them is ignored, is exactly what is observed of the run without them *)
Theorem noninterference : forall c B mevs, cfg_ok c = true -> wf c B mevs = true ->
  core_of B (run c (unmark mevs)) = obs (run c (erase c B mevs)).
Proof.
  intros c B mevs C W. apply R_core. unfold run, erase. apply run_sim; [exact C|apply R_init|exact W].
Qed.
