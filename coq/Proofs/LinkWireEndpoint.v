(* LINK between the wire model of C03 (Model/Wire.v: what one send writes; sessions; schedules of atomic
   writes) and the endpoint model of C01/C08/C09/C16 (Model/Endpoint.v: WHICH frames the endpoint
   hands to its writer under every schedule).  Neither model is edited.

   Endpoint.out s is the list of abstract frames (oframe) that reached the transport, in order.  Here
   every oframe is rendered as the sending call of the wire model that produces it (to_send) and as
   the JSON tree that call puts on the wire (render); the bytes of an endpoint state are then what the
   wire model's _send_data / StdoutWriter write for those calls.  Payload values are abstract in the
   endpoint model: their rendering is a Section variable; nothing is assumed about it beyond its type
   (any JSON value - the wire theorems hold for every JSON value).

   Results (every configuration, every event list = every schedule):
     link_stream_is_wire_model   the byte stream is the wire model's stream for the rendered sends
     link_blocking               (1) it is a concatenation of whole frames decoding to exactly `out`
     link_awaitable_*            (2) awaitable writer: `out` (hence the stream) changes only at a
                                 WriteStep, by exactly the frame at the head of wq; same decoding
     link_failing_writer         (3) writer failing from the k-th write on: the stream is a prefix of
                                 the working run's stream made of whole frames only (uses
                                 C15Endpoint.failing_writer_core) *)
From Coq Require Import ZArith NArith List Bool Arith Lia.
From Pygls Require Import Base.Unicode Base.Json Spec.WireSpec Proofs.JsonProofs.
From Pygls Require Import Model.Wire Proofs.WireProofs.
From Pygls Require Import Base.Assoc Model.Endpoint Proofs.C15Endpoint.
Import ListNotations.

(* the wire configuration the endpoint model's stdio transport stands for: StdoutWriter, headers on *)
Definition wire_cfg : Wire.cfg := {| Wire.writer := WStdout; Wire.include_headers := true |}.
Lemma wire_cfg_framed : framed wire_cfg = true. Proof. reflexivity. Qed.

Section Render.
  (* rendering of the abstract payloads *)
  Variable render_val : rval -> json.                 (* a handler's result *)
  Variable err_message : Z -> list N.                 (* ResponseError.message for a code *)
  Variable err_data : Z -> json.                      (* ResponseError.data (JNull = None) *)
  Variable notif_method : onmeth -> list N.
  Variable notif_params : onmeth -> json.
  Variable req_method : id -> list N.
  Variable req_params : id -> json.

  Definition render_id (i : id) : json := match i with IInt z => JInt z | IStr s => JStr s end.
  Definition render_err (code : Z) : rerror :=
    {| e_code := code; e_message := err_message code; e_data := err_data code |}.

  (* the sending call of the wire model that emits this frame *)
  Definition to_send (f : oframe) : send :=
    match f with
    | OResp i (PResult v) => SResponse (render_id i) (Some (render_val v))
    | OResp i (PError code) => SError (render_id i) (render_err code)
    | ONotif m => SNotify (notif_method m) (Some (notif_params m))
    | OReq i => SRequest (render_id i) (req_method i) (Some (req_params i))
    end.

  (* the JSON tree on the wire *)
  Definition render (f : oframe) : json :=
    match f with
    | OResp i (PResult v) => response_tree (render_id i) (render_val v)
    | OResp i (PError code) => error_response_tree (render_id i) (render_err code)
    | ONotif m => notification_tree (notif_method m) (notif_params m)
    | OReq i => request_tree (render_id i) (req_method i) (req_params i)
    end.

  Lemma sent_trees_to_send f : sent_trees (to_send f) = [render f].
  Proof. destruct f as [i [v|code] | m | i]; reflexivity. Qed.

  Lemma sent_trees_map fs : flat_map sent_trees (map to_send fs) = map render fs.
  Proof.
    induction fs as [|f r IH]; [reflexivity|].
    cbn [map flat_map]. rewrite sent_trees_to_send, IH. reflexivity.
  Qed.

  (* the byte stream of an endpoint state / run: one frame per element of `out` *)
  Definition stream_of (s : st) : list N :=
    concat (map (fun f => WireProofs.frame (dumps (render f))) (out s)).
  Definition stream (c : cfg) (evs : list ev) : list N := stream_of (run c evs).

  (* ... is exactly what the wire model writes (header + body in ONE write, then flush, per frame)
     for the corresponding sending calls *)
  Theorem link_stream_is_wire_model s :
    stream_of s = Wire.stream (sender_ops wire_cfg (map to_send (out s))) /\
    sender_ops wire_cfg (map to_send (out s)) =
      flat_map (fun f => [TWrite (WireProofs.frame (dumps (render f))); TFlush]) (out s).
  Proof.
    rewrite (sender_ops_frames wire_cfg _ wire_cfg_framed), sent_trees_map. split.
    - rewrite stream_frames by discriminate. unfold stream_of. rewrite !map_map. reflexivity.
    - cbn [Wire.writer wire_cfg]. induction (out s) as [|f r IH]; [reflexivity|].
      cbn [map flat_map]. rewrite IH. reflexivity.
  Qed.

  (* whole frames, decoding to exactly the frames of `out`, in order: for ANY endpoint state *)
  Lemma stream_of_decodes s : spec_decode (stream_of s) = Some (map (fun f => dumps (render f)) (out s)).
  Proof.
    unfold stream_of. rewrite <- (map_map (fun f => dumps (render f)) WireProofs.frame).
    apply spec_decode_frames.
  Qed.

  (* every body reads back as the rendered frame (for payload renderings JSON can carry) *)
  Lemma stream_of_reads_back s : Forall (fun f => json_wf (render f) = true) (out s) ->
    Forall2 (fun b f => loads_chars b = Some (render f)) (map (fun f => dumps (render f)) (out s)) (out s).
  Proof.
    induction 1 as [|f r Hf _ IH]; [constructor|]. cbn [map]. constructor; [apply loads_dumps, Hf|exact IH].
  Qed.

  (* (1) blocking writer, working transport, every event list *)
  Theorem link_blocking c evs : c_writer c = WBlocking -> c_wfail c = None ->
    spec_decode (stream c evs) = Some (map (fun f => dumps (render f)) (out (run c evs))).
  Proof. intros _ _. apply stream_of_decodes. Qed.

  (* (3) a writer that fails from its k-th write on: exactly the first k frames of the working run
     reached the transport, so the stream is a prefix of the working run's stream, cut at a frame
     boundary, and decodes to the first k bodies *)
  Theorem link_failing_writer c k evs : c_wfail c = None ->
    let a := run (failing_from c k) evs in
    let s := run c evs in
    out a = firstn k (out s) /\
    (exists rest, stream_of s = stream_of a ++ rest /\
                  rest = concat (map (fun f => WireProofs.frame (dumps (render f))) (skipn k (out s)))) /\
    spec_decode (stream_of a) = Some (firstn k (map (fun f => dumps (render f)) (out s))).
  Proof.
    intros WF a s. destruct (failing_writer_core c k evs WF) as (_ & Ho & _). fold a s in Ho.
    split; [exact Ho|]. split.
    - eexists. split; [|reflexivity]. unfold stream_of. rewrite Ho.
      rewrite <- concat_app, <- map_app, firstn_skipn. reflexivity.
    - rewrite stream_of_decodes, Ho, firstn_map. reflexivity.
  Qed.
End Render.

(* ---------- (2) the awaitable writer: `out` moves only at a WriteStep ---------- *)
Section Awaitable.
  Variable c : cfg.
  Hypothesis AW : c_writer c = WAwaitable.

  Lemma k_write_call sv f s : out (fst (write_call c sv f s)) = out s.
  Proof. unfold write_call. rewrite AW. destruct sv; reflexivity. Qed.

  Lemma k_hook sv src s : out (hook c sv src s) = out s.
  Proof.
    unfold hook. destruct (c_hook c); try reflexivity. destruct src; try reflexivity;
      rewrite (surjective_pairing (write_call c sv (ONotif NShowMessage) (add_err _ s)));
      destruct (snd _); cbn [out set_storm]; rewrite k_write_call; reflexivity.
  Qed.

  Lemma k_send_data sv f ok s : out (fst (send_data c sv f ok s)) = out s.
  Proof.
    unfold send_data. destruct (negb ok); cbn [fst]; [apply k_hook|].
    rewrite (surjective_pairing (write_call c sv f s)). cbn [fst].
    destruct (snd _); rewrite ?k_hook; apply k_write_call.
  Qed.

  Lemma k_send_response sv i r s : out (send_response c sv i r s) = out s.
  Proof.
    unfold send_response. destruct r as [code|v ok]; [apply k_send_data|].
    rewrite (surjective_pairing (send_data c sv (OResp i (PResult v)) ok (rtype_pop i s))).
    destruct (snd _); rewrite ?k_send_data; reflexivity.
  Qed.

  Lemma k_run_cb sv cb r s : out (run_cb c sv cb r s) = out s.
  Proof.
    unfold run_cb, request_callback, notification_callback.
    destruct cb, r; cbn [out fut_pop set_futs]; rewrite ?k_hook, ?k_send_response; reflexivity.
  Qed.

  Lemma k_cancel_ref r s : out (cancel_ref c r s) = out s.
  Proof.
    unfold cancel_ref. destruct r as [t|j|o].
    - destruct (nth_error (tasks s) t) as [tk|]; [|reflexivity]. destruct (t_st tk); reflexivity.
    - destruct (nth_error (jobs s) j) as [jb|]; [|reflexivity].
      destruct (j_st jb); try reflexivity. rewrite k_run_cb. reflexivity.
    - destruct (nth_error (outg s) o) as [[| |]|]; reflexivity.
  Qed.

  Lemma k_submit w p cb b early reg s : (forall j s', out (reg j s') = out s') ->
    out (submit c w p cb b early reg s) = out s.
  Proof.
    intros R. unfold submit. destruct early; [rewrite k_run_cb|]; rewrite R; reflexivity.
  Qed.

  Lemma k_execute_request i p b s : out (fst (execute_request c i p b s)) = out s.
  Proof.
    unfold execute_request. destruct (bkind b); cbn [fst].
    - destruct (bout b); cbn [fst]; rewrite ?k_send_response; reflexivity.
    - reflexivity.
    - apply k_submit. reflexivity.
  Qed.

  Lemma k_exec_notification w p b s : out (fst (exec_notification c w p b s)) = out s.
  Proof.
    unfold exec_notification. destruct (bkind b); cbn [fst]; try reflexivity. apply k_submit. reflexivity.
  Qed.

  Lemma k_chain w u s : out (chain c w u s) = out s.
  Proof. unfold chain. destruct u; [apply k_exec_notification|reflexivity]. Qed.

  Lemma k_on_exc i x s : out (on_exc c i x s) = out s.
  Proof. unfold on_exc. destruct x as [[|code]|]; rewrite ?k_hook, ?k_send_response; reflexivity. Qed.

  Lemma k_fold_cancel rs : forall s, out (fold_left (fun s' r => cancel_ref c r s') rs s) = out s.
  Proof. induction rs as [|r rs IH]; intros s; [reflexivity|]. cbn [fold_left]. rewrite IH. apply k_cancel_ref. Qed.

  Lemma k_lsp_shutdown s : out (lsp_shutdown c s) = out s.
  Proof. unfold lsp_shutdown. cbn [out set_shutdown]. apply k_fold_cancel. Qed.

  Lemma k_handle_request i m s : out (handle_request c i m s) = out s.
  Proof.
    unfold handle_request. destruct m as [|b|u|fails u|cmd u].
    - rewrite k_hook, k_send_response. reflexivity.
    - rewrite (surjective_pairing (execute_request c i PUser b s)). rewrite k_on_exc. apply k_execute_request.
    - rewrite k_send_response, k_chain. cbn [out log set_hlog]. rewrite k_lsp_shutdown. reflexivity.
    - destruct fails; [rewrite k_on_exc|rewrite k_send_response, k_chain]; reflexivity.
    - destruct cmd as [b|]; [|rewrite k_on_exc; reflexivity].
      rewrite (surjective_pairing (execute_request c i PCommand b _)).
      destruct (snd _); [rewrite k_on_exc|rewrite k_chain]; cbn [out log set_hlog];
        rewrite k_execute_request; reflexivity.
  Qed.

  Lemma k_handle_notification tag m s : out (handle_notification c tag m s) = out s.
  Proof.
    unfold handle_notification, cancel_notification, lsp_exit. destruct m as [|b|i|u|fails u].
    - reflexivity.
    - rewrite (surjective_pairing (exec_notification c (WNot tag) PUser b s)).
      destruct (snd _); rewrite ?k_hook; apply k_exec_notification.
    - destruct (Assoc.get id_eqb i (futs s)); [rewrite k_cancel_ref|]; reflexivity.
    - rewrite AW, k_chain. reflexivity.
    - destruct fails; [rewrite k_hook|rewrite k_chain]; reflexivity.
  Qed.

  Lemma k_handle_response i s : out (handle_response c i s) = out s.
  Proof.
    unfold handle_response. destruct (Assoc.get id_eqb i (futs s)) as [[t|j|o]|]; cbn [out set_undef];
      rewrite ?k_hook; try reflexivity.
    destruct (nth_error (outg (fut_pop i s)) o) as [[| |]|]; rewrite ?k_hook; reflexivity.
  Qed.

  Lemma k_recv f s : out (recv c f s) = out s.
  Proof.
    unfold recv. destruct f as [|v i ps m|v tag ps m|v i iserr ps].
    - apply k_hook.
    - destruct ps; rewrite ?k_hook, ?k_send_response; try reflexivity.
      destruct (negb v); [apply k_hook|]. destruct (shutdown s); [reflexivity|apply k_handle_request].
    - destruct ps; rewrite ?k_hook; try reflexivity.
      destruct (negb v); [apply k_hook|]. destruct (shutdown s && negb (is_exit m)); [reflexivity|].
      apply k_handle_notification.
    - destruct (negb iserr && negb (Assoc.mem id_eqb i (rtypes s))); [rewrite k_hook; reflexivity|].
      destruct ps; rewrite ?k_hook; try reflexivity.
      destruct (negb v); [rewrite k_hook; reflexivity|].
      destruct (shutdown (rtype_pop i s)); [reflexivity|]. rewrite k_handle_response. reflexivity.
  Qed.

  Lemma k_task_step t s : out (task_step t s) = out s.
  Proof.
    unfold task_step, task_advance, task_finish. destruct (nth_error (tasks s) t) as [tk|]; [|reflexivity].
    destruct (t_st tk) as [started lft mc| |]; try reflexivity.
    destruct mc, started, lft, (breact (t_b tk)); reflexivity.
  Qed.

  Lemma k_loop_cb t s : out (loop_cb c t s) = out s.
  Proof.
    unfold loop_cb. destruct (nth_error (tasks s) t) as [tk|]; [|reflexivity].
    destruct (t_st tk); try reflexivity. rewrite k_run_cb. reflexivity.
  Qed.

  Lemma k_job_start j s : out (job_start j s) = out s.
  Proof.
    unfold job_start. destruct (nth_error (jobs s) j) as [jb|]; [|reflexivity]. destruct (j_st jb); reflexivity.
  Qed.

  Lemma k_job_finish j s : out (job_finish c j s) = out s.
  Proof.
    unfold job_finish. destruct (nth_error (jobs s) j) as [jb|]; [|reflexivity].
    destruct (j_st jb); try reflexivity. rewrite k_run_cb. reflexivity.
  Qed.

  Lemma k_user_send i s : out (user_send c i s) = out s.
  Proof. unfold user_send. rewrite k_send_data. reflexivity. Qed.

  Lemma k_exit_cb s : out (exit_cb s) = out s.
  Proof. unfold exit_cb. destruct (exitq s); reflexivity. Qed.

  (* every event other than a WriteStep leaves `out` - and therefore the byte stream - as it is:
     sends only queue (wq), whatever thread or handler they come from *)
  Theorem link_awaitable_only_write_step s e : e <> WriteStep -> out (step c s e) = out s.
  Proof.
    intros NE. unfold step. destruct (exit s); [reflexivity|].
    destruct e; [apply k_recv|apply k_task_step|apply k_loop_cb|apply k_job_start|apply k_job_finish|
                 congruence|apply k_exit_cb|apply k_user_send].
  Qed.

  (* a WriteStep hands over exactly the frame at the head of the queue (whole), or nothing *)
  Theorem link_awaitable_write_step s :
    out (step c s WriteStep) = out s \/
    exists f r, wq s = WFrame f :: r /\ out (step c s WriteStep) = out s ++ [f].
  Proof.
    unfold step. destruct (exit s); [left; reflexivity|]. unfold write_step.
    destruct (wq s) as [|[f|rc] r]; [left; reflexivity| |left; reflexivity].
    unfold do_write. cbn [closed set_wq]. destruct (closed s); [left; reflexivity|].
    cbn [nwrites set_wq]. destruct (failing c (nwrites s)); [left; reflexivity|].
    right. exists f, r. split; reflexivity.
  Qed.
End Awaitable.

(* (2), assembled: awaitable writer, every event list.  The stream decodes to exactly the frames whose
   WriteStep happened (= out); one more event changes it only if it is a WriteStep, and then by one
   whole frame appended at the end. *)
Section Link2.
  Variable render_val : rval -> json.
  Variable err_message : Z -> list N.
  Variable err_data : Z -> json.
  Variable notif_method : onmeth -> list N.
  Variable notif_params : onmeth -> json.
  Variable req_method : id -> list N.
  Variable req_params : id -> json.
  Let rd := render render_val err_message err_data notif_method notif_params req_method req_params.
  Let strm := stream render_val err_message err_data notif_method notif_params req_method req_params.

  Lemma run_snoc c evs e : run c (evs ++ [e]) = step c (run c evs) e.
  Proof. unfold run. rewrite fold_left_app. reflexivity. Qed.

  Theorem link_awaitable c evs : c_writer c = WAwaitable ->
    spec_decode (strm c evs) = Some (map (fun f => dumps (rd f)) (out (run c evs))) /\
    (forall e, e <> WriteStep -> strm c (evs ++ [e]) = strm c evs) /\
    (strm c (evs ++ [WriteStep]) = strm c evs \/
     exists f r, wq (run c evs) = WFrame f :: r /\
       strm c (evs ++ [WriteStep]) = strm c evs ++ WireProofs.frame (dumps (rd f))).
  Proof.
    intros AW. split; [unfold strm, rd, stream; apply stream_of_decodes|]. split.
    - intros e NE. unfold strm, rd, stream, stream_of. rewrite run_snoc.
      rewrite (link_awaitable_only_write_step c AW _ e NE). reflexivity.
    - unfold strm, rd, stream, stream_of. rewrite run_snoc.
      destruct (link_awaitable_write_step c (run c evs)) as [E|(f & r & Ew & E)].
      + left. rewrite E. reflexivity.
      + right. exists f, r. split; [exact Ew|]. rewrite E, map_app, concat_app. cbn [map concat].
        rewrite app_nil_r. reflexivity.
  Qed.
End Link2.
