(* Proofs/LinkExceptionsEndpoint.v - the two models of the server-side error mapping agree.

   Model/Exceptions.v (C07) answers a request by a pure function of (params status, target,
   cancelled, handler outcome); Model/Endpoint.v (C01/C08/...) is the endpoint state machine whose
   replies appear in `out (run c evs)`.  Both are tied to the code separately.  Here: for every
   configuration and every event list, every reply `OResp i p` that reaches the transport is the
   reply Exceptions.server_reply assigns to a request frame with id i of the history
   (`classify` translates the frame and the one bit "its future was cancelled" into an
   Exceptions.request) - the same error code, and a result only where the mapping says result.
   Bridge: C08's provenance theorem reply_is_allowed (no guard), then a finite case analysis
   "allowed replies = the mapping's image" (natural_is_mapping, cancelled_is_mapping).

   Hypothesis carried explicitly (codes_int32): the codes of the JSON-RPC exceptions that handlers
   of the history raise are LSP integers.  Outside it the models DISAGREE (link_disagrees_wide_code):
   Endpoint.v answers `ORaiseRpc c` with `PError c` for every c : Z, Exceptions.v says no reply at
   all for c outside int32 - and the real code does not reply (finding C07 wide-own-code), so
   Endpoint.v over-approximates there. *)
From Coq Require Import ZArith NArith List Bool Lia.
From Pygls Require Model.Exceptions Spec.ExceptionsSpec Gen.ExcTable Proofs.ExceptionsProofs.
From Pygls Require Import Base.Assoc Model.Endpoint Spec.CancelSpec Proofs.C08Proofs.
Import ListNotations.
Local Open Scope Z_scope.

Module X := Pygls.Model.Exceptions.
Module XS := Pygls.Spec.ExceptionsSpec.
Module XT := Pygls.Gen.ExcTable.

(* ---------------------------------------------------------------- the translation *)
Notation xreq := (X.request unit) (only parsing).

Definition kind_of (k : kind) : X.hkind :=
  match k with HSync => X.HSync | HAsync _ => X.HAsync | HThread _ => X.HThread end.

(* Endpoint.v keeps of a raised JSON-RPC exception only its code: any class, message and data *)
Definition outcome_of (o : outcome) : X.houtcome unit :=
  match o with
  | ORet _ => X.HRet
  | ORetUnser => X.HRetUnser
  | ORaise => X.HRaiseOther [] tt
  | ORaiseRpc c => X.HRaiseRpc (X.mkExc XT.base_entry c [] None)
  end.

Definition params_of (ps : pstat) : X.pstatus :=
  match ps with POk => X.POk | PBad => X.PBadValidation | PFail => X.PBadOther end.

(* a built-in is a plain function found by _get_handler: it returns, or raises something that
   is not a JSON-RPC exception *)
Definition target_outcome_of (m : rmethod) : X.target unit * X.houtcome unit :=
  match m with
  | RUnknown => (X.TUnknown, X.HRet)
  | RUser b => (X.TFeature (kind_of (bkind b)), outcome_of (bout b))
  | RShutdown _ => (X.TFeature X.HSync, X.HRet)
  | RBuiltin fails _ => (X.TFeature X.HSync, if fails then X.HRaiseOther [] tt else X.HRet)
  | RCommand None _ => (X.TCommandUnknown [] tt, X.HRet)
  | RCommand (Some b) _ => (X.TCommandKnown (kind_of (bkind b)), outcome_of (bout b))
  end.

(* frame (params status, method class + behaviour) and "the future was cancelled" -> the request
   Exceptions.v speaks of; method name and id text do not influence the code *)
Definition classify (ps : pstat) (m : rmethod) (cancelled : bool) : xreq :=
  X.mkReq [] [] (params_of ps) (fst (target_outcome_of m)) cancelled (snd (target_outcome_of m)).

(* what Exceptions' mapping answers: Some None = a result, Some (Some c) = an error with code c,
   None = no reply *)
Definition server_code (q : xreq) : option (option Z) :=
  match X.server_reply XT.current_table q with
  | X.SReply X.RResult => Some None
  | X.SReply (X.RError e) => Some (Some (X.r_code e))
  | _ => None
  end.

Definition code_of_payload (p : payload) : option Z :=
  match p with PResult _ => None | PError c => Some c end.

(* ---------------------------------------------------------------- the guard *)
Definition rpc_code_ok (m : rmethod) : Prop :=
  forall b c, handler_of m = Some b -> bout b = ORaiseRpc c -> X.int32 c = true.

Definition rpc_code_ok_b (b : behav) : Prop := forall c, bout b = ORaiseRpc c -> X.int32 c = true.

(* every JSON-RPC exception a request handler of the history raises has an LSP-integer code *)
Definition codes_int32 (evs : list ev) : Prop :=
  forall v i ps m, In (Recv (FReq v i ps m)) evs -> rpc_code_ok m.

(* ---------------------------------------------------------------- allowed replies = image of the mapping *)
Lemma own_code_reply : forall c, X.int32 c = true ->
  X.send_error (X.mkExc (D:=unit) XT.base_entry c [] None) = X.SReply (X.RError (X.mkErr c [] None)).
Proof. intros c H. unfold X.send_error, X.to_response_error. cbn [X.x_code X.x_msg X.x_data]. rewrite H. reflexivity. Qed.

(* the reply of a request nobody cancels *)
Lemma handler_is_mapping : forall b tg, rpc_code_ok_b b ->
  (tg = X.TFeature (kind_of (bkind b)) \/ tg = X.TCommandKnown (kind_of (bkind b))) ->
  match X.handle_request XT.current_table (X.mkReq [] [] X.POk tg false (outcome_of (bout b))) with
  | X.SReply X.RResult => Some None
  | X.SReply (X.RError e) => Some (Some (X.r_code e))
  | _ => None
  end = Some (code_of_payload (natural_of (bout b))).
Proof.
  intros [k o r] tg G Htg. unfold rpc_code_ok_b in G. cbn [bkind bout] in *.
  unfold X.handle_request. cbn [X.q_target X.q_method X.q_idtxt X.q_cancelled X.q_outcome].
  destruct o as [v| | |c].
  - destruct Htg as [-> | ->]; destruct k; vm_compute; reflexivity.
  - destruct Htg as [-> | ->]; destruct k; vm_compute; reflexivity.
  - destruct Htg as [-> | ->]; destruct k; vm_compute; reflexivity.
  - pose proof (own_code_reply c (G c eq_refl)) as E.
    destruct Htg as [-> | ->]; destruct k;
      cbn [kind_of outcome_of X.execute_request X.execute_request_callback X.reply_of_outcome
           natural_of code_of_payload]; rewrite E; reflexivity.
Qed.

(* the reply of a request nobody cancels *)
Theorem natural_is_mapping : forall ps m, rpc_code_ok m ->
  server_code (classify ps m false) = Some (code_of_payload (natural ps m)).
Proof.
  intros ps m G. unfold server_code, classify, X.server_reply.
  destruct ps; cbn [params_of X.structure_request X.q_params natural].
  2: { vm_compute; reflexivity. }
  2: { vm_compute; reflexivity. }
  destruct m as [|b|u|fails u|[b|] u]; cbn [target_outcome_of fst snd natural].
  - vm_compute; reflexivity.
  - apply handler_is_mapping; [|left; reflexivity].
    intros c Ho. exact (G b c eq_refl Ho).
  - vm_compute; reflexivity.
  - destruct fails; vm_compute; reflexivity.
  - apply handler_is_mapping; [|right; reflexivity].
    intros c Ho. exact (G b c eq_refl Ho).
  - vm_compute; reflexivity.
Qed.

(* the reply of a cancelled coroutine / thread request *)
Theorem cancelled_is_mapping : forall m, cancellable m = true ->
  server_code (classify POk m true) = Some (Some code_cancelled).
Proof.
  intros m H. unfold cancellable in H.
  destruct m as [|b|u|fails u|[b|] u]; cbn [handler_of] in H; try discriminate;
    destruct b as [k o r]; unfold is_sync in H; cbn [bkind] in H; destruct k; try discriminate;
    reflexivity.
Qed.

(* conversely the mapping never says "cancelled" for a request a plain function executes, or
   whose frame is rejected: the cancelled bit is ignored there *)
Theorem cancel_bit_ignored : forall ps m, (ps <> POk \/ cancellable m = false) ->
  server_code (classify ps m true) = server_code (classify ps m false).
Proof.
  intros ps m [H|H].
  - destruct ps; [congruence| |]; reflexivity.
  - destruct ps; try reflexivity. unfold cancellable in H.
    destruct m as [|b|u|fails u|[b|] u]; cbn [handler_of] in H; try reflexivity;
      destruct b as [k o r]; unfold is_sync in H; cbn [bkind] in H; destruct k; try discriminate; reflexivity.
Qed.

(* ---------------------------------------------------------------- the link *)
(* every reply of the endpoint is the mapping's reply to a request frame with that id *)
Theorem link_reply_code : forall c evs i p, codes_int32 evs ->
  In (OResp i p) (out (run c evs)) ->
  exists v ps m cancelled,
    In (Recv (FReq v i ps m)) evs /\
    (cancelled = true -> ps = POk /\ cancellable m = true /\ named i evs = true) /\
    server_code (classify ps m cancelled) = Some (code_of_payload p).
Proof.
  intros c evs i p G HI. apply reply_is_allowed, allowedb_spec in HI.
  destruct HI as (v & ps & m & HE & [H|(H1 & H2 & H3 & H4)]).
  - exists v, ps, m, false. split; [exact HE|]. split; [discriminate|].
    subst p. apply natural_is_mapping. exact (G v i ps m HE).
  - exists v, ps, m, true. split; [exact HE|]. split; [intros _; repeat split; assumption|].
    subst p ps. apply cancelled_is_mapping. exact H3.
Qed.

(* request ids pairwise distinct: "the" request with id i *)
Definition only_request (evs : list ev) (i : id) (ps : pstat) (m : rmethod) : Prop :=
  forall v' ps' m', In (Recv (FReq v' i ps' m')) evs -> ps' = ps /\ m' = m.

(* error replies: Endpoint's code = Exceptions.server_code (classify frame behaviour outcome) *)
Theorem link_error_code : forall c evs i code ps m, codes_int32 evs -> only_request evs i ps m ->
  In (OResp i (PError code)) (out (run c evs)) ->
  exists cancelled,
    (cancelled = true -> ps = POk /\ cancellable m = true /\ named i evs = true) /\
    server_code (classify ps m cancelled) = Some (Some code).
Proof.
  intros c evs i code ps m G U HI.
  destruct (link_reply_code c evs i _ G HI) as (v & ps' & m' & cn & HE & Hc & H).
  destruct (U v ps' m' HE) as [-> ->]. exists cn. split; assumption.
Qed.

(* ... spelled out: which code, from the frame or from the handler's behaviour *)
Corollary link_error_code_cases : forall c evs i code ps m, codes_int32 evs -> only_request evs i ps m ->
  In (OResp i (PError code)) (out (run c evs)) ->
  match ps with
  | PBad => code = -32602
  | PFail => code = -32603
  | POk =>
    (code = -32800 /\ cancellable m = true /\ named i evs = true) \/
    match m with
    | RUnknown => code = -32601
    | RUser b | RCommand (Some b) _ =>
        match bout b with
        | ORaiseRpc k => code = k
        | ORaise | ORetUnser => code = -32603
        | ORet _ => False
        end
    | RCommand None _ => code = -32603
    | RBuiltin fails _ => fails = true /\ code = -32603
    | RShutdown _ => False
    end
  end.
Proof.
  intros c evs i code ps m G U HI.
  destruct (link_error_code c evs i code ps m G U HI) as ([|] & Hc & H).
  - destruct (Hc eq_refl) as (-> & Hcan & Hn). left.
    rewrite (cancelled_is_mapping m Hcan) in H. injection H as <-. repeat split; assumption.
  - clear Hc.
    assert (rpc_code_ok m) as Gm.
    { apply reply_is_allowed, allowedb_spec in HI. destruct HI as (v & ps' & m' & HE & _).
      destruct (U v ps' m' HE) as [_ E]. rewrite <- E. exact (G v i ps' m' HE). }
    rewrite (natural_is_mapping ps m Gm) in H. injection H as H.
    destruct ps; cbn [natural code_of_payload] in H; try (injection H as <-; reflexivity).
    right. destruct m as [|b|u|fails u|[b|] u]; cbn [natural code_of_payload] in H;
      try (injection H as <-; reflexivity); try discriminate.
    + destruct (bout b); cbn [natural_of code_of_payload] in H; try discriminate; injection H as <-; reflexivity.
    + destruct fails; cbn [code_of_payload] in H; [injection H as <-; split; reflexivity|discriminate].
    + destruct (bout b); cbn [natural_of code_of_payload] in H; try discriminate; injection H as <-; reflexivity.
Qed.

(* a Result reply only arises where the mapping says "result" *)
Theorem link_result_only_where_mapping_says : forall c evs i v ps m, codes_int32 evs -> only_request evs i ps m ->
  In (OResp i (PResult v)) (out (run c evs)) ->
  server_code (classify ps m false) = Some None.
Proof.
  intros c evs i v ps m G U HI.
  destruct (link_reply_code c evs i _ G HI) as (v' & ps' & m' & cn & HE & Hc & H).
  destruct (U v' ps' m' HE) as [-> ->]. destruct cn; [|exact H].
  destruct (Hc eq_refl) as (-> & Hcan & _). rewrite (cancelled_is_mapping m Hcan) in H. discriminate.
Qed.

(* ---------------------------------------------------------------- non-vacuity, and where the models part *)
Definition b_async_rpc (code : Z) : behav := mkB (HAsync 0) (ORaiseRpc code) Propagate.

(* a coroutine handler raising -32600 is answered -32600 by the endpoint, and that is the mapping's
   code; the hypotheses of the link hold for this history *)
Example link_nonvacuous :
  let evs := [Recv (FReq true (IInt 1) POk (RUser (b_async_rpc (-32600)))); TaskStep 0; LoopCb 0] in
  let c := mkCfg WBlocking HookQuiet None in
  In (OResp (IInt 1) (PError (-32600))) (out (run c evs)) /\ codes_int32 evs /\
  only_request evs (IInt 1) POk (RUser (b_async_rpc (-32600))) /\
  server_code (classify POk (RUser (b_async_rpc (-32600))) false) = Some (Some (-32600)).
Proof.
  cbv zeta. split; [vm_compute; left; reflexivity|]. split; [|split; [|vm_compute; reflexivity]].
  - intros v i ps m [H|[H|[H|[]]]]; try discriminate. injection H as <- <- <- <-.
    intros b k Hb Ho. cbn [handler_of] in Hb. injection Hb as <-. cbn [bout b_async_rpc] in Ho.
    injection Ho as <-. reflexivity.
  - intros v ps m [H|[H|[H|[]]]]; try discriminate. injection H as <- <- <-. split; reflexivity.
Qed.

(* without codes_int32 the two models disagree: Endpoint.v answers PError 2^31, Exceptions.v (and
   the real code: finding wide-own-code) does not answer *)
Example link_disagrees_wide_code :
  let evs := [Recv (FReq true (IInt 1) POk (RUser (b_async_rpc 2147483648))); TaskStep 0; LoopCb 0] in
  let c := mkCfg WBlocking HookQuiet None in
  In (OResp (IInt 1) (PError 2147483648)) (out (run c evs)) /\
  server_code (classify POk (RUser (b_async_rpc 2147483648)) false) = None.
Proof. cbv zeta. split; [vm_compute; left; reflexivity|vm_compute; reflexivity]. Qed.
