(* Second tie for C09 ("shutdown closes the door; exit reports whether it was closed"): the PyMini translation of
   the SOURCE TEXT of LanguageServerProtocol.lsp_shutdown and lsp_exit (pygls/protocol/language_server.py,
   coq/Gen/AstShutdown.v, written by harness/gen_ast_shutdown.py on every run) does, for ALL states, what the
   functional specification below says, and that specification is related to Model/Endpoint.v's lsp_shutdown /
   lsp_exit at the end of the file.

   lsp_shutdown: one recorded `cancel` per entry of the snapshot list(self._request_futures.values()), in table
   order; `_shutdown` becomes True; no other attribute changes (the table is not touched by shutdown itself);
   the method returns None (a PyMini procedure: its run yields the self it leaves).
   lsp_exit: the status is 0 exactly when `_shutdown` was true, else 1; without a writer sys.exit(status) is the
   only call; with one, writer.close() comes first and then sys.exit(status) (close returned a plain value) or
   asyncio.ensure_future(res) and a done-callback calling sys.exit(status) (close returned an awaitable).

   Recorded, not executed (they leave the translated code): future.cancel(), self.writer.close(), sys.exit
   (the translation ends the run after it: SystemExit), asyncio.ensure_future, fut.add_done_callback(lambda ..).
   ORACLE: inspect.isawaitable (hypothesis Haw).
   Representation: the state holds the snapshot list(d.values()) of the in-flight table in the field
   "_request_futures.values" (harness/gen_ast_shutdown.py normalises the loop header to a read of that field). *)
From Coq Require Import ZArith NArith List String Bool Lia.
From Pygls Require Import Base.PyMini Base.PyMiniFacts.
From Pygls Require Gen.AstShutdown Model.Endpoint Base.Assoc.
Import ListNotations.
Open Scope string_scope.
Open Scope Z_scope.
Open Scope list_scope.

Notation f_lsp_shutdown := AstShutdown.f_lsp_shutdown.
Notation f_lsp_exit := AstShutdown.f_lsp_exit.

Fixpoint wcall (oracle : callT) (f : nat) (d : nat) : callT :=
  match d with
  | O => fun _ _ _ _ => Stuck "call depth"
  | S d' => fun q recv args kw =>
    match find_def q AstShutdown.prog with
    | Some fd => run_fun (wcall oracle f d') f fd recv args kw
    | None => oracle q recv args kw
    end
  end.

Lemma wcall_oracle oracle f d q recv args kw : find_def q AstShutdown.prog = None ->
  wcall oracle f (S d) q recv args kw = oracle q recv args kw.
Proof. intros H. cbn [wcall]. rewrite H. reflexivity. Qed.

Lemma wcall_S oracle f d q recv args kw fd : find_def q AstShutdown.prog = Some fd ->
  wcall oracle f (S d) q recv args kw = run_fun (wcall oracle f d) f fd recv args kw.
Proof. intros H. cbn [wcall]. rewrite H. reflexivity. Qed.

Ltac tsimp :=
  cbn [truthy run_fun bind_params exec_block exec exec_atomic eval apply_global global_method obj_method
       is_procedure is_stateful log_effect fqual fkind_of fparams fbody class_of is_init
       get set mem_str path_eqb snoc as_int b2z py_compare py_binop py_eq is_none
       py_getattr global_const ctor_table builtin bind_names set_field
       String.eqb Ascii.eqb Bool.eqb map fst snd forallb rev app andb orb negb].

(* ------------------------------------------------------------------------------------------ *)
(* the protocol object and the entries of the effect log                                       *)
Definition writer_val (present : bool) : val := if present then VObj "$writer" [] else VNone.
Definition proto_val (sd : bool) (wp : bool) (futs : list val) (rest : list (string * val)) (log : list val) : val :=
  VObj "LanguageServerProtocol"
    (("_shutdown", VBool sd) :: ("writer", writer_val wp) :: ("_request_futures.values", VList futs) ::
     ("$log", VList log) :: rest).

Definition tok_val (n : N) : val := VObj "Result" [("n", VInt (Z.of_N n))].
Definition e_cancel (fut : val) : val := VTuple [VGlobal ["$method.cancel"]; VList [fut]].
Definition e_exit (rc : Z) : val := VTuple [VGlobal ["sys.exit"]; VList [VInt rc]].
Definition e_close : val := VTuple [VGlobal ["writer"; "close"]; VList []; VList []; VBool false].
Definition e_ensure (tok : val) : val := VTuple [VGlobal ["asyncio.ensure_future"]; VList [tok]].
Definition e_defer (fut : val) (rc : Z) : val :=
  VTuple [VGlobal ["$method.add_done_callback(lambda:sys.exit)"]; VList [fut; VInt rc]].

(* ------------------------------------------------------------------------------------------ *)
(* functional specification                                                                    *)
Definition exit_status (sd : bool) : Z := if sd then 0 else 1.

(* the calls lsp_exit makes after the n0 already recorded; aw: writer.close() returned an awaitable *)
Definition exit_calls (sd wp aw : bool) (n0 : N) : list val :=
  if wp then
    e_close :: (if aw then [e_ensure (tok_val n0); e_defer (tok_val (n0 + 1)) (exit_status sd)]
                else [e_exit (exit_status sd)])
  else [e_exit (exit_status sd)].

Definition shutdown_calls (futs : list val) : list val := map e_cancel futs.

(* ------------------------------------------------------------------------------------------ *)
(* lsp_shutdown                                                                                *)
Definition cancel_body : list stmt := [SGlobalEffect None "$method.cancel" [EName "$1"]].

Lemma cancel_loop call f sd wp all rest : forall l env log,
  get "self" env = Some (proto_val sd wp all rest log) ->
  exists env', for_each (fun env => exec_block call f env cancel_body) "$1" l env = ONormal env' /\
               get "self" env' = Some (proto_val sd wp all rest (log ++ shutdown_calls l)).
Proof.
  induction l as [|v r IH]; intros env log H.
  - exists env. cbn [for_each shutdown_calls map]. rewrite app_nil_r. auto.
  - cbn [for_each]. unfold cancel_body at 1. tsimp. rewrite H. unfold proto_val at 1. tsimp.
    destruct (IH (set "self" (proto_val sd wp all rest (log ++ [e_cancel v])) (set "$1" v env)) (log ++ [e_cancel v]))
      as (env' & Hl & Hs).
    { reflexivity. }
    exists env'. split.
    + exact Hl.
    + rewrite Hs. cbn [shutdown_calls map]. rewrite <- app_assoc. reflexivity.
Qed.

Lemma exec_for call f env x it body :
  exec call f env (SFor x it body) =
  match eval call env it with
  | Ok (VList l) => for_each (fun env => exec_block call f env body) x l env
  | Ok (VTuple l) => for_each (fun env => exec_block call f env body) x l env
  | Ok _ => OStuck "for over a non-list"
  | Raise k => ORaise k env | Stuck w => OStuck w
  end.
Proof. reflexivity. Qed.

Theorem shutdown_ok oracle f d sd wp futs rest log :
  wcall oracle f (S d) ["LanguageServerProtocol"; "lsp_shutdown"] (Some (proto_val sd wp futs rest log)) [] [] =
  Ok (proto_val true wp futs rest (log ++ shutdown_calls futs)).
Proof.
  rewrite (wcall_S oracle f d ["LanguageServerProtocol"; "lsp_shutdown"] _ _ _ f_lsp_shutdown eq_refl).
  unfold run_fun, f_lsp_shutdown, AstShutdown.f_lsp_shutdown.
  destruct (cancel_loop (wcall oracle f d) f sd wp futs rest futs
              [("self", proto_val sd wp futs rest log)] log eq_refl) as (env' & Hl & Hs).
  unfold proto_val, cancel_body in *.
  cbn [bind_params eval global_const path_eqb fqual fkind_of fparams fbody class_of get set mem_str
       String.eqb Ascii.eqb Bool.eqb map fst snd forallb andb orb negb is_init is_procedure].
  rewrite exec_block_cons, exec_for.
  cbn [eval py_getattr get set String.eqb Ascii.eqb Bool.eqb].
  unfold PyMini.set at 1. rewrite Hl.
  tsimp. rewrite Hs. tsimp. reflexivity.
Qed.

(* ------------------------------------------------------------------------------------------ *)
(* lsp_exit                                                                                    *)
Section Exit.
Variable oracle : callT.
Variable aw : bool.
Hypothesis Haw : forall tok, oracle ["inspect"; "isawaitable"] (Some (VGlobal ["inspect"])) [tok] [] = Ok (VBool aw).

Theorem exit_ok f d sd wp futs rest log :
  wcall oracle f (S (S d)) ["LanguageServerProtocol"; "lsp_exit"] (Some (proto_val sd wp futs rest log)) [] [] =
  Ok (proto_val sd wp futs rest (log ++ exit_calls sd wp aw (len log))).
Proof.
  rewrite (wcall_S oracle f (S d) ["LanguageServerProtocol"; "lsp_exit"] _ _ _ f_lsp_exit eq_refl).
  unfold f_lsp_exit, AstShutdown.f_lsp_exit, proto_val at 1, exit_calls, exit_status.
  destruct sd, wp; cbn [writer_val]; tsimp.
  all: try reflexivity.
  all: rewrite (wcall_oracle oracle f d ["inspect"; "isawaitable"] _ _ _ eq_refl), Haw; destruct aw; tsimp.
  all: unfold proto_val, e_close, e_ensure, e_defer, e_exit, tok_val; rewrite <- ?app_assoc; cbn [app].
  all: rewrite ?len_app, ?len_cons'; cbn [len].
  all: repeat f_equal; try lia.
Qed.
End Exit.

(* ------------------------------------------------------------------------------------------ *)
(* the theorems of the tie                                                                     *)

(* lsp_shutdown, for every in-flight table (its snapshot `futs`), every other attribute (`rest`, the writer,
   the previous value of _shutdown), every log so far: one cancel per entry in table order is appended,
   _shutdown is True afterwards, the table and every other attribute are as before *)
Theorem ast_lsp_shutdown_equiv oracle f d sd wp futs rest log :
  wcall oracle f (S d) ["LanguageServerProtocol"; "lsp_shutdown"] (Some (proto_val sd wp futs rest log)) [] [] =
  Ok (proto_val true wp futs rest (log ++ map e_cancel futs)).
Proof. apply shutdown_ok. Qed.

(* lsp_exit, for every state: the status handed to sys.exit (directly, or through the done-callback of the
   awaitable close) is 0 iff _shutdown was true, else 1; writer.close() is called exactly when a writer is
   present, and before anything else; no attribute changes *)
Theorem ast_lsp_exit_equiv oracle aw f d sd wp futs rest log :
  (forall tok, oracle ["inspect"; "isawaitable"] (Some (VGlobal ["inspect"])) [tok] [] = Ok (VBool aw)) ->
  wcall oracle f (S (S d)) ["LanguageServerProtocol"; "lsp_exit"] (Some (proto_val sd wp futs rest log)) [] [] =
  Ok (proto_val sd wp futs rest (log ++ exit_calls sd wp aw (len log))) /\
  (exit_status sd = 0 <-> sd = true) /\ (exit_status sd = 1 <-> sd = false) /\
  (In e_close (exit_calls sd wp aw (len log)) <-> wp = true).
Proof.
  intros Haw. split; [apply exit_ok; exact Haw|].
  unfold exit_status, exit_calls, e_close, e_exit, e_ensure, e_defer.
  destruct sd, wp, aw; cbn [In]; repeat split; intros; try reflexivity; try lia; try discriminate; auto.
  all: repeat match goal with H : _ \/ _ |- _ => destruct H end; try discriminate; try contradiction.
Qed.

(* ------------------------------------------------------------------------------------------ *)
(* link to Model/Endpoint.v                                                                    *)

(* shutdown then exit of the translated code, against the model: for any model state s and any rendering fv of
   its future references, shutdown cancels exactly values (futs s) in order and leaves the model's shutdown flag *)
Theorem ast_lsp_shutdown_model oracle f d c (s : Endpoint.st) (fv : Endpoint.fref -> val) wp rest log :
  wcall oracle f (S d) ["LanguageServerProtocol"; "lsp_shutdown"]
        (Some (proto_val (Endpoint.shutdown s) wp (map fv (Assoc.values (Endpoint.futs s))) rest log)) [] [] =
  Ok (proto_val (Endpoint.shutdown (Endpoint.lsp_shutdown c s)) wp (map fv (Assoc.values (Endpoint.futs s))) rest
                (log ++ map e_cancel (map fv (Assoc.values (Endpoint.futs s))))).
Proof. rewrite shutdown_ok. reflexivity. Qed.

(* the status of the translated lsp_exit is the one the model's blocking branch raises SystemExit with *)
Theorem ast_lsp_exit_model c w u (s : Endpoint.st) :
  Endpoint.c_writer c = Endpoint.WBlocking ->
  Endpoint.exit (Endpoint.lsp_exit c w u s) = Some (exit_status (Endpoint.shutdown s)) /\
  Endpoint.closed (Endpoint.lsp_exit c w u s) = true.
Proof. intros H. unfold Endpoint.lsp_exit. rewrite H. split; reflexivity. Qed.

(* ------------------------------------------------------------------------------------------ *)
(* non-vacuity: a concrete run (two in-flight requests; exit before and after shutdown)         *)
Definition ex_oracle : callT := fun q _ _ _ =>
  match q with
  | ["inspect"; "isawaitable"] => Ok (VBool false)
  | _ => Stuck "oracle"
  end.
Definition ex_futs : list val := [VObj "Future" [("id", VInt 7)]; VObj "Future" [("id", VInt 9)]].

Example ast_shutdown_example :
  wcall ex_oracle 5 3 ["LanguageServerProtocol"; "lsp_shutdown"] (Some (proto_val false true ex_futs [] [])) [] [] =
    Ok (proto_val true true ex_futs [] [e_cancel (VObj "Future" [("id", VInt 7)]); e_cancel (VObj "Future" [("id", VInt 9)])]) /\
  wcall ex_oracle 5 3 ["LanguageServerProtocol"; "lsp_exit"] (Some (proto_val false true ex_futs [] [])) [] [] =
    Ok (proto_val false true ex_futs [] [e_close; e_exit 1]) /\
  wcall ex_oracle 5 3 ["LanguageServerProtocol"; "lsp_exit"] (Some (proto_val true false ex_futs [] [])) [] [] =
    Ok (proto_val true false ex_futs [] [e_exit 0]).
Proof. vm_compute. repeat split. Qed.
