(* Proofs/LinkDispatchEndpoint.v - the LINK between the two models of the dispatch code.

   Model/Endpoint.v (E: the endpoint of C01/C06/C08/C09/C16 - replies, the two in-flight tables, the
   error hook, writers, cancel, exit) and Model/Dispatch.v (D: C14 - the registry, which callable is
   chosen, injection, arguments, workspace snapshots) both describe handle_message ->
   _handle_request/_handle_notification -> built-in -> call_user_feature -> _execute_request /
   _execute_notification with loop tasks and pool items as events.  Each is tied to the real code on
   its own; here the MODELS are shown to agree on what they share.

     call_req / call_not   the D message one E frame is (a function of the frame and of its position
                           n among the dispatched frames: frame number n uses the names "u/<n>" and
                           "<n>", so that every frame can have its own handlers although D's registry
                           is one for the whole run);
     project               E event list -> D event list (a function; frames E does not dispatch -
                           wrong version, undecodable params, garbage - and writer events have no D
                           counterpart);
     agrees cD n evs       the D configuration answers, for every dispatched frame, with the handlers
                           the frame carries (kind sync/async/thread, raising or not, chained or not);
     cfg_of su cu evs      a D configuration built from the E history, with `agrees (cfg_of su cu evs) 0 evs`
                           whenever the history is coherent (cfg_of_agrees; `su` / `cu`: the one user feature
                           chained after `shutdown` / workspace/executeCommand - D's registry is static, so
                           every such frame of the history carries it); link_function = link_run for it;
     Rel                   shutdown flag, `_request_futures`, every handler task / pool item (message,
                           part, callback, state up to the result value) and the START entries of E's
                           handler log = D's log read as (who, part, thread) - all equal;
     link_run              for EVERY E configuration, every D configuration that agrees and EVERY
                           event list of the common fragment: Rel (E.run c evs) (D.run cD (project evs)).

   Common fragment (`frag`): requests / notifications for user features, unknown methods, built-ins
   with or without a chained user feature (failing built-in notifications too), workspace/
   executeCommand with known / unknown / raising commands, shutdown (with its cancellation of the
   in-flight request futures), kinds sync / async without suspension point / thread, every outcome,
   every writer / hook configuration, frames E does not dispatch, garbage, writer and exit-callback
   steps.  Excluded, because D has no counterpart: $/cancelRequest, exit, responses and user sends
   (they act on the shared id tables: C05/C16), coroutines with suspension points, pool items that
   finish inside submit (a harness device of C01), a failing built-in REQUEST, request ids that are
   not non-negative JSON ints (D numbers ids by N).

   What each model has that the other abstracts.  E only: replies and their payload classes, the two
   tables' other direction, `_result_types`, the error hook and its sources, writer kinds and write
   failures, exit, cancel notifications, suspension points and the reaction to CancelledError, END /
   CANCEL log entries, JSON id types.  D only: the registry (names -> callables, built by the
   decorators' model), which function a callable reaches, server injection, the arguments passed,
   the workspace and what each handler sees of it, the set of built-ins of the protocol class. *)
From Coq Require Import ZArith NArith List Bool Lia Arith.
From Pygls Require Import Base.Assoc.
From Pygls Require Model.Features Model.Endpoint Model.Dispatch Spec.DispatchSpec Proofs.C14Proofs Proofs.C09Proofs.
Import ListNotations.

Module E := Endpoint.
Module D := Dispatch.
Module F := Features.
Module DS := DispatchSpec.
Module DP := C14Proofs.

(* ------------------------------------------------------------------ ids *)
Definition idN (i : E.id) : N := match i with E.IInt z => Z.to_N z | E.IStr _ => 0%N end.
Definition id_ok (i : E.id) : bool := match i with E.IInt z => (0 <=? z)%Z | E.IStr _ => false end.

Lemma idN_eqb : forall a b, id_ok a = true -> id_ok b = true -> N.eqb (idN a) (idN b) = E.id_eqb a b.
Proof.
  intros [x|x] [y|y] Ha Hb; try discriminate. cbn in *. apply Z.leb_le in Ha, Hb.
  destruct (Z.eqb x y) eqn:Q.
  - apply Z.eqb_eq in Q. subst. apply N.eqb_refl.
  - apply N.eqb_neq. intro H. apply Z.eqb_neq in Q. apply Q. apply Z2N.inj; assumption.
Qed.

(* ------------------------------------------------------------------ the common reading *)
Definition T := (E.who * E.part * E.site)%type.
Definition cpart (p : D.part) : E.part :=
  match p with D.PBuiltin => E.PBuiltin | D.PUser => E.PUser | D.PCommand => E.PCommand end.
Definition csite (x : D.tsite) : E.site := match x with D.OnLoop => E.Loop | D.OnPool => E.Pool end.
Definition whoat (ws : list E.who) (n : nat) : E.who := nth n ws (E.WNot 0).

(* the START entries of E's handler log *)
Definition start1 (h : E.hentry) : list T :=
  match E.h_phase h with E.HStart => [(E.h_who h, E.h_part h, E.h_site h)] | _ => [] end.
Definition starts (l : list E.hentry) : list T := flat_map start1 l.
(* D's log has one entry per start *)
Definition dlog (ws : list E.who) (h : D.hentry) : T :=
  (whoat ws (D.h_msg h), cpart (D.h_part h), csite (D.h_site h)).

Inductive vts := VNew (mc : bool) | VDone (cancelled : bool) | VFin.
Inductive vjs := VQueued | VRunning | VJDone | VCancelled.
Definition ecanc (r : E.fres) : bool := match r with E.RCancelled => true | _ => false end.
Definition dcanc (r : D.fres) : bool := match r with D.RCancelled => true | _ => false end.
Definition ets (x : E.tstate) : vts :=
  match x with E.TLive _ _ mc => VNew mc | E.TDoneCb r => VDone (ecanc r) | E.TFin _ => VFin end.
Definition dts (x : D.tstate) : vts :=
  match x with D.TNew mc => VNew mc | D.TDoneCb r => VDone (dcanc r) | D.TFin _ => VFin end.
Definition ejs (x : E.jstate) : vjs :=
  match x with E.JQueued => VQueued | E.JRunning => VRunning | E.JDone _ => VJDone | E.JCancelled => VCancelled end.
Definition djs (x : D.jstate) : vjs :=
  match x with D.JQueued => VQueued | D.JRunning => VRunning | D.JDone _ => VJDone | D.JCancelled => VCancelled end.
Definition ecb (cb : E.cbkind) : option N := match cb with E.CReq i => Some (idN i) | E.CNot => None end.
Definition dcb (cb : D.cbkind) : option N := match cb with D.CReq i => Some i | D.CNot => None end.

Definition etask (tk : E.task) := (E.t_who tk, E.t_part tk, ecb (E.t_cb tk), ets (E.t_st tk)).
Definition dtask (ws : list E.who) (tk : D.task) :=
  (whoat ws (D.i_msg (D.t_inv tk)), cpart (D.i_part (D.t_inv tk)), dcb (D.t_cb tk), dts (D.t_st tk)).
Definition ejob (jb : E.job) := (E.j_who jb, E.j_part jb, ecb (E.j_cb jb), ejs (E.j_st jb)).
Definition djob (ws : list E.who) (jb : D.job) :=
  (whoat ws (D.i_msg (D.j_inv jb)), cpart (D.i_part (D.j_inv jb)), dcb (D.j_cb jb), djs (D.j_st jb)).

Definition eref (r : E.fref) : D.fref :=
  match r with E.FTask t => D.FTask t | E.FJob j => D.FJob j | E.FOut _ => D.FTask 0 end.
Definition efut (kv : E.id * E.fref) : N * D.fref := (idN (fst kv), eref (snd kv)).
Definition fut_ok (kv : E.id * E.fref) : bool :=
  id_ok (fst kv) && match snd kv with E.FOut _ => false | _ => true end.

Definition cb_ok (cb : E.cbkind) : bool := match cb with E.CReq i => id_ok i | E.CNot => true end.
Definition is_frame (w : E.wentry) : bool := match w with E.WFrame _ => true | E.WClose _ => false end.
(* a task of the fragment has no suspension point: it is live only before its first step *)
Definition task_fresh (tk : E.task) : bool :=
  match E.t_st tk with E.TLive st l _ => negb st && Nat.eqb l 0 | _ => true end.

Record Rel (ws : list E.who) (s : E.st) (t : D.st) : Prop := {
  r_shut : D.w_shut (D.ws t) = E.shutdown s;
  r_init : D.w_init (D.ws t) = false;
  r_futs : D.futs t = map efut (E.futs s);
  r_fok : forallb fut_ok (E.futs s) = true;
  r_tasks : map (dtask ws) (D.tasks t) = map etask (E.tasks s);
  r_jobs : map (djob ws) (D.jobs t) = map ejob (E.jobs s);
  r_log : map (dlog ws) (D.hlog t) = starts (E.hlog s);
  r_fresh : forallb task_fresh (E.tasks s) = true;
  r_cbt : forallb (fun tk => cb_ok (E.t_cb tk)) (E.tasks s) = true;
  r_cbj : forallb (fun jb => cb_ok (E.j_cb jb)) (E.jobs s) = true;
  r_exit : E.exit s = None;
  r_exitq : E.exitq s = [];
  r_wq : forallb is_frame (E.wq s) = true
}.

Lemma Rel_init : forall ws, Rel ws E.init D.init.
Proof. intro ws. split; reflexivity. Qed.

(* ------------------------------------------------------------------ E steps the link does not see *)
(* what of an E state the link speaks of *)
Definition core (s : E.st) :=
  (E.shutdown s, E.futs s, E.tasks s, E.jobs s, starts (E.hlog s), E.exit s, E.exitq s).
Definition Silent (s s' : E.st) : Prop :=
  core s' = core s /\ (forallb is_frame (E.wq s) = true -> forallb is_frame (E.wq s') = true).

Lemma Silent_refl : forall s, Silent s s.
Proof. intro s. split; auto. Qed.

Lemma Silent_trans : forall a b c, Silent a b -> Silent b c -> Silent a c.
Proof. intros a b c [A1 A2] [B1 B2]. split; [congruence|auto]. Qed.

Lemma Rel_silent : forall ws s s' t, Silent s s' -> Rel ws s t -> Rel ws s' t.
Proof.
  intros ws s s' t [C W] R. unfold core in C. inversion C as [[C1 C2 C3 C4 C5 C6 C7]]. destruct R.
  split; rewrite ?C1, ?C2, ?C3, ?C4, ?C5, ?C6, ?C7; auto.
Qed.

Lemma silent_do_write : forall c f s, Silent s (fst (E.do_write c f s)).
Proof.
  intros c f s. unfold E.do_write. destruct (E.closed s); [apply Silent_refl|].
  destruct (E.failing c (E.nwrites s)); split; cbn; auto.
Qed.

Lemma forallb_snoc : forall (A : Type) (p : A -> bool) l x, forallb p (l ++ [x]) = forallb p l && p x.
Proof. intros. rewrite forallb_app. cbn. rewrite andb_true_r. reflexivity. Qed.

Lemma silent_write_call : forall c sv f s, Silent s (fst (E.write_call c sv f s)).
Proof.
  intros c sv f s. unfold E.write_call. destruct (E.c_writer c); [apply silent_do_write|].
  destruct sv; [|apply Silent_refl]. split; [reflexivity|]. cbn. unfold E.snoc. intro H. rewrite forallb_snoc, H. reflexivity.
Qed.

Lemma silent_hook : forall c sv src s, Silent s (E.hook c sv src s).
Proof.
  intros c sv src s. unfold E.hook.
  assert (A : Silent s (E.add_err src s)) by (split; cbn; auto).
  destruct (E.c_hook c); try exact A.
  assert (B : Silent s (let (s2, ok) := E.write_call c sv (E.ONotif E.NShowMessage) (E.add_err src s) in
                        if ok then s2 else E.set_storm true s2)).
  { pose proof (silent_write_call c sv (E.ONotif E.NShowMessage) (E.add_err src s)) as W.
    destruct (E.write_call c sv (E.ONotif E.NShowMessage) (E.add_err src s)) as [s2 ok]. cbn [fst] in W.
    destruct ok; [exact (Silent_trans _ _ _ A W)|]. eapply Silent_trans; [exact (Silent_trans _ _ _ A W)|]. split; cbn; auto. }
  destruct src; try exact A; exact B.
Qed.

Lemma silent_send_data : forall c sv f ok s, Silent s (fst (E.send_data c sv f ok s)).
Proof.
  intros c sv f ok s. unfold E.send_data. destruct ok; cbn [negb fst].
  - pose proof (silent_write_call c sv f s) as W. destruct (E.write_call c sv f s) as [s1 k]. cbn [fst] in *.
    destruct k; [exact W|]. eapply Silent_trans; [exact W|apply silent_hook].
  - apply silent_hook.
Qed.

Lemma silent_send_response : forall c sv i r s, Silent s (E.send_response c sv i r s).
Proof.
  intros c sv i r s. unfold E.send_response. destruct r as [code|v ok]; [apply silent_send_data|].
  assert (A : Silent s (E.rtype_pop i s)) by (split; cbn; auto).
  pose proof (silent_send_data c sv (E.OResp i (E.PResult v)) ok (E.rtype_pop i s)) as W.
  destruct (E.send_data c sv (E.OResp i (E.PResult v)) ok (E.rtype_pop i s)) as [s2 k]. cbn [fst] in W.
  destruct k; [exact (Silent_trans _ _ _ A W)|].
  eapply Silent_trans; [exact (Silent_trans _ _ _ A W)|apply silent_send_data].
Qed.

Lemma silent_on_exc : forall c i x s, Silent s (E.on_exc c i x s).
Proof.
  intros c i x s. unfold E.on_exc. destruct x as [[|code]|]; try apply Silent_refl;
    (eapply Silent_trans; [apply silent_send_response|apply silent_hook]).
Qed.

Lemma starts_app : forall a b, starts (a ++ b) = starts a ++ starts b.
Proof. intros. unfold starts. apply flat_map_app. Qed.

(* END / CANCEL entries are not starts *)
Lemma silent_log_end : forall w p sv s, Silent s (E.log w p E.HEnd sv s).
Proof.
  intros. split; [|auto]. unfold core, E.log. cbn. unfold E.snoc. rewrite starts_app. cbn. rewrite app_nil_r. reflexivity.
Qed.

(* ------------------------------------------------------------------ lists and tables *)
Lemma map_eq_nth : forall (A B C : Type) (g : A -> C) (h : B -> C) l1 l2 n,
    map g l1 = map h l2 ->
    match nth_error l1 n, nth_error l2 n with
    | Some x, Some y => g x = h y
    | None, None => True
    | _, _ => False
    end.
Proof.
  intros A B C g h l1. induction l1 as [|x l1 IH]; intros [|y l2] n H; try discriminate.
  - destruct n; exact I.
  - cbn [map] in H. injection H as H1 H2. destruct n as [|n]; cbn [nth_error]; [exact H1|apply IH, H2].
Qed.

Lemma map_eq_upd : forall (A B C : Type) (g : A -> C) (h : B -> C) (fa : A -> A) (fb : B -> B) l1 l2 n,
    map g l1 = map h l2 -> (forall x y, g x = h y -> g (fa x) = h (fb y)) ->
    map g (D.upd_nth n fa l1) = map h (E.upd_nth n fb l2).
Proof.
  intros A B C g h fa fb l1. induction l1 as [|x l1 IH]; intros [|y l2] n H Hf; try discriminate.
  - destruct n; reflexivity.
  - cbn [map] in H. injection H as H1 H2. destruct n as [|n]; cbn [D.upd_nth E.upd_nth map].
    + rewrite (Hf x y H1), H2. reflexivity.
    + rewrite H1, (IH l2 n H2 Hf). reflexivity.
Qed.

Lemma map_eq_length : forall (A B C : Type) (g : A -> C) (h : B -> C) l1 l2, map g l1 = map h l2 -> length l1 = length l2.
Proof. intros A B C g h l1 l2 H. rewrite <- (map_length g l1), H, map_length. reflexivity. Qed.

Lemma futs_get : forall l i, forallb fut_ok l = true -> id_ok i = true ->
    Assoc.get N.eqb (idN i) (map efut l) = option_map eref (Assoc.get E.id_eqb i l).
Proof.
  induction l as [|[k v] l IH]; intros i H Hi; [reflexivity|]. cbn [forallb] in H. apply andb_true_iff in H. destruct H as [H1 H2].
  unfold fut_ok in H1. cbn [fst snd] in H1. apply andb_true_iff in H1. destruct H1 as [Hk _].
  cbn [map Assoc.get efut fst snd]. rewrite (idN_eqb i k Hi Hk). destruct (E.id_eqb i k); [reflexivity|apply IH; assumption].
Qed.

Lemma futs_set : forall l i r, forallb fut_ok l = true -> id_ok i = true ->
    map efut (Assoc.set E.id_eqb i r l) = Assoc.set N.eqb (idN i) (eref r) (map efut l).
Proof.
  induction l as [|[k v] l IH]; intros i r H Hi; [reflexivity|]. cbn [forallb] in H. apply andb_true_iff in H. destruct H as [H1 H2].
  unfold fut_ok in H1. cbn [fst snd] in H1. apply andb_true_iff in H1. destruct H1 as [Hk _].
  cbn [map Assoc.set efut fst snd]. rewrite (idN_eqb i k Hi Hk). destruct (E.id_eqb i k); cbn [map efut fst snd]; [reflexivity|].
  rewrite IH by assumption. reflexivity.
Qed.

Lemma futs_remove : forall l i, forallb fut_ok l = true -> id_ok i = true ->
    map efut (Assoc.remove E.id_eqb i l) = Assoc.remove N.eqb (idN i) (map efut l).
Proof.
  induction l as [|[k v] l IH]; intros i H Hi; [reflexivity|]. cbn [forallb] in H. apply andb_true_iff in H. destruct H as [H1 H2].
  unfold fut_ok in H1. cbn [fst snd] in H1. apply andb_true_iff in H1. destruct H1 as [Hk _].
  cbn [map Assoc.remove efut fst snd]. rewrite (idN_eqb i k Hi Hk). destruct (E.id_eqb i k); cbn [map efut fst snd]; [reflexivity|].
  rewrite IH by assumption. reflexivity.
Qed.

Lemma fok_set : forall l i r, forallb fut_ok l = true -> fut_ok (i, r) = true -> forallb fut_ok (Assoc.set E.id_eqb i r l) = true.
Proof.
  induction l as [|[k v] l IH]; intros i r H Hr; cbn [Assoc.set forallb]; [rewrite Hr; reflexivity|].
  cbn [forallb] in H. apply andb_true_iff in H. destruct H as [H1 H2].
  destruct (E.id_eqb i k) eqn:Q; cbn [forallb].
  - rewrite H2, andb_true_r. unfold fut_ok in *. cbn [fst snd] in *. apply andb_true_iff in H1, Hr. destruct H1 as [A _], Hr as [_ B].
    rewrite A, B. reflexivity.
  - rewrite H1, (IH i r H2 Hr). reflexivity.
Qed.

Lemma fok_remove : forall l i, forallb fut_ok l = true -> forallb fut_ok (Assoc.remove E.id_eqb i l) = true.
Proof.
  induction l as [|[k v] l IH]; intros i H; cbn [Assoc.remove]; [reflexivity|].
  cbn [forallb] in H. apply andb_true_iff in H. destruct H as [H1 H2].
  destruct (E.id_eqb i k); [exact H2|]. cbn [forallb]. rewrite H1, (IH i H2). reflexivity.
Qed.

(* ------------------------------------------------------------------ the elementary operations *)
Section Prim.
  Variable ws : list E.who.

  Lemma Rel_add_out : forall s t f, Rel ws s t -> Rel ws s (D.add_out f t).
  Proof. intros s t f []. split; assumption. Qed.

  Lemma Rel_set_nmsg : forall s t n, Rel ws s t -> Rel ws s (D.set_nmsg n t).
  Proof. intros s t n []. split; assumption. Qed.

  Lemma sim_invoke : forall s t w p sv x dsv, Rel ws s t ->
      whoat ws (D.i_msg x) = w -> cpart (D.i_part x) = p -> csite dsv = sv ->
      Rel ws (E.log w p E.HStart sv s) (D.invoke dsv x t).
  Proof.
    intros s t w p sv x dsv [] Hw Hp Hs. split; try assumption.
    cbn [D.invoke D.set_hlog D.hlog E.log E.set_hlog E.hlog]. unfold E.snoc. rewrite map_app, starts_app, r_log0. cbn.
    unfold dlog. cbn [D.h_msg D.h_part D.h_site]. rewrite Hw, Hp, Hs. reflexivity.
  Qed.

  Lemma sim_log_builtin : forall s t w n k args, Rel ws s t -> whoat ws n = w ->
      Rel ws (E.log w E.PBuiltin E.HStart E.Loop s) (D.log_builtin n k args t).
  Proof.
    intros s t w n k args [] Hw. split; try assumption.
    cbn [D.log_builtin D.set_hlog D.hlog E.log E.set_hlog E.hlog]. unfold E.snoc. rewrite map_app, starts_app, r_log0. cbn.
    unfold dlog. cbn [D.h_msg D.h_part D.h_site]. rewrite Hw. reflexivity.
  Qed.

  Lemma sim_new_task : forall s t w p cb b x cb', Rel ws s t ->
      whoat ws (D.i_msg x) = w -> cpart (D.i_part x) = p -> dcb cb' = ecb cb -> cb_ok cb = true ->
      Rel ws (E.new_task w p cb b 0 s) (D.new_task x cb' t).
  Proof.
    intros s t w p cb b x cb' [] Hw Hp Hc Hk. split; try assumption.
    - cbn [D.new_task D.set_tasks D.tasks E.new_task E.set_tasks E.tasks]. unfold E.snoc. rewrite !map_app, r_tasks0. cbn.
      unfold dtask, etask. cbn. rewrite Hw, Hp, Hc. reflexivity.
    - cbn [E.new_task E.set_tasks E.tasks]. unfold E.snoc. rewrite forallb_snoc, r_fresh0. reflexivity.
    - cbn [E.new_task E.set_tasks E.tasks]. unfold E.snoc. rewrite forallb_snoc, r_cbt0. cbn. exact Hk.
  Qed.

  Lemma sim_new_job : forall s t w p cb b x cb', Rel ws s t ->
      whoat ws (D.i_msg x) = w -> cpart (D.i_part x) = p -> dcb cb' = ecb cb -> cb_ok cb = true ->
      Rel ws (E.new_job w p cb b E.JQueued s) (D.new_job x cb' t).
  Proof.
    intros s t w p cb b x cb' [] Hw Hp Hc Hk. split; try assumption.
    - cbn [D.new_job D.set_jobs D.jobs E.new_job E.set_jobs E.jobs]. unfold E.snoc. rewrite !map_app, r_jobs0. cbn.
      unfold djob, ejob. cbn. rewrite Hw, Hp, Hc. reflexivity.
    - cbn [E.new_job E.set_jobs E.jobs]. unfold E.snoc. rewrite forallb_snoc, r_cbj0. cbn. exact Hk.
  Qed.

  Lemma sim_fut_set : forall s t i r, Rel ws s t -> fut_ok (i, r) = true ->
      Rel ws (E.fut_set i r s) (D.fut_set (idN i) (eref r) t).
  Proof.
    intros s t i r [] Hr. assert (Hi : id_ok i = true) by (unfold fut_ok in Hr; apply andb_true_iff in Hr; tauto).
    split; try assumption.
    - cbn [D.fut_set D.set_futs D.futs E.fut_set E.set_futs E.futs]. rewrite r_futs0. symmetry. apply futs_set; assumption.
    - cbn [E.fut_set E.set_futs E.futs]. apply fok_set; assumption.
  Qed.

  Lemma sim_fut_pop : forall s t i, Rel ws s t -> id_ok i = true -> Rel ws (E.fut_pop i s) (D.fut_pop (idN i) t).
  Proof.
    intros s t i [] Hi. split; try assumption.
    - cbn [D.fut_pop D.set_futs D.futs E.fut_pop E.set_futs E.futs]. rewrite r_futs0. symmetry. apply futs_remove; assumption.
    - cbn [E.fut_pop E.set_futs E.futs]. apply fok_remove; assumption.
  Qed.

  Lemma sim_set_task_st : forall s t n x y, Rel ws s t -> dts y = ets x ->
      (match x with E.TLive st l _ => st = false /\ l = 0 | _ => True end) ->
      Rel ws (E.set_task_st n x s) (D.set_task_st n y t).
  Proof.
    intros s t n x y [] Hxy Hx. split; try assumption.
    - cbn [D.set_task_st D.set_tasks D.tasks E.set_task_st E.set_tasks E.tasks].
      apply map_eq_upd; [exact r_tasks0|]. intros a b H. unfold dtask, etask in *. cbn. inversion H. rewrite Hxy. reflexivity.
    - cbn [E.set_task_st E.set_tasks E.tasks]. clear - r_fresh0 Hx. revert n. induction (E.tasks s) as [|a l0 IH]; intro n; [destruct n; reflexivity|].
      cbn [forallb] in r_fresh0. apply andb_true_iff in r_fresh0. destruct r_fresh0 as [A B].
      destruct n as [|n]; cbn [E.upd_nth forallb].
      + rewrite B, andb_true_r. unfold task_fresh. cbn. destruct x as [st l mc| |]; try reflexivity. destruct Hx as [-> ->]. reflexivity.
      + rewrite A, (IH B). reflexivity.
    - cbn [E.set_task_st E.set_tasks E.tasks]. clear - r_cbt0. revert n. induction (E.tasks s) as [|a l0 IH]; intro n; [destruct n; reflexivity|].
      cbn [forallb] in r_cbt0. apply andb_true_iff in r_cbt0. destruct r_cbt0 as [A B].
      destruct n as [|n]; cbn [E.upd_nth forallb]; [cbn; rewrite A, B; reflexivity|rewrite A, (IH B); reflexivity].
  Qed.

  Lemma sim_set_job_st : forall s t n x y, Rel ws s t -> djs y = ejs x ->
      Rel ws (E.set_job_st n x s) (D.set_job_st n y t).
  Proof.
    intros s t n x y [] Hxy. split; try assumption.
    - cbn [D.set_job_st D.set_jobs D.jobs E.set_job_st E.set_jobs E.jobs].
      apply map_eq_upd; [exact r_jobs0|]. intros a b H. unfold djob, ejob in *. cbn. inversion H. rewrite Hxy. reflexivity.
    - cbn [E.set_job_st E.set_jobs E.jobs]. clear - r_cbj0. revert n. induction (E.jobs s) as [|a l0 IH]; intro n; [destruct n; reflexivity|].
      cbn [forallb] in r_cbj0. apply andb_true_iff in r_cbj0. destruct r_cbj0 as [A B].
      destruct n as [|n]; cbn [E.upd_nth forallb]; [cbn; rewrite A, B; reflexivity|rewrite A, (IH B); reflexivity].
  Qed.
End Prim.

(* ------------------------------------------------------------------ handlers *)
Definition is_async (b : E.behav) : bool := match E.bkind b with E.HAsync _ => true | _ => false end.
Definition is_thread (b : E.behav) : bool := match E.bkind b with E.HThread _ => true | _ => false end.
(* the registered callable a behaviour corresponds to (no server parameter: E has no injection) *)
Definition ent (fid : N) (b : E.behav) : F.entry := F.mkentry fid (is_async b) false (is_thread b).
(* kinds D has: sync, coroutine without suspension point, pool item that does not finish inside submit *)
Definition bok (b : E.behav) : bool :=
  match E.bkind b with E.HSync => true | E.HAsync O => true | E.HThread false => true | _ => false end.
Definition braise (b : E.behav) : bool := match E.bout b with E.ORaise | E.ORaiseRpc _ => true | _ => false end.

Section Handlers.
  Variable ws : list E.who.
  Variable c : E.cfg.
  Variable cD : D.cfg.

  Lemma sim_exec_notification : forall s t w p b n meth p' fid args, Rel ws s t -> bok b = true ->
      whoat ws n = w -> cpart p' = p ->
      Rel ws (fst (E.exec_notification c w p b s)) (fst (D.exec_notification cD (D.mkInv n meth p' (ent fid b) args) t)).
  Proof.
    intros s t w p b n meth p' fid args R Hb Hw Hp. unfold E.exec_notification, D.exec_notification, F.exec_site, ent, is_async, is_thread.
    cbn [D.i_entry F.e_async F.e_thread]. unfold bok in Hb. destruct (E.bkind b) as [|[|k]|[|]]; try discriminate; cbn [fst].
    - eapply Rel_silent; [apply silent_log_end|]. apply sim_invoke; auto.
    - apply sim_new_task; auto.
    - unfold E.submit. apply sim_new_job; auto.
  Qed.

  Lemma sim_execute_request : forall s t i p b n meth p' fid args, Rel ws s t -> bok b = true -> id_ok i = true ->
      whoat ws n = E.WReq i -> cpart p' = p ->
      let re := E.execute_request c i p b s in
      let rd := D.execute_request cD (idN i) (D.mkInv n meth p' (ent fid b) args) t in
      Rel ws (fst re) (fst rd) /\
      (D.raises cD (ent fid b) = braise b -> snd rd = match snd re with Some _ => true | None => false end).
  Proof.
    intros s t i p b n meth p' fid args R Hb Hi Hw Hp. unfold E.execute_request, D.execute_request, F.exec_site.
    cbn [D.i_entry]. change (F.e_async (ent fid b)) with (is_async b). change (F.e_thread (ent fid b)) with (is_thread b).
    unfold is_async, is_thread. unfold bok in Hb. destruct (E.bkind b) as [|[|k]|[|]] eqn:Kb; try discriminate; cbn [fst snd].
    - assert (R1 : Rel ws (E.log (E.WReq i) p E.HEnd E.Loop (E.log (E.WReq i) p E.HStart E.Loop s))
                          (D.invoke D.OnLoop (D.mkInv n meth p' (ent fid b) args) t)).
      { eapply Rel_silent; [apply silent_log_end|]. apply sim_invoke; auto. }
      split.
      + destruct (D.raises cD (ent fid b)); destruct (E.bout b); cbn [fst]; try exact R1;
          try (apply Rel_add_out; exact R1);
          try (eapply Rel_silent; [apply silent_send_response|exact R1]);
          (apply Rel_add_out; eapply Rel_silent; [apply silent_send_response|exact R1]).
      + intro Hr. rewrite Hr. unfold braise. destruct (E.bout b); reflexivity.
    - split; [|reflexivity]. rewrite <- (map_eq_length _ _ _ _ _ _ _ (r_tasks _ _ _ R)).
      apply (sim_fut_set ws _ _ i (E.FTask (length (D.tasks t)))).
      + apply sim_new_task; auto.
      + unfold fut_ok. cbn. rewrite Hi. reflexivity.
    - split; [|reflexivity]. unfold E.submit. rewrite <- (map_eq_length _ _ _ _ _ _ _ (r_jobs _ _ _ R)).
      apply (sim_fut_set ws _ _ i (E.FJob (length (D.jobs t)))).
      + apply sim_new_job; auto.
      + unfold fut_ok. cbn. rewrite Hi. reflexivity.
  Qed.

  (* the user feature chained after a built-in: what D's registry must say for E's `u` *)
  Definition chained (meth : F.name) (u : option E.behav) : Prop :=
    match u with
    | None => F.aget meth (F.features (D.c_reg cD)) = None
    | Some b => bok b = true /\ exists fid, F.aget meth (F.features (D.c_reg cD)) = Some (ent fid b)
    end.

  Lemma sim_chain : forall s t w u n k args, Rel ws s t -> chained (D.meth_of k) u -> whoat ws n = w ->
      Rel ws (E.chain c w u s) (D.chain cD n k args t).
  Proof.
    intros s t w u n k args R H Hw. unfold E.chain, D.chain. destruct u as [b|]; cbn [chained] in H.
    - destruct H as (Hb & fid & ->). apply sim_exec_notification; auto.
    - rewrite H. exact R.
  Qed.

  Lemma sim_run_cb : forall s t sv cb cb' r r', Rel ws s t -> dcb cb' = ecb cb -> cb_ok cb = true -> dcanc r' = ecanc r ->
      Rel ws (E.run_cb c sv cb r s) (D.run_cb cb' r' t).
  Proof.
    intros s t sv cb cb' r r' R Hc Hk Hr. destruct cb as [i|], cb' as [j|]; try discriminate; cbn [E.run_cb D.run_cb].
    - cbn in Hc. injection Hc as ->. unfold E.request_callback, D.request_callback.
      assert (S1 : forall x, Rel ws x (match r' with
                                        | D.RCancelled => D.add_out (D.OError (idN i) D.code_cancelled) t
                                        | D.RVal v => D.add_out (D.OResult (idN i) (D.VInt v)) t
                                        | D.RExc => D.add_out (D.OError (idN i) D.code_internal) t end) <-> Rel ws x t).
      { intro x. destruct r'; split; intro H; try (apply Rel_add_out; exact H); destruct H; split; assumption. }
      apply sim_fut_pop; [|exact Hk]. apply S1.
      destruct r; (eapply Rel_silent; [|exact R]); try apply silent_send_response;
        (eapply Silent_trans; [apply silent_send_response|apply silent_hook]).
    - unfold E.notification_callback. destruct r; try exact R; (eapply Rel_silent; [apply silent_hook|exact R]).
  Qed.

  Lemma sim_cancel_ref : forall s t r, Rel ws s t -> (match r with E.FOut _ => False | _ => True end) ->
      Rel ws (E.cancel_ref c r s) (D.cancel_ref (eref r) t).
  Proof.
    intros s t r R Hr. destruct r as [n|n|o]; [| |contradiction]; cbn [eref E.cancel_ref D.cancel_ref].
    - pose proof (map_eq_nth _ _ _ _ _ _ _ n (r_tasks _ _ _ R)) as H.
      destruct (nth_error (D.tasks t) n) as [x|] eqn:Ex, (nth_error (E.tasks s) n) as [y|] eqn:Ey; try contradiction; [|exact R].
      unfold dtask, etask in H. inversion H as [[H1 H2 H3 H4]].
      pose proof (r_fresh _ _ _ R) as Fr. rewrite forallb_forall in Fr. specialize (Fr y (nth_error_In _ _ Ey)). unfold task_fresh in Fr.
      destruct (E.t_st y) as [st l mc|r0|r0], (D.t_st x) as [mc'|r1|r1]; try discriminate; try exact R.
      apply sim_set_task_st; [exact R|reflexivity|]. apply andb_true_iff in Fr. destruct Fr as [A B].
      apply negb_true_iff in A. apply Nat.eqb_eq in B. auto.
    - pose proof (map_eq_nth _ _ _ _ _ _ _ n (r_jobs _ _ _ R)) as H.
      destruct (nth_error (D.jobs t) n) as [x|] eqn:Ex, (nth_error (E.jobs s) n) as [y|] eqn:Ey; try contradiction; [|exact R].
      unfold djob, ejob in H. inversion H as [[H1 H2 H3 H4]].
      pose proof (r_cbj _ _ _ R) as Ck. rewrite forallb_forall in Ck. specialize (Ck y (nth_error_In _ _ Ey)).
      destruct (E.j_st y), (D.j_st x); try discriminate; try exact R.
      apply sim_run_cb; auto. apply sim_set_job_st; [exact R|reflexivity].
  Qed.

  Lemma sim_cancel_fold : forall rs s t, Rel ws s t -> Forall (fun r => match r with E.FOut _ => False | _ => True end) rs ->
      Rel ws (fold_left (fun s' r => E.cancel_ref c r s') rs s) (fold_left (fun t' r => D.cancel_ref r t') (map eref rs) t).
  Proof.
    induction rs as [|r rs IH]; intros s t R H; [exact R|]. inversion H; subst. cbn [fold_left map].
    apply IH; [|assumption]. apply sim_cancel_ref; assumption.
  Qed.

  Lemma sim_cancel_all : forall s t, Rel ws s t ->
      Rel ws (fold_left (fun s' r => E.cancel_ref c r s') (Assoc.values (E.futs s)) s) (D.cancel_all t).
  Proof.
    intros s t R. unfold D.cancel_all. rewrite (r_futs _ _ _ R).
    replace (Assoc.values (map efut (E.futs s))) with (map eref (Assoc.values (E.futs s)))
      by (unfold Assoc.values; rewrite !map_map; reflexivity).
    apply sim_cancel_fold; [exact R|]. pose proof (r_fok _ _ _ R) as H. rewrite forallb_forall in H.
    apply Forall_forall. intros r Hr. unfold Assoc.values in Hr. apply in_map_iff in Hr. destruct Hr as ([k v] & <- & Hin).
    specialize (H _ Hin). unfold fut_ok in H. cbn [fst snd] in *. apply andb_true_iff in H. destruct H as [_ H]. destruct v; [exact I|exact I|discriminate].
  Qed.
End Handlers.

(* ------------------------------------------------------------------ frames and messages *)
(* frame number n (among the dispatched frames) has the names "u/<n>" (method) and "<n>" (command) *)
Definition nm (n : nat) : list N := [N.of_nat n].

Definition call_req (n : nat) (i : E.id) (m : E.rmethod) : D.call :=
  match m with
  | E.RUnknown | E.RUser _ | E.RBuiltin _ _ => D.COther (Some (idN i)) (nm n) 0
  | E.RShutdown _ => D.CShutdown (idN i)
  | E.RCommand _ _ => D.CExecCmd (idN i) (nm n) 0
  end.

Definition call_not (n : nat) (m : E.nmethod) : D.call :=
  match m with
  | E.NBuiltin true _ => D.CDidClose 0        (* a built-in that raises: there is no workspace *)
  | _ => D.COther None (nm n) 0
  end.

Section Frames.
  Variable ws : list E.who.
  Variable c : E.cfg.
  Variable cD : D.cfg.
  Notation feats := (F.features (D.c_reg cD)).

  (* the D configuration answers for the frame with the handlers the frame carries *)
  Definition req_ok (n : nat) (i : E.id) (m : E.rmethod) : Prop :=
    let k := call_req n i m in
    match m with
    | E.RUnknown => DS.isb cD k = false /\ F.aget (D.meth_of k) feats = None
    | E.RUser b => DS.isb cD k = false /\ bok b = true /\ exists fid, F.aget (D.meth_of k) feats = Some (ent fid b)
    | E.RBuiltin fails u => fails = false /\ DS.isb cD k = true /\ chained cD (D.meth_of k) u
    | E.RShutdown u => chained cD (D.meth_of k) u
    | E.RCommand None u => F.exec_command (D.c_reg cD) (Some (nm n)) = []
    | E.RCommand (Some b) u =>
        bok b = true /\ chained cD (D.meth_of k) u /\
        exists fid, F.exec_command (D.c_reg cD) (Some (nm n)) = [ent fid b] /\ D.raises cD (ent fid b) = braise b
    end.

  Definition not_ok (n : nat) (m : E.nmethod) : Prop :=
    let k := call_not n m in
    match m with
    | E.NUnknown => DS.isb cD k = false /\ F.aget (D.meth_of k) feats = None
    | E.NUser b => DS.isb cD k = false /\ bok b = true /\ exists fid, F.aget (D.meth_of k) feats = Some (ent fid b)
    | E.NBuiltin true _ => True
    | E.NBuiltin false u => DS.isb cD k = true /\ chained cD (D.meth_of k) u
    | E.NCancel _ | E.NExit _ => False
    end.

  Lemma Rel_same_ws : forall s t, Rel ws s t -> Rel ws s (D.set_ws (D.ws t) t).
  Proof. intros s t []. split; assumption. Qed.

  Lemma sim_set_shutdown : forall s t, Rel ws s t ->
      Rel ws (E.set_shutdown true s)
             (D.set_ws (D.mkW (D.w_init (D.ws t)) (D.w_docs (D.ws t)) (D.w_folders (D.ws t)) (D.w_trace (D.ws t)) true
                              (D.w_cancelled (D.ws t))) t).
  Proof. intros s t []. split; try assumption; reflexivity. Qed.

  Lemma sim_handle_request : forall s t n i m, Rel ws s t -> id_ok i = true -> whoat ws n = E.WReq i -> req_ok n i m ->
      Rel ws (E.handle_request c i m s) (D.handle_request cD n (idN i) (call_req n i m) t).
  Proof.
    intros s t n i m R Hi Hw H. unfold D.handle_request. destruct m as [|b|u|fails u|cmd u]; cbn [req_ok call_req] in *.
    - destruct H as [H1 H2]. rewrite (DP.get_handler_other cD _ _ H1), H2. apply Rel_add_out.
      cbn [E.handle_request]. eapply Rel_silent; [|exact R]. eapply Silent_trans; [apply silent_send_response|apply silent_hook].
    - destruct H as (H1 & Hb & fid & H2). rewrite (DP.get_handler_other cD _ _ H1), H2. cbn [E.handle_request].
      destruct (sim_execute_request ws c cD s t i E.PUser b n (D.meth_of (D.COther (Some (idN i)) (nm n) 0)) D.PUser fid
                                    [D.ACall (D.COther (Some (idN i)) (nm n) 0)] R Hb Hi Hw eq_refl) as [A _].
      cbv zeta in A. destruct (E.execute_request c i E.PUser b s) as [s1 x]. destruct (D.execute_request cD (idN i) _ t) as [t1 y].
      cbn [fst] in A. assert (A' : Rel ws (E.on_exc c i x s1) t1) by (eapply Rel_silent; [apply silent_on_exc|exact A]).
      destruct y; [apply Rel_add_out|]; exact A'.
    - (* shutdown *)
      rewrite (DP.get_handler_builtin cD _ (D.CShutdown (idN i)) (DP.isb_known cD (D.CShutdown (idN i)) eq_refl)).
      cbv beta iota zeta. unfold D.builtin_body. cbn [D.ws_effect]. cbv beta iota zeta.
      cbn [E.handle_request]. apply Rel_add_out. eapply Rel_silent; [apply silent_send_response|].
      apply sim_chain; [|exact H|exact Hw].
      eapply Rel_silent; [apply silent_log_end|]. unfold E.lsp_shutdown. apply sim_set_shutdown.
      apply sim_cancel_all. apply sim_log_builtin; assumption.
    - (* a built-in request that does not raise *)
      destruct H as (-> & H1 & H2). rewrite (DP.get_handler_builtin cD _ _ H1).
      cbv beta iota zeta. unfold D.builtin_body. cbn [D.ws_effect]. cbv beta iota zeta.
      cbn [E.handle_request]. apply Rel_add_out. eapply Rel_silent; [apply silent_send_response|].
      apply sim_chain; [|exact H2|exact Hw]. apply Rel_same_ws.
      eapply Rel_silent; [apply silent_log_end|]. apply sim_log_builtin; assumption.
    - (* workspace/executeCommand *)
      rewrite (DP.get_handler_builtin cD _ (D.CExecCmd (idN i) (nm n) 0) (DP.isb_known cD (D.CExecCmd (idN i) (nm n) 0) eq_refl)).
      cbv beta iota zeta. unfold D.exec_cmd_body. cbn [E.handle_request].
      set (t1 := D.log_builtin n (D.CExecCmd (idN i) (nm n) 0) [D.ACall (D.CExecCmd (idN i) (nm n) 0); D.AId (idN i)] t).
      assert (R1 : Rel ws (E.log (E.WReq i) E.PBuiltin E.HStart E.Loop s) t1) by (apply sim_log_builtin; assumption).
      destruct cmd as [b|].
      + destruct H as (Hb & Hu & fid & -> & Hr).
        destruct (sim_execute_request ws c cD _ t1 i E.PCommand b n (Some (nm n)) D.PCommand fid [D.AVal 0] R1 Hb Hi Hw eq_refl) as [A B].
        cbv zeta in A, B. specialize (B Hr).
        destruct (E.execute_request c i E.PCommand b _) as [s2 x]. destruct (D.execute_request cD (idN i) _ t1) as [t2 y].
        cbn [fst snd] in A, B. subst y.
        assert (A' : Rel ws (E.log (E.WReq i) E.PBuiltin E.HEnd E.Loop s2) t2) by (eapply Rel_silent; [apply silent_log_end|exact A]).
        destruct x as [e|].
        * apply Rel_add_out. eapply Rel_silent; [apply silent_on_exc|exact A'].
        * apply sim_chain; assumption.
      + rewrite H. apply Rel_add_out. eapply Rel_silent; [apply silent_on_exc|].
        eapply Rel_silent; [apply silent_log_end|exact R1].
  Qed.

  Lemma sim_handle_notification : forall s t n tag m, Rel ws s t -> whoat ws n = E.WNot tag -> not_ok n m ->
      Rel ws (E.handle_notification c tag m s) (D.handle_notification cD n (call_not n m) t).
  Proof.
    intros s t n tag m R Hw H. unfold D.handle_notification. destruct m as [|b|i|u|fails u]; cbn [not_ok call_not] in *; try contradiction.
    - destruct H as [H1 H2]. rewrite (DP.get_handler_other cD _ _ H1), H2. exact R.
    - destruct H as (H1 & Hb & fid & H2). rewrite (DP.get_handler_other cD _ _ H1), H2. cbn [E.handle_notification].
      pose proof (sim_exec_notification ws c cD s t (E.WNot tag) E.PUser b n (D.meth_of (D.COther None (nm n) 0)) D.PUser fid
                                        [D.ACall (D.COther None (nm n) 0)] R Hb Hw eq_refl) as A.
      destruct (E.exec_notification c (E.WNot tag) E.PUser b s) as [s1 x]. cbn [fst] in A.
      destruct x; [eapply Rel_silent; [apply silent_hook|exact A]|exact A].
    - destruct fails.
      + (* the built-in raises: nothing else runs *)
        rewrite (DP.get_handler_builtin cD _ (D.CDidClose 0) (DP.isb_known cD (D.CDidClose 0) eq_refl)).
        cbv beta iota zeta. unfold D.builtin_body. cbn [D.ws_effect D.log_builtin D.set_hlog D.ws].
        rewrite (r_init _ _ _ R). cbn [E.handle_notification].
        eapply Rel_silent; [apply silent_hook|]. eapply Rel_silent; [apply silent_log_end|]. apply sim_log_builtin; assumption.
      + destruct H as [H1 H2]. rewrite (DP.get_handler_builtin cD _ _ H1).
        cbv beta iota zeta. unfold D.builtin_body. cbn [D.ws_effect]. cbv beta iota zeta. cbn [E.handle_notification].
        apply sim_chain; [|exact H2|exact Hw]. apply Rel_same_ws.
        eapply Rel_silent; [apply silent_log_end|]. apply sim_log_builtin; assumption.
  Qed.
End Frames.

(* ------------------------------------------------------------------ projection of a history *)
(* the frames E dispatches to a handler lookup: who they are, and the D message they are *)
Definition dispatched (f : E.frame) : option (E.who * (nat -> D.call)) :=
  match f with
  | E.FReq true i E.POk m => Some (E.WReq i, fun n => call_req n i m)
  | E.FNotif true tag E.POk m => Some (E.WNot tag, fun n => call_not n m)
  | _ => None
  end.

Fixpoint project (n : nat) (evs : list E.ev) : list D.ev :=
  match evs with
  | [] => []
  | e :: r =>
      match e with
      | E.Recv f => match dispatched f with
                    | Some (_, k) => D.Recv (k n) :: project (S n) r
                    | None => project n r
                    end
      | E.TaskStep t => D.TaskStep t :: project n r
      | E.LoopCb t => D.LoopCb t :: project n r
      | E.JobStart j => D.JobStart j :: project n r
      | E.JobFinish j => D.JobFinish j :: project n r
      | _ => project n r
      end
  end.

(* message number -> whose message it is *)
Fixpoint whos (evs : list E.ev) : list E.who :=
  match evs with
  | [] => []
  | E.Recv f :: r => match dispatched f with Some (w, _) => w :: whos r | None => whos r end
  | _ :: r => whos r
  end.

(* the common fragment, and the D configuration answering for every dispatched frame *)
Fixpoint agrees (cD : D.cfg) (n : nat) (evs : list E.ev) : Prop :=
  match evs with
  | [] => True
  | e :: r =>
      match e with
      | E.Recv (E.FReq true i E.POk m) => id_ok i = true /\ req_ok cD n i m /\ agrees cD (S n) r
      | E.Recv (E.FNotif true _ E.POk m) => not_ok cD n m /\ agrees cD (S n) r
      | E.Recv (E.FResp _ _ _ _) => False
      | E.UserSend _ => False
      | _ => agrees cD n r
      end
  end.

Lemma whoat_nth : forall ws n w, nth_error ws n = Some w -> whoat ws n = w.
Proof. intros ws n w H. unfold whoat. apply nth_error_nth. exact H. Qed.

Section Steps.
  Variable ws : list E.who.
  Variable c : E.cfg.
  Variable cD : D.cfg.

  Lemma sim_task_step : forall s t n, Rel ws s t -> Rel ws (E.task_step n s) (D.task_step cD n t).
  Proof.
    intros s t n R. unfold E.task_step, D.task_step.
    pose proof (map_eq_nth _ _ _ _ _ _ _ n (r_tasks _ _ _ R)) as H.
    destruct (nth_error (D.tasks t) n) as [x|] eqn:Ex, (nth_error (E.tasks s) n) as [y|] eqn:Ey; try contradiction; [|exact R].
    unfold dtask, etask in H. inversion H as [[H1 H2 H3 H4]].
    pose proof (r_fresh _ _ _ R) as Fr. rewrite forallb_forall in Fr. specialize (Fr y (nth_error_In _ _ Ey)). unfold task_fresh in Fr.
    destruct (E.t_st y) as [st l mc|r0|r0], (D.t_st x) as [mc'|r1|r1]; try discriminate; try exact R.
    apply andb_true_iff in Fr. destruct Fr as [A B]. apply negb_true_iff in A. apply Nat.eqb_eq in B. subst st l.
    cbn in H4. injection H4 as H4. subst mc'. destruct mc; cbn [negb].
    - apply sim_set_task_st; [exact R|reflexivity|exact I].
    - unfold E.task_advance, E.task_finish.
      apply sim_set_task_st; [| unfold D.res_of; destruct (D.raises cD _), (E.bout (E.t_b y)); reflexivity | exact I].
      eapply Rel_silent; [apply silent_log_end|]. apply sim_invoke; auto.
  Qed.

  Lemma sim_loop_cb : forall s t n, Rel ws s t -> Rel ws (E.loop_cb c n s) (D.loop_cb n t).
  Proof.
    intros s t n R. unfold E.loop_cb, D.loop_cb.
    pose proof (map_eq_nth _ _ _ _ _ _ _ n (r_tasks _ _ _ R)) as H.
    destruct (nth_error (D.tasks t) n) as [x|] eqn:Ex, (nth_error (E.tasks s) n) as [y|] eqn:Ey; try contradiction; [|exact R].
    unfold dtask, etask in H. inversion H as [[H1 H2 H3 H4]].
    pose proof (r_cbt _ _ _ R) as Ck. rewrite forallb_forall in Ck. specialize (Ck y (nth_error_In _ _ Ey)).
    destruct (E.t_st y) as [st l mc|r0|r0], (D.t_st x) as [mc'|r1|r1]; try discriminate; try exact R.
    cbn in H4. injection H4 as H4.
    apply sim_run_cb; auto. apply sim_set_task_st; [exact R|reflexivity|exact I].
  Qed.

  Lemma sim_job_start : forall s t n, Rel ws s t -> Rel ws (E.job_start n s) (D.job_start n t).
  Proof.
    intros s t n R. unfold E.job_start, D.job_start.
    pose proof (map_eq_nth _ _ _ _ _ _ _ n (r_jobs _ _ _ R)) as H.
    destruct (nth_error (D.jobs t) n) as [x|] eqn:Ex, (nth_error (E.jobs s) n) as [y|] eqn:Ey; try contradiction; [|exact R].
    unfold djob, ejob in H. inversion H as [[H1 H2 H3 H4]].
    destruct (E.j_st y), (D.j_st x); try discriminate; try exact R.
    (* E: the log entry after the state change; D: before - the two commute *)
    change (Rel ws (E.set_job_st n E.JRunning (E.log (whoat ws (D.i_msg (D.j_inv x))) (cpart (D.i_part (D.j_inv x))) E.HStart E.Pool s))
                (D.set_job_st n D.JRunning (D.invoke D.OnPool (D.j_inv x) t))).
    apply sim_set_job_st; [|reflexivity]. apply sim_invoke; auto.
  Qed.

  Lemma sim_job_finish : forall s t n, Rel ws s t -> Rel ws (E.job_finish c n s) (D.job_finish cD n t).
  Proof.
    intros s t n R. unfold E.job_finish, D.job_finish.
    pose proof (map_eq_nth _ _ _ _ _ _ _ n (r_jobs _ _ _ R)) as H.
    destruct (nth_error (D.jobs t) n) as [x|] eqn:Ex, (nth_error (E.jobs s) n) as [y|] eqn:Ey; try contradiction; [|exact R].
    unfold djob, ejob in H. inversion H as [[H1 H2 H3 H4]].
    pose proof (r_cbj _ _ _ R) as Ck. rewrite forallb_forall in Ck. specialize (Ck y (nth_error_In _ _ Ey)).
    destruct (E.j_st y), (D.j_st x); try discriminate; try exact R. cbv zeta.
    apply sim_run_cb; auto.
    - apply sim_set_job_st; [|reflexivity]. eapply Rel_silent; [apply silent_log_end|exact R].
    - unfold D.res_of. destruct (D.raises cD _), (E.bout (E.j_b y)); reflexivity.
  Qed.

  Lemma sim_write_step : forall s t, Rel ws s t -> Rel ws (E.write_step c s) t.
  Proof.
    intros s t R. unfold E.write_step. pose proof (r_wq _ _ _ R) as W.
    destruct (E.wq s) as [|[f|rc] r] eqn:Q; [exact R| |cbn in W; discriminate].
    cbn [forallb is_frame andb] in W. eapply Rel_silent; [apply silent_do_write|].
    destruct R. split; assumption.
  Qed.

  Lemma sim_recv : forall s t n f, Rel ws s t -> D.nmsg t = n ->
      match f with
      | E.FReq true i E.POk m => id_ok i = true /\ req_ok cD n i m /\ whoat ws n = E.WReq i
      | E.FNotif true tag E.POk m => not_ok cD n m /\ whoat ws n = E.WNot tag
      | E.FResp _ _ _ _ => False
      | _ => True
      end ->
      Rel ws (E.recv c f s) (match dispatched f with Some (_, k) => D.recv cD (k n) t | None => t end).
  Proof.
    intros s t n f R Hn H. destruct f as [|ver i ps m|ver tag ps m|ver i iserr ps]; cbn [E.recv dispatched].
    - eapply Rel_silent; [apply silent_hook|exact R].
    - destruct ps; [| destruct ver; (eapply Rel_silent; [|exact R]); (eapply Silent_trans; [apply silent_send_response|apply silent_hook])
                    | destruct ver; (eapply Rel_silent; [|exact R]); (eapply Silent_trans; [apply silent_send_response|apply silent_hook])].
      destruct ver; cbn [negb]; [|eapply Rel_silent; [apply silent_hook|exact R]].
      destruct H as (Hi & Hok & Hw). unfold D.recv. rewrite (r_shut _ _ _ R).
      destruct (E.shutdown s); [apply Rel_set_nmsg; exact R|].
      assert (Hq : D.req_id (call_req n i m) = Some (idN i)) by (destruct m; reflexivity). rewrite Hq, Hn.
      apply sim_handle_request; auto. apply Rel_set_nmsg. exact R.
    - destruct ps; [| destruct ver; (eapply Rel_silent; [apply silent_hook|exact R]) | destruct ver; (eapply Rel_silent; [apply silent_hook|exact R])].
      destruct ver; cbn [negb]; [|eapply Rel_silent; [apply silent_hook|exact R]].
      destruct H as (Hok & Hw). unfold D.recv. rewrite (r_shut _ _ _ R).
      assert (Hx : E.is_exit m = false) by (destruct m; try reflexivity; contradiction). rewrite Hx. cbn [negb]. rewrite andb_true_r.
      destruct (E.shutdown s); [apply Rel_set_nmsg; exact R|].
      assert (Hq : D.req_id (call_not n m) = None) by (destruct m as [| | | |[|] ?]; reflexivity). rewrite Hq, Hn.
      apply sim_handle_notification; auto. apply Rel_set_nmsg. exact R.
    - contradiction.
  Qed.
End Steps.

(* ------------------------------------------------------------------ the link *)
Lemma nmsg_step : forall cD t e, D.nmsg (D.step cD t e) = match e with D.Recv _ => S (D.nmsg t) | _ => D.nmsg t end.
Proof. intros cD t e. destruct (DP.step_log cD t e) as (_ & _ & H). rewrite H. destruct e; reflexivity. Qed.

Theorem link_from : forall c cD ws evs n s t,
    Rel ws s t -> D.nmsg t = n -> agrees cD n evs ->
    (forall j w, nth_error (whos evs) j = Some w -> nth_error ws (n + j) = Some w) ->
    Rel ws (fold_left (E.step c) evs s) (fold_left (D.step cD) (project n evs) t).
Proof.
  intros c cD ws evs. induction evs as [|e evs IH]; intros n s t R Hn Ha Hw; [exact R|].
  cbn [fold_left]. unfold E.step at 2. rewrite (r_exit _ _ _ R).
  destruct e as [f|k|k|k|k| | |i]; cbn [project agrees whos] in *.
  - pose proof (sim_recv ws c cD s t n f R Hn) as S1.
    destruct f as [|[|] i [| |] m|[|] tag [| |] m|ver i iserr ps]; cbn [dispatched] in *; try contradiction;
      try (apply (IH n); [apply S1; exact I|exact Hn|exact Ha|exact Hw]).
    + destruct Ha as (Hi & Hok & Ha). cbn [fold_left].
      apply (IH (S n)); [apply S1; repeat split; auto; apply whoat_nth; rewrite <- (Nat.add_0_r n); apply Hw; reflexivity
                        | rewrite <- Hn; apply (nmsg_step cD t (D.Recv _)) | exact Ha |].
      intros j w H. replace (S n + j) with (n + S j) by lia. apply Hw. exact H.
    + destruct Ha as (Hok & Ha). cbn [fold_left].
      apply (IH (S n)); [apply S1; repeat split; auto; apply whoat_nth; rewrite <- (Nat.add_0_r n); apply Hw; reflexivity
                        | rewrite <- Hn; apply (nmsg_step cD t (D.Recv _)) | exact Ha |].
      intros j w H. replace (S n + j) with (n + S j) by lia. apply Hw. exact H.
  - cbn [fold_left]. apply (IH n); [apply sim_task_step; exact R|rewrite <- Hn; apply (nmsg_step cD t (D.TaskStep k))|exact Ha|exact Hw].
  - cbn [fold_left]. apply (IH n); [apply sim_loop_cb; exact R|rewrite <- Hn; apply (nmsg_step cD t (D.LoopCb k))|exact Ha|exact Hw].
  - cbn [fold_left]. apply (IH n); [apply sim_job_start; exact R|rewrite <- Hn; apply (nmsg_step cD t (D.JobStart k))|exact Ha|exact Hw].
  - cbn [fold_left]. apply (IH n); [apply sim_job_finish; exact R|rewrite <- Hn; apply (nmsg_step cD t (D.JobFinish k))|exact Ha|exact Hw].
  - apply (IH n); [apply sim_write_step; exact R|exact Hn|exact Ha|exact Hw].
  - apply (IH n); [|exact Hn|exact Ha|exact Hw]. unfold E.exit_cb. rewrite (r_exitq _ _ _ R). exact R.
  - contradiction.
Qed.

(* For EVERY E configuration, every D configuration that answers for the frames, and EVERY event list
   of the common fragment: the two models are in the same state as far as both speak of it. *)
Theorem link_run : forall c cD evs, agrees cD 0 evs ->
    Rel (whos evs) (E.run c evs) (D.run cD (project 0 evs)).
Proof.
  intros c cD evs H. apply (link_from c cD (whos evs) evs 0 E.init D.init); [apply Rel_init|reflexivity|exact H|].
  intros j w Hj. exact Hj.
Qed.

(* the START entries of E's handler log, read as (whose message, built-in|user|command, thread), are D's
   log read the same way, in the same order *)
Theorem link_starts : forall c cD evs, agrees cD 0 evs ->
    starts (E.hlog (E.run c evs)) = map (dlog (whos evs)) (D.hlog (D.run cD (project 0 evs))).
Proof. intros c cD evs H. symmetry. exact (r_log _ _ _ (link_run c cD evs H)). Qed.

(* ------------------------------------------------------------------ corollaries *)
Lemma agrees_app : forall cD a b n, agrees cD n (a ++ b) -> agrees cD n a.
Proof.
  intros cD a. induction a as [|e a IH]; intros b n H; [exact I|]. cbn [app agrees] in *.
  destruct e as [f|k|k|k|k| | |i]; try (apply (IH b n H)); try contradiction.
  destruct f as [|[|] i [| |] m|[|] tag [| |] m|ver i iserr ps]; try (apply (IH b n H)); try contradiction.
  - destruct H as (A & B & C). repeat split; auto. apply (IH b (S n) C).
  - destruct H as (A & B). split; auto. apply (IH b (S n) B).
Qed.

Lemma project_snoc_task : forall a n t, project n (a ++ [E.TaskStep t]) = project n a ++ [D.TaskStep t].
Proof.
  induction a as [|e a IH]; intros n t; [reflexivity|]. cbn [app project].
  destruct e as [f|k|k|k|k| | |i]; try (cbn [app]; rewrite IH; reflexivity); try apply IH.
  destruct (dispatched f) as [[w k]|]; [cbn [app]; rewrite IH; reflexivity|apply IH].
Qed.

Lemma cons_eq : forall (A : Type) (x y : A) l l', x :: l = y :: l' -> x = y /\ l = l'.
Proof. intros A x y l l' H. split; [exact (f_equal (hd x) H)|exact (f_equal (@tl A) H)]. Qed.

(* idle in E (no handler task, callback, pool item, write or exit callback left) is idle in D *)
Theorem link_quiescent : forall ws s t, Rel ws s t -> E.quiescent s = true -> D.quiescent t = true.
Proof.
  intros ws s t R Q. unfold E.quiescent in Q. unfold D.quiescent.
  apply andb_true_iff in Q. destruct Q as [Q _]. apply andb_true_iff in Q. destruct Q as [Q _].
  apply andb_true_iff in Q. destruct Q as [Q1 Q2]. apply andb_true_iff. split.
  - pose proof (r_tasks _ _ _ R) as H. revert H Q1. generalize (E.tasks s). induction (D.tasks t) as [|x l IH]; intros [|y l'] H Q1; try discriminate; [reflexivity|].
    cbn [map] in H. apply cons_eq in H. destruct H as [H1 H2]. cbn [forallb] in *. apply andb_true_iff in Q1. destruct Q1 as [A B].
    rewrite (IH l' H2 B), andb_true_r. unfold dtask, etask in H1. assert (H4 := f_equal snd H1). cbn [snd] in H4.
    unfold E.task_idle in A. unfold D.task_idle. destruct (E.t_st y), (D.t_st x); try discriminate; reflexivity.
  - pose proof (r_jobs _ _ _ R) as H. revert H Q2. generalize (E.jobs s). induction (D.jobs t) as [|x l IH]; intros [|y l'] H Q2; try discriminate; [reflexivity|].
    cbn [map] in H. apply cons_eq in H. destruct H as [H1 H2]. cbn [forallb] in *. apply andb_true_iff in Q2. destruct Q2 as [A B].
    rewrite (IH l' H2 B), andb_true_r. unfold djob, ejob in H1. assert (H4 := f_equal snd H1). cbn [snd] in H4.
    unfold E.job_idle in A. unfold D.job_idle. destruct (E.j_st y), (D.j_st x); try discriminate; reflexivity.
Qed.

(* C14's statement holds of Endpoint.v's handler log: its START entries are, in order, the log `dl` of
   Dispatch.v, of which C14Proofs shows - for every schedule - built-in first (ordb), no handler body
   twice (started <= 1), the balance started + waiting + cancelled = owed, exactly once at quiescence
   for every handler that does not answer a request, and the thread the registered callable's
   markers promise *)
Theorem endpoint_satisfies_C14 : forall c cD evs, agrees cD 0 evs ->
    let dl := D.hlog (D.run cD (project 0 evs)) in
    let ks := DS.calls_of (project 0 evs) in
    starts (E.hlog (E.run c evs)) = map (dlog (whos evs)) dl /\
    DP.ordb (D.bset cD) [] dl = true /\
    (forall q, (DP.started q (D.run cD (project 0 evs)) <= 1)%nat) /\
    (forall q, DP.tot q (D.run cD (project 0 evs)) = DP.owed cD D.w0 0 ks q) /\
    (forall h, In h dl ->
       (D.h_part h = D.PBuiltin /\ D.h_site h = D.OnLoop) \/
       exists e, DP.registered cD (D.h_part h) (D.h_meth h) = Some e /\ D.h_site h = D.tsite_of (F.exec_site e)) /\
    (E.quiescent (E.run c evs) = true ->
     forall n k p, nth_error ks n = Some k -> DP.fut_part cD k p = false ->
       DP.started (n, p) (D.run cD (project 0 evs)) = DP.owes cD (DS.spec_ws cD (firstn n ks)) n k (n, p)).
Proof.
  intros c cD evs H dl ks. pose proof (link_run c cD evs H) as R.
  destruct (DP.builtin_then_user_once cD (project 0 evs)) as (B1 & B2 & B3 & B4).
  split; [exact (link_starts c cD evs H)|]. split; [exact B1|]. split; [exact B2|]. split; [exact B3|]. split.
  - intros h Hh. destruct (DP.entries_from_registry cD (project 0 evs) h Hh) as [(A1 & A2 & _)|(e & A1 & _ & _ & A4)]; [left; auto|right; eauto].
  - intros Q n k p Hk Hf. apply B4; auto. exact (link_quiescent _ _ _ R Q).
Qed.

(* in E's own terms: a command's START is preceded by the START of the built-in of the same message *)
Theorem endpoint_command_after_builtin : forall c cD evs l1 w sv l2, agrees cD 0 evs ->
    starts (E.hlog (E.run c evs)) = l1 ++ (w, E.PCommand, sv) :: l2 -> In (w, E.PBuiltin, E.Loop) l1.
Proof.
  intros c cD evs l1 w sv l2 H Hs. rewrite (link_starts c cD evs H) in Hs.
  set (dl := D.hlog (D.run cD (project 0 evs))) in *.
  assert (Hd : exists d1 h d2, dl = d1 ++ h :: d2 /\ map (dlog (whos evs)) d1 = l1 /\ dlog (whos evs) h = (w, E.PCommand, sv)).
  { clear - Hs. revert l1 Hs. induction dl as [|x dl IH]; intros l1 Hs; [destruct l1; discriminate|].
    destruct l1 as [|y l1]; cbn [map app] in Hs; apply cons_eq in Hs; destruct Hs as [H1 H2].
    - exists [], x, dl. auto.
    - destruct (IH l1 H2) as (d1 & h & d2 & -> & A & B). exists (x :: d1), h, d2. cbn [map app]. rewrite A, H1. auto. }
  destruct Hd as (d1 & h & d2 & Hdl & <- & Hh). unfold dlog in Hh. inversion Hh as [[H1 H2 H3]].
  assert (Hp : D.h_part h = D.PCommand) by (destruct (D.h_part h); try discriminate; reflexivity).
  pose proof (DP.ordb_meaning (D.bset cD) dl (proj1 (DP.O_run cD (project 0 evs))) d1 h d2 Hdl) as Ob.
  rewrite Hp in Ob. specialize (Ob eq_refl). unfold DP.has_b in Ob. apply existsb_exists in Ob. destruct Ob as (b & Hb & Hq).
  apply andb_true_iff in Hq. destruct Hq as [Q1 Q2]. apply Nat.eqb_eq in Q1. apply in_map_iff. exists b. split; [|exact Hb].
  unfold dlog. rewrite Q1. unfold DP.is_b in Q2. destruct (D.h_part b) eqn:Pb; try discriminate.
  assert (Hb' : In b dl) by (rewrite Hdl; apply in_or_app; left; exact Hb).
  destruct (DP.entries_from_registry cD (project 0 evs) b Hb') as [(_ & A2 & _)|(e & A1 & _)].
  - rewrite A2. reflexivity.
  - rewrite Pb in A1. discriminate.
Qed.

(* conversely, C09's "a request coroutine that was unstarted when cancel() hit it is never entered"
   is inherited by Dispatch.v: stepping such a task adds nothing to D's log either *)
Theorem dispatch_inherits_never_starts : forall c cD pre evs t,
    agrees cD 0 (pre ++ evs ++ [E.TaskStep t]) -> C09Proofs.dead_at t (E.run c pre) ->
    D.hlog (D.run cD (project 0 ((pre ++ evs) ++ [E.TaskStep t]))) = D.hlog (D.run cD (project 0 (pre ++ evs))).
Proof.
  intros c cD pre evs t H Dd. rewrite app_assoc in H.
  pose proof (link_starts c cD _ H) as L1. pose proof (link_starts c cD _ (agrees_app cD _ _ 0 H)) as L0.
  destruct (C09Proofs.cancelled_unstarted_never_starts c evs (E.run c pre) t Dd) as [_ Hn].
  assert (Hr : E.run c ((pre ++ evs) ++ [E.TaskStep t]) = E.step c (E.run c (pre ++ evs)) (E.TaskStep t))
    by (unfold E.run; rewrite fold_left_app; reflexivity).
  assert (Hr0 : E.run c (pre ++ evs) = fold_left (E.step c) evs (E.run c pre)) by (unfold E.run; apply fold_left_app).
  rewrite Hr, Hr0, Hn, <- Hr0, L0 in L1.
  rewrite project_snoc_task in *. unfold D.run in *. rewrite fold_left_app in *. cbn [fold_left] in *.
  set (t0 := fold_left (D.step cD) (project 0 (pre ++ evs)) D.init) in *.
  destruct (DP.step_log cD t0 (D.TaskStep t)) as (A & _). rewrite A in *.
  apply (f_equal (@length _)) in L1. rewrite !map_length, app_length in L1.
  destruct (DP.new_log cD t0 (D.TaskStep t)); [rewrite app_nil_r; reflexivity|cbn in L1; lia].
Qed.

(* ------------------------------------------------------------------ non-vacuity *)
(* One history with every class of the fragment: an unknown request, user requests (sync raising,
   async, thread), a built-in request with a chained thread feature, a failing and a plain built-in
   notification, executeCommand (async command, chained sync feature; unknown command), a frame with
   the wrong version and garbage (not dispatched), task / pool / writer steps, shutdown with a chained
   async feature - which cancels the unstarted async request -, and a frame after shutdown. *)
Definition bS : E.behav := E.mkB E.HSync (E.ORet 1) E.Propagate.
Definition bSr : E.behav := E.mkB E.HSync E.ORaise E.Propagate.
Definition bA : E.behav := E.mkB (E.HAsync 0) (E.ORet 2) E.Propagate.
Definition bT : E.behav := E.mkB (E.HThread false) (E.ORaiseRpc 5) E.Swallow.

Definition ex_evs : list E.ev :=
  [ E.Recv (E.FReq true (E.IInt 1) E.POk E.RUnknown);                         (* 0 *)
    E.Recv (E.FReq true (E.IInt 2) E.POk (E.RUser bSr));                      (* 1 *)
    E.Recv (E.FReq true (E.IInt 3) E.POk (E.RUser bA));                       (* 2: task 0 *)
    E.Recv (E.FReq false (E.IInt 9) E.POk (E.RUser bS));                      (* not dispatched *)
    E.Recv E.FGarbage;
    E.Recv (E.FReq true (E.IInt 4) E.POk (E.RBuiltin false (Some bT)));       (* 3: job 0 *)
    E.Recv (E.FNotif true 7 E.POk (E.NBuiltin true (Some bS)));               (* 4: raises *)
    E.Recv (E.FNotif true 8 E.POk (E.NBuiltin false None));                   (* 5 *)
    E.Recv (E.FReq true (E.IInt 5) E.POk (E.RCommand (Some bA) (Some bS)));   (* 6: task 1 *)
    E.Recv (E.FReq true (E.IInt 6) E.POk (E.RCommand None (Some bS)));        (* 7 *)
    E.JobStart 0; E.TaskStep 1; E.WriteStep; E.JobFinish 0; E.LoopCb 1;
    E.Recv (E.FNotif true 9 E.POk (E.NUser bT));                              (* 8: job 1 *)
    E.Recv (E.FReq true (E.IInt 7) E.POk (E.RShutdown (Some bA)));            (* 9: task 2; cancels task 0 *)
    E.TaskStep 0; E.TaskStep 2; E.JobStart 1; E.LoopCb 0; E.LoopCb 2; E.JobFinish 1;
    E.Recv (E.FNotif true 10 E.POk E.NUnknown) ].                             (* 10: gated *)

Definition ex_cfg : D.cfg :=
  D.mkCfg (F.mkreg [ (D.other_name (nm 1), ent 1%N bSr); (D.other_name (nm 2), ent 2%N bA); (D.other_name (nm 3), ent 3%N bT);
                     (Some D.s_exec_cmd, ent 20%N bS); (D.other_name (nm 8), ent 8%N bT); (Some D.s_shutdown, ent 21%N bA) ]
                   [ (Some (nm 6), ent 6%N bA) ] [])
          [1%N] [] [] [nm 3; nm 5].

Example link_nonvacuous :
  agrees ex_cfg 0 ex_evs /\
  (forall c, starts (E.hlog (E.run c ex_evs)) = map (dlog (whos ex_evs)) (D.hlog (D.run ex_cfg (project 0 ex_evs)))) /\
  map (dlog (whos ex_evs)) (D.hlog (D.run ex_cfg (project 0 ex_evs))) =
    [ (E.WReq (E.IInt 2), E.PUser, E.Loop);
      (E.WReq (E.IInt 4), E.PBuiltin, E.Loop);
      (E.WNot 7, E.PBuiltin, E.Loop);
      (E.WNot 8, E.PBuiltin, E.Loop);
      (E.WReq (E.IInt 5), E.PBuiltin, E.Loop); (E.WReq (E.IInt 5), E.PUser, E.Loop);
      (E.WReq (E.IInt 6), E.PBuiltin, E.Loop);
      (E.WReq (E.IInt 4), E.PUser, E.Pool);
      (E.WReq (E.IInt 5), E.PCommand, E.Loop);
      (E.WReq (E.IInt 7), E.PBuiltin, E.Loop);
      (E.WReq (E.IInt 7), E.PUser, E.Loop);
      (E.WNot 9, E.PUser, E.Pool) ] /\
  E.quiescent (E.run (E.mkCfg E.WBlocking E.HookDefault None) ex_evs) = true.
Proof.
  assert (A : agrees ex_cfg 0 ex_evs).
  { cbn [agrees ex_evs]. repeat split; try reflexivity; try (eexists; split; reflexivity); try (eexists; reflexivity). }
  split; [exact A|]. split; [intro c; exact (link_starts c ex_cfg ex_evs A)|]. split; vm_compute; reflexivity.
Qed.

(* ------------------------------------------------------------------ a D configuration for every coherent history *)
(* `agrees` is a relation between a D configuration and an E history; here the configuration is a
   FUNCTION of the history (and of the user features `su` / `cu` the server has under `shutdown` and
   workspace/executeCommand: D's registry is one for the whole run, so a coherent history carries the
   same chained behaviour on all its shutdown frames, and on all its executeCommand frames). *)
Definition fidn (n : nat) : N := N.of_nat n.

Section Collect.
  Context {A : Type}.
  Variable own : nat -> E.frame -> list A.
  Fixpoint collect (n : nat) (evs : list E.ev) : list A :=
    match evs with
    | [] => []
    | E.Recv f :: r => match dispatched f with
                       | Some _ => own n f ++ collect (S n) r
                       | None => collect n r
                       end
    | _ :: r => collect n r
    end.
End Collect.

Definition own_feat (n : nat) (f : E.frame) : list (F.name * F.entry) :=
  match f with
  | E.FReq true _ E.POk (E.RUser b) | E.FNotif true _ E.POk (E.NUser b)
  | E.FReq true _ E.POk (E.RBuiltin _ (Some b)) | E.FNotif true _ E.POk (E.NBuiltin false (Some b)) =>
      [(D.other_name (nm n), ent (fidn n) b)]
  | _ => []
  end.
Definition own_cmd (n : nat) (f : E.frame) : list (F.name * F.entry) :=
  match f with E.FReq true _ E.POk (E.RCommand (Some b) _) => [(Some (nm n), ent (fidn n) b)] | _ => [] end.
Definition own_extra (n : nat) (f : E.frame) : list (list N) :=
  match f with
  | E.FReq true _ E.POk (E.RBuiltin _ _) | E.FNotif true _ E.POk (E.NBuiltin false _) => [nm n]
  | _ => []
  end.
Definition own_raise (n : nat) (f : E.frame) : list N :=
  match f with E.FReq true _ E.POk (E.RCommand (Some b) _) => if braise b then [fidn n] else [] | _ => [] end.

Definition fixed_feats (su cu : option E.behav) : list (F.name * F.entry) :=
  match su with Some b => [(Some D.s_shutdown, ent 0 b)] | None => [] end ++
  match cu with Some b => [(Some D.s_exec_cmd, ent 0 b)] | None => [] end.

Definition cfg_of (su cu : option E.behav) (evs : list E.ev) : D.cfg :=
  D.mkCfg (F.mkreg (fixed_feats su cu ++ collect own_feat 0 evs) (collect own_cmd 0 evs) [])
          (collect own_raise 0 evs) [] [] (collect own_extra 0 evs).

(* the history is in the fragment and carries `su` / `cu` on its shutdown / executeCommand frames *)
Definition obok (u : option E.behav) : bool := match u with Some b => bok b | None => true end.
Definition req_coh (su cu : option E.behav) (m : E.rmethod) : Prop :=
  match m with
  | E.RUnknown => True
  | E.RUser b => bok b = true
  | E.RBuiltin fails u => fails = false /\ obok u = true
  | E.RShutdown u => u = su
  | E.RCommand cmd u => obok cmd = true /\ u = cu
  end.
Definition not_coh (m : E.nmethod) : Prop :=
  match m with
  | E.NUnknown => True
  | E.NUser b => bok b = true
  | E.NBuiltin true _ => True
  | E.NBuiltin false u => obok u = true
  | E.NCancel _ | E.NExit _ => False
  end.
Fixpoint coherent (su cu : option E.behav) (evs : list E.ev) : Prop :=
  match evs with
  | [] => True
  | e :: r =>
      match e with
      | E.Recv (E.FReq true i E.POk m) => id_ok i = true /\ req_coh su cu m /\ coherent su cu r
      | E.Recv (E.FNotif true _ E.POk m) => not_coh m /\ coherent su cu r
      | E.Recv (E.FResp _ _ _ _) => False
      | E.UserSend _ => False
      | _ => coherent su cu r
      end
  end.

(* names *)
Lemma nm_eqb : forall a b, F.str_eqb (nm a) (nm b) = Nat.eqb a b.
Proof.
  intros a b. unfold nm. cbn [F.str_eqb]. rewrite andb_true_r. destruct (Nat.eqb a b) eqn:Q.
  - apply Nat.eqb_eq in Q. subst. apply N.eqb_refl.
  - apply N.eqb_neq. intro H. apply Nat2N.inj in H. apply Nat.eqb_neq in Q. contradiction.
Qed.

Lemma other_eqb : forall a b, F.name_eqb (D.other_name (nm a)) (D.other_name (nm b)) = Nat.eqb a b.
Proof. intros a b. unfold D.other_name. cbn [F.name_eqb F.str_eqb]. rewrite !N.eqb_refl. cbn [andb]. apply nm_eqb. Qed.

Lemma aget_app : forall {V} k (a b : list (F.name * V)),
    F.aget k (a ++ b) = match F.aget k a with Some v => Some v | None => F.aget k b end.
Proof.
  intros V k a b. induction a as [|[k' v] a IH]; [reflexivity|]. cbn [app F.aget]. destruct (F.name_eqb k k'); [reflexivity|exact IH].
Qed.

(* every entry a suffix of the history contributes is named after a frame number >= n *)
Definition high {V} (mk : nat -> F.name) (n : nat) (l : list (F.name * V)) : Prop :=
  Forall (fun p => exists j, n <= j /\ fst p = mk j) l.

Lemma high_none : forall {V} (mk : nat -> F.name) (inj : forall a b, F.name_eqb (mk a) (mk b) = Nat.eqb a b) n m (l : list (F.name * V)),
    high mk m l -> n < m -> F.aget (mk n) l = None.
Proof.
  intros V mk inj n m l H Hlt. induction H as [|[k v] l (j & Hj & Hk) _ IH]; [reflexivity|].
  cbn [F.aget fst] in *. subst k. rewrite inj. replace (Nat.eqb n j) with false by (symmetry; apply Nat.eqb_neq; lia). exact IH.
Qed.

Lemma high_weaken : forall {V} (mk : nat -> F.name) n m (l : list (F.name * V)), high mk m l -> n <= m -> high mk n l.
Proof.
  intros V mk n m l H Hle. eapply Forall_impl; [|exact H]. intros p (j & Hj & Hk). exists j. split; [lia|exact Hk].
Qed.

Lemma collect_high_feat : forall evs n, high (fun j => D.other_name (nm j)) n (collect own_feat n evs).
Proof.
  induction evs as [|e r IH]; intro n; [constructor|]. destruct e as [f| | | | | | |]; cbn [collect]; try apply IH.
  destruct (dispatched f) as [p|]; [|apply IH]. apply Forall_app. split.
  - destruct f as [|[|] i [| |] [|b|u|fl [b|]|cm u]|[|] tg [| |] [|b|i|u|[|] [b|]]|]; cbn [own_feat]; try constructor; try constructor;
      exists n; split; auto.
  - apply (high_weaken _ n (S n)); [apply IH|lia].
Qed.

Lemma collect_high_cmd : forall evs n, high (fun j => Some (nm j)) n (collect own_cmd n evs).
Proof.
  induction evs as [|e r IH]; intro n; [constructor|]. destruct e as [f| | | | | | |]; cbn [collect]; try apply IH.
  destruct (dispatched f) as [p|]; [|apply IH]. apply Forall_app. split.
  - destruct f as [|[|] i [| |] [|b|u|fl u|[b|] u]| |]; cbn [own_cmd]; try constructor; try constructor; exists n; split; auto.
  - apply (high_weaken _ n (S n)); [apply IH|lia].
Qed.

Definition highl {A} (mk : nat -> A) (n : nat) (l : list A) : Prop := Forall (fun x => exists j, n <= j /\ x = mk j) l.

Lemma collect_high_extra : forall evs n, highl nm n (collect own_extra n evs).
Proof.
  induction evs as [|e r IH]; intro n; [constructor|]. destruct e as [f| | | | | | |]; cbn [collect]; try apply IH.
  destruct (dispatched f) as [p|]; [|apply IH]. apply Forall_app. split.
  - destruct f as [|[|] i [| |] [|b|u|fl u|cm u]|[|] tg [| |] [|b|i|u|[|] u]|]; cbn [own_extra]; try constructor; try constructor; exists n; split; auto.
  - eapply Forall_impl; [|apply (IH (S n))]. intros x (j & Hj & ->). exists j. split; [lia|reflexivity].
Qed.

Lemma collect_high_raise : forall evs n, highl fidn n (collect own_raise n evs).
Proof.
  induction evs as [|e r IH]; intro n; [constructor|]. destruct e as [f| | | | | | |]; cbn [collect]; try apply IH.
  destruct (dispatched f) as [p|]; [|apply IH]. apply Forall_app. split.
  - destruct f as [|[|] i [| |] [|b|u|fl u|[b|] u]| |]; cbn [own_raise]; try constructor. destruct (braise b); constructor; [|constructor].
    exists n; split; auto.
  - eapply Forall_impl; [|apply (IH (S n))]. intros x (j & Hj & ->). exists j. split; [lia|reflexivity].
Qed.

Lemma highl_nm_none : forall n m l, highl nm m l -> n < m -> existsb (F.str_eqb (nm n)) l = false.
Proof.
  intros n m l H Hlt. induction H as [|x l (j & Hj & ->) _ IH]; [reflexivity|]. cbn [existsb]. rewrite nm_eqb, IH.
  replace (Nat.eqb n j) with false by (symmetry; apply Nat.eqb_neq; lia). reflexivity.
Qed.

Lemma highl_fid_none : forall n m l, highl fidn m l -> n < m -> D.memN (fidn n) l = false.
Proof.
  intros n m l H Hlt. unfold D.memN. induction H as [|x l (j & Hj & ->) _ IH]; [reflexivity|]. cbn [existsb]. rewrite IH, orb_false_r.
  apply N.eqb_neq. unfold fidn. intro Q. apply Nat2N.inj in Q. lia.
Qed.

(* isb on a frame's own name: only the extras matter *)
Lemma isb_other : forall cD q n v, DS.isb cD (D.COther q (nm n) v) = existsb (F.str_eqb (nm n)) (D.c_extra cD).
Proof.
  intros cD q n v. unfold DS.isb, D.bset, F.mem_name. rewrite existsb_app.
  change (existsb (F.name_eqb (D.meth_of (D.COther q (nm n) v))) D.builtins) with (F.mem_name (D.meth_of (D.COther q (nm n) v)) D.builtins).
  rewrite DP.known_name. cbn [DS.is_builtin_call orb]. induction (D.c_extra cD) as [|x l IH]; [reflexivity|].
  cbn [map existsb]. rewrite IH. reflexivity.
Qed.

Section Build.
  Variables su cu : option E.behav.
  Variable cD : D.cfg.
  Hypothesis Hsu : chained cD (Some D.s_shutdown) su.
  Hypothesis Hcu : chained cD (Some D.s_exec_cmd) cu.

  Definition lowf (n : nat) (P : list (F.name * F.entry)) : Prop := forall j, n <= j -> F.aget (D.other_name (nm j)) P = None.
  Definition lowc (n : nat) (P : list (F.name * F.entry)) : Prop := forall j, n <= j -> F.aget (Some (nm j)) P = None.
  Definition lowx (n : nat) (P : list (list N)) : Prop := forall j, n <= j -> existsb (F.str_eqb (nm j)) P = false.
  Definition lowr (n : nat) (P : list N) : Prop := forall j, n <= j -> D.memN (fidn j) P = false.

  Lemma agrees_gen : forall r n PF PC PX PR,
      F.features (D.c_reg cD) = PF ++ collect own_feat n r -> lowf n PF ->
      F.commands (D.c_reg cD) = PC ++ collect own_cmd n r -> lowc n PC ->
      D.c_extra cD = PX ++ collect own_extra n r -> lowx n PX ->
      D.c_raises cD = PR ++ collect own_raise n r -> lowr n PR ->
      coherent su cu r -> agrees cD n r.
  Proof.
    induction r as [|e r IH]; intros n PF PC PX PR HF LF HC LC HX LX HR LR Hco; [exact I|].
    destruct e as [f|k|k|k|k| | |i]; cbn [agrees coherent collect] in *; try (eapply IH; eassumption); try contradiction.
    assert (Step : forall (own1 : list (F.name * F.entry)) (own2 : list (F.name * F.entry)) (own3 : list (list N)) (own4 : list N),
               own_feat n f = own1 -> own_cmd n f = own2 -> own_extra n f = own3 -> own_raise n f = own4 ->
               dispatched f <> None -> coherent su cu r -> agrees cD (S n) r).
    { intros o1 o2 o3 o4 E1 E2 E3 E4 Hd Hc. destruct (dispatched f) as [p|] eqn:Dp; [|contradiction].
      apply (IH (S n) (PF ++ o1) (PC ++ o2) (PX ++ o3) (PR ++ o4)); try assumption.
      - rewrite HF, E1, app_assoc. reflexivity.
      - intros j Hj. rewrite aget_app, (LF j) by lia. subst o1.
        destruct f as [|[|] i0 [| |] [|b|u|fl [b|]|cm u]|[|] tg [| |] [|b|i0|u|[|] [b|]]|]; cbn [own_feat F.aget]; try reflexivity;
          rewrite other_eqb; replace (Nat.eqb j n) with false by (symmetry; apply Nat.eqb_neq; lia); reflexivity.
      - rewrite HC, E2, app_assoc. reflexivity.
      - intros j Hj. rewrite aget_app, (LC j) by lia. subst o2.
        destruct f as [|[|] i0 [| |] [|b|u|fl u|[b|] u]| |]; cbn [own_cmd F.aget]; try reflexivity.
        cbn [F.name_eqb]. rewrite nm_eqb. replace (Nat.eqb j n) with false by (symmetry; apply Nat.eqb_neq; lia). reflexivity.
      - rewrite HX, E3, app_assoc. reflexivity.
      - intros j Hj. rewrite existsb_app, (LX j) by lia. subst o3.
        destruct f as [|[|] i0 [| |] [|b|u|fl u|cm u]|[|] tg [| |] [|b|i0|u|[|] u]|]; cbn [own_extra existsb orb]; try reflexivity;
          rewrite nm_eqb; replace (Nat.eqb j n) with false by (symmetry; apply Nat.eqb_neq; lia); reflexivity.
      - rewrite HR, E4, app_assoc. reflexivity.
      - intros j Hj. unfold D.memN. rewrite existsb_app. fold (D.memN (fidn j) PR). rewrite (LR j) by lia. subst o4.
        destruct f as [|[|] i0 [| |] [|b|u|fl u|[b|] u]| |]; cbn [own_raise existsb orb]; try reflexivity.
        destruct (braise b); cbn [existsb orb]; [|reflexivity]. rewrite orb_false_r. apply N.eqb_neq. unfold fidn. intro Q. apply Nat2N.inj in Q. lia. }
    (* the lookups for frame number n *)
    assert (Lf : F.aget (D.other_name (nm n)) (F.features (D.c_reg cD)) = F.aget (D.other_name (nm n)) (own_feat n f)
                 \/ dispatched f = None).
    { destruct (dispatched f) as [p|] eqn:Dp; [left|right; reflexivity]. rewrite HF, aget_app, (LF n) by lia. rewrite aget_app.
      destruct (F.aget (D.other_name (nm n)) (own_feat n f)); [reflexivity|].
      apply (high_none (fun j => D.other_name (nm j)) other_eqb n (S n)); [apply collect_high_feat|lia]. }
    assert (Lc : F.aget (Some (nm n)) (F.commands (D.c_reg cD)) = F.aget (Some (nm n)) (own_cmd n f) \/ dispatched f = None).
    { destruct (dispatched f) as [p|] eqn:Dp; [left|right; reflexivity]. rewrite HC, aget_app, (LC n) by lia. rewrite aget_app.
      destruct (F.aget (Some (nm n)) (own_cmd n f)); [reflexivity|].
      apply (high_none (fun j => Some (nm j)) (fun a b => nm_eqb a b) n (S n)); [apply collect_high_cmd|lia]. }
    assert (Lx : forall q v, DS.isb cD (D.COther q (nm n) v) = existsb (F.str_eqb (nm n)) (own_extra n f) \/ dispatched f = None).
    { intros q v. destruct (dispatched f) as [p|] eqn:Dp; [left|right; reflexivity]. rewrite isb_other, HX, !existsb_app, (LX n) by lia.
      rewrite (highl_nm_none n (S n) (collect own_extra (S n) r)); [rewrite orb_false_r; reflexivity|apply collect_high_extra|lia]. }
    assert (Lr : D.memN (fidn n) (D.c_raises cD) = D.memN (fidn n) (own_raise n f) \/ dispatched f = None).
    { destruct (dispatched f) as [p|] eqn:Dp; [left|right; reflexivity]. rewrite HR. unfold D.memN. rewrite !existsb_app.
      fold (D.memN (fidn n) PR). rewrite (LR n) by lia. fold (D.memN (fidn n) (collect own_raise (S n) r)).
      rewrite (highl_fid_none n (S n) (collect own_raise (S n) r)); [rewrite orb_false_r; reflexivity|apply collect_high_raise|lia]. }
    destruct f as [|[|] i [| |] m|[|] tag [| |] m|ver i iserr ps]; cbn [dispatched] in *;
      try (eapply IH; eassumption); try contradiction.
    - (* a dispatched request *)
      destruct Hco as (Hi & Hm & Hco). split; [exact Hi|]. split; [|eapply Step; try reflexivity; [discriminate|exact Hco]].
      destruct Lf as [Lf|Q]; [|discriminate]. destruct Lc as [Lc|Q]; [|discriminate]. destruct Lr as [Lr|Q]; [|discriminate].
      destruct m as [|b|u|fails u|cmd u]; cbn [req_ok req_coh call_req D.meth_of] in *.
      + destruct (Lx (Some (idN i)) 0%N) as [X|Q]; [|discriminate]. rewrite X, Lf. cbn. auto.
      + destruct (Lx (Some (idN i)) 0%N) as [X|Q]; [|discriminate]. rewrite X, Lf. cbn. rewrite N.eqb_refl. cbn. eauto.
      + subst u. exact Hsu.
      + destruct Hm as [-> Hu]. destruct (Lx (Some (idN i)) 0%N) as [X|Q]; [|discriminate]. rewrite X. cbn [own_extra existsb].
        rewrite nm_eqb, Nat.eqb_refl. repeat split. unfold chained. rewrite Lf. destruct u as [b|]; cbn [own_feat F.aget].
        * rewrite other_eqb, Nat.eqb_refl. cbn in Hu. eauto.
        * reflexivity.
      + destruct Hm as [Hb ->]. unfold F.exec_command. rewrite Lc. destruct cmd as [b|]; cbn [own_cmd F.aget]; [|reflexivity].
        cbn [F.name_eqb]. rewrite nm_eqb, Nat.eqb_refl. cbn in Hb. split; [exact Hb|]. split; [exact Hcu|].
        exists (fidn n). split; [reflexivity|]. unfold D.raises, ent. cbn [F.e_fid]. rewrite Lr. cbn [own_raise].
        destruct (braise b); [unfold D.memN; cbn; rewrite N.eqb_refl|]; reflexivity.
    - (* a dispatched notification *)
      destruct Hco as (Hm & Hco). split; [|eapply Step; try reflexivity; [discriminate|exact Hco]].
      destruct Lf as [Lf|Q]; [|discriminate].
      destruct m as [|b|i|u|[|] u]; cbn [not_ok not_coh call_not D.meth_of] in *; try contradiction; try exact I.
      + destruct (Lx None 0%N) as [X|Q]; [|discriminate]. rewrite X, Lf. cbn. auto.
      + destruct (Lx None 0%N) as [X|Q]; [|discriminate]. rewrite X, Lf. cbn. rewrite N.eqb_refl. cbn. eauto.
      + destruct (Lx None 0%N) as [X|Q]; [|discriminate]. rewrite X. cbn [own_extra existsb]. rewrite nm_eqb, Nat.eqb_refl.
        split; [reflexivity|]. unfold chained. rewrite Lf. destruct u as [b|]; cbn [own_feat F.aget].
        * rewrite other_eqb, Nat.eqb_refl. cbn in Hm. eauto.
        * reflexivity.
  Qed.
End Build.

(* for every coherent history there IS a D configuration that answers for it: the projection is a
   function of the history, and the link holds of it *)
Theorem cfg_of_agrees : forall su cu evs, obok su = true -> obok cu = true -> coherent su cu evs ->
    agrees (cfg_of su cu evs) 0 evs.
Proof.
  intros su cu evs Bs Bc H.
  assert (Fx : forall j, F.aget (D.other_name (nm j)) (fixed_feats su cu) = None).
  { intro j. unfold fixed_feats. destruct su, cu; reflexivity. }
  assert (Hi : forall evs0, F.aget (Some D.s_shutdown) (collect own_feat 0 evs0) = None /\ F.aget (Some D.s_exec_cmd) (collect own_feat 0 evs0) = None).
  { intro evs0. pose proof (collect_high_feat evs0 0) as Hh. induction Hh as [|[k v] l (j & _ & Hk) _ IH]; [split; reflexivity|].
    cbn [fst] in Hk. subst k. destruct IH as [A B]. split; cbn [F.aget]; [rewrite A|rewrite B]; reflexivity. }
  apply (agrees_gen su cu (cfg_of su cu evs)) with (PF := fixed_feats su cu) (PC := []) (PX := []) (PR := []); try reflexivity; try exact H.
  - unfold chained, cfg_of. cbn [D.c_reg F.features]. rewrite aget_app. unfold fixed_feats.
    destruct su as [b|]; [split; [exact Bs|exists 0%N; reflexivity]|]. destruct cu; cbn [app F.aget]; apply (Hi evs).
  - unfold chained, cfg_of. cbn [D.c_reg F.features]. rewrite aget_app. unfold fixed_feats.
    destruct cu as [b|]; [split; [exact Bc|exists 0%N; destruct su; reflexivity]|]. destruct su; cbn [app F.aget]; apply (Hi evs).
  - intros j _. apply Fx.
  - intros j _. reflexivity.
  - intros j _. reflexivity.
  - intros j _. reflexivity.
Qed.

Theorem link_function : forall c su cu evs, obok su = true -> obok cu = true -> coherent su cu evs ->
    Rel (whos evs) (E.run c evs) (D.run (cfg_of su cu evs) (project 0 evs)).
Proof. intros c su cu evs Bs Bc H. apply link_run, cfg_of_agrees; assumption. Qed.
