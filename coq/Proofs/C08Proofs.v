(* Proofs/C08Proofs.v - cancellation over Model/Endpoint.v.

   Part 1 (provenance, NO guard: every configuration, every event list): every reply that reaches the
     transport or the queue of awaitable writes is `allowed` by the reference Spec/CancelSpec.v:
       reply_is_allowed, result_is_own_value, cancelled_only_if_named.
   Part 2 (frame): a `$/cancelRequest j` changes nothing but the future stored under key j:
       cancel_frame, cancel_noop_cases.
   Part 3 (the fate of the target): cancel_before_start_never_runs, cancel_queued_job,
       cancel_suspended, cancelled_callback_reply. *)
From Coq Require Import ZArith NArith List Bool Lia Arith.
From Pygls Require Import Base.Assoc Base.AssocFacts Model.Endpoint Spec.EndpointSpec Spec.CancelSpec
  Proofs.EndpointInv Proofs.EndpointFuts.
Import ListNotations.

(* ================================================================== Part 1: provenance *)
Definition allowed (evs : list ev) (i : id) (p : payload) : Prop :=
  exists v ps m, In (Recv (FReq v i ps m)) evs /\
    (p = natural ps m \/
     (p = PError code_cancelled /\ ps = POk /\ cancellable m = true /\ named i evs = true)).

Lemma rval_eqb_spec : forall a b, rval_eqb a b = true <-> a = b.
Proof.
  intros [| x |] [| y |]; cbn; try (split; [discriminate|discriminate]); try (split; reflexivity).
  rewrite Z.eqb_eq. split; [intros; subst; reflexivity|intros H; inversion H; reflexivity].
Qed.

Lemma payload_eqb_spec : forall a b, payload_eqb a b = true <-> a = b.
Proof.
  intros [x|x] [y|y]; cbn; try (split; discriminate).
  - rewrite rval_eqb_spec. split; [intros; subst; reflexivity|intros H; inversion H; reflexivity].
  - rewrite Z.eqb_eq. split; [intros; subst; reflexivity|intros H; inversion H; reflexivity].
Qed.

Theorem allowedb_spec : forall evs i p, allowedb evs i p = true <-> allowed evs i p.
Proof.
  intros evs i p. unfold allowedb, allowed. rewrite existsb_exists. split.
  - intros [e [HI H]]. destruct e as [f| | | | | | |]; try discriminate. destruct f as [|v j ps m| |]; try discriminate.
    cbn [allowed_by] in H. apply andb_true_iff in H. destruct H as [H1 H2]. apply id_eqb_spec in H1. subst j.
    exists v, ps, m. split; [exact HI|]. apply orb_true_iff in H2. destruct H2 as [H2|H2].
    + left. apply payload_eqb_spec. exact H2.
    + right. apply andb_true_iff in H2. destruct H2 as [H2 H3]. apply payload_eqb_spec in H2.
      destruct ps; try discriminate. apply andb_true_iff in H3. destruct H3. repeat split; assumption.
  - intros (v & ps & m & HI & H). exists (Recv (FReq v i ps m)). split; [exact HI|]. cbn [allowed_by].
    rewrite id_eqb_refl. cbn [andb]. apply orb_true_iff. destruct H as [H|(H1 & H2 & H3 & H4)].
    + left. apply payload_eqb_spec. exact H.
    + right. subst. rewrite H3, H4. reflexivity.
Qed.

Lemma named_app : forall i a b, named i (a ++ b) = named i a || named i b.
Proof. intros. unfold named. apply existsb_app. Qed.

Lemma allowed_mono : forall evs e i p, allowed evs i p -> allowed (evs ++ [e]) i p.
Proof.
  intros evs e i p (v & ps & m & HI & H). exists v, ps, m. split; [apply in_or_app; left; exact HI|].
  destruct H as [H|(H1 & H2 & H3 & H4)]; [left; exact H|right]. repeat split; try assumption.
  rewrite named_app, H4. reflexivity.
Qed.

(* a request future: its frame is in the history, it is not a plain function *)
Definition has_req (evs : list ev) (i : id) (b : behav) : Prop :=
  exists v m, In (Recv (FReq v i POk m)) evs /\ handler_of m = Some b /\ is_sync b = false.

Definition okf (evs : list ev) (f : oframe) : Prop :=
  match f with OResp i p => allowed evs i p | _ => True end.
Definition okw (evs : list ev) (w : wentry) : Prop :=
  match w with WFrame f => okf evs f | WClose _ => True end.

Definition cancelled_state (x : tstate) : Prop :=
  match x with TLive _ _ true | TDoneCb RCancelled | TFin RCancelled => True | _ => False end.

Definition res_ok (b : behav) (x : tstate) : Prop :=
  match x with TDoneCb r | TFin r => r = RCancelled \/ r = res_of (bout b) | TLive _ _ _ => True end.

Definition okt (evs : list ev) (tk : task) : Prop :=
  match t_cb tk with
  | CNot => True
  | CReq i => has_req evs i (t_b tk) /\ (cancelled_state (t_st tk) -> named i evs = true) /\ res_ok (t_b tk) (t_st tk)
  end.

Definition okj (evs : list ev) (jb : job) : Prop :=
  match j_cb jb with
  | CNot => True
  | CReq i => has_req evs i (j_b jb) /\ (j_st jb = JCancelled -> named i evs = true)
  end.

Definition J (evs : list ev) (s : st) : Prop :=
  Forall (okf evs) (out s) /\ Forall (okw evs) (wq s) /\ Forall (okt evs) (tasks s) /\ Forall (okj evs) (jobs s).

Lemma j_init : forall evs, J evs init.
Proof. intro evs. repeat split; constructor. Qed.

Lemma has_req_mono : forall evs e i b, has_req evs i b -> has_req (evs ++ [e]) i b.
Proof. intros evs e i b (v & m & HI & H). exists v, m. split; [apply in_or_app; left; exact HI|exact H]. Qed.

Lemma j_mono : forall evs e s, J evs s -> J (evs ++ [e]) s.
Proof.
  intros evs e s (H1 & H2 & H3 & H4). repeat split.
  - eapply Forall_impl; [|exact H1]. intros [i p| |] H; cbn [okf] in *; auto. apply allowed_mono. exact H.
  - eapply Forall_impl; [|exact H2]. intros [[i p| |]|] H; cbn [okw okf] in *; auto. apply allowed_mono. exact H.
  - eapply Forall_impl; [|exact H3]. intros tk H. unfold okt in *. destruct (t_cb tk); [|exact I].
    destruct H as (A & B & C). repeat split; [apply has_req_mono; exact A| |exact C].
    intro X. rewrite named_app, (B X). reflexivity.
  - eapply Forall_impl; [|exact H4]. intros jb H. unfold okj in *. destruct (j_cb jb); [|exact I].
    destruct H as (A & B). split; [apply has_req_mono; exact A|]. intro X. rewrite named_app, (B X). reflexivity.
Qed.

Lemma j_same : forall evs s s', out s' = out s -> wq s' = wq s -> tasks s' = tasks s -> jobs s' = jobs s ->
  J evs s -> J evs s'.
Proof. intros evs s s' E1 E2 E3 E4 H. unfold J. rewrite E1, E2, E3, E4. exact H. Qed.

Ltac jsame := eapply j_same; [reflexivity|reflexivity|reflexivity|reflexivity|].

Ltac fa := repeat (apply Forall_app; split); try assumption; repeat (constructor; try assumption); try exact I.

(* ------------------------------------------------------------------ leaves *)
Definition payload_of_reply (r : reply) : payload :=
  match r with RpError c => PError c | RpResult v true => PResult v | RpResult _ false => PError code_internal end.

Definition payload_of_res (r : fres) : payload :=
  match r with
  | RCancelled => PError code_cancelled
  | RVal v => PResult (VInt v)
  | RUnser | RExc => PError code_internal
  | RRpc c => PError c
  end.

Lemma j_hook : forall evs c sv src s, J evs s -> J evs (hook c sv src s).
Proof.
  intros evs [w h f] sv src s. destruct s. unfold J.
  destruct w, h, sv, src; unfold hook, write_call, do_write, failing, add_out, add_wq, add_err, snoc; cbn;
  intros (H1 & H2 & H3 & H4);
  repeat match goal with |- context [if ?b then _ else _] => destruct b; cbn end; repeat split; try assumption; fa.
Qed.

Lemma j_send_response : forall evs c sv i r s, J evs s -> allowed evs i (payload_of_reply r) ->
  J evs (send_response c sv i r s).
Proof.
  intros evs [w h f] sv i r s. destruct s. unfold J.
  destruct w, h, sv, r as [code|v [|]]; unfold send_response, send_data, hook, write_call, do_write, failing,
    rtype_pop, add_out, add_wq, add_err, snoc; cbn;
  intros (H1 & H2 & H3 & H4) A;
  repeat match goal with |- context [if ?b then _ else _] => destruct b; cbn end; repeat split; try assumption; fa.
Qed.

Lemma j_request_callback : forall evs c sv i r s, J evs s -> allowed evs i (payload_of_res r) ->
  J evs (request_callback c sv i r s).
Proof.
  intros evs c sv i r s H A. unfold request_callback.
  assert (K : forall s1, J evs s1 -> J evs (fut_pop i s1)) by (intros s1 H1; exact H1).
  apply K. destruct r; cbn [payload_of_res] in A.
  - apply j_send_response; assumption.
  - apply j_send_response; assumption.
  - apply j_send_response; assumption.
  - apply j_hook, j_send_response; assumption.
  - apply j_hook, j_send_response; assumption.
Qed.

Lemma j_run_cb : forall evs c sv cb r s, J evs s ->
  (forall i, cb = CReq i -> allowed evs i (payload_of_res r)) -> J evs (run_cb c sv cb r s).
Proof.
  intros evs c sv cb r s H A. unfold run_cb. destruct cb as [i|].
  - apply j_request_callback; [exact H|apply A; reflexivity].
  - unfold notification_callback. destruct r; try exact H; apply j_hook; exact H.
Qed.

Lemma j_send_req : forall evs c i s, J evs s -> J evs (fst (send_data c Loop (OReq i) true s)).
Proof.
  intros evs [w h f] i s. destruct s. unfold J.
  destruct w, h; unfold send_data, hook, write_call, do_write, failing, add_out, add_wq, add_err, snoc; cbn;
  intros (H1 & H2 & H3 & H4);
  repeat match goal with |- context [if ?b then _ else _] => destruct b; cbn end; repeat split; try assumption; fa.
Qed.

(* ------------------------------------------------------------------ tasks and jobs *)
Lemma Forall_upd_nth : forall (A : Type) (P : A -> Prop) (g : A -> A) l t x,
  Forall P l -> nth_error l t = Some x -> P (g x) -> Forall P (upd_nth t g l).
Proof.
  intros A P g l. induction l as [|y r IH]; intros t x F N H; [destruct t; constructor|].
  inversion F; subst. destruct t as [|t]; cbn [nth_error upd_nth] in *.
  - inversion N; subst. constructor; assumption.
  - constructor; [assumption|]. eapply IH; eassumption.
Qed.

Lemma Forall_upd_nth_none : forall (A : Type) (P : A -> Prop) (g : A -> A) l t,
  Forall P l -> nth_error l t = None -> Forall P (upd_nth t g l).
Proof. intros A P g l t F N. rewrite upd_nth_none by exact N. exact F. Qed.

Lemma Forall_nth : forall (A : Type) (P : A -> Prop) l t x, Forall P l -> nth_error l t = Some x -> P x.
Proof. intros A P l t x F N. rewrite Forall_forall in F. apply F. eapply nth_error_In. exact N. Qed.

Lemma Forall_snoc : forall (A : Type) (P : A -> Prop) l x, Forall P l -> P x -> Forall P (snoc l x).
Proof. intros. unfold snoc. apply Forall_app. split; [assumption|constructor; [assumption|constructor]]. Qed.

Lemma j_set_task_st : forall evs t x tk s, J evs s -> nth_error (tasks s) t = Some tk ->
  okt evs (mkT (t_who tk) (t_part tk) (t_cb tk) (t_b tk) x) -> J evs (set_task_st t x s).
Proof.
  intros evs t x tk s (H1 & H2 & H3 & H4) N K. unfold J, set_task_st. proj. repeat split; try assumption.
  eapply Forall_upd_nth; eassumption.
Qed.

Lemma j_set_job_st : forall evs j x jb s, J evs s -> nth_error (jobs s) j = Some jb ->
  okj evs (mkJ (j_who jb) (j_part jb) (j_cb jb) (j_b jb) x) -> J evs (set_job_st j x s).
Proof.
  intros evs j x jb s (H1 & H2 & H3 & H4) N K. unfold J, set_job_st. proj. repeat split; try assumption.
  eapply Forall_upd_nth; eassumption.
Qed.

Lemma allowed_of_req : forall evs i b r, has_req evs i b ->
  (r = RCancelled -> named i evs = true) -> (r = RCancelled \/ r = res_of (bout b)) ->
  allowed evs i (payload_of_res r).
Proof.
  intros evs i b r (v & m & HI & HM & HS) N [R|R].
  - subst r. exists v, POk, m. split; [exact HI|]. right. repeat split; auto.
    unfold cancellable. rewrite HM, HS. reflexivity.
  - exists v, POk, m. split; [exact HI|]. left. subst r. cbn [natural].
    destruct m as [|b'|u|f u|[b'|] u]; cbn [handler_of] in HM; try discriminate; inversion HM; subst b';
      destruct (bout b); reflexivity.
Qed.

(* cancel_ref keeps the invariant provided the history names the id of whatever it reaches *)
Definition reach_named (evs : list ev) (s : st) (r : fref) : Prop :=
  match r with
  | FTask t => forall tk i, nth_error (tasks s) t = Some tk -> t_cb tk = CReq i -> named i evs = true
  | FJob j => forall jb i, nth_error (jobs s) j = Some jb -> j_cb jb = CReq i -> named i evs = true
  | FOut _ => True
  end.

Lemma j_cancel_ref : forall evs c r s, J evs s -> reach_named evs s r -> J evs (cancel_ref c r s).
Proof.
  intros evs c r s H R. unfold cancel_ref. destruct r as [t|j|o].
  - destruct (nth_error (tasks s) t) as [tk|] eqn:N; [|exact H]. destruct (t_st tk) eqn:T; try exact H.
    eapply j_set_task_st; [exact H|exact N|].
    pose proof (Forall_nth _ _ _ _ _ (proj1 (proj2 (proj2 H))) N) as K. unfold okt in *. cbn.
    destruct (t_cb tk) as [i|] eqn:C; [|exact I]. destruct K as (A & B & D).
    split; [exact A|]. split; [|exact I]. intros _. eapply R; [exact N|exact C].
  - destruct (nth_error (jobs s) j) as [jb|] eqn:N; [|exact H]. destruct (j_st jb) eqn:JS; try exact H.
    pose proof (Forall_nth _ _ _ _ _ (proj2 (proj2 (proj2 H))) N) as K.
    assert (H1 : J evs (set_job_st j JCancelled s)).
    { eapply j_set_job_st; [exact H|exact N|]. unfold okj in *. cbn. destruct (j_cb jb) as [i|] eqn:C; [|exact I].
      destruct K as (A & B). split; [exact A|]. intros _. eapply R; [exact N|exact C]. }
    apply j_run_cb; [exact H1|]. intros i C. unfold okj in K. rewrite C in K. destruct K as (A & B).
    eapply allowed_of_req; [exact A| |left; reflexivity]. intros _. eapply R; [exact N|exact C].
  - destruct (nth_error (outg s) o) as [[| |]|]; exact H.
Qed.

Lemma j_new_task : forall evs w p cb b n s, J evs s -> (forall i, cb = CReq i -> has_req evs i b) ->
  J evs (new_task w p cb b n s).
Proof.
  intros evs w p cb b n s (H1 & H2 & H3 & H4) A. unfold J, new_task. proj. repeat split; try assumption.
  apply Forall_snoc; [exact H3|]. unfold okt. cbn. destruct cb as [i|]; [|exact I].
  repeat split; [apply A; reflexivity|intros []].
Qed.

Lemma j_new_job : forall evs w p cb b x s, J evs s -> (forall i, cb = CReq i -> has_req evs i b) -> x <> JCancelled ->
  J evs (new_job w p cb b x s).
Proof.
  intros evs w p cb b x s (H1 & H2 & H3 & H4) A NX. unfold J, new_job. proj. repeat split; try assumption.
  apply Forall_snoc; [exact H4|]. unfold okj. cbn. destruct cb as [i|]; [|exact I].
  split; [apply A; reflexivity|intro E; contradiction].
Qed.

Lemma j_log : forall evs w p ph sv s, J evs s -> J evs (log w p ph sv s).
Proof. intros evs w p ph sv s H. exact H. Qed.

Lemma j_submit : forall evs c w p cb b early reg s, J evs s -> (forall i, cb = CReq i -> has_req evs i b) ->
  (forall k s', J evs s' -> J evs (reg k s')) -> J evs (submit c w p cb b early reg s).
Proof.
  intros evs c w p cb b early reg s H A R. unfold submit. destruct early.
  - apply j_run_cb.
    + apply R. apply j_log, j_log. apply j_new_job; [exact H|exact A|discriminate].
    + intros i C. eapply allowed_of_req; [apply A; exact C| |right; reflexivity].
      intro E. destruct (bout b); discriminate.
  - apply R. apply j_new_job; [exact H|exact A|discriminate].
Qed.

Lemma natural_handler : forall m b, handler_of m = Some b -> natural POk m = natural_of (bout b).
Proof. intros m b H. destruct m as [|b'|u|f u|[b'|] u]; cbn [handler_of] in H; try discriminate; inversion H; reflexivity. Qed.

(* _execute_request for the handler b of a request frame that is in the history *)
Lemma j_execute_request : forall evs c v i m p b s, J evs s ->
  In (Recv (FReq v i POk m)) evs -> handler_of m = Some b ->
  J evs (fst (execute_request c i p b s)) /\
  (forall x, snd (execute_request c i p b s) = Some x ->
     natural POk m = match x with XExc => PError code_internal | XRpc code => PError code end).
Proof.
  intros evs c v i m p b s H HI HM. unfold execute_request.
  pose proof (natural_handler m b HM) as NAT.
  assert (AL : forall pl, pl = natural POk m -> allowed evs i pl).
  { intros pl E. exists v, POk, m. split; [exact HI|left; exact E]. }
  destruct (bkind b) as [|n|early] eqn:K; cbn [fst snd].
  - destruct (bout b) eqn:O; cbn [fst snd]; cbn [natural_of] in NAT.
    + split; [|discriminate]. apply j_send_response; [apply j_log, j_log; exact H|]. apply AL. rewrite NAT. reflexivity.
    + split; [|discriminate]. apply j_send_response; [apply j_log, j_log; exact H|]. apply AL. rewrite NAT. reflexivity.
    + split; [exact H|]. intros x E. inversion E. rewrite NAT. reflexivity.
    + split; [exact H|]. intros x E. inversion E. rewrite NAT. reflexivity.
  - split; [|discriminate].
    assert (HR : has_req evs i b) by (exists v, m; repeat split; auto; unfold is_sync; rewrite K; reflexivity).
    apply (j_new_task evs (WReq i) p (CReq i) b n s H). intros i' E. inversion E. subst. exact HR.
  - split; [|discriminate].
    assert (HR : has_req evs i b) by (exists v, m; repeat split; auto; unfold is_sync; rewrite K; reflexivity).
    apply j_submit; [exact H| |].
    + intros i' E. inversion E. subst. exact HR.
    + intros k s' H'. exact H'.
Qed.

Lemma j_exec_notification : forall evs c w p b s, J evs s -> J evs (fst (exec_notification c w p b s)).
Proof.
  intros evs c w p b s H. unfold exec_notification. destruct (bkind b) as [|n|early]; cbn [fst].
  - exact H.
  - apply j_new_task; [exact H|discriminate].
  - apply j_submit; [exact H|discriminate|]. intros k s' H'. exact H'.
Qed.

Lemma j_chain : forall evs c w u s, J evs s -> J evs (chain c w u s).
Proof. intros evs c w u s H. unfold chain. destruct u; [apply j_exec_notification|]; exact H. Qed.

Lemma j_on_exc : forall evs c i x s, J evs s ->
  (forall e, x = Some e -> allowed evs i (match e with XExc => PError code_internal | XRpc code => PError code end)) ->
  J evs (on_exc c i x s).
Proof.
  intros evs c i x s H A. unfold on_exc. destruct x as [[|code]|]; [| |exact H];
    apply j_hook, j_send_response; try exact H; apply (A _ eq_refl).
Qed.

Lemma j_fold_cancel : forall evs c rs s, (forall i, named i evs = true) -> J evs s ->
  J evs (fold_left (fun s' r => cancel_ref c r s') rs s).
Proof.
  intros evs c rs. induction rs as [|r rs IH]; intros s N H; cbn [fold_left]; [exact H|].
  apply IH; [exact N|]. apply j_cancel_ref; [exact H|]. destruct r; cbn; auto.
Qed.

Lemma j_handle_request : forall evs c v i m s, J evs s -> In (Recv (FReq v i POk m)) evs ->
  (is_shutdown m = true -> forall k, named k evs = true) -> J evs (handle_request c i m s).
Proof.
  intros evs c v i m s H HI SH. unfold handle_request.
  assert (AL : forall pl, pl = natural POk m -> allowed evs i pl).
  { intros pl E. exists v, POk, m. split; [exact HI|left; exact E]. }
  destruct m as [|b|u|fails u|cmd u].
  - apply j_hook, j_send_response; [exact H|]. apply AL. reflexivity.
  - destruct (j_execute_request evs c v i (RUser b) PUser b s H HI eq_refl) as [H1 H2].
    destruct (execute_request c i PUser b s) as [s1 x]. cbn [fst snd] in *.
    apply j_on_exc; [exact H1|]. intros e E. apply AL. rewrite (H2 e E). reflexivity.
  - apply j_send_response; [|apply AL; reflexivity]. apply j_chain, j_log. unfold lsp_shutdown.
    apply (j_same evs (fold_left (fun s' r => cancel_ref c r s') (values (futs (log (WReq i) PBuiltin HStart Loop s))) (log (WReq i) PBuiltin HStart Loop s)));
      try reflexivity.
    apply j_fold_cancel; [apply SH; reflexivity|exact H].
  - destruct fails.
    + apply j_on_exc; [exact H|]. intros e E. inversion E. apply AL. reflexivity.
    + apply j_send_response; [apply j_chain; exact H|apply AL; reflexivity].
  - destruct cmd as [b|].
    + destruct (j_execute_request evs c v i (RCommand (Some b) u) PCommand b (log (WReq i) PBuiltin HStart Loop s) H HI eq_refl) as [H1 H2].
      destruct (execute_request c i PCommand b (log (WReq i) PBuiltin HStart Loop s)) as [s2 x]. cbn [fst snd] in *.
      destruct x as [e|].
      * apply j_on_exc; [exact H1|]. intros e' E. inversion E. subst e'. apply AL. rewrite (H2 e eq_refl). reflexivity.
      * apply j_chain. exact H1.
    + apply j_on_exc; [exact H|]. intros e E. inversion E. apply AL. reflexivity.
Qed.

Lemma j_handle_notification : forall evs c tag m s, FW s -> J evs s ->
  (forall i, m = NCancel i -> named i evs = true) -> J evs (handle_notification c tag m s).
Proof.
  intros evs c tag m s F H N. unfold handle_notification. destruct m as [|b|i|u|fails u].
  - exact H.
  - pose proof (j_exec_notification evs c (WNot tag) PUser b s H) as H1.
    destruct (exec_notification c (WNot tag) PUser b s) as [s1 x]. destruct x; [apply j_hook|]; exact H1.
  - unfold cancel_notification. destruct (Assoc.get id_eqb i (futs s)) as [r|] eqn:G; [|exact H].
    apply j_cancel_ref; [exact H|].
    (* by FW the future stored under key i belongs to request i *)
    apply (get_in id_eqb id_eqb_spec) in G. destruct F as (_ & F). specialize (F i r G).
    destruct r as [t|j|o]; cbn [ref_ok reach_named] in *; [| |exact I].
    + destruct F as (tk & N1 & C1 & _). intros tk' i' N2 C2. cbn [tasks fut_pop set_futs] in N2.
      rewrite N1 in N2. inversion N2. subst tk'. rewrite C1 in C2. inversion C2. subst i'. apply N. reflexivity.
    + destruct F as (jb & N1 & C1 & _). intros jb' i' N2 C2. cbn [jobs fut_pop set_futs] in N2.
      rewrite N1 in N2. inversion N2. subst jb'. rewrite C1 in C2. inversion C2. subst i'. apply N. reflexivity.
  - unfold lsp_exit. destruct (c_writer c).
    + exact H.
    + apply j_chain, j_log. destruct H as (H1 & H2 & H3 & H4). unfold J, add_wq, log. proj. repeat split; try assumption.
      apply Forall_snoc; [exact H2|exact I].
  - destruct fails; [apply j_hook|apply j_chain]; exact H.
Qed.

Lemma j_handle_response : forall evs c i s, J evs s -> J evs (handle_response c i s).
Proof.
  intros evs c i s H. unfold handle_response. destruct (Assoc.get id_eqb i (futs s)) as [r|]; [|apply j_hook; exact H].
  destruct r as [t|j|o].
  - apply j_hook. exact H.
  - apply (j_same evs (hook c Loop EJsonRpc (fut_pop i s))); try reflexivity. apply j_hook. exact H.
  - destruct (nth_error (outg (fut_pop i s)) o) as [[| |]|]; try (apply j_hook; exact H). exact H.
Qed.

Lemma j_recv : forall evs c f s, FW s -> J evs s -> J (evs ++ [Recv f]) (recv c f s).
Proof.
  intros evs c f s F H0. pose proof (j_mono evs (Recv f) s H0) as H. clear H0.
  set (evs' := evs ++ [Recv f]) in *.
  assert (LAST : In (Recv f) evs') by (apply in_or_app; right; left; reflexivity).
  unfold recv. destruct f as [|v i ps m|v tag ps m|v i iserr ps].
  - apply j_hook. exact H.
  - destruct ps.
    + destruct v; cbn [negb]; [|apply j_hook; exact H]. destruct (shutdown s); [exact H|].
      eapply j_handle_request; [exact H|exact LAST|].
      intros SD k. unfold named, evs'. rewrite existsb_app. cbn [existsb names]. destruct m; try discriminate.
      rewrite orb_true_r. reflexivity.
    + apply j_hook, j_send_response; [exact H|]. exists v, PBad, m. split; [exact LAST|left; reflexivity].
    + apply j_hook, j_send_response; [exact H|]. exists v, PFail, m. split; [exact LAST|left; reflexivity].
  - destruct ps; try (apply j_hook; exact H). destruct v; cbn [negb]; [|apply j_hook; exact H].
    destruct (shutdown s && negb (is_exit m)); [exact H|].
    apply j_handle_notification; [exact F|exact H|].
    intros i E. subst m. unfold named, evs'. rewrite existsb_app. cbn [existsb names]. rewrite id_eqb_refl, orb_true_r. reflexivity.
  - assert (H1 : J evs' (rtype_pop i s)) by exact H.
    destruct (negb iserr && negb (Assoc.mem id_eqb i (rtypes s))); [apply j_hook; exact H1|].
    destruct ps; try (apply j_hook; exact H1). destruct (negb v); [apply j_hook; exact H1|].
    destruct (shutdown (rtype_pop i s)); [exact H1|apply j_handle_response; exact H1].
Qed.

Lemma okt_state : forall evs tk x, okt evs tk ->
  (cancelled_state x -> cancelled_state (t_st tk)) -> (forall i, t_cb tk = CReq i -> res_ok (t_b tk) x) ->
  okt evs (mkT (t_who tk) (t_part tk) (t_cb tk) (t_b tk) x).
Proof.
  intros evs tk x K C R. unfold okt in *. cbn. destruct (t_cb tk) as [i|]; [|exact I].
  destruct K as (A & B & D). repeat split; [exact A|intro X; apply B, C; exact X|apply (R i); reflexivity].
Qed.

Lemma j_task_step : forall evs t s, J evs s -> J evs (task_step t s).
Proof.
  intros evs t s H. unfold task_step. destruct (nth_error (tasks s) t) as [tk|] eqn:N; [|exact H].
  destruct (t_st tk) as [a b m| |] eqn:T; try exact H.
  pose proof (Forall_nth _ _ _ _ _ (proj1 (proj2 (proj2 H))) N) as K.
  assert (ADV : forall a' s1, J evs s1 -> tasks s1 = tasks s -> J evs (task_advance t tk a' b s1)).
  { intros a' s1 H1 E1. assert (N1 : nth_error (tasks s1) t = Some tk) by (rewrite E1; exact N).
    unfold task_advance, task_finish. destruct a'; destruct b;
      (eapply j_set_task_st; [try apply j_log; exact H1|exact N1|apply okt_state; [exact K|cbn|intros i0 _; cbn]]);
      try tauto; try (right; reflexivity).
    - destruct (res_of (bout (t_b tk))) eqn:R; try tauto. destruct (bout (t_b tk)); discriminate.
    - destruct (res_of (bout (t_b tk))) eqn:R; try tauto. destruct (bout (t_b tk)); discriminate. }
  destruct m.
  - destruct a; cbn [negb].
    + destruct (breact (t_b tk)).
      * eapply j_set_task_st; [apply j_log; exact H|exact N|apply okt_state; [exact K|rewrite T; cbn; tauto|intros i0 _; left; reflexivity]].
      * apply ADV; [apply j_log; exact H|reflexivity].
    + eapply j_set_task_st; [exact H|exact N|apply okt_state; [exact K|rewrite T; cbn; tauto|intros i0 _; left; reflexivity]].
  - apply ADV; [exact H|reflexivity].
Qed.

Lemma j_loop_cb : forall evs c t s, J evs s -> J evs (loop_cb c t s).
Proof.
  intros evs c t s H. unfold loop_cb. destruct (nth_error (tasks s) t) as [tk|] eqn:N; [|exact H].
  destruct (t_st tk) as [| r |] eqn:T; try exact H.
  pose proof (Forall_nth _ _ _ _ _ (proj1 (proj2 (proj2 H))) N) as K.
  apply j_run_cb.
  - eapply j_set_task_st; [exact H|exact N|]. apply okt_state; [exact K|rewrite T; cbn; destruct r; tauto|].
    intros i C. unfold okt in K. rewrite C in K. destruct K as (_ & _ & D). rewrite T in D. exact D.
  - intros i C. unfold okt in K. rewrite C in K. destruct K as (A & B & D). rewrite T in D, B. cbn in D, B.
    eapply allowed_of_req; [exact A| |exact D]. intro E. subst r. apply B. exact I.
Qed.

Lemma j_job_start : forall evs j s, J evs s -> J evs (job_start j s).
Proof.
  intros evs j s H. unfold job_start. destruct (nth_error (jobs s) j) as [jb|] eqn:N; [|exact H].
  destruct (j_st jb) eqn:JS; try exact H. apply j_log.
  pose proof (Forall_nth _ _ _ _ _ (proj2 (proj2 (proj2 H))) N) as K.
  eapply j_set_job_st; [exact H|exact N|]. unfold okj in *. cbn. destruct (j_cb jb); [|exact I].
  destruct K as (A & B). split; [exact A|discriminate].
Qed.

Lemma j_job_finish : forall evs c j s, J evs s -> J evs (job_finish c j s).
Proof.
  intros evs c j s H. unfold job_finish. destruct (nth_error (jobs s) j) as [jb|] eqn:N; [|exact H].
  destruct (j_st jb) eqn:JS; try exact H.
  pose proof (Forall_nth _ _ _ _ _ (proj2 (proj2 (proj2 H))) N) as K.
  apply j_run_cb.
  - eapply j_set_job_st; [apply j_log; exact H|exact N|]. unfold okj in *. cbn. destruct (j_cb jb); [|exact I].
    destruct K as (A & B). split; [exact A|discriminate].
  - intros i C. unfold okj in K. rewrite C in K. destruct K as (A & B).
    eapply allowed_of_req; [exact A| |right; reflexivity]. intro E. destruct (bout (j_b jb)); discriminate.
Qed.

Lemma j_write_step : forall evs c s, J evs s -> J evs (write_step c s).
Proof.
  intros evs [w h f] s (H1 & H2 & H3 & H4). unfold write_step. destruct (wq s) as [|x r] eqn:W; [repeat split; try assumption; rewrite W; exact H2|].
  inversion H2; subst. destruct x as [fr|rc].
  - unfold do_write, failing, add_out, snoc, J. destruct s; cbn in *. subst.
    repeat match goal with |- context [if ?b then _ else _] => destruct b; cbn end; repeat split; try assumption; fa.
  - unfold J. proj. repeat split; assumption.
Qed.

Lemma j_user_send : forall evs c i s, J evs s -> J evs (user_send c i s).
Proof. intros evs c i s H. unfold user_send. apply j_send_req. exact H. Qed.

Theorem j_step : forall evs c s e, FW s -> J evs s -> J (evs ++ [e]) (step c s e).
Proof.
  intros evs c s e F H. unfold step. destruct (exit s); [apply j_mono; exact H|].
  destruct e as [f|t|t|j|j| | |i].
  - apply j_recv; assumption.
  - apply j_task_step, j_mono; exact H.
  - apply j_loop_cb, j_mono; exact H.
  - apply j_job_start, j_mono; exact H.
  - apply j_job_finish, j_mono; exact H.
  - apply j_write_step, j_mono; exact H.
  - unfold exit_cb. destruct (exitq s); apply j_mono; exact H.
  - apply j_user_send, j_mono; exact H.
Qed.

Theorem j_run : forall c evs, J evs (run c evs).
Proof.
  intros c evs. unfold run.
  assert (G : forall evs2 evs1 s, FW s -> J evs1 s -> J (evs1 ++ evs2) (fold_left (step c) evs2 s)).
  { induction evs2 as [|e r IH]; intros evs1 s F H; cbn [fold_left]; [rewrite app_nil_r; exact H|].
    replace (evs1 ++ e :: r) with ((evs1 ++ [e]) ++ r) by (rewrite <- app_assoc; reflexivity).
    apply IH; [apply fw_step; exact F|apply j_step; assumption]. }
  apply (G evs [] init fw_init (j_init [])).
Qed.

(* every reply that reached the transport is one the reference allows - no guard *)
Theorem reply_is_allowed : forall c evs i p, In (OResp i p) (out (run c evs)) -> allowedb evs i p = true.
Proof.
  intros c evs i p HI. apply allowedb_spec. destruct (j_run c evs) as (H & _).
  rewrite Forall_forall in H. apply (H _ HI).
Qed.

(* a result reply carries the value the request's own handler returned *)
Theorem result_is_own_value : forall c evs i z, In (OResp i (PResult (VInt z))) (out (run c evs)) ->
  exists v ps m b, In (Recv (FReq v i ps m)) evs /\ ps = POk /\ handler_of m = Some b /\ bout b = ORet z.
Proof.
  intros c evs i z HI. apply reply_is_allowed, allowedb_spec in HI.
  destruct HI as (v & ps & m & HE & [H|(H & _)]); [|discriminate].
  destruct ps; cbn [natural] in H; try discriminate.
  destruct m as [|b|u|f u|[b|] u]; cbn in H; try discriminate; try (destruct f; discriminate);
    (exists v, POk; eexists; exists b; repeat split; [exact HE|reflexivity|]; destruct (bout b); inversion H; reflexivity).
Qed.

(* -32800 is sent only to a request that a cancel names with the same id (or after a shutdown) *)
Theorem cancelled_only_if_named : forall c evs i, In (OResp i (PError code_cancelled)) (out (run c evs)) ->
  named i evs = true \/ exists v ps m, In (Recv (FReq v i ps m)) evs /\ natural ps m = PError code_cancelled.
Proof.
  intros c evs i HI. apply reply_is_allowed, allowedb_spec in HI.
  destruct HI as (v & ps & m & HE & [H|(_ & _ & _ & H)]); [right; exists v, ps, m; split; [exact HE|symmetry; exact H]|left; exact H].
Qed.

(* ================================================================== Part 2: the frame of a cancel *)
Definition cancel_ev (tag : nat) (j : id) : ev := Recv (FNotif true tag POk (NCancel j)).

(* a frame a callback of request j may write: a response to j, or the hook's notification *)
Definition about (j : id) (f : oframe) : Prop :=
  match f with OResp i _ => i = j | ONotif _ => True | OReq _ => False end.
Definition about_w (j : id) (w : wentry) : Prop := match w with WFrame f => about j f | WClose _ => False end.

Lemma grows_nil : forall (A : Type) (P : A -> Prop) (l : list A), exists l', l = l ++ l' /\ Forall P l'.
Proof. intros. exists []. rewrite app_nil_r. split; [reflexivity|constructor]. Qed.

Lemma run_cb_adds : forall c sv i r s,
  (exists l, out (run_cb c sv (CReq i) r s) = out s ++ l /\ Forall (about i) l) /\
  (exists l, wq (run_cb c sv (CReq i) r s) = wq s ++ l /\ Forall (about_w i) l) /\
  hlog (run_cb c sv (CReq i) r s) = hlog s /\ shutdown (run_cb c sv (CReq i) r s) = shutdown s.
Proof.
  intros [w h f] sv i r s. destruct s.
  destruct w, h, sv, r; unfold run_cb, request_callback, send_response, send_data, hook,
    write_call, do_write, failing, fut_pop, rtype_pop, add_out, add_wq, add_err, snoc; cbn;
  repeat match goal with |- context [if ?b then _ else _] => destruct b; cbn end;
  repeat split; rewrite <- ?app_assoc;
  first [ apply grows_nil | eexists; split; [reflexivity|repeat constructor] ].
Qed.

Lemma length_upd_nth : forall (A : Type) (g : A -> A) l t, length (upd_nth t g l) = length l.
Proof. intros A g l. induction l as [|y r IH]; intros [|t]; cbn [upd_nth length]; auto. Qed.

Record framed (j : id) (s s' : st) : Prop := {
  fr_tasks_len : length (tasks s') = length (tasks s);
  fr_tasks : forall t tk, nth_error (tasks s) t = Some tk -> t_cb tk <> CReq j -> nth_error (tasks s') t = Some tk;
  fr_jobs_len : length (jobs s') = length (jobs s);
  fr_jobs : forall k jb, nth_error (jobs s) k = Some jb -> j_cb jb <> CReq j -> nth_error (jobs s') k = Some jb;
  fr_futs : forall i, i <> j -> Assoc.get id_eqb i (futs s') = Assoc.get id_eqb i (futs s);
  fr_out : exists l, out s' = out s ++ l /\ Forall (about j) l;
  fr_wq : exists l, wq s' = wq s ++ l /\ Forall (about_w j) l;
  fr_hlog : hlog s' = hlog s;
  fr_shutdown : shutdown s' = shutdown s }.

Lemma framed_refl : forall j s, framed j s s.
Proof. intros j s. constructor; auto; apply grows_nil. Qed.

(* `$/cancelRequest j` touches nothing but the future stored under key j - which by FW is the
   future of request j (ids compared with their JSON type: id_eqb (IInt 1) (IStr "1") = false) *)
Theorem cancel_frame : forall c s tag j, FW s -> framed j s (step c s (cancel_ev tag j)).
Proof.
  intros c s tag j F. unfold step, cancel_ev. destruct (exit s); [apply framed_refl|].
  unfold recv. cbn [negb is_exit andb]. rewrite andb_true_r. destruct (shutdown s); [apply framed_refl|].
  unfold handle_notification, cancel_notification.
  destruct (Assoc.get id_eqb j (futs s)) as [r|] eqn:G; [|apply framed_refl].
  pose proof (get_in id_eqb id_eqb_spec _ _ _ G) as HI. destruct F as (ND & FR). specialize (FR j r HI).
  assert (FUT : forall i, i <> j -> Assoc.get id_eqb i (Assoc.remove id_eqb j (futs s)) = Assoc.get id_eqb i (futs s)).
  { intros i NE. apply get_remove_neq; [exact id_eqb_spec|exact NE]. }
  unfold cancel_ref. destruct r as [t|k|o]; cbn [ref_ok] in FR.
  - destruct FR as (tk & N & C & _). cbn [tasks fut_pop set_futs]. rewrite N.
    destruct (t_st tk); try (constructor; auto; apply grows_nil).
    constructor; try (unfold set_task_st, fut_pop; proj; auto); try apply grows_nil.
    + apply length_upd_nth.
    + intros t' tk' N' C'. destruct (Nat.eq_dec t' t) as [E|E]; [subst; rewrite N in N'; inversion N'; subst; contradiction|].
      rewrite nth_error_upd_other by exact E. exact N'.
  - destruct FR as (jb & N & C & _). cbn [jobs fut_pop set_futs]. rewrite N.
    destruct (j_st jb); try (constructor; auto; apply grows_nil).
    rewrite C.
    set (s1 := set_job_st k JCancelled (fut_pop j s)).
    destruct (run_cb_adds c Loop j RCancelled s1) as (A1 & A2 & A3 & A4).
    destruct (frame_run_cb c Loop (CReq j) RCancelled s1) as (E1 & E2 & E3).
    constructor.
    + rewrite E1. reflexivity.
    + intros t' tk' N' C'. rewrite E1. exact N'.
    + rewrite E2. unfold s1, set_job_st. proj. apply length_upd_nth.
    + intros k' jb' N' C'. rewrite E2. unfold s1, set_job_st, fut_pop. proj.
      destruct (Nat.eq_dec k' k) as [E|E]; [subst; rewrite N in N'; inversion N'; subst; contradiction|].
      rewrite nth_error_upd_other by exact E. exact N'.
    + intros i NE. rewrite E3. unfold s1, set_job_st, fut_pop. proj.
      rewrite get_remove_neq by (exact id_eqb_spec || exact NE). apply FUT. exact NE.
    + exact A1.
    + exact A2.
    + exact A3.
    + exact A4.
  - cbn [outg fut_pop set_futs]. destruct (nth_error (outg s) o) as [[| |]|];
      (constructor; try (unfold set_outg_st, fut_pop; proj; auto); try apply grows_nil).
Qed.

(* cancel of an id that is not in flight - unknown, already answered, already cancelled, or the
   same digits with another JSON type - is the identity on the whole state *)
Theorem cancel_noop : forall c s tag j, Assoc.get id_eqb j (futs s) = None -> step c s (cancel_ev tag j) = s.
Proof.
  intros c s tag j G. unfold step, cancel_ev. destruct (exit s); [reflexivity|].
  unfold recv. cbn [negb is_exit andb]. rewrite andb_true_r. destruct (shutdown s); [reflexivity|].
  unfold handle_notification, cancel_notification. rewrite G. reflexivity.
Qed.

(* ... and after a cancel, or after the callback of the request has run, the id is not in flight *)
Lemma get_after_pop : forall s j, FW s -> Assoc.get id_eqb j (futs (fut_pop j s)) = None.
Proof. intros s j (ND & _). unfold fut_pop. proj. apply get_remove_eq; [exact id_eqb_spec|exact ND]. Qed.

Theorem cancel_twice : forall c s tag tag' j, FW s -> exit s = None -> shutdown s = false ->
  let s1 := step c s (cancel_ev tag j) in step c s1 (cancel_ev tag' j) = s1.
Proof.
  intros c s tag tag' j F E SD s1. apply cancel_noop.
  unfold s1, step, cancel_ev. rewrite E. unfold recv. cbn [negb is_exit andb]. rewrite andb_true_r, SD.
  unfold handle_notification, cancel_notification.
  destruct (Assoc.get id_eqb j (futs s)) as [r|] eqn:G; [|exact G].
  pose proof (get_after_pop s j F) as P.
  unfold cancel_ref. destruct r as [t|k|o].
  - cbn [tasks fut_pop set_futs]. destruct (nth_error (tasks s) t) as [tk|]; [|exact P]. destruct (t_st tk); exact P.
  - cbn [jobs fut_pop set_futs]. destruct (nth_error (jobs s) k) as [jb|] eqn:N; [|exact P]. destruct (j_st jb); try exact P.
    destruct (frame_run_cb c Loop (j_cb jb) RCancelled (set_job_st k JCancelled (fut_pop j s))) as (_ & _ & E3).
    rewrite E3. destruct (j_cb jb) as [i|]; [|exact P].
    unfold set_job_st. proj.
    destruct (id_eqb j i) eqn:EQ.
    + apply id_eqb_spec in EQ. subst i. apply get_remove_eq; [exact id_eqb_spec|]. apply nodup_remove. apply F.
    + rewrite get_remove_neq; [exact P|exact id_eqb_spec|]. intro X. subst. rewrite id_eqb_refl in EQ. discriminate.
  - cbn [outg fut_pop set_futs]. destruct (nth_error (outg s) o) as [[| |]|]; exact P.
Qed.

Theorem callback_clears_entry : forall c t tk i r s, FW s -> nth_error (tasks s) t = Some tk ->
  t_st tk = TDoneCb r -> t_cb tk = CReq i -> Assoc.get id_eqb i (futs (loop_cb c t s)) = None.
Proof.
  intros c t tk i r s (ND & _) N T C. unfold loop_cb. rewrite N, T, C.
  destruct (frame_run_cb c Loop (CReq i) r (set_task_st t (TFin r) s)) as (_ & _ & E3). rewrite E3.
  unfold set_task_st. proj. apply get_remove_eq; [exact id_eqb_spec|exact ND].
Qed.

Example json_type_matters : id_eqb (IInt 1) (IStr [49%N]) = false /\ id_eqb (IStr []) (IInt 0) = false.
Proof. split; reflexivity. Qed.

(* ================================================================== Part 3: the fate of the target *)
(* a task whose cancellation was requested before its first step *)
Definition doomed (x : tstate) : Prop :=
  match x with TLive false _ true | TDoneCb RCancelled | TFin RCancelled => True | _ => False end.

Lemma cancel_unstarted_task : forall c s tag j t tk n mc, FW s -> exit s = None -> shutdown s = false ->
  Assoc.get id_eqb j (futs s) = Some (FTask t) -> nth_error (tasks s) t = Some tk -> t_st tk = TLive false n mc ->
  nth_error (tasks (step c s (cancel_ev tag j))) t = Some (mkT (t_who tk) (t_part tk) (t_cb tk) (t_b tk) (TLive false n true)) /\
  hlog (step c s (cancel_ev tag j)) = hlog s.
Proof.
  intros c s tag j t tk n mc F E SD G N T. unfold step, cancel_ev. rewrite E. unfold recv. cbn [negb is_exit andb].
  rewrite andb_true_r, SD. unfold handle_notification, cancel_notification. rewrite G. unfold cancel_ref.
  cbn [tasks fut_pop set_futs]. rewrite N, T. unfold set_task_st, fut_pop. proj. split; [|reflexivity].
  erewrite nth_error_upd_same by exact N. reflexivity.
Qed.

(* whatever happens next, a doomed task never starts: no event changes it except its own steps,
   which neither log nor run the handler, and its callback answers -32800 *)
Lemma doomed_task_step : forall t tk s, nth_error (tasks s) t = Some tk -> doomed (t_st tk) ->
  hlog (task_step t s) = hlog s /\
  exists tk', nth_error (tasks (task_step t s)) t = Some tk' /\ doomed (t_st tk') /\
              t_cb tk' = t_cb tk /\ t_who tk' = t_who tk /\ t_b tk' = t_b tk.
Proof.
  intros t tk s N D. unfold task_step. rewrite N.
  destruct (t_st tk) as [a b m|r|r] eqn:T; cbn [doomed] in D.
  - destruct a; [contradiction|]. destruct m; [|contradiction]. cbn [negb]. split; [reflexivity|].
    eexists. unfold set_task_st. proj. split; [apply nth_error_upd_same; exact N|]. cbn. auto.
  - split; [reflexivity|]. exists tk. rewrite T. auto.
  - split; [reflexivity|]. exists tk. rewrite T. auto.
Qed.

Definition same_task (tk tk' : task) : Prop :=
  t_cb tk' = t_cb tk /\ t_who tk' = t_who tk /\ t_part tk' = t_part tk /\ t_b tk' = t_b tk.

(* one event: a doomed task stays doomed *)
Lemma tasks_run_cb : forall c sv cb r s, tasks (run_cb c sv cb r s) = tasks s.
Proof. intros. apply (frame_run_cb c sv cb r s). Qed.

(* ------------------------------------------------------------------ how futures evolve *)
Inductive tnext : tstate -> tstate -> Prop :=
| tn_refl : forall x, tnext x x
| tn_cancel : forall a b m, tnext (TLive a b m) (TLive a b true)
| tn_never : forall b, tnext (TLive false b true) (TDoneCb RCancelled)
| tn_run_c : forall b x, tnext (TLive true b true) x
| tn_run : forall a b x, tnext (TLive a b false) x
| tn_cb : forall r, tnext (TDoneCb r) (TFin r).

Inductive jnext : jstate -> jstate -> Prop :=
| jn_refl : forall x, jnext x x
| jn_start : jnext JQueued JRunning
| jn_cancel : jnext JQueued JCancelled
| jn_finish : forall r, jnext JRunning (JDone r).

Definition same_job (jb jb' : job) : Prop :=
  j_cb jb' = j_cb jb /\ j_who jb' = j_who jb /\ j_part jb' = j_part jb /\ j_b jb' = j_b jb.

Definition tj_step (s s' : st) : Prop :=
  (forall t tk, nth_error (tasks s) t = Some tk ->
     exists tk', nth_error (tasks s') t = Some tk' /\ same_task tk tk' /\ tnext (t_st tk) (t_st tk')) /\
  (forall k jb, nth_error (jobs s) k = Some jb ->
     exists jb', nth_error (jobs s') k = Some jb' /\ same_job jb jb' /\ jnext (j_st jb) (j_st jb')).

Definition evolves : st -> st -> Prop := Relation_Operators.clos_refl_trans st tj_step.

Lemma ev_refl : forall s, evolves s s.
Proof. intro s. apply Relation_Operators.rt_refl. Qed.
Lemma ev_trans : forall s1 s2 s3, evolves s1 s2 -> evolves s2 s3 -> evolves s1 s3.
Proof. intros. eapply Relation_Operators.rt_trans; eassumption. Qed.
Lemma ev_one : forall s s', tj_step s s' -> evolves s s'.
Proof. intros. apply Relation_Operators.rt_step. assumption. Qed.

Lemma same_task_refl : forall tk, same_task tk tk. Proof. intro. repeat split. Qed.
Lemma same_job_refl : forall jb, same_job jb jb. Proof. intro. repeat split. Qed.

Lemma ev_same : forall s s', tasks s' = tasks s -> jobs s' = jobs s -> evolves s s'.
Proof.
  intros s s' E1 E2. apply ev_one. split.
  - intros t tk N. exists tk. rewrite E1. split; [exact N|split; [apply same_task_refl|constructor]].
  - intros k jb N. exists jb. rewrite E2. split; [exact N|split; [apply same_job_refl|constructor]].
Qed.

Lemma ev_set_task : forall s t x tk, nth_error (tasks s) t = Some tk -> tnext (t_st tk) x -> evolves s (set_task_st t x s).
Proof.
  intros s t x tk N TN. apply ev_one. split.
  - intros t' tk' N'. unfold set_task_st. proj. destruct (Nat.eq_dec t' t) as [E|E].
    + subst t'. rewrite N in N'. inversion N'. subst tk'. eexists. split; [apply nth_error_upd_same; exact N|].
      cbn. split; [repeat split|exact TN].
    + exists tk'. rewrite nth_error_upd_other by exact E. split; [exact N'|split; [apply same_task_refl|constructor]].
  - intros k jb N'. exists jb. split; [exact N'|split; [apply same_job_refl|constructor]].
Qed.

Lemma ev_set_job : forall s k x jb, nth_error (jobs s) k = Some jb -> jnext (j_st jb) x -> evolves s (set_job_st k x s).
Proof.
  intros s k x jb N JN. apply ev_one. split.
  - intros t tk N'. exists tk. split; [exact N'|split; [apply same_task_refl|constructor]].
  - intros k' jb' N'. unfold set_job_st. proj. destruct (Nat.eq_dec k' k) as [E|E].
    + subst k'. rewrite N in N'. inversion N'. subst jb'. eexists. split; [apply nth_error_upd_same; exact N|].
      cbn. split; [repeat split|exact JN].
    + exists jb'. rewrite nth_error_upd_other by exact E. split; [exact N'|split; [apply same_job_refl|constructor]].
Qed.

Lemma ev_new_task : forall w p cb b n s, evolves s (new_task w p cb b n s).
Proof.
  intros. apply ev_one. split.
  - intros t tk N. exists tk. unfold new_task. proj. split; [apply nth_error_snoc_old; exact N|split; [apply same_task_refl|constructor]].
  - intros k jb N. exists jb. split; [exact N|split; [apply same_job_refl|constructor]].
Qed.

Lemma ev_new_job : forall w p cb b x s, evolves s (new_job w p cb b x s).
Proof.
  intros. apply ev_one. split.
  - intros t tk N. exists tk. split; [exact N|split; [apply same_task_refl|constructor]].
  - intros k jb N. exists jb. unfold new_job. proj. split; [apply nth_error_snoc_old; exact N|split; [apply same_job_refl|constructor]].
Qed.

Lemma ev_run_cb : forall c sv cb r s, evolves s (run_cb c sv cb r s).
Proof. intros. destruct (frame_run_cb c sv cb r s) as (E1 & E2 & _). apply ev_same; assumption. Qed.
Lemma ev_hook : forall c sv src s, evolves s (hook c sv src s).
Proof. intros. destruct (same3_hook c sv src s) as (_ & E1 & E2). apply ev_same; assumption. Qed.
Lemma ev_send_response : forall c sv i r s, evolves s (send_response c sv i r s).
Proof. intros. destruct (same3_send_response c sv i r s) as (_ & E1 & E2). apply ev_same; assumption. Qed.

Lemma ev_cancel_ref : forall c r s, evolves s (cancel_ref c r s).
Proof.
  intros c r s. unfold cancel_ref. destruct r as [t|k|o].
  - destruct (nth_error (tasks s) t) as [tk|] eqn:N; [|apply ev_refl]. destruct (t_st tk) eqn:T; try apply ev_refl.
    eapply ev_set_task; [exact N|rewrite T; constructor].
  - destruct (nth_error (jobs s) k) as [jb|] eqn:N; [|apply ev_refl]. destruct (j_st jb) eqn:JS; try apply ev_refl.
    eapply ev_trans; [eapply ev_set_job; [exact N|rewrite JS; constructor]|apply ev_run_cb].
  - destruct (nth_error (outg s) o) as [[| |]|]; try apply ev_refl. apply ev_same; reflexivity.
Qed.

Lemma ev_submit : forall c w p cb b early reg s, (forall k s', evolves s' (reg k s')) ->
  evolves s (submit c w p cb b early reg s).
Proof.
  intros c w p cb b early reg s R. unfold submit. destruct early.
  - eapply ev_trans; [apply ev_new_job|]. eapply ev_trans; [|apply ev_run_cb]. eapply ev_trans; [|apply R]. apply ev_same; reflexivity.
  - eapply ev_trans; [apply ev_new_job|apply R].
Qed.

Lemma ev_execute_request : forall c i p b s, evolves s (fst (execute_request c i p b s)).
Proof.
  intros c i p b s. unfold execute_request. destruct (bkind b) as [|n|early]; cbn [fst].
  - destruct (bout b); cbn [fst]; try (apply ev_same; reflexivity);
      (eapply ev_trans; [|apply ev_send_response]; apply ev_same; reflexivity).
  - eapply ev_trans; [apply ev_new_task|apply ev_same; reflexivity].
  - apply ev_submit. intros k s'. apply ev_same; reflexivity.
Qed.

Lemma ev_exec_notification : forall c w p b s, evolves s (fst (exec_notification c w p b s)).
Proof.
  intros c w p b s. unfold exec_notification. destruct (bkind b) as [|n|early]; cbn [fst].
  - apply ev_same; reflexivity.
  - apply ev_new_task.
  - apply ev_submit. intros k s'. apply ev_refl.
Qed.

Lemma ev_chain : forall c w u s, evolves s (chain c w u s).
Proof. intros c w u s. unfold chain. destruct u; [apply ev_exec_notification|apply ev_refl]. Qed.

Lemma ev_on_exc : forall c i x s, evolves s (on_exc c i x s).
Proof.
  intros c i x s. unfold on_exc. destruct x as [[|code]|]; try apply ev_refl;
    (eapply ev_trans; [apply ev_send_response|apply ev_hook]).
Qed.

Lemma ev_fold_cancel : forall c rs s, evolves s (fold_left (fun s' r => cancel_ref c r s') rs s).
Proof.
  intros c rs. induction rs as [|r rs IH]; intro s; cbn [fold_left]; [apply ev_refl|].
  eapply ev_trans; [apply ev_cancel_ref|apply IH].
Qed.

Lemma ev_log : forall w p ph sv s, evolves s (log w p ph sv s).
Proof. intros. apply ev_same; reflexivity. Qed.

Lemma ev_handle_request : forall c i m s, evolves s (handle_request c i m s).
Proof.
  intros c i m s. unfold handle_request. destruct m as [|b|u|fails u|cmd u].
  - eapply ev_trans; [apply ev_send_response|apply ev_hook].
  - pose proof (ev_execute_request c i PUser b s) as H. destruct (execute_request c i PUser b s) as [s1 x]. cbn [fst] in H.
    eapply ev_trans; [exact H|apply ev_on_exc].
  - eapply ev_trans; [|apply ev_send_response]. eapply ev_trans; [|apply ev_chain]. eapply ev_trans; [|apply ev_log].
    unfold lsp_shutdown. eapply ev_trans; [apply ev_log|]. eapply ev_trans; [apply ev_fold_cancel|apply ev_same; reflexivity].
  - destruct fails.
    + eapply ev_trans; [|apply ev_on_exc]. apply ev_same; reflexivity.
    + eapply ev_trans; [|apply ev_send_response]. eapply ev_trans; [|apply ev_chain]. apply ev_same; reflexivity.
  - destruct cmd as [b|].
    + pose proof (ev_execute_request c i PCommand b (log (WReq i) PBuiltin HStart Loop s)) as H.
      destruct (execute_request c i PCommand b (log (WReq i) PBuiltin HStart Loop s)) as [s2 x]. cbn [fst] in H.
      eapply ev_trans; [apply ev_log|]. eapply ev_trans; [exact H|]. eapply ev_trans; [apply ev_log|].
      destruct x; [apply ev_on_exc|apply ev_chain].
    + eapply ev_trans; [|apply ev_on_exc]. apply ev_same; reflexivity.
Qed.

Lemma ev_handle_notification : forall c tag m s, evolves s (handle_notification c tag m s).
Proof.
  intros c tag m s. unfold handle_notification. destruct m as [|b|i|u|fails u].
  - apply ev_refl.
  - pose proof (ev_exec_notification c (WNot tag) PUser b s) as H.
    destruct (exec_notification c (WNot tag) PUser b s) as [s1 x]. cbn [fst] in H.
    destruct x; [eapply ev_trans; [exact H|apply ev_hook]|exact H].
  - unfold cancel_notification. destruct (Assoc.get id_eqb i (futs s)); [|apply ev_refl].
    eapply ev_trans; [|apply ev_cancel_ref]. apply ev_same; reflexivity.
  - unfold lsp_exit. destruct (c_writer c); [apply ev_same; reflexivity|].
    eapply ev_trans; [|apply ev_chain]. apply ev_same; reflexivity.
  - destruct fails; [eapply ev_trans; [|apply ev_hook]|eapply ev_trans; [|apply ev_chain]]; apply ev_same; reflexivity.
Qed.

Lemma ev_handle_response : forall c i s, evolves s (handle_response c i s).
Proof.
  intros c i s. unfold handle_response. destruct (Assoc.get id_eqb i (futs s)) as [r|]; [|apply ev_hook].
  assert (H : evolves s (hook c Loop EJsonRpc (fut_pop i s))) by (eapply ev_trans; [|apply ev_hook]; apply ev_same; reflexivity).
  destruct r as [t|j|o]; [exact H|eapply ev_trans; [exact H|apply ev_same; reflexivity]|].
  destruct (nth_error (outg (fut_pop i s)) o) as [[| |]|]; try exact H. apply ev_same; reflexivity.
Qed.

Lemma ev_recv : forall c f s, evolves s (recv c f s).
Proof.
  intros c f s. unfold recv. destruct f as [|v i ps m|v tag ps m|v i iserr ps].
  - apply ev_hook.
  - destruct ps; try (eapply ev_trans; [apply ev_send_response|apply ev_hook]).
    destruct (negb v); [apply ev_hook|]. destruct (shutdown s); [apply ev_refl|apply ev_handle_request].
  - destruct ps; try apply ev_hook. destruct (negb v); [apply ev_hook|].
    destruct (shutdown s && negb (is_exit m)); [apply ev_refl|apply ev_handle_notification].
  - assert (H : evolves s (rtype_pop i s)) by (apply ev_same; reflexivity).
    assert (HH : evolves s (hook c Loop EJsonRpc (rtype_pop i s))) by (eapply ev_trans; [exact H|apply ev_hook]).
    destruct (negb iserr && negb (Assoc.mem id_eqb i (rtypes s))); [exact HH|].
    destruct ps; try exact HH. destruct (negb v); [exact HH|].
    destruct (shutdown (rtype_pop i s)); [exact H|eapply ev_trans; [exact H|apply ev_handle_response]].
Qed.

Lemma ev_task_step : forall t s, evolves s (task_step t s).
Proof.
  intros t s. unfold task_step. destruct (nth_error (tasks s) t) as [tk|] eqn:N; [|apply ev_refl].
  destruct (t_st tk) as [a b m| |] eqn:T; try apply ev_refl.
  assert (SET : forall x s1, tasks s1 = tasks s -> jobs s1 = jobs s -> tnext (TLive a b m) x -> evolves s (set_task_st t x s1)).
  { intros x s1 E1 E2 TN. eapply ev_trans; [apply (ev_same s s1); assumption|].
    eapply ev_set_task; [rewrite E1; exact N|rewrite T; exact TN]. }
  destruct m.
  - destruct a; cbn [negb].
    + destruct (breact (t_b tk)); [apply SET; try reflexivity; constructor|].
      unfold task_advance, task_finish. destruct b; apply SET; try reflexivity; constructor.
    + apply SET; try reflexivity; constructor.
  - unfold task_advance, task_finish. destruct a; destruct b; apply SET; try reflexivity; constructor.
Qed.

Lemma ev_loop_cb : forall c t s, evolves s (loop_cb c t s).
Proof.
  intros c t s. unfold loop_cb. destruct (nth_error (tasks s) t) as [tk|] eqn:N; [|apply ev_refl].
  destruct (t_st tk) as [| r |] eqn:T; try apply ev_refl.
  eapply ev_trans; [eapply ev_set_task; [exact N|rewrite T; constructor]|apply ev_run_cb].
Qed.

Lemma ev_job_start : forall k s, evolves s (job_start k s).
Proof.
  intros k s. unfold job_start. destruct (nth_error (jobs s) k) as [jb|] eqn:N; [|apply ev_refl].
  destruct (j_st jb) eqn:JS; try apply ev_refl.
  eapply ev_trans; [eapply ev_set_job; [exact N|rewrite JS; constructor]|apply ev_log].
Qed.

Lemma ev_job_finish : forall c k s, evolves s (job_finish c k s).
Proof.
  intros c k s. unfold job_finish. destruct (nth_error (jobs s) k) as [jb|] eqn:N; [|apply ev_refl].
  destruct (j_st jb) eqn:JS; try apply ev_refl.
  eapply ev_trans; [apply ev_log|]. eapply ev_trans; [eapply ev_set_job; [exact N|rewrite JS; constructor]|apply ev_run_cb].
Qed.

Lemma ev_write_step : forall c s, evolves s (write_step c s).
Proof.
  intros [w h f] s. unfold write_step. destruct (wq s) as [|x r]; [apply ev_refl|]. destruct x as [fr|rc].
  - apply ev_same; unfold do_write, failing; destruct s; cbn;
      repeat match goal with |- context [if ?b then _ else _] => destruct b; cbn end; reflexivity.
  - apply ev_same; reflexivity.
Qed.

Lemma ev_user_send : forall c i s, evolves s (user_send c i s).
Proof.
  intros c i s. unfold user_send. destruct (same3_send_req c i
    (set_rtypes (Assoc.set id_eqb i tt (rtypes (set_outg (snoc (outg s) OPending) s)))
       (fut_set i (FOut (length (outg s))) (set_outg (snoc (outg s) OPending) s)))) as (_ & E1 & E2).
  apply ev_same; [rewrite E1|rewrite E2]; reflexivity.
Qed.

Theorem ev_step : forall c s e, evolves s (step c s e).
Proof.
  intros c s e. unfold step. destruct (exit s); [apply ev_refl|].
  destruct e as [f|t|t|j|j| | |i].
  - apply ev_recv. - apply ev_task_step. - apply ev_loop_cb. - apply ev_job_start. - apply ev_job_finish.
  - apply ev_write_step.
  - unfold exit_cb. destruct (exitq s); [apply ev_refl|apply ev_same; reflexivity].
  - apply ev_user_send.
Qed.

Theorem ev_steps : forall c evs s, evolves s (fold_left (step c) evs s).
Proof.
  intros c evs. induction evs as [|e r IH]; intro s; cbn [fold_left]; [apply ev_refl|].
  eapply ev_trans; [apply ev_step|apply IH].
Qed.

Lemma doomed_tnext : forall x x', doomed x -> tnext x x' -> doomed x'.
Proof.
  intros x x' D TN. destruct TN; cbn [doomed] in *;
    repeat match goal with b : bool |- _ => destruct b end;
    repeat match goal with r : fres |- _ => destruct r end; cbn in *; tauto.
Qed.

Lemma evolves_doomed : forall s s', evolves s s' -> forall t tk, nth_error (tasks s) t = Some tk -> doomed (t_st tk) ->
  exists tk', nth_error (tasks s') t = Some tk' /\ same_task tk tk' /\ doomed (t_st tk').
Proof.
  intros s s' E. induction E as [s s' H|s|s1 s2 s3 E1 IH1 E2 IH2]; intros t tk N D.
  - destruct H as [H _]. destruct (H t tk N) as (tk' & N' & S & TN). exists tk'. split; [exact N'|split; [exact S|eapply doomed_tnext; eassumption]].
  - exists tk. split; [exact N|split; [apply same_task_refl|exact D]].
  - destruct (IH1 t tk N D) as (tk1 & N1 & S1 & D1). destruct (IH2 t tk1 N1 D1) as (tk2 & N2 & S2 & D2).
    exists tk2. split; [exact N2|split; [|exact D2]]. destruct S1 as (A1 & A2 & A3 & A4). destruct S2 as (B1 & B2 & B3 & B4).
    repeat split; congruence.
Qed.

Lemma evolves_cancelled_job : forall s s', evolves s s' -> forall k jb, nth_error (jobs s) k = Some jb -> j_st jb = JCancelled ->
  exists jb', nth_error (jobs s') k = Some jb' /\ same_job jb jb' /\ j_st jb' = JCancelled.
Proof.
  intros s s' E. induction E as [s s' H|s|s1 s2 s3 E1 IH1 E2 IH2]; intros k jb N D.
  - destruct H as [_ H]. destruct (H k jb N) as (jb' & N' & S & JN). exists jb'. split; [exact N'|split; [exact S|]].
    rewrite D in JN. inversion JN. reflexivity.
  - exists jb. split; [exact N|split; [apply same_job_refl|exact D]].
  - destruct (IH1 k jb N D) as (jb1 & N1 & S1 & D1). destruct (IH2 k jb1 N1 D1) as (jb2 & N2 & S2 & D2).
    exists jb2. split; [exact N2|split; [|exact D2]]. destruct S1 as (A1 & A2 & A3 & A4). destruct S2 as (B1 & B2 & B3 & B4).
    repeat split; congruence.
Qed.

(* (a) cancelled before its first step: under EVERY continuation the coroutine never starts - the
   task stays in {not started & must_cancel, cancelled with callback queued, cancelled and answered},
   its own steps log nothing (doomed_task_step), and its callback is the -32800 reply *)
Theorem cancel_before_start_never_runs : forall c s tag j t tk n mc evs,
  FW s -> exit s = None -> shutdown s = false ->
  Assoc.get id_eqb j (futs s) = Some (FTask t) -> nth_error (tasks s) t = Some tk -> t_st tk = TLive false n mc ->
  let s' := fold_left (step c) evs (step c s (cancel_ev tag j)) in
  exists tk', nth_error (tasks s') t = Some tk' /\ same_task tk tk' /\ doomed (t_st tk').
Proof.
  intros c s tag j t tk n mc evs F E SD G N T s'.
  destruct (cancel_unstarted_task c s tag j t tk n mc F E SD G N T) as [N1 _].
  destruct (evolves_doomed _ _ (ev_steps c evs _) t _ N1 I) as (tk' & N' & S & D).
  exists tk'. split; [exact N'|split; [|exact D]]. destruct S as (A1 & A2 & A3 & A4). repeat split; assumption.
Qed.

(* the callback of a cancelled future is the reply -32800 and nothing else for that id *)
Theorem cancelled_callback_reply : forall c t tk i s, nth_error (tasks s) t = Some tk ->
  t_st tk = TDoneCb RCancelled -> t_cb tk = CReq i ->
  loop_cb c t s = fut_pop i (send_response c Loop i (RpError code_cancelled) (set_task_st t (TFin RCancelled) s)).
Proof. intros c t tk i s N T C. unfold loop_cb. rewrite N, T, C. reflexivity. Qed.

(* (b) a queued pool job: the cancel marks it cancelled AND answers -32800 in the same event; it can
   never be started afterwards *)
Theorem cancel_queued_job : forall c s tag j k jb evs,
  FW s -> exit s = None -> shutdown s = false ->
  Assoc.get id_eqb j (futs s) = Some (FJob k) -> nth_error (jobs s) k = Some jb -> j_st jb = JQueued ->
  let s1 := step c s (cancel_ev tag j) in
  s1 = request_callback c Loop j RCancelled (set_job_st k JCancelled (fut_pop j s)) /\
  hlog s1 = hlog s /\
  exists jb', nth_error (jobs (fold_left (step c) evs s1)) k = Some jb' /\ same_job jb jb' /\ j_st jb' = JCancelled.
Proof.
  intros c s tag j k jb evs F E SD G N JS s1.
  pose proof (get_in id_eqb id_eqb_spec _ _ _ G) as HI. destruct F as (ND & FR). specialize (FR j _ HI).
  cbn [ref_ok] in FR. destruct FR as (jb0 & N0 & C & _). rewrite N in N0. inversion N0. subst jb0.
  assert (EQ : s1 = request_callback c Loop j RCancelled (set_job_st k JCancelled (fut_pop j s))).
  { unfold s1, step, cancel_ev. rewrite E. unfold recv. cbn [negb is_exit andb]. rewrite andb_true_r, SD.
    unfold handle_notification, cancel_notification. rewrite G. unfold cancel_ref. cbn [jobs fut_pop set_futs].
    rewrite N, JS, C. reflexivity. }
  split; [exact EQ|]. split.
  - rewrite EQ. destruct (run_cb_adds c Loop j RCancelled (set_job_st k JCancelled (fut_pop j s))) as (_ & _ & A3 & _). exact A3.
  - assert (N1 : nth_error (jobs s1) k = Some (mkJ (j_who jb) (j_part jb) (j_cb jb) (j_b jb) JCancelled)).
    { rewrite EQ. destruct (frame_run_cb c Loop (CReq j) RCancelled (set_job_st k JCancelled (fut_pop j s))) as (_ & E2 & _).
      unfold run_cb in E2. rewrite E2. unfold set_job_st, fut_pop. proj. erewrite nth_error_upd_same by exact N. reflexivity. }
    destruct (evolves_cancelled_job _ _ (ev_steps c evs s1) k _ N1 eq_refl) as (jb' & N' & S & D).
    exists jb'. split; [exact N'|split; [|exact D]]. destruct S as (A1 & A2 & A3 & A4). repeat split; assumption.
Qed.

Lemma job_start_cancelled : forall k jb s, nth_error (jobs s) k = Some jb -> j_st jb = JCancelled -> job_start k s = s.
Proof. intros k jb s N JS. unfold job_start. rewrite N, JS. reflexivity. Qed.

(* (c) suspended at an await: the cancel only sets must_cancel; the next step of a propagating
   handler logs the cancellation, ends the task cancelled, and its callback answers -32800; if the
   task had already completed (TDoneCb r: "its last step ran first") the cancel changes nothing
   but the table and the callback answers with the handler's own outcome r *)
Theorem cancel_suspended : forall c s tag j t tk n mc, FW s -> exit s = None -> shutdown s = false ->
  Assoc.get id_eqb j (futs s) = Some (FTask t) -> nth_error (tasks s) t = Some tk -> t_st tk = TLive true n mc ->
  breact (t_b tk) = Propagate ->
  let s1 := step c s (cancel_ev tag j) in
  let s2 := step c s1 (TaskStep t) in
  nth_error (tasks s1) t = Some (mkT (t_who tk) (t_part tk) (t_cb tk) (t_b tk) (TLive true n true)) /\
  nth_error (tasks s2) t = Some (mkT (t_who tk) (t_part tk) (t_cb tk) (t_b tk) (TDoneCb RCancelled)) /\
  hlog s2 = hlog s ++ [mkH (t_who tk) (t_part tk) HCancel Loop].
Proof.
  intros c s tag j t tk n mc F E SD G N T P s1 s2.
  assert (EQ : s1 = set_task_st t (TLive true n true) (fut_pop j s)).
  { unfold s1, step, cancel_ev. rewrite E. unfold recv. cbn [negb is_exit andb]. rewrite andb_true_r, SD.
    unfold handle_notification, cancel_notification. rewrite G. unfold cancel_ref. cbn [tasks fut_pop set_futs].
    rewrite N, T. reflexivity. }
  assert (N1 : nth_error (tasks s1) t = Some (mkT (t_who tk) (t_part tk) (t_cb tk) (t_b tk) (TLive true n true))).
  { rewrite EQ. unfold set_task_st, fut_pop. proj. erewrite nth_error_upd_same by exact N. reflexivity. }
  split; [exact N1|].
  assert (E1 : exit s1 = None) by (rewrite EQ; exact E).
  unfold s2, step. rewrite E1. unfold task_step. rewrite N1. cbn [t_st negb t_b]. rewrite P.
  unfold set_task_st, log. proj. split.
  - erewrite nth_error_upd_same by exact N1. reflexivity.
  - rewrite EQ. reflexivity.
Qed.

Theorem cancel_after_completion : forall c s tag j t tk r, FW s -> exit s = None -> shutdown s = false ->
  Assoc.get id_eqb j (futs s) = Some (FTask t) -> nth_error (tasks s) t = Some tk -> t_st tk = TDoneCb r ->
  step c s (cancel_ev tag j) = fut_pop j s.
Proof.
  intros c s tag j t tk r F E SD G N T. unfold step, cancel_ev. rewrite E. unfold recv. cbn [negb is_exit andb].
  rewrite andb_true_r, SD. unfold handle_notification, cancel_notification. rewrite G. unfold cancel_ref.
  cbn [tasks fut_pop set_futs]. rewrite N, T. reflexivity.
Qed.
