(* Proofs for C07: generic lemmas over ANY class table, then the instances for the regenerated
   table (vm_compute of the executable guards, re-checked by the kernel on every run). *)
From Coq Require Import ZArith NArith List Bool Lia ZifyBool Permutation.
From Pygls Require Export Spec.ExceptionsSpec Gen.ExcTable.
Import ListNotations.
Open Scope Z_scope.

(* ------------------------------------------------------------------------------------ *)
(* the code's test and the reference's set of codes coincide                             *)

Lemma supports_is_claims : forall e c, supports_code e c = claims e c.
Proof.
  intros e c. unfold supports_code, claims, interval, in_range.
  destruct (e_sup e); cbn [fst snd]; [|reflexivity].
  destruct (e_code e) as [k|]; lia.
Qed.

Lemma claims_iff : forall e c, claims e c = true <-> fst (interval e) <= c <= snd (interval e).
Proof. intros. unfold claims. lia. Qed.

(* ------------------------------------------------------------------------------------ *)
(* list facts                                                                            *)

Lemma find_hd_filter : forall (A : Type) (p : A -> bool) l, find p l = hd_error (filter p l).
Proof.
  induction l as [|a l IH]; cbn [find filter]; [reflexivity|].
  destruct (p a); [reflexivity|exact IH].
Qed.

Lemma filter_nil_forall : forall (A : Type) (p : A -> bool) l,
  (forall x, In x l -> p x = false) -> filter p l = [].
Proof.
  induction l as [|a l IH]; intros H; cbn [filter]; [reflexivity|].
  rewrite (H a (or_introl eq_refl)). apply IH. intros x Hx. apply H. right. exact Hx.
Qed.

Lemma filter_and : forall (A : Type) (p q : A -> bool) l,
  filter (fun x => p x && q x) l = filter q (filter p l).
Proof.
  induction l as [|a l IH]; cbn [filter]; [reflexivity|].
  destruct (p a); cbn [andb filter]; [destruct (q a); rewrite IH; reflexivity|exact IH].
Qed.

Lemma filter_perm : forall (A : Type) (p : A -> bool) l l',
  Permutation l l' -> Permutation (filter p l) (filter p l').
Proof.
  intros A p l l' H. induction H; cbn [filter].
  - constructor.
  - destruct (p x); [constructor|]; assumption.
  - destruct (p x), (p y); try apply perm_swap; apply Permutation_refl.
  - eapply Permutation_trans; eassumption.
Qed.

Lemma short_perm_eq : forall (A : Type) (l l' : list A),
  (length l <= 1)%nat -> Permutation l l' -> l = l'.
Proof.
  intros A l l' Hlen H. destruct l as [|a [|b l]]; cbn [length] in Hlen; try lia.
  - apply Permutation_nil in H. symmetry. exact H.
  - apply Permutation_length_1_inv in H. symmetry. exact H.
Qed.

Lemma short_in_singleton : forall (A : Type) (l : list A) x,
  (length l <= 1)%nat -> In x l -> l = [x].
Proof.
  intros A l x Hlen Hin. destruct l as [|a [|b l]]; cbn [length] in Hlen; try lia.
  - destruct Hin.
  - destruct Hin as [->|[]]. reflexivity.
Qed.

(* ------------------------------------------------------------------------------------ *)
(* table_ok: at most one registered class answers for a code                              *)

Lemma disjoint_excludes : forall a b c,
  disjoint (interval a) (interval b) = true -> claims a c = true -> claims b c = false.
Proof. intros a b c. unfold disjoint, claims. lia. Qed.

Lemma pairwise_at_most_one : forall l c,
  pairwise_disjoint (map interval l) = true ->
  (length (filter (fun e => claims e c) l) <= 1)%nat.
Proof.
  induction l as [|a l IH]; intros c H; cbn [filter length]; [lia|].
  cbn [map pairwise_disjoint] in H. apply andb_true_iff in H. destruct H as [Ha Hl].
  destruct (claims a c) eqn:Ea.
  - rewrite filter_nil_forall; [cbn [length]; lia|].
    intros x Hx. rewrite forallb_forall in Ha.
    apply (disjoint_excludes a x c); [|exact Ea]. apply Ha. apply in_map. exact Hx.
  - apply IH. exact Hl.
Qed.

(* the candidates for a code: what the loop of from_error can stop at *)
Definition candidates (t : list entry) (c : Z) : list entry :=
  filter (fun e => supports_code e c) (exceptions_set t).

Lemma candidates_spec : forall t c, candidates t c = filter (fun e => e_reg e && claims e c) t.
Proof.
  intros t c. unfold candidates, exceptions_set. rewrite filter_and.
  apply filter_ext. intros e. apply supports_is_claims.
Qed.

Theorem table_ok_sound : forall t, table_ok t = true ->
  forall c, (length (candidates t c) <= 1)%nat.
Proof.
  intros t H c. unfold candidates. unfold table_ok in H.
  rewrite (filter_ext _ (fun e => claims e c) (fun e => supports_is_claims e c)).
  apply pairwise_at_most_one. exact H.
Qed.

(* the same as a statement about classes: two registered classes answering for one code are one *)
Corollary at_most_one_class_supports : forall t, table_ok t = true ->
  forall c e1 e2, In e1 t -> In e2 t -> e_reg e1 = true -> e_reg e2 = true ->
    supports_code e1 c = true -> supports_code e2 c = true -> e1 = e2.
Proof.
  intros t H c e1 e2 I1 I2 R1 R2 S1 S2.
  assert (In e1 (candidates t c)) as C1
    by (unfold candidates, exceptions_set; rewrite !filter_In; auto).
  assert (In e2 (candidates t c)) as C2
    by (unfold candidates, exceptions_set; rewrite !filter_In; auto).
  pose proof (short_in_singleton _ _ e1 (table_ok_sound t H c) C1) as E.
  rewrite E in C2. destruct C2 as [->|[]]. reflexivity.
Qed.

(* ------------------------------------------------------------------------------------ *)
(* from_error = constructor of the chosen class                                          *)

Definition chosen_class (base : entry) (t : list entry) (c : Z) : entry :=
  match find (fun e => supports_code e c) (exceptions_set t) with Some e => e | None => base end.

Lemma from_error_loop_chosen : forall D base l c m (d : option D),
  from_error_loop base l c m d =
  construct (match find (fun e => supports_code e c) l with Some e => e | None => base end)
            (Some m) (Some c) d.
Proof.
  induction l as [|e l IH]; intros c m d; cbn [from_error_loop find]; [reflexivity|].
  destruct (supports_code e c); [reflexivity|apply IH].
Qed.

Lemma from_error_chosen : forall D t base c m (d : option D),
  from_error t base (mkErr c m d) = construct (chosen_class base t c) (Some m) (Some c) d.
Proof. intros. unfold from_error, chosen_class. cbn [r_code r_msg r_data]. apply from_error_loop_chosen. Qed.

Lemma chosen_by_candidates : forall base t c,
  chosen_class base t c = match candidates t c with [] => base | e :: _ => e end.
Proof.
  intros. unfold chosen_class, candidates. rewrite find_hd_filter.
  destruct (filter _ _); reflexivity.
Qed.

Lemma candidates_perm : forall t t' c, Permutation t t' -> Permutation (candidates t c) (candidates t' c).
Proof. intros. unfold candidates, exceptions_set. apply filter_perm, filter_perm. assumption. Qed.

(* the class does not depend on the order in which the set is iterated *)
Theorem chosen_perm_invariant : forall base t t' c,
  table_ok t = true -> Permutation t t' -> chosen_class base t' c = chosen_class base t c.
Proof.
  intros base t t' c Hok Hp. rewrite !chosen_by_candidates.
  rewrite <- (short_perm_eq _ _ _ (table_ok_sound t Hok c) (candidates_perm t t' c Hp)). reflexivity.
Qed.

Theorem from_error_perm_invariant : forall D base t t' (r : rerror D),
  table_ok t = true -> Permutation t t' -> from_error t' base r = from_error t base r.
Proof.
  intros D base t t' [c m d] Hok Hp. rewrite !from_error_chosen.
  rewrite (chosen_perm_invariant base t t' c Hok Hp). reflexivity.
Qed.

(* ... and it is the class the reference names *)
Theorem from_error_function_of_code : forall base t t' c,
  table_ok t = true -> Permutation t t' ->
  spec_class t base c = Some (chosen_class base t' c).
Proof.
  intros base t t' c Hok Hp. rewrite (chosen_perm_invariant base t t' c Hok Hp).
  unfold spec_class. rewrite <- candidates_spec. rewrite chosen_by_candidates.
  pose proof (table_ok_sound t Hok c) as Hlen.
  destruct (candidates t c) as [|a [|b l]]; cbn [length] in Hlen; try reflexivity; lia.
Qed.

Lemma chosen_registered : forall base t c e,
  table_ok t = true -> In e t -> e_reg e = true -> supports_code e c = true ->
  chosen_class base t c = e.
Proof.
  intros base t c e Hok Hin Hreg Hsup. rewrite chosen_by_candidates.
  assert (In e (candidates t c)) as C
    by (unfold candidates, exceptions_set; rewrite !filter_In; auto).
  rewrite (short_in_singleton _ _ e (table_ok_sound t Hok c) C). reflexivity.
Qed.

(* codes outside every registered entry go to the base class (no hypothesis on the table) *)
Theorem outside_is_base : forall base t c,
  (forall e, In e t -> e_reg e = true -> supports_code e c = false) ->
  chosen_class base t c = base.
Proof.
  intros base t c H. rewrite chosen_by_candidates. unfold candidates.
  rewrite filter_nil_forall; [reflexivity|].
  intros e He. unfold exceptions_set in He. apply filter_In in He. destruct He. apply H; assumption.
Qed.

Lemma chosen_cases : forall base t c,
  chosen_class base t c = base \/
  (In (chosen_class base t c) t /\ e_reg (chosen_class base t c) = true /\
   supports_code (chosen_class base t c) c = true).
Proof.
  intros. unfold chosen_class. destruct (find _ _) as [e|] eqn:F; [right|left; reflexivity].
  apply find_some in F. destruct F as [Hin Hs]. unfold exceptions_set in Hin.
  apply filter_In in Hin. tauto.
Qed.

(* ------------------------------------------------------------------------------------ *)
(* the range class                                                                       *)

Lemma str_eqb_eq : forall a b, str_eqb a b = true -> a = b.
Proof.
  induction a as [|x a IH]; destruct b as [|y b]; cbn [str_eqb]; intros H; try discriminate; [reflexivity|].
  apply andb_true_iff in H. destruct H as [H1 H2]. apply N.eqb_eq in H1. subst. f_equal. apply IH. exact H2.
Qed.

Lemma class_named_in : forall t n e, class_named t n = Some e -> In e t /\ e_name e = n.
Proof.
  induction t as [|a t IH]; intros n e H; cbn [class_named] in H; [discriminate|].
  destruct (str_eqb (e_name a) n) eqn:E.
  - injection H as <-. split; [left; reflexivity|apply str_eqb_eq; exact E].
  - destruct (IH n e H). split; [right|]; assumption.
Qed.

(* generic: a registered range entry gets its whole range *)
Lemma range_entry_whole : forall base t e lo hi c,
  table_ok t = true -> In e t -> e_reg e = true -> e_sup e = SRange lo hi -> lo <= c <= hi ->
  chosen_class base t c = e.
Proof.
  intros base t e lo hi c Hok Hin Hreg Hs Hc. apply chosen_registered; try assumption.
  unfold supports_code, in_range. rewrite Hs. lia.
Qed.

Theorem server_range_generic : forall base t t',
  table_ok t = true -> has_server_range base t = true -> Permutation t t' ->
  exists e, class_named t n_server_error = Some e /\ e_name e = n_server_error /\
    forall c, -32099 <= c <= -32000 -> chosen_class base t' c = e.
Proof.
  intros base t t' Hok Hr Hp. unfold has_server_range in Hr.
  apply andb_true_iff in Hr. destruct Hr as [Hr _]. apply andb_true_iff in Hr. destruct Hr as [Hr _].
  destruct (class_named t n_server_error) as [e|] eqn:E; [|discriminate].
  destruct (class_named_in _ _ _ E) as [Hin Hn].
  exists e. split; [reflexivity|]. split; [exact Hn|]. intros c Hc.
  rewrite (chosen_perm_invariant base t t' c Hok Hp).
  apply andb_true_iff in Hr. destruct Hr as [Hreg Hs]. unfold is_server_range_entry in Hs.
  destruct (e_sup e) as [|lo hi] eqn:Es; [discriminate|].
  apply (range_entry_whole base t e lo hi c); try assumption. lia.
Qed.

(* and nothing else: a code outside -32099..-32000 is never given to a class of that name *)
Theorem server_range_only : forall base t c,
  has_server_range base t = true ->
  named_server_error (chosen_class base t c) = true -> -32099 <= c <= -32000.
Proof.
  intros base t c Hr Hn. unfold has_server_range in Hr.
  apply andb_true_iff in Hr. destruct Hr as [Hr Hbase]. apply andb_true_iff in Hr. destruct Hr as [_ Hall].
  destruct (chosen_cases base t c) as [Hb|(Hin & Hreg & Hsup)].
  - rewrite Hb in Hn. rewrite Hn in Hbase. discriminate.
  - rewrite forallb_forall in Hall.
    assert (In (chosen_class base t c) (filter e_reg t)) as Hf by (apply filter_In; split; assumption).
    specialize (Hall _ Hf). rewrite Hn in Hall. cbn [negb orb] in Hall.
    unfold is_server_range_entry in Hall. unfold supports_code, in_range in Hsup.
    destruct (e_sup (chosen_class base t c)) as [|lo hi]; [discriminate|]. lia.
Qed.

Lemma str_eqb_refl : forall a, str_eqb a a = true.
Proof. induction a as [|x a IH]; cbn [str_eqb]; [reflexivity|]. rewrite N.eqb_refl. exact IH. Qed.

(* the pinned reference agrees with the table-relative one when the table passes the guards *)
Theorem spec_requester_chosen : forall base t t' c,
  table_ok t = true -> has_server_range base t = true -> Permutation t t' ->
  spec_requester t base c = Some (chosen_class base t' c).
Proof.
  intros base t t' c Hok Hr Hp. unfold spec_requester.
  rewrite (from_error_function_of_code base t t' c Hok Hp).
  destruct (named_server_error (chosen_class base t' c)) eqn:En.
  - rewrite (chosen_perm_invariant base t t' c Hok Hp) in En.
    pose proof (server_range_only base t c Hr En) as Hc.
    replace ((-32099 <=? c) && (c <=? -32000)) with true by lia. reflexivity.
  - destruct ((-32099 <=? c) && (c <=? -32000)) eqn:Ec; [|reflexivity].
    destruct (server_range_generic base t t' Hok Hr Hp) as (e & _ & Hn & Hall).
    rewrite (Hall c ltac:(lia)) in En. unfold named_server_error in En.
    rewrite Hn, str_eqb_refl in En. discriminate.
Qed.

(* ------------------------------------------------------------------------------------ *)
(* constructors: from_error never raises and keeps (code, message, data)                 *)

Lemma construct_keeps : forall D e m c (d : option D),
  ctor_ok e = true -> claims e c = true ->
  construct e (Some m) (Some c) d = COk (mkExc e c m d).
Proof.
  intros D e m c d Hk Hc. unfold construct, ctor_ok in *.
  destruct (e_ctor e) as [|lo hi]; [reflexivity|].
  unfold claims in Hc. unfold in_range.
  replace ((lo <=? c) && (c <=? hi)) with true by lia. reflexivity.
Qed.

Lemma construct_base_keeps : forall D e m c (d : option D),
  e_ctor e = CDefault -> construct e (Some m) (Some c) d = COk (mkExc e c m d).
Proof. intros D e m c d H. unfold construct. rewrite H. reflexivity. Qed.

Lemma ctors_ok_in : forall base t e, ctors_ok base t = true -> In e t -> e_reg e = true -> ctor_ok e = true.
Proof.
  intros base t e H Hin Hreg. unfold ctors_ok in H. apply andb_true_iff in H. destruct H as [_ H].
  rewrite forallb_forall in H. apply H. apply filter_In. split; assumption.
Qed.

(* requester side, any table that passes the guards, any iteration order *)
Theorem triple_preserved : forall D base t t' c m (d : option D),
  table_ok t = true -> ctors_ok base t = true -> e_ctor base = CDefault -> Permutation t t' ->
  from_error t' base (mkErr c m d) = COk (mkExc (chosen_class base t c) c m d) /\
  spec_class t base c = Some (chosen_class base t c).
Proof.
  intros D base t t' c m d Hok Hk Hb Hp. split.
  - rewrite (from_error_perm_invariant D base t t' _ Hok Hp). rewrite from_error_chosen.
    destruct (chosen_cases base t c) as [E|(Hin & Hreg & Hsup)].
    + rewrite E. apply construct_base_keeps. exact Hb.
    + apply construct_keeps.
      * eapply ctors_ok_in; eassumption.
      * rewrite <- supports_is_claims. exact Hsup.
  - apply (from_error_function_of_code base t t c Hok (Permutation_refl t)).
Qed.

(* identity: an instance of a registered class whose code the class answers for comes back
   as itself - class, code, message and data (the code being one ResponseError accepts) *)
Theorem error_roundtrip : forall D base t t' (x : exc D),
  table_ok t = true -> ctors_ok base t = true -> e_ctor base = CDefault -> Permutation t t' ->
  In (x_class x) t -> e_reg (x_class x) = true -> supports_code (x_class x) (x_code x) = true ->
  int32 (x_code x) = true ->
  exists r, to_response_error x = Some r /\ from_error t' base r = COk x.
Proof.
  intros D base t t' [e c m d] Hok Hk Hb Hp Hin Hreg Hsup H32. cbn [x_class x_code] in *.
  unfold to_response_error. cbn [x_code x_msg x_data]. rewrite H32.
  eexists. split; [reflexivity|].
  destruct (triple_preserved D base t t' c m d Hok Hk Hb Hp) as [H _]. rewrite H.
  rewrite (chosen_registered base t c e Hok Hin Hreg Hsup). reflexivity.
Qed.

(* a default-constructed instance (no code given) of a class with a CODE has a supported code *)
Lemma default_code_supported : forall D e m (d : option D) x,
  e_sup e = SInherited -> construct e m None d = COk x -> supports_code e (x_code x) = true.
Proof.
  intros D e m d x Hs H. unfold construct, base_init in H.
  destruct (e_ctor e); [|discriminate].
  destruct (match m with Some m0 => Some m0 | None => e_msg e end); [|discriminate].
  unfold supports_code. rewrite Hs.
  destruct (e_code e) as [k|]; [|discriminate]. injection H as <-. cbn [x_code]. lia.
Qed.

(* explicit arguments are kept by every constructor that accepts them, 0 and "" included *)
Lemma construct_explicit : forall D e m c (d : option D) x,
  construct e (Some m) (Some c) d = COk x -> x = mkExc e c m d.
Proof.
  intros D e m c d x H. unfold construct, base_init in H.
  destruct (e_ctor e) as [|lo hi].
  - injection H as <-. reflexivity.
  - destruct (in_range lo hi c); [|discriminate]. injection H as <-. reflexivity.
Qed.

(* ------------------------------------------------------------------------------------ *)
(* server side                                                                           *)

Lemma class_has_spec : forall t n code need e,
  class_has t n code need = true -> class_named t n = Some e ->
  e_ctor e = CDefault /\ e_code e = Some code /\ (need = true -> exists m, e_msg e = Some m).
Proof.
  intros t n code need e H E. unfold class_has in H. rewrite E in H.
  destruct (e_ctor e); [|discriminate]. destruct (e_code e) as [k|]; [|discriminate].
  apply andb_true_iff in H. destruct H as [Hk Hm]. apply Z.eqb_eq in Hk. subst k.
  split; [reflexivity|]. split; [reflexivity|]. intros ->.
  destruct (e_msg e) as [m|]; [exists m; reflexivity|discriminate].
Qed.

Lemma class_has_some : forall t n code need,
  class_has t n code need = true -> exists e, class_named t n = Some e.
Proof.
  intros t n code need H. unfold class_has in H.
  destruct (class_named t n) as [e|]; [exists e; reflexivity|discriminate].
Qed.

Lemma internal_error_of_code : forall D t text (tb : D),
  class_has t n_internal (-32603) false = true ->
  exists e, internal_error_of t text tb = SReply (RError (mkErr (-32603) text (Some tb))) /\
            class_named t n_internal = Some e.
Proof.
  intros D t text tb H. destruct (class_has_some _ _ _ _ H) as [e E].
  destruct (class_has_spec _ _ _ _ e H E) as (Hc & Hk & _).
  exists e. split; [|exact E]. unfold internal_error_of, with_class. rewrite E.
  unfold construct. rewrite Hc. unfold base_init. rewrite Hk. reflexivity.
Qed.

Definition own_code_ok {D} (x : expect D) : Prop := forall c m d, x = EOwn c m d -> int32 c = true.

Lemma reply_of_outcome_meets : forall D t (o : houtcome D),
  class_has t n_internal (-32603) false = true ->
  own_code_ok (spec_handler HSync false o) ->
  meets (reply_of_outcome t o) (spec_handler HSync false o).
Proof.
  intros D t o H G. destruct o as [| |x|text tb]; cbn [reply_of_outcome spec_handler andb is_sync negb meets].
  - exact I.
  - destruct (class_has_some _ _ _ _ H) as [e E].
    destruct (class_has_spec _ _ _ _ e H E) as (Hc & Hk & _).
    unfold with_class. rewrite E. unfold construct. rewrite Hc. unfold base_init. rewrite Hk.
    reflexivity.
  - unfold send_error, to_response_error.
    rewrite (G _ _ _ eq_refl). cbn [meets]. reflexivity.
  - destruct (internal_error_of_code D t text tb H) as (e & -> & _). cbn [meets r_code r_msg]. split; reflexivity.
Qed.

Lemma spec_handler_not_cancelled : forall D k (o : houtcome D),
  spec_handler k false o = spec_handler HSync false o.
Proof. intros. unfold spec_handler. destruct k; reflexivity. Qed.

Lemma cancelled_reply : forall D t idtxt (o : houtcome D),
  class_has t n_cancelled (-32800) false = true ->
  exists m, execute_request_callback t idtxt true o = SReply (RError (mkErr (-32800) m None)).
Proof.
  intros D t idtxt o H. destruct (class_has_some _ _ _ _ H) as [e E].
  destruct (class_has_spec _ _ _ _ e H E) as (Hc & Hk & _).
  unfold execute_request_callback, with_class. rewrite E.
  unfold construct. rewrite Hc. unfold base_init. rewrite Hk. eexists. reflexivity.
Qed.

Lemma execute_request_meets : forall D t idtxt k cancelled (o : houtcome D),
  server_classes_ok t = true -> own_code_ok (spec_handler k cancelled o) ->
  meets (execute_request t idtxt k cancelled o) (spec_handler k cancelled o).
Proof.
  intros D t idtxt k cancelled o H G. unfold server_classes_ok in H.
  repeat (apply andb_true_iff in H; destruct H as [H ?]).
  destruct k; cbn [execute_request].
  - (* sync: nothing to cancel *)
    replace (spec_handler HSync cancelled o) with (spec_handler HSync false o) in *
      by (destruct cancelled; reflexivity).
    apply reply_of_outcome_meets; assumption.
  - destruct cancelled.
    + destruct (cancelled_reply D t idtxt o) as [m ->]; [assumption|].
      cbn [spec_handler andb is_sync negb meets r_code]. reflexivity.
    + cbn [execute_request_callback]. rewrite spec_handler_not_cancelled in *.
      apply reply_of_outcome_meets; assumption.
  - destruct cancelled.
    + destruct (cancelled_reply D t idtxt o) as [m ->]; [assumption|].
      cbn [spec_handler andb is_sync negb meets r_code]. reflexivity.
    + cbn [execute_request_callback]. rewrite spec_handler_not_cancelled in *.
      apply reply_of_outcome_meets; assumption.
Qed.

Lemma guard_own_code_ok : forall D (q : request D) x,
  spec_server q = Some x -> server_guard q = true -> own_code_ok x.
Proof.
  intros D q x S G c m d ->. unfold server_guard in G. rewrite S in G. exact G.
Qed.

(* every request the statement speaks of is answered as the reference says, for any table that
   has the four classes json_rpc.py raises itself with the codes of the specification *)
Theorem server_side_generic : forall D t (q : request D) x,
  server_classes_ok t = true -> spec_server q = Some x -> server_guard q = true ->
  meets (server_reply t q) x.
Proof.
  intros D t q x H S G. pose proof (guard_own_code_ok D q x S G) as Gx. clear G.
  pose proof H as H0. unfold server_classes_ok in H.
  repeat (apply andb_true_iff in H; destruct H as [H ?]).
  unfold spec_server in S. unfold server_reply.
  destruct (q_params q); cbn [structure_request].
  - (* POk *)
    unfold handle_request. destruct (q_target q) as [|k|k|text tb]; injection S as <-.
    + (* unknown method *)
      match goal with Hm : class_has t n_method_not_found _ _ = true |- _ =>
        destruct (class_has_some _ _ _ _ Hm) as [e E];
        destruct (class_has_spec _ _ _ _ e Hm E) as (Hc & Hk & Hmsg) end.
      destruct (Hmsg eq_refl) as [m Em].
      unfold method_not_found_of, with_class. rewrite E, Em.
      unfold construct. rewrite Hc. unfold base_init. rewrite Hk. reflexivity.
    + apply execute_request_meets; assumption.
    + apply execute_request_meets; assumption.
    + destruct (internal_error_of_code D t text tb) as (e & -> & _); [assumption|].
      cbn [meets r_code r_msg]. split; reflexivity.
  - (* undecodable params *)
    injection S as <-.
    match goal with Hm : class_has t n_invalid_params _ _ = true |- _ =>
      destruct (class_has_some _ _ _ _ Hm) as [e E];
      destruct (class_has_spec _ _ _ _ e Hm E) as (Hc & Hk & Hmsg) end.
    destruct (Hmsg eq_refl) as [m Em].
    unfold with_class. rewrite E. unfold construct. rewrite Hc. unfold base_init.
    rewrite Hk, Em. reflexivity.
  - discriminate.
Qed.

(* ------------------------------------------------------------------------------------ *)
(* sessions: several requests on one connection                                           *)

Lemma session_fold : forall D t (qs : list (request D)) acc,
  fold_left (session_step t) qs acc = acc ++ map (server_reply t) qs.
Proof.
  induction qs as [|q qs IH]; intros acc; cbn [fold_left map]; [rewrite app_nil_r; reflexivity|].
  rewrite IH. unfold session_step. rewrite <- app_assoc. reflexivity.
Qed.

(* the i-th reply of a session is the reply to the i-th request alone, whatever came before *)
Theorem session_replies_map : forall D t (qs : list (request D)),
  session_replies t qs = map (server_reply t) qs.
Proof. intros. unfold session_replies. rewrite session_fold. reflexivity. Qed.

Theorem session_meets : forall D t (qs : list (request D)),
  server_classes_ok t = true -> Forall (fun q => server_guard q = true) qs ->
  Forall2 (fun r q => exists x, spec_server q = Some x /\ meets r x) (session_replies t qs) qs.
Proof.
  intros D t qs Hs HG. rewrite session_replies_map.
  induction HG as [|q qs Hq HG IH]; cbn [map]; constructor; [|exact IH].
  unfold server_guard in Hq. destruct (spec_server q) as [x|] eqn:E; [|discriminate].
  exists x. split; [reflexivity|]. apply server_side_generic; try assumption.
  unfold server_guard. rewrite E. exact Hq.
Qed.

(* ------------------------------------------------------------------------------------ *)
(* the regenerated table passes the guards (re-checked on every run)                     *)

Theorem table_ok_current : table_ok current_table = true.
Proof. vm_compute. reflexivity. Qed.

Theorem ctors_ok_current : ctors_ok base_entry current_table = true /\ e_ctor base_entry = CDefault.
Proof. split; vm_compute; reflexivity. Qed.

Theorem has_server_range_current : has_server_range base_entry current_table = true.
Proof. vm_compute. reflexivity. Qed.

Theorem server_classes_ok_current : server_classes_ok current_table = true.
Proof. vm_compute. reflexivity. Qed.
