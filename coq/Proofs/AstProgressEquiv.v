(* The translated source of pygls/progress.py (Gen/AstProgress.v, regenerated from the source text by
   harness/gen_ast.py on every run): every method of class Progress - _check_token_registered,
   _register_token, create (with its nested on_created, lambda-lifted), create_async (up to its await,
   and the continuation after it), begin, report, end - does, under the PyMini semantics, to the token
   table exactly what Model/Progress.v / Model/Outgoing.v say (`registered`, `register_token`), raises
   when they say so, and makes exactly the calls on the protocol object (and on the user callback) that
   the model's send_request / notify_progress / run_callbacks stand for, in that order.  Calls that leave
   the translated code are not executed but RECORDED in the ghost attribute "$log" of self. *)
From Coq Require Import ZArith NArith List Bool String Ascii Lia ZifyBool ZifyN ZifyNat.
From Pygls Require Import Base.PyMini Base.PyMiniFacts Gen.AstProgress Model.Progress.
Import ListNotations.
Open Scope string_scope.
Open Scope Z_scope.

(* ---------- how Python values stand for the model's data ---------- *)

(* a progress token / message id: a JSON int, a JSON string, or (never a token) the n-th uuid string *)
Definition id_val (i : id) : val :=
  match i with
  | IInt z => VInt z
  | IStr s => VStr s
  | IUuid n => VTuple [VStr [117; 117; 105; 100]%N; VInt (Z.of_N n)]
  | INull => VNone                                                      (* never a token *)
  | IOdd n => VTuple [VStr [111; 100; 100]%N; VInt (Z.of_N n)]          (* never a token *)
  end.

Definition fut_val : val := VObj "Future" [].      (* a cancellation future; which one is not visible here *)

Definition tokens_items (l : list (id * nat)) : list val :=
  map (fun th => VTuple [id_val (fst th); fut_val]) l.

(* a Progress object: the protocol object (any value), Progress.tokens, and the log of recorded calls *)
Definition progress_val (lsp : val) (toks : list (id * nat)) (log : list val) : val :=
  VObj "Progress" [("_lsp", lsp); ("tokens", mk_dict (tokens_items toks)); ("$log", VList log)].

Definition result_val (log : list val) : val := VObj "Result" [("n", VInt (Z.of_N (len log)))].

(* the recorded calls *)
Definition notify_entry (tok : id) (value : val) : val :=
  VTuple [VGlobal ["_lsp"; "notify"];
          VList [VStr s_progress; VObj "ProgressParams" [("token", id_val tok); ("value", value)]];
          VList []; VBool false].
Definition create_params (tok : id) : val := VObj "WorkDoneProgressCreateParams" [("token", id_val tok)].
Definition send_request_entry (tok : id) (callback : val) : val :=
  VTuple [VGlobal ["_lsp"; "send_request"];
          VList [VStr s_progress_create; create_params tok; callback]; VList []; VBool false].
Definition send_request_async_entry (tok : id) : val :=
  VTuple [VGlobal ["_lsp"; "send_request_async"];
          VList [VStr s_progress_create; create_params tok]; VList []; VBool true].
Definition callback_entry (cb args kwargs : val) : val := VTuple [VGlobal ["call"]; cb; args; kwargs].
(* the function object `on_created` that create() hands to send_request *)
Definition on_created_val (selfv : val) (tok : id) (cb : val) : val :=
  VObj "closure" [("$fn", VGlobal ["Progress"; "create"; "on_created"]); ("self", selfv);
                  ("token", id_val tok); ("callback", cb)].

Notation q_check := ["Progress"; "_check_token_registered"] (only parsing).
Notation q_register := ["Progress"; "_register_token"] (only parsing).
Notation q_create := ["Progress"; "create"] (only parsing).
Notation q_on_created := ["Progress"; "create"; "on_created"] (only parsing).
Notation q_create_async := ["Progress"; "create_async"] (only parsing).
Notation q_resume := ["Progress"; "create_async"; "$resume"] (only parsing).
Notation q_begin := ["Progress"; "begin"] (only parsing).
Notation q_report := ["Progress"; "report"] (only parsing).
Notation q_end := ["Progress"; "end"] (only parsing).

(* ---------- the dict of tokens is the model's association list ---------- *)

Lemma id_val_eq a b : py_eq (id_val a) (id_val b) = id_eqb a b.
Proof.
  destruct a, b; cbn [id_val py_eq id_eqb]; try reflexivity.
  all: cbn; rewrite andb_true_r; destruct (N.eqb_spec n n0); lia.
Qed.

Lemma dict_get_tokens tok l :
  dict_get (id_val tok) (tokens_items l) = match aget id_eqb tok l with Some _ => Some fut_val | None => None end.
Proof.
  induction l as [|[t h] r IH]; [reflexivity|]. cbn [tokens_items map dict_get aget fst].
  rewrite id_val_eq. destruct (id_eqb t tok); [reflexivity | exact IH].
Qed.

Lemma dict_mem_tokens tok l : dict_mem (id_val tok) (tokens_items l) = amem id_eqb tok l.
Proof. unfold dict_mem, amem. rewrite dict_get_tokens. destruct (aget id_eqb tok l); reflexivity. Qed.

Lemma dict_upd_tokens tok h l :
  dict_upd (id_val tok) fut_val (tokens_items l) = tokens_items (aupd id_eqb tok (fun _ => h) l).
Proof.
  induction l as [|[t h'] r IH]; [reflexivity|]. cbn [tokens_items map dict_upd aupd fst].
  rewrite id_val_eq. fold (tokens_items r). fold (tokens_items (aupd id_eqb tok (fun _ => h) r)).
  rewrite IH. destruct (id_eqb t tok); reflexivity.
Qed.

Lemma dict_set_tokens tok h l :
  dict_set (id_val tok) fut_val (tokens_items l) = tokens_items (aset id_eqb tok h l).
Proof.
  unfold dict_set, aset. rewrite dict_mem_tokens. destruct (amem id_eqb tok l).
  - apply dict_upd_tokens.
  - unfold tokens_items. rewrite map_app. reflexivity.
Qed.

(* Progress._register_token on the model's state, as far as Progress.tokens shows it *)
Lemma tokens_register s tok :
  tokens_items (tokens (register_token s tok)) = dict_set (id_val tok) fut_val (tokens_items (tokens s)).
Proof. unfold register_token, set_tokens. cbn [tokens]. symmetry. apply dict_set_tokens. Qed.

(* ---------- what a `call` environment must provide ---------- *)

Definition spec_check (call : callT) : Prop := forall lsp s log tok,
  call q_check (Some (progress_val lsp (tokens s) log)) [id_val tok] [] =
  if registered s tok then Raise ExcOther else Ok (progress_val lsp (tokens s) log).

Definition spec_register (call : callT) : Prop := forall lsp s log tok,
  call q_register (Some (progress_val lsp (tokens s) log)) [id_val tok] [] =
  Ok (progress_val lsp (tokens (register_token s tok)) log).

(* ---------- _check_token_registered, _register_token ---------- *)

Lemma check_ok_gen call f lsp s log tok :
  run_fun call f f_check_token_registered (Some (progress_val lsp (tokens s) log)) [id_val tok] [] =
  if registered s tok then Raise ExcOther else Ok (progress_val lsp (tokens s) log).
Proof.
  unfold run_fun, f_check_token_registered, progress_val, registered. pysimp.
  rewrite dict_mem_tokens. destruct (amem id_eqb tok (tokens s)); reflexivity.
Qed.

Lemma register_ok_gen call f lsp s log tok :
  run_fun call f f_register_token (Some (progress_val lsp (tokens s) log)) [id_val tok] [] =
  Ok (progress_val lsp (tokens (register_token s tok)) log).
Proof.
  unfold run_fun, f_register_token, progress_val. pysimp. rewrite tokens_register. reflexivity.
Qed.

(* ---------- begin, report, end ---------- *)

Lemma begin_ok_gen call f lsp s log tok value :
  run_fun call f f_begin (Some (progress_val lsp (tokens s) log)) [id_val tok; value] [] =
  Ok (VTuple [result_val log;
              progress_val lsp (tokens (if registered s tok then s else register_token s tok))
                           (log ++ [notify_entry tok value])]).
Proof.
  unfold run_fun, f_begin, progress_val, registered, result_val, notify_entry. pysimp.
  rewrite dict_mem_tokens. destruct (amem id_eqb tok (tokens s)); [reflexivity|].
  rewrite tokens_register. reflexivity.
Qed.

Lemma report_ok_gen call f lsp s log tok value :
  run_fun call f f_report (Some (progress_val lsp (tokens s) log)) [id_val tok; value] [] =
  Ok (progress_val lsp (tokens s) (log ++ [notify_entry tok value])).
Proof. unfold run_fun, f_report, progress_val, notify_entry. pysimp. reflexivity. Qed.

Lemma end_ok_gen call f lsp s log tok value :
  run_fun call f f_end (Some (progress_val lsp (tokens s) log)) [id_val tok; value] [] =
  Ok (progress_val lsp (tokens s) (log ++ [notify_entry tok value])).
Proof. unfold run_fun, f_end, progress_val, notify_entry. pysimp. reflexivity. Qed.

(* ---------- create and its callback ---------- *)

Lemma create_ok_gen call f : spec_check call -> forall lsp s log tok cb,
  run_fun call f f_create (Some (progress_val lsp (tokens s) log)) [id_val tok; cb] [] =
  if registered s tok then Raise ExcOther
  else Ok (VTuple [result_val log;
                   progress_val lsp (tokens s)
                     (log ++ [send_request_entry tok
                                (on_created_val (progress_val lsp (tokens s) log) tok cb)])]).
Proof.
  intros Hc lsp s log tok cb. unfold spec_check, progress_val in Hc.
  unfold run_fun, f_create, progress_val. pybind. pystep. rewrite Hc.
  destruct (registered s tok); [reflexivity|]. cbv beta iota. pysimp. reflexivity.
Qed.

Lemma on_created_ok_gen call f : spec_register call -> forall lsp s log tok cb args kwargs,
  run_fun call f f_create_on_created (Some (progress_val lsp (tokens s) log)) [id_val tok; cb; args; kwargs] [] =
  Ok (progress_val lsp (tokens (register_token s tok))
                   (log ++ (if is_none cb then [] else [callback_entry cb args kwargs]))).
Proof.
  intros Hr lsp s log tok cb args kwargs. unfold spec_register, progress_val in Hr.
  unfold run_fun, f_create_on_created, progress_val. pybind. pystep. rewrite Hr. cbv beta iota.
  pysimp. destruct cb; cbn [is_none]; pysimp; rewrite ?app_nil_r; reflexivity.
Qed.

(* ---------- create_async: up to the await, and after it ---------- *)

Lemma create_async_ok_gen call f : spec_check call -> forall lsp s log tok,
  run_fun call f f_create_async (Some (progress_val lsp (tokens s) log)) [id_val tok] [] =
  if registered s tok then Raise ExcOther
  else Ok (VTuple [VObj "Suspended" [("on", result_val log)];
                   progress_val lsp (tokens s) (log ++ [send_request_async_entry tok])]).
Proof.
  intros Hc lsp s log tok. unfold spec_check, progress_val in Hc.
  unfold run_fun, f_create_async, progress_val. pybind. pystep. rewrite Hc.
  destruct (registered s tok); [reflexivity|]. cbv beta iota. pysimp. reflexivity.
Qed.

Lemma resume_ok_gen call f : spec_register call -> forall lsp s log tok result,
  run_fun call f f_create_async_resume (Some (progress_val lsp (tokens s) log)) [id_val tok; result] [] =
  Ok (VTuple [result; progress_val lsp (tokens (register_token s tok)) log]).
Proof.
  intros Hr lsp s log tok result. unfold spec_register, progress_val in Hr.
  unfold run_fun, f_create_async_resume, progress_val. pybind. pystep. rewrite Hr. cbv beta iota.
  pysimp. reflexivity.
Qed.

(* ------------------------------------------------------------------------------------ *)
(* The theorems.  `run prog fuel depth q (Some progress) args`; no loops, any fuel.       *)

Lemma check_ok f d : spec_check (mk_call prog f (S d)).
Proof. intros lsp s log tok. enter f_check_token_registered. apply check_ok_gen. Qed.

Lemma register_ok f d : spec_register (mk_call prog f (S d)).
Proof. intros lsp s log tok. enter f_register_token. apply register_ok_gen. Qed.

Definition ast_progress_equiv_statement : Prop :=
  (* _check_token_registered, _register_token *)
  (forall f d lsp s log tok,
     PyMini.run prog f (S d) q_check (Some (progress_val lsp (tokens s) log)) [id_val tok] =
     if registered s tok then Raise ExcOther else Ok (progress_val lsp (tokens s) log)) /\
  (forall f d lsp s log tok,
     PyMini.run prog f (S d) q_register (Some (progress_val lsp (tokens s) log)) [id_val tok] =
     Ok (progress_val lsp (tokens (register_token s tok)) log)) /\
  (* create(token, callback): refused, or ONE send_request with the closure on_created *)
  (forall f d lsp s log tok cb,
     PyMini.run prog f (S (S d)) q_create (Some (progress_val lsp (tokens s) log)) [id_val tok; cb] =
     if registered s tok then Raise ExcOther
     else Ok (VTuple [result_val log;
                      progress_val lsp (tokens s)
                        (log ++ [send_request_entry tok (on_created_val (progress_val lsp (tokens s) log) tok cb)])])) /\
  (* on_created( *args, **kwargs ), whenever it is called: registers, then the user callback if there is one *)
  (forall f d lsp s log tok cb args kwargs,
     PyMini.run prog f (S (S d)) q_on_created (Some (progress_val lsp (tokens s) log)) [id_val tok; cb; args; kwargs] =
     Ok (progress_val lsp (tokens (register_token s tok))
                      (log ++ (if is_none cb then [] else [callback_entry cb args kwargs])))) /\
  (* create_async(token) up to its await: refused, or ONE awaited send_request_async; nothing registered yet *)
  (forall f d lsp s log tok,
     PyMini.run prog f (S (S d)) q_create_async (Some (progress_val lsp (tokens s) log)) [id_val tok] =
     if registered s tok then Raise ExcOther
     else Ok (VTuple [VObj "Suspended" [("on", result_val log)];
                      progress_val lsp (tokens s) (log ++ [send_request_async_entry tok])])) /\
  (* ... and when the await returns `result`: registers, returns result *)
  (forall f d lsp s log tok result,
     PyMini.run prog f (S (S d)) q_resume (Some (progress_val lsp (tokens s) log)) [id_val tok; result] =
     Ok (VTuple [result; progress_val lsp (tokens (register_token s tok)) log])) /\
  (* begin / report / end *)
  (forall f d lsp s log tok value,
     PyMini.run prog f (S d) q_begin (Some (progress_val lsp (tokens s) log)) [id_val tok; value] =
     Ok (VTuple [result_val log;
                 progress_val lsp (tokens (if registered s tok then s else register_token s tok))
                              (log ++ [notify_entry tok value])])) /\
  (forall f d lsp s log tok value,
     PyMini.run prog f (S d) q_report (Some (progress_val lsp (tokens s) log)) [id_val tok; value] =
     Ok (progress_val lsp (tokens s) (log ++ [notify_entry tok value]))) /\
  (forall f d lsp s log tok value,
     PyMini.run prog f (S d) q_end (Some (progress_val lsp (tokens s) log)) [id_val tok; value] =
     Ok (progress_val lsp (tokens s) (log ++ [notify_entry tok value]))).

Theorem ast_progress_equiv : ast_progress_equiv_statement.
Proof.
  unfold ast_progress_equiv_statement. repeat match goal with |- _ /\ _ => split end; intros; unfold PyMini.run.
  - apply check_ok.
  - apply register_ok.
  - enter f_create. apply create_ok_gen, check_ok.
  - enter f_create_on_created. apply on_created_ok_gen, register_ok.
  - enter f_create_async. apply create_async_ok_gen, check_ok.
  - enter f_create_async_resume. apply resume_ok_gen, register_ok.
  - enter f_begin. apply begin_ok_gen.
  - enter f_report. apply report_ok_gen.
  - enter f_end. apply end_ok_gen.
Qed.

(* ---------- the same events in the hand model (Model/Progress.v: pstep) ---------- *)
(* the guard, the token table afterwards and what is written are those of the translated methods: one  *)
(* recorded notify = one WProgress, one recorded send_request(_async) = one WReq carrying the token,    *)
(* a refusal = the exception.                                                                          *)

Theorem ast_progress_model_link s tok v ucb :
  (* begin *)
  tokens (pstep s (PBegin tok v)) = tokens (if registered s tok then s else register_token s tok) /\
  out (pstep s (PBegin tok v)) = (out s ++ [WProgress tok 0 v])%list /\
  (* report, end *)
  tokens (pstep s (PReport tok v)) = tokens s /\ out (pstep s (PReport tok v)) = (out s ++ [WProgress tok 1 v])%list /\
  tokens (pstep s (PEnd tok v)) = tokens s /\ out (pstep s (PEnd tok v)) = (out s ++ [WProgress tok 2 v])%list /\
  (* create, create_async up to the await *)
  pstep s (PCreate tok ucb) =
    (if registered s tok then refuse s else send_request s CREATE_M CREATE_RT (CbCreate tok ucb) None WNone) /\
  pstep s (PCreateAsync tok) =
    (if registered s tok then refuse s else send_request s CREATE_M CREATE_RT CbNone None (WCreate tok)) /\
  tokens (pstep s (PCreate tok ucb)) = tokens s /\ tokens (pstep s (PCreateAsync tok)) = tokens s /\
  (registered s tok = false ->
     out (pstep s (PCreate tok ucb)) = (out s ++ [WReq (IUuid (next s)) CREATE_M (Some tok)])%list /\
     out (pstep s (PCreateAsync tok)) = (out s ++ [WReq (IUuid (next s)) CREATE_M (Some tok)])%list) /\
  (* the done-callback on_created (run_callbacks, CbCreate) registers the token *)
  (forall k o, ost o = Resolved CREATE_RT 0%N -> ocb o = CbCreate tok ucb ->
     tokens (run_callbacks s k o) = tokens (register_token s tok)).
Proof.
  repeat match goal with |- _ /\ _ => split end; try reflexivity.
  all: try (cbn [pstep]; destruct (registered s tok); reflexivity).
  - intros H. cbn [pstep]. rewrite H. split; reflexivity.
  - intros k o Ho Hc. unfold run_callbacks. rewrite Ho, Hc. destruct ucb; reflexivity.
Qed.

(* non-vacuity: begin on a fresh token registers it and records one notify; create on a registered token raises *)
Example ast_progress_example :
  let s1 := register_token init (IInt 7) in
  PyMini.run prog 0 1 q_begin (Some (progress_val VNone (tokens init) [])) [id_val (IStr [116%N]); VInt 5] =
    Ok (VTuple [result_val [];
                progress_val VNone (tokens (register_token init (IStr [116%N]))) [notify_entry (IStr [116%N]) (VInt 5)]]) /\
  PyMini.run prog 0 2 q_create (Some (progress_val VNone (tokens s1) [])) [id_val (IInt 7); VNone] = Raise ExcOther /\
  PyMini.run prog 0 2 q_create (Some (progress_val VNone (tokens s1) [])) [id_val (IStr [55%N]); VNone] <> Raise ExcOther.
Proof. cbv zeta. repeat split; try (vm_compute; reflexivity). vm_compute. discriminate. Qed.
