(* Proofs/LinkEndpointOutgoing.v - the LINK between the two models of the endpoint.

   Model/Endpoint.v (+ EndpointX.v: the incoming side, with a minimal outgoing fragment) and
   Model/Outgoing.v (the outgoing side in detail, with the incoming direction reduced to what it
   does to the two shared tables) describe the same code.  Here:

     proj_ev c s e  the Outgoing events that one Endpoint(X) event amounts to in the Endpoint state s
                  it meets (a function of the state: whether a response is dispatched depends on
                  the shutdown flag, whose callback a cancelled pool job runs depends on the job);
     Rel s t      the table observables agree: `_result_types` and `_request_futures` are the same
                  association lists (same keys in the same order; FTask / FJob entries are FIn),
                  and the futures handed to send_request callers are in the same state
                  (pending / cancelled / done: Endpoint.v does not distinguish resolved from failed);
     link_run     for EVERY configuration and EVERY event list (no hypothesis):
                  Rel (runx c evs) (Outgoing.run (project c evs)).
     C16_composed the two halves of C16 compose.

   What Endpoint.v abstracts away of the outgoing side (and the projection therefore fixes):
   method and result type (projected: method 0, generic result type 0), payloads and their
   validation against the result type (projected: a dispatched result validates, a result frame
   that is not dispatched - PBad / PFail / wrong version / after shutdown - is a RecvResult that
   does not validate: both only pop `_result_types`), error code / message / data (projected: 0 /
   "" / none; a not dispatched error frame is a RecvError whose code does not structure),
   user callbacks (none), uuid ids (Endpoint's UserSend always names its id), hook calls. *)
From Coq Require Import ZArith NArith List Bool Lia Arith.
From Pygls Require Import Base.Assoc Base.AssocFacts Base.AssocOut.
From Pygls Require Model.Endpoint Model.EndpointX Model.Outgoing.
From Pygls Require Import Spec.EndpointSpec Proofs.EndpointInv Proofs.EndpointFuts Proofs.EndpointXProofs Proofs.C16Proofs.
From Pygls Require Spec.OutgoingSpec Proofs.OutgoingProofs.
Import ListNotations.

Module E := Endpoint.
Module X := EndpointX.
Module O := Outgoing.
Module OS := OutgoingSpec.
Module OP := OutgoingProofs.

(* ------------------------------------------------------------------ ids and entries *)
Definition emb (i : E.id) : O.id := match i with E.IInt z => O.IInt z | E.IStr s => O.IStr s end.

Lemma str_eqb_same a : forall b, O.str_eqb a b = E.str_eqb a b.
Proof. intros b. reflexivity. Qed.

Lemma emb_eqb a b : O.id_eqb (emb a) (emb b) = E.id_eqb a b.
Proof. destruct a, b; reflexivity. Qed.

Lemma emb_inj a b : emb a = emb b -> a = b.
Proof. destruct a, b; cbn; intros H; try discriminate; injection H as ->; reflexivity. Qed.

Lemma E_eqb_sym a b : E.id_eqb a b = E.id_eqb b a.
Proof.
  destruct (E.id_eqb a b) eqn:H.
  - apply id_eqb_spec in H. subst. symmetry. apply id_eqb_spec. reflexivity.
  - destruct (E.id_eqb b a) eqn:G; [|reflexivity]. apply id_eqb_spec in G. subst.
    rewrite id_eqb_refl in H. discriminate.
Qed.

(* ------------------------------------------------------------------ Assoc (Endpoint) vs AssocOut (Outgoing) *)
Section Bridge.
  Context {V W : Type}.
  Variable h : V -> W.
  Definition gmap (l : list (E.id * V)) : list (O.id * W) := map (fun kv => (emb (fst kv), h (snd kv))) l.

  Lemma aget_gmap i (l : list (E.id * V)) : aget O.id_eqb (emb i) (gmap l) = option_map h (Assoc.get E.id_eqb i l).
  Proof.
    induction l as [|[k v] r IH]; cbn [gmap map aget Assoc.get fst snd option_map]; [reflexivity|].
    rewrite emb_eqb, (E_eqb_sym k i). destruct (E.id_eqb i k); [reflexivity|exact IH].
  Qed.

  Lemma amem_gmap i (l : list (E.id * V)) : amem O.id_eqb (emb i) (gmap l) = Assoc.mem E.id_eqb i l.
  Proof. unfold amem, Assoc.mem. rewrite aget_gmap. destruct (Assoc.get E.id_eqb i l); reflexivity. Qed.

  Lemma notin_get i (l : list (E.id * V)) : ~ In i (keys l) -> Assoc.get E.id_eqb i l = None.
  Proof. apply (get_none_notin E.id_eqb id_eqb_spec). Qed.

  Lemma adel_gmap_notin i (l : list (E.id * V)) : ~ In i (keys l) -> adel O.id_eqb (emb i) (gmap l) = gmap l.
  Proof.
    intros H. apply adel_none. rewrite aget_gmap, (notin_get i l H). reflexivity.
  Qed.

  Lemma aupd_gmap_notin i f (l : list (E.id * V)) : ~ In i (keys l) -> aupd O.id_eqb (emb i) f (gmap l) = gmap l.
  Proof.
    induction l as [|[k v] r IH]; intros H; cbn [gmap map aupd fst snd]; [reflexivity|].
    cbn [keys map fst In] in H. rewrite emb_eqb.
    destruct (E.id_eqb k i) eqn:Q; [apply id_eqb_spec in Q; subst; exfalso; apply H; left; reflexivity|].
    f_equal. apply IH. intros G. apply H. right. exact G.
  Qed.

  Lemma gmap_remove i (l : list (E.id * V)) : NoDup (keys l) -> gmap (Assoc.remove E.id_eqb i l) = adel O.id_eqb (emb i) (gmap l).
  Proof.
    induction l as [|[k v] r IH]; intros ND; cbn [gmap map adel Assoc.remove fst snd]; [reflexivity|].
    cbn [keys map fst] in ND. inversion ND as [|? ? Hn ND']; subst.
    rewrite emb_eqb, (E_eqb_sym k i). destruct (E.id_eqb i k) eqn:Q.
    - apply id_eqb_spec in Q. subst k. symmetry. apply adel_gmap_notin. exact Hn.
    - cbn [map fst snd]. f_equal. apply IH, ND'.
  Qed.

  Lemma gmap_set i v (l : list (E.id * V)) :
    NoDup (keys l) -> gmap (Assoc.set E.id_eqb i v l) = aset O.id_eqb (emb i) (h v) (gmap l).
  Proof.
    unfold aset. induction l as [|[k v'] r IH]; intros ND; [reflexivity|].
    cbn [keys map fst] in ND. inversion ND as [|? ? Hn ND']; subst.
    cbn [Assoc.set]. destruct (E.id_eqb i k) eqn:Q.
    - apply id_eqb_spec in Q. subst k. unfold amem. cbn [gmap map aget fst snd].
      rewrite emb_eqb, (proj2 (id_eqb_spec i i) eq_refl). cbn [aupd]. rewrite emb_eqb, (proj2 (id_eqb_spec i i) eq_refl).
      f_equal. symmetry. apply aupd_gmap_notin, Hn.
    - specialize (IH ND'). unfold amem in *. cbn [gmap map aget fst snd].
      rewrite emb_eqb, (E_eqb_sym k i), Q. fold (gmap r). fold (gmap (Assoc.set E.id_eqb i v r)).
      rewrite IH. destruct (aget O.id_eqb (emb i) (gmap r)).
      + cbn [aupd]. rewrite emb_eqb, (E_eqb_sym k i), Q. reflexivity.
      + reflexivity.
  Qed.
End Bridge.

(* ------------------------------------------------------------------ the table observables *)
Definition absf (r : E.fref) : O.fref := match r with E.FOut o => O.FOut o | _ => O.FIn end.
Definition abss (f : O.fstate) : E.ostate :=
  match f with O.Pending => E.OPending | O.Cancelled => E.OCancelled | _ => E.ODone end.
Definition ostates (t : O.st) : list E.ostate := map (fun ko => abss (O.ost (snd ko))) (O.ofuts t).

(* what of an Endpoint state the link speaks of *)
Definition tabs (s : E.st) : list (E.id * unit) * list (E.id * E.fref) * list E.ostate :=
  (E.rtypes s, E.futs s, E.outg s).

Record RelT (x : list (E.id * unit) * list (E.id * E.fref) * list E.ostate) (t : O.st) : Prop := {
  r_ndr : NoDup (keys (fst (fst x)));
  r_ndf : NoDup (keys (snd (fst x)));
  r_rt : O.rtypes t = gmap (fun _ => 0%N) (fst (fst x));
  r_fu : O.futs t = gmap absf (snd (fst x));
  r_og : ostates t = snd x;
  r_hd : map fst (O.ofuts t) = seq 0 (length (O.ofuts t))
}.
Definition Rel (s : E.st) (t : O.st) : Prop := RelT (tabs s) t.

Lemma Rel_tabs s s' t : tabs s' = tabs s -> Rel s t -> Rel s' t.
Proof. unfold Rel. intros ->. auto. Qed.

Lemma Rel_init : Rel E.init O.init.
Proof. split; cbn; try constructor; reflexivity. Qed.

(* O-side components untouched by the table-only events *)
Lemma ostates_len t : length (ostates t) = length (O.ofuts t).
Proof. unfold ostates. apply map_length. Qed.

(* ---- the elementary table operations and the Outgoing events that perform them ---- *)
Lemma sim_rtype_pop i s t : Rel s t -> Rel (E.rtype_pop i s) (O.step t (O.InReply (emb i))).
Proof.
  intros [A B C D F G]. split; cbn [tabs fst snd E.rtype_pop E.rtypes E.futs E.outg E.set_rtypes] in *.
  - apply nodup_remove, A.
  - exact B.
  - cbn [O.step_with O.rtypes O.set_rtypes]. rewrite C. symmetry. apply gmap_remove, A.
  - exact D.
  - exact F.
  - exact G.
Qed.

Lemma sim_fut_pop i s t : Rel s t -> Rel (E.fut_pop i s) (O.step t (O.InAsyncDone (emb i) false)).
Proof.
  intros [A B C D F G]. split; cbn [tabs fst snd E.fut_pop E.rtypes E.futs E.outg E.set_futs] in *.
  - exact A.
  - apply nodup_remove, B.
  - exact C.
  - cbn [O.step_with O.futs O.set_futs]. rewrite D. symmetry. apply gmap_remove, B.
  - exact F.
  - exact G.
Qed.

Definition incoming (r : E.fref) : bool := match r with E.FOut _ => false | _ => true end.

Lemma sim_fut_set i r s t :
  incoming r = true -> Rel s t -> Rel (E.fut_set i r s) (O.step t (O.InAsyncReg (emb i))).
Proof.
  intros IN [A B C D F G]. split; cbn [tabs fst snd E.fut_set E.rtypes E.futs E.outg E.set_futs] in *.
  - exact A.
  - apply (nodup_set E.id_eqb id_eqb_spec), B.
  - exact C.
  - cbn [O.step_with O.futs O.set_futs]. rewrite D, (gmap_set absf i r _ B).
    destruct r; try discriminate; reflexivity.
  - exact F.
  - exact G.
Qed.

(* ------------------------------------------------------------------ futures: handle-keyed list vs positional list *)
Notation nget := (aget Nat.eqb).
Definition absS (ko : nat * O.ofut) : E.ostate := abss (O.ost (snd ko)).

Lemma seq_keys_cons {V} (k : nat) (v : V) r a :
  map fst ((k, v) :: r) = seq a (length ((k, v) :: r)) -> k = a /\ map fst r = seq (S a) (length r).
Proof. cbn [map fst length seq]. intros H. injection H as -> H. auto. Qed.

Lemma nget_seq (l : list (nat * O.ofut)) : forall a o, map fst l = seq a (length l) ->
  nget o l = if o <? a then None else option_map snd (nth_error l (o - a)).
Proof.
  induction l as [|[k v] r IH]; intros a o H.
  - cbn [aget]. destruct (o <? a); [reflexivity|]. destruct (o - a); reflexivity.
  - destruct (seq_keys_cons k v r a H) as [-> H']. cbn [aget]. rewrite (IH (S a) o H').
    destruct (Nat.eqb a o) eqn:Q.
    + apply Nat.eqb_eq in Q. subst o. rewrite Nat.ltb_irrefl, Nat.sub_diag. reflexivity.
    + apply Nat.eqb_neq in Q. destruct (o <? a) eqn:L.
      * apply Nat.ltb_lt in L. replace (o <? S a) with true by (symmetry; apply Nat.ltb_lt; lia). reflexivity.
      * apply Nat.ltb_ge in L. replace (o <? S a) with false by (symmetry; apply Nat.ltb_ge; lia).
        replace (o - a) with (S (o - S a)) by lia. reflexivity.
Qed.

Lemma nth_ostates t o :
  map fst (O.ofuts t) = seq 0 (length (O.ofuts t)) ->
  nth_error (ostates t) o = option_map (fun x => abss (O.ost x)) (nget o (O.ofuts t)).
Proof.
  intros H. rewrite (nget_seq _ 0 o H). cbn [Nat.ltb Nat.leb]. rewrite Nat.sub_0_r. unfold ostates.
  rewrite nth_error_map. destruct (nth_error (O.ofuts t) o) as [[k v]|]; reflexivity.
Qed.

Lemma map_aupd_seq (G : E.ostate -> E.ostate) (g : O.ofut -> O.ofut) o (l : list (nat * O.ofut)) :
  forall a, map fst l = seq a (length l) ->
  (forall v, In (o, v) l -> abss (O.ost (g v)) = G (abss (O.ost v))) ->
  map absS (aupd Nat.eqb o g l) = if o <? a then map absS l else E.upd_nth (o - a) G (map absS l).
Proof.
  induction l as [|[k v] r IH]; intros a H HG.
  - cbn [aupd map]. destruct (o <? a); [reflexivity|]. destruct (o - a); reflexivity.
  - destruct (seq_keys_cons k v r a H) as [-> H']. cbn [aupd map].
    assert (HG' : forall v0, In (o, v0) r -> abss (O.ost (g v0)) = G (abss (O.ost v0)))
      by (intros v0 I; apply HG; right; exact I).
    rewrite (IH (S a) H' HG'). destruct (Nat.eqb a o) eqn:Q.
    + apply Nat.eqb_eq in Q. subst o. rewrite Nat.ltb_irrefl, Nat.sub_diag.
      replace (a <? S a) with true by (symmetry; apply Nat.ltb_lt; lia). cbn [E.upd_nth map].
      unfold absS at 1 3. cbn [snd]. rewrite (HG v (or_introl eq_refl)). reflexivity.
    + apply Nat.eqb_neq in Q. destruct (o <? a) eqn:L.
      * apply Nat.ltb_lt in L. replace (o <? S a) with true by (symmetry; apply Nat.ltb_lt; lia). reflexivity.
      * apply Nat.ltb_ge in L. replace (o <? S a) with false by (symmetry; apply Nat.ltb_ge; lia).
        replace (o - a) with (S (o - S a)) by lia. reflexivity.
Qed.

Lemma ostates_aupd G g o t :
  map fst (O.ofuts t) = seq 0 (length (O.ofuts t)) ->
  (forall v, In (o, v) (O.ofuts t) -> abss (O.ost (g v)) = G (abss (O.ost v))) ->
  map absS (aupd Nat.eqb o g (O.ofuts t)) = E.upd_nth o G (ostates t).
Proof.
  intros H HG. rewrite (map_aupd_seq G g o _ 0 H HG). cbn [Nat.ltb Nat.leb]. rewrite Nat.sub_0_r. reflexivity.
Qed.

Lemma upd_nth_id {A} (G : A -> A) : forall l o, (forall x, nth_error l o = Some x -> G x = x) -> E.upd_nth o G l = l.
Proof.
  induction l as [|x r IH]; intros o H; [destruct o; reflexivity|]. destruct o; cbn [E.upd_nth].
  - rewrite (H x eq_refl). reflexivity.
  - rewrite IH; [reflexivity|]. intros y Hy. apply H. exact Hy.
Qed.

Lemma upd_nth_ext {A} (G G' : A -> A) : forall l o,
  (forall x, nth_error l o = Some x -> G x = G' x) -> E.upd_nth o G l = E.upd_nth o G' l.
Proof.
  induction l as [|x r IH]; intros o H; [destruct o; reflexivity|]. destruct o; cbn [E.upd_nth].
  - rewrite (H x eq_refl). reflexivity.
  - rewrite (IH o); [reflexivity|]. intros y Hy. apply H. exact Hy.
Qed.

Lemma handles_aupd o g (l : list (nat * O.ofut)) :
  map fst l = seq 0 (length l) -> map fst (aupd Nat.eqb o g l) = seq 0 (length (aupd Nat.eqb o g l)).
Proof.
  intros H. rewrite (akeys_aupd Nat.eqb o g l : map fst _ = map fst l).
  rewrite <- (map_length fst (aupd Nat.eqb o g l)), (akeys_aupd Nat.eqb o g l : map fst _ = map fst l), map_length.
  exact H.
Qed.

(* future.cancel() of an outgoing future *)
Definition Gcancel (x : E.ostate) : E.ostate := match x with E.OPending => E.OCancelled | y => y end.
Definition Gdone (x : E.ostate) : E.ostate := match x with E.OPending => E.ODone | y => y end.

Lemma tabs_cancel_out c o s :
  tabs (E.cancel_ref c (E.FOut o) s) = (E.rtypes s, E.futs s, E.upd_nth o Gcancel (E.outg s)).
Proof.
  unfold tabs. cbn [E.cancel_ref]. destruct (nth_error (E.outg s) o) as [x|] eqn:N.
  - destruct x; cbn [E.set_outg_st E.set_outg E.rtypes E.futs E.outg]; f_equal;
      [apply upd_nth_ext; intros y Hy; rewrite N in Hy; injection Hy as <-; reflexivity
      |symmetry; apply upd_nth_id; intros y Hy; rewrite N in Hy; injection Hy as <-; reflexivity
      |symmetry; apply upd_nth_id; intros y Hy; rewrite N in Hy; injection Hy as <-; reflexivity].
  - f_equal. symmetry. apply upd_nth_id. intros y Hy. rewrite N in Hy. discriminate.
Qed.

Lemma sim_cancel_out o x t :
  RelT x t -> RelT (fst x, E.upd_nth o Gcancel (snd x)) (O.step t (O.UserCancelOut o)).
Proof.
  intros [A B C D F G]. split; cbn [fst snd]; try assumption.
  - unfold ostates. cbn [O.step_with O.cancel_with O.xnone O.cancel_out O.ofuts O.set_ofuts].
    fold absS. rewrite (ostates_aupd Gcancel _ o t G), F; [reflexivity|].
    intros v _. destruct (O.ost v) eqn:Q; cbn [O.is_pending O.ost O.set_ost]; rewrite ?Q; reflexivity.
  - cbn [O.step_with O.cancel_with O.xnone O.cancel_out O.ofuts O.set_ofuts]. apply handles_aupd, G.
Qed.

(* ------------------------------------------------------------------ Endpoint functions that leave the tables alone *)
Lemma tabs_hook c sv src s : tabs (E.hook c sv src s) = tabs s.
Proof.
  destruct c as [w h f]. destruct s.
  destruct w, h, sv, src; unfold E.hook, E.write_call, E.do_write, E.failing, E.add_out, E.add_wq, E.add_err, E.snoc; cbn;
    repeat match goal with |- context [if ?b then _ else _] => destruct b; cbn end; reflexivity.
Qed.

Lemma tabs_send_data c sv f ok s : tabs (fst (E.send_data c sv f ok s)) = tabs s.
Proof.
  destruct c as [w h fl]. destruct s.
  destruct w, h, sv, ok; unfold E.send_data, E.hook, E.write_call, E.do_write, E.failing, E.add_out, E.add_wq, E.add_err, E.snoc; cbn;
    repeat match goal with |- context [if ?b then _ else _] => destruct b; cbn end; reflexivity.
Qed.

Lemma tabs_log w p ph sv s : tabs (E.log w p ph sv s) = tabs s.
Proof. reflexivity. Qed.

(* ------------------------------------------------------------------ send_request *)
Lemma tabs_user_send c i s :
  tabs (E.user_send c i s)
  = (Assoc.set E.id_eqb i tt (E.rtypes s), Assoc.set E.id_eqb i (E.FOut (length (E.outg s))) (E.futs s),
     E.outg s ++ [E.OPending]).
Proof. unfold E.user_send. rewrite tabs_send_data. reflexivity. Qed.

Definition send_ev (i : E.id) : O.ev := O.UserSend 0 0 O.CbNone (Some (emb i)).

Lemma sim_user_send i x t :
  RelT x t ->
  RelT (Assoc.set E.id_eqb i tt (fst (fst x)), Assoc.set E.id_eqb i (E.FOut (length (snd x))) (snd (fst x)),
        snd x ++ [E.OPending]) (O.step t (send_ev i)).
Proof.
  intros [A B C D F G]. unfold send_ev. cbn [O.step_with].
  destruct (OP.send_request_fields t 0 0 O.CbNone (Some (emb i)) O.WNone) as (P1 & P2 & P3 & _).
  cbn [OS.send_id fst] in *.
  assert (L : length (O.ofuts t) = length (snd x)) by (rewrite <- F; symmetry; apply ostates_len).
  split; cbn [fst snd].
  - apply (nodup_set E.id_eqb id_eqb_spec), A.
  - apply (nodup_set E.id_eqb id_eqb_spec), B.
  - rewrite P3, C. symmetry. apply (gmap_set (fun _ : unit => 0%N)), A.
  - rewrite P2, D, L. symmetry. apply (gmap_set absf i (E.FOut (length (snd x)))), B.
  - unfold ostates. rewrite P1, map_app. fold (ostates t). rewrite F. reflexivity.
  - rewrite P1, map_app, app_length, G. cbn [map fst length]. rewrite Nat.add_1_r, seq_S. reflexivity.
Qed.

(* ------------------------------------------------------------------ responses *)
Definition resp_tabs (good iserr : bool) (i : E.id)
  (x : list (E.id * unit) * list (E.id * E.fref) * list E.ostate) :=
  let '(r, f, o) := x in
  let r' := Assoc.remove E.id_eqb i r in
  if negb iserr && negb (Assoc.mem E.id_eqb i r) then (r', f, o)
  else if good then
    match Assoc.get E.id_eqb i f with
    | None => (r', f, o)
    | Some (E.FOut k) => (r', Assoc.remove E.id_eqb i f, E.upd_nth k Gdone o)
    | Some _ => (r', Assoc.remove E.id_eqb i f, o)
    end
  else (r', f, o).

Definition good_resp (s : E.st) (ver_ok : bool) (ps : E.pstat) : bool :=
  match ps with E.POk => ver_ok && negb (E.shutdown s) | _ => false end.

Lemma tabs_handle_response c i s :
  tabs (E.handle_response c i s)
  = match Assoc.get E.id_eqb i (E.futs s) with
    | None => tabs s
    | Some (E.FOut k) => (E.rtypes s, Assoc.remove E.id_eqb i (E.futs s), E.upd_nth k Gdone (E.outg s))
    | Some _ => (E.rtypes s, Assoc.remove E.id_eqb i (E.futs s), E.outg s)
    end.
Proof.
  unfold E.handle_response. destruct (Assoc.get E.id_eqb i (E.futs s)) as [[t0|j|k]|]; [| | |apply tabs_hook].
  - rewrite tabs_hook. reflexivity.
  - unfold tabs. cbn [E.set_undef E.rtypes E.futs E.outg]. fold (tabs (E.hook c E.Loop E.EJsonRpc (E.fut_pop i s))).
    rewrite tabs_hook. reflexivity.
  - cbn [E.fut_pop E.outg E.set_futs]. destruct (nth_error (E.outg s) k) as [y|] eqn:N.
    + destruct y; try rewrite tabs_hook; unfold tabs;
        cbn [E.set_outg_st E.set_outg E.fut_pop E.set_futs E.rtypes E.futs E.outg]; f_equal;
        first [apply upd_nth_ext; intros z Hz; rewrite N in Hz; injection Hz as <-; reflexivity
              |symmetry; apply upd_nth_id; intros z Hz; rewrite N in Hz; injection Hz as <-; reflexivity].
    + rewrite tabs_hook. unfold tabs. cbn [E.fut_pop E.set_futs E.rtypes E.futs E.outg]. f_equal.
      symmetry. apply upd_nth_id. intros z Hz. rewrite N in Hz. discriminate.
Qed.

Lemma tabs_recv_resp c ver i iserr ps s :
  tabs (E.recv c (E.FResp ver i iserr ps) s) = resp_tabs (good_resp s ver ps) iserr i (tabs s).
Proof.
  unfold tabs at 2. cbn [E.recv resp_tabs]. unfold good_resp.
  destruct (negb iserr && negb (Assoc.mem E.id_eqb i (E.rtypes s))); [rewrite tabs_hook; reflexivity|].
  destruct ps; try (rewrite tabs_hook; reflexivity).
  destruct ver; cbn [negb andb]; [|rewrite tabs_hook; reflexivity].
  cbn [E.rtype_pop E.shutdown E.set_rtypes]. destruct (E.shutdown s); cbn [negb]; [reflexivity|].
  rewrite tabs_handle_response. cbn [E.rtype_pop E.futs E.set_rtypes E.rtypes E.outg].
  destruct (Assoc.get E.id_eqb i (E.futs s)) as [[t0|j|k]|]; reflexivity.
Qed.

Definition resp_ev (good iserr : bool) (i : E.id) : O.ev :=
  if iserr then O.RecvError (emb i) (if good then 0 else 2147483648)%Z [] 0
  else O.RecvResult (emb i) 0 (if good then [0%N] else []).

(* _handle_response on related states *)
Lemma sim_handle_response i oc r f o t :
  NoDup (keys r) -> NoDup (keys f) ->
  O.rtypes t = gmap (fun _ : unit => 0%N) r -> O.futs t = gmap absf f -> ostates t = o ->
  map fst (O.ofuts t) = seq 0 (length (O.ofuts t)) ->
  RelT (match Assoc.get E.id_eqb i f with
        | None => (r, f, o)
        | Some (E.FOut k) => (r, Assoc.remove E.id_eqb i f, E.upd_nth k Gdone o)
        | Some _ => (r, Assoc.remove E.id_eqb i f, o)
        end) (O.handle_response t (emb i) oc).
Proof.
  intros A B C D F G. unfold O.handle_response_with. rewrite D, (aget_gmap absf i f).
  destruct (Assoc.get E.id_eqb i f) as [ref|] eqn:Q; cbn [option_map].
  2: { split; cbn [fst snd O.hook O.rtypes O.futs O.ofuts]; assumption. }
  assert (D' : gmap absf (Assoc.remove E.id_eqb i f) = adel O.id_eqb (emb i) (gmap absf f))
    by (apply gmap_remove, B).
  assert (B' : NoDup (keys (Assoc.remove E.id_eqb i f))) by (apply nodup_remove, B).
  destruct ref as [t0|j|k]; cbn [absf].
  - split; cbn [fst snd O.hook O.rtypes O.futs O.ofuts O.set_futs]; try assumption. rewrite D'. reflexivity.
  - split; cbn [fst snd O.hook O.rtypes O.futs O.ofuts O.set_futs]; try assumption. rewrite D'. reflexivity.
  - set (t1 := O.set_futs t (adel O.id_eqb (emb i) (gmap absf f))).
    destruct (OP.complete_tables t1 k oc) as (T1 & T2 & _).
    destruct (nget k (O.ofuts t)) as [v|] eqn:N.
    + destruct (O.is_pending (O.ost v)) eqn:P.
      * pose proof (OP.complete_ofuts_pending t1 k oc v N P) as OF.
        split; cbn [fst snd]; try assumption.
        -- rewrite T2. exact C.
        -- rewrite T1. unfold t1. cbn [O.futs O.set_futs]. rewrite D'. reflexivity.
        -- unfold ostates. rewrite OF. unfold t1. cbn [O.ofuts O.set_futs]. fold absS.
           rewrite (ostates_aupd Gdone _ k t G), F; [reflexivity|].
           intros v0 Hin. assert (v0 = v).
           { assert (ND : NoDup (map fst (O.ofuts t))) by (rewrite G; apply seq_NoDup).
             apply (OP.aget_of_in _ _ _ ND) in Hin. congruence. }
           subst v0. destruct (O.ost v); try discriminate.
           destruct oc; cbn [O.cbflag]; [destruct (O.cbflag (O.ocb v))|]; reflexivity.
        -- rewrite OF. unfold t1. cbn [O.ofuts O.set_futs]. apply handles_aupd, G.
      * pose proof (OP.complete_ofuts_done t1 k oc v N P) as OF.
        split; cbn [fst snd]; try assumption.
        -- rewrite T2. exact C.
        -- rewrite T1. unfold t1. cbn [O.futs O.set_futs]. rewrite D'. reflexivity.
        -- unfold ostates. rewrite OF. unfold t1. cbn [O.ofuts O.set_futs]. fold (ostates t). rewrite F.
           symmetry. apply upd_nth_id. intros y Hy. rewrite <- F, (nth_ostates t k G), N in Hy.
           cbn [option_map] in Hy. injection Hy as <-. destruct (O.ost v); try discriminate; reflexivity.
        -- rewrite OF. exact G.
    + assert (OF : O.ofuts (O.complete t1 k oc) = O.ofuts t).
      { unfold O.complete_with, O.xnone. unfold t1 at 1. cbn [O.ofuts O.set_futs]. rewrite N. reflexivity. }
      split; cbn [fst snd]; try assumption.
      * rewrite T2. exact C.
      * rewrite T1. unfold t1. cbn [O.futs O.set_futs]. rewrite D'. reflexivity.
      * unfold ostates. rewrite OF. fold (ostates t). rewrite F. symmetry. apply upd_nth_id.
        intros y Hy. rewrite <- F, (nth_ostates t k G), N in Hy. discriminate.
      * rewrite OF. exact G.
Qed.

Lemma sim_resp good iserr i x t : RelT x t -> RelT (resp_tabs good iserr i x) (O.step t (resp_ev good iserr i)).
Proof.
  destruct x as [[r f] o]. intros [A B C D F G]. cbn [fst snd] in *.
  assert (A' : NoDup (keys (Assoc.remove E.id_eqb i r))) by (apply nodup_remove, A).
  assert (C' : gmap (fun _ : unit => 0%N) (Assoc.remove E.id_eqb i r) = adel O.id_eqb (emb i) (O.rtypes t))
    by (rewrite C; apply gmap_remove, A).
  assert (PLAIN : forall t', O.rtypes t' = adel O.id_eqb (emb i) (O.rtypes t) -> O.futs t' = O.futs t ->
                             O.ofuts t' = O.ofuts t -> RelT (Assoc.remove E.id_eqb i r, f, o) t').
  { intros t' E1 E2 E3. split; cbn [fst snd]; try assumption.
    - rewrite E1. symmetry. exact C'.
    - rewrite E2. exact D.
    - unfold ostates. rewrite E3. exact F.
    - rewrite E3. exact G. }
  unfold resp_tabs, resp_ev. destruct iserr; cbn [negb andb O.step_with].
  - (* error *)
    destruct good.
    + cbn [O.int32 Z.leb Z.compare andb].
      apply (sim_handle_response i (O.OErr 0 [] 0) (Assoc.remove E.id_eqb i r) f o); try assumption.
      cbn [O.rtypes O.set_rtypes]. symmetry. exact C'.
    + change (O.int32 2147483648) with false. cbn iota. apply PLAIN; reflexivity.
  - (* result *)
    rewrite C, (aget_gmap (fun _ : unit => 0%N) i r). unfold Assoc.mem.
    destruct (Assoc.get E.id_eqb i r) as [u|] eqn:Q; cbn [option_map negb].
    + destruct good; cbn [O.mem_n existsb N.eqb orb].
      * apply (sim_handle_response i (O.ORes 0 0) (Assoc.remove E.id_eqb i r) f o); try assumption.
        cbn [O.rtypes O.set_rtypes]. rewrite <- C. symmetry. exact C'.
      * apply PLAIN; cbn [O.hook O.rtypes O.futs O.ofuts O.set_rtypes]; try reflexivity. rewrite C. reflexivity.
    + (* unknown id: KeyError, nothing changes *)
      assert (RM : Assoc.remove E.id_eqb i r = r).
      { apply (remove_notin E.id_eqb id_eqb_spec). exact (proj1 (get_none_notin E.id_eqb id_eqb_spec i r) Q). }
      rewrite RM. split; cbn [fst snd O.hook O.rtypes O.futs O.ofuts]; assumption.
Qed.

(* ------------------------------------------------------------------ the projection (a mirror of the code paths
   of Endpoint.v that touch the tables) and its simulation, function by function *)
Lemma run_app t a b : O.run_from t (a ++ b) = O.run_from (O.run_from t a) b.
Proof. unfold O.run_from. apply fold_left_app. Qed.

Lemma run_one t e : O.run_from t [e] = O.step t e.
Proof. reflexivity. Qed.

(* _send_response *)
Definition tr_sr (r : E.reply) (i : E.id) : list O.ev :=
  match r with E.RpResult _ _ => [O.InReply (emb i)] | E.RpError _ => [] end.

Lemma tabs_send_response c sv i r s :
  tabs (E.send_response c sv i r s)
  = match r with E.RpError _ => tabs s | E.RpResult _ _ => tabs (E.rtype_pop i s) end.
Proof.
  destruct r as [code|v ser]; cbn [E.send_response]; [apply tabs_send_data|].
  pose proof (tabs_send_data c sv (E.OResp i (E.PResult v)) ser (E.rtype_pop i s)) as H.
  destruct (E.send_data c sv (E.OResp i (E.PResult v)) ser (E.rtype_pop i s)) as [s2 ok]. cbn [fst] in H.
  destruct ok; [exact H|]. rewrite tabs_send_data. exact H.
Qed.

Lemma sim_send_response c sv i r s t :
  Rel s t -> Rel (E.send_response c sv i r s) (O.run_from t (tr_sr r i)).
Proof.
  intros R. destruct r as [code|v ser]; cbn [tr_sr O.run_from fold_left].
  - apply (Rel_tabs s); [apply (tabs_send_response c sv i (E.RpError code))|exact R].
  - apply (Rel_tabs (E.rtype_pop i s)); [apply (tabs_send_response c sv i (E.RpResult v ser))|].
    apply sim_rtype_pop, R.
Qed.

(* _execute_request_callback *)
Definition is_res (r : E.fres) : bool := match r with E.RVal _ | E.RUnser => true | _ => false end.
Definition tr_reqcb (i : E.id) (r : E.fres) : list O.ev :=
  (if is_res r then [O.InReply (emb i)] else []) ++ [O.InAsyncDone (emb i) false].

Lemma sim_request_callback c sv i r s t :
  Rel s t -> Rel (E.request_callback c sv i r s) (O.run_from t (tr_reqcb i r)).
Proof.
  intros R. unfold E.request_callback, tr_reqcb. rewrite run_app, run_one.
  apply sim_fut_pop. destruct r; cbn [is_res].
  - apply (sim_send_response c sv i (E.RpError E.code_cancelled)), R.
  - apply (sim_send_response c sv i (E.RpResult (E.VInt v) true)), R.
  - apply (sim_send_response c sv i (E.RpResult E.VObj false)), R.
  - eapply Rel_tabs; [apply tabs_hook|]. apply (sim_send_response c sv i (E.RpError E.code_internal)), R.
  - eapply Rel_tabs; [apply tabs_hook|]. apply (sim_send_response c sv i (E.RpError code)), R.
Qed.

Definition tr_run_cb (cb : E.cbkind) (r : E.fres) : list O.ev :=
  match cb with E.CReq i => tr_reqcb i r | E.CNot => [] end.

Lemma sim_run_cb c sv cb r s t : Rel s t -> Rel (E.run_cb c sv cb r s) (O.run_from t (tr_run_cb cb r)).
Proof.
  intros R. destruct cb as [i|]; cbn [E.run_cb tr_run_cb].
  - apply sim_request_callback, R.
  - cbn [O.run_from fold_left]. unfold E.notification_callback.
    destruct r; try exact R; (eapply Rel_tabs; [apply tabs_hook|exact R]).
Qed.

(* future.cancel() *)
Definition tr_cancel_ref (s : E.st) (r : E.fref) : list O.ev :=
  match r with
  | E.FTask _ => []
  | E.FJob j =>
    match nth_error (E.jobs s) j with
    | Some jb => match E.j_st jb with E.JQueued => tr_run_cb (E.j_cb jb) E.RCancelled | _ => [] end
    | None => []
    end
  | E.FOut o => [O.UserCancelOut o]
  end.

Lemma sim_cancel_ref c r s t : Rel s t -> Rel (E.cancel_ref c r s) (O.run_from t (tr_cancel_ref s r)).
Proof.
  intros R. destruct r as [t0|j|o]; cbn [tr_cancel_ref].
  - cbn [E.cancel_ref O.run_from fold_left]. destruct (nth_error (E.tasks s) t0) as [tk|]; [|exact R].
    destruct (E.t_st tk); exact R.
  - cbn [E.cancel_ref]. destruct (nth_error (E.jobs s) j) as [jb|]; [|exact R].
    destruct (E.j_st jb); try exact R. apply sim_run_cb. exact R.
  - rewrite run_one. unfold Rel. rewrite tabs_cancel_out.
    apply (sim_cancel_out o (tabs s) t R).
Qed.

(* lsp_shutdown: cancel() on a snapshot of the table's values *)
Fixpoint tr_fold_cancel (c : E.cfg) (s : E.st) (rs : list E.fref) : list O.ev :=
  match rs with
  | [] => []
  | r :: rest => tr_cancel_ref s r ++ tr_fold_cancel c (E.cancel_ref c r s) rest
  end.

Lemma sim_fold_cancel c rs : forall s t, Rel s t ->
  Rel (fold_left (fun s' r => E.cancel_ref c r s') rs s) (O.run_from t (tr_fold_cancel c s rs)).
Proof.
  induction rs as [|r rest IH]; intros s t R; [exact R|]. cbn [fold_left tr_fold_cancel].
  rewrite run_app. apply IH. apply sim_cancel_ref, R.
Qed.

(* _execute_request *)
Definition tr_exec (i : E.id) (b : E.behav) : list O.ev :=
  match E.bkind b with
  | E.HAsync _ => [O.InAsyncReg (emb i)]
  | E.HThread early =>
    O.InAsyncReg (emb i) :: (if early then tr_reqcb i (E.res_of (E.bout b)) else [])
  | E.HSync => match E.bout b with E.ORet _ | E.ORetUnser => [O.InReply (emb i)] | _ => [] end
  end.

Lemma sim_execute_request c i p b s t :
  Rel s t -> Rel (fst (E.execute_request c i p b s)) (O.run_from t (tr_exec i b)).
Proof.
  intros R. unfold E.execute_request, tr_exec. destruct (E.bkind b) as [|n|early]; cbn [fst].
  - destruct (E.bout b); cbn [fst].
    + apply (sim_send_response c E.Loop i (E.RpResult (E.VInt v) true)). exact R.
    + apply (sim_send_response c E.Loop i (E.RpResult E.VObj false)). exact R.
    + exact R.
    + exact R.
  - cbn [O.run_from fold_left]. apply (sim_fut_set i (E.FTask _)); [reflexivity|exact R].
  - unfold E.submit. destruct early.
    + change (O.InAsyncReg (emb i) :: tr_reqcb i (E.res_of (E.bout b)))
        with ([O.InAsyncReg (emb i)] ++ tr_reqcb i (E.res_of (E.bout b))).
      rewrite run_app. apply (sim_run_cb c E.Loop (E.CReq i)). cbn [O.run_from fold_left].
      apply (sim_fut_set i (E.FJob _)); [reflexivity|exact R].
    + cbn [O.run_from fold_left]. apply (sim_fut_set i (E.FJob _)); [reflexivity|exact R].
Qed.

(* notifications' handlers, chained user features, exit: nothing for the tables *)
Lemma tabs_exec_notification c w p b s : tabs (fst (E.exec_notification c w p b s)) = tabs s.
Proof.
  unfold E.exec_notification, E.submit. destruct (E.bkind b) as [|n|early]; cbn [fst]; try reflexivity.
  destruct early; [|reflexivity]. cbn [fst E.run_cb E.notification_callback].
  destruct (E.res_of (E.bout b)); cbn [E.notification_callback]; rewrite ?tabs_hook; reflexivity.
Qed.

Lemma tabs_chain c w u s : tabs (E.chain c w u s) = tabs s.
Proof. destruct u; [apply tabs_exec_notification|reflexivity]. Qed.

Lemma tabs_on_exc c i x s : tabs (E.on_exc c i x s) = tabs s.
Proof.
  destruct x as [[|code]|]; cbn [E.on_exc]; [| |reflexivity]; rewrite tabs_hook;
    apply (tabs_send_response c E.Loop i (E.RpError _)).
Qed.

Lemma tabs_lsp_exit c w u s : tabs (E.lsp_exit c w u s) = tabs s.
Proof. unfold E.lsp_exit. destruct (E.c_writer c); [reflexivity|]. rewrite tabs_chain. reflexivity. Qed.

(* _handle_request *)
Definition tr_handle_request (c : E.cfg) (i : E.id) (m : E.rmethod) (s : E.st) : list O.ev :=
  match m with
  | E.RUnknown => []
  | E.RUser b => tr_exec i b
  | E.RShutdown _ =>
    let s1 := E.log (E.WReq i) E.PBuiltin E.HStart E.Loop s in
    tr_fold_cancel c s1 (values (E.futs s1)) ++ [O.InReply (emb i)]
  | E.RBuiltin fails _ => if fails then [] else [O.InReply (emb i)]
  | E.RCommand cmd _ => match cmd with Some b => tr_exec i b | None => [] end
  end.

Lemma sim_handle_request c i m s t :
  Rel s t -> Rel (E.handle_request c i m s) (O.run_from t (tr_handle_request c i m s)).
Proof.
  intros R. destruct m as [|b|u|fails u|cmd u]; cbn [E.handle_request tr_handle_request].
  - cbn [O.run_from fold_left]. eapply Rel_tabs; [rewrite tabs_hook; apply (tabs_send_response c E.Loop i (E.RpError _))|exact R].
  - pose proof (sim_execute_request c i E.PUser b s t R) as H.
    destruct (E.execute_request c i E.PUser b s) as [s1 x]. cbn [fst] in H.
    eapply Rel_tabs; [apply tabs_on_exc|exact H].
  - rewrite run_app. apply (sim_send_response c E.Loop i (E.RpResult E.VNull true)).
    eapply Rel_tabs; [apply tabs_chain|]. eapply Rel_tabs; [apply tabs_log|].
    unfold E.lsp_shutdown. eapply Rel_tabs; [reflexivity|]. apply sim_fold_cancel.
    eapply Rel_tabs; [apply tabs_log|exact R].
  - destruct fails.
    + cbn [O.run_from fold_left]. eapply Rel_tabs; [apply tabs_on_exc|exact R].
    + apply (sim_send_response c E.Loop i (E.RpResult E.VObj true)). eapply Rel_tabs; [apply tabs_chain|exact R].
  - destruct cmd as [b|].
    + pose proof (sim_execute_request c i E.PCommand b (E.log (E.WReq i) E.PBuiltin E.HStart E.Loop s) t
                    (Rel_tabs s _ t (tabs_log _ _ _ _ s) R)) as H.
      destruct (E.execute_request c i E.PCommand b (E.log (E.WReq i) E.PBuiltin E.HStart E.Loop s)) as [s2 x].
      cbn [fst] in H. destruct x.
      * eapply Rel_tabs; [apply tabs_on_exc|]. eapply Rel_tabs; [apply tabs_log|exact H].
      * eapply Rel_tabs; [apply tabs_chain|]. eapply Rel_tabs; [apply tabs_log|exact H].
    + cbn [O.run_from fold_left]. eapply Rel_tabs; [apply tabs_on_exc|exact R].
Qed.

(* $/cancelRequest: pop, then cancel() *)
Definition tr_cancel_notification (c : E.cfg) (i : E.id) (s : E.st) : list O.ev :=
  match Assoc.get E.id_eqb i (E.futs s) with
  | Some r =>
    O.InCancel (emb i) :: match r with E.FOut _ => [] | _ => tr_cancel_ref (E.fut_pop i s) r end
  | None => []
  end.

Lemma sim_in_cancel i s t :
  Rel s t ->
  Rel (match Assoc.get E.id_eqb i (E.futs s) with
       | Some (E.FOut o) => E.cancel_ref (E.mkCfg E.WBlocking E.HookQuiet None) (E.FOut o) (E.fut_pop i s)
       | Some _ => E.fut_pop i s
       | None => s
       end) (O.step t (O.InCancel (emb i))).
Proof.
  intros R. pose proof R as [A B C D F G]. cbn [tabs fst snd] in *. cbn [O.step_with].
  rewrite D, (aget_gmap absf i (E.futs s)).
  destruct (Assoc.get E.id_eqb i (E.futs s)) as [[t0|j|o]|] eqn:Q; cbn [option_map absf].
  - rewrite <- D. apply (sim_fut_pop i s t R).
  - rewrite <- D. apply (sim_fut_pop i s t R).
  - rewrite <- D. unfold Rel. rewrite tabs_cancel_out.
    apply (sim_cancel_out o (tabs (E.fut_pop i s)) _ (sim_fut_pop i s t R)).
  - exact R.
Qed.

Lemma sim_cancel_notification c i s t :
  Rel s t -> Rel (E.cancel_notification c i s) (O.run_from t (tr_cancel_notification c i s)).
Proof.
  intros R. unfold E.cancel_notification, tr_cancel_notification.
  pose proof (sim_in_cancel i s t R) as H.
  destruct (Assoc.get E.id_eqb i (E.futs s)) as [[t0|j|o]|]; [| | |exact R].
  - change (O.InCancel (emb i) :: ?l) with ([O.InCancel (emb i)] ++ l). rewrite run_app.
    apply sim_cancel_ref. exact H.
  - change (O.InCancel (emb i) :: ?l) with ([O.InCancel (emb i)] ++ l). rewrite run_app.
    apply sim_cancel_ref. exact H.
  - cbn [O.run_from fold_left]. eapply Rel_tabs; [|exact H]. rewrite !tabs_cancel_out. reflexivity.
Qed.

Definition tr_handle_notification (c : E.cfg) (m : E.nmethod) (s : E.st) : list O.ev :=
  match m with E.NCancel i => tr_cancel_notification c i s | _ => [] end.

Lemma sim_handle_notification c tag m s t :
  Rel s t -> Rel (E.handle_notification c tag m s) (O.run_from t (tr_handle_notification c m s)).
Proof.
  intros R. destruct m as [|b|i|u|fails u]; cbn [E.handle_notification tr_handle_notification].
  - exact R.
  - pose proof (tabs_exec_notification c (E.WNot tag) E.PUser b s) as H.
    destruct (E.exec_notification c (E.WNot tag) E.PUser b s) as [s1 x]. cbn [fst] in H.
    destruct x; [eapply Rel_tabs; [rewrite tabs_hook; exact H|exact R]|eapply Rel_tabs; [exact H|exact R]].
  - apply sim_cancel_notification, R.
  - eapply Rel_tabs; [apply tabs_lsp_exit|exact R].
  - destruct fails; (eapply Rel_tabs; [|exact R]); [rewrite tabs_hook|rewrite tabs_chain]; reflexivity.
Qed.

(* one frame *)
Definition tr_recv (c : E.cfg) (f : E.frame) (s : E.st) : list O.ev :=
  match f with
  | E.FGarbage => []
  | E.FReq ver_ok i ps m =>
    match ps with
    | E.POk => if negb ver_ok then [] else if E.shutdown s then [] else tr_handle_request c i m s
    | _ => []
    end
  | E.FNotif ver_ok tag ps m =>
    match ps with
    | E.POk => if negb ver_ok then [] else if E.shutdown s && negb (E.is_exit m) then []
               else tr_handle_notification c m s
    | _ => []
    end
  | E.FResp ver_ok i iserr ps => [resp_ev (good_resp s ver_ok ps) iserr i]
  end.

Lemma sim_recv c f s t : Rel s t -> Rel (E.recv c f s) (O.run_from t (tr_recv c f s)).
Proof.
  intros R. destruct f as [|ver i ps m|ver tag ps m|ver i iserr ps]; cbn [tr_recv].
  - eapply Rel_tabs; [apply tabs_hook|exact R].
  - cbn [E.recv]. destruct ps.
    + destruct ver; cbn [negb]; [|eapply Rel_tabs; [apply tabs_hook|exact R]].
      destruct (E.shutdown s); [exact R|]. apply sim_handle_request, R.
    + eapply Rel_tabs; [rewrite tabs_hook; apply (tabs_send_response c E.Loop i (E.RpError _))|exact R].
    + eapply Rel_tabs; [rewrite tabs_hook; apply (tabs_send_response c E.Loop i (E.RpError _))|exact R].
  - cbn [E.recv]. destruct ps; try (eapply Rel_tabs; [apply tabs_hook|exact R]).
    destruct ver; cbn [negb]; [|eapply Rel_tabs; [apply tabs_hook|exact R]].
    destruct (E.shutdown s && negb (E.is_exit m)); [exact R|]. apply sim_handle_notification, R.
  - cbn [O.run_from fold_left]. unfold Rel. rewrite tabs_recv_resp. apply sim_resp. exact R.
Qed.

(* ------------------------------------------------------------------ one event, one history *)
Lemma tabs_task_step t0 s : tabs (E.task_step t0 s) = tabs s.
Proof.
  unfold E.task_step, E.task_advance, E.task_finish. destruct (nth_error (E.tasks s) t0) as [tk|]; [|reflexivity].
  destruct (E.t_st tk) as [st l mc| |]; try reflexivity.
  destruct mc; [destruct st; cbn [negb]; [destruct (E.breact (E.t_b tk))|]|]; try reflexivity;
    destruct l; try destruct st; reflexivity.
Qed.

Lemma tabs_job_start j s : tabs (E.job_start j s) = tabs s.
Proof.
  unfold E.job_start. destruct (nth_error (E.jobs s) j) as [jb|]; [|reflexivity].
  destruct (E.j_st jb); reflexivity.
Qed.

Lemma tabs_write_step c s : tabs (E.write_step c s) = tabs s.
Proof.
  unfold E.write_step. destruct (E.wq s) as [|[f|rc] r]; try reflexivity.
  unfold E.do_write. cbn [E.closed E.set_wq]. destruct (E.closed s); [reflexivity|].
  destruct (E.failing c (E.nwrites (E.set_wq r s))); reflexivity.
Qed.

Lemma tabs_exit_cb s : tabs (E.exit_cb s) = tabs s.
Proof. unfold E.exit_cb. destruct (E.exitq s); reflexivity. Qed.

Definition tr_step (c : E.cfg) (s : E.st) (e : E.ev) : list O.ev :=
  match E.exit s with
  | Some _ => []
  | None =>
    match e with
    | E.Recv f => tr_recv c f s
    | E.LoopCb t0 =>
      match nth_error (E.tasks s) t0 with
      | Some tk => match E.t_st tk with E.TDoneCb r => tr_run_cb (E.t_cb tk) r | _ => [] end
      | None => []
      end
    | E.JobFinish j =>
      match nth_error (E.jobs s) j with
      | Some jb => match E.j_st jb with
                   | E.JRunning => tr_run_cb (E.j_cb jb) (E.res_of (E.bout (E.j_b jb)))
                   | _ => []
                   end
      | None => []
      end
    | E.UserSend i => [send_ev i]
    | _ => []
    end
  end.

Lemma sim_step c e s t : Rel s t -> Rel (E.step c s e) (O.run_from t (tr_step c s e)).
Proof.
  intros R. unfold E.step, tr_step. destruct (E.exit s); [exact R|].
  destruct e as [f|t0|t0|j|j| | |i].
  - apply sim_recv, R.
  - eapply Rel_tabs; [apply tabs_task_step|exact R].
  - unfold E.loop_cb. destruct (nth_error (E.tasks s) t0) as [tk|]; [|exact R].
    destruct (E.t_st tk); try exact R. apply sim_run_cb. exact R.
  - eapply Rel_tabs; [apply tabs_job_start|exact R].
  - unfold E.job_finish. destruct (nth_error (E.jobs s) j) as [jb|]; [|exact R].
    destruct (E.j_st jb); try exact R. apply sim_run_cb. exact R.
  - eapply Rel_tabs; [apply tabs_write_step|exact R].
  - eapply Rel_tabs; [apply tabs_exit_cb|exact R].
  - rewrite run_one. unfold Rel. rewrite tabs_user_send. apply (sim_user_send i (tabs s) t R).
Qed.

(* THE PROJECTION of one Endpoint(X) event met in state s *)
Definition proj_ev (c : E.cfg) (s : E.st) (e : X.evx) : list O.ev :=
  match e with
  | X.Base e => tr_step c s e
  | X.ServerCancel i =>
    match E.exit s with
    | Some _ => []
    | None => match Assoc.get E.id_eqb i (E.futs s) with Some r => tr_cancel_ref s r | None => [] end
    end
  | X.OutCancel o => match E.exit s with Some _ => [] | None => [O.UserCancelOut o] end
  end.

Lemma sim_stepx c e s t : Rel s t -> Rel (X.stepx c s e) (O.run_from t (proj_ev c s e)).
Proof.
  intros R. destruct e as [e|i|o]; cbn [X.stepx proj_ev].
  - apply sim_step, R.
  - destruct (E.exit s); [exact R|]. unfold X.server_cancel.
    destruct (Assoc.get E.id_eqb i (E.futs s)); [apply sim_cancel_ref, R|exact R].
  - destruct (E.exit s); [exact R|]. rewrite run_one.
    change (X.out_cancel o s) with (E.cancel_ref c (E.FOut o) s). unfold Rel. rewrite tabs_cancel_out.
    apply (sim_cancel_out o (tabs s) t R).
Qed.

Fixpoint project_from (c : E.cfg) (s : E.st) (evs : list X.evx) : list O.ev :=
  match evs with
  | [] => []
  | e :: r => proj_ev c s e ++ project_from c (X.stepx c s e) r
  end.
Definition project (c : E.cfg) (evs : list X.evx) : list O.ev := project_from c E.init evs.

Lemma link_from c evs : forall s t, Rel s t ->
  Rel (fold_left (X.stepx c) evs s) (O.run_from t (project_from c s evs)).
Proof.
  induction evs as [|e r IH]; intros s t R; [exact R|]. cbn [fold_left project_from].
  rewrite run_app. apply IH, sim_stepx, R.
Qed.

(* link_run: for every configuration and every history the two models agree on the tables *)
Theorem link_run c evs : Rel (X.runx c evs) (O.run (project c evs)).
Proof. apply (link_from c evs E.init O.init Rel_init). Qed.

(* the same, spelt out: `_result_types`, `_request_futures` (FTask / FJob shown as FIn) and the
   state of every future handed to a send_request caller *)
Theorem link_observables c evs :
  let s := X.runx c evs in let t := O.run (project c evs) in
  O.rtypes t = map (fun kv => (emb (fst kv), 0%N)) (E.rtypes s) /\
  O.futs t = map (fun kv => (emb (fst kv), absf (snd kv))) (E.futs s) /\
  map (fun ko => abss (O.ost (snd ko))) (O.ofuts t) = E.outg s /\
  akeys (O.rtypes t) = map emb (keys (E.rtypes s)) /\
  (forall i o, In (i, E.FOut o) (E.futs s) <-> aget O.id_eqb (emb i) (O.futs t) = Some (O.FOut o)).
Proof.
  intros s t. destruct (link_run c evs) as [A B C D F G]. fold s t in A, B, C, D, F, G. cbn [tabs fst snd] in *.
  repeat split; try assumption.
  - unfold akeys, keys. rewrite C. unfold gmap. rewrite !map_map. reflexivity.
  - intros H. rewrite D, (aget_gmap absf i (E.futs s)), (in_get E.id_eqb id_eqb_spec _ _ _ B H). reflexivity.
  - intros H. rewrite D, (aget_gmap absf i (E.futs s)) in H.
    destruct (Assoc.get E.id_eqb i (E.futs s)) as [r|] eqn:Q; [|discriminate]. cbn [option_map] in H.
    destruct r; try discriminate. injection H as ->. apply (get_in E.id_eqb id_eqb_spec). exact Q.
Qed.

Theorem link_base c evs : Rel (E.run c evs) (O.run (project c (map X.Base evs))).
Proof. rewrite <- runx_base. apply link_run. Qed.

(* ------------------------------------------------------------------ C16: the two halves compose *)
(* For every Endpoint(X) history that ends quiescent and whose outgoing side - its projection -
   meets the hypotheses of C16_outgoing with every outgoing request answered, BOTH shared tables
   are empty.  The incoming half needs no hypothesis at all (C16Proofs / EndpointFuts: at
   quiescence no FTask / FJob entry is left); the hypotheses below are those of the outgoing
   half, read off the projected history.  disjoint_directions is needed exactly there: see
   composed_needs_disjoint (finding F21: the tables are shared between the directions). *)
Theorem C16_composed c evs :
  let s := X.runx c evs in let tr := project c evs in
  E.quiescent s = true ->
  OS.injective_supply tr -> OS.disjoint_directions tr -> OS.valid_results tr -> OS.lsp_codes tr ->
  OS.strict_valid_results tr -> OS.all_answered tr ->
  E.futs s = [] /\ E.rtypes s = [].
Proof.
  intros s tr Q H1 H2 H3 H4 H5 H6.
  destruct (OP.C16_outgoing tr H1 H2 H3 H4 H5 H6) as (RT & NF & _).
  destruct (link_run c evs) as [A B C D F G]. fold s in A, B, C, D, F, G. fold tr in C, D, F, G.
  cbn [tabs fst snd] in *. split.
  - destruct (E.futs s) as [|[k r] rest] eqn:EF; [reflexivity|]. exfalso.
    assert (FWs : FW s) by apply fw_runx.
    destruct (fw_quiescent s FWs Q k r) as [o EO]; [rewrite EF; left; reflexivity|]. subst r.
    apply (NF (emb k) o). unfold O.run in *. rewrite D. cbn [gmap map aget fst snd absf].
    rewrite emb_eqb, id_eqb_refl. reflexivity.
  - unfold O.run in *. rewrite RT in C. destruct (E.rtypes s); [reflexivity|discriminate].
Qed.

(* ... and without disjoint_directions it fails: our request 7 is outstanding, the peer's request 7
   is answered (its _send_response pops OUR result type), the peer's reply to our 7 is rejected:
   the history is quiescent, every request has been answered, the entry stays *)
Example composed_needs_disjoint :
  let c := E.mkCfg E.WBlocking E.HookQuiet None in
  let evs := [X.Base (E.UserSend (E.IInt 7));
              X.Base (E.Recv (E.FReq true (E.IInt 7) E.POk (E.RUser (E.mkB E.HSync (E.ORet 1) E.Propagate))));
              X.Base (E.Recv (E.FResp true (E.IInt 7) false E.POk))] in
  E.quiescent (X.runx c evs) = true /\ OS.all_answered (project c evs) /\
  OS.disjoint_directions_b (project c evs) = false /\
  E.futs (X.runx c evs) = [(E.IInt 7, E.FOut 0)] /\
  project c evs = [send_ev (E.IInt 7); O.InReply (O.IInt 7); O.RecvResult (O.IInt 7) 0 [0%N]].
Proof. vm_compute. repeat split. Qed.

(* non-vacuity of C16_composed: incoming async / thread / sync requests, a cancel, two outgoing
   requests (one answered by an error, one given up by the caller and then answered) *)
Example composed_nonvacuous :
  let c := E.mkCfg E.WBlocking E.HookDefault None in
  let evs := [X.Base (E.UserSend (E.IStr [111%N]));
              X.Base (E.Recv (E.FReq true (E.IInt 1) E.POk (E.RUser (E.mkB (E.HAsync 1) (E.ORet 1) E.Propagate))));
              X.Base (E.UserSend (E.IInt 70));
              X.Base (E.Recv (E.FReq true (E.IInt 2) E.POk (E.RUser (E.mkB (E.HThread false) E.ORaise E.Propagate))));
              X.Base (E.Recv (E.FReq true (E.IInt 3) E.POk (E.RUser (E.mkB E.HSync (E.ORet 3) E.Propagate))));
              X.OutCancel 1; X.Base (E.TaskStep 0);
              X.Base (E.Recv (E.FNotif true 0 E.POk (E.NCancel (E.IInt 2))));
              X.Base (E.Recv (E.FResp true (E.IStr [111%N]) true E.POk));
              X.Base (E.TaskStep 0); X.Base (E.LoopCb 0);
              X.Base (E.Recv (E.FResp true (E.IInt 70) false E.POk))] in
  E.quiescent (X.runx c evs) = true /\ OS.guard (project c evs) = true /\
  OS.all_answered (project c evs) /\ E.outg (X.runx c evs) = [E.ODone; E.OCancelled] /\
  E.futs (X.runx c evs) = [] /\ E.rtypes (X.runx c evs) = [] /\ length (project c evs) = 12.
Proof. vm_compute. repeat split. Qed.

Print Assumptions link_run.
Print Assumptions C16_composed.
