(* Proofs about Model/Client.v: futures only move from pending to done and are never lost
   (frame), the invariant of the client bookkeeping, and the liveness-style statements over
   arbitrary event lists that contain the enabling events. *)
From Coq Require Import NArith ZArith List Bool Lia.
From Pygls Require Import Model.Client Spec.ClientSpec.
Import ListNotations.
Open Scope N_scope.

(* the repaired code: row 9 (run_async), row 6 (wrapped error handler), and the exit watcher
   cancelling handler tasks instead of calling set_exception on them *)
Definition good (c : config) : Prop := fix_eof c = true /\ fix_wrap c = true /\ fix_task c = true.

Lemma run_from_app : forall c s a b, run_from c s (a ++ b) = run_from c (run_from c s a) b.
Proof. intros. unfold run_from. apply fold_left_app. Qed.

Lemma run_from_cons : forall c s e r, run_from c s (e :: r) = run_from c (step c s e) r.
Proof. reflexivity. Qed.

(* ------------------------------------------------------------------------------------ *)
(* association lists                                                                    *)
(* ------------------------------------------------------------------------------------ *)
Lemma aget_aset : forall l i v j,
  aget (aset l i v) j =
  if i =? j then match aget l i with Some _ => Some v | None => None end else aget l j.
Proof.
  induction l as [|[k w] r IH]; intros i v j; cbn [aget aset].
  - destruct (i =? j); reflexivity.
  - destruct (k =? i) eqn:E; cbn [aget].
    + apply N.eqb_eq in E; subst k. destruct (i =? j); reflexivity.
    + rewrite IH. destruct (k =? j) eqn:F, (i =? j) eqn:G; try reflexivity.
      apply N.eqb_eq in F, G. subst. rewrite N.eqb_refl in E. discriminate.
Qed.

Lemma aget_app_some : forall l k v j x, aget l j = Some x -> aget (l ++ [(k, v)]) j = Some x.
Proof.
  induction l as [|[a w] r IH]; intros k v j x H; cbn [aget app] in *; [discriminate|].
  destruct (a =? j); [exact H|apply IH; exact H].
Qed.

Lemma aget_app_none : forall l k v j,
  aget l j = None -> aget (l ++ [(k, v)]) j = if k =? j then Some v else None.
Proof.
  induction l as [|[a w] r IH]; intros k v j H; cbn [aget app] in *; [reflexivity|].
  destruct (a =? j); [discriminate|apply IH; exact H].
Qed.

Lemma mem_app : forall i l m, mem i (l ++ m) = mem i l || mem i m.
Proof.
  induction l as [|k r IH]; intros m; cbn [mem app]; [reflexivity|].
  rewrite IH. apply orb_assoc.
Qed.

Lemma mem_remove_neq : forall i j l, i <> j -> mem j (remove i l) = mem j l.
Proof.
  induction l as [|k r IH]; intros H; cbn [mem remove]; [reflexivity|].
  destruct (k =? i) eqn:E.
  - apply N.eqb_eq in E; subst k.
    replace (i =? j) with false by (symmetry; apply N.eqb_neq; exact H). reflexivity.
  - cbn [mem]. rewrite IH by exact H. reflexivity.
Qed.

(* the table restricted to this side's requests *)
Fixpoint own_ids (es : list entry) : list id :=
  match es with
  | [] => []
  | Own i :: r => i :: own_ids r
  | HTask _ :: r => own_ids r
  end.

Lemma memo_own : forall i es, memo i es = mem i (own_ids es).
Proof.
  induction es as [|[k|k] r IH]; cbn [memo own_ids mem is_own]; [reflexivity| |].
  - rewrite IH. reflexivity.
  - rewrite IH. reflexivity.
Qed.

Lemma own_remove_own : forall i es, own_ids (remove_own i es) = remove i (own_ids es).
Proof.
  induction es as [|[k|k] r IH]; cbn [remove_own own_ids remove is_own]; [reflexivity| |].
  - destruct (k =? i); [reflexivity|]. cbn [own_ids]. rewrite IH. reflexivity.
  - cbn [own_ids]. exact IH.
Qed.

Lemma own_remove_task : forall j es, own_ids (remove_task j es) = own_ids es.
Proof.
  induction es as [|[k|k] r IH]; cbn [remove_task own_ids is_task]; [reflexivity| |].
  - cbn [own_ids]. rewrite IH. reflexivity.
  - destruct (k =? j); [reflexivity|]. cbn [own_ids]. exact IH.
Qed.

Lemma own_app : forall a b, own_ids (a ++ b) = own_ids a ++ own_ids b.
Proof.
  induction a as [|[k|k] r IH]; intros b; cbn [app own_ids]; [reflexivity| |].
  - rewrite IH. reflexivity.
  - apply IH.
Qed.

(* the fail loop on this side's requests alone *)
Fixpoint fail_all (rc : Z) (ids : list id) (f : list (id * fstate)) : list (id * fstate) :=
  match ids with
  | [] => f
  | i :: r =>
    match aget f i with
    | Some Pending => fail_all rc r (aset f i (FailedExit rc))
    | _ => fail_all rc r f
    end
  end.

(* ------------------------------------------------------------------------------------ *)
(* futures: the order "nothing is lost, done futures keep their state"                   *)
(* ------------------------------------------------------------------------------------ *)
Definition le (f f' : list (id * fstate)) : Prop :=
  forall i st, aget f i = Some st ->
    (is_done st = true -> aget f' i = Some st) /\ (exists st', aget f' i = Some st').

(* no operation but Send makes a pending future appear *)
Definition nopend (f f' : list (id * fstate)) : Prop :=
  forall i, aget f' i = Some Pending -> aget f i = Some Pending.

Lemma le_refl : forall f, le f f.
Proof. intros f i st H. split; eauto. Qed.

Lemma le_trans : forall f g h, le f g -> le g h -> le f h.
Proof.
  intros f g h A B i st H. destruct (A i st H) as [A1 [st' A2]].
  destruct (B i st' A2) as [B1 B2]. split; [|exact B2].
  intros D. destruct (B i st (A1 D)) as [B3 _]. exact (B3 D).
Qed.

Lemma le_aset_pending : forall f i v, aget f i = Some Pending -> le f (aset f i v).
Proof.
  intros f i v Hp j st H. rewrite aget_aset. destruct (i =? j) eqn:E.
  - apply N.eqb_eq in E; subst j. rewrite Hp in H. injection H as <-. rewrite Hp.
    split; [intro D; discriminate|eauto].
  - split; eauto.
Qed.

Lemma le_app : forall f k v, le f (f ++ [(k, v)]).
Proof. intros f k v i st H. rewrite (aget_app_some _ _ _ _ _ H). split; eauto. Qed.

Lemma nopend_refl : forall f, nopend f f.
Proof. intros f i H; exact H. Qed.

Lemma nopend_trans : forall f g h, nopend f g -> nopend g h -> nopend f h.
Proof. intros f g h A B i H. apply A, B, H. Qed.

Lemma nopend_aset : forall f i v, v <> Pending -> nopend f (aset f i v).
Proof.
  intros f i v Hv j H. rewrite aget_aset in H. revert H. destruct (i =? j); [|exact (fun H => H)].
  destruct (aget f i); [|discriminate]. intros H. injection H as H. contradiction.
Qed.

(* ------------------------------------------------------------------------------------ *)
(* fail_all                                                                             *)
(* ------------------------------------------------------------------------------------ *)
Lemma fail_all_le : forall rc ids f, le f (fail_all rc ids f) /\ nopend f (fail_all rc ids f).
Proof.
  induction ids as [|i r IH]; intros f; cbn [fail_all]; [split; [apply le_refl|apply nopend_refl]|].
  destruct (aget f i) as [[| | | |]|] eqn:E; try apply IH.
  destruct (IH (aset f i (FailedExit rc))) as [A B]. split.
  - eapply le_trans; [apply le_aset_pending; exact E|exact A].
  - eapply nopend_trans; [apply (nopend_aset f i (FailedExit rc)); discriminate|exact B].
Qed.

(* every future whose id is in the table, or that is done already, is done afterwards *)
Lemma fail_all_done : forall rc ids f i st,
  aget f i = Some st -> mem i ids = true \/ is_done st = true ->
  exists st', aget (fail_all rc ids f) i = Some st' /\ is_done st' = true.
Proof.
  induction ids as [|k r IH]; intros f i st H D; cbn [fail_all mem] in *.
  - destruct D as [D|D]; [discriminate|eauto].
  - destruct (N.eq_dec k i) as [->|Hne].
    + destruct st.
      * rewrite H. apply (IH _ i (FailedExit rc)); [|right; reflexivity].
        rewrite aget_aset, N.eqb_refl, H. reflexivity.
      * rewrite H. apply (IH _ i (Resolved v)); [exact H|right; reflexivity].
      * rewrite H. apply (IH _ i (FailedRpc code)); [exact H|right; reflexivity].
      * rewrite H. apply (IH _ i (FailedExit rc0)); [exact H|right; reflexivity].
      * rewrite H. apply (IH _ i Cancelled); [exact H|right; reflexivity].
    + replace (k =? i) with false in D by (symmetry; apply N.eqb_neq; exact Hne).
      cbn [orb] in D.
      destruct (aget f k) as [[| | | |]|] eqn:E; try (apply (IH _ i st); assumption).
      apply (IH _ i st); [|exact D]. rewrite aget_aset.
      replace (k =? i) with false by (symmetry; apply N.eqb_neq; exact Hne). exact H.
Qed.

(* a pending future whose id is in the table fails with the exit error *)
Lemma fail_all_pending : forall rc ids f i,
  aget f i = Some Pending -> mem i ids = true ->
  aget (fail_all rc ids f) i = Some (FailedExit rc).
Proof.
  induction ids as [|k r IH]; intros f i H M; cbn [fail_all mem] in *; [discriminate|].
  destruct (N.eq_dec k i) as [->|Hne].
  - rewrite H. destruct (fail_all_le rc r (aset f i (FailedExit rc))) as [A _].
    apply (A i (FailedExit rc)); [|reflexivity].
    rewrite aget_aset, N.eqb_refl, H. reflexivity.
  - replace (k =? i) with false in M by (symmetry; apply N.eqb_neq; exact Hne).
    cbn [orb] in M.
    destruct (aget f k) as [[| | | |]|] eqn:E; try (apply IH; assumption).
    apply IH; [|exact M]. rewrite aget_aset.
    replace (k =? i) with false by (symmetry; apply N.eqb_neq; exact Hne). exact H.
Qed.

(* the loop as coded, with the handler tasks in the table *)
Lemma fail_loop_le : forall c rc es f h,
  le f (fst (fst (fail_loop c rc es f h))) /\ nopend f (fst (fst (fail_loop c rc es f h))).
Proof.
  intros c rc. induction es as [|[i|j] r IH]; intros f h; cbn [fail_loop].
  - split; [apply le_refl|apply nopend_refl].
  - destruct (aget f i) as [[| | | |]|] eqn:E; try apply IH.
    destruct (IH (aset f i (FailedExit rc)) h) as [A B]. split.
    + eapply le_trans; [apply le_aset_pending; exact E|exact A].
    + eapply nopend_trans; [apply (nopend_aset f i (FailedExit rc)); discriminate|exact B].
  - destruct (hget h j) as [st|]; [|apply IH].
    destruct (h_done st); [apply IH|]. destruct (fix_task c); [apply IH|].
    split; [apply le_refl|apply nopend_refl].
Qed.

(* repaired: the loop visits every entry, never raises, and does to this side's futures what
   fail_all does *)
Lemma fail_loop_fixed : forall c rc es f h, fix_task c = true ->
  fst (fst (fail_loop c rc es f h)) = fail_all rc (own_ids es) f /\
  snd (fail_loop c rc es f h) = false.
Proof.
  intros c rc es f h T. revert f h.
  induction es as [|[i|j] r IH]; intros f h; cbn [fail_loop own_ids fail_all].
  - split; reflexivity.
  - destruct (aget f i) as [[| | | |]|]; apply IH.
  - destruct (hget h j) as [st|]; [|apply IH]. destruct (h_done st); [apply IH|].
    rewrite T. apply IH.
Qed.

Lemma fail_loop_noraise_futs : forall c rc es f h,
  snd (fail_loop c rc es f h) = false ->
  fst (fst (fail_loop c rc es f h)) = fail_all rc (own_ids es) f.
Proof.
  intros c rc. induction es as [|[i|j] r IH]; intros f h; cbn [fail_loop own_ids fail_all].
  - reflexivity.
  - destruct (aget f i) as [[| | | |]|]; apply IH.
  - destruct (hget h j) as [st|]; [|apply IH]. destruct (h_done st); [apply IH|].
    destruct (fix_task c); [apply IH|]. cbn. discriminate.
Qed.

Lemma fail_loop_raised : forall c rc es f h,
  snd (fail_loop c rc es f h) = true -> fix_task c = false.
Proof.
  intros c rc es f h H. destruct (fix_task c) eqn:T; [|reflexivity].
  destruct (fail_loop_fixed c rc es f h T) as [_ B]. rewrite B in H. discriminate.
Qed.

(* ------------------------------------------------------------------------------------ *)
(* the reader task                                                                      *)
(* ------------------------------------------------------------------------------------ *)
Ltac split_ifs :=
  repeat match goal with
         | |- context [if ?b then _ else _] => destruct b eqn:?
         | |- context [match ?x with Some _ => _ | None => _ end] => destruct x eqn:?
         | |- context [match ?x with Pending => _ | _ => _ end] => destruct x eqn:?
         | |- context [match ?x with RResult _ => _ | RError _ => _ end] => destruct x eqn:?
         end.

(* the fields neither the reader nor the caller's sends touch *)
Definition ctl_eq (s s' : state) : Prop :=
  proc s' = proc s /\ tl s' = tl s /\ xtask s' = xtask s /\ stopped s' = stopped s /\
  hook_calls s' = hook_calls s.

Lemma ctl_eq_refl : forall s, ctl_eq s s.
Proof. intros s. repeat split. Qed.

Lemma ctl_eq_trans : forall a b d, ctl_eq a b -> ctl_eq b d -> ctl_eq a d.
Proof.
  intros a b d (A1 & A2 & A3 & A4 & A5) (B1 & B2 & B3 & B4 & B5).
  repeat split; congruence.
Qed.

(* what the futures and the table look like after one item *)
Definition futs_ok (s s' : state) : Prop :=
  le (futs s) (futs s') /\ nopend (futs s) (futs s').

Lemma futs_ok_refl : forall s, futs_ok s s.
Proof. intros s. split; [apply le_refl|apply nopend_refl]. Qed.

Lemma futs_ok_trans : forall a b d, futs_ok a b -> futs_ok b d -> futs_ok a d.
Proof.
  intros a b d [A1 A2] [B1 B2]. split; [eapply le_trans|eapply nopend_trans]; eassumption.
Qed.

Definition pend_in_rf (s : state) : Prop :=
  forall i, aget (futs s) i = Some Pending -> mem i (own_ids (rf s)) = true.

Section Reader.
Variable c : config.

Lemma consume_P (P : state -> Prop) :
  (forall s r, P s -> P (set_reader s r)) ->
  (forall s p, P s -> P (set_pipe s p)) ->
  (forall s it, P s -> P (handle_item c s it)) ->
  forall p s, P s -> P (consume c p s).
Proof.
  intros Hr Hp Hi. induction p as [|it p IH]; intros s H; cbn [consume].
  - destruct (stopped s); [apply Hp, Hr, H|]. destruct (proc s); [apply Hr, H|].
    unfold at_eof. destruct (tl s); try (apply Hr, H). destruct (fix_eof c); apply Hr, H.
  - destruct (stopped s); [apply Hp, Hr, H|].
    destruct (reader (handle_item c s it)) eqn:E; try (apply IH, Hi, H). apply Hp, Hi, H.
Qed.

Lemma reader_run_P (P : state -> Prop) :
  (forall s r, P s -> P (set_reader s r)) ->
  (forall s p, P s -> P (set_pipe s p)) ->
  (forall s it, P s -> P (handle_item c s it)) ->
  forall s, P s -> P (reader_run c s).
Proof.
  intros Hr Hp Hi s H. unfold reader_run. destruct (reader s); try exact H.
  - apply consume_P; auto.
  - destruct (stopped s).
    + destruct (pipe s), (proc s); auto.
    + apply consume_P; auto.
Qed.

Lemma handle_item_ctl : forall s it, ctl_eq s (handle_item c s it).
Proof.
  intros s it. unfold ctl_eq. destruct it; cbn [handle_item];
    unfold handle_reply, call_error_handler, handle_request; split_ifs; cbn; repeat split.
Qed.

Lemma handle_item_futs : forall s it, futs_ok s (handle_item c s it).
Proof.
  intros s it. destruct it; cbn [handle_item]; unfold handle_reply, call_error_handler.
  - destruct (memo i (rf s)); [|split_ifs; (split; cbn; [apply le_refl|apply nopend_refl])].
    cbn [futs set_rf]. destruct (aget (futs s) i) as [[| | | |]|] eqn:E;
      try (split_ifs; (split; cbn; [apply le_refl|apply nopend_refl])).
    split; cbn [futs set_futs set_rf].
    + apply le_aset_pending; exact E.
    + apply nopend_aset. destruct r; discriminate.
  - split_ifs; (split; cbn; [apply le_refl|apply nopend_refl]).
  - unfold handle_request. split_ifs; (split; cbn; [apply le_refl|apply nopend_refl]).
  - split_ifs; (split; cbn; [apply le_refl|apply nopend_refl]).
  - (split; cbn; [apply le_refl|apply nopend_refl]).
Qed.

Lemma handle_item_pend : forall s it, pend_in_rf s -> pend_in_rf (handle_item c s it).
Proof.
  intros s it H. destruct it; cbn [handle_item]; unfold handle_reply, call_error_handler.
  - destruct (memo i (rf s)) eqn:M; [|split_ifs; exact H].
    assert (K : forall s', futs s' = futs s -> rf s' = remove_own i (rf s) ->
                (forall j, aget (futs s') j = Some Pending -> j <> i) -> pend_in_rf s').
    { intros s' F R Ne j Hj. rewrite R, own_remove_own, mem_remove_neq.
      - apply H. rewrite <- F. exact Hj.
      - intros ->. exact (Ne j Hj eq_refl). }
    cbn [futs set_rf]. destruct (aget (futs s) i) as [[| | | |]|] eqn:E.
    + intros j. cbn [futs rf set_futs set_rf]. rewrite aget_aset. destruct (i =? j) eqn:F.
      * rewrite E. destruct r; discriminate.
      * intros Hj. rewrite own_remove_own, mem_remove_neq; [apply H, Hj|apply N.eqb_neq, F].
    + split_ifs; (apply K; [reflexivity|reflexivity|intros j Hj ->; cbn in Hj; congruence]).
    + split_ifs; (apply K; [reflexivity|reflexivity|intros j Hj ->; cbn in Hj; congruence]).
    + split_ifs; (apply K; [reflexivity|reflexivity|intros j Hj ->; cbn in Hj; congruence]).
    + split_ifs; (apply K; [reflexivity|reflexivity|intros j Hj ->; cbn in Hj; congruence]).
    + split_ifs; (apply K; [reflexivity|reflexivity|intros j Hj ->; cbn in Hj; congruence]).
  - split_ifs; exact H.
  - unfold handle_request. destruct (hget (htasks s) j); [exact H|].
    intros k Hk. cbn [futs rf set_htasks set_rf] in *. rewrite own_app. cbn [own_ids].
    rewrite app_nil_r. apply H, Hk.
  - split_ifs; exact H.
  - exact H.
Qed.

(* under the wrapped error handler an item never kills the reader *)
Lemma handle_item_reader : forall s it, fix_wrap c = true -> reader (handle_item c s it) = reader s.
Proof.
  intros s it W. destruct it; cbn [handle_item]; unfold handle_reply, call_error_handler, handle_request;
    rewrite ?W; split_ifs; reflexivity.
Qed.

(* an item that is not a reply to request i leaves future i and its table entry alone *)
Definition not_reply_to (i : id) (it : item) : bool :=
  match it with Reply j _ => negb (j =? i) | _ => true end.

Lemma handle_item_other : forall s it i,
  not_reply_to i it = true ->
  aget (futs (handle_item c s it)) i = aget (futs s) i /\
  mem i (own_ids (rf (handle_item c s it))) = mem i (own_ids (rf s)).
Proof.
  intros s it i N. destruct it; cbn [handle_item not_reply_to] in *;
    unfold handle_reply, call_error_handler.
  - apply negb_true_iff, N.eqb_neq in N.
    split_ifs; cbn; try rewrite aget_aset;
      try (replace (i0 =? i) with false by (symmetry; apply N.eqb_neq; exact N));
      split; try reflexivity; try (rewrite own_remove_own; apply mem_remove_neq; exact N).
  - split_ifs; cbn; split; reflexivity.
  - unfold handle_request. destruct (hget (htasks s) j); [split; reflexivity|].
    cbn. rewrite own_app. cbn [own_ids]. rewrite app_nil_r. split; reflexivity.
  - split_ifs; cbn; split; reflexivity.
  - split; reflexivity.
Qed.

End Reader.

Section ReaderRun.
Variable c : config.

Lemma reader_run_ctl : forall s, ctl_eq s (reader_run c s).
Proof.
  intros s. apply (reader_run_P c (fun s' => ctl_eq s s')); [| | |apply ctl_eq_refl].
  - intros s' r H. exact H.
  - intros s' p H. exact H.
  - intros s' it H. eapply ctl_eq_trans; [exact H|apply handle_item_ctl].
Qed.

Lemma reader_run_futs : forall s, futs_ok s (reader_run c s).
Proof.
  intros s. apply (reader_run_P c (fun s' => futs_ok s s')); [| | |apply futs_ok_refl].
  - intros s' r H. exact H.
  - intros s' p H. exact H.
  - intros s' it H. eapply futs_ok_trans; [exact H|apply handle_item_futs].
Qed.

Lemma reader_run_pend : forall s, pend_in_rf s -> pend_in_rf (reader_run c s).
Proof.
  intros s. apply (reader_run_P c pend_in_rf).
  - intros s' r H. exact H.
  - intros s' p H. exact H.
  - intros s' it H. apply handle_item_pend, H.
Qed.

Hypothesis G : good c.

Lemma consume_noraise : forall p s,
  (forall e, reader s <> RRaised e) -> forall e, reader (consume c p s) <> RRaised e.
Proof.
  destruct G as (Ge & Gw & Gt).
  induction p as [|it p IH]; intros s H e; cbn [consume].
  - destruct (stopped s); [cbn; discriminate|]. destruct (proc s); [cbn; discriminate|].
    unfold at_eof. rewrite Ge. destruct (tl s); cbn; discriminate.
  - destruct (stopped s); [cbn; discriminate|].
    pose proof (handle_item_reader c s it Gw) as R.
    destruct (reader (handle_item c s it)) eqn:E;
      try (apply IH; intros e'; rewrite E; discriminate).
    exfalso. apply (H e0). rewrite <- R. reflexivity.
Qed.

Lemma reader_run_noraise : forall s,
  (forall e, reader s <> RRaised e) -> forall e, reader (reader_run c s) <> RRaised e.
Proof.
  intros s H e. unfold reader_run. destruct (reader s) eqn:E; try (rewrite E; discriminate).
  - apply consume_noraise. cbn. rewrite E. discriminate.
  - destruct (stopped s).
    + destruct (pipe s), (proc s); cbn; try rewrite E; discriminate.
    + apply consume_noraise. cbn. rewrite E. discriminate.
  - exfalso. exact (H e0 eq_refl).
Qed.

Lemma consume_exited_ends : forall p s rc,
  proc s = Exited rc -> (forall e, reader s <> RRaised e) -> reader (consume c p s) = REnded.
Proof.
  destruct G as (Ge & Gw & Gt).
  induction p as [|it p IH]; intros s rc P H; cbn [consume].
  - destruct (stopped s); [reflexivity|]. rewrite P. unfold at_eof. rewrite Ge.
    destruct (tl s); reflexivity.
  - destruct (stopped s); [reflexivity|].
    pose proof (handle_item_reader c s it Gw) as R.
    destruct (handle_item_ctl c s it) as (P' & _).
    destruct (reader (handle_item c s it)) eqn:E;
      try (apply (IH _ rc); [rewrite P'; exact P|intros e'; rewrite E; discriminate]).
    exfalso. apply (H e). rewrite <- R. reflexivity.
Qed.

(* once the process is dead one run of the reader task is its last *)
Lemma reader_run_exited_ends : forall s rc,
  proc s = Exited rc -> (forall e, reader s <> RRaised e) -> reader (reader_run c s) = REnded.
Proof.
  intros s rc P H. unfold reader_run. destruct (reader s) eqn:E.
  - apply (consume_exited_ends _ _ rc); [exact P|cbn; rewrite E; discriminate].
  - destruct (stopped s).
    + rewrite P. destruct (pipe s); reflexivity.
    + apply (consume_exited_ends _ _ rc); [exact P|cbn; rewrite E; discriminate].
  - exact E.
  - exfalso. exact (H e eq_refl).
Qed.

End ReaderRun.

(* a request nobody answered: the reader leaves it alone *)
Definition no_reply_to (i : id) (p : list item) : bool := forallb (not_reply_to i) p.

Lemma handle_item_pipe : forall c s it, pipe (handle_item c s it) = pipe s.
Proof.
  intros c s it. destruct it; cbn [handle_item]; unfold handle_reply, call_error_handler, handle_request;
    split_ifs; reflexivity.
Qed.

Lemma consume_other : forall c i p s,
  no_reply_to i p = true -> no_reply_to i (pipe s) = true ->
  aget (futs (consume c p s)) i = aget (futs s) i /\
  mem i (own_ids (rf (consume c p s))) = mem i (own_ids (rf s)) /\
  no_reply_to i (pipe (consume c p s)) = true.
Proof.
  intros c i. induction p as [|it p IH]; intros s N Q; cbn [consume].
  - destruct (stopped s); [cbn; auto|]. destruct (proc s); [cbn; auto|].
    unfold at_eof. destruct (tl s); cbn; auto. destruct (fix_eof c); cbn; auto.
  - cbn [no_reply_to forallb] in N. apply andb_true_iff in N. destruct N as [N1 N2].
    destruct (stopped s).
    + cbn. unfold no_reply_to. cbn [forallb]. rewrite N1. auto.
    + destruct (handle_item_other c s it i N1) as [A B].
      pose proof (handle_item_pipe c s it) as PP.
      destruct (reader (handle_item c s it)) eqn:E.
      * destruct (IH (handle_item c s it) N2) as (X & Y & Z); [rewrite PP; exact Q|].
        rewrite X, Y, A, B. auto.
      * destruct (IH (handle_item c s it) N2) as (X & Y & Z); [rewrite PP; exact Q|].
        rewrite X, Y, A, B. auto.
      * destruct (IH (handle_item c s it) N2) as (X & Y & Z); [rewrite PP; exact Q|].
        rewrite X, Y, A, B. auto.
      * cbn. rewrite A, B. auto.
Qed.

Lemma reader_run_other : forall c i s,
  no_reply_to i (pipe s) = true ->
  aget (futs (reader_run c s)) i = aget (futs s) i /\
  mem i (own_ids (rf (reader_run c s))) = mem i (own_ids (rf s)) /\
  no_reply_to i (pipe (reader_run c s)) = true.
Proof.
  intros c i s Q. unfold reader_run. destruct (reader s); auto.
  - exact (consume_other c i (pipe s) (set_pipe s []) Q eq_refl).
  - destruct (stopped s).
    + destruct (pipe s) eqn:E, (proc s); cbn; try rewrite E; auto.
    + exact (consume_other c i (pipe s) (set_pipe s []) Q eq_refl).
Qed.

(* ------------------------------------------------------------------------------------ *)
(* the exit watcher                                                                     *)
(* ------------------------------------------------------------------------------------ *)
Lemma aget_in : forall l i, In i (map fst l) -> exists st', aget l i = Some st'.
Proof.
  induction l as [|[k w] r IH]; intros i H; [contradiction|]. cbn [aget].
  destruct (k =? i) eqn:E; [eauto|]. destruct H as [H|H]; [|apply IH, H].
  cbn in H. subst. rewrite N.eqb_refl in E. discriminate.
Qed.

Lemma all_done_le : forall f f' ids, le f f' -> all_done f ids = true -> all_done f' ids = true.
Proof.
  intros f f' ids L H. unfold all_done in *. rewrite forallb_forall in *. intros i Hi.
  specialize (H i Hi). destruct (aget f i) as [st|] eqn:E; [|discriminate].
  destruct (L i st E) as [A _]. rewrite (A H). exact H.
Qed.

(* after the fail loop every future there is, is done *)
Lemma fail_all_all_done : forall rc ids f,
  (forall i, aget f i = Some Pending -> mem i ids = true) ->
  all_done (fail_all rc ids f) (map fst (fail_all rc ids f)) = true.
Proof.
  intros rc ids f H. unfold all_done. apply forallb_forall. intros i Hi.
  destruct (aget_in _ _ Hi) as (st & E). rewrite E.
  destruct st; try reflexivity. exfalso.
  destruct (fail_all_le rc ids f) as [_ B]. pose proof (B i E) as P.
  rewrite (fail_all_pending rc ids f i P (H i P)) in E. discriminate.
Qed.

(* how many runs the exit watcher needs: a hook that suspends needs a second one *)
Definition needs (c : config) : nat :=
  match hook c with HookSlow | HookAwaits => 2 | _ => 1 end.

(* the fail loop of the exit watcher in state s *)
Definition looped (c : config) (s : state) (rc : Z) :=
  fail_loop c rc (rf s) (futs s) (htasks s).

(* the state after the fail loop *)
Definition after_loop (c : config) (s : state) (rc : Z) : state :=
  set_htasks (set_futs s (fst (fst (looped c s rc)))) (snd (fst (looped c s rc))).

(* ... and on entry into the hook *)
Definition entered (c : config) (s : state) (rc : Z) : state :=
  set_hook_calls (after_loop c s rc)
    (hook_calls s ++ [(rc, all_done (fst (fst (looped c s rc))) (map fst (fst (fst (looped c s rc)))))]).

Lemma server_exit_enter : forall c s rc,
  xtask s = XWaiting -> proc s = Exited rc -> snd (looped c s rc) = false ->
  server_exit_task c s = finish_exit (entered c s rc) \/
  (server_exit_task c s =
     set_xtask (entered c s rc) (XInHook rc (map fst (fst (fst (looped c s rc))))) /\
   needs c = 2%nat).
Proof.
  intros c s rc X P R. unfold server_exit_task, needs, entered, after_loop. rewrite X, P.
  unfold looped in *. destruct (fail_loop c rc (rf s) (futs s) (htasks s)) as [[f1 h1] r].
  cbn [fst snd] in *. subst r. cbn [futs set_futs set_htasks hook_calls].
  destruct (hook c); [left; reflexivity|left; reflexivity|right; split; reflexivity|].
  destruct (map fst f1) eqn:E; [left; reflexivity|right; split; reflexivity].
Qed.

(* unrepaired code only: the loop met a handler task that is not done *)
Lemma server_exit_raise : forall c s rc,
  xtask s = XWaiting -> proc s = Exited rc -> snd (looped c s rc) = true ->
  server_exit_task c s = set_xtask (after_loop c s rc) (XRaised ExTaskSetException).
Proof.
  intros c s rc X P R. unfold server_exit_task, after_loop. rewrite X, P.
  unfold looped in *. destruct (fail_loop c rc (rf s) (futs s) (htasks s)) as [[f1 h1] r].
  cbn [fst snd] in *. subst r. reflexivity.
Qed.

Lemma server_exit_resume : forall c s rc ids,
  xtask s = XInHook rc ids ->
  server_exit_task c s = finish_exit s \/
  (server_exit_task c s = s /\ all_done (futs s) ids = false).
Proof.
  intros c s rc ids X. unfold server_exit_task. rewrite X.
  destruct (hook c); auto. destruct (all_done (futs s) ids); auto.
Qed.

(* what no run of the exit watcher touches, and what it does to the futures (any code variant) *)
Lemma server_exit_frame : forall c s,
  futs_ok s (server_exit_task c s) /\ rf (server_exit_task c s) = rf s /\
  proc (server_exit_task c s) = proc s /\ reader (server_exit_task c s) = reader s /\
  pipe (server_exit_task c s) = pipe s.
Proof.
  intros c s. destruct (xtask s) eqn:X.
  - destruct (proc s) eqn:P.
    + unfold server_exit_task. rewrite X, P. split; [apply futs_ok_refl|repeat split; exact P].
    + destruct (snd (looped c s rc)) eqn:R.
      * rewrite (server_exit_raise c s rc X P R). unfold futs_ok, after_loop, looped; cbn.
        split; [exact (fail_loop_le c rc (rf s) (futs s) (htasks s))|repeat split; exact P].
      * destruct (server_exit_enter c s rc X P R) as [E|[E _]]; rewrite E;
          unfold futs_ok, entered, after_loop, looped; cbn;
          (split; [exact (fail_loop_le c rc (rf s) (futs s) (htasks s))|repeat split; exact P]).
  - destruct (server_exit_resume c s rc awaited X) as [E|[E _]]; rewrite E; unfold futs_ok; cbn;
      (split; [split; [apply le_refl|apply nopend_refl]|repeat split]).
  - unfold server_exit_task. rewrite X. split; [apply futs_ok_refl|repeat split].
  - unfold server_exit_task. rewrite X. split; [apply futs_ok_refl|repeat split].
Qed.

(* repaired: the loop is fail_all on this side's requests and does not raise *)
Lemma looped_fixed : forall c s rc, fix_task c = true ->
  fst (fst (looped c s rc)) = fail_all rc (own_ids (rf s)) (futs s) /\ snd (looped c s rc) = false.
Proof. intros c s rc T. apply fail_loop_fixed, T. Qed.

(* a run of a handler task touches only its own table entry and its own state *)
Lemma handler_step_frame : forall s j,
  futs (handler_step s j) = futs s /\ own_ids (rf (handler_step s j)) = own_ids (rf s) /\
  proc (handler_step s j) = proc s /\ reader (handler_step s j) = reader s /\
  xtask (handler_step s j) = xtask s /\ stopped (handler_step s j) = stopped s /\
  hook_calls (handler_step s j) = hook_calls s /\ pipe (handler_step s j) = pipe s.
Proof.
  intros s j. unfold handler_step. destruct (hget (htasks s) j) as [[| | |]|]; cbn;
    rewrite ?own_remove_task; repeat split.
Qed.

Lemma handler_return_frame : forall s j,
  futs (handler_return s j) = futs s /\ own_ids (rf (handler_return s j)) = own_ids (rf s) /\
  proc (handler_return s j) = proc s /\ reader (handler_return s j) = reader s /\
  xtask (handler_return s j) = xtask s /\ stopped (handler_return s j) = stopped s /\
  hook_calls (handler_return s j) = hook_calls s /\ pipe (handler_return s j) = pipe s.
Proof.
  intros s j. unfold handler_return. destruct (hget (htasks s) j) as [[| | |]|]; cbn;
    rewrite ?own_remove_task; repeat split.
Qed.

(* ------------------------------------------------------------------------------------ *)
(* one step                                                                             *)
(* ------------------------------------------------------------------------------------ *)
Lemma step_le : forall c s e, le (futs s) (futs (step c s e)).
Proof.
  intros c s e. destruct e; cbn [step].
  - cbn. apply le_app.
  - unfold do_cancel. destruct (aget (futs s) i) as [[| | | |]|] eqn:E; try apply le_refl.
    cbn. apply le_aset_pending, E.
  - unfold srv_write. destruct (proc s); cbn; apply le_refl.
  - unfold proc_exit. destruct (proc s); cbn; apply le_refl.
  - apply reader_run_futs.
  - apply server_exit_frame.
  - cbn [step]. destruct (handler_step_frame s j) as (A & _). rewrite A. apply le_refl.
  - cbn [step]. destruct (handler_return_frame s j) as (A & _). rewrite A. apply le_refl.
  - cbn. apply le_refl.
Qed.

Lemma run_le : forall c evs s, le (futs s) (futs (run_from c s evs)).
Proof.
  intros c. induction evs as [|e r IH]; intros s; [apply le_refl|].
  rewrite run_from_cons. eapply le_trans; [apply step_le|apply IH].
Qed.

(* frame: a future that is done keeps its state whatever happens next (any code variant) *)
Theorem done_stable : forall c evs s i st,
  aget (futs s) i = Some st -> is_done st = true -> aget (futs (run_from c s evs)) i = Some st.
Proof. intros c evs s i st H D. destruct (run_le c evs s i st H) as [A _]. exact (A D). Qed.

Lemma step_proc_exited : forall c s e rc, proc s = Exited rc -> proc (step c s e) = Exited rc.
Proof.
  intros c s e rc P. destruct e; cbn [step].
  - exact P.
  - unfold do_cancel. destruct (aget (futs s) i) as [[| | | |]|]; exact P.
  - unfold srv_write. rewrite P. exact P.
  - unfold proc_exit. rewrite P. exact P.
  - destruct (reader_run_ctl c s) as (A & _). rewrite A. exact P.
  - destruct (server_exit_frame c s) as (_ & _ & A & _). rewrite A. exact P.
  - destruct (handler_step_frame s j) as (_ & _ & A & _). rewrite A. exact P.
  - destruct (handler_return_frame s j) as (_ & _ & A & _). rewrite A. exact P.
  - exact P.
Qed.

Lemma run_proc_exited : forall c evs s rc, proc s = Exited rc -> proc (run_from c s evs) = Exited rc.
Proof.
  intros c. induction evs as [|e r IH]; intros s rc P; [exact P|].
  rewrite run_from_cons. apply IH, step_proc_exited, P.
Qed.

Lemma step_reader_other : forall c s e, e <> ReaderRun -> reader (step c s e) = reader s.
Proof.
  intros c s e N. destruct e; cbn [step]; try reflexivity.
  - unfold do_cancel. destruct (aget (futs s) i) as [[| | | |]|]; reflexivity.
  - unfold srv_write. destruct (proc s); reflexivity.
  - unfold proc_exit. destruct (proc s); reflexivity.
  - contradiction.
  - apply server_exit_frame.
  - apply handler_step_frame.
  - apply handler_return_frame.
Qed.

Lemma step_reader_ended : forall c s e, reader s = REnded -> reader (step c s e) = REnded.
Proof.
  intros c s e R. destruct e; try (rewrite step_reader_other by discriminate; exact R).
  cbn [step]. unfold reader_run. rewrite R. exact R.
Qed.

Lemma run_reader_ended : forall c evs s, reader s = REnded -> reader (run_from c s evs) = REnded.
Proof.
  intros c. induction evs as [|e r IH]; intros s R; [exact R|].
  rewrite run_from_cons. apply IH, step_reader_ended, R.
Qed.

Lemma step_xtask_other : forall c s e, e <> ServerExitTask -> xtask (step c s e) = xtask s.
Proof.
  intros c s e N. destruct e; cbn [step]; try reflexivity.
  - unfold do_cancel. destruct (aget (futs s) i) as [[| | | |]|]; reflexivity.
  - unfold srv_write. destruct (proc s); reflexivity.
  - unfold proc_exit. destruct (proc s); reflexivity.
  - destruct (reader_run_ctl c s) as (_ & _ & A & _). exact A.
  - contradiction.
  - apply handler_step_frame.
  - apply handler_return_frame.
Qed.

Lemma step_xtask_done : forall c s e, xtask s = XDone -> xtask (step c s e) = XDone.
Proof.
  intros c s e X. destruct e; try (rewrite step_xtask_other by discriminate; exact X).
  cbn [step]. unfold server_exit_task. rewrite X. exact X.
Qed.

Lemma run_xtask_done : forall c evs s, xtask s = XDone -> xtask (run_from c s evs) = XDone.
Proof.
  intros c. induction evs as [|e r IH]; intros s X; [exact X|].
  rewrite run_from_cons. apply IH, step_xtask_done, X.
Qed.

(* what only the exit watcher changes, and the stop flag never goes back *)
Lemma step_other_mid : forall c s e, e <> ServerExitTask ->
  hook_calls (step c s e) = hook_calls s /\ (stopped s = true -> stopped (step c s e) = true).
Proof.
  intros c s e N. destruct e; cbn [step]; try (split; [reflexivity|exact (fun H => H)]).
  - unfold do_cancel. destruct (aget (futs s) i) as [[| | | |]|]; split; auto.
  - unfold srv_write. destruct (proc s); split; auto.
  - unfold proc_exit. destruct (proc s); split; auto.
  - destruct (reader_run_ctl c s) as (_ & _ & _ & A & B). rewrite A, B. split; auto.
  - contradiction.
  - destruct (handler_step_frame s j) as (_ & _ & _ & _ & _ & A & B & _). rewrite A, B. split; auto.
  - destruct (handler_return_frame s j) as (_ & _ & _ & _ & _ & A & B & _). rewrite A, B. split; auto.
  - split; reflexivity.
Qed.

(* ------------------------------------------------------------------------------------ *)
(* the invariant                                                                        *)
(* ------------------------------------------------------------------------------------ *)
Definition Inv (c : config) (s : state) : Prop :=
  pend_in_rf s /\
  match xtask s with
  | XWaiting => hook_calls s = []
  | XInHook rc ids =>
    proc s = Exited rc /\ hook_calls s = [(rc, true)] /\ all_done (futs s) ids = true
  | XDone => stopped s = true /\ exists rc, proc s = Exited rc /\ hook_calls s = [(rc, true)]
  | XRaised _ => fix_task c = false         (* never in the repaired code *)
  end /\
  (good c -> forall e, reader s <> RRaised e).

Lemma inv_init : forall c, Inv c init.
Proof.
  intros c. split; [|split].
  - intros i H. discriminate.
  - reflexivity.
  - intros _ e. discriminate.
Qed.

Lemma step_pend : forall c s e, pend_in_rf s -> pend_in_rf (step c s e).
Proof.
  intros c s e I1. destruct e; cbn [step].
  - intros j Hj. cbn [futs rf do_send] in *. rewrite own_app, mem_app. cbn [own_ids].
    destruct (aget (futs s) j) eqn:E.
    + rewrite (aget_app_some _ _ _ _ _ E) in Hj. rewrite I1; [reflexivity|congruence].
    + rewrite (aget_app_none _ _ _ _ E) in Hj. cbn [mem].
      destruct (next s =? j); [apply orb_true_r|discriminate].
  - unfold do_cancel. destruct (aget (futs s) i) as [[| | | |]|] eqn:E; try exact I1.
    intros j Hj. cbn [futs rf set_futs] in *. apply I1.
    apply (nopend_aset (futs s) i Cancelled); [discriminate|exact Hj].
  - unfold srv_write. destruct (proc s); exact I1.
  - unfold proc_exit. destruct (proc s); exact I1.
  - apply reader_run_pend, I1.
  - destruct (server_exit_frame c s) as ((_ & B) & A & _).
    intros j Hj. rewrite A. apply I1, B, Hj.
  - destruct (handler_step_frame s j) as (A & B & _).
    intros k Hk. rewrite B. apply I1. rewrite <- A. exact Hk.
  - destruct (handler_return_frame s j) as (A & B & _).
    intros k Hk. rewrite B. apply I1. rewrite <- A. exact Hk.
  - exact I1.
Qed.

Lemma step_noraise : forall c s e, good c ->
  (forall x, reader s <> RRaised x) -> forall x, reader (step c s e) <> RRaised x.
Proof.
  intros c s e G H. destruct e; try (rewrite step_reader_other by discriminate; exact H).
  cbn [step]. apply reader_run_noraise; assumption.
Qed.

Lemma inv_step : forall c s e, Inv c s -> Inv c (step c s e).
Proof.
  intros c s e (I1 & I2 & I3).
  split; [apply step_pend, I1|split; [|intros G; apply step_noraise; [exact G|apply I3, G]]].
  assert (Other : e <> ServerExitTask ->
    match xtask (step c s e) with
    | XWaiting => hook_calls (step c s e) = []
    | XInHook rc ids => proc (step c s e) = Exited rc /\ hook_calls (step c s e) = [(rc, true)] /\
                        all_done (futs (step c s e)) ids = true
    | XDone => stopped (step c s e) = true /\
               exists rc, proc (step c s e) = Exited rc /\ hook_calls (step c s e) = [(rc, true)]
    | XRaised _ => fix_task c = false
    end).
  { intros N. rewrite (step_xtask_other c s e N). destruct (step_other_mid c s e N) as [A B].
    rewrite A. destruct (xtask s).
    - exact I2.
    - destruct I2 as (P & Hh & D). split; [apply step_proc_exited, P|split; [exact Hh|]].
      eapply all_done_le; [apply step_le|exact D].
    - destruct I2 as (St & rc & P & Hh). split; [apply B, St|].
      exists rc. split; [apply step_proc_exited, P|exact Hh].
    - exact I2. }
  destruct e; try (apply Other; discriminate).
  cbn [step]. destruct (xtask s) eqn:X.
  - destruct (proc s) eqn:P.
    + unfold server_exit_task. rewrite X, P, X. exact I2.
    + destruct (snd (looped c s rc)) eqn:R.
      * rewrite (server_exit_raise c s rc X P R). cbn. apply (fail_loop_raised _ _ _ _ _ R).
      * assert (D : all_done (fst (fst (looped c s rc))) (map fst (fst (fst (looped c s rc)))) = true).
        { unfold looped in *. rewrite (fail_loop_noraise_futs _ _ _ _ _ R).
          apply fail_all_all_done. exact I1. }
        destruct (server_exit_enter c s rc X P R) as [E|[E _]]; rewrite E;
          unfold entered, after_loop; cbn; rewrite I2, D.
        -- split; [reflexivity|]. exists rc. split; [exact P|reflexivity].
        -- split; [exact P|split; reflexivity].
  - destruct I2 as (P & Hh & D).
    destruct (server_exit_resume c s rc awaited X) as [E|[E _]]; rewrite E.
    + cbn. split; [reflexivity|]. exists rc. split; [exact P|exact Hh].
    + rewrite X. split; [exact P|split; [exact Hh|exact D]].
  - unfold server_exit_task. rewrite X, X. exact I2.
  - unfold server_exit_task. rewrite X, X. exact I2.
Qed.

Lemma inv_run_from : forall c evs s, Inv c s -> Inv c (run_from c s evs).
Proof.
  intros c. induction evs as [|e r IH]; intros s I; [exact I|].
  rewrite run_from_cons. apply IH, inv_step, I.
Qed.

Theorem inv_run : forall c evs, Inv c (run c evs).
Proof. intros c evs. apply inv_run_from, inv_init. Qed.

(* ------------------------------------------------------------------------------------ *)
(* liveness-style statements: event lists that contain the enabling events               *)
(* ------------------------------------------------------------------------------------ *)

(* A hook that suspended (on a timer, or waiting for the requests it knew of - which are all
   done already) is finished by the next run of the exit watcher. *)
Lemma hook_resumes : forall c rest s rc ids,
  Inv c s -> xtask s = XInHook rc ids -> (1 <= count_xtask rest)%nat ->
  xtask (run_from c s rest) = XDone.
Proof.
  intros c. induction rest as [|e r IH]; intros s rc ids I X H; [cbn in H; inversion H|].
  rewrite run_from_cons.
  assert (Wait : e <> ServerExitTask -> (1 <= count_xtask r)%nat ->
            xtask (run_from c (step c s e) r) = XDone).
  { intros Ne Hr. apply (IH _ rc ids (inv_step c s e I)); [|exact Hr].
    rewrite step_xtask_other by exact Ne. exact X. }
  destruct e; try (apply Wait; [discriminate|exact H]).
  apply run_xtask_done. cbn [step].
  destruct I as (_ & I2 & _). rewrite X in I2. destruct I2 as (_ & _ & D).
  destruct (server_exit_resume c s rc ids X) as [E|[_ E]]; [rewrite E; reflexivity|].
  rewrite D in E. discriminate.
Qed.

(* The exit watcher, once the process is dead: whenever it gets the runs it needs in the rest of
   the schedule, however late and whatever else happens, it has finished at the end and every
   future that existed when it was still waiting is done. *)
Lemma exit_task_fires : forall c rest s rc,
  fix_task c = true ->
  Inv c s -> proc s = Exited rc -> xtask s = XWaiting -> (needs c <= count_xtask rest)%nat ->
  xtask (run_from c s rest) = XDone /\
  forall i st, aget (futs s) i = Some st ->
    exists st', aget (futs (run_from c s rest)) i = Some st' /\ is_done st' = true.
Proof.
  intros c rest s rc T. revert s rc. induction rest as [|e r IH]; intros s rc I P X H.
  { unfold needs in H. cbn in H. destruct (hook c); inversion H. }
  rewrite run_from_cons.
  assert (Wait : e <> ServerExitTask -> (needs c <= count_xtask r)%nat ->
    xtask (run_from c (step c s e) r) = XDone /\
    forall i st, aget (futs s) i = Some st ->
      exists st', aget (futs (run_from c (step c s e) r)) i = Some st' /\ is_done st' = true).
  { intros Ne Hr.
    destruct (IH (step c s e) rc (inv_step c s e I) (step_proc_exited c s e rc P)) as [B1 B2];
      [rewrite step_xtask_other by exact Ne; exact X|exact Hr|].
    split; [exact B1|]. intros i st Hi.
    destruct (step_le c s e i st Hi) as [_ [st1 H1]]. apply (B2 i st1 H1). }
  destruct e; try (apply Wait; [discriminate|exact H]).
  cbn [step]. cbn [count_xtask is_xtask] in H.
  destruct (looped_fixed c s rc T) as [LF LR].
  assert (F : futs (server_exit_task c s) = fail_all rc (own_ids (rf s)) (futs s)).
  { destruct (server_exit_enter c s rc X P LR) as [E|[E _]]; rewrite E;
      unfold entered, after_loop; cbn; exact LF. }
  split.
  - destruct (server_exit_enter c s rc X P LR) as [E|[E N]].
    + apply run_xtask_done. rewrite E. reflexivity.
    + apply (hook_resumes c r _ rc (map fst (fst (fst (looped c s rc))))).
      * apply (inv_step c s ServerExitTask I).
      * rewrite E. reflexivity.
      * rewrite N in H. apply le_S_n, H.
  - intros i st Hi. destruct I as (I1 & _).
    assert (D : mem i (own_ids (rf s)) = true \/ is_done st = true).
    { destruct st; try (right; reflexivity). left. apply I1, Hi. }
    destruct (fail_all_done rc (own_ids (rf s)) (futs s) i st Hi D) as (st' & B1 & B2).
    exists st'. split; [|exact B2]. apply done_stable; [rewrite F; exact B1|exact B2].
Qed.

(* The reader task, once the process is dead (repaired code): one more run ends it normally. *)
Lemma reader_ends : forall c rest s rc,
  good c -> Inv c s -> proc s = Exited rc -> In ReaderRun rest ->
  reader (run_from c s rest) = REnded.
Proof.
  intros c. induction rest as [|e r IH]; intros s rc G I P H; [contradiction|].
  rewrite run_from_cons.
  assert (Wait : In ReaderRun r -> reader (run_from c (step c s e) r) = REnded).
  { intros Hr. apply (IH _ rc G (inv_step c s e I) (step_proc_exited c s e rc P) Hr). }
  destruct e; try (apply Wait; destruct H as [H|H]; [discriminate|exact H]).
  apply run_reader_ended. cbn [step]. destruct I as (_ & _ & I3).
  apply (reader_run_exited_ends c G s rc P (I3 G)).
Qed.

(* The statement of C17 over the model. *)
Theorem client_exit : forall c h rc t rest,
  good c -> proc (run c h) = Alive ->
  (needs c <= count_xtask rest)%nat -> In ReaderRun rest ->
  let s0 := run c h in
  let s := run c (h ++ ProcExit rc t :: rest) in
  (forall i st, aget (futs s0) i = Some st ->
     exists st', aget (futs s) i = Some st' /\ is_done st' = true /\ (is_done st = true -> st' = st)) /\
  hook_calls s = [(rc, true)] /\ stopped s = true /\ stop_outcome s = StopReturns.
Proof.
  intros c h rc t rest G A HX HR s0 s.
  change (proc s0 = Alive) in A.
  assert (I0 : Inv c s0) by apply inv_run.
  set (s1 := step c s0 (ProcExit rc t)).
  assert (Es : s = run_from c s1 rest).
  { unfold s, run. rewrite run_from_app, run_from_cons. reflexivity. }
  assert (P1 : proc s1 = Exited rc).
  { unfold s1. cbn [step]. unfold proc_exit. rewrite A. reflexivity. }
  assert (F1 : futs s1 = futs s0).
  { unfold s1. cbn [step]. unfold proc_exit. rewrite A. reflexivity. }
  assert (X0 : xtask s0 = XWaiting).
  { destruct I0 as (_ & I2 & _). destruct (xtask s0); [reflexivity| | |].
    - destruct I2 as (Q & _). rewrite A in Q. discriminate.
    - destruct I2 as (_ & rc' & Q & _). rewrite A in Q. discriminate.
    - destruct G as (_ & _ & T). rewrite T in I2. discriminate. }
  assert (X1 : xtask s1 = XWaiting).
  { unfold s1. rewrite step_xtask_other by discriminate. exact X0. }
  assert (I1 : Inv c s1) by (apply inv_step, I0).
  destruct (exit_task_fires c rest s1 rc (proj2 (proj2 G)) I1 P1 X1 HX) as [XD FD].
  assert (IS : Inv c s) by (rewrite Es; apply inv_run_from, I1).
  assert (PS : proc s = Exited rc) by (rewrite Es; apply run_proc_exited, P1).
  split; [|split; [|split]].
  - intros i st Hi. rewrite <- F1 in Hi. destruct (FD i st Hi) as (st' & B1 & B2).
    exists st'. rewrite Es. split; [exact B1|split; [exact B2|]].
    intros D. rewrite (done_stable c rest s1 i st Hi D) in B1. congruence.
  - destruct IS as (_ & I2 & _). rewrite Es in I2 |- *. rewrite XD in I2.
    destruct I2 as (_ & rc' & Q & Hh). rewrite <- Es in Q. rewrite PS in Q. congruence.
  - destruct IS as (_ & I2 & _). rewrite Es in I2 |- *. rewrite XD in I2. apply I2.
  - unfold stop_outcome. rewrite PS. rewrite Es.
    rewrite (reader_ends c rest s1 rc G I1 P1 HR), XD. reflexivity.
Qed.

(* Finer: a request nobody answered decodably and nobody cancelled fails with the exit error,
   carrying the return code (any code variant, any hook).  An undecodable reply (BadReply) does
   not count as an answer: the request stays outstanding and is failed like the others. *)
Fixpoint no_cancel_of (i : id) (evs : list event) : bool :=
  match evs with
  | [] => true
  | UserCancel j :: r => negb (j =? i) && no_cancel_of i r
  | _ :: r => no_cancel_of i r
  end.

Lemma exit_fails_pending : forall c i rest s rc,
  fix_task c = true ->
  Inv c s -> proc s = Exited rc -> xtask s = XWaiting ->
  aget (futs s) i = Some Pending -> no_reply_to i (pipe s) = true ->
  no_cancel_of i rest = true -> In ServerExitTask rest ->
  aget (futs (run_from c s rest)) i = Some (FailedExit rc).
Proof.
  intros c i rest s rc T. revert s rc. induction rest as [|e r IH]; intros s rc I P X Hi Q NC H; [contradiction|].
  rewrite run_from_cons.
  assert (Wait : e <> ServerExitTask -> In ServerExitTask r -> no_cancel_of i r = true ->
            aget (futs (step c s e)) i = Some Pending -> no_reply_to i (pipe (step c s e)) = true ->
            aget (futs (run_from c (step c s e) r)) i = Some (FailedExit rc)).
  { intros Ne Hr NCr Hi' Q'.
    apply IH; try assumption; [apply inv_step, I|apply step_proc_exited, P|].
    rewrite step_xtask_other by exact Ne. exact X. }
  destruct e; cbn [no_cancel_of] in NC.
  - apply Wait; [discriminate|destruct H as [H|H]; [discriminate|exact H]|exact NC| |exact Q].
    cbn. apply aget_app_some, Hi.
  - apply andb_true_iff in NC. destruct NC as [N1 N2]. apply negb_true_iff, N.eqb_neq in N1.
    apply Wait; [discriminate|destruct H as [H|H]; [discriminate|exact H]|exact N2| |].
    + cbn [step]. unfold do_cancel. destruct (aget (futs s) i0) as [[| | | |]|]; try exact Hi.
      cbn. rewrite aget_aset. replace (i0 =? i) with false by (symmetry; apply N.eqb_neq; exact N1).
      exact Hi.
    + cbn [step]. unfold do_cancel. destruct (aget (futs s) i0) as [[| | | |]|]; exact Q.
  - apply Wait; [discriminate|destruct H as [H|H]; [discriminate|exact H]|exact NC| |];
      cbn [step]; unfold srv_write; rewrite P; assumption.
  - apply Wait; [discriminate|destruct H as [H|H]; [discriminate|exact H]|exact NC| |];
      cbn [step]; unfold proc_exit; rewrite P; assumption.
  - destruct (reader_run_other c i s Q) as (A1 & A2 & A3).
    apply Wait; [discriminate|destruct H as [H|H]; [discriminate|exact H]|exact NC| |].
    + cbn [step]. rewrite A1. exact Hi.
    + cbn [step]. exact A3.
  - cbn [step].
    destruct (looped_fixed c s rc T) as [LF LR].
    assert (F : futs (server_exit_task c s) = fail_all rc (own_ids (rf s)) (futs s)).
    { destruct (server_exit_enter c s rc X P LR) as [E|[E _]]; rewrite E;
        unfold entered, after_loop; cbn; exact LF. }
    apply done_stable; [|reflexivity]. rewrite F.
    apply fail_all_pending; [exact Hi|]. destruct I as (I1 & _). apply I1, Hi.
  - destruct (handler_step_frame s j) as (A1 & _ & _ & _ & _ & _ & _ & A2).
    apply Wait; [discriminate|destruct H as [H|H]; [discriminate|exact H]|exact NC| |].
    + cbn [step]. rewrite A1. exact Hi.
    + cbn [step]. rewrite A2. exact Q.
  - destruct (handler_return_frame s j) as (A1 & _ & _ & _ & _ & _ & _ & A2).
    apply Wait; [discriminate|destruct H as [H|H]; [discriminate|exact H]|exact NC| |].
    + cbn [step]. rewrite A1. exact Hi.
    + cbn [step]. rewrite A2. exact Q.
  - apply Wait; [discriminate|destruct H as [H|H]; [discriminate|exact H]|exact NC| |]; cbn; assumption.
Qed.

Theorem exit_fails_all_outstanding : forall c h rc t rest i,
  fix_task c = true ->
  proc (run c h) = Alive ->
  aget (futs (run c h)) i = Some Pending ->        (* outstanding when the server dies *)
  no_reply_to i (pipe (run c h)) = true ->          (* no decodable answer to it is in flight *)
  no_cancel_of i rest = true ->                     (* the caller does not cancel it meanwhile *)
  In ServerExitTask rest ->
  aget (futs (run c (h ++ ProcExit rc t :: rest))) i = Some (FailedExit rc).
Proof.
  intros c h rc t rest i T A Hi Q NC HX.
  assert (I0 : Inv c (run c h)) by apply inv_run.
  unfold run at 1. rewrite run_from_app, run_from_cons. fold (run c h).
  assert (E : step c (run c h) (ProcExit rc t) =
              proc_exit (run c h) rc t) by reflexivity.
  apply exit_fails_pending; try assumption.
  - apply inv_step, I0.
  - rewrite E. unfold proc_exit. rewrite A. reflexivity.
  - rewrite step_xtask_other by discriminate.
    destruct I0 as (_ & I2 & _). destruct (xtask (run c h)); [reflexivity| | |].
    + destruct I2 as (Q' & _). rewrite A in Q'. discriminate.
    + destruct I2 as (_ & rc' & Q' & _). rewrite A in Q'. discriminate.
    + rewrite T in I2. discriminate.
  - rewrite E. unfold proc_exit. rewrite A. exact Hi.
  - rewrite E. unfold proc_exit. rewrite A. exact Q.
Qed.

Lemma needs_in : forall c rest, (needs c <= count_xtask rest)%nat -> In ServerExitTask rest.
Proof.
  intros c. induction rest as [|e r IH]; intros H.
  - unfold needs in H. cbn in H. destruct (hook c); inversion H.
  - destruct e; cbn [count_xtask is_xtask] in H; try (right; apply IH, H). left. reflexivity.
Qed.

(* named clauses (DESIGN Appendix B) *)
Corollary hook_once : forall c h rc t rest,
  good c -> proc (run c h) = Alive -> (needs c <= count_xtask rest)%nat -> In ReaderRun rest ->
  hook_calls (run c (h ++ ProcExit rc t :: rest)) = [(rc, true)].
Proof. intros. apply client_exit; assumption. Qed.

Corollary stopped_set : forall c h rc t rest,
  good c -> proc (run c h) = Alive -> (needs c <= count_xtask rest)%nat -> In ReaderRun rest ->
  stopped (run c (h ++ ProcExit rc t :: rest)) = true.
Proof. intros. apply client_exit; assumption. Qed.

Corollary stop_returns : forall c h rc t rest,
  good c -> proc (run c h) = Alive -> (needs c <= count_xtask rest)%nat -> In ReaderRun rest ->
  stop_outcome (run c (h ++ ProcExit rc t :: rest)) = StopReturns.
Proof. intros. apply client_exit; assumption. Qed.

(* frame, as a statement about histories: a result obtained before stays *)
Corollary resolved_kept : forall c evs1 evs2 i v,
  aget (futs (run c evs1)) i = Some (Resolved v) ->
  aget (futs (run c (evs1 ++ evs2))) i = Some (Resolved v).
Proof.
  intros c evs1 evs2 i v H. unfold run. rewrite run_from_app.
  apply done_stable; [exact H|reflexivity].
Qed.

(* ------------------------------------------------------------------------------------ *)
(* the executable reference                                                             *)
(* ------------------------------------------------------------------------------------ *)
Lemma fstate_eqb_refl : forall f, fstate_eqb f f = true.
Proof. destruct f; cbn; try reflexivity; try apply N.eqb_refl; apply Z.eqb_refl. Qed.

Lemma fstate_eqb_eq : forall f g, fstate_eqb f g = true -> f = g.
Proof.
  destruct f, g; cbn; intros H; try discriminate; try reflexivity.
  - apply N.eqb_eq in H. congruence.
  - apply Z.eqb_eq in H. congruence.
  - apply Z.eqb_eq in H. congruence.
Qed.

(* what the theorem promises for the futures that exist when the server dies *)
Definition weak_expect (f : list (id * fstate)) (i : id) : id * expect :=
  (i, match aget f i with
      | Some st => if is_done st then EKeep st else ENotPending
      | None => EAny
      end).
Definition weak_expects (f : list (id * fstate)) : list (id * expect) :=
  map (weak_expect f) (map fst f).

(* spec_ok is exactly the conjunction of the clauses *)
Lemma spec_ok_iff : forall exps o,
  spec_ok exps o = true <->
  (forall i e, In (i, e) exps -> exists f, aget (o_futs o) i = Some f /\ fut_ok e f = true) /\
  (exists rc, o_hooks o = [rc]) /\ o_stopped o = true /\ o_stop o = StopReturns.
Proof.
  intros exps o. unfold spec_ok. rewrite !andb_true_iff, forallb_forall. split.
  - intros (((A & B) & C) & D). split; [|split; [|split]].
    + intros i e H. specialize (A (i, e) H). unfold fut_check in A. cbn [fst snd] in A.
      destruct (aget (o_futs o) i); [eauto|discriminate].
    + destruct (o_hooks o) as [|x [|y r]]; try discriminate. eauto.
    + exact C.
    + destruct (o_stop o); try discriminate. reflexivity.
  - intros (A & (rc & B) & C & D). repeat split.
    + intros [i e] H. destruct (A i e H) as (f & F1 & F2). unfold fut_check. cbn [fst snd].
      rewrite F1. exact F2.
    + rewrite B. reflexivity.
    + exact C.
    + rewrite D. reflexivity.
Qed.

(* The check the correspondence run applies (Spec.ClientSpec.spec_ok) accepts the model's final
   observation with the expectations "done futures unchanged, pending ones done": i.e. spec_ok is
   the function the clauses of client_exit describe. *)
Theorem reference_agrees : forall c h rc t rest,
  good c -> proc (run c h) = Alive -> (needs c <= count_xtask rest)%nat -> In ReaderRun rest ->
  spec_ok (weak_expects (futs (run c h))) (observe (run c (h ++ ProcExit rc t :: rest))) = true.
Proof.
  intros c h rc t rest G A HX HR.
  destruct (client_exit c h rc t rest G A HX HR) as (F & Hh & Hs & Ho).
  apply spec_ok_iff. cbn [observe o_futs o_hooks o_stopped o_stop]. split; [|split; [|split]].
  - intros i e H. unfold weak_expects in H. apply in_map_iff in H. destruct H as (k & E & Hk).
    unfold weak_expect in E. injection E as -> <-.
    destruct (aget_in _ _ Hk) as (st & Hst). rewrite Hst.
    destruct (F i st Hst) as (st' & B1 & B2 & B3). exists st'. split; [exact B1|].
    destruct (is_done st) eqn:D; cbn [fut_ok].
    + rewrite (B3 eq_refl). apply fstate_eqb_refl.
    + exact B2.
  - eauto.
  - exact Hs.
  - exact Ho.
Qed.

(* stop() gathers the tasks the client created - the reader AND the exit watcher: it returns
   normally only once the process is dead, the reader has ended and the watcher has finished
   (hook run to completion, stop flag set); while the watcher is waiting or inside a suspended
   hook, stop() is still waiting. *)
Theorem stop_returns_iff : forall s,
  stop_outcome s = StopReturns <->
  (exists rc, proc s = Exited rc) /\ reader s = REnded /\ xtask s = XDone.
Proof.
  intros s. unfold stop_outcome. split.
  - destruct (proc s) eqn:P; [discriminate|]. destruct (reader s) eqn:R, (xtask s) eqn:X;
      try discriminate; intros _; repeat split; eauto.
  - intros ((rc & P) & R & X). rewrite P, R, X. reflexivity.
Qed.

Corollary stop_waits_for_hook : forall s rc ids,
  xtask s = XInHook rc ids -> stop_outcome s <> StopReturns.
Proof. intros s rc ids X H. apply stop_returns_iff in H. destruct H as (_ & _ & H). congruence. Qed.

(* when stop() returns the hook has been entered exactly once and has completed (Inv) *)
Corollary stop_returned_hook_completed : forall c evs,
  stop_outcome (run c evs) = StopReturns ->
  stopped (run c evs) = true /\ exists rc, hook_calls (run c evs) = [(rc, true)].
Proof.
  intros c evs H. apply stop_returns_iff in H. destruct H as (_ & _ & X).
  destruct (inv_run c evs) as (_ & I2 & _). rewrite X in I2. destruct I2 as (St & rc & _ & Hh). eauto.
Qed.
