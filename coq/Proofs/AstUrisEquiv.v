(* The translated source of pygls/uris.py (Gen/AstUris.v, regenerated from the source text by
   harness/gen_ast.py on every run): _normalize_win_path (POSIX branch), and the bodies of to_fs_path and
   uri_scheme GIVEN what pygls.uris.urlparse returns (that function wraps urllib and is not translated:
   it is an oracle here, instantiated with the hand model's urlparse), compute under the PyMini semantics
   exactly what Model/Uris.v computes.  Second part: from_fs_path, pygls.uris.urlunparse and uri_with, where
   urllib.parse.quote and urllib.parse.urlunparse are the oracles (instantiated with Model/Uris.v's quote and
   py_urlunparse) and calls between the translated functions run the translated bodies. *)
From Coq Require Import ZArith NArith List Bool String Ascii Lia ZifyBool ZifyN ZifyNat.
From Pygls Require Import Base.PyMini Base.PyMiniFacts Gen.AstUris Model.Uris.
Import ListNotations.
Open Scope string_scope.
Open Scope Z_scope.

(* ---------- primitives in closed form ---------- *)

Lemma re_drive_is_drive_match p : re_drive_letter_match p = drive_match p.
Proof. destruct p as [|a [|b [|c r]]]; reflexivity. Qed.

Lemma prefix1_starts_slash p : is_prefix1 47 p = starts_slash p.
Proof. destruct p as [|a r]; [reflexivity|]. cbn [is_prefix1 starts_slash]. apply N.eqb_sym. Qed.

Lemma take2_eq_2slash p : PyMini.str_eqb (take 2 p) [47; 47]%N = starts_2slash p.
Proof.
  destruct p as [|a [|b r]]; try reflexivity.
  - cbn. destruct (a =? 47)%N; reflexivity.
  - replace (take 2 (a :: b :: r)) with [a; b] by (destruct r; reflexivity).
    cbn [PyMini.str_eqb starts_2slash].
    unfold SLASH. destruct (a =? 47)%N; destruct (b =? 47)%N; reflexivity.
Qed.

Lemma break_app f s : s = (fst (break f s) ++ snd (break f s))%list.
Proof.
  induction s as [|c r IH]; [reflexivity|]. cbn [break]. destruct (f c); [reflexivity|].
  destruct (break f r) as [a b]. cbn [fst snd] in *. cbn [app]. f_equal. exact IH.
Qed.

Lemma find_char_break c s : forall i,
  find_char c s i = match snd (break (N.eqb c) s) with
                    | [] => -1
                    | _ => i + Z.of_N (len (fst (break (N.eqb c) s)))
                    end.
Proof.
  induction s as [|d r IH]; intros i; [reflexivity|]. cbn [find_char break].
  destruct (c =? d)%N.
  - cbn [fst snd]. change (len (@nil N)) with 0%N. lia.
  - rewrite IH. destruct (break (N.eqb c) r) as [a b]. cbn [fst snd]. destruct b; [reflexivity|].
    rewrite len_cons'. lia.
Qed.

Lemma take_len_app {A} (h t : list A) : take (len h) (h ++ t)%list = h.
Proof.
  induction h as [|x r IH]; [destruct t; reflexivity|]. cbn [app take]. rewrite len_cons'.
  replace (1 + len r =? 0)%N with false by lia. replace (1 + len r - 1)%N with (len r) by lia.
  f_equal. exact IH.
Qed.

Lemma drop_len_app {A} (h t : list A) : drop (len h) (h ++ t)%list = t.
Proof.
  induction h as [|x r IH]; [destruct t; reflexivity|]. cbn [app drop]. rewrite len_cons'.
  replace (1 + len r =? 0)%N with false by lia. replace (1 + len r - 1)%N with (len r) by lia. exact IH.
Qed.

Lemma drop_2_plus {A} (a b : A) r k : drop (2 + k) (a :: b :: r) = drop k r.
Proof.
  cbn [drop]. replace (2 + k =? 0)%N with false by lia. replace (2 + k - 1 =? 0)%N with false by lia.
  f_equal. lia.
Qed.

Lemma subscript_str_0 a r : py_subscript (VStr (a :: r)) (VInt 0) = Ok (VStr [a]).
Proof. exact (subscript_str_mid [] a r). Qed.

Lemma subscript_str_1 a b r : py_subscript (VStr (a :: b :: r)) (VInt 1) = Ok (VStr [b]).
Proof. exact (subscript_str_mid [a] b r). Qed.

Lemma alpha_ascii b : is_alpha b = true -> (b <? 128)%N = true.
Proof. unfold is_alpha, is_upper, is_lower. lia. Qed.

(* ---------- _normalize_win_path ---------- *)

Definition pair_val (p : list N * list N) : val := VTuple [VStr (fst p); VStr (snd p)].

(* the model's last two steps: leading slash, lower-case drive letter *)
Definition finish_path (path1 : list N) : list N :=
  let path2 := if starts_slash path1 then path1 else SLASH :: path1 in
  if drive_match path2
  then match path2 with a :: b :: r => a :: lower b :: r | _ => path2 end
  else path2.

Lemma normalize_ok call f path :
  run_fun call f f_normalize_win_path None [VStr path] [] = Ok (pair_val (normalize_win_path path)).
Proof.
  unfold run_fun, f_normalize_win_path. pybind.
  pystep. pystep. pystep.
  change (clamp_idx (len path) 2) with 2%N. rewrite take2_eq_2slash.
  (* what remains after the authority has been split off: the same for every way of getting there *)
  assert (forall env p1 nl, get "path" env = Some (VStr p1) -> get "$1" env = Some (VStr nl) ->
            exec_block call f env rest = OReturn (VTuple [VStr (finish_path p1); VStr nl])) as Htail.
  { intros env p1 nl G1 G2. unfold finish_path.
    pystep_env. rewrite prefix1_starts_slash.
    assert (forall env p2, get "path" env = Some (VStr p2) -> get "$1" env = Some (VStr nl) ->
              exec_block call f env rest =
              OReturn (VTuple [VStr (if drive_match p2
                                     then match p2 with a :: b :: r => a :: lower b :: r | _ => p2 end
                                     else p2); VStr nl])) as Hdrive.
    { clear. intros env p2 G1 G2.
      pystep_env. rewrite re_drive_is_drive_match.
      destruct (drive_match p2) eqn:Ed; pyexpr.
      - destruct p2 as [|a [|b [|c r]]]; try discriminate Ed.
        rewrite subscript_str_0, subscript_str_1. pyexpr.
        assert (is_alpha b = true) as Hb by (cbn [drive_match] in Ed; lia).
        rewrite (alpha_ascii b Hb). pyexpr.
        change (clamp_idx (len (a :: b :: c :: r)) 2) with 2%N.
        change (drop 2 (a :: b :: c :: r)) with (c :: r). change (lower1 b) with (lower b).
        pystep_env. reflexivity.
      - pystep_env. reflexivity. }
    destruct (starts_slash p1); cbn [negb]; cbv beta iota.
    - apply (Hdrive _ p1); assumption.
    - apply (Hdrive _ (SLASH :: p1)); pyexpr; [reflexivity | assumption]. }
  (* if path[:2] == "//" *)
  unfold normalize_win_path. fold (finish_path).
  destruct (starts_2slash path) eqn:E2; cbv beta iota.
  2: { rewrite (Htail _ path []) by reflexivity. reflexivity. }
  destruct path as [|a [|b r]]; try discriminate E2.
  assert (a = 47 /\ b = 47)%N as [-> ->] by (cbn [starts_2slash] in E2; unfold SLASH in E2; lia).
  change (2 <? 0) with false. change (Z.to_N 2) with 2%N. replace (drop 2 (47 :: 47 :: r)%N) with r by (destruct r; reflexivity).
  cbv beta iota. rewrite find_char_break.
  pose proof (break_app (N.eqb 47) r) as Hr. cbn [tl]. unfold SLASH.
  destruct (break (N.eqb 47) r) as [h t]. cbn [fst snd] in *.
  destruct t as [|c t'].
  - pysimp. change (-1 =? - (1)) with true. cbv beta iota.
    change (clamp_idx (len (47 :: 47 :: r)%N) 2) with 2%N.
    replace (drop 2 (47 :: 47 :: r)%N) with r by (destruct r; reflexivity).
    erewrite Htail by reflexivity. rewrite app_nil_r in Hr. subst h. reflexivity.
  - pysimp. replace (2 + Z.of_N (len h) =? - (1)) with false by lia. cbv beta iota.
    change (clamp_idx (len (47 :: 47 :: r)%N) 2) with 2%N.
    replace (clamp_idx (len (47 :: 47 :: r)%N) (2 + Z.of_N (len h))) with (2 + len h)%N
      by (unfold clamp_idx; replace (2 + Z.of_N (len h) <? 0) with false by lia; lia).
    replace (2 + len h - 2)%N with (len h) by lia.
    replace (drop 2 (47 :: 47 :: r)%N) with r by (destruct r; reflexivity).
    rewrite drop_2_plus. rewrite Hr at 1 2. rewrite take_len_app, drop_len_app.
    erewrite Htail by reflexivity. reflexivity.
Qed.

(* ---------- to_fs_path and uri_scheme, given urlparse ---------- *)

Definition exn_val (e : Uris.exn) : PyMini.exn :=
  match e with
  | Uris.ValueError => PyMini.ValueError
  | UnicodeEncodeError => PyMini.ValueError        (* a subclass of ValueError *)
  | PlainException => ExcOther
  end.

Definition out_val {A} (g : A -> val) (o : Uris.outcome A) : res val :=
  match o with Ret a => Ok (g a) | Uris.Raise e => PyMini.Raise (exn_val e) end.

Definition tuple6_val (t : list N * list N * list N * list N * list N * list N) : val :=
  let '(a, b, c, d, e, g) := t in VTuple [VStr a; VStr b; VStr c; VStr d; VStr e; VStr g].

Definition opt_str_val (o : option (list N)) : val := match o with Some s => VStr s | None => VNone end.

(* the oracle: pygls.uris.urlparse(uri) returns what the hand model's urlparse says *)
Definition spec_urlparse (call : callT) (u : list N) : Prop :=
  call ["urlparse"] None [VStr u] [] = out_val tuple6_val (Uris.urlparse u).

Lemma str_eqb_same a : forall b, PyMini.str_eqb a b = Uris.str_eqb a b.
Proof. intros b. reflexivity. Qed.     (* the two definitions are literally the same fixpoint *)

Theorem to_fs_path_ok call f u : spec_urlparse call u ->
  run_fun call f f_to_fs_path None [VStr u] [] = out_val opt_str_val (Uris.to_fs_path (Some u)).
Proof.
  intros Hu. unfold spec_urlparse in Hu.
  unfold run_fun, f_to_fs_path, Uris.to_fs_path, Uris.bind. pybind.
  pystep. rewrite Hu.
  destruct (Uris.urlparse u) as [[[[[[sc nl] pa] p4] p5] p6]|e]; cbn [out_val tuple6_val]; pysimp.
  2: { destruct e; reflexivity. }
  change (PyMini.str_eqb sc [102; 105; 108; 101]%N) with (Uris.str_eqb sc s_file).
  destruct (Uris.str_eqb sc s_file); cbn [negb]; pysimp; [|reflexivity].
  destruct nl as [|n0 nl]; pysimp.
  2: destruct pa as [|p0 pa]; pysimp.
  2: reflexivity.
  2: { cbn [nonempty andb]. rewrite app_nil_r. reflexivity. }
  (* no authority: the drive-letter test *)
  cbn [nonempty andb]. rewrite re_drive_is_drive_match.
  destruct (drive_match pa) eqn:Ed; pysimp; [|reflexivity].
  destruct pa as [|a [|b [|c r]]]; try discriminate Ed.
  rewrite subscript_str_1. pysimp.
  assert (is_alpha b = true) as Hb by (cbn [drive_match] in Ed; lia).
  rewrite (alpha_ascii b Hb). pysimp.
  change (clamp_idx (len (a :: b :: c :: r)) 2) with 2%N.
  change (drop 2 (a :: b :: c :: r)) with (c :: r). reflexivity.
Qed.

Theorem uri_scheme_ok call f u : spec_urlparse call u ->
  run_fun call f f_uri_scheme None [VStr u] [] = out_val opt_str_val (Uris.uri_scheme (Some u)).
Proof.
  intros Hu. unfold spec_urlparse in Hu.
  unfold run_fun, f_uri_scheme, Uris.uri_scheme, Uris.bind. pybind.
  pystep. rewrite Hu.
  destruct (Uris.urlparse u) as [[[[[[sc nl] pa] p4] p5] p6]|e]; cbn [out_val tuple6_val]; pysimp.
  - reflexivity.
  - destruct e; reflexivity.
Qed.

(* ------------------------------------------------------------------------------------ *)
(* The theorems.                                                                         *)

Theorem ast_normalize_win_path_equiv f d path : (1 <= d)%nat ->
  run prog f d ["_normalize_win_path"] None [VStr path] = Ok (pair_val (normalize_win_path path)).
Proof.
  intros Hd. destruct d as [|d]; [lia|]. unfold run. enter f_normalize_win_path. apply normalize_ok.
Qed.

(* a call environment in which pygls.uris.urlparse answers as the hand model's urlparse does and
   nothing else is callable *)
Definition urlparse_oracle : callT := fun q _ args _ =>
  match q, args with
  | [name], [VStr u] =>
    if String.eqb name "urlparse" then out_val tuple6_val (Uris.urlparse u) else Stuck "not callable"
  | _, _ => Stuck "not callable"
  end.

Theorem ast_to_fs_path_equiv f u :
  run_fun urlparse_oracle f f_to_fs_path None [VStr u] [] = out_val opt_str_val (Uris.to_fs_path (Some u)).
Proof. apply to_fs_path_ok. reflexivity. Qed.

Theorem ast_uri_scheme_equiv f u :
  run_fun urlparse_oracle f f_uri_scheme None [VStr u] [] = out_val opt_str_val (Uris.uri_scheme (Some u)).
Proof. apply uri_scheme_ok. reflexivity. Qed.

(* non-vacuity: //Host/C:/x -> ("/C:/x", "Host") ... and the drive letter in file:///C:/Dir *)
Example ast_uris_example :
  run prog 0 1 ["_normalize_win_path"] None [VStr (lit "//Host/C:/x")] =
    Ok (VTuple [VStr (lit "/c:/x"); VStr (lit "Host")]) /\
  run_fun urlparse_oracle 0 f_to_fs_path None [VStr (lit "file:///C:/Dir")] [] = Ok (VStr (lit "c:/Dir")).
Proof. split; vm_compute; reflexivity. Qed.

(* all three in one statement (one `Print Assumptions` per run) *)
Definition ast_uris_equiv_statement : Prop :=
  (forall f d path, (1 <= d)%nat ->
     run prog f d ["_normalize_win_path"] None [VStr path] = Ok (pair_val (normalize_win_path path))) /\
  (forall f u, run_fun urlparse_oracle f f_to_fs_path None [VStr u] [] =
               out_val opt_str_val (Uris.to_fs_path (Some u))) /\
  (forall f u, run_fun urlparse_oracle f f_uri_scheme None [VStr u] [] =
               out_val opt_str_val (Uris.uri_scheme (Some u))).

Theorem ast_uris_equiv : ast_uris_equiv_statement.
Proof.
  repeat split; intros.
  - apply ast_normalize_win_path_equiv; assumption.
  - apply ast_to_fs_path_equiv.
  - apply ast_uri_scheme_equiv.
Qed.

(* ------------------------------------------------------------------------------------ *)
(* from_fs_path and pygls.uris.urlunparse.  urllib.parse.quote and urllib.parse.urlunparse are not
   translated: they are oracles (hypotheses), stated as what Model/Uris.v computes for them. *)

Definition PARSE : option val := Some (VGlobal ["parse"]).

(* parse.quote(s): the hand model's quote (UnicodeEncodeError is a ValueError) *)
Definition spec_quote (call : callT) : Prop :=
  forall s, call ["parse"; "quote"] PARSE [VStr s] [] = out_val VStr (Uris.quote s).

(* parse.urlunparse(6-tuple of str): the hand model's py_urlunparse *)
Definition spec_py_urlunparse (call : callT) : Prop :=
  forall a b c d e g, call ["parse"; "urlunparse"] PARSE [tuple6_val (a, b, c, d, e, g)] [] =
                      Ok (VStr (py_urlunparse a b c d e g)).

Definition to_outcome (env : list (string * val)) (r : res val) : PyMini.outcome :=
  match r with Ok v => OReturn v | PyMini.Raise k => ORaise k env | Stuck w => OStuck w end.

Theorem urlunparse_ok call f sc nl pa p4 p5 p6 : spec_quote call -> spec_py_urlunparse call ->
  run_fun call f f_urlunparse None [tuple6_val (sc, nl, pa, p4, p5, p6)] [] =
  out_val VStr (Uris.urlunparse sc nl pa p4 p5 p6).
Proof.
  intros Hq Hu. unfold spec_quote, PARSE in Hq. unfold spec_py_urlunparse, PARSE, tuple6_val in Hu.
  unfold run_fun, f_urlunparse, Uris.urlunparse, Uris.bind, tuple6_val. pybind.
  pystep.
  (* the rest, once quoted_path is known *)
  assert (forall env qp, get "$1" env = Some (VStr sc) -> get "$2" env = Some (VStr nl) ->
            get "$4" env = Some (VStr p4) -> get "$5" env = Some (VStr p5) -> get "$6" env = Some (VStr p6) ->
            get "$7" env = Some (VStr qp) ->
            exec_block call f env
                    [SReturn (Some (ECall (EAttr (EGlobal "parse") "urlunparse")
                       [(ETuple [(ECall (EAttr (EGlobal "parse") "quote") [(EName "$1")] []);
                                 (ECall (EAttr (EGlobal "parse") "quote") [(EName "$2")] []);
                                 (EName "$7");
                                 (ECall (EAttr (EGlobal "parse") "quote") [(EName "$4")] []);
                                 (ECall (EAttr (EGlobal "parse") "quote") [(EName "$5")] []);
                                 (ECall (EAttr (EGlobal "parse") "quote") [(EName "$6")] [])])] []))] =
            to_outcome env (out_val VStr
              match Uris.quote sc with Uris.Raise e => Uris.Raise e | Ret qs =>
              match Uris.quote nl with Uris.Raise e => Uris.Raise e | Ret qn =>
              match Uris.quote p4 with Uris.Raise e => Uris.Raise e | Ret q4 =>
              match Uris.quote p5 with Uris.Raise e => Uris.Raise e | Ret q5 =>
              match Uris.quote p6 with Uris.Raise e => Uris.Raise e | Ret q6 =>
              Ret (py_urlunparse qs qn qp q4 q5 q6) end end end end end)) as Htail.
  { intros env qp G1 G2 G4 G5 G6 G7.
    pystep_env. rewrite (Hq sc). destruct (Uris.quote sc) as [qs|e]; cbn [out_val]; [|destruct e; reflexivity].
    use_env; pyexpr. rewrite (Hq nl). destruct (Uris.quote nl) as [qn|e]; cbn [out_val]; [|destruct e; reflexivity].
    use_env; pyexpr. rewrite (Hq p4). destruct (Uris.quote p4) as [q4|e]; cbn [out_val]; [|destruct e; reflexivity].
    use_env; pyexpr. rewrite (Hq p5). destruct (Uris.quote p5) as [q5|e]; cbn [out_val]; [|destruct e; reflexivity].
    use_env; pyexpr. rewrite (Hq p6). destruct (Uris.quote p6) as [q6|e]; cbn [out_val]; [|destruct e; reflexivity].
    rewrite Hu. reflexivity. }
  pystep. rewrite re_drive_is_drive_match.
  destruct (drive_match pa) eqn:Ed; pyexpr.
  - destruct pa as [|a [|b [|c r]]]; try discriminate Ed.
    change (clamp_idx (len (a :: b :: c :: r)) 3) with 3%N.
    replace (take 3 (a :: b :: c :: r)) with [a; b; c] by (destruct r; reflexivity).
    replace (drop 3 (a :: b :: c :: r)) with r by (destruct r; reflexivity). cbn [tl].
    rewrite (Hq r). destruct (Uris.quote r) as [q|e]; cbn [out_val]; [|destruct e; reflexivity].
    pyexpr. cbv beta iota. cbn [app].
    subst rest. erewrite (Htail _ (a :: b :: c :: q)) by reflexivity.
    match goal with |- context[to_outcome _ ?r] => destruct r; reflexivity end.
  - rewrite (Hq pa). destruct (Uris.quote pa) as [q|e]; cbn [out_val]; [|destruct e; reflexivity].
    cbv beta iota.
    subst rest. erewrite (Htail _ q) by reflexivity.
    match goal with |- context[to_outcome _ ?r] => destruct r; reflexivity end.
Qed.

(* from_fs_path, given its two callees: the translated _normalize_win_path and pygls.uris.urlunparse *)
Definition spec_normalize (call : callT) (path : list N) : Prop :=
  call ["_normalize_win_path"] None [VStr path] [] = Ok (pair_val (normalize_win_path path)).
Definition spec_urlunparse (call : callT) : Prop :=
  forall a b c d e g, call ["urlunparse"] None [tuple6_val (a, b, c, d, e, g)] [] =
                      out_val VStr (Uris.urlunparse a b c d e g).

Theorem from_fs_path_ok call f path : spec_normalize call path -> spec_urlunparse call ->
  run_fun call f f_from_fs_path None [VStr path] [] = out_val opt_str_val (Uris.from_fs_path (Some path)).
Proof.
  intros Hn Hu. unfold spec_normalize in Hn. unfold spec_urlunparse, tuple6_val in Hu.
  unfold run_fun, f_from_fs_path, Uris.from_fs_path, Uris.bind. pybind.
  pysimp. rewrite Hn. destruct (normalize_win_path path) as [p' nl]. unfold pair_val. cbn [fst snd]. pysimp.
  rewrite Hu. change [102; 105; 108; 101]%N with s_file.
  destruct (Uris.urlunparse s_file nl p' [] [] []) as [u|e]; cbn [out_val opt_str_val]; pysimp.
  - reflexivity.
  - destruct e; reflexivity.
Qed.

(* The oracles made concrete: urllib.parse.quote / urllib.parse.urlunparse (and pygls.uris.urlparse) answer
   as the hand model says, nothing else is callable ... *)
Definition uris_oracle : callT := fun q recv args kw =>
  match q, args with
  | ["parse"; "quote"]%string, [VStr s] => out_val VStr (Uris.quote s)
  | ["parse"; "urlunparse"]%string, [VTuple [VStr a; VStr b; VStr c; VStr d; VStr e; VStr g]] =>
    Ok (VStr (py_urlunparse a b c d e g))
  | _, _ => urlparse_oracle q recv args kw
  end.

(* ... and calls of the two translated functions from_fs_path uses run their translated bodies *)
Definition uris_call (f : nat) : callT := fun q recv args kw =>
  match q with
  | ["_normalize_win_path"]%string => run_fun uris_oracle f f_normalize_win_path recv args kw
  | ["urlunparse"]%string => run_fun uris_oracle f f_urlunparse recv args kw
  | _ => uris_oracle q recv args kw
  end.

Theorem ast_urlunparse_equiv f sc nl pa p4 p5 p6 :
  run_fun uris_oracle f f_urlunparse None [tuple6_val (sc, nl, pa, p4, p5, p6)] [] =
  out_val VStr (Uris.urlunparse sc nl pa p4 p5 p6).
Proof. apply urlunparse_ok; intro; intros; reflexivity. Qed.

Theorem ast_from_fs_path_equiv f path :
  run_fun (uris_call f) f f_from_fs_path None [VStr path] [] =
  out_val opt_str_val (Uris.from_fs_path (Some path)).
Proof.
  apply from_fs_path_ok.
  - unfold spec_normalize, uris_call. apply normalize_ok.
  - intros a b c d e g. unfold uris_call. apply ast_urlunparse_equiv.
Qed.

(* non-vacuity: a space is quoted, a UNC authority is split off, a drive letter keeps its colon, and a lone
   surrogate makes quote raise (UnicodeEncodeError, a ValueError the handler does not catch) *)
Example ast_from_fs_path_example :
  run_fun (uris_call 0) 0 f_from_fs_path None [VStr (lit "/a b/c")] [] = Ok (VStr (lit "file:///a%20b/c")) /\
  run_fun (uris_call 0) 0 f_from_fs_path None [VStr (lit "//host/share")] [] = Ok (VStr (lit "file://host/share")) /\
  run_fun (uris_call 0) 0 f_from_fs_path None [VStr (lit "C:/x y")] [] = Ok (VStr (lit "file:///c:/x%20y")) /\
  run_fun (uris_call 0) 0 f_from_fs_path None [VStr [47; 55296]%N] [] = PyMini.Raise PyMini.ValueError.
Proof. repeat split; vm_compute; reflexivity. Qed.

(* ------------------------------------------------------------------------------------ *)
(* uri_with, given pygls.uris.urlparse (oracle), _normalize_win_path and pygls.uris.urlunparse *)

Lemma or_str_val o b :
  (if truthy (opt_str_val o) then Ok (opt_str_val o) else Ok (VStr b)) = Ok (VStr (or_str o b)).
Proof. destruct o as [[|c r]|]; reflexivity. Qed.

Theorem uri_with_ok call f uri sc nl pa p4 p5 p6 :
  spec_urlparse call uri -> (forall p, spec_normalize call p) -> spec_urlunparse call ->
  run_fun call f f_uri_with None
    [VStr uri; opt_str_val sc; opt_str_val nl; opt_str_val pa; opt_str_val p4; opt_str_val p5; opt_str_val p6] [] =
  out_val VStr (Uris.uri_with uri sc nl pa p4 p5 p6).
Proof.
  intros Hp Hn Hu. unfold spec_urlparse in Hp. unfold spec_normalize in Hn. unfold spec_urlunparse, tuple6_val in Hu.
  unfold run_fun, f_uri_with, Uris.uri_with, Uris.uri_with_gen, normalize_win_path_gen, Uris.bind. pybind.
  pystep. rewrite Hp.
  destruct (Uris.urlparse uri) as [[[[[[o1 o2] o3] o4] o5] o6]|e]; cbn [out_val tuple6_val]; pysimp.
  2: { destruct e; reflexivity. }
  destruct pa as [p|]; cbn [opt_str_val].
  2: { pystep. reflexivity. }
  pystep. pystep. rewrite Hn. destruct (normalize_win_path p) as [p' x]. unfold pair_val. cbn [fst snd]. pysimp.
  pystep. rewrite !or_str_val. pysimp.
  destruct p' as [|c0 r0]; pysimp; cbn [nonempty]; rewrite Hu;
    match goal with |- context[out_val VStr ?r] => destruct r as [?|[]]; reflexivity end.
Qed.

Theorem ast_uri_with_equiv f uri sc nl pa p4 p5 p6 :
  run_fun (uris_call f) f f_uri_with None
    [VStr uri; opt_str_val sc; opt_str_val nl; opt_str_val pa; opt_str_val p4; opt_str_val p5; opt_str_val p6] [] =
  out_val VStr (Uris.uri_with uri sc nl pa p4 p5 p6).
Proof.
  apply uri_with_ok.
  - reflexivity.
  - intros p. unfold spec_normalize, uris_call. apply normalize_ok.
  - intros a b c d e g. unfold uris_call. apply ast_urlunparse_equiv.
Qed.

(* non-vacuity: the new path is normalised and quoted, its UNC authority is dropped (finding F29), the old
   parts are kept, the call by keyword binds the same parameters, and a missing path raises Exception *)
Example ast_uri_with_example :
  run_fun (uris_call 0) 0 f_uri_with None
    [VStr (lit "file://h/a?q#f"); VNone; VNone; VStr (lit "//host/x y"); VNone; VNone; VNone] [] =
    Ok (VStr (lit "file://h/x%20y?q#f")) /\
  run_fun (uris_call 0) 0 f_uri_with None [VStr (lit "file:///a")]
    [("path", VStr (lit "b")); ("scheme", VStr (lit "http"))] = Ok (VStr (lit "http:///b")) /\
  run_fun (uris_call 0) 0 f_uri_with None [VStr (lit "file:///a")] [] = PyMini.Raise ExcOther.
Proof. repeat split; vm_compute; reflexivity. Qed.

(* the three in one statement (one `Print Assumptions` per run) *)
Definition ast_uris2_equiv_statement : Prop :=
  (forall f path, run_fun (uris_call f) f f_from_fs_path None [VStr path] [] =
                  out_val opt_str_val (Uris.from_fs_path (Some path))) /\
  (forall f sc nl pa p4 p5 p6,
     run_fun uris_oracle f f_urlunparse None [tuple6_val (sc, nl, pa, p4, p5, p6)] [] =
     out_val VStr (Uris.urlunparse sc nl pa p4 p5 p6)) /\
  (forall f uri sc nl pa p4 p5 p6,
     run_fun (uris_call f) f f_uri_with None
       [VStr uri; opt_str_val sc; opt_str_val nl; opt_str_val pa; opt_str_val p4; opt_str_val p5; opt_str_val p6] [] =
     out_val VStr (Uris.uri_with uri sc nl pa p4 p5 p6)).

Theorem ast_uris2_equiv : ast_uris2_equiv_statement.
Proof.
  repeat split; intros; [apply ast_from_fs_path_equiv | apply ast_urlunparse_equiv | apply ast_uri_with_equiv].
Qed.
