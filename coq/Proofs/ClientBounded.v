(* Bounded-exhaustive agreement of the conversation-level reference (Spec.ClientSpec.conv_expect,
   a scan of the event list that knows nothing of tasks, tables or pipes) with the model: for
   EVERY event list of length <= 7 over the alphabet below that is a conversation in the sense of
   wf_conv, the model's final observation passes spec_ok against the scan's expectations.
   Genuinely finite domain, decided by vm_compute; the bound is in the statement.  (The theorems
   for unbounded histories are in ClientProofs.v; this one ties the *finer* expectations -
   exit error for unanswered requests, either outcome for a reply in flight - to the model.) *)
From Coq Require Import NArith ZArith List Bool.
From Pygls Require Import Model.Client Spec.ClientSpec.
Import ListNotations.
Open Scope N_scope.

Definition alphabet : list event :=
  [Send; UserCancel 0; SrvWrite (Reply 0 (RResult 5)); SrvWrite (Reply 1 (RError 7%Z));
   SrvWrite (BadReply 0); ProcExit 1%Z TPartBody; ReaderRun; ServerExitTask; Stop].

Definition conv_ok (c : config) (evs : list event) : bool :=
  if wf_conv evs then spec_ok (conv_expect evs) (observe (run c evs)) else true.

Definition both_ok (evs : list event) : bool :=
  conv_ok (repaired HookOk false) evs && conv_ok (repaired HookRaises true) evs &&
  conv_ok (repaired HookSlow false) evs && conv_ok (repaired HookAwaits true) evs.

(* a second alphabet with a server-initiated request (handler task in the table) and a run of
   its handler, explored to depth 6 *)
Definition alphabet_h : list event :=
  [Send; SrvWrite (Reply 0 (RResult 5)); SrvWrite (Request 0); HandlerStep 0; HandlerReturn 0;
   UserCancel 0; ProcExit 1%Z TPartBody; ReaderRun; ServerExitTask; Stop].

Section Check.
Variable alpha : list event.

Fixpoint check (n : nat) (rev_prefix : list event) : bool :=
  both_ok (rev rev_prefix) &&
  match n with
  | O => true
  | S k => forallb (fun e => check k (e :: rev_prefix)) alpha
  end.

Lemma check_sound : forall n rp, check n rp = true ->
  forall l, (length l <= n)%nat -> Forall (fun e => In e alpha) l -> both_ok (rev rp ++ l) = true.
Proof.
  induction n as [|k IH]; intros rp H l L F; cbn [check] in H; apply andb_true_iff in H;
    destruct H as [H1 H2].
  - destruct l; [rewrite app_nil_r; exact H1|cbn in L; inversion L].
  - destruct l as [|e l']; [rewrite app_nil_r; exact H1|].
    inversion F as [|? ? Fe Fl]; subst.
    rewrite forallb_forall in H2. specialize (H2 e Fe).
    assert (E : rev rp ++ e :: l' = rev (e :: rp) ++ l') by (cbn [rev]; rewrite <- app_assoc; reflexivity).
    rewrite E. apply IH; [exact H2|cbn in L; apply le_S_n, L|exact Fl].
Qed.

End Check.

Lemma check_7 : check alphabet 7 [] = true.
Proof. vm_compute. reflexivity. Qed.

Lemma check_6h : check alphabet_h 6 [] = true.
Proof. vm_compute. reflexivity. Qed.

(* every conversation of at most 7 events over the alphabet: the model's final observation
   satisfies the scan's expectations, for each kind of server_exit hook *)
Theorem conv_expect_sound_bounded : forall evs,
  (length evs <= 7)%nat -> Forall (fun e => In e alphabet) evs -> wf_conv evs = true ->
  spec_ok (conv_expect evs) (observe (run (repaired HookOk false) evs)) = true /\
  spec_ok (conv_expect evs) (observe (run (repaired HookRaises true) evs)) = true /\
  spec_ok (conv_expect evs) (observe (run (repaired HookSlow false) evs)) = true /\
  spec_ok (conv_expect evs) (observe (run (repaired HookAwaits true) evs)) = true.
Proof.
  intros evs L F W. pose proof (check_sound alphabet 7 [] check_7 evs L F) as H. cbn [rev app] in H.
  unfold both_ok, conv_ok in H. rewrite W in H. rewrite !andb_true_iff in H.
  destruct H as (((A & B) & C) & D). auto.
Qed.

(* the same with handler tasks of server-initiated requests in the table, up to 6 events *)
Theorem conv_expect_sound_bounded_handlers : forall evs,
  (length evs <= 6)%nat -> Forall (fun e => In e alphabet_h) evs -> wf_conv evs = true ->
  spec_ok (conv_expect evs) (observe (run (repaired HookOk false) evs)) = true /\
  spec_ok (conv_expect evs) (observe (run (repaired HookRaises true) evs)) = true /\
  spec_ok (conv_expect evs) (observe (run (repaired HookSlow false) evs)) = true /\
  spec_ok (conv_expect evs) (observe (run (repaired HookAwaits true) evs)) = true.
Proof.
  intros evs L F W. pose proof (check_sound alphabet_h 6 [] check_6h evs L F) as H. cbn [rev app] in H.
  unfold both_ok, conv_ok in H. rewrite W in H. rewrite !andb_true_iff in H.
  destruct H as (((A & B) & C) & D). auto.
Qed.
