(* C12, registration history: what initialize advertises depends only on the accepted
   registrations (from C19's reject_is_identity), the options of a registered method never change
   afterwards, and the registry-derived configuration is the one the history reference describes. *)
From Coq Require Import NArith List Bool.
From Pygls Require Import Model.Features Proofs.FeaturesProofs Model.Caps Model.CapsHistory
                          Spec.CapsSpec Spec.CapsHistorySpec Proofs.CapsProofs.
Import ListNotations.
Open Scope N_scope.

Lemma step_res_error_identity : forall r x e, step_res r x = Error e -> step_reg r x = r.
Proof.
  intros r x e H. unfold step_res, step_reg in *. destruct (step r x) as [[r' f'] res] eqn:S.
  cbn in *. subst res. eapply reject_is_identity. exact S.
Qed.

(* refused calls can be erased from a history *)
Theorem run_accepted : forall xs r, run r xs = run r (accepted_calls r xs).
Proof.
  induction xs as [|x t IH]; intro r; cbn [run accepted_calls]; [reflexivity|].
  destruct (step_res r x) as [|e] eqn:E.
  - cbn [run]. apply IH.
  - rewrite (step_res_error_identity r x e E). apply IH.
Qed.

Section Hist.
  Variable nm : method -> name.
  Variable cid : name -> N.

  Theorem history_accepted_only : forall h h0 sk nb cli,
    cfg_of_history nm cid h h0 sk nb cli =
    cfg_of_history nm cid (accepted_calls empty_registry h) h0 sk nb cli.
  Proof. intros. unfold cfg_of_history. rewrite (run_accepted h). reflexivity. Qed.

  (* build (cfg_of_history h) depends only on the accepted attempts *)
  Corollary build_depends_on_accepted_only : forall h1 h2 h0 sk nb cli,
    accepted_calls empty_registry h1 = accepted_calls empty_registry h2 ->
    build (cfg_of_history nm cid h1 h0 sk nb cli) = build (cfg_of_history nm cid h2 h0 sk nb cli).
  Proof.
    intros h1 h2 h0 sk nb cli H.
    rewrite (history_accepted_only h1), (history_accepted_only h2), H. reflexivity.
  Qed.
End Hist.

(* ---- agreement with the history reference ------------------------------------------------ *)
Lemma options_check_passes : forall o, options_check o = None <-> passes o = true.
Proof.
  intros [|i t nmn chk]; cbn; [tauto|]. destruct t; cbn; [|tauto].
  destruct chk; cbn; split; intro H; try reflexivity; discriminate.
Qed.

Lemma aget_snoc : forall {V} (k k' : name) (v : V) l,
  aget k (l ++ [(k', v)]) = match aget k l with Some x => Some x | None => if name_eqb k k' then Some v else None end.
Proof.
  intros V k k' v l. induction l as [|[k2 v2] t IH]; cbn [app aget]; [reflexivity|].
  destruct (name_eqb k k2); [reflexivity|exact IH].
Qed.

Lemma mem_name_akeys : forall {V} n (l : list (name * V)), mem_name n (akeys l) = amem n l.
Proof.
  intros V n l. unfold amem, mem_name. induction l as [|[k v] t IH]; cbn [akeys map fst existsb aget]; [reflexivity|].
  destruct (name_eqb n k); [reflexivity|exact IH].
Qed.

Lemma amem_aset_present : forall {V} n k (v v0 : V) l, aget k l = Some v0 -> amem n (aset k v l) = amem n l.
Proof.
  intros V n k v v0 l H. unfold amem.
  destruct (name_eqb k n) eqn:E.
  - apply name_eqb_eq in E. subst n. rewrite aget_aset_eq, H. reflexivity.
  - rewrite aget_aset_neq; [reflexivity|]. intro X. subst. rewrite name_eqb_refl in E. discriminate.
Qed.

Definition is_some {A} (o : option A) : bool := match o with Some _ => true | None => false end.
Definition opt_of (o : option optarg) : option N :=
  match o with Some o => if opt_truthy o then Some (opt_id o) else None | None => None end.

Lemma wf_options_absent : forall r n, wf r -> amem n (features r) = false -> aget n (feature_options r) = None.
Proof.
  intros r n (_ & _ & _ & W4 & _) H. apply aget_none_notin. intro Hin. apply W4 in Hin.
  apply amem_false in H. apply aget_none_notin in H. contradiction.
Qed.

(* registrations only: @thread() marks existing entries and is not part of this statement *)
Definition registration (x : op) : bool := match x with OpThread _ => false | _ => true end.

Lemma run_spec : forall xs r, wf r -> forallb registration xs = true ->
  (forall n, amem n (features (run r xs)) = amem n (features r) || is_some (first_valid n xs)) /\
  (forall n, aget n (feature_options (run r xs)) =
             if amem n (features r) then aget n (feature_options r) else opt_of (first_valid n xs)) /\
  akeys (Features.commands (run r xs)) =
    akeys (Features.commands r) ++ command_names (akeys (Features.commands r)) xs.
Proof.
  induction xs as [|x t IH]; intros r W NT; cbn [run first_valid command_names].
  - split; [intro n; cbn; rewrite orb_false_r; reflexivity|].
    split; [|rewrite app_nil_r; reflexivity].
    intro n. destruct (amem n (features r)) eqn:E; [reflexivity|]. cbn. apply wf_options_absent; assumption.
  - cbn [forallb] in NT. apply andb_true_iff in NT as [NTx NT].
    pose proof (wf_step r x W) as W'. destruct (IH (step_reg r x) W' NT) as (I1 & I2 & I3). clear IH.
    unfold step_reg in *. destruct (step r x) as [[r' f'] res] eqn:S. cbn [fst] in *.
    destruct res as [|e].
    2: { (* refused: nothing changed; the attempt is not the first valid one of an unregistered name *)
      pose proof (reject_is_identity _ _ _ _ _ S) as ->.
      destruct x as [n' o f|n' f|f]; cbn [step] in S.
      - assert (Hskip : forall n, amem n (features r) = false ->
                  name_eqb n n' && negb (name_invalid n') && passes o = false).
        { intros n Hn. unfold feature in S.
          destruct (name_invalid n') eqn:E1; [rewrite andb_false_r; reflexivity|].
          destruct (amem n' (features r)) eqn:E2.
          - destruct (name_eqb n n') eqn:E; [|reflexivity]. apply name_eqb_eq in E. subst. congruence.
          - destruct (options_check o) eqn:E3.
            + destruct (passes o) eqn:P; [|rewrite andb_false_r; reflexivity].
              apply options_check_passes in P. congruence.
            + destruct (opt_truthy o); discriminate. }
        split; [|split; [|exact I3]]; intro n; [rewrite I1|rewrite I2];
        destruct (amem n (features r)) eqn:E; try reflexivity; rewrite (Hskip n E); reflexivity.
      - split; [exact I1|]. split; [exact I2|]. rewrite I3. f_equal.
        unfold command in S. destruct (name_invalid n') eqn:E1; [reflexivity|].
        destruct (amem n' (Features.commands r)) eqn:E2; [|discriminate].
        rewrite mem_name_akeys, E2. reflexivity.
      - discriminate NTx. }
    destruct x as [n' o f|n' f|f]; cbn [step] in S.
    + apply feature_ok_exact in S. destruct S as (Hv & Hf & Hc & _ & HF & HC & HO).
      assert (Hm : amem n' (features r) = false) by (unfold amem; rewrite Hf; reflexivity).
      assert (Hp : passes o = true) by (apply options_check_passes; exact Hc).
      split; [|split].
      * intro n. rewrite I1, HF. unfold amem at 1 2. rewrite aget_snoc.
        destruct (aget n (features r)) eqn:G; [reflexivity|].
        rewrite Hv, Hp. cbn [negb]. rewrite !andb_true_r.
        destruct (name_eqb n n'); reflexivity.
      * intro n. rewrite I2, HF. unfold amem at 1 2. rewrite aget_snoc.
        destruct (aget n (features r)) eqn:G.
        -- rewrite HO. destruct (opt_truthy o); [|reflexivity].
           apply aget_aset_neq. intro X. subst. congruence.
        -- rewrite Hv, Hp. cbn [negb]. rewrite !andb_true_r.
           destruct (name_eqb n n') eqn:E; [|reflexivity].
           apply name_eqb_eq in E. subst n'. rewrite HO. cbn [opt_of].
           destruct (opt_truthy o); [apply aget_aset_eq|].
           apply wf_options_absent; assumption.
      * rewrite I3, HC. reflexivity.
    + apply command_ok_exact in S. destruct S as (Hv & Hf & _ & HC & HF & HO).
      split; [intro n; rewrite I1, HF; reflexivity|]. split; [intro n; rewrite I2, HF, HO; reflexivity|].
      rewrite I3, HC, akeys_app. cbn [akeys map fst]. rewrite Hv, mem_name_akeys.
      unfold amem. rewrite Hf. cbn [orb]. rewrite <- app_assoc. reflexivity.
    + discriminate NTx.
Qed.

(* the configuration initialize reads off the registry is the one the reference describes:
   handler and options of the first valid attempt per method, commands in first-registration order *)
Theorem history_refines : forall nm cid h h0 sk nb cli, forallb registration h = true ->
  let c := cfg_of_history nm cid h h0 sk nb cli in
  let s := spec_cfg_of_history nm cid h h0 sk nb cli in
  (forall m, reg c m = reg s m) /\ (forall m, opt c m = opt s m) /\
  Caps.commands c = Caps.commands s /\ (forall i, heap0 c i = heap0 s i) /\
  sync_kind c = sync_kind s /\ nb_sync c = nb_sync s /\ cl c = cl s.
Proof.
  intros nm cid h h0 sk nb cli NT. destruct (run_spec h empty_registry wf_empty NT) as (H1 & H2 & H3).
  cbn. repeat split.
  - intro m. rewrite H1. cbn. destruct (first_valid (nm m) h); reflexivity.
  - intro m. rewrite H2. cbn. reflexivity.
  - rewrite H3. reflexivity.
Qed.

(* once a method is registered, nothing that is attempted afterwards changes its options *)
Theorem registered_options_stable : forall xs r n, wf r -> forallb registration xs = true ->
  amem n (features r) = true ->
  aget n (feature_options (run r xs)) = aget n (feature_options r) /\
  amem n (features (run r xs)) = true.
Proof.
  intros xs r n W NT H. destruct (run_spec xs r W NT) as (H1 & H2 & _).
  rewrite H1, H2, H. split; reflexivity.
Qed.
