(* A notebook cell's text document is created exactly like a plain one: with the workspace's
   position encoding and sync kind (Workspace.put_text_document -> _create_text_document passes
   `position_codec=self._position_codec`, `sync_kind=self._sync_kind`; Model/Workspace.v
   `put_text_document cf s it (Some n)` stores `open_doc (fst cf) (snd cf) text v`).  So every
   statement of C04 / C11 about "the negotiated encoding" covers cell documents, whether the cell
   arrives with notebookDocument/didOpen or with a didChange structure.didOpen. *)
From Coq Require Import ZArith NArith List Bool.
From Pygls Require Import Base.PyStr Base.AssocWs Model.Codec Model.Doc Model.Workspace.
Open Scope N_scope.

Lemma put_text_document_doc cf s u lang v text nb :
  aget u (w_docs (put_text_document cf s (u, lang, v, text) nb)) =
  Some (open_doc (fst cf) (snd cf) text v, lang).
Proof.
  unfold put_text_document. destruct nb; cbn; apply aget_aset_eq.
Qed.

(* cell or not, the stored document has the workspace's encoding and kind, the item's text and
   version *)
Theorem cell_document_uses_workspace_encoding cf s u lang v text n :
  exists d, aget u (w_docs (put_text_document cf s (u, lang, v, text) (Some n))) = Some (d, lang) /\
            d_enc d = fst cf /\ d_kind d = snd cf /\ d_source d = text /\ d_version d = Some v /\
            d = open_doc (fst cf) (snd cf) text v.
Proof.
  exists (open_doc (fst cf) (snd cf) text v). rewrite put_text_document_doc. repeat split.
Qed.
