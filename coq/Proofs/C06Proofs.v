(* Proofs/C06Proofs.v - C06: (i) framing, (iii) one report per bad message, (iv) a raising hook is a
   quiet hook, the literal form of (ii) for bad frames that own nothing, the delivery pipeline.
   The simulation behind (ii) is in Proofs/C06Sim*.v (theorem `noninterference`). *)
From Coq Require Import ZArith NArith List Bool Arith Lia.
From Pygls Require Import Base.Assoc Base.Bytes Model.Endpoint Spec.EndpointSpec Spec.ContainSpec
  Proofs.EndpointInv Proofs.C06Lists Proofs.C06Sim Proofs.C06Sim5.
From Pygls Require Model.Framing Spec.FramingSpec Proofs.FramingProofs Proofs.FramingProofsFrames Model.Contain.
Import ListNotations.

(* ================================================================ (i) framing *)
Module Fr.
Import Model.Framing Spec.FramingSpec Proofs.FramingProofs Proofs.FramingProofsFrames.
Open Scope N_scope.

(* after a header block the loop takes exactly `len b` bytes, whatever they are *)
Definition body_consumed_whatever := loop_consumes_body.

(* a frame with an ARBITRARY (non-empty) body at any position: every body is delivered, bytes
   intact, in order, and the loop ends normally *)
Theorem neighbours_unchanged_framing : forall k ms1 b ms2,
  Forall (conforming k) ms1 -> conforming k b -> Forall (conforming k) ms2 ->
  loop_whole k AtEOF (frames (ms1 ++ b :: ms2)) =
    (bodies_of ms1 ++ Body (snd b) :: bodies_of ms2, Done EndedNormally) /\
  loop_whole k AtEOF (frames (ms1 ++ ms2)) = (bodies_of ms1 ++ bodies_of ms2, Done EndedNormally).
Proof.
  intros k ms1 b ms2 H1 Hb H2. split.
  - rewrite (loop_whole_frames k); [unfold bodies_of; rewrite map_app; reflexivity|].
    apply conforming_all. apply Forall_app. split; [exact H1|constructor; assumption].
  - rewrite (loop_whole_frames k); [unfold bodies_of; rewrite map_app; reflexivity|].
    apply conforming_all. apply Forall_app. split; assumption.
Qed.

(* the same while the connection stays open: the loop is blocked at a frame boundary, in sync *)
Theorem framing_in_sync : forall k ms, Forall (conforming k) ms ->
  run k false (PHeader 0, frames ms) = (bodies_of ms, Blocked (PHeader 0, [])).
Proof. intros k ms H. apply open_frames, conforming_all, H. Qed.
End Fr.

(* ================================================================ (iii) the reports *)
Section Reports.
Variable c : cfg.
Hypothesis WF : c_wfail c = None.

Lemma failing_no : forall n, failing c n = false.
Proof. intro n. unfold failing. rewrite WF. reflexivity. Qed.

Lemma errs_do_write : forall f s, errs (fst (do_write c f s)) = errs s.
Proof. intros. unfold do_write. destruct (closed s); [reflexivity|]. destruct (failing c (nwrites s)); reflexivity. Qed.
Lemma errs_write_call : forall sv f s, errs (fst (write_call c sv f s)) = errs s.
Proof. intros. unfold write_call. destruct (c_writer c); [apply errs_do_write|]. destruct sv; reflexivity. Qed.

Lemma errs_hook : forall sv src s, errs (hook c sv src s) = errs s ++ [src].
Proof.
  intros. unfold hook. destruct (c_hook c); try reflexivity. destruct src; try reflexivity;
    match goal with |- context [write_call c sv ?f ?x] =>
      pose proof (errs_write_call sv f x) as H; destruct (write_call c sv f x) as [s2 ok]; cbn [fst] in H;
      destruct ok; exact H end.
Qed.

Definition site_ok (sv : site) : Prop := sv = Loop \/ c_writer c = WBlocking.

Lemma write_ok : forall sv f s, closed s = false -> site_ok sv -> snd (write_call c sv f s) = true.
Proof.
  intros sv f s C S. unfold write_call, do_write. rewrite C, failing_no. unfold site_ok in S.
  destruct (c_writer c); [reflexivity|]. destruct S as [S|S]; [subst; reflexivity|discriminate].
Qed.

Lemma errs_send_data : forall sv f s, closed s = false -> site_ok sv ->
  errs (fst (send_data c sv f true s)) = errs s.
Proof.
  intros sv f s C S. unfold send_data. cbn [negb].
  pose proof (write_ok sv f s C S) as K. pose proof (errs_write_call sv f s) as E.
  destruct (write_call c sv f s) as [s1 ok]. cbn [fst snd] in *. subst ok. exact E.
Qed.

Lemma errs_send_error : forall sv i code s, closed s = false -> site_ok sv ->
  errs (send_response c sv i (RpError code) s) = errs s.
Proof. intros. unfold send_response. apply errs_send_data; assumption. Qed.

Lemma errs_on_exc : forall i x s, closed s = false ->
  errs (on_exc c i (Some x) s) = errs s ++ [EFeatureRequest].
Proof.
  intros i x s C. unfold on_exc. destruct x; rewrite errs_hook, errs_send_error; try reflexivity; try assumption; left; reflexivity.
Qed.

Lemma errs_request_callback_failed : forall sv i r s, failed r = true -> closed s = false -> site_ok sv ->
  errs (request_callback c sv i r s) = errs s ++ [EFeatureRequest].
Proof.
  intros sv i r s F C S. unfold request_callback. destruct r; try discriminate; cbn [errs fut_pop set_futs];
    rewrite errs_hook, errs_send_error; try reflexivity; assumption.
Qed.

Lemma errs_run_cb_failed : forall sv cb r s, failed r = true -> closed s = false ->
  (match cb with CReq _ => site_ok sv | CNot => True end) ->
  errs (run_cb c sv cb r s) = errs s ++ [deferred_src cb].
Proof.
  intros sv cb r s F C S. unfold run_cb. destruct cb as [i|]; cbn [deferred_src].
  - apply errs_request_callback_failed; assumption.
  - unfold notification_callback. destruct r; try discriminate; apply errs_hook.
Qed.

Lemma failed_res_of : forall b, raising b = true -> failed (res_of (bout b)) = true.
Proof. intros b H. unfold raising in H. destruct (bout b); try discriminate; reflexivity. Qed.
Lemma raising_exc : forall b, raising b = true -> exists x, exc_of (bout b) = Some x.
Proof. intros b H. unfold raising in H. destruct (bout b); try discriminate; eexists; reflexivity. Qed.

(* a handler whose failure is known when recv returns: request side *)
Lemma errs_execute_request_at_once : forall i p b s, fails_at_once b = true -> closed s = false ->
  let r := execute_request c i p b s in
  (snd r = None /\ errs (fst r) = errs s ++ [EFeatureRequest] /\ is_sync b = false) \/
  (exists x, snd r = Some x /\ errs (fst r) = errs s /\ closed (fst r) = false /\ is_sync b = true).
Proof.
  intros i p b s F C. unfold fails_at_once in F. apply andb_true_iff in F. destruct F as [F1 F2].
  unfold execute_request, is_sync. destruct (bkind b) as [|n|early]; try discriminate.
  - right. unfold raising in F1.
    destruct (bout b); try discriminate; cbn [fst snd]; eexists; repeat split; try reflexivity; exact C.
  - left. subst early. unfold submit. cbn [fst snd]. split; [reflexivity|]. split; [|reflexivity].
    rewrite (errs_run_cb_failed Loop (CReq i) (res_of (bout b)) _ (failed_res_of b F1)); [reflexivity|exact C|left; reflexivity].
Qed.

Lemma errs_exec_notification_at_once : forall w p b s, fails_at_once b = true ->
  let r := exec_notification c w p b s in
  (snd r = None /\ errs (fst r) = errs s ++ [EFeatureNotification]) \/
  (exists x, snd r = Some x /\ errs (fst r) = errs s).
Proof.
  intros w p b s F. unfold fails_at_once in F. apply andb_true_iff in F. destruct F as [F1 F2].
  unfold exec_notification. destruct (bkind b) as [|n|early]; try discriminate.
  - right. destruct (raising_exc b F1) as [x E]. exists x. cbn [fst snd]. split; [exact E|reflexivity].
  - left. subst early. unfold submit. cbn [fst snd]. split; [reflexivity|].
    unfold run_cb, notification_callback. pose proof (failed_res_of b F1) as X.
    destruct (res_of (bout b)); try discriminate; rewrite errs_hook; reflexivity.
Qed.

Lemma errs_handle_request : forall i m s src, immediate_src (FReq true i POk m) = Some src -> closed s = false ->
  errs (handle_request c i m s) = errs s ++ [src].
Proof.
  intros i m s src I C. cbn [immediate_src negb] in I. unfold handle_request.
  destruct m as [|b|u|fails u|cmd u].
  - inversion I. rewrite errs_hook, errs_send_error; [reflexivity|exact C|left; reflexivity].
  - destruct (fails_at_once b) eqn:F; [|discriminate]. inversion I.
    pose proof (errs_execute_request_at_once i PUser b s F C) as K. cbn zeta in K.
    destruct (execute_request c i PUser b s) as [s1 x]. cbn [fst snd] in K.
    destruct K as [(K1 & K2 & _)|(x0 & K1 & K2 & K3 & _)]; subst x.
    + cbn [on_exc]. exact K2.
    + rewrite errs_on_exc by exact K3. rewrite K2. reflexivity.
  - discriminate.
  - destruct fails; [|discriminate]. inversion I. rewrite errs_on_exc; [reflexivity|exact C].
  - destruct cmd as [b|].
    + set (s1 := log (WReq i) PBuiltin HStart Loop s).
      assert (C1 : closed s1 = false) by exact C.
      assert (F : fails_at_once b = true /\ src = EFeatureRequest /\ (u <> None -> is_sync b = true)).
      { destruct u as [u0|].
        - destruct (raising b && is_sync b) eqn:Q; [|discriminate]. inversion I.
          apply andb_true_iff in Q. destruct Q as [Q1 Q2]. split; [|split; [reflexivity|intros _; exact Q2]].
          unfold fails_at_once. rewrite Q1. unfold is_sync in Q2. destruct (bkind b); try discriminate. reflexivity.
        - destruct (fails_at_once b); [|discriminate]. inversion I. split; [reflexivity|split; [reflexivity|]]. intros X. congruence. }
      destruct F as (F & E & U). subst src.
      pose proof (errs_execute_request_at_once i PCommand b s1 F C1) as K. cbn zeta in K.
      destruct (execute_request c i PCommand b s1) as [s2 x]. cbn [fst snd] in K.
      destruct K as [(K1 & K2 & K3)|(x0 & K1 & K2 & K3 & _)]; subst x.
      * destruct u as [u0|]; [assert (X : is_sync b = true) by (apply U; discriminate); congruence|].
        cbn [chain]. exact K2.
      * rewrite errs_on_exc by exact K3. cbn [errs log set_hlog]. rewrite K2. reflexivity.
    + inversion I. rewrite errs_on_exc; [reflexivity|exact C].
Qed.

Lemma errs_handle_notification : forall tag m s src, immediate_src (FNotif true tag POk m) = Some src ->
  errs (handle_notification c tag m s) = errs s ++ [src].
Proof.
  intros tag m s src I. cbn [immediate_src negb] in I. unfold handle_notification.
  destruct m as [|b|i|u|fails u]; try discriminate.
  - destruct (fails_at_once b) eqn:F; [|discriminate]. inversion I.
    pose proof (errs_exec_notification_at_once (WNot tag) PUser b s F) as K. cbn zeta in K.
    destruct (exec_notification c (WNot tag) PUser b s) as [s1 x]. cbn [fst snd] in K.
    destruct K as [(K1 & K2)|(x0 & K1 & K2)]; subst x; [exact K2|]. rewrite errs_hook, K2. reflexivity.
  - destruct fails; [|discriminate]. inversion I. rewrite errs_hook. reflexivity.
Qed.

(* one_report_each: a bad frame adds exactly one entry to the log of hook calls, of the stated kind *)
Theorem recv_report : forall f s src, immediate_src f = Some src -> closed s = false ->
  (gated f = true -> shutdown s = false) ->
  (match f with FResp _ i _ _ => unknown_id s i = true | _ => True end) ->
  errs (recv c f s) = errs s ++ [src].
Proof.
  intros f s src I C G U. unfold recv. destruct f as [|v i ps m|v tag ps m|v i iserr ps].
  - inversion I. apply errs_hook.
  - destruct ps.
    + destruct v; cbn [negb].
      * rewrite (G eq_refl). apply errs_handle_request; assumption.
      * inversion I. apply errs_hook.
    + inversion I. rewrite errs_hook, errs_send_error; [reflexivity|exact C|left; reflexivity].
    + inversion I. rewrite errs_hook, errs_send_error; [reflexivity|exact C|left; reflexivity].
  - destruct ps; try (inversion I; apply errs_hook).
    destruct v; cbn [negb]; [|inversion I; apply errs_hook].
    rewrite (G eq_refl). cbn [andb]. apply errs_handle_notification. exact I.
  - inversion I. unfold unknown_id in U. apply andb_true_iff in U. destruct U as [U1 U2].
    apply negb_true_iff in U1. rewrite U1.
    destruct (negb iserr && negb false) eqn:Q; [rewrite errs_hook; reflexivity|].
    destruct ps; try (rewrite errs_hook; reflexivity).
    destruct v; cbn [negb]; [|rewrite errs_hook; reflexivity].
    destruct iserr; [|discriminate]. cbn [shutdown rtype_pop set_rtypes]. rewrite (G eq_refl).
    unfold handle_response. cbn [futs rtype_pop set_rtypes].
    destruct (Assoc.get id_eqb i (futs s)); [discriminate|]. rewrite errs_hook. reflexivity.
Qed.

(* for async / thread handlers the entry appears when the done-callback runs *)
Theorem loop_cb_report : forall t tk r s, nth_error (tasks s) t = Some tk -> t_st tk = TDoneCb r -> failed r = true ->
  closed s = false -> errs (loop_cb c t s) = errs s ++ [deferred_src (t_cb tk)].
Proof.
  intros t tk r s N T F C. unfold loop_cb. rewrite N, T.
  rewrite errs_run_cb_failed; [reflexivity|exact F|exact C|]. destruct (t_cb tk); [left; reflexivity|exact I].
Qed.

Theorem job_finish_report : forall j jb s, nth_error (jobs s) j = Some jb -> j_st jb = JRunning -> raising (j_b jb) = true ->
  closed s = false -> c_writer c = WBlocking ->
  errs (job_finish c j s) = errs s ++ [deferred_src (j_cb jb)].
Proof.
  intros j jb s N J F C W. unfold job_finish. rewrite N, J.
  rewrite errs_run_cb_failed; [reflexivity|apply failed_res_of; exact F|exact C|].
  destruct (j_cb jb); [right; exact W|exact I].
Qed.
End Reports.

(* the reference of the correspondence run (owed_report under owed_guard) is what these theorems say *)
Theorem owed_sound : forall c s e src, owed_report s e = Some src -> owed_guard c s e = true ->
  errs (step c s e) = errs s ++ [src].
Proof.
  intros c s e src O G. unfold owed_guard in G. destruct (c_wfail c) eqn:WF; [discriminate|].
  apply andb_true_iff in G. destruct G as [G1 G2]. apply negb_true_iff in G1.
  unfold owed_report in O. unfold step. destruct (exit s); [discriminate|].
  destruct e as [f|t|t|j|j| | |i]; try discriminate.
  - destruct (gated f && shutdown s) eqn:Q; [discriminate|].
    assert (I : immediate_src f = Some src).
    { destruct f as [|v i ps m|v tag ps m|v i iserr ps]; try exact O. destruct (unknown_id s i); [exact O|discriminate]. }
    assert (U : match f with FResp _ i _ _ => unknown_id s i = true | _ => True end).
    { destruct f as [|v i ps m|v tag ps m|v i iserr ps]; try exact Logic.I. destruct (unknown_id s i); [reflexivity|discriminate]. }
    apply (recv_report c WF f s src I G1); [|exact U].
    intros Gf. rewrite Gf in Q. exact Q.
  - destruct (nth_error (tasks s) t) as [tk|] eqn:N; [|discriminate].
    destruct (t_st tk) as [| r |] eqn:T; try discriminate. destruct (failed r) eqn:F; [|discriminate].
    inversion O. eapply loop_cb_report; eassumption.
  - destruct (nth_error (jobs s) j) as [jb|] eqn:N; [|discriminate].
    destruct (j_st jb) eqn:J; try discriminate. destruct (raising (j_b jb)) eqn:F; [|discriminate].
    inversion O. apply job_finish_report; try assumption. destruct (c_writer c); [reflexivity|discriminate].
Qed.

(* ================================================================ (iv) a raising hook *)
(* two configurations whose hooks, writers and failure points behave alike drive the endpoint alike *)
Section CfgExt.
Variables c c' : cfg.
Hypothesis Hh : forall sv src s, hook c sv src s = hook c' sv src s.
Hypothesis Hw : c_writer c = c_writer c'.
Hypothesis Hf : c_wfail c = c_wfail c'.

Lemma ext_do_write : forall f s, do_write c f s = do_write c' f s.
Proof. intros. unfold do_write, failing. rewrite Hf. reflexivity. Qed.
Lemma ext_write_call : forall sv f s, write_call c sv f s = write_call c' sv f s.
Proof. intros. unfold write_call. rewrite Hw, ext_do_write. reflexivity. Qed.
Lemma ext_send_data : forall sv f ok s, send_data c sv f ok s = send_data c' sv f ok s.
Proof.
  intros. unfold send_data. rewrite Hh, ext_write_call. destruct (write_call c' sv f s) as [s1 b].
  rewrite Hh. reflexivity.
Qed.
Lemma ext_send_response : forall sv i r s, send_response c sv i r s = send_response c' sv i r s.
Proof.
  intros. unfold send_response. destruct r as [code|v ok]; rewrite ext_send_data; [reflexivity|].
  destruct (send_data c' sv (OResp i (PResult v)) ok (rtype_pop i s)) as [s2 b]. rewrite ext_send_data. reflexivity.
Qed.
Lemma ext_run_cb : forall sv cb r s, run_cb c sv cb r s = run_cb c' sv cb r s.
Proof.
  intros. unfold run_cb, request_callback, notification_callback.
  destruct cb; destruct r; rewrite ?Hh, ?ext_send_response; reflexivity.
Qed.
Lemma ext_cancel_ref : forall r s, cancel_ref c r s = cancel_ref c' r s.
Proof.
  intros. unfold cancel_ref. destruct r; try reflexivity.
  destruct (nth_error (jobs s) j) as [jb|]; [|reflexivity]. destruct (j_st jb); try reflexivity. apply ext_run_cb.
Qed.
Lemma ext_submit : forall w p cb b early reg s, submit c w p cb b early reg s = submit c' w p cb b early reg s.
Proof. intros. unfold submit. destruct early; [apply ext_run_cb|reflexivity]. Qed.
Lemma ext_execute_request : forall i p b s, execute_request c i p b s = execute_request c' i p b s.
Proof.
  intros. unfold execute_request. destruct (bkind b); [|reflexivity|rewrite ext_submit; reflexivity].
  destruct (bout b); rewrite ?ext_send_response; reflexivity.
Qed.
Lemma ext_exec_notification : forall w p b s, exec_notification c w p b s = exec_notification c' w p b s.
Proof. intros. unfold exec_notification. destruct (bkind b); [reflexivity|reflexivity|rewrite ext_submit; reflexivity]. Qed.
Lemma ext_chain : forall w u s, chain c w u s = chain c' w u s.
Proof. intros. unfold chain. destruct u; [rewrite ext_exec_notification|]; reflexivity. Qed.
Lemma ext_on_exc : forall i x s, on_exc c i x s = on_exc c' i x s.
Proof. intros. unfold on_exc. destruct x as [[|code]|]; rewrite ?Hh, ?ext_send_response; reflexivity. Qed.
Lemma ext_fold_cancel : forall l s, fold_left (fun s' r => cancel_ref c r s') l s = fold_left (fun s' r => cancel_ref c' r s') l s.
Proof. induction l as [|r l IH]; intros s; [reflexivity|]. cbn [fold_left]. rewrite ext_cancel_ref. apply IH. Qed.
Lemma ext_lsp_shutdown : forall s, lsp_shutdown c s = lsp_shutdown c' s.
Proof. intros. unfold lsp_shutdown. rewrite ext_fold_cancel. reflexivity. Qed.
Lemma ext_handle_request : forall i m s, handle_request c i m s = handle_request c' i m s.
Proof.
  intros. unfold handle_request. destruct m as [|b|u|fails u|cmd u].
  - rewrite Hh, ext_send_response. reflexivity.
  - rewrite ext_execute_request. destruct (execute_request c' i PUser b s). apply ext_on_exc.
  - rewrite ext_lsp_shutdown, ext_chain, ext_send_response. reflexivity.
  - destruct fails; [apply ext_on_exc|]. rewrite ext_chain, ext_send_response. reflexivity.
  - destruct cmd as [b|]; [|apply ext_on_exc].
    rewrite ext_execute_request. destruct (execute_request c' i PCommand b (log (WReq i) PBuiltin HStart Loop s)) as [s2 x].
    destruct x; [apply ext_on_exc|apply ext_chain].
Qed.
Lemma ext_cancel_notification : forall i s, cancel_notification c i s = cancel_notification c' i s.
Proof. intros. unfold cancel_notification. destruct (Assoc.get id_eqb i (futs s)); [apply ext_cancel_ref|reflexivity]. Qed.
Lemma ext_lsp_exit : forall w u s, lsp_exit c w u s = lsp_exit c' w u s.
Proof. intros. unfold lsp_exit. rewrite Hw. case (c_writer c'); [reflexivity|apply ext_chain]. Qed.
Lemma ext_handle_notification : forall tag m s, handle_notification c tag m s = handle_notification c' tag m s.
Proof.
  intros. unfold handle_notification. destruct m as [|b|i|u|fails u].
  - reflexivity.
  - rewrite ext_exec_notification. destruct (exec_notification c' (WNot tag) PUser b s) as [s1 x]. destruct x; [apply Hh|reflexivity].
  - apply ext_cancel_notification.
  - apply ext_lsp_exit.
  - destruct fails; [apply Hh|apply ext_chain].
Qed.
Lemma ext_handle_response : forall i s, handle_response c i s = handle_response c' i s.
Proof.
  intros. unfold handle_response. destruct (Assoc.get id_eqb i (futs s)) as [r|]; [|apply Hh].
  destruct r; rewrite ?Hh; reflexivity.
Qed.
Lemma ext_recv : forall f s, recv c f s = recv c' f s.
Proof.
  intros. unfold recv. destruct f as [|v i ps m|v tag ps m|v i iserr ps].
  - apply Hh.
  - destruct ps; rewrite ?Hh, ?ext_send_response; try reflexivity.
    destruct (negb v); [reflexivity|]. destruct (shutdown s); [reflexivity|apply ext_handle_request].
  - destruct ps; rewrite ?Hh; try reflexivity.
    destruct (negb v); [reflexivity|]. destruct (shutdown s && negb (is_exit m)); [reflexivity|apply ext_handle_notification].
  - rewrite !Hh. destruct (negb iserr && negb (Assoc.mem id_eqb i (rtypes s))); [reflexivity|].
    destruct ps; try reflexivity. destruct (negb v); [reflexivity|].
    destruct (shutdown (rtype_pop i s)); [reflexivity|apply ext_handle_response].
Qed.
Lemma ext_step : forall s e, step c s e = step c' s e.
Proof.
  intros. unfold step. destruct (exit s); [reflexivity|]. destruct e; try reflexivity.
  - apply ext_recv.
  - unfold loop_cb. destruct (nth_error (tasks s) t) as [tk|]; [|reflexivity]. destruct (t_st tk); try reflexivity. apply ext_run_cb.
  - unfold job_finish. destruct (nth_error (jobs s) j) as [jb|]; [|reflexivity]. destruct (j_st jb); try reflexivity. apply ext_run_cb.
  - unfold write_step. destruct (wq s) as [|[f|rc] r]; try reflexivity. rewrite ext_do_write. reflexivity.
  - unfold user_send. rewrite ext_send_data. reflexivity.
Qed.
Lemma ext_run : forall evs s, fold_left (step c) evs s = fold_left (step c') evs s.
Proof. induction evs as [|e r IH]; intros s; [reflexivity|]. cbn [fold_left]. rewrite ext_step. apply IH. Qed.
End CfgExt.

Definition quiet_of (c : cfg) : cfg := mkCfg (c_writer c) HookQuiet (c_wfail c).

(* hook_raise_contained: a report_server_error override that raises is, for the endpoint, a hook that
   does nothing - whatever the schedule; nothing else is disturbed and nothing ends *)
Theorem hook_raise_contained : forall c evs, c_hook c = HookRaises -> run c evs = run (quiet_of c) evs.
Proof.
  intros c evs H. unfold run. apply ext_run; try reflexivity.
  intros sv src s. unfold hook, quiet_of. cbn [c_hook]. rewrite H. reflexivity.
Qed.

(* the read loops are handed the protected handler at every call site, so the call of the handler
   inside the loop's `except` clause returns whatever the user's hook does *)
Theorem sites_protected : forall cs k, Contain.handler_call (Contain.passes cs) k = true.
Proof. intros cs k. destruct k; reflexivity. Qed.

(* ================================================================ the literal form of (ii) *)
(* bad frames that own nothing (no reply, no handler): with B empty the erased schedule is the
   schedule minus the marked frames, literally *)
Definition nobody : who -> bool := fun _ => false.

Lemma rank_all : forall (A : Type) (p : A -> bool) l n, (forall x, p x = true) -> rank p l n = n.
Proof.
  intros A p l. induction l as [|x r IH]; intros n H; [apply rank_nil|].
  destruct n; [reflexivity|]. cbn [rank]. rewrite H, IH by exact H. reflexivity.
Qed.

Lemma erase1_nobody : forall s e, erase1 nobody s (false, e) = [e].
Proof.
  intros s e. unfold erase1. cbn [fst snd]. destruct e; try reflexivity.
  - unfold erase_task. rewrite rank_all by reflexivity. destruct (nth_error (tasks s) t); reflexivity.
  - unfold erase_task. rewrite rank_all by reflexivity. destruct (nth_error (tasks s) t); reflexivity.
  - unfold erase_job. rewrite rank_all by reflexivity. destruct (nth_error (jobs s) j); reflexivity.
  - unfold erase_job. rewrite rank_all by reflexivity. destruct (nth_error (jobs s) j); reflexivity.
  - destruct (wq s) as [|[f|rc] r]; try reflexivity. cbn [good_w own]. destruct f; reflexivity.
Qed.

Definition lift (evs : list ev) : list (bool * ev) := map (fun e => (false, e)) evs.

Lemma erase_lift : forall c evs s, erase_from nobody c s (lift evs) = evs.
Proof.
  intros c evs. induction evs as [|e r IH]; intros s; [reflexivity|].
  cbn [lift map erase_from]. rewrite erase1_nobody. cbn [snd app]. f_equal. apply IH.
Qed.

Lemma wf1_nobody : forall s e, wf1 nobody s (false, e) = true.
Proof. intros s e. cbn [wf1]. destruct e; try reflexivity. destruct f; reflexivity. Qed.

Lemma wf_lift : forall c evs s, wf_from nobody c s (lift evs) = true.
Proof.
  intros c evs. induction evs as [|e r IH]; intros s; [reflexivity|].
  cbn [lift map wf_from]. rewrite wf1_nobody. cbn [snd andb]. apply IH.
Qed.

Lemma unmark_lift : forall evs, unmark (lift evs) = evs.
Proof. intros. unfold unmark, lift. rewrite map_map. cbn [snd]. apply map_id. Qed.

Lemma erase_from_app : forall B c l1 l2 s,
  erase_from B c s (l1 ++ l2) = erase_from B c s l1 ++ erase_from B c (fold_left (step c) (unmark l1) s) l2.
Proof.
  intros B c l1. induction l1 as [|me r IH]; intros l2 s; [reflexivity|].
  cbn [app erase_from unmark map fold_left]. rewrite IH, app_assoc. reflexivity.
Qed.
Lemma wf_from_app : forall B c l1 l2 s,
  wf_from B c s (l1 ++ l2) = wf_from B c s l1 && wf_from B c (fold_left (step c) (unmark l1) s) l2.
Proof.
  intros B c l1. induction l1 as [|me r IH]; intros l2 s; [reflexivity|].
  cbn [app wf_from unmark map fold_left]. rewrite IH, andb_assoc. reflexivity.
Qed.

(* neighbours_unchanged: evs1 ++ bad :: evs2 against evs1 ++ evs2, for ARBITRARY evs1 and evs2 *)
Theorem neighbours_unchanged : forall c evs1 f evs2, cfg_ok c = true ->
  contained nobody (run c evs1) f = true ->
  core_of nobody (run c (evs1 ++ Recv f :: evs2)) = obs (run c (evs1 ++ evs2)).
Proof.
  intros c evs1 f evs2 C K.
  pose (mevs := lift evs1 ++ (true, Recv f) :: lift evs2).
  assert (U : unmark mevs = evs1 ++ Recv f :: evs2).
  { unfold mevs, unmark. rewrite map_app. cbn [map snd]. fold (unmark (lift evs1)). fold (unmark (lift evs2)).
    rewrite !unmark_lift. reflexivity. }
  assert (E : erase c nobody mevs = evs1 ++ evs2).
  { unfold erase, mevs. rewrite erase_from_app, erase_lift. cbn [erase_from erase1 fst app]. rewrite erase_lift. reflexivity. }
  assert (W : wf c nobody mevs = true).
  { unfold wf, mevs. rewrite wf_from_app, wf_lift. cbn [wf_from wf1 snd andb]. rewrite unmark_lift.
    fold (run c evs1). rewrite K. cbn [andb]. apply wf_lift. }
  rewrite <- U, <- E. apply noninterference; assumption.
Qed.

(* ================================================================ bytes to endpoint state *)
Section Pipeline.
Import Model.Framing Spec.FramingSpec Model.Contain.
Variable classify : list N -> Endpoint.frame.

(* a frame with a bad body anywhere in a stream of conforming frames: the endpoint ends in the
   state - up to the error log - it reaches without that frame, and the read loop ends normally *)
Theorem stream_contained : forall c k ms1 b ms2, cfg_ok c = true ->
  Forall (conforming k) ms1 -> conforming k b -> Forall (conforming k) ms2 ->
  contained nobody (Endpoint.run c (deliver classify (bodies_of ms1))) (classify (snd b)) = true ->
  let (s, r) := serve classify c k (frames (ms1 ++ b :: ms2)) in
  let (s0, r0) := serve classify c k (frames (ms1 ++ ms2)) in
  core_of nobody s = obs s0 /\ r = Done EndedNormally /\ r0 = Done EndedNormally.
Proof.
  intros c k ms1 b ms2 C H1 Hb H2 K. unfold serve.
  destruct (Fr.neighbours_unchanged_framing k ms1 b ms2 H1 Hb H2) as [E1 E2]. rewrite E1, E2.
  split; [|split; reflexivity].
  unfold deliver. rewrite !map_app. cbn [map]. apply neighbours_unchanged; assumption.
Qed.
End Pipeline.
