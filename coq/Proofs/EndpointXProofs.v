(* Proofs/EndpointXProofs.v - the invariants of Model/Endpoint.v survive the two extra events of
   Model/EndpointX.v (server-side cancel without pop, local cancel of an outgoing future):
     fw_stepx / fw_runx      table well-formedness FW (C08 frame, C16)
     lax_stepx / lax_runx    balance <= requested, no guard (C01 safety: never doubled)
     inv_stepx               balance = owed under C01's side conditions (C01: never lost)
     runx_base               histories without the new events are exactly Endpoint.run *)
From Coq Require Import ZArith NArith List Bool Lia Arith.
From Pygls Require Import Base.Assoc Base.AssocFacts Model.Endpoint Model.EndpointX Spec.EndpointSpec
  Proofs.EndpointInv Proofs.EndpointLax Proofs.EndpointFuts.
Import ListNotations.

Lemma runx_base : forall c evs, runx c (map Base evs) = run c evs.
Proof.
  intros c evs. unfold runx, run. generalize init. induction evs as [|e r IH]; intro s; cbn [map fold_left]; [reflexivity|apply IH].
Qed.

Lemma fw_server_cancel : forall c i s, FW s -> FW (server_cancel c i s).
Proof. intros c i s F. unfold server_cancel. destruct (Assoc.get id_eqb i (futs s)); [apply fw_cancel_ref|]; exact F. Qed.

Lemma fw_out_cancel : forall o s, FW s -> FW (out_cancel o s).
Proof. intros o s F. unfold out_cancel. destruct (nth_error (outg s) o) as [[| |]|]; exact F. Qed.

Theorem fw_stepx : forall c s e, FW s -> FW (stepx c s e).
Proof.
  intros c s e F. destruct e as [e|i|o]; cbn [stepx].
  - apply fw_step. exact F.
  - destruct (exit s); [exact F|apply fw_server_cancel; exact F].
  - destruct (exit s); [exact F|apply fw_out_cancel; exact F].
Qed.

Theorem fw_runx : forall c evs, FW (runx c evs).
Proof.
  intros c evs. unfold runx. assert (H : forall s, FW s -> FW (fold_left (stepx c) evs s)).
  { induction evs as [|e r IH]; intros s F; cbn [fold_left]; [exact F|]. apply IH, fw_stepx. exact F. }
  apply H, fw_init.
Qed.

(* ------------------------------------------------------------------ the balance *)
Definition answerablex (s : st) (e : evx) : list id := match e with Base e => answerable s e | _ => [] end.

Lemma bal_out_cancel : forall j o s, bal j (out_cancel o s) = bal j s.
Proof. intros j o s. unfold out_cancel. destruct (nth_error (outg s) o) as [[| |]|]; reflexivity. Qed.

Theorem lax_stepx : forall c s e j, bal j (stepx c s e) <= bal j s + count_id j (answerablex s e).
Proof.
  intros c s e j. destruct e as [e|i|o]; cbn [stepx answerablex].
  - apply lax_step.
  - destruct (exit s); [cbn; lia|]. unfold server_cancel. destruct (Assoc.get id_eqb i (futs s)); [|cbn; lia].
    pose proof (lax_cancel_ref c f s j). cbn. lia.
  - destruct (exit s); [cbn; lia|]. rewrite bal_out_cancel. cbn. lia.
Qed.

Fixpoint seen_fromx (c : cfg) (s : st) (evs : list evx) : list id :=
  match evs with [] => [] | e :: r => answerablex s e ++ seen_fromx c (stepx c s e) r end.

Definition req_idx (e : evx) : list id := match e with Base e => req_id e | _ => [] end.
Definition req_idsx (evs : list evx) : list id := flat_map req_idx evs.

Theorem lax_runx : forall c evs j, bal j (runx c evs) <= count_id j (req_idsx evs).
Proof.
  intros c evs j. unfold runx.
  assert (G : forall evs s, bal j (fold_left (stepx c) evs s) <= bal j s + count_id j (req_idsx evs)).
  { induction evs0 as [|e r IH]; intro s; cbn [fold_left]; [cbn; lia|].
    specialize (IH (stepx c s e)). pose proof (lax_stepx c s e j) as L.
    assert (A : count_id j (answerablex s e) <= count_id j (req_idx e)).
    { destruct e as [e| |]; cbn [answerablex req_idx]; [apply answerable_sub|cbn; lia|cbn; lia]. }
    unfold req_idsx in *. cbn [flat_map]. rewrite count_id_app. lia. }
  apply (G evs init).
Qed.

(* never doubled, with the new events too *)
Theorem at_most_one_reply_x : forall c evs i, NoDup (req_idsx evs) -> replies i (out (runx c evs)) <= 1.
Proof.
  intros c evs i ND. assert (replies i (out (runx c evs)) <= bal i (runx c evs)) by (unfold bal; lia).
  pose proof (lax_runx c evs i). pose proof (nodup_count i _ ND). lia.
Qed.

(* never lost: one-step preservation of C01's invariant for the new events *)
Theorem inv_stepx : forall c s e seen, c_wfail c = None ->
  match e with Base e => frame_ok c e | _ => True end ->
  Inv c s seen -> Inv c (stepx c s e) (seen ++ answerablex s e).
Proof.
  intros c s e seen F FO I. destruct e as [e|i|o]; cbn [stepx answerablex].
  - apply inv_step; assumption.
  - rewrite app_nil_r. destruct I as [G B]. rewrite (proj1 (proj2 (proj2 (proj2 G)))).
    unfold server_cancel. destruct (Assoc.get id_eqb i (futs s)); [|split; assumption].
    destruct (post_cancel_ref c f s G F) as (G' & B' & _). split; [exact G'|].
    intro j. rewrite B', B. unfold zero. lia.
  - rewrite app_nil_r. destruct I as [G B]. rewrite (proj1 (proj2 (proj2 (proj2 G)))).
    unfold out_cancel. destruct (nth_error (outg s) o) as [[| |]|]; split; assumption.
Qed.
